/-
  Cosi.Base — shared helpers for the line protocol between the Go harness and the
  Lean driver. Core Lean only (no Mathlib) so that the driver links as a lean_exe.

  A line is `op key=value key=value ...`; values are tokens over a restricted
  alphabet, lists are comma separated, maps are `k:v,k:v`; free strings are
  hex-encoded by the engines that need them.
-/
namespace Cosi

/-- Split a line into the op name and its `key=value` arguments. -/
def parseLine (line : String) : String × List (String × String) :=
  let toks := (line.splitOn " ").filter (· ≠ "")
  match toks with
  | [] => ("", [])
  | op :: rest =>
    (op, rest.map fun t =>
      match t.splitOn "=" with
      | [k] => (k, "")
      | k :: vs => (k, "=".intercalate vs)
      | [] => ("", ""))

def arg (args : List (String × String)) (k : String) : String :=
  match args.find? (·.1 == k) with
  | some (_, v) => v
  | none => ""

def hasArg (args : List (String × String)) (k : String) : Bool :=
  (args.find? (·.1 == k)).isSome

def argNat (args : List (String × String)) (k : String) : Nat :=
  (arg args k).toNat?.getD 0

def argNat? (args : List (String × String)) (k : String) : Option Nat :=
  (arg args k).toNat?

def argInt (args : List (String × String)) (k : String) : Int :=
  (arg args k).toInt?.getD 0

/-- comma separated list, empty string = empty list -/
def splitList (s : String) : List String :=
  if s == "" then [] else s.splitOn ","

def argList (args : List (String × String)) (k : String) : List String :=
  splitList (arg args k)

/-- `k:v,k:v` -/
def splitMap (s : String) : List (String × String) :=
  (splitList s).map fun kv =>
    match kv.splitOn ":" with
    | [k] => (k, "")
    | k :: vs => (k, ":".intercalate vs)
    | [] => ("", "")

def joinList (l : List String) : String := ",".intercalate l

def joinMap (m : List (String × String)) : String :=
  ",".intercalate (m.map fun (k, v) => k ++ ":" ++ v)

/-- insertion sort on a key, stable; used for canonical output only -/
def insertBy {α} (lt : α → α → Bool) (x : α) : List α → List α
  | [] => [x]
  | y :: ys => if lt x y then x :: y :: ys else y :: insertBy lt x ys

def sortBy {α} (lt : α → α → Bool) (l : List α) : List α :=
  l.foldr (insertBy lt) []

def hexDigit (c : Char) : Option Nat :=
  if '0' ≤ c ∧ c ≤ '9' then some (c.toNat - '0'.toNat)
  else if 'a' ≤ c ∧ c ≤ 'f' then some (c.toNat - 'a'.toNat + 10)
  else if 'A' ≤ c ∧ c ≤ 'F' then some (c.toNat - 'A'.toNat + 10)
  else none

def hexToBytesAux : List Char → List UInt8 → Option (List UInt8)
  | [], acc => some acc.reverse
  | [_], _ => none
  | a :: b :: rest, acc =>
    match hexDigit a, hexDigit b with
    | some x, some y => hexToBytesAux rest (UInt8.ofNat (x * 16 + y) :: acc)
    | _, _ => none

def hexToBytes (s : String) : Option (List UInt8) := hexToBytesAux s.toList []

def nibble (n : Nat) : Char :=
  if n < 10 then Char.ofNat ('0'.toNat + n) else Char.ofNat ('a'.toNat + n - 10)

def bytesToHex (bs : List UInt8) : String :=
  String.ofList (bs.flatMap fun b => [nibble (b.toNat / 16), nibble (b.toNat % 16)])

def boolStr (b : Bool) : String := if b then "true" else "false"

end Cosi
