/-
  Property C02 for the machinery REGENERATED from the source text (`…With genRules`, Cosi.Model.WatchRules — what
  the driver of engine `watch` runs in model mode). Every theorem here evaluates regenerated facts of
  pkg/state/impl/inmem/collection.go (Cosi.Gen.Watch) by `decide`: a changed decision point of publish / Watch /
  WatchAll breaks exactly the theorems that rest on it. Leaf module (nothing imports it), so that a broken theorem
  here does not hide the others.

    genRules_good                  every regenerated decision point is the intended one
    src_publish_inv                publish keeps the ring a refinement of the log          (Gen.Watch.pub…)
    src_slice_eq_log               the batch copy reads exactly the log suffix, lag = capacity included
                                                                                            (kindBatchGuard / kindBatchCopy)
    src_loop_capacity, src_scanSingle_spec
                                   the loops work with the capacity in force                (single/kind…Cap)
    src_fetch_is_fetch             one loop iteration is the intended one
    src_delivered_is_log_segment   C02 for every schedule
    src_fetch_no_error, src_cap_ge_init
    src_log_replays_to_store, src_rejected_write_untouched   (C02Store)
-/
import Cosi.Props.C02Rules
open Cosi
namespace Cosi.C02

/-- every regenerated decision point of publish / Watch / WatchAll / decodeBookmark is the intended one -/
theorem genRules_good : genRules = goodRules := by decide

/-- publish of the current source keeps the ring a refinement of the log (growth test, growth rule, stamp,
    slot, order: Gen.Watch.pub…) -/
theorem src_publish_inv (r : Ring) (e : Event) (h : RingInv r) : RingInv (r.publishWith genRules e) := by
  rw [publishWith_good genRules (by decide)]; exact publish_inv r e h

/-- the batch copy of the current source (Gen.Watch.kindBatchGuard / kindBatchCopy / kindFirst / kindLast) reads
    exactly the log suffix, for every lag up to and INCLUDING the capacity -/
theorem src_slice_eq_log (r : Ring) (h : RingInv r) (pos : Nat) (h1 : pos < r.writePos)
    (h2 : r.writePos - pos ≤ r.cap) : r.sliceWith genRules r.cap pos = r.log.drop pos := by
  rw [sliceWith_good genRules (by decide) (by decide)]; exact slice_eq_log r h pos h1 h2

/-- the loops of the current source work with the capacity of the ring AS IT IS NOW (re-read under the lock in
    every iteration), not with the one at establishment -/
theorem src_loop_capacity (w : Watcher) (r : Ring) : capOf genRules.sCap w r = r.cap ∧ capOf genRules.kCap w r = r.cap := by
  have h1 : genRules.sCap = .field := by decide
  have h2 : genRules.kCap = .field := by decide
  rw [h1, h2]; exact ⟨rfl, rfl⟩

/-- the scan of the single-resource loop of the current source stops right after the first event of its id -/
theorem src_scanSingle_spec (w : Watcher) (r : Ring) (h : RingInv r) (id : String) (fuel pos : Nat) (h1 : pos ≤ r.writePos)
    (h2 : r.writePos - pos ≤ r.cap) (h3 : r.writePos - pos ≤ fuel) :
    pos ≤ (scanSingleWith r (capOf genRules.sCap w r) id fuel pos).1 ∧
      (scanSingleWith r (capOf genRules.sCap w r) id fuel pos).1 ≤ r.writePos ∧
      (seg r.log pos (scanSingleWith r (capOf genRules.sCap w r) id fuel pos).1).filterMap (viewSingle id) =
        (scanSingleWith r (capOf genRules.sCap w r) id fuel pos).2.toList := by
  rw [(src_loop_capacity w r).1, scanSingleWith_good]
  obtain ⟨a, b, c, _⟩ := scanSingle_spec r h id fuel pos h1 h2 h3
  exact ⟨a, b, c⟩

/-- one loop iteration of the current source is the intended one (overrun test, capacity source, scan, batch copy,
    rewriting: Gen.Watch.single… / kind…) -/
theorem src_fetch_is_fetch (w : Watcher) (r : Ring) : w.fetchWith genRules r = w.fetch r :=
  fetchWith_good genRules (by decide) (by decide) (by decide) w r

/-- **C02 for the machinery regenerated from the source text**: for every schedule of writes, goroutine steps and
    receives what the subscriber has been handed is a prefix of its initial events, then the view of the contiguous
    log segment `[start, pos)` in commit order, then (only if overrun) one terminal `Errored`. -/
theorem src_delivered_is_log_segment (r0 : Ring) (g0 : GW) (hr : RingInv r0) (h : GInv g0 r0) (acts : List Act) :
    let s := acts.foldl (actWith genRules) (r0, g0)
    RingInv s.1 ∧ GInv s.2 s.1 ∧ s.2.delivered <+: s.2.expected s.1 := by
  rw [actWith_good genRules (by decide) (by decide) (by decide) (by decide)]
  exact delivered_is_log_segment r0 g0 hr h acts

/-- a watcher of the current source that lags by no more than the initial capacity is never errored -/
theorem src_fetch_no_error (w : Watcher) (r : Ring) (initCap : Nat) (hd : w.dead = false)
    (hlag : r.writePos - w.pos ≤ initCap) (hcap : initCap ≤ r.cap) : (w.fetchWith genRules r).dead = false := by
  rw [src_fetch_is_fetch]; exact fetch_no_error w r initCap hd hlag hcap

theorem src_cap_ge_init (i m g : Nat) (es : List Event) :
    i ≤ (es.foldl (Ring.publishWith genRules) (Ring.new i m g)).cap := by
  have : Ring.publishWith genRules = Ring.publish := by
    funext r e; exact publishWith_good genRules (by decide) r e
  rw [this]; exact cap_ge_init i m g es

/-- **the log of a kind is the history of that kind, for the publish of the current source text** (rests on the
    regenerated shape of `publish`: every successful write appends exactly one event, stamped with its position) -/
theorem src_log_replays_to_store (ops : List Op) (s : WSys) (t0 : Nat) (h : LogInv s) :
    LogInv (WSys.runOpsWith genRules s t0 ops) := by
  rw [runOpsWith_good genRules (by decide)]; exact log_replays_to_store ops s t0 h

/-- a write the backing store rejects leaves state, logs and watchers untouched — for the current source text -/
theorem src_rejected_write_untouched (s : WSys) (now : Nat) (op : Op) :
    (s.storeOpBSWith genRules true now op).1 = s ∨ (s.storeOpBSWith genRules true now op) = s.storeOpWith genRules now op := by
  rw [storeOpBSWith_good genRules (by decide), storeOpWith_good genRules (by decide)]
  exact rejected_write_untouched s now op

end Cosi.C02
