/-
  Property C16 — fault containment, loud failure and clean shutdown of the controller runtime.

  "A controller, run hook or task that returns an error or panics is restarted with
   exponentially growing, success-resettable backoff and gets a fresh reconcile; a failing
   queue item is retried without blocking other items; neither affects other controllers nor
   stops the runtime, and once faults cease the system converges as if they had not happened.
   If an underlying watch fails, the runtime stops and returns that error instead of running on
   stale notifications, and on cancellation Run returns with every goroutine, watch and hook
   stopped and no write issued afterwards."

  All theorems quantify over ALL finite fault patterns: arbitrary event lists of the restart
  loops (`List REv`, `List BEv`), of the queue (`Queue.Step`) and of the runtime machine
  (`List Ev`: writes, deliveries, reconciles that succeed / fail / panic with arbitrary partial
  outputs, restarts, watch errors, cancellation, in any order). Events that are not enabled in a
  state are no-ops of the machines, so "any list" = "any schedule".

  The model consumes the regenerated facts `Cosi.Gen.Restart.*` (recover present, re-trigger
  after the backoff wait, backoff construction, ResetRestartBackoff = Reset(), hook reset
  threshold, watch-error path of Run, capacity of `watchErrors` and shape of the send that reports
  a failed watch on it) and the cenkalti constants of `Cosi.Gen.Queue`; `facts` and
  `facts_watch_channel` below pin them, and every theorem that needs one breaks when the source
  changes it.
-/
import Cosi.Model.Restart
import Cosi.Props.C09
import Cosi.Props.C09Retry
import Cosi.Spec.Restart

namespace Cosi.C16

open Cosi Cosi.Restart Cosi.Queue.Backoff

/-! ### the regenerated facts the theorems rest on -/

theorem facts :
    rBackoffKnown = true ∧ Gen.Restart.rRecovers = true ∧ Gen.Restart.rRetrigger = true ∧
    Gen.Restart.rResetResets = true ∧ Gen.Restart.rInitialTrigger = true ∧
    hookBackoffKnown = true ∧ Gen.Restart.hookRecovers = true ∧ Gen.Restart.hookResetAfterNs = 60000000000 ∧
    taskBackoffKnown = true ∧ Gen.Restart.taskRecovers = true ∧
    Gen.Restart.qRecovers = true ∧ Gen.Restart.qWorkerLoops = true ∧ Gen.Restart.triggerNonBlocking = true ∧
    Gen.Restart.watchErrAborts = true ∧ Gen.Restart.dedupStopsOnAbort = true ∧
    Gen.Restart.runReturnsWatchErr = true ∧ Gen.Restart.runCancelsAndWaits = true ∧
    Gen.Restart.adaptersInGroup = true := by decide

theorem nextBackoff_known (cur : Nat) : nextBackoff true cur = (bounds cur, incr cur) := rfl

/-! ### rruntime.Run: growing backoff, reset on success -/

/-- how an (enabled) event moves the count of consecutive failures -/
def rbump : REv → Nat → Nat
  | .runEnds .failed, n => n + 1
  | .runEnds .panicked, n => n + 1
  | .reset, _ => 0
  | _, n => n

/-- Defined on the event history: the number of consecutive failed runs (error or panic) since
    the controller last called ResetRestartBackoff (what the stock controllers do at the end of
    every successful reconcile), counting only events that could happen in the state they hit. -/
def rcount (s : RLoop) : List REv → Nat → Nat
  | [], n => n
  | e :: rest, n => rcount (rstep s e) rest (if e.enabled s then rbump e n else n)

theorem rstep_disabled (s : RLoop) (e : REv) (h : e.enabled s = false) : rstep s e = s := by
  simp [rstep, h]

theorem rstep_enabled (s : RLoop) (e : REv) (h : e.enabled s = true) : rstep s e = rstepOn s e := by
  simp [rstep, h]

theorem rfail_eq (s : RLoop) :
    s.fail = { s with cur := incr s.cur, phase := .backingOff (bounds s.cur).1 (bounds s.cur).2 } := by
  have h : rBackoffKnown = true := facts.1
  simp [RLoop.fail, h, nextBackoff_known]

theorem rstep_failed (s : RLoop) (h : s.phase = .running) :
    rstep s (.runEnds .failed) = s.fail := by
  rw [rstep_enabled s _ (by simp [REv.enabled, h])]; rfl

theorem rstep_panicked (s : RLoop) (h : s.phase = .running) :
    rstep s (.runEnds .panicked) = s.fail := by
  have hr : Gen.Restart.rRecovers = true := facts.2.1
  rw [rstep_enabled s _ (by simp [REv.enabled, h])]
  simp [rstepOn, hr]

theorem rstep_finished (s : RLoop) (h : s.phase = .running) :
    rstep s (.runEnds .finished) = { s with phase := .stopped } := by
  rw [rstep_enabled s _ (by simp [REv.enabled, h])]; rfl

theorem rstep_timerFires (s : RLoop) (h : s.phase.isBackingOff = true) :
    rstep s .timerFires = { s with phase := .running, pending := true } := by
  have hr : Gen.Restart.rRetrigger = true := facts.2.2.1
  rw [rstep_enabled s _ (by simpa [REv.enabled] using h)]
  simp [rstepOn, hr]

theorem rstep_ctxDone (s : RLoop) (h : s.phase.isBackingOff = true) :
    rstep s .ctxDone = { s with phase := .stopped } := by
  rw [rstep_enabled s _ (by simpa [REv.enabled] using h)]; rfl

theorem rstep_reset (s : RLoop) (h : s.phase = .running) :
    rstep s .reset = { s with cur := initial } := by
  have hr : Gen.Restart.rResetResets = true := facts.2.2.2.1
  rw [rstep_enabled s _ (by simp [REv.enabled, h])]
  simp [rstepOn, hr]

theorem rstep_takeEvent (s : RLoop) (h : s.phase = .running) (hp : s.pending = true) :
    rstep s .takeEvent = { s with pending := false } := by
  rw [rstep_enabled s _ (by simp [REv.enabled, h, hp])]; rfl

theorem rstep_trigger (s : RLoop) : rstep s .trigger = { s with pending := true } := by
  rw [rstep_enabled s _ rfl]; rfl

/-- the phase conditions under which each event is enabled -/
theorem enabled_cases (s : RLoop) (e : REv) (h : e.enabled s = true) :
    match e with
    | .runEnds _ => s.phase = .running
    | .timerFires => s.phase.isBackingOff = true
    | .ctxDone => s.phase.isBackingOff = true
    | .reset => s.phase = .running
    | .takeEvent => s.phase = .running ∧ s.pending = true
    | .trigger => True := by
  cases e <;> simp [REv.enabled] at h <;> simp [h]

theorem rstep_cur (s : RLoop) (e : REv) (n : Nat) (h : s.cur = base n) :
    (rstep s e).cur = base (if e.enabled s then rbump e n else n) := by
  by_cases hen : e.enabled s = true
  · simp only [hen, if_true]
    have hc := enabled_cases s e hen
    cases e with
    | runEnds r =>
      cases r with
      | finished => rw [rstep_finished s hc]; exact h
      | failed => rw [rstep_failed s hc, rfail_eq]; show incr s.cur = base (n + 1); rw [h]; rfl
      | panicked => rw [rstep_panicked s hc, rfail_eq]; show incr s.cur = base (n + 1); rw [h]; rfl
    | timerFires => rw [rstep_timerFires s hc]; exact h
    | ctxDone => rw [rstep_ctxDone s hc]; exact h
    | reset => rw [rstep_reset s hc]; rfl
    | takeEvent => rw [rstep_takeEvent s hc.1 hc.2]; exact h
    | trigger => rw [rstep_trigger s]; exact h
  · have hf : e.enabled s = false := by simpa using hen
    rw [rstep_disabled s e hf]; simp [hf, h]

theorem rcur_invariant (evs : List REv) (s : RLoop) (n : Nat) (h : s.cur = base n) :
    (rrun s evs).cur = base (rcount s evs n) := by
  induction evs generalizing s n with
  | nil => exact h
  | cons e rest ih => exact ih _ _ (rstep_cur s e n h)

theorem rrun_append (s : RLoop) (a b : List REv) : rrun s (a ++ b) = rrun (rrun s a) b := by
  induction a generalizing s with
  | nil => rfl
  | cons e rest ih => exact ih _

theorem rcount_append (s : RLoop) (a b : List REv) (n : Nat) :
    rcount s (a ++ b) n = rcount (rrun s a) b (rcount s a n) := by
  induction a generalizing s n with
  | nil => rfl
  | cons e rest ih => exact ih _ _

/-- **C16, restart loop of a Controller.** For EVERY history of the loop (runs ending in error,
    panic or nil, timer expiries, resets, events, in any order): when the controller's run now
    fails — returns an error or panics — the loop waits for an interval drawn from the window
    around `base n` (`bounds`, i.e. [0.5, 1.5] × base, `C09.bounds_eq`), where `n` is the
    number of consecutive failures since the last ResetRestartBackoff and
    `base n = min(500 ms · 1.5ⁿ, 60 s)` (`C09.base_table`, `C09.base_matches_spec`). -/
theorem restart_with_growing_backoff_reset_on_success (evs : List REv) (e : RunEnd)
    (he : e ≠ .finished) (hph : (rrun {} evs).phase = .running) :
    (rstep (rrun {} evs) (.runEnds e)).phase =
      .backingOff (bounds (base (rcount {} evs 0))).1 (bounds (base (rcount {} evs 0))).2 := by
  have hc := rcur_invariant evs {} 0 rfl
  cases e with
  | finished => exact absurd rfl he
  | failed => rw [rstep_failed _ hph, rfail_eq, hc]
  | panicked => rw [rstep_panicked _ hph, rfail_eq, hc]

/-- a reset (success) puts the schedule back to the initial interval: the next failure waits
    within the window of `base 0` = 500 ms, i.e. between 250 ms and 750 ms -/
theorem restart_backoff_reset (evs : List REv) (hph : (rrun {} evs).phase = .running) :
    rcount {} (evs ++ [.reset]) 0 = 0 ∧
    (rstep (rrun {} (evs ++ [.reset])) (.runEnds .failed)).phase = .backingOff 250000000 750000001 := by
  have hen : REv.reset.enabled (rrun {} evs) = true := by simp [REv.enabled, hph]
  have h0 : rcount {} (evs ++ [.reset]) 0 = 0 := by
    rw [rcount_append]; simp [rcount, hen, rbump]
  have hp : (rrun {} (evs ++ [.reset])).phase = .running := by
    rw [rrun_append]; show (rstep (rrun {} evs) .reset).phase = _
    rw [rstep_reset _ hph]; exact hph
  refine ⟨h0, ?_⟩
  rw [restart_with_growing_backoff_reset_on_success _ .failed (by decide) hp, h0]
  decide

/-- each further failure moves to the next base interval -/
theorem restart_backoff_grows (evs : List REv) (e : RunEnd) (he : e ≠ .finished)
    (hph : (rrun {} evs).phase = .running) :
    rcount {} (evs ++ [.runEnds e]) 0 = rcount {} evs 0 + 1 := by
  have hen : (REv.runEnds e).enabled (rrun {} evs) = true := by simp [REv.enabled, hph]
  rw [rcount_append]
  cases e with
  | finished => exact absurd rfl he
  | failed => simp [rcount, hen, rbump]
  | panicked => simp [rcount, hen, rbump]

/-- the windows are those of the statement: within 3 ns of [0.5, 1.5] × min(500 ms · 1.5ⁿ, 60 s), the
    closed form of the independent specification `Cosi.Spec.Queue` (the code truncates to whole
    nanoseconds after every multiplication) -/
theorem restart_window_matches_spec (n : Nat) :
    (bounds (base n)).1 ≤ (Spec.Queue.window n).1 ∧ (Spec.Queue.window n).1 ≤ (bounds (base n)).1 + 1 ∧
    (bounds (base n)).2 ≤ (Spec.Queue.window n).2 + 1 ∧ (Spec.Queue.window n).2 ≤ (bounds (base n)).2 + 2 :=
  C09.window_matches_spec n

/-- a panic is handled exactly like an error (recovered in runOnce) -/
theorem panic_is_error (s : RLoop) : rstep s (.runEnds .panicked) = rstep s (.runEnds .failed) := by
  by_cases h : s.phase = .running
  · rw [rstep_panicked s h, rstep_failed s h]
  · rw [rstep_disabled s _ (by simp [REv.enabled, h]), rstep_disabled s _ (by simp [REv.enabled, h])]

/-- one step never crashes the loop -/
theorem rstep_not_crashed (s : RLoop) (e : REv) (h : s.phase ≠ .crashed) : (rstep s e).phase ≠ .crashed := by
  by_cases hen : e.enabled s = true
  · have hc := enabled_cases s e hen
    cases e with
    | runEnds r =>
      cases r with
      | finished => rw [rstep_finished s hc]; simp
      | failed => rw [rstep_failed s hc, rfail_eq]; simp
      | panicked => rw [rstep_panicked s hc, rfail_eq]; simp
    | timerFires => rw [rstep_timerFires s hc]; simp
    | ctxDone => rw [rstep_ctxDone s hc]; simp
    | reset => rw [rstep_reset s hc]; exact h
    | takeEvent => rw [rstep_takeEvent s hc.1 hc.2]; exact h
    | trigger => rw [rstep_trigger s]; exact h
  · have hf : e.enabled s = false := by simpa using hen
    rw [rstep_disabled s e hf]; exact h

/-- the loop never crashes, whatever the controller does: it only ever stops when its run ends
    without error or the context is done -/
theorem rloop_never_crashes (evs : List REv) (s : RLoop) (h : s.phase ≠ .crashed) :
    (rrun s evs).phase ≠ .crashed := by
  induction evs generalizing s with
  | nil => exact h
  | cons e rest ih => exact ih _ (rstep_not_crashed s e h)

/-! ### run hooks (qruntime.runWithBackoff) and tasks (task.runWithRestarts) -/

def hbump : BEv → Nat → Nat
  | .runEnds .failed d, n => (if d > 60000000000 then 0 else n) + 1
  | .runEnds .panicked d, n => (if d > 60000000000 then 0 else n) + 1
  | _, n => n

/-- consecutive failures of the run hook since its last run that lasted more than a minute -/
def hcount (s : BLoop) : List BEv → Nat → Nat
  | [], n => n
  | e :: rest, n => hcount (hstep s e) rest (if e.enabled s then hbump e n else n)

def tbump : BEv → Nat → Nat
  | .runEnds .failed _, n => n + 1
  | .runEnds .panicked _, n => n + 1
  | _, n => n

/-- failures of the task so far (its backoff is never reset) -/
def tcount (s : BLoop) : List BEv → Nat → Nat
  | [], n => n
  | e :: rest, n => tcount (tstep s e) rest (if e.enabled s then tbump e n else n)

theorem failHook_eq (s : BLoop) (d : Nat) :
    s.failHook d =
      { cur := incr (if d > 60000000000 then initial else s.cur),
        phase := .backingOff (bounds (if d > 60000000000 then initial else s.cur)).1
                             (bounds (if d > 60000000000 then initial else s.cur)).2 } := by
  have h1 : hookBackoffKnown = true := facts.2.2.2.2.2.1
  have h2 : Gen.Restart.hookResetAfterNs = 60000000000 := facts.2.2.2.2.2.2.2.1
  simp [BLoop.failHook, h1, h2, nextBackoff_known]

theorem failTask_eq (s : BLoop) :
    s.failTask = { cur := incr s.cur,
                   phase := .backingOff (bounds s.cur).1 (bounds s.cur).2 } := by
  have h1 : taskBackoffKnown = true := facts.2.2.2.2.2.2.2.2.1
  simp [BLoop.failTask, h1, nextBackoff_known]

theorem hstep_disabled (s : BLoop) (e : BEv) (h : e.enabled s = false) : hstep s e = s := by
  simp [hstep, h]

theorem tstep_disabled (s : BLoop) (e : BEv) (h : e.enabled s = false) : tstep s e = s := by
  simp [tstep, h]

theorem hstep_fail (s : BLoop) (e : RunEnd) (d : Nat) (he : e ≠ .finished) (h : s.phase = .running) :
    hstep s (.runEnds e d) = s.failHook d := by
  have hr : Gen.Restart.hookRecovers = true := facts.2.2.2.2.2.2.1
  cases e with
  | finished => exact absurd rfl he
  | failed => simp [hstep, hstepOn, BEv.enabled, h]
  | panicked => simp [hstep, hstepOn, BEv.enabled, h, hr]

theorem tstep_fail (s : BLoop) (e : RunEnd) (d : Nat) (he : e ≠ .finished) (h : s.phase = .running) :
    tstep s (.runEnds e d) = s.failTask := by
  have hr : Gen.Restart.taskRecovers = true := facts.2.2.2.2.2.2.2.2.2.1
  cases e with
  | finished => exact absurd rfl he
  | failed => simp [tstep, tstepOn, BEv.enabled, h]
  | panicked => simp [tstep, tstepOn, BEv.enabled, h, hr]

theorem hstep_cur (s : BLoop) (e : BEv) (n : Nat) (h : s.cur = base n) :
    (hstep s e).cur = base (if e.enabled s then hbump e n else n) := by
  by_cases hen : e.enabled s = true
  · simp only [hen, if_true]
    cases e with
    | runEnds r d =>
      have hp : s.phase = .running := by simpa [BEv.enabled] using hen
      cases r with
      | finished => simp [hstep, hstepOn, BEv.enabled, hp, hbump, h]
      | failed =>
        rw [hstep_fail s .failed d (by decide) hp, failHook_eq]
        by_cases hd : d > 60000000000 <;> simp [hbump, hd, h, base]
      | panicked =>
        rw [hstep_fail s .panicked d (by decide) hp, failHook_eq]
        by_cases hd : d > 60000000000 <;> simp [hbump, hd, h, base]
    | timerFires => simp [hstep, hstepOn, hen, hbump, h]
    | ctxDone => simp [hstep, hstepOn, hen, hbump, h]
  · have hf : e.enabled s = false := by simpa using hen
    rw [hstep_disabled s e hf]; simp [hf, h]

theorem tstep_cur (s : BLoop) (e : BEv) (n : Nat) (h : s.cur = base n) :
    (tstep s e).cur = base (if e.enabled s then tbump e n else n) := by
  by_cases hen : e.enabled s = true
  · simp only [hen, if_true]
    cases e with
    | runEnds r d =>
      have hp : s.phase = .running := by simpa [BEv.enabled] using hen
      cases r with
      | finished => simp [tstep, tstepOn, BEv.enabled, hp, tbump, h]
      | failed => rw [tstep_fail s .failed d (by decide) hp, failTask_eq]; simp [tbump, h, base]
      | panicked => rw [tstep_fail s .panicked d (by decide) hp, failTask_eq]; simp [tbump, h, base]
    | timerFires => simp [tstep, tstepOn, hen, tbump, h]
    | ctxDone => simp [tstep, tstepOn, hen, tbump, h]
  · have hf : e.enabled s = false := by simpa using hen
    rw [tstep_disabled s e hf]; simp [hf, h]

theorem hcur_invariant (evs : List BEv) (s : BLoop) (n : Nat) (h : s.cur = base n) :
    (hrun s evs).cur = base (hcount s evs n) := by
  induction evs generalizing s n with
  | nil => exact h
  | cons e rest ih => exact ih _ _ (hstep_cur s e n h)

theorem tcur_invariant (evs : List BEv) (s : BLoop) (n : Nat) (h : s.cur = base n) :
    (trun s evs).cur = base (tcount s evs n) := by
  induction evs generalizing s n with
  | nil => exact h
  | cons e rest ih => exact ih _ _ (tstep_cur s e n h)

/-- **C16, run hook.** After any history, a run hook that returns an error or panics after
    running for `d` ns is restarted after an interval from the window around `base n`, `n` = the
    consecutive failures so far — or around `base 0` if this run lasted longer than a minute
    (the success-like reset of runWithBackoff). -/
theorem hook_restart_backoff (evs : List BEv) (e : RunEnd) (d : Nat) (he : e ≠ .finished)
    (hph : (hrun {} evs).phase = .running) :
    (hstep (hrun {} evs) (.runEnds e d)).phase =
      .backingOff (bounds (base (if d > 60000000000 then 0 else hcount {} evs 0))).1
                  (bounds (base (if d > 60000000000 then 0 else hcount {} evs 0))).2 := by
  have hc := hcur_invariant evs {} 0 rfl
  rw [hstep_fail _ e d he hph, failHook_eq, hc]
  by_cases hd : d > 60000000000 <;> simp [hd, base]

/-- **C16, task.** After any history, a task whose RunTask returns an error or panics is
    restarted after an interval from the window around `base n`, `n` = its failures so far. -/
theorem task_restart_backoff (evs : List BEv) (e : RunEnd) (d : Nat) (he : e ≠ .finished)
    (hph : (trun {} evs).phase = .running) :
    (tstep (trun {} evs) (.runEnds e d)).phase =
      .backingOff (bounds (base (tcount {} evs 0))).1
                  (bounds (base (tcount {} evs 0))).2 := by
  have hc := tcur_invariant evs {} 0 rfl
  rw [tstep_fail _ e d he hph, failTask_eq, hc]

/-- the failure counts of the three loops are the streak rules of the independent specification
    `Cosi.Spec.Restart` (error and panic alike; ResetRestartBackoff / a run of more than a minute /
    nothing resets) -/
theorem counts_match_spec (n d : Nat) :
    rbump (.runEnds .failed) n = Spec.Restart.afterFailure .controller n d ∧
    rbump (.runEnds .panicked) n = Spec.Restart.afterFailure .controller n d ∧
    rbump .reset n = Spec.Restart.afterSuccess .controller n true ∧
    rbump (.runEnds .finished) n = Spec.Restart.afterSuccess .controller n false ∧
    hbump (.runEnds .failed d) n = Spec.Restart.afterFailure .hook n d ∧
    hbump (.runEnds .panicked d) n = Spec.Restart.afterFailure .hook n d ∧
    tbump (.runEnds .failed d) n = Spec.Restart.afterFailure .task n d ∧
    tbump (.runEnds .panicked d) n = Spec.Restart.afterFailure .task n d := by
  simp [rbump, hbump, tbump, Spec.Restart.afterFailure, Spec.Restart.streakAtFailure,
    Spec.Restart.afterSuccess, Spec.Restart.hookResetNs]

/-- **C16, queue item.** The per-item schedule of the q-runtime is C09's: for every history of
    reconcile outcomes of any items, a failing (error or panic) reconcile of `k` is requeued
    after an interval from the window around `base (streak k)`; ok / skip reset the streak. -/
theorem item_retry_backoff (hist : List (Nat × Queue.Outcome)) (k : Nat) :
    (Queue.decision (Queue.runOutcomes [] hist) k Queue.Outcome.panic).2 =
      Queue.Decision.requeueIn (bounds (base (C09.streak k hist 0))).1
                         (bounds (base (C09.streak k hist 0))).2 :=
  C09.backoff_schedule hist k

/-- **C16, queue item, every failing outcome.** Whatever error value the reconcile of an item
    returned — plain, a panic, wrapped in a RequeueError with any interval, zero included — after any
    history the item is requeued (never just released), within a window `[lo, hi]`, `hi ≠ 0`
    (`C09R.failed_reconcile_is_requeued`; the window is `C09R.failure_window`). -/
theorem item_retried_whatever_the_error (hist : List (Nat × Queue.Outcome)) (k : Nat) (o : Queue.Outcome)
    (ho : o.err = .fail) :
    ∃ lo hi, (Queue.decision (Queue.runOutcomes [] hist) k o).2 = Queue.Decision.requeueIn lo hi ∧ hi ≠ 0 ∧ lo ≤ hi :=
  C09R.failed_reconcile_is_requeued _ k o ho

/-! ### a restart is followed by a fresh reconcile -/

/-- **C16.** Whenever the backoff timer of a failed controller fires (after ANY history), the
    loop is running again with a reconcile event in its channel: the restarted controller's
    first receive from EventCh succeeds at once, whether or not any input changed meanwhile. -/
theorem fresh_reconcile_after_restart (evs : List REv)
    (h : REv.timerFires.enabled (rrun {} evs) = true) :
    (rstep (rrun {} evs) .timerFires).phase = .running ∧
    (rstep (rrun {} evs) .timerFires).pending = true ∧
    REv.takeEvent.enabled (rstep (rrun {} evs) .timerFires) = true := by
  have hb : (rrun {} evs).phase.isBackingOff = true := enabled_cases _ _ h
  rw [rstep_timerFires _ hb]
  simp [REv.enabled]

/-- … and the event stays there until the controller takes it -/
theorem pending_until_taken (evs : List REv) (s : RLoop) (hp : s.pending = true)
    (hno : ∀ e ∈ evs, e ≠ REv.takeEvent) : (rrun s evs).pending = true := by
  induction evs generalizing s with
  | nil => exact hp
  | cons e rest ih =>
    apply ih _ _ (fun e' he' => hno e' (List.mem_cons_of_mem _ he'))
    have hne : e ≠ .takeEvent := hno e (List.mem_cons_self ..)
    by_cases hen : e.enabled s = true
    · have hc := enabled_cases s e hen
      cases e with
      | runEnds r =>
        cases r with
        | finished => rw [rstep_finished s hc]; exact hp
        | failed => rw [rstep_failed s hc, rfail_eq]; exact hp
        | panicked => rw [rstep_panicked s hc, rfail_eq]; exact hp
      | timerFires => rw [rstep_timerFires s hc]
      | ctxDone => rw [rstep_ctxDone s hc]; exact hp
      | reset => rw [rstep_reset s hc]; exact hp
      | takeEvent => exact absurd rfl hne
      | trigger => rw [rstep_trigger s]
    · have hf : e.enabled s = false := by simpa using hen
      rw [rstep_disabled s e hf]; exact hp

/-- the initial reconcile: a freshly registered controller has an event pending -/
theorem initial_reconcile_pending : ({} : RLoop).pending = true ∧ ({} : RLoop).phase = .running := by
  have h : Gen.Restart.rInitialTrigger = true := facts.2.2.2.2.1
  exact ⟨h, rfl⟩

/-! ### a failing queue item does not block other items -/

section QueuePart
open Cosi.Queue

theorem due_stays_due_run (mid : List Step) (s : Q) (k : Nat) (e : Entry) (h : C09.QInv s)
    (he : PQ.lookup k s.pq = some e) (hdue : e.due ≤ s.now)
    (hnd : ∀ pre post, mid = pre ++ Step.get :: post → ∀ v, delivers (Queue.run s pre) ≠ some (k, v)) :
    ∃ e', PQ.lookup k (Queue.run s mid).pq = some e' ∧ e'.due ≤ (Queue.run s mid).now := by
  induction mid generalizing s e with
  | nil => exact ⟨e, he, hdue⟩
  | cons st rest ih =>
    have h1 : ∀ v, st = Step.get → delivers s ≠ some (k, v) := by
      intro v hst
      exact hnd [] rest (by simp [hst]) v
    obtain ⟨e1, he1, hd1⟩ := C09.due_stays_due s st k e h he hdue h1
    apply ih (Queue.step s st).1 e1 (C09.inv_step s st h) he1 hd1
    intro pre post hmid v
    exact hnd (st :: pre) post (by simp [hmid]) v

/-- **C16.** The queue after ANY history (`QInv` holds after every run, `C09.inv_run`): when a
    failing item `k` is requeued with its backoff time `t` — however far in the future — every
    other key `k'` that has a due entry keeps it, due, through that step and through any further
    events (puts, releases, requeues of any keys, clock ticks, deliveries of other keys); a
    worker asking for an item is served (`delivers` is `some`), and what it is handed is itself
    due — it never waits for `k`'s timer. -/
theorem failing_item_does_not_block_others (s : Q) (k k' v t : Nat) (e' : Entry) (mid : List Step)
    (h : C09.QInv s) (hne : k' ≠ k) (he' : PQ.lookup k' s.pq = some e') (hdue : e'.due ≤ s.now)
    (hnd : ∀ pre post, mid = pre ++ Step.get :: post →
      ∀ x, delivers (Queue.run (Queue.step s (.requeue k v t)).1 pre) ≠ some (k', x)) :
    let s1 := Queue.run (Queue.step s (.requeue k v t)).1 mid
    (∃ e'', PQ.lookup k' s1.pq = some e'' ∧ e''.due ≤ s1.now) ∧
    (delivers s1).isSome = true ∧
    (∀ kk vv, delivers s1 = some (kk, vv) → ∃ e, PQ.lookup kk s1.pq = some e ∧ e.due ≤ s1.now) := by
  intro s1
  have _ := hne
  have hi0 : C09.QInv (Queue.step s (.requeue k v t)).1 := C09.inv_step s _ h
  obtain ⟨e0, he0, hd0⟩ := C09.due_stays_due s (.requeue k v t) k' e' h he' hdue (by intro _ hst; cases hst)
  obtain ⟨e1, he1, hd1⟩ := due_stays_due_run mid _ k' e0 hi0 he0 hd0 hnd
  have hi1 : C09.QInv s1 := C09.inv_run_from _ mid hi0
  refine ⟨⟨e1, he1, hd1⟩, C09.get_serves_due s1 k' e1 hi1 he1 hd1, ?_⟩
  intro kk vv hdel
  obtain ⟨e, rest, hpq, hk, _, hdu, _⟩ := C09.delivers_some s1 kk vv hdel
  refine ⟨e, ?_, hdu⟩
  rw [hpq]; simp [PQ.lookup, hk]

end QueuePart

/-! ### the runtime machine: single-step facts -/

theorem step_disabled (f : Nat → Nat → Nat) (s : Sys) (e : Ev) (h : e.enabled s = false) :
    step f s e = s := by
  simp [step, h]

theorem step_enabled (f : Nat → Nat → Nat) (s : Sys) (e : Ev) (h : e.enabled s = true) :
    step f s e = stepOn f s e := by
  simp [step, h]

theorem run_append (f : Nat → Nat → Nat) (s : Sys) (a b : List Ev) :
    run f s (a ++ b) = run f (run f s a) b := by
  induction a generalizing s with
  | nil => rfl
  | cons e rest ih => exact ih _

/-- the report of a failed watch touches only the pipeline intake, the run status and the channel -/
theorem reportStep_frame (c : ChanCfg) (s : Sys) (e : Nat) :
    (reportStep c s e).n = s.n ∧ (reportStep c s e).ctl = s.ctl ∧ (reportStep c s e).input = s.input ∧
    (reportStep c s e).note = s.note ∧ (reportStep c s e).deliverer = s.deliverer ∧
    (reportStep c s e).crashed = s.crashed := by
  unfold reportStep
  split
  · exact ⟨rfl, rfl, rfl, rfl, rfl, rfl⟩
  · split
    · exact ⟨rfl, rfl, rfl, rfl, rfl, rfl⟩
    · split <;> exact ⟨rfl, rfl, rfl, rfl, rfl, rfl⟩

theorem reportEndsIntake_true : reportEndsIntake = true := by decide

theorem pipeStop_frame (c : ChanCfg) (s : Sys) :
    (pipeStop c s).n = s.n ∧ (pipeStop c s).ctl = s.ctl ∧ (pipeStop c s).input = s.input ∧
    (pipeStop c s).note = s.note ∧ (pipeStop c s).deliverer = false ∧ (pipeStop c s).crashed = s.crashed ∧
    (pipeStop c s).status = s.status ∧ (pipeStop c s).errq = s.errq ∧
    (pipeStop c s).intake = (s.intake && s.stuck && c.send != .ctxAware) ∧
    (pipeStop c s).stuck = (s.intake && s.stuck && c.send != .ctxAware) :=
  ⟨rfl, rfl, rfl, rfl, rfl, rfl, rfl, rfl, rfl, rfl⟩

theorem setCtl_self (s : Sys) (i : Nat) (c : Ctl) : (s.setCtl i c).ctl i = c := by
  simp [Sys.setCtl]

theorem setCtl_ne (s : Sys) (i : Nat) (c : Ctl) (j : Nat) (h : j ≠ i) : (s.setCtl i c).ctl j = s.ctl j := by
  simp [Sys.setCtl, h]

theorem takeEvent_phase (l : RLoop) : (rstep l .takeEvent).phase = l.phase := by
  by_cases hen : REv.takeEvent.enabled l = true
  · have hc := enabled_cases l _ hen
    rw [rstep_takeEvent l hc.1 hc.2]
  · have hf : REv.takeEvent.enabled l = false := by simpa using hen
    rw [rstep_disabled _ _ hf]

theorem reconcile_loop_ok (f : Nat → Nat → Nat) (i v : Nat) (c : Ctl) (reset : Bool)
    (hp : c.loop.phase = .running) : (Ctl.reconcile f i v c (.ok reset)).loop.phase = .running := by
  have ht : (rstep c.loop .takeEvent).phase = .running := by rw [takeEvent_phase]; exact hp
  cases reset
  · simpa [Ctl.reconcile] using ht
  · have : (Ctl.reconcile f i v c (.ok true)).loop = rstep (rstep c.loop .takeEvent) .reset := by
      simp [Ctl.reconcile]
    rw [this, rstep_reset _ ht]; exact ht

theorem reconcile_loop_fail (f : Nat → Nat → Nat) (i v : Nat) (c : Ctl) (p : Option Nat)
    (hp : c.loop.phase = .running) :
    (Ctl.reconcile f i v c (.fail p)).loop = (rstep c.loop .takeEvent).fail ∧
    (Ctl.reconcile f i v c (.panic p)).loop = (rstep c.loop .takeEvent).fail := by
  have ht : (rstep c.loop .takeEvent).phase = .running := by rw [takeEvent_phase]; exact hp
  constructor
  · simp [Ctl.reconcile, rstep_failed _ ht]
  · simp [Ctl.reconcile, rstep_panicked _ ht]

/-- the loop of a controller that takes its event and reconciles keeps running or backs off; it
    never crashes -/
theorem reconcile_phase (f : Nat → Nat → Nat) (i v : Nat) (c : Ctl) (r : Rec)
    (hp : c.loop.phase = .running) :
    ((Ctl.reconcile f i v c r).loop.phase = .running ∨
      (Ctl.reconcile f i v c r).loop.phase.isBackingOff = true) ∧
    (Ctl.reconcile f i v c r).loop.phase ≠ .crashed := by
  cases r with
  | ok reset => rw [reconcile_loop_ok f i v c reset hp]; simp
  | fail p => rw [(reconcile_loop_fail f i v c p hp).1, rfail_eq]; simp [Phase.isBackingOff]
  | panic p => rw [(reconcile_loop_fail f i v c p hp).2, rfail_eq]; simp [Phase.isBackingOff]

theorem enabled_reconcile (s : Sys) (i : Nat) (r : Rec) :
    (Ev.reconcile i r).enabled s = true ↔
      s.crashed = false ∧ i < s.n ∧ (s.ctl i).loop.phase = .running ∧ (s.ctl i).loop.pending = true := by
  simp [Ev.enabled, REv.enabled, and_assoc]

theorem enabled_restart (s : Sys) (i : Nat) :
    (Ev.restart i).enabled s = true ↔
      s.crashed = false ∧ i < s.n ∧ (s.ctl i).loop.phase.isBackingOff = true := by
  simp [Ev.enabled, REv.enabled, and_assoc]

theorem step_reconcile (f : Nat → Nat → Nat) (s : Sys) (i : Nat) (r : Rec)
    (h : (Ev.reconcile i r).enabled s = true) :
    step f s (.reconcile i r) = s.setCtl i (Ctl.reconcile f i s.input (s.ctl i) r) := by
  obtain ⟨hc, _, hp, _⟩ := (enabled_reconcile s i r).1 h
  have hne := (reconcile_phase f i s.input (s.ctl i) r hp).2
  have hb : ((Ctl.reconcile f i s.input (s.ctl i) r).loop.phase == Phase.crashed) = false := by
    simpa using hne
  rw [step_enabled f s _ h]
  simp only [stepOn, hb]
  simp [Sys.setCtl, hc]

theorem step_restart (f : Nat → Nat → Nat) (s : Sys) (i : Nat) (h : (Ev.restart i).enabled s = true) :
    step f s (.restart i) =
      s.setCtl i { s.ctl i with loop := { (s.ctl i).loop with phase := .running, pending := true } } := by
  obtain ⟨_, _, hp⟩ := (enabled_restart s i).1 h
  rw [step_enabled f s _ h]
  simp only [stepOn, rstep_timerFires _ hp]

/-- events of controller `i`'s own loop -/
def Ev.ofCtl (i : Nat) : Ev → Bool
  | .reconcile j _ => j == i
  | .restart j => j == i
  | .observe j => j == i
  | _ => false

/-- **C16, fault isolation.** For every state of the runtime and every step of a failing or
    restarting controller `i` — a reconcile that returns an error or panics (with any partial
    output), its restart, or a successful reconcile — no other controller's local state changes,
    the runtime keeps running exactly as before (status, pipeline, notifications, input, no
    crash), and every event that is not `i`'s own is enabled after the step iff it was before. -/
theorem fault_isolated (f : Nat → Nat → Nat) (s : Sys) (i : Nat) (e : Ev)
    (he : e = .restart i ∨ ∃ r, e = .reconcile i r) :
    (∀ j, j ≠ i → (step f s e).ctl j = s.ctl j) ∧
    (step f s e).status = s.status ∧ (step f s e).intake = s.intake ∧
    (step f s e).deliverer = s.deliverer ∧ (step f s e).note = s.note ∧
    (step f s e).input = s.input ∧ (step f s e).n = s.n ∧ (step f s e).crashed = s.crashed ∧
    (∀ e', Ev.ofCtl i e' = false → e'.enabled (step f s e) = e'.enabled s) := by
  by_cases hen : e.enabled s = true
  · have key : ∃ c, step f s e = s.setCtl i c := by
      rcases he with rfl | ⟨r, rfl⟩
      · exact ⟨_, step_restart f s i hen⟩
      · exact ⟨_, step_reconcile f s i r hen⟩
    obtain ⟨c, hc⟩ := key
    rw [hc]
    refine ⟨fun j hj => setCtl_ne s i c j hj, rfl, rfl, rfl, rfl, rfl, rfl, rfl, ?_⟩
    intro e' hof
    cases e' with
    | write v => rfl
    | deliver => rfl
    | reconcile j r' =>
      have hj : j ≠ i := by simpa [Ev.ofCtl] using hof
      (simp only [Ev.enabled, setCtl_ne s i c j hj]) <;> rfl
    | restart j =>
      have hj : j ≠ i := by simpa [Ev.ofCtl] using hof
      (simp only [Ev.enabled, setCtl_ne s i c j hj]) <;> rfl
    | watchErr x => rfl
    | cancel => rfl
    | observe j =>
      have hj : j ≠ i := by simpa [Ev.ofCtl] using hof
      (simp only [Ev.enabled, setCtl_ne s i c j hj]) <;> rfl
    | pipeObserve => rfl
  · have hf : e.enabled s = false := by simpa using hen
    rw [step_disabled f s e hf]
    exact ⟨fun _ _ => rfl, rfl, rfl, rfl, rfl, rfl, rfl, rfl, fun _ _ => rfl⟩

/-- after a restart the controller can reconcile at once (runtime-level form of
    `fresh_reconcile_after_restart`) -/
theorem restart_enables_reconcile (f : Nat → Nat → Nat) (s : Sys) (i : Nat) (r : Rec)
    (h : (Ev.restart i).enabled s = true) :
    (Ev.reconcile i r).enabled (step f s (.restart i)) = true := by
  obtain ⟨hc, hi, _⟩ := (enabled_restart s i).1 h
  rw [step_restart f s i h, enabled_reconcile]
  simp [Sys.setCtl, hc, hi]

/-! ### once faults cease the system converges as if they had not happened -/

/-- the invariant of normal operation under arbitrary faults: the runtime is up, every loop is
    running or backing off, and every controller either has its output up to date with the
    current input or will be woken (event pending, restart pending, notification in flight). -/
structure Healthy (f : Nat → Nat → Nat) (s : Sys) : Prop where
  running : s.status = .running
  intake : s.intake = true
  deliverer : s.deliverer = true
  notCrashed : s.crashed = false
  alive : ∀ i, i < s.n → (s.ctl i).loop.phase = .running ∨ (s.ctl i).loop.phase.isBackingOff = true
  woken : ∀ i, i < s.n → (s.ctl i).loop.pending = true ∨ (s.ctl i).loop.phase.isBackingOff = true ∨
            s.note = true ∨ (s.ctl i).out = some (f i s.input)

theorem healthy_init (f : Nat → Nat → Nat) (n v : Nat) : Healthy f (init n v) := by
  have h : Gen.Restart.rInitialTrigger = true := facts.2.2.2.2.1
  exact ⟨rfl, rfl, rfl, rfl, fun _ _ => Or.inl rfl, fun _ _ => Or.inl h⟩

theorem step_write (f : Nat → Nat → Nat) (s : Sys) (v : Nat) :
    step f s (.write v) = { s with input := v, note := s.note || (s.intake && !s.crashed) } := by
  rw [step_enabled f s _ rfl]; rfl

theorem step_deliver (f : Nat → Nat → Nat) (s : Sys) (h : Ev.deliver.enabled s = true) :
    step f s .deliver =
      { s with note := false, ctl := fun j => { s.ctl j with loop := { (s.ctl j).loop with pending := true } } } := by
  rw [step_enabled f s _ h]
  simp only [stepOn, rstep_trigger]

theorem healthy_step (f : Nat → Nat → Nat) (s : Sys) (e : Ev) (he : e.isRun = true) (h : Healthy f s) :
    Healthy f (step f s e) := by
  by_cases hen : e.enabled s = true
  · cases e with
    | write v =>
      rw [step_write]
      exact ⟨h.running, h.intake, h.deliverer, h.notCrashed, h.alive,
        fun i _ => Or.inr (Or.inr (Or.inl (by simp [h.intake, h.notCrashed])))⟩
    | deliver =>
      rw [step_deliver f s hen]
      exact ⟨h.running, h.intake, h.deliverer, h.notCrashed, fun i hi => h.alive i hi, fun i _ => Or.inl rfl⟩
    | reconcile i r =>
      obtain ⟨_, hi, hp, _⟩ := (enabled_reconcile s i r).1 hen
      rw [step_reconcile f s i r hen]
      refine ⟨h.running, h.intake, h.deliverer, h.notCrashed, ?_, ?_⟩
      · intro j hj
        by_cases hji : j = i
        · subst hji; rw [setCtl_self]; exact (reconcile_phase f j s.input (s.ctl j) r hp).1
        · rw [setCtl_ne _ _ _ _ hji]; exact h.alive j hj
      · intro j hj
        by_cases hji : j = i
        · subst hji
          rw [setCtl_self]
          cases r with
          | ok reset => right; right; right; rfl
          | fail p =>
            right; left
            rw [(reconcile_loop_fail f j s.input (s.ctl j) p hp).1, rfail_eq]; rfl
          | panic p =>
            right; left
            rw [(reconcile_loop_fail f j s.input (s.ctl j) p hp).2, rfail_eq]; rfl
        · rw [setCtl_ne _ _ _ _ hji]; exact h.woken j hj
    | restart i =>
      rw [step_restart f s i hen]
      refine ⟨h.running, h.intake, h.deliverer, h.notCrashed, ?_, ?_⟩
      · intro j hj
        by_cases hji : j = i
        · subst hji; rw [setCtl_self]; exact Or.inl rfl
        · rw [setCtl_ne _ _ _ _ hji]; exact h.alive j hj
      · intro j hj
        by_cases hji : j = i
        · subst hji; rw [setCtl_self]; exact Or.inl rfl
        · rw [setCtl_ne _ _ _ _ hji]; exact h.woken j hj
    | watchErr x => simp [Ev.isRun] at he
    | cancel => simp [Ev.isRun] at he
    | observe j => simp [Ev.isRun] at he
    | pipeObserve => simp [Ev.isRun] at he
  · have hf : e.enabled s = false := by simpa using hen
    rw [step_disabled f s e hf]; exact h

theorem healthy_run (f : Nat → Nat → Nat) (evs : List Ev) (s : Sys) (he : ∀ e ∈ evs, e.isRun = true)
    (h : Healthy f s) : Healthy f (run f s evs) := by
  induction evs generalizing s with
  | nil => exact h
  | cons e rest ih =>
    exact ih _ (fun e' he' => he e' (List.mem_cons_of_mem _ he'))
      (healthy_step f s e (he e (List.mem_cons_self ..)) h)

/-- what one event does to the input: only the environment's writes change it -/
def lastWrite : List Ev → Nat → Nat
  | [], v => v
  | .write w :: rest, _ => lastWrite rest w
  | _ :: rest, v => lastWrite rest v

theorem stepOn_input (f : Nat → Nat → Nat) (s : Sys) (e : Ev) :
    (stepOn f s e).input = lastWrite [e] s.input ∧ (stepOn f s e).n = s.n := by
  cases e with
  | observe i => simp only [stepOn]; split <;> exact ⟨rfl, rfl⟩
  | watchErr x => exact ⟨(reportStep_frame genCfg s x).2.2.1, (reportStep_frame genCfg s x).1⟩
  | _ => exact ⟨rfl, rfl⟩

theorem step_input (f : Nat → Nat → Nat) (s : Sys) (e : Ev) :
    (step f s e).input = lastWrite [e] s.input := by
  by_cases hen : e.enabled s = true
  · rw [step_enabled f s e hen]; exact (stepOn_input f s e).1
  · have hf : e.enabled s = false := by simpa using hen
    rw [step_disabled f s e hf]
    cases e with
    | write v => simp [Ev.enabled] at hf
    | _ => rfl

theorem run_input (f : Nat → Nat → Nat) (evs : List Ev) (s : Sys) :
    (run f s evs).input = lastWrite evs s.input := by
  induction evs generalizing s with
  | nil => rfl
  | cons e rest ih =>
    show (run f (step f s e) rest).input = _
    rw [ih, step_input]
    cases e <;> rfl

theorem lastWrite_filter (evs : List Ev) (v : Nat) :
    lastWrite (evs.filter fun e => !e.isFault) v = lastWrite evs v := by
  induction evs generalizing v with
  | nil => rfl
  | cons e rest ih =>
    by_cases hf : e.isFault = true
    · have hfl : (e :: rest).filter (fun e => !e.isFault) = rest.filter (fun e => !e.isFault) := by
        simp [List.filter, hf]
      rw [hfl, ih]
      cases e with
      | write w => cases hf
      | _ => rfl
    · have hff : e.isFault = false := by simpa using hf
      have hfl : (e :: rest).filter (fun e => !e.isFault) = e :: rest.filter (fun e => !e.isFault) := by
        simp [List.filter, hff]
      rw [hfl]
      cases e with
      | write w => exact ih w
      | _ => exact ih v

theorem step_n (f : Nat → Nat → Nat) (s : Sys) (e : Ev) : (step f s e).n = s.n := by
  by_cases hen : e.enabled s = true
  · rw [step_enabled f s e hen]; exact (stepOn_input f s e).2
  · have hf : e.enabled s = false := by simpa using hen
    rw [step_disabled f s e hf]

theorem run_n (f : Nat → Nat → Nat) (evs : List Ev) (s : Sys) : (run f s evs).n = s.n := by
  induction evs generalizing s with
  | nil => rfl
  | cons e rest ih => show (run f (step f s e) rest).n = _; rw [ih, step_n]

/-- fault-free completion of one controller -/
theorem settleCtl_spec (f : Nat → Nat → Nat) (s : Sys) (i : Nat) (h : Healthy f s) (hn : s.note = false)
    (hi : i < s.n) :
    Healthy f (settleCtl f s i) ∧ (settleCtl f s i).note = false ∧ (settleCtl f s i).input = s.input ∧
    (settleCtl f s i).n = s.n ∧ ((settleCtl f s i).ctl i).out = some (f i s.input) ∧
    (∀ j, j ≠ i → (settleCtl f s i).ctl j = s.ctl j) := by
  -- first the restart
  have iso1 := fault_isolated f s i (.restart i) (Or.inl rfl)
  have h1 : Healthy f (step f s (.restart i)) := healthy_step f s _ rfl h
  have hph1 : ((step f s (.restart i)).ctl i).loop.phase = .running := by
    by_cases hen : (Ev.restart i).enabled s = true
    · rw [step_restart f s i hen]; simp [Sys.setCtl]
    · have hf : (Ev.restart i).enabled s = false := by simpa using hen
      rw [step_disabled f s _ hf]
      rcases h.alive i hi with hr | hb
      · exact hr
      · exact absurd ((enabled_restart s i).2 ⟨h.notCrashed, hi, hb⟩) hen
  generalize hs1 : step f s (.restart i) = s1 at iso1 h1 hph1
  obtain ⟨hctl1, _, _, _, hnote1, hinp1, hn1, _, _⟩ := iso1
  have hi1 : i < s1.n := by rw [hn1]; exact hi
  -- then the successful reconcile
  have iso2 := fault_isolated f s1 i (.reconcile i (.ok true)) (Or.inr ⟨_, rfl⟩)
  have h2 : Healthy f (step f s1 (.reconcile i (.ok true))) := healthy_step f s1 _ rfl h1
  obtain ⟨hctl2, _, _, _, hnote2, hinp2, hn2, _, _⟩ := iso2
  have hout : ((step f s1 (.reconcile i (.ok true))).ctl i).out = some (f i s.input) := by
    by_cases hen : (Ev.reconcile i (.ok true)).enabled s1 = true
    · rw [step_reconcile f s1 i _ hen]; simp [Sys.setCtl, Ctl.reconcile, hinp1]
    · have hf : (Ev.reconcile i (.ok true)).enabled s1 = false := by simpa using hen
      rw [step_disabled f s1 _ hf]
      rcases h1.woken i hi1 with hp | hb | hnn | ho
      · exact absurd ((enabled_reconcile s1 i _).2 ⟨h1.notCrashed, hi1, hph1, hp⟩) hen
      · rw [hph1] at hb; simp [Phase.isBackingOff] at hb
      · rw [hnote1, hn] at hnn; cases hnn
      · rw [ho, hinp1]
  refine ⟨by simpa [settleCtl, hs1] using h2, ?_, ?_, ?_, ?_, ?_⟩
  · simp only [settleCtl, hs1]; rw [hnote2, hnote1, hn]
  · simp only [settleCtl, hs1]; rw [hinp2, hinp1]
  · simp only [settleCtl, hs1]; rw [hn2, hn1]
  · simpa [settleCtl, hs1] using hout
  · intro j hj; simp only [settleCtl, hs1]; rw [hctl2 j hj, hctl1 j hj]

theorem settle_fold (f : Nat → Nat → Nat) (k : Nat) (s : Sys) (h : Healthy f s) (hn : s.note = false)
    (hk : k ≤ s.n) :
    let t := (List.range k).foldl (settleCtl f) s
    Healthy f t ∧ t.note = false ∧ t.input = s.input ∧ t.n = s.n ∧
    (∀ i, i < k → (t.ctl i).out = some (f i s.input)) := by
  induction k with
  | zero => exact ⟨h, hn, rfl, rfl, fun i hi => absurd hi (Nat.not_lt_zero i)⟩
  | succ k ih =>
    obtain ⟨h1, hn1, hin1, hnn1, hout1⟩ := ih (Nat.le_of_succ_le hk)
    rw [List.range_succ, List.foldl_append]
    simp only [List.foldl_cons, List.foldl_nil]
    generalize (List.range k).foldl (settleCtl f) s = t at h1 hn1 hin1 hnn1 hout1
    have hkt : k < t.n := by rw [hnn1]; exact hk
    obtain ⟨h2, hn2, hin2, hnn2, hout2, hoth⟩ := settleCtl_spec f t k h1 hn1 hkt
    refine ⟨h2, hn2, by rw [hin2, hin1], by rw [hnn2, hnn1], ?_⟩
    intro i hi
    by_cases hik : i = k
    · subst hik; rw [hout2, hin1]
    · rw [hoth i hik]; exact hout1 i (by omega)

/-- **C16, convergence.** Start with any number `n` of controllers and any input; let ANY finite
    pattern of events happen — input writes, deliveries, reconciles that succeed, return an error
    or panic (leaving arbitrary partial outputs), restarts — in any order. When the faults then
    cease (the notification in flight is delivered, every controller restarts and reconciles
    without error), the output of every controller `i` is exactly `f i` of the CURRENT input.

    What is assumed about reconcile: a successful reconcile reads the input and writes its
    output in one step, and that output is a function `f i` of the observed input only — not of
    the controller's earlier state or of what earlier (failed) runs wrote. -/
theorem converges_after_faults (f : Nat → Nat → Nat) (n v0 : Nat) (evs : List Ev)
    (hev : ∀ e ∈ evs, e.isRun = true) (i : Nat) (hi : i < n) :
    ((settle f (run f (init n v0) evs)).ctl i).out = some (f i (run f (init n v0) evs).input) := by
  have h := healthy_run f evs (init n v0) hev (healthy_init f n v0)
  generalize hs : run f (init n v0) evs = s at h
  have hsn : s.n = n := by rw [← hs, run_n]; rfl
  have hd : Healthy f (step f s .deliver) := healthy_step f s .deliver rfl h
  have hdn : (step f s .deliver).note = false := by
    by_cases hen : Ev.deliver.enabled s = true
    · rw [step_deliver f s hen]
    · have hf : Ev.deliver.enabled s = false := by simpa using hen
      rw [step_disabled f s _ hf]
      simpa [Ev.enabled, h.notCrashed, h.deliverer] using hf
  have hdi : (step f s .deliver).input = s.input := by rw [step_input]; rfl
  have hdnn : (step f s .deliver).n = s.n := step_n f s _
  have := settle_fold f s.n (step f s .deliver) hd hdn (by rw [hdnn]; exact Nat.le_refl _)
  obtain ⟨_, _, _, _, hout⟩ := this
  have := hout i (by rw [hsn]; exact hi)
  rw [hdi] at this
  simpa [settle] using this

/-- **C16.** … and that is the state the fault-free twin reaches: the same history with every
    failing reconcile and every restart removed (same writes, same deliveries, same successful
    reconciles) ends, after the same completion, with the same outputs. -/
theorem faults_do_not_change_fixpoint (f : Nat → Nat → Nat) (n v0 : Nat) (evs : List Ev)
    (hev : ∀ e ∈ evs, e.isRun = true) (i : Nat) (hi : i < n) :
    ((settle f (run f (init n v0) evs)).ctl i).out =
      ((settle f (run f (init n v0) (evs.filter fun e => !e.isFault))).ctl i).out := by
  have hev' : ∀ e ∈ evs.filter (fun e => !e.isFault), e.isRun = true :=
    fun e he => hev e (List.mem_filter.1 he).1
  rw [converges_after_faults f n v0 evs hev i hi,
    converges_after_faults f n v0 _ hev' i hi, run_input, run_input, lastWrite_filter]

/-! ### watch failure: the runtime stops and returns that error -/

/-- every event but an environment write is a step of an actor of the runtime -/
def isActor : Ev → Bool
  | .write _ => false
  | _ => true

theorem returned_iff (s : Sys) :
    s.returned = true ↔ s.status.isCancelled = true ∧ s.intake = false ∧ s.deliverer = false ∧
      s.crashed = false ∧ ∀ i, i < s.n → (s.ctl i).loop.phase = .stopped := by
  simp [Sys.returned, List.all_eq_true, and_assoc]

/-- nothing an actor of the runtime could do is enabled once Run has returned -/
theorem returned_disables (s : Sys) (h : s.returned = true) (e : Ev) (he : isActor e = true) :
    e.enabled s = false := by
  obtain ⟨hc, hi, hd, _, hall⟩ := (returned_iff s).1 h
  cases e with
  | write v => cases he
  | deliver => simp [Ev.enabled, hd]
  | reconcile i r =>
    by_cases hlt : i < s.n
    · simp [Ev.enabled, REv.enabled, hall i hlt]
    · simp [Ev.enabled, hlt]
  | restart i =>
    by_cases hlt : i < s.n
    · simp [Ev.enabled, REv.enabled, hall i hlt, Phase.isBackingOff]
    · simp [Ev.enabled, hlt]
  | watchErr x => simp [Ev.enabled, hi]
  | cancel =>
    cases hs : s.status with
    | running => rw [hs] at hc; cases hc
    | cancelled r => simp [Ev.enabled, hs]
  | observe i =>
    by_cases hlt : i < s.n
    · simp [Ev.enabled, hall i hlt, Phase.live]
    · simp [Ev.enabled, hlt]
  | pipeObserve => simp [Ev.enabled, hi, hd]

theorem step_watchErr (f : Nat → Nat → Nat) (s : Sys) (e : Nat) (hs : s.status = .running)
    (hi : s.intake = true) (hc : s.crashed = false) :
    step f s (.watchErr e) = { s with intake := false, status := .cancelled (some e) } := by
  have h1 : Gen.Restart.watchErrAborts = true := facts.2.2.2.2.2.2.2.2.2.2.2.2.2.1
  have h2 : Gen.Restart.dedupStopsOnAbort = true := facts.2.2.2.2.2.2.2.2.2.2.2.2.2.2.1
  have h3 : Gen.Restart.runReturnsWatchErr = true := facts.2.2.2.2.2.2.2.2.2.2.2.2.2.2.2.1
  rw [step_enabled f s _ (by simp [Ev.enabled, hi, hc])]
  simp [stepOn, reportStep, reportEndsIntake, hs, h1, h2, h3]

/-- what a step can do to status, intake and the notification flag once the context is cancelled
    and the intake is dead -/
theorem cancelled_step (f : Nat → Nat → Nat) (s : Sys) (ev : Ev) (r : Option Nat)
    (hs : s.status = .cancelled r) (hi : s.intake = false) :
    (step f s ev).status = .cancelled r ∧ (step f s ev).intake = false ∧
    ((step f s ev).note = true → s.note = true) := by
  by_cases hen : ev.enabled s = true
  · cases ev with
    | write v => rw [step_write]; simp [hs, hi]
    | deliver => rw [step_deliver f s hen]; simp [hs, hi]
    | reconcile i x => rw [step_reconcile f s i x hen]; exact ⟨hs, hi, id⟩
    | restart i => rw [step_restart f s i hen]; exact ⟨hs, hi, id⟩
    | watchErr x => simp [Ev.enabled, hi] at hen
    | cancel => simp [Ev.enabled, hs] at hen
    | observe i =>
      rw [step_enabled f s _ hen]
      simp only [stepOn]
      split <;> exact ⟨hs, hi, id⟩
    | pipeObserve =>
      rw [step_enabled f s _ hen]
      exact ⟨hs, by simp [stepOn, (pipeStop_frame genCfg s).2.2.2.2.2.2.2.2.1, hi], id⟩
  · have hf : ev.enabled s = false := by simpa using hen
    rw [step_disabled f s ev hf]; exact ⟨hs, hi, id⟩

theorem cancelled_stable (f : Nat → Nat → Nat) (r : Option Nat) (evs : List Ev) (s : Sys)
    (hs : s.status = .cancelled r) (hi : s.intake = false) :
    (run f s evs).status = .cancelled r ∧ (run f s evs).intake = false ∧
    ((run f s evs).note = true → s.note = true) := by
  induction evs generalizing s with
  | nil => exact ⟨hs, hi, id⟩
  | cons ev rest ih =>
    obtain ⟨h1, h2, h3⟩ := cancelled_step f s ev r hs hi
    obtain ⟨i1, i2, i3⟩ := ih (step f s ev) h1 h2
    exact ⟨i1, i2, fun hn => h3 (i3 hn)⟩

/-- **C16, loud failure.** In any running state, when the aggregated watch delivers an `Errored`
    event with error `e`: the runtime context is cancelled with return value `e`, the goroutine
    that reads watch notifications is gone — and through ANY further schedule this stays so: the
    return value remains `e`, no notification is ever taken in again (the only notification that
    can still be delivered is one that was already in the pipeline before the error), and as soon
    as every loop has observed the cancellation `Run` has returned the wrapped `e` and nothing
    (no reconcile, no restart, no delivery) is enabled any more. -/
theorem watch_error_stops_runtime (f : Nat → Nat → Nat) (s : Sys) (e : Nat) (evs : List Ev)
    (hs : s.status = .running) (hi : s.intake = true) (hc : s.crashed = false) :
    (run f (step f s (.watchErr e)) evs).status = .cancelled (some e) ∧
    (run f (step f s (.watchErr e)) evs).intake = false ∧
    ((run f (step f s (.watchErr e)) evs).note = true → s.note = true) ∧
    ((run f (step f s (.watchErr e)) evs).returned = true →
      (run f (step f s (.watchErr e)) evs).retval = some (some e) ∧
      ∀ ev, isActor ev = true → ev.enabled (run f (step f s (.watchErr e)) evs) = false) := by
  have h0 := step_watchErr f s e hs hi hc
  have hst := cancelled_stable f (some e) evs (step f s (.watchErr e)) (by rw [h0]) (by rw [h0])
  refine ⟨hst.1, hst.2.1, fun hn => by have := hst.2.2 hn; rw [h0] at this; exact this, ?_⟩
  intro hret
  refine ⟨?_, fun ev hev => returned_disables _ hret ev hev⟩
  simp [Sys.retval, hst.1, hret]

/-! ### cancellation: nothing is enabled after all loops have observed it -/

theorem step_returned (f : Nat → Nat → Nat) (s : Sys) (h : s.returned = true) (e : Ev) :
    (step f s e).ctl = s.ctl ∧ (step f s e).returned = true ∧ (step f s e).status = s.status := by
  cases he : isActor e with
  | true => rw [step_disabled f s e (returned_disables s h e he)]; exact ⟨rfl, h, rfl⟩
  | false =>
    cases e with
    | write v =>
      obtain ⟨hc, hi, hd, hcr, hall⟩ := (returned_iff s).1 h
      rw [step_write]
      exact ⟨rfl, (returned_iff _).2 ⟨hc, hi, hd, hcr, hall⟩, rfl⟩
    | _ => cases he

/-- **C16, clean shutdown.** Once every loop and the pipeline have observed the cancellation —
    i.e. `Run` has returned — no actor step is enabled: no reconcile, no restart, no delivery, no
    watch intake; and whatever the environment still writes, no controller state (and so no
    output) ever changes again, and `Run`'s return value stays what it was. -/
theorem after_cancel_no_write (f : Nat → Nat → Nat) (s : Sys) (h : s.returned = true) :
    (∀ ev, isActor ev = true → ev.enabled s = false) ∧
    (∀ evs, (run f s evs).ctl = s.ctl ∧ (run f s evs).returned = true ∧ (run f s evs).retval = s.retval) := by
  refine ⟨fun ev hev => returned_disables s h ev hev, ?_⟩
  intro evs
  induction evs generalizing s with
  | nil => exact ⟨rfl, h, rfl⟩
  | cons e rest ih =>
    obtain ⟨h1, h2, h3⟩ := step_returned f s h e
    obtain ⟨i1, i2, i3⟩ := ih (step f s e) h2
    refine ⟨by rw [← h1]; exact i1, i2, ?_⟩
    show (run f (step f s e) rest).retval = _
    rw [i3]; simp [Sys.retval, h3, h2, h]

/-- the shutdown schedule does end `Run`: from any cancelled, uncrashed state, once every loop
    and the pipeline have observed the cancellation, `Run` has returned — the pipeline CAN observe
    it as long as its intake goroutine is not blocked in the report of a failed watch (`hk`; that
    this never happens with the channel of the source tree is `failing_watch_report_never_blocks`,
    and `cancellation_run_returns` puts the two together for every schedule) -/
theorem shutdown_returns (f : Nat → Nat → Nat) (s : Sys) (r : Option Nat) (hs : s.status = .cancelled r)
    (hc : s.crashed = false) (hk : s.stuck = false) (hall : ∀ i, i < s.n → (s.ctl i).loop.phase = .stopped) :
    (step f s .pipeObserve).returned = true ∧ (step f s .pipeObserve).retval = some r := by
  by_cases hen : Ev.pipeObserve.enabled s = true
  · rw [step_enabled f s _ hen]
    have hp := pipeStop_frame genCfg s
    have hst : (stepOn f s .pipeObserve).status = .cancelled r := by
      show (pipeStop genCfg s).status = _; rw [hp.2.2.2.2.2.2.1]; exact hs
    have : (stepOn f s .pipeObserve).returned = true :=
      (returned_iff _).2 ⟨by rw [hst]; rfl,
        by show (pipeStop genCfg s).intake = false; rw [hp.2.2.2.2.2.2.2.2.1, hk]; simp,
        rfl, hc, hall⟩
    refine ⟨this, ?_⟩
    simp [Sys.retval, this, hst]
  · have hf : Ev.pipeObserve.enabled s = false := by simpa using hen
    rw [step_disabled f s _ hf]
    have hid : s.intake = false ∧ s.deliverer = false := by
      simpa [Ev.enabled, hc, hs, Status.isCancelled] using hf
    have : s.returned = true := (returned_iff _).2 ⟨by simp [hs, Status.isCancelled], hid.1, hid.2, hc, hall⟩
    exact ⟨this, by simp [Sys.retval, this, hs]⟩

/-! ### the report of a failed watch never blocks, so cancellation always ends `Run`

  `shutdown_returns` needs `s.stuck = false`: the goroutine that reads the watch notifications must
  not sit in `runtime.watchErrors <- e.Error` (runtime.go:323), a send that does not watch the
  context and that `Run` — the only receiver — no longer serves once it has left its select for
  `runCtxCancel(); group.Wait()`. Whether that can happen is decided by two regenerated facts: the
  capacity of the channel (`make(chan error, 1)`, NewRuntime) and the shape of the send. -/

/-- the regenerated facts about `watchErrors`: a bare send, into a channel with at least one
    buffer slot, which nothing else in the package touches -/
theorem facts_watch_channel :
    Gen.Restart.watchErrSend = .plain ∧ 1 ≤ Gen.Restart.watchErrCap ∧
    Gen.Restart.watchErrChanPrivate = true ∧ genCfg.send = .plain ∧ 1 ≤ genCfg.cap := by decide

/-- the machine over the channel of the source tree IS the machine of all the theorems above -/
theorem stepC_gen (f : Nat → Nat → Nat) (s : Sys) (e : Ev) : stepC genCfg f s e = step f s e := by
  unfold stepC step
  split
  · cases e <;> rfl
  · rfl

theorem runC_gen (f : Nat → Nat → Nat) (evs : List Ev) (s : Sys) : runC genCfg f s evs = run f s evs := by
  induction evs generalizing s with
  | nil => rfl
  | cons e rest ih => show runC genCfg f (stepC genCfg f s e) rest = run f (step f s e) rest; rw [stepC_gen, ih]

theorem stepC_disabled (c : ChanCfg) (f : Nat → Nat → Nat) (s : Sys) (e : Ev) (h : e.enabled s = false) :
    stepC c f s e = s := by
  simp [stepC, h]

/-- every event but the report of a failed watch and the pipeline's shutdown leaves the channel
    and the intake goroutine alone -/
theorem stepOn_chan (f : Nat → Nat → Nat) (s : Sys) (e : Ev)
    (h1 : ∀ x, e ≠ .watchErr x) (h2 : e ≠ .pipeObserve) :
    (stepOn f s e).stuck = s.stuck ∧ (stepOn f s e).intake = s.intake ∧ (stepOn f s e).errq = s.errq ∧
    ((stepOn f s e).status.isCancelled = true ∨ (stepOn f s e).status = s.status) := by
  cases e with
  | watchErr x => exact absurd rfl (h1 x)
  | pipeObserve => exact absurd rfl h2
  | observe i => simp only [stepOn]; split <;> exact ⟨rfl, rfl, rfl, Or.inr rfl⟩
  | cancel => exact ⟨rfl, rfl, rfl, Or.inl rfl⟩
  | _ => exact ⟨rfl, rfl, rfl, Or.inr rfl⟩

/-- the channel invariant: nobody sits in the send, and while the goroutine that could send is
    alive the buffer is empty (it sends at most once: `return false` follows the send) -/
structure ChanOk (s : Sys) : Prop where
  notStuck : s.stuck = false
  empty : s.intake = true → s.errq = 0

theorem chanOk_init (n v : Nat) : ChanOk (init n v) := ⟨rfl, fun _ => rfl⟩

/-- with at least one buffer slot and a recognised send, the invariant survives every step -/
theorem chanOk_stepC (c : ChanCfg) (hcap : 1 ≤ c.cap) (hsend : c.send ≠ .unknown)
    (f : Nat → Nat → Nat) (s : Sys) (e : Ev) (h : ChanOk s) : ChanOk (stepC c f s e) := by
  by_cases hen : e.enabled s = true
  · cases e with
    | watchErr x =>
      have hi : s.intake = true := by
        have := hen; simp [Ev.enabled] at this; exact this.2
      have hq : s.errq < c.cap := by rw [h.empty hi]; exact hcap
      have hcomp : c.completes s = true := by
        unfold ChanCfg.completes
        cases hk : c.send with
        | plain => simp [hq]
        | ctxAware => simp [hq]
        | nonBlocking => rfl
        | unknown => exact absurd hk hsend
      simp only [stepC, hen, if_true]
      unfold reportStep
      split
      · exact h
      · split
        · exact ⟨h.notStuck, fun hh => by cases hh⟩
        · exact ⟨h.notStuck, fun hh => by cases hh⟩
    | pipeObserve =>
      simp only [stepC, hen, if_true]
      have hp := pipeStop_frame c s
      refine ⟨by rw [hp.2.2.2.2.2.2.2.2.2, h.notStuck]; simp, fun hh => ?_⟩
      rw [hp.2.2.2.2.2.2.2.2.1, h.notStuck] at hh; simp at hh
    | write v =>
      simp only [stepC, hen, if_true]
      obtain ⟨a, b, d, _⟩ := stepOn_chan f s (.write v) (fun _ hh => by cases hh) (fun hh => by cases hh)
      exact ⟨by rw [a]; exact h.notStuck, fun hh => by rw [d]; exact h.empty (by rw [← b]; exact hh)⟩
    | deliver =>
      simp only [stepC, hen, if_true]
      obtain ⟨a, b, d, _⟩ := stepOn_chan f s .deliver (fun _ hh => by cases hh) (fun hh => by cases hh)
      exact ⟨by rw [a]; exact h.notStuck, fun hh => by rw [d]; exact h.empty (by rw [← b]; exact hh)⟩
    | reconcile i r =>
      simp only [stepC, hen, if_true]
      obtain ⟨a, b, d, _⟩ := stepOn_chan f s (.reconcile i r) (fun _ hh => by cases hh) (fun hh => by cases hh)
      exact ⟨by rw [a]; exact h.notStuck, fun hh => by rw [d]; exact h.empty (by rw [← b]; exact hh)⟩
    | restart i =>
      simp only [stepC, hen, if_true]
      obtain ⟨a, b, d, _⟩ := stepOn_chan f s (.restart i) (fun _ hh => by cases hh) (fun hh => by cases hh)
      exact ⟨by rw [a]; exact h.notStuck, fun hh => by rw [d]; exact h.empty (by rw [← b]; exact hh)⟩
    | cancel =>
      simp only [stepC, hen, if_true]
      obtain ⟨a, b, d, _⟩ := stepOn_chan f s .cancel (fun _ hh => by cases hh) (fun hh => by cases hh)
      exact ⟨by rw [a]; exact h.notStuck, fun hh => by rw [d]; exact h.empty (by rw [← b]; exact hh)⟩
    | observe i =>
      simp only [stepC, hen, if_true]
      obtain ⟨a, b, d, _⟩ := stepOn_chan f s (.observe i) (fun _ hh => by cases hh) (fun hh => by cases hh)
      exact ⟨by rw [a]; exact h.notStuck, fun hh => by rw [d]; exact h.empty (by rw [← b]; exact hh)⟩
  · have hf : e.enabled s = false := by simpa using hen
    rw [stepC_disabled c f s e hf]; exact h

theorem chanOk_runC (c : ChanCfg) (hcap : 1 ≤ c.cap) (hsend : c.send ≠ .unknown)
    (f : Nat → Nat → Nat) (evs : List Ev) (s : Sys) (h : ChanOk s) : ChanOk (runC c f s evs) := by
  induction evs generalizing s with
  | nil => exact h
  | cons e rest ih => exact ih _ (chanOk_stepC c hcap hsend f s e h)

/-- **C16, the failing-watch report never blocks.** Whatever the capacity (≥ 1) and whichever of
    the recognised send shapes: through EVERY schedule from the start — any interleaving of
    faults, watch failures (before, at, or after the cancellation) and cancellation — no goroutine
    is ever left sitting in the report of a failed watch, and the buffer holds at most the one
    error the (single, then finished) sender put there. -/
theorem failing_watch_report_never_blocks_cfg (c : ChanCfg) (hcap : 1 ≤ c.cap) (hsend : c.send ≠ .unknown)
    (f : Nat → Nat → Nat) (n v : Nat) (evs : List Ev) :
    (runC c f (init n v) evs).stuck = false ∧
    ((runC c f (init n v) evs).intake = true → (runC c f (init n v) evs).errq = 0) :=
  let h := chanOk_runC c hcap hsend f evs (init n v) (chanOk_init n v)
  ⟨h.notStuck, h.empty⟩

/-- … in particular for the channel of the source tree (`make(chan error, 1)`, bare send): this
    is the theorem that stops checking when the buffer is removed -/
theorem failing_watch_report_never_blocks (f : Nat → Nat → Nat) (n v : Nat) (evs : List Ev) :
    (run f (init n v) evs).stuck = false := by
  have h := failing_watch_report_never_blocks_cfg genCfg (by decide) (by decide) f n v evs
  rw [runC_gen] at h; exact h.1

/-! #### every loop reaches its stopped state -/

/-- no panic ever escapes a loop -/
structure NoCrash (s : Sys) : Prop where
  proc : s.crashed = false
  loops : ∀ i, (s.ctl i).loop.phase ≠ .crashed

theorem noCrash_init (n v : Nat) : NoCrash (init n v) := ⟨rfl, fun _ => by simp [init]⟩

theorem reconcile_not_crashed (f : Nat → Nat → Nat) (i v : Nat) (c : Ctl) (r : Rec)
    (h : c.loop.phase ≠ .crashed) : (Ctl.reconcile f i v c r).loop.phase ≠ .crashed := by
  have ht : (rstep c.loop .takeEvent).phase ≠ .crashed := rstep_not_crashed _ _ h
  cases r with
  | ok reset =>
    cases reset
    · simpa [Ctl.reconcile] using ht
    · simpa [Ctl.reconcile] using rstep_not_crashed _ .reset ht
  | fail p => simpa [Ctl.reconcile] using rstep_not_crashed _ (.runEnds .failed) ht
  | panic p => simpa [Ctl.reconcile] using rstep_not_crashed _ (.runEnds .panicked) ht

theorem noCrash_step (f : Nat → Nat → Nat) (s : Sys) (e : Ev) (h : NoCrash s) : NoCrash (step f s e) := by
  by_cases hen : e.enabled s = true
  · cases e with
    | write v => rw [step_write]; exact ⟨h.proc, h.loops⟩
    | deliver =>
      rw [step_enabled f s _ hen]
      exact ⟨h.proc, fun i => rstep_not_crashed _ .trigger (h.loops i)⟩
    | reconcile i r =>
      rw [step_reconcile f s i r hen]
      refine ⟨h.proc, fun j => ?_⟩
      by_cases hji : j = i
      · subst hji; rw [setCtl_self]; exact reconcile_not_crashed f j s.input _ r (h.loops j)
      · rw [setCtl_ne _ _ _ _ hji]; exact h.loops j
    | restart i =>
      rw [step_restart f s i hen]
      refine ⟨h.proc, fun j => ?_⟩
      by_cases hji : j = i
      · subst hji; rw [setCtl_self]; simp
      · rw [setCtl_ne _ _ _ _ hji]; exact h.loops j
    | watchErr x =>
      rw [step_enabled f s _ hen]
      have hf := reportStep_frame genCfg s x
      exact ⟨by show (reportStep genCfg s x).crashed = false; rw [hf.2.2.2.2.2]; exact h.proc,
        fun i => by show ((reportStep genCfg s x).ctl i).loop.phase ≠ _; rw [hf.2.1]; exact h.loops i⟩
    | cancel => rw [step_enabled f s _ hen]; exact ⟨h.proc, h.loops⟩
    | observe i =>
      rw [step_enabled f s _ hen]
      simp only [stepOn]
      split
      · refine ⟨h.proc, fun j => ?_⟩
        by_cases hji : j = i
        · subst hji; rw [setCtl_self]; simp
        · rw [setCtl_ne _ _ _ _ hji]; exact h.loops j
      · exact h
    | pipeObserve => rw [step_enabled f s _ hen]; exact ⟨h.proc, h.loops⟩
  · have hf : e.enabled s = false := by simpa using hen
    rw [step_disabled f s e hf]; exact h

theorem noCrash_run (f : Nat → Nat → Nat) (evs : List Ev) (s : Sys) (h : NoCrash s) : NoCrash (run f s evs) := by
  induction evs generalizing s with
  | nil => exact h
  | cons e rest ih => exact ih _ (noCrash_step f s e h)

/-- what the shutdown needs of a state: cancelled, nothing crashed, nobody stuck in the report -/
structure Stopping (r : Option Nat) (s : Sys) : Prop where
  status : s.status = .cancelled r
  noCrash : NoCrash s
  notStuck : s.stuck = false

/-- loop `i` notices the cancellation: it is stopped afterwards, every loop that was stopped
    still is, nothing else changes -/
theorem observe_stops (f : Nat → Nat → Nat) (s : Sys) (r : Option Nat) (i : Nat) (h : Stopping r s) :
    Stopping r (step f s (.observe i)) ∧ (step f s (.observe i)).n = s.n ∧
    (i < s.n → ((step f s (.observe i)).ctl i).loop.phase = .stopped) ∧
    (∀ j, (s.ctl j).loop.phase = .stopped → ((step f s (.observe i)).ctl j).loop.phase = .stopped) := by
  have hg : Gen.Restart.adaptersInGroup = true := facts.2.2.2.2.2.2.2.2.2.2.2.2.2.2.2.2.2
  by_cases hen : (Ev.observe i).enabled s = true
  · rw [step_enabled f s _ hen]
    simp only [stepOn, hg, if_true]
    refine ⟨⟨h.status, ⟨h.noCrash.proc, fun j => ?_⟩, h.notStuck⟩, rfl, fun _ => by rw [setCtl_self], fun j hj => ?_⟩
    · by_cases hji : j = i
      · subst hji; rw [setCtl_self]; simp
      · rw [setCtl_ne _ _ _ _ hji]; exact h.noCrash.loops j
    · by_cases hji : j = i
      · subst hji; rw [setCtl_self]
      · rw [setCtl_ne _ _ _ _ hji]; exact hj
  · have hf : (Ev.observe i).enabled s = false := by simpa using hen
    rw [step_disabled f s _ hf]
    refine ⟨h, rfl, fun hi => ?_, fun _ hj => hj⟩
    have hl : (s.ctl i).loop.phase.live = false := by
      simpa [Ev.enabled, h.noCrash.proc, hi, h.status, Status.isCancelled] using hf
    have hnc := h.noCrash.loops i
    cases hp : (s.ctl i).loop.phase with
    | running => rw [hp] at hl; cases hl
    | backingOff lo hi => rw [hp] at hl; cases hl
    | stopped => rfl
    | crashed => exact absurd hp hnc

theorem observe_all_stops (f : Nat → Nat → Nat) (r : Option Nat) (l : List Nat) (s : Sys) (h : Stopping r s) :
    Stopping r (run f s (l.map Ev.observe)) ∧ (run f s (l.map Ev.observe)).n = s.n ∧
    (∀ i ∈ l, i < s.n → ((run f s (l.map Ev.observe)).ctl i).loop.phase = .stopped) ∧
    (∀ j, (s.ctl j).loop.phase = .stopped → ((run f s (l.map Ev.observe)).ctl j).loop.phase = .stopped) := by
  induction l generalizing s with
  | nil => exact ⟨h, rfl, fun _ hi => (by cases hi), fun _ hj => hj⟩
  | cons a rest ih =>
    obtain ⟨h1, hn1, ha, hkeep⟩ := observe_stops f s r a h
    obtain ⟨h2, hn2, hrest, hkeep2⟩ := ih (step f s (.observe a)) h1
    refine ⟨h2, by rw [← hn1]; exact hn2, fun i hi hlt => ?_, fun j hj => hkeep2 j (hkeep j hj)⟩
    cases hi with
    | head => exact hkeep2 _ (ha hlt)
    | tail _ hmem => exact hrest i hmem (by rw [hn1]; exact hlt)

/-- **C16, clean shutdown, liveness half.** From ANY cancelled state in which no panic has escaped
    and nobody is stuck in the report of a failed watch, the shutdown schedule — every loop and
    the pipeline notice the cancellation — ends in `Run` having returned the value the
    cancellation fixed: every goroutine of the machine has reached its stopped state. -/
theorem shutdown_stops_every_goroutine (f : Nat → Nat → Nat) (s : Sys) (r : Option Nat) (h : Stopping r s) :
    (run f s (shutdownEvs s.n)).returned = true ∧ (run f s (shutdownEvs s.n)).retval = some r := by
  obtain ⟨h1, hn, hall, _⟩ := observe_all_stops f r (List.range s.n) s h
  unfold shutdownEvs
  rw [run_append]
  show (step f (run f s ((List.range s.n).map Ev.observe)) .pipeObserve).returned = true ∧ _
  exact shutdown_returns f _ r h1.status h1.noCrash.proc h1.notStuck
    (fun i hi => hall i (List.mem_range.2 (by rw [← hn]; exact hi)) (by rw [← hn]; exact hi))

/-- **C16, on cancellation `Run` returns — for every schedule.** Take any history whatsoever of
    the runtime (faults, restarts, input changes, watch failures before or after the
    cancellation, …): if by its end the runtime context is cancelled — by the caller or by a failed
    watch — then letting every loop and the pipeline notice it ends `Run`, which returns what the
    cancellation fixed (nil, or the watch error). No goroutine can be left behind: none crashes
    (recover), none blocks in the report of a failed watch (buffered channel). -/
theorem cancellation_run_returns (f : Nat → Nat → Nat) (n v : Nat) (evs : List Ev) (r : Option Nat)
    (hs : (run f (init n v) evs).status = .cancelled r) :
    (run f (init n v) (evs ++ shutdownEvs n)).returned = true ∧
    (run f (init n v) (evs ++ shutdownEvs n)).retval = some r := by
  have hst : Stopping r (run f (init n v) evs) :=
    ⟨hs, noCrash_run f evs _ (noCrash_init n v), failing_watch_report_never_blocks f n v evs⟩
  have := shutdown_stops_every_goroutine f _ r hst
  rw [run_n] at this
  rw [run_append]; exact this

/-! #### … and what the buffer is for: a report that blocks is never released -/

/-- a goroutine sitting in a bare send on a full (or unbuffered) channel after `Run` has left its
    select -/
structure Blocked (c : ChanCfg) (s : Sys) : Prop where
  stuck : s.stuck = true
  intake : s.intake = true
  cancelled : s.status.isCancelled = true
  full : ¬ s.errq < c.cap

theorem blocked_stepC (c : ChanCfg) (hsend : c.send = .plain) (f : Nat → Nat → Nat) (s : Sys) (e : Ev)
    (h : Blocked c s) : Blocked c (stepC c f s e) := by
  by_cases hen : e.enabled s = true
  · have hcanc : ∀ s' : Sys, (s'.status.isCancelled = true ∨ s'.status = s.status) → s'.status.isCancelled = true :=
      fun s' hh => hh.elim id (fun h2 => by rw [h2]; exact h.cancelled)
    cases e with
    | watchErr x =>
      have hnr : (s.status == Status.running) = false := by
        cases hs : s.status with
        | running => have := h.cancelled; rw [hs] at this; cases this
        | cancelled r => rfl
      have hcomp : c.completes s = false := by
        unfold ChanCfg.completes; rw [hsend]; simpa using h.full
      simp only [stepC, hen, if_true]
      unfold reportStep
      split
      · exact h
      · simp only [hnr, Bool.false_and]
        rw [if_neg (by simp), if_neg (by simp [hcomp])]
        exact ⟨rfl, h.intake, h.cancelled, h.full⟩
    | pipeObserve =>
      simp only [stepC, hen, if_true]
      have hp := pipeStop_frame c s
      have hv : (s.intake && s.stuck && c.send != Gen.SendKind.ctxAware) = true := by
        rw [h.intake, h.stuck, hsend]; decide
      exact ⟨by rw [hp.2.2.2.2.2.2.2.2.2, hv], by rw [hp.2.2.2.2.2.2.2.2.1, hv],
        by rw [hp.2.2.2.2.2.2.1]; exact h.cancelled, by rw [hp.2.2.2.2.2.2.2.1]; exact h.full⟩
    | write v =>
      simp only [stepC, hen, if_true]
      obtain ⟨a, b, d, g⟩ := stepOn_chan f s (.write v) (fun _ hh => by cases hh) (fun hh => by cases hh)
      exact ⟨by rw [a]; exact h.stuck, by rw [b]; exact h.intake, hcanc _ g, by rw [d]; exact h.full⟩
    | deliver =>
      simp only [stepC, hen, if_true]
      obtain ⟨a, b, d, g⟩ := stepOn_chan f s .deliver (fun _ hh => by cases hh) (fun hh => by cases hh)
      exact ⟨by rw [a]; exact h.stuck, by rw [b]; exact h.intake, hcanc _ g, by rw [d]; exact h.full⟩
    | reconcile i r =>
      simp only [stepC, hen, if_true]
      obtain ⟨a, b, d, g⟩ := stepOn_chan f s (.reconcile i r) (fun _ hh => by cases hh) (fun hh => by cases hh)
      exact ⟨by rw [a]; exact h.stuck, by rw [b]; exact h.intake, hcanc _ g, by rw [d]; exact h.full⟩
    | restart i =>
      simp only [stepC, hen, if_true]
      obtain ⟨a, b, d, g⟩ := stepOn_chan f s (.restart i) (fun _ hh => by cases hh) (fun hh => by cases hh)
      exact ⟨by rw [a]; exact h.stuck, by rw [b]; exact h.intake, hcanc _ g, by rw [d]; exact h.full⟩
    | cancel =>
      simp only [stepC, hen, if_true]
      obtain ⟨a, b, d, g⟩ := stepOn_chan f s .cancel (fun _ hh => by cases hh) (fun hh => by cases hh)
      exact ⟨by rw [a]; exact h.stuck, by rw [b]; exact h.intake, hcanc _ g, by rw [d]; exact h.full⟩
    | observe i =>
      simp only [stepC, hen, if_true]
      obtain ⟨a, b, d, g⟩ := stepOn_chan f s (.observe i) (fun _ hh => by cases hh) (fun hh => by cases hh)
      exact ⟨by rw [a]; exact h.stuck, by rw [b]; exact h.intake, hcanc _ g, by rw [d]; exact h.full⟩
  · have hf : e.enabled s = false := by simpa using hen
    rw [stepC_disabled c f s e hf]; exact h

/-- a blocked report stays blocked through every schedule, and `Run` — which waits for that
    goroutine — never returns -/
theorem blocked_report_is_forever (c : ChanCfg) (hsend : c.send = .plain) (f : Nat → Nat → Nat)
    (evs : List Ev) (s : Sys) (h : Blocked c s) :
    Blocked c (runC c f s evs) ∧ (runC c f s evs).returned = false := by
  induction evs generalizing s with
  | nil => exact ⟨h, by simp [runC, Sys.returned, h.intake]⟩
  | cons e rest ih => exact ih _ (blocked_stepC c hsend f s e h)

/-- **what the regenerated capacity protects against.** Had `watchErrors` no buffer
    (`make(chan error)`), then for every number of controllers, every input and every schedule that
    follows: a watch failure that `processEvents` meets after `Run` has observed the cancellation
    leaves `Run` waiting for ever — "on cancellation Run returns" would be false. -/
theorem unbuffered_report_hangs_run (f : Nat → Nat → Nat) (n v e : Nat) (evs : List Ev) :
    (runC ⟨0, .plain⟩ f (init n v) ([.cancel, .watchErr e] ++ evs)).returned = false := by
  have hr : reportEndsIntake = true := reportEndsIntake_true
  have hb : Blocked ⟨0, .plain⟩ (runC ⟨0, .plain⟩ f (init n v) [.cancel, .watchErr e]) := by
    refine ⟨?_, ?_, ?_, ?_⟩ <;>
      simp [runC, stepC, Ev.enabled, init, stepOn, reportStep, hr, ChanCfg.completes, Status.isCancelled]
  have hsplit : runC ⟨0, .plain⟩ f (init n v) ([.cancel, .watchErr e] ++ evs) =
      runC ⟨0, .plain⟩ f (runC ⟨0, .plain⟩ f (init n v) [.cancel, .watchErr e]) evs := rfl
  rw [hsplit]
  exact (blocked_report_is_forever ⟨0, .plain⟩ rfl f evs _ hb).2

/-- (marker) errors reported below this line are in the non-vacuity examples -/
theorem examples_follow : True := trivial

/-! ### non-vacuity: the hypotheses are satisfiable by non-trivial histories, the numbers are the
    real ones, and the qualifiers in the statements are needed -/

/-- two failures (error, then panic) in a row: the loop is running again and the third failure
    waits within [0.5, 1.5] × 1.125 s -/
example :
    (rrun {} [.takeEvent, .runEnds .failed, .timerFires, .takeEvent, .runEnds .panicked, .timerFires]).phase = .running ∧
    rcount {} [.takeEvent, .runEnds .failed, .timerFires, .takeEvent, .runEnds .panicked, .timerFires] 0 = 2 ∧
    (rstep (rrun {} [.takeEvent, .runEnds .failed, .timerFires, .takeEvent, .runEnds .panicked, .timerFires])
      (.runEnds .failed)).phase = .backingOff 562500000 1687500001 := by decide

/-- the first failure waits 250 ms … 750 ms; without a reset a success does not shrink the
    interval; twelve failures reach the 60 s cap: [30 s, 90 s] -/
example :
    (rstep {} (.runEnds .failed)).phase = .backingOff 250000000 750000001 ∧
    (rstep (rrun {} [.takeEvent, .runEnds .failed, .timerFires, .takeEvent]) (.runEnds .failed)).phase
      = .backingOff 375000000 1125000001 ∧
    (rstep (rrun {} [.takeEvent, .runEnds .failed, .timerFires, .takeEvent, .reset]) (.runEnds .failed)).phase
      = .backingOff 250000000 750000001 ∧
    bounds (base 12) = (30000000000, 90000000001) := by decide

/-- an event that cannot happen in the state it hits is not counted: a "failure" while the loop
    is backing off changes nothing -/
example : rcount {} [.runEnds .failed, .runEnds .failed, .reset] 0 = 1 := by decide

/-- the restart puts an event into an EMPTY channel (the controller had taken the previous one) -/
example :
    (rrun {} [.takeEvent, .runEnds .failed]).pending = false ∧
    REv.timerFires.enabled (rrun {} [.takeEvent, .runEnds .failed]) = true ∧
    (rstep (rrun {} [.takeEvent, .runEnds .failed]) .timerFires).pending = true := by decide

/-- run hook: a failure after a run of more than a minute starts over at 500 ms, one after exactly
    a minute does not; a task never starts over -/
example :
    hcount {} [.runEnds .failed 0, .timerFires, .runEnds .panicked 0, .timerFires] 0 = 2 ∧
    (hstep (hrun {} [.runEnds .failed 0, .timerFires, .runEnds .panicked 0, .timerFires]) (.runEnds .failed 60000000001)).phase
      = .backingOff 250000000 750000001 ∧
    (hstep (hrun {} [.runEnds .failed 0, .timerFires, .runEnds .panicked 0, .timerFires]) (.runEnds .failed 60000000000)).phase
      = .backingOff 562500000 1687500001 ∧
    (tstep (trun {} [.runEnds .failed 0, .timerFires, .runEnds .panicked 0, .timerFires]) (.runEnds .failed 60000000001)).phase
      = .backingOff 562500000 1687500001 := by decide

/-- queue: item 1 is handed out and fails, item 2 is due; after the requeue of 1 (500 ms away)
    item 2 is what the next worker gets, and item 1 is not handed out before its time -/
example :
    Queue.delivers (Queue.run Queue.init [.put 1 10, .put 2 20, .get]) = some (2, 20) ∧
    Queue.delivers (Queue.step (Queue.run Queue.init [.put 1 10, .put 2 20, .get]) (.requeue 1 10 500)).1 = some (2, 20) ∧
    Queue.delivers (Queue.run Queue.init [.put 1 10, .put 2 20, .get, .requeue 1 10 500, .get, .release 2, .tick 499]) = none ∧
    Queue.delivers (Queue.run Queue.init [.put 1 10, .put 2 20, .get, .requeue 1 10 500, .get, .release 2, .tick 500]) = some (1, 10) := by
  decide

/-- controller `i` computes `10·i + input` -/
def fEx (i v : Nat) : Nat := 10 * i + v

/-- a fault pattern: controller 0 fails leaving a partial output 99, the input changes twice,
    controller 1 reconciles in between, controller 0 restarts and panics -/
def evsEx : List Ev :=
  [.reconcile 0 (.fail (some 99)), .write 7, .deliver, .reconcile 1 (.ok true), .restart 0,
   .reconcile 0 (.panic none), .write 8]

example : (∀ e ∈ evsEx, e.isRun = true) := by decide

/-- before the faults cease the outputs are stale (99 and 17), afterwards both are `f i 8`; the
    fault-free twin (same writes, deliveries and successful reconciles) ends in the same state -/
example :
    ((run fEx (init 2 5) evsEx).ctl 0).out = some 99 ∧
    ((run fEx (init 2 5) evsEx).ctl 1).out = some 17 ∧
    ((settle fEx (run fEx (init 2 5) evsEx)).ctl 0).out = some 8 ∧
    ((settle fEx (run fEx (init 2 5) evsEx)).ctl 1).out = some 18 ∧
    evsEx.filter (fun e => !e.isFault) = [.write 7, .deliver, .reconcile 1 (.ok true), .write 8] ∧
    ((settle fEx (run fEx (init 2 5) (evsEx.filter fun e => !e.isFault))).ctl 0).out = some 8 := by
  decide

/-- isolation: while controller 0 is backing off, controller 1 reconciles the new input at once -/
example :
    (Ev.reconcile 1 (.ok true)).enabled (run fEx (init 2 5) [.reconcile 0 (.fail none), .write 7, .deliver]) = true ∧
    (Ev.reconcile 0 (.ok true)).enabled (run fEx (init 2 5) [.reconcile 0 (.fail none), .write 7, .deliver]) = false ∧
    (Ev.restart 0).enabled (run fEx (init 2 5) [.reconcile 0 (.fail none), .write 7, .deliver]) = true := by decide

/-- watch error 3 while controller 0 backs off and controller 1 has an event: the status is
    `cancelled (some 3)` at once; controller 1 may still take its (old) event — so "nothing is
    enabled" needs "all loops have observed" —; after the shutdown schedule Run has returned 3
    and a later write wakes nobody -/
example :
    (step fEx (run fEx (init 2 5) [.reconcile 0 (.fail none)]) (.watchErr 3)).status = .cancelled (some 3) ∧
    (Ev.reconcile 1 (.ok true)).enabled (step fEx (run fEx (init 2 5) [.reconcile 0 (.fail none)]) (.watchErr 3)) = true ∧
    (run fEx (init 2 5) ([.reconcile 0 (.fail none), .watchErr 3] ++ shutdownEvs 2)).returned = true ∧
    (run fEx (init 2 5) ([.reconcile 0 (.fail none), .watchErr 3] ++ shutdownEvs 2)).retval = some (some 3) ∧
    (Ev.deliver).enabled (run fEx (init 2 5) ([.reconcile 0 (.fail none), .watchErr 3] ++ shutdownEvs 2 ++ [.write 9])) = false ∧
    (run fEx (init 2 5) ([.reconcile 0 (.fail none), .watchErr 3] ++ shutdownEvs 2 ++ [.write 9])).note = false := by
  decide

/-- cancellation in the middle of a backoff: Run returns nil once the loops have observed it; not before -/
example :
    (run fEx (init 2 5) [.reconcile 0 (.panic (some 1)), .cancel]).returned = false ∧
    (run fEx (init 2 5) [.reconcile 0 (.panic (some 1)), .cancel, .observe 0, .pipeObserve]).returned = false ∧
    (run fEx (init 2 5) ([.reconcile 0 (.panic (some 1)), .cancel] ++ shutdownEvs 2)).retval = some none := by
  decide

/-- a watch error that arrives after the cancellation does not change the return value -/
example :
    (run fEx (init 1 0) ([.cancel, .watchErr 4] ++ shutdownEvs 1)).retval = some none := by decide

/-- the channel of the source tree: one slot, bare send -/
example : genCfg = ⟨1, .plain⟩ := by decide

/-- cancellation first, then the watch fails (the batch carrying `Errored` is processed after `Run`
    has left its select): the report goes into the buffer, the intake goroutine ends, the shutdown
    schedule ends `Run`, which returns nil; the hypotheses of `cancellation_run_returns` are met by
    this history, and controller 0 was backing off when it was cancelled -/
example :
    (run fEx (init 2 5) [.reconcile 0 (.fail none), .cancel, .watchErr 4]).stuck = false ∧
    (run fEx (init 2 5) [.reconcile 0 (.fail none), .cancel, .watchErr 4]).errq = 1 ∧
    (run fEx (init 2 5) [.reconcile 0 (.fail none), .cancel, .watchErr 4]).intake = false ∧
    (run fEx (init 2 5) [.reconcile 0 (.fail none), .cancel, .watchErr 4]).status = .cancelled none ∧
    ((run fEx (init 2 5) [.reconcile 0 (.fail none), .cancel, .watchErr 4]).ctl 0).loop.phase.isBackingOff = true ∧
    (run fEx (init 2 5) ([.reconcile 0 (.fail none), .cancel, .watchErr 4] ++ shutdownEvs 2)).returned = true ∧
    (run fEx (init 2 5) ([.reconcile 0 (.fail none), .cancel, .watchErr 4] ++ shutdownEvs 2)).retval = some none := by
  decide

/-- NEGATIVE WITNESS, capacity 0 (kernel-checked): the very same history over an unbuffered
    `watchErrors` leaves the intake goroutine in the send; the shutdown schedule stops both
    controllers and the deliverer but `Run` has NOT returned, and no further event helps — while
    a watch failure BEFORE the cancellation is fine without a buffer (Run receives it directly) -/
example :
    (runC ⟨0, .plain⟩ fEx (init 2 5) [.reconcile 0 (.fail none), .cancel, .watchErr 4]).stuck = true ∧
    (runC ⟨0, .plain⟩ fEx (init 2 5) ([.reconcile 0 (.fail none), .cancel, .watchErr 4] ++ shutdownEvs 2)).returned = false ∧
    (runC ⟨0, .plain⟩ fEx (init 2 5) ([.reconcile 0 (.fail none), .cancel, .watchErr 4] ++ shutdownEvs 2)).deliverer = false ∧
    ((runC ⟨0, .plain⟩ fEx (init 2 5) ([.reconcile 0 (.fail none), .cancel, .watchErr 4] ++ shutdownEvs 2)).ctl 0).loop.phase = .stopped ∧
    ((runC ⟨0, .plain⟩ fEx (init 2 5) ([.reconcile 0 (.fail none), .cancel, .watchErr 4] ++ shutdownEvs 2)).ctl 1).loop.phase = .stopped ∧
    (runC ⟨0, .plain⟩ fEx (init 2 5) ([.reconcile 0 (.fail none), .cancel, .watchErr 4] ++ shutdownEvs 2 ++
        [.pipeObserve, .watchErr 5, .cancel, .write 1] ++ shutdownEvs 2)).returned = false ∧
    (runC ⟨0, .plain⟩ fEx (init 2 5) ([.reconcile 0 (.fail none), .watchErr 4, .cancel] ++ shutdownEvs 2)).retval = some (some 4) := by
  decide

/-- the buffer is what matters, not its size; and a send that watches the context would do
    without one: it is released when the pipeline observes the cancellation -/
example :
    (runC ⟨2, .plain⟩ fEx (init 1 0) ([.cancel, .watchErr 4] ++ shutdownEvs 1)).retval = some none ∧
    (runC ⟨0, .ctxAware⟩ fEx (init 1 0) ([.cancel, .watchErr 4] ++ shutdownEvs 1)).retval = some none ∧
    (runC ⟨0, .nonBlocking⟩ fEx (init 1 0) ([.cancel, .watchErr 4] ++ shutdownEvs 1)).retval = some none ∧
    (runC ⟨1, .unknown⟩ fEx (init 1 0) ([.cancel, .watchErr 4] ++ shutdownEvs 1)).returned = false := by
  decide

end Cosi.C16
