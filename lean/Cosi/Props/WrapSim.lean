/-
  Cosi.Props.WrapSim — the parametrised helper machine of Cosi.Model.WrapRules versus the hand-written one of
  Cosi.Model.Wrap. Nothing here depends on a regenerated fact (the module imports no `Cosi.Gen.Wrap`): these are
  the lemmas that carry the theorems of Props/C03 and Props/C04 over to ANY rule set whose relevant part is the
  intended one; Props/C03Gen and Props/C04Gen apply them to `genRules`.

    resumeWith_good       under `goodRules` the parametrised machine IS `Local.resume`
    resumeWith_congr      a helper call only looks at its own part of the rules (`agreeOn` / `agreeCall`)
    resumeWith_sim        rules agreeing with `goodRules` on that part ⇒ same step as the hand-written machine
    stepWith_sim / runWith_sim
                          the contended system `CSys` of Props/C04 is the projection of `RCSys` (every schedule)
    consumeWith_sim       the same for a helper consuming delivered watch events (`C03.consume`)
    stepActorWith_good    `RHSys.stepActorWith goodRules` (driver, model mode) is `HSys.stepActor` (driver, spec mode)
    success_applied_once_create
                          NEW statement of C04, no restriction on the schedule (destroys allowed): every Create a
                          Modify commits stores its mutator applied ONCE to the caller's emptyResource
-/
import Cosi.Props.C03
import Cosi.Model.WrapRules
open Cosi Cosi.WR Cosi.C04
namespace Cosi.WrapSim

/-! ### under the intended rules the parametrised machine is the hand-written one -/

theorem afterUwcWith_good (x : RLocal) (res : Except String Res) :
    (afterUwcWith goodRules x res).l = x.l.afterUwc res := by
  obtain ⟨⟨call, pc, um, uo, ue⟩, tcur, retry⟩ := x
  cases call <;> cases res <;> simp [afterUwcWith, Local.afterUwc, RLocal.setPc, readyOf, goodRules]
  all_goals (split <;> rfl)

theorem retries_good (cls : String) : retries goodRules cls = true ↔ cls = "conflict" := by
  simp [retries, goodRules]

/-- the guard chain with every guard deny-only is the conjunction `Cond.matches` -/
theorem matchesWith_good (c : Cond) (e : Event) : matchesWith goodRules.guards c e = c.matches e := by
  obtain ⟨ets, fe, phs⟩ := c
  cases ets <;> cases fe <;> cases phs <;>
    simp [goodRules, matchesWith, guardTest, Cond.matches] <;>
    (repeat' split) <;> simp_all

/-- **the machine of the intended rules is the hand-written machine** (`Local.resume`, which C03/C04's theorems,
    C11's server model and the driver's spec mode use): same next local state for every state and response -/
theorem resumeWith_good (x : RLocal) (resp : Resp) : (x.resumeWith goodRules resp).l = x.l.resume resp := by
  obtain ⟨⟨call, pc, um, uo, ue⟩, tcur, retry⟩ := x
  cases pc <;> cases resp <;> simp only [RLocal.resumeWith, Local.resume]
  all_goals try (rename_i o; cases o <;> simp only [RLocal.setPc])
  case uwcGet.out.res cur =>
    have hg : goodRules.rmw.phaseCheckOnRetry = true := rfl
    simp only [hg, or_true, true_and]
    by_cases h : ue.isSome = true ∧ ue ≠ some cur.phase
    · rw [if_pos h, if_pos h, afterUwcWith_good]
    · rw [if_neg h, if_neg h]
      cases um.apply cur with
      | none => simp only [afterUwcWith_good]
      | some new => by_cases h2 : resEqual cur new = true <;> simp [h2, afterUwcWith_good]
  case uwcUpdate.out.err cur new e =>
    by_cases h : errClass e = "conflict"
    · rw [if_pos ((retries_good _).2 h), if_pos h]
    · rw [if_neg (fun hh => h ((retries_good _).1 hh)), if_neg h, afterUwcWith_good]
  all_goals try (cases call <;> simp only [RLocal.setPc, afterUwcWith_good])
  all_goals try rfl
  case get0.out.res.teardown cur _ _ _ _ =>
    by_cases h : cur.phase ≠ .tearingDown
    · rw [if_pos h, if_pos h]
    · rw [if_neg h, if_neg h, afterUwcWith_good]
  case get0.out.res.tad cur _ _ _ _ =>
    by_cases h : cur.phase ≠ .tearingDown
    · rw [if_pos h, if_pos h]
    · rw [if_neg h, if_neg h, afterUwcWith_good]
  case get0.out.err.modify e r0 m _ _ =>
    by_cases h : e.ctor.isNotFound = true
    · rw [if_pos h, if_pos h]; cases m.apply r0 <;> rfl
    · rw [if_neg h, if_neg h]
  case recv.event.mk.watchFor =>
    rw [matchesWith_good]; split <;> rfl
  case recv.event.mk.tad t _ _ _ _ _ _ _ =>
    cases t <;> simp [goodRules, EvActs.get] <;> (split <;> rfl)
  case recv.event.mk.ctxTeardown t _ _ _ _ _ _ =>
    cases t <;> simp [goodRules, EvActs.get] <;> (split <;> rfl)

/-! ### a helper call looks only at its own part of the rules -/

/-- the program points of a call that only watches (WatchFor, ContextWithTeardown) -/
def watchPc : Pc → Bool
  | .watchStart | .recv | .done _ => true
  | _ => false

/-- the part of the rules a call can reach -/
def agreeOn (l : Local) (r r' : Rules) : Prop :=
  match l.call with
  | .watchFor .. => r.guards = r'.guards ∧ watchPc l.pc = true
  | .ctxTeardown .. => r.ctx = r'.ctx ∧ watchPc l.pc = true
  | .tad .. => r.rmw = r'.rmw ∧ r.wait = r'.wait
  | _ => r.rmw = r'.rmw

theorem resumeWith_congr (r r' : Rules) (x : RLocal) (resp : Resp) (h : agreeOn x.l r r') :
    x.resumeWith r resp = x.resumeWith r' resp := by
  obtain ⟨⟨call, pc, um, uo, ue⟩, tcur, retry⟩ := x
  cases call <;> simp only [agreeOn] at h <;> cases pc <;> (try simp [watchPc] at h) <;>
    cases resp <;> (try (rename_i o; cases o)) <;>
    simp only [RLocal.resumeWith, afterUwcWith, readyOf, retries, h] <;> try rfl

/-- the read-modify-write calls (C04) only need the `rmw` part -/
theorem agreeOn_rmw (l : Local) (hc : isRmw l.call = true) (r r' : Rules) (h : r.rmw = r'.rmw) : agreeOn l r r' := by
  obtain ⟨call, pc, um, uo, ue⟩ := l
  cases call <;> simp [isRmw] at hc <;> exact h

/-- for rules whose relevant part is the intended one, the generated machine steps as the hand-written one -/
theorem resumeWith_sim (r : Rules) (x : RLocal) (resp : Resp) (h : agreeOn x.l r goodRules) :
    (x.resumeWith r resp).l = x.l.resume resp := by
  rw [resumeWith_congr r goodRules x resp h, resumeWith_good]


/-- the part of the rules a call can reach, whatever its program point -/
def agreeCall (c : HCall) (r r' : Rules) : Prop :=
  match c with
  | .watchFor .. => r.guards = r'.guards
  | .ctxTeardown .. => r.ctx = r'.ctx
  | .tad .. => r.rmw = r'.rmw ∧ r.wait = r'.wait
  | _ => r.rmw = r'.rmw

theorem agreeOn_recv (l : Local) (r r' : Rules) (hpc : l.pc = .recv) (h : agreeCall l.call r r') : agreeOn l r r' := by
  obtain ⟨call, pc, um, uo, ue⟩ := l
  simp only at hpc; subst hpc
  cases call <;> simp only [agreeCall] at h <;> simp only [agreeOn, watchPc, and_true] <;> exact h

/-! ### the contended system over the generated machine -/

/-- `C04.CSys` with the parametrised machine -/
structure RCSys where
  store : Store
  actors : List RLocal
  commits : List Commit := []

/-- the system of Props/C04 this one refines -/
def RCSys.proj (s : RCSys) : CSys := { store := s.store, actors := s.actors.map (·.l), commits := s.commits }

/-- one scheduled step (as `CSys.step`), the acting helper continuing by `resumeWith r` -/
def RCSys.stepWith (r : Rules) (cfg : Cfg) (s : RCSys) (now : Nat) : Sched → RCSys
  | .env op => { s with store := (Cosi.step cfg s.store now op).1 }
  | .actor i =>
    match s.actors[i]? with
    | none => s
    | some x =>
      match x.l.req with
      | some (.get ns typ id) =>
        { s with actors := s.actors.set i (x.resumeWith r (.out (Cosi.step cfg s.store now (.get ns typ id)).2)) }
      | some (.update res owner exp) =>
        { s with store := (Cosi.step cfg s.store now (.update res owner exp)).1,
                 actors := s.actors.set i (x.resumeWith r (.out (Cosi.step cfg s.store now (.update res owner exp)).2)),
                 commits := logCommit s.commits i (s.store.get (res.key cfg)) x.l.um now
                              (Cosi.step cfg s.store now (.update res owner exp)).2 }
      | some (.create res owner) =>
        { s with store := (Cosi.step cfg s.store now (.create res owner)).1,
                 actors := s.actors.set i (x.resumeWith r (.out (Cosi.step cfg s.store now (.create res owner)).2)),
                 commits := logCommit s.commits i (s.store.get (res.key cfg)) x.l.um now
                              (Cosi.step cfg s.store now (.create res owner)).2 }
      | _ => s

def RCSys.runWith (r : Rules) (cfg : Cfg) (s : RCSys) (t0 : Nat) : List Sched → RCSys
  | [] => s
  | x :: xs => RCSys.runWith r cfg (s.stepWith r cfg t0 x) (t0 + 1) xs

/-- every helper of the system is a read-modify-write call -/
def RCSys.allRmw (s : RCSys) : Prop := ∀ x ∈ s.actors, isRmw x.l.call = true

theorem stepWith_sim (r : Rules) (hr : r.rmw = goodRules.rmw) (cfg : Cfg) (s : RCSys) (now : Nat) (x : Sched)
    (hs : s.allRmw) : (s.stepWith r cfg now x).proj = s.proj.step cfg now x := by
  cases x with
  | env op => rfl
  | actor i =>
    simp only [RCSys.stepWith, CSys.step, RCSys.proj, List.getElem?_map]
    cases hx : s.actors[i]? with
    | none => rfl
    | some x =>
      have hsim : ∀ resp, (x.resumeWith r resp).l = x.l.resume resp := fun resp =>
        resumeWith_sim r x resp (agreeOn_rmw x.l (hs x (List.mem_of_getElem? hx)) r goodRules hr)
      simp only [Option.map_some]
      cases hreq : x.l.req with
      | none => rfl
      | some req =>
        cases req <;> simp only [List.map_set, hsim]

theorem stepWith_allRmw (r : Rules) (hr : r.rmw = goodRules.rmw) (cfg : Cfg) (s : RCSys) (now : Nat) (x : Sched)
    (hs : s.allRmw) : (s.stepWith r cfg now x).allRmw := by
  have hkeep : ∀ (i : Nat) (x : RLocal) (resp : Resp), s.actors[i]? = some x →
      ∀ y ∈ s.actors.set i (x.resumeWith r resp), isRmw y.l.call = true := by
    intro i x resp hx y hy
    rcases mem_set _ _ _ _ hy with h | h
    · exact hs y h
    · have hxr := hs x (List.mem_of_getElem? hx)
      rw [h, resumeWith_sim r x resp (agreeOn_rmw x.l hxr r goodRules hr), resume_call]
      exact hxr
  cases x with
  | env op => exact hs
  | actor i =>
    simp only [RCSys.stepWith]
    cases hx : s.actors[i]? with
    | none => exact hs
    | some x =>
      simp only
      cases hreq : x.l.req with
      | none => exact hs
      | some req =>
        cases req <;> first | exact hs | exact hkeep i x _ hx

/-- **the system of Props/C04 is the projection of the system generated from the source**, for every schedule -/
theorem runWith_sim (r : Rules) (hr : r.rmw = goodRules.rmw) (cfg : Cfg) (xs : List Sched) :
    ∀ (s : RCSys) (t0 : Nat), s.allRmw → (s.runWith r cfg t0 xs).proj = s.proj.run cfg t0 xs := by
  induction xs with
  | nil => intro s _ _; rfl
  | cons x xs ih =>
    intro s t0 hs
    simp only [RCSys.runWith, CSys.run]
    rw [ih _ _ (stepWith_allRmw r hr cfg s t0 x hs), stepWith_sim r hr cfg s t0 x hs]

theorem initOk_allRmw (cfg : Cfg) (k : Key) (s : RCSys) (h : initOk cfg k s.proj) : s.allRmw := by
  intro x hx
  obtain ⟨c, hc, _, hr⟩ := h.2.1 x.l (List.mem_map.2 ⟨x, hx, rfl⟩)
  rw [hc, start_call]; exact hr

theorem inv_allRmw (cfg : Cfg) (k : Key) (s : RCSys) (h : Inv cfg k s.proj) : s.allRmw := by
  intro x hx
  exact (h.ptr x.l (List.mem_map.2 ⟨x, hx, rfl⟩)).2

/-! ### a helper consuming delivered watch events -/

/-- feeding delivered events to a waiting helper of the parametrised machine (as `C03.consume`) -/
def consumeWith (r : Rules) (x : RLocal) : List Event → RLocal
  | [] => x
  | e :: es =>
    match x.l.pc with
    | .recv => consumeWith r (x.resumeWith r (.event e)) es
    | _ => x

theorem consumeWith_sim (r : Rules) (evs : List Event) :
    ∀ (x : RLocal), agreeCall x.l.call r goodRules → (consumeWith r x evs).l = C03.consume x.l evs := by
  induction evs with
  | nil => intro x _; rfl
  | cons e es ih =>
    intro x h
    unfold consumeWith C03.consume
    cases hpc : x.l.pc <;> simp only
    have hs : (x.resumeWith r (.event e)).l = x.l.resume (.event e) :=
      resumeWith_sim r x _ (agreeOn_recv x.l r goodRules hpc h)
    rw [ih (x.resumeWith r (.event e)) (by rw [hs, resume_call]; exact h), hs]

/-! ### the system the driver runs in model mode is the one it runs in spec mode -/

theorem find_proj (ps : List (Nat × RLocal)) (a : Nat) :
    ((ps.map fun p => (p.1, p.2.l)).find? (·.1 = a)).map (·.2) = ((ps.find? (·.1 = a)).map (·.2)).map (·.l) := by
  induction ps with
  | nil => rfl
  | cons p ps ih =>
    simp only [List.map_cons, List.find?_cons]
    by_cases h : p.1 = a
    · simp [h]
    · simp only [h, decide_false]; exact ih

theorem actor_proj (s : RHSys) (a : Nat) : s.proj.actor a = (s.actor a).map (·.l) := find_proj s.actors a

theorem setActor_proj (s : RHSys) (a : Nat) (x : RLocal) : (s.setActor a x).proj = s.proj.setActor a x.l := by
  unfold RHSys.proj HSys.setActor RHSys.setActor
  simp only [List.map_cons, List.filter_map]
  congr

/-- **`RHSys.stepActorWith goodRules` (what `driver helpers` runs for the intended rules) is `HSys.stepActor`
    (what `driver helpers spec` runs)**: same next state, same printed outcome, for every state and actor -/
theorem stepActorWith_good (s : RHSys) (a now : Nat) :
    (s.stepActorWith goodRules a now).1.proj = (s.proj.stepActor a now).1 ∧
    (s.stepActorWith goodRules a now).2 = (s.proj.stepActor a now).2 := by
  unfold RHSys.stepActorWith HSys.stepActor
  rw [actor_proj]
  cases hx : s.actor a with
  | none => exact ⟨rfl, rfl⟩
  | some x =>
    simp only [Option.map_some]
    cases hreq : x.l.req with
    | none => exact ⟨rfl, rfl⟩
    | some req =>
      cases req <;> simp only [setActor_proj, resumeWith_good]
      all_goals first
        | exact ⟨rfl, rfl⟩
        | skip
      have hws : s.proj.ws = s.ws := rfl
      simp only [hws]
      cases hd : (s.ws.recv (actorWid a)).snd with
      | none => exact ⟨rfl, rfl⟩
      | some d =>
        cases d with
        | nil => exact ⟨rfl, rfl⟩
        | cons e t => simp only [setActor_proj, resumeWith_good]; exact ⟨rfl, rfl⟩

/-! ### the create path of Modify applies the mutator once (no scope restriction) -/

/-- a commit that created the resource stores the mutator of a Modify call applied ONCE to that call's
    emptyResource (as the caller passed it), owner / version / creation time set by the store -/
def createdBy (calls : List HCall) (c : Commit) : Prop :=
  c.old = none → ∃ r0 m o e n, calls[c.actor]? = some (.modify r0 m o e) ∧ m.apply r0 = some n ∧
    c.new = { n with owner := o, ver := some 1, created := c.now }

structure CInv (calls : List HCall) (s : CSys) : Prop where
  callOf : ∀ (i : Nat) (l : Local), s.actors[i]? = some l → calls[i]? = some l.call
  creating : ∀ l ∈ s.actors, ∀ r, l.pc = .create r → ∃ r0 m o e, l.call = .modify r0 m o e ∧ m.apply r0 = some r
  commitsOk : ∀ c ∈ s.commits, createdBy calls c

theorem getElem?_set_some {α} (l : List α) (i j : Nat) (a b : α) (h : (l.set i a)[j]? = some b) :
    (j = i ∧ b = a ∧ ∃ c, l[i]? = some c) ∨ (j ≠ i ∧ l[j]? = some b) := by
  rw [List.getElem?_set] at h
  by_cases hij : i = j
  · subst hij
    rw [if_pos rfl] at h
    by_cases hlt : i < l.length
    · rw [if_pos hlt] at h
      exact Or.inl ⟨rfl, (Option.some.inj h).symm, l[i], List.getElem?_eq_getElem hlt⟩
    · rw [if_neg hlt] at h; cases h
  · rw [if_neg hij] at h
    exact Or.inr ⟨fun e => hij e.symm, h⟩

theorem req_create_owner (l : Local) (r : Res) (o : String) (h : l.req = some (.create r o)) :
    ∀ r0 m o' e, l.call = .modify r0 m o' e → o' = o := by
  intro r0 m o' e hc
  have hpc := req_create l r o h
  unfold Local.req at h
  rw [hpc] at h
  simp only [hc, Option.some.injEq, Req.create.injEq] at h
  exact h.2

theorem update_old_some (cfg : Cfg) (s : Store) (now : Nat) (r : Res) (owner : String) (exp : Option Phase) (r' : Res)
    (h : (Cosi.step cfg s now (.update r owner exp)).2 = .wrote r') : s.get (r.key cfg) ≠ none := by
  obtain ⟨c, hg, _⟩ := update_wrote cfg s now r owner exp r' h
  rw [hg]; exact fun e => by cases e

theorem cinv_step (cfg : Cfg) (calls : List HCall) (s : CSys) (now : Nat) (x : Sched) (h : CInv calls s) :
    CInv calls (s.step cfg now x) := by
  obtain ⟨hcalls, hcr, hco⟩ := h
  cases x with
  | env op => exact ⟨hcalls, hcr, hco⟩
  | actor i =>
    simp only [CSys.step]
    cases hl : s.actors[i]? with
    | none => exact ⟨hcalls, hcr, hco⟩
    | some l =>
      have hlm : l ∈ s.actors := List.mem_of_getElem? hl
      -- replacing actor i by a local state with the same call and a justified pending Create keeps the first two fields
      have hset : ∀ l' : Local, l'.call = l.call →
          (∀ r, l'.pc = .create r → ∃ r0 m o e, l'.call = .modify r0 m o e ∧ m.apply r0 = some r) →
          (∀ (j : Nat) (l'' : Local), (s.actors.set i l')[j]? = some l'' → calls[j]? = some l''.call) ∧
          (∀ l'' ∈ s.actors.set i l', ∀ r, l''.pc = .create r →
            ∃ r0 m o e, l''.call = .modify r0 m o e ∧ m.apply r0 = some r) := by
        intro l' hcall hpend
        refine ⟨?_, ?_⟩
        · intro j l'' hj
          rcases getElem?_set_some _ _ _ _ _ hj with ⟨rfl, rfl, _⟩ | ⟨_, hj'⟩
          · rw [hcall]; exact hcalls _ l hl
          · exact hcalls j l'' hj'
        · intro l'' hl'' r hpc
          rcases mem_set _ _ _ _ hl'' with hm | rfl
          · exact hcr l'' hm r hpc
          · exact hpend r hpc
      simp only
      cases hreq : l.req with
      | none => exact ⟨hcalls, hcr, hco⟩
      | some req =>
        cases req with
        | recv => exact ⟨hcalls, hcr, hco⟩
        | watch ns typ id => exact ⟨hcalls, hcr, hco⟩
        | destroy ns typ id o => exact ⟨hcalls, hcr, hco⟩
        | get ns typ id =>
          simp only
          obtain ⟨hpc, _⟩ := req_get l ns typ id hreq
          have hnotC : ∀ r', l.pc ≠ .create r' := by
            intro r' e; rcases hpc with h | h <;> rw [h] at e <;> cases e
          obtain ⟨h1, h2⟩ := hset (l.resume (.out (Cosi.step cfg s.store now (.get ns typ id)).2)) (resume_call _ _)
            (fun r hr => by
              obtain ⟨r0, m, o, e, hc, hm⟩ := resume_create l _ r hnotC hr
              exact ⟨r0, m, o, e, by rw [resume_call]; exact hc, hm⟩)
          exact ⟨h1, h2, hco⟩
        | update r o e =>
          simp only
          obtain ⟨cur, hpc⟩ := req_update l r o e hreq
          have hout : (∃ r', (Cosi.step cfg s.store now (.update r o e)).2 = .wrote r') ∨
              (∃ e', (Cosi.step cfg s.store now (.update r o e)).2 = .err e') := by
            rcases update_err_or_wrote cfg s.store now r o e with ⟨r', hw⟩ | ⟨e', he, _⟩
            · exact Or.inl ⟨r', hw⟩
            · exact Or.inr ⟨e', he⟩
          obtain ⟨_, hnc⟩ := resume_after_update l cur r _ hpc hout
          obtain ⟨h1, h2⟩ := hset (l.resume (.out (Cosi.step cfg s.store now (.update r o e)).2)) (resume_call _ _)
            (fun r' hr => absurd hr (hnc r'))
          refine ⟨h1, h2, ?_⟩
          intro c hc
          rcases hout with ⟨r', hw⟩ | ⟨e', he⟩
          · rw [hw] at hc
            simp only [logCommit, List.mem_append, List.mem_singleton] at hc
            rcases hc with hc | rfl
            · exact hco c hc
            · intro hold; exact absurd hold (update_old_some cfg s.store now r o e r' hw)
          · rw [he] at hc; exact hco c hc
        | create r o =>
          simp only
          have hpc := req_create l r o hreq
          have hout : (∃ r', (Cosi.step cfg s.store now (.create r o)).2 = .wrote r') ∨
              (∃ e', (Cosi.step cfg s.store now (.create r o)).2 = .err e') := by
            rcases create_err_or_wrote cfg s.store now r o with ⟨r', hw⟩ | ⟨e', he, _⟩
            · exact Or.inl ⟨r', hw⟩
            · exact Or.inr ⟨e', he⟩
          obtain ⟨_, hnc⟩ := resume_after_create l r _ hpc hout
          obtain ⟨h1, h2⟩ := hset (l.resume (.out (Cosi.step cfg s.store now (.create r o)).2)) (resume_call _ _)
            (fun r' hr => absurd hr (hnc r'))
          refine ⟨h1, h2, ?_⟩
          intro c hc
          rcases hout with ⟨r', hw⟩ | ⟨e', he⟩
          · rw [hw] at hc
            simp only [logCommit, List.mem_append, List.mem_singleton] at hc
            rcases hc with hc | rfl
            · exact hco c hc
            · intro _
              obtain ⟨r0, m, o', e, hcall, hm⟩ := hcr l hlm r hpc
              have ho : o' = o := req_create_owner l r o hreq r0 m o' e hcall
              obtain ⟨_, hr', _⟩ := create_wrote cfg s.store now r o r' hw
              refine ⟨r0, m, o', e, r, ?_, hm, ?_⟩
              · show calls[i]? = _
                rw [hcalls i l hl, hcall]
              · show r' = _
                rw [hr', ho]
          · rw [he] at hc; exact hco c hc

theorem cinv_run (cfg : Cfg) (calls : List HCall) (xs : List Sched) :
    ∀ (s : CSys) (t0 : Nat), CInv calls s → CInv calls (s.run cfg t0 xs) := by
  induction xs with
  | nil => intro s _ h; exact h
  | cons x xs ih => intro s t0 h; exact ih _ _ (cinv_step cfg calls s t0 x h)

/-- **C04 success_applied_once, the create half, without any restriction on the schedule.** Any helper calls (any
    mix, freshly started), any store, ANY schedule — environment creates, updates AND destroys of the contended
    resource included: whenever a helper commits a Create, the stored value is the mutator of that Modify call
    applied exactly once to the emptyResource the caller passed (then owner, version 1 and creation time). A Modify
    that loses the create race returns the already-exists error; it does not start over with its mutated object. -/
theorem success_applied_once_create (cfg : Cfg) (s0 : CSys) (hstart : ∀ l ∈ s0.actors, ∃ c, l = HCall.start c)
    (hc0 : s0.commits = []) (t0 : Nat) (xs : List Sched) :
    ∀ c ∈ (s0.run cfg t0 xs).commits, createdBy (s0.actors.map (·.call)) c := by
  refine (cinv_run cfg _ xs s0 t0 ⟨?_, ?_, ?_⟩).commitsOk
  · intro i l hl; rw [List.getElem?_map, hl]; rfl
  · intro l hl r hpc
    obtain ⟨c, rfl⟩ := hstart l hl
    cases c <;> simp [HCall.start] at hpc
  · rw [hc0]; intro c hc; cases hc

/-! ### small helpers of the examples and witnesses -/

def wKey : Key := ("n1", "T1", "a")

/-- the outcome of a finished helper -/
def retOf (x : RLocal) : Option HRet :=
  match x.l.pc with
  | .done r => some r
  | _ => none

def isRecv : Pc → Bool
  | .recv => true
  | _ => false

end Cosi.WrapSim
