/-
  Property C11 — gRPC transparency: remote state == wrapped state; the server never crashes.

  Statements are about `Cosi.Model.Remote` (client adapter and server as
  clientDecode ∘ serverHandle ∘ clientEncode over `Cosi.step` / `Cosi.WSys`, consuming the
  REGENERATED tables `Cosi.Gen.Grpc.*` and `Cosi.Gen.Selector.*`). The correspondence engine
  `grpc` ties that model to the real client.Adapter + server.State over grpc-go.
-/
import Cosi.Spec.Remote
import Cosi.Props.C01
import Cosi.Props.C04
import Cosi.Props.C14

namespace Cosi.C11
open Cosi Cosi.Remote Cosi.Gen

/-! ### 1. error classes survive the two switch tables -/

/-- the classes the wrapped call of an RPC can fail with on a sequential history (collection.go
    precondition chains for the store operations, wrap.go:110/215 for the helpers), plus `other`
    (a backing-store failure, `SetOwner` refusing) -/
def producible : Rpc → List ErrClass
  | .get => [.notFound, .other]
  | .list => [.other]
  | .create => [.conflict, .other]
  | .update => [.notFound, .ownerConflict, .phaseConflict, .conflict, .other]
  | .destroy => [.notFound, .ownerConflict, .conflict, .other]
  | .teardown => [.notFound, .ownerConflict, .other]
  | .teardownAndDestroy => [.notFound, .ownerConflict, .conflict, .other]
  | .watch => [.invalidBookmark, .other]
  | .unknown => []

/-- **class_preserved.** For each RPC and each error class the wrapped operation can produce,
    the class of the error the client returns is that class: client(server(c)) = c. Computed
    from the regenerated switch tables; swapping two codes on either side, dropping an arm or
    reordering `IsConflictError` before a more specific predicate breaks it. -/
theorem class_preserved (rpc : Rpc) (c : ErrClass) (h : c ∈ producible rpc) :
    cliDecode rpc (srvStatus rpc c) = c := by
  cases rpc <;> cases c <;> first | decide | (simp [producible] at h)

-- non-vacuity: the tables are not trivial — codes differ per RPC, and a class outside
-- `producible` is NOT preserved (a phase conflict surfacing from the native Teardown RPC under
-- a race is answered FailedPrecondition and comes back as a plain conflict; sequential
-- histories, which C11 quantifies over, never produce it there: wrap.go:124 reads the phase first)
example : srvStatus .create .conflict = .alreadyExists ∧ srvStatus .update .conflict = .failedPrecondition := by decide
example : cliDecode .teardown (srvStatus .teardown .phaseConflict) = .conflict := by decide
example : cliDecode .get (srvStatus .get .ownerConflict) = .other := by decide

/-! ### 2. the wire round trip of resources -/

/-- a resource the wire carries faithfully: finalizers form a set (`NewMetadataFromProto` re-adds
    them one by one, dropping duplicates — metadata.go:458), and the spec is not the marker the
    watch model uses for tombstones -/
def wfRes (r : Res) : Prop := r.fins.Nodup ∧ r.spec ≠ tombSpec

theorem finsAdd_new (acc : List String) (f : String) (h : f ∉ acc) : finsAdd acc f = acc ++ [f] := by
  simp [finsAdd, h]

theorem foldl_finsAdd (fs acc : List String) (h : (acc ++ fs).Nodup) : fs.foldl finsAdd acc = acc ++ fs := by
  induction fs generalizing acc with
  | nil => simp
  | cons f fs ih =>
    have hf : f ∉ acc := by
      intro hm
      have := List.nodup_append.mp h
      exact this.2.2 f hm f (by simp) rfl
    simp only [List.foldl_cons, finsAdd_new acc f hf]
    have h' : (acc ++ [f] ++ fs).Nodup := by simpa using h
    simpa using ih (acc ++ [f]) h'

theorem dedup_nodup (fs : List String) (h : fs.Nodup) : dedupFins fs = fs := by
  simpa [dedupFins] using foldl_finsAdd fs [] (by simpa using h)

theorem decVer_encVer (v : Option Nat) : decVer (encVer v) = some v := by cases v <;> rfl

theorem decPhase_encPhase (p : Phase) : decPhase (encPhase p) = some p := by cases p <;> rfl

/-- `Unmarshal ∘ Marshal = id` on well-formed resources -/
theorem decode_encode (r : Res) (h : wfRes r) : decodeRes (some (encodeRes r)) = some r := by
  have hs : isTomb r = false := by
    simp only [isTomb, beq_eq_false_iff_ne, ne_eq]
    exact h.2
  simp [decodeRes, encodeRes, decVer_encVer, decPhase_encPhase, dedup_nodup r.fins h.1, hs]

theorem mapM_decode_encode (l : List Res) (h : ∀ r ∈ l, wfRes r) :
    (l.map encodeRes).mapM (fun w => decodeRes (some w)) = some l := by
  induction l with
  | nil => rfl
  | cons r l ih =>
    have h1 := decode_encode r (h r (by simp))
    have h2 := ih (fun x hx => h x (by simp [hx]))
    simp [List.mapM_cons, h1, h2]

-- outside the domain the wire is NOT transparent: duplicates vanish
example : decodeRes (some (encodeRes { (default : Res) with fins := ["A", "A"] })) =
    some { (default : Res) with fins := ["A"] } := by decide

/-! ### 3. requests: what the client encodes is what the server decodes -/

/-- the domain of `remote_eq_direct`: resources on the wire are well-formed; every value-taking
    label term carries a value (a value-less one crashes the server today: `handler_total`);
    an ID regexp with an empty source — which the server drops (helpers.go:55) — matches every ID
    (it does: Go's empty regexp matches everything; the match bits are a parameter here) -/
def opWf : ROp → Prop
  | .create r _ => wfRes r
  | .update r _ _ => wfRes r
  | .list _ _ qs idq =>
    (∀ q ∈ qs, ∀ t ∈ q, C14.valueOk t = true) ∧
    (∀ q, idq = some q → q.src = "" → ∀ id, q.matchBit id = true)
  | _ => True

/-- a term that `ConvertLabelQuery` converts is converted the same way by the guarded handler
    model: the `len(term.Value)` guard (when the source has one) only cuts off terms whose
    conversion would have indexed an empty list -/
theorem srvTerm_of_ok (w : Selector.WTerm) (t : Selector.Term) (h : Selector.serverTerm w = .ok t) :
    srvTerm (wtermX w) = .ok t := by
  obtain ⟨k, vs, op, inv⟩ := w
  by_cases hg : (Gen.Grpc.valueGuarded && takesFirst op && vs.isEmpty) = true
  · -- the guard fires only where `serverTerm` does not answer `.ok`
    exfalso
    simp only [Bool.and_eq_true] at hg
    obtain ⟨⟨_, htf⟩, hve⟩ := hg
    have hvs : vs = [] := by simpa using hve
    subst hvs
    cases op <;> simp [takesFirst, Gen.Selector.serverTable] at htf <;>
      simp [Selector.serverTerm, Gen.Selector.serverTable, Gen.Selector.ctorTable, Selector.LabelOp.ofGen,
        Gen.Selector.serverOptsFromInvert, Gen.Selector.getInvertIsContains, Selector.Conv.bind] at h
  · simp only [srvTerm, wtermX, hg, h]
    simp

theorem srvQuery_of_ok (ws : List Selector.WTerm) (q : Selector.Query)
    (h : Selector.Conv.mapM Selector.serverTerm ws = .ok q) : srvQuery (ws.map wtermX) = .ok q := by
  induction ws generalizing q with
  | nil =>
    simp only [Selector.Conv.mapM] at h
    cases h
    rfl
  | cons w ws ih =>
    simp only [Selector.Conv.mapM] at h
    cases hw : Selector.serverTerm w with
    | ok t =>
      cases hws : Selector.Conv.mapM Selector.serverTerm ws with
      | ok ts =>
        simp only [hw, hws, Selector.Conv.bind] at h
        cases h
        simp [srvQuery, srvTerm_of_ok w t hw, ih ts hws]
      | panic => simp [hw, hws, Selector.Conv.bind] at h
      | error => simp [hw, hws, Selector.Conv.bind] at h
      | unknown => simp [hw, hws, Selector.Conv.bind] at h
    | panic => simp [hw, Selector.Conv.bind] at h
    | error => simp [hw, Selector.Conv.bind] at h
    | unknown => simp [hw, Selector.Conv.bind] at h

theorem srvQueries_of_ok (wss : List (List Selector.WTerm)) (qs : Selector.Queries)
    (h : Selector.serverConvert wss = .ok qs) : srvQueries (wss.map (·.map wtermX)) = .ok qs := by
  unfold Selector.serverConvert at h
  simp only [Gen.Selector.serverForwardsEveryQuery, if_true] at h
  induction wss generalizing qs with
  | nil =>
    simp only [Selector.Conv.mapM] at h
    cases h
    rfl
  | cons ws wss ih =>
    simp only [Selector.Conv.mapM] at h
    cases hw : Selector.Conv.mapM Selector.serverTerm ws with
    | ok q =>
      cases hws : Selector.Conv.mapM (Selector.Conv.mapM Selector.serverTerm) wss with
      | ok qs' =>
        simp only [hw, hws, Selector.Conv.bind] at h
        cases h
        simp [srvQueries, srvQuery_of_ok ws q hw, ih qs' hws]
      | panic => simp [hw, hws, Selector.Conv.bind] at h
      | error => simp [hw, hws, Selector.Conv.bind] at h
      | unknown => simp [hw, hws, Selector.Conv.bind] at h
    | panic => simp [hw, Selector.Conv.bind] at h
    | error => simp [hw, Selector.Conv.bind] at h
    | unknown => simp [hw, Selector.Conv.bind] at h

/-- the label selector survives the wire (C14's `one_semantics_grpc`, re-used) -/
theorem queries_roundtrip (qs : Selector.Queries) (h : ∀ q ∈ qs, ∀ t ∈ q, C14.valueOk t = true) :
    ∃ wss qs', Selector.clientTransform qs = .ok wss ∧ srvQueries (wss.map (·.map wtermX)) = .ok qs' ∧
      ∀ l, Selector.queriesMatch qs' l = Selector.queriesMatch qs l := by
  obtain ⟨wss, qs', hc, hs, _, _⟩ := C14.queries_via_wire qs h
  obtain ⟨⟨qs'', hv, hm⟩, _⟩ := C14.one_semantics_grpc qs h
  have : qs'' = qs' := by
    simp only [Selector.viaWire, hc, Selector.Conv.bind, hs] at hv
    cases hv
    rfl
  subst this
  exact ⟨wss, qs'', hc, srvQueries_of_ok wss qs'' hs, hm⟩

/-- **Request round trip.** For every well-formed call the request the client builds is taken
    apart by the server into exactly that call on the wrapped state — same resource, same owner
    option, same expected phase, same selection predicate. Depends on the regenerated owner /
    expected-phase plumbing facts and on `Gen.Selector`. -/
theorem request_roundtrip (op : ROp) (h : opWf op) :
    ∃ req, clientEncode op = some req ∧ srvDecode req = .op op.rpc op.direct := by
  cases op with
  | create r owner =>
    refine ⟨_, rfl, ?_⟩
    simp [srvDecode, decode_encode r h, cliOwner, srvOwner, Gen.Grpc.cliOwnerInOptions,
      Gen.Grpc.srvOwnerFromOptions, Gen.Grpc.derefUnchecked, ROp.rpc, ROp.direct]
  | update r owner exp =>
    refine ⟨_, by simp [clientEncode, Gen.Grpc.cliExpectedPhase]; rfl, ?_⟩
    cases exp with
    | none =>
      simp [srvDecode, decode_encode r h, cliOwner, srvOwner, Gen.Grpc.cliOwnerInOptions,
        Gen.Grpc.srvOwnerFromOptions, Gen.Grpc.srvExpectedPhase, ROp.rpc, ROp.direct]
    | some p =>
      simp [srvDecode, decode_encode r h, cliOwner, srvOwner, Gen.Grpc.cliOwnerInOptions,
        Gen.Grpc.srvOwnerFromOptions, Gen.Grpc.srvExpectedPhase, decPhase_encPhase, ROp.rpc, ROp.direct]
  | destroy ns typ id owner =>
    refine ⟨_, rfl, ?_⟩
    simp [srvDecode, cliOwner, srvOwner, Gen.Grpc.cliOwnerInOptions, Gen.Grpc.srvOwnerFromOptions,
      Gen.Grpc.derefUnchecked, ROp.rpc, ROp.direct]
  | get ns typ id => exact ⟨_, rfl, rfl⟩
  | list ns typ qs idq =>
    obtain ⟨hq, hid⟩ := h
    obtain ⟨wss, qs', hc, hs, hm⟩ := queries_roundtrip qs hq
    let lo : WListOpts :=
      { labelQuery := wss.map (·.map wtermX)
        idQuery := idq.map fun q => { regexp := q.src, compiles := true, matchBit := q.matchBit } }
    refine ⟨.list ns typ (some lo), by simp only [clientEncode, hc, lo], ?_⟩
    simp only [lo]
    simp only [srvDecode, hs, ROp.rpc, ROp.direct]
    cases idq with
    | none =>
      simp only [Option.map, srvIdQuery]
      congr 2
      funext r
      simp [selOf, hm]
    | some q =>
      by_cases he : q.src = ""
      · simp only [Option.map, srvIdQuery, he, beq_self_eq_true, if_true]
        congr 2
        funext r
        simp [selOf, hm, hid q rfl he r.id]
      · have he' : (q.src == "") = false := by simpa using he
        simp only [Option.map, srvIdQuery, he', Bool.not_true]
        simp only [Bool.false_eq_true, if_false]
        congr 2
        funext r
        simp [selOf, hm]

/-! ### 4. responses: what the server answers is what the client hands back -/

/-- the contract of a wrapped call as far as the wire cares: its errors are of a class the RPC
    can produce, the resources it returns are well-formed, and a Create / Update never changes an
    owner the caller's object already carries (`SetOwner` semantics) -/
def OutOk (op : ROp) (o : Out) : Prop :=
  match op, o with
  | _, .err e => clsOfCtor e.ctor ∈ producible op.rpc
  | .create r _, .wrote r' => r.owner = "" ∨ r.owner = r'.owner
  | .update r _ _, .wrote r' => r.owner = "" ∨ r.owner = r'.owner
  | .get .., .res r => wfRes r
  | .list .., .items l => ∀ r ∈ l, wfRes r
  | .destroy .., .ok => True
  | _, _ => False

theorem writeBack_eq (r r' : Res) (h : r.owner = "" ∨ r.owner = r'.owner) (src : Res)
    (hv : src.ver = r'.ver) (hu : src.updated = r'.updated) (ho : src.owner = r'.owner) :
    writeBack r src = some { r with ver := r'.ver, owner := r'.owner, updated := r'.updated } := by
  simp [writeBack, Gen.Grpc.writeBack, writeBackField, setOwner, hv, hu, ho, h]

/-- **Response round trip.** The client turns the server's answer back into the result of the
    wrapped call as the property wants it seen (`Spec.Remote.viewOf`): the error class is kept
    (`class_preserved`), resources come back unchanged, and Create / Update write exactly
    version, owner and update-time of the stored resource into the caller's object. Depends on
    `Gen.Grpc.srvCode`, `cliClass`, `writeBack`, `cliWritesBack`. -/
theorem response_roundtrip (op : ROp) (o : Out) (h : OutOk op o) :
    clientDecode op (respond op.rpc o) = .out (Spec.Remote.viewOf op o) := by
  cases o with
  | err e =>
    have hc : clsOfCtor e.ctor ∈ producible op.rpc := by cases op <;> simpa [OutOk] using h
    have := class_preserved op.rpc _ hc
    cases op <;> simp [respond, clientDecode, rErr, Spec.Remote.viewOf, this]
  | wrote r' =>
    cases op with
    | create r owner =>
      have h' : r.owner = "" ∨ r.owner = r'.owner := by simpa [OutOk] using h
      simp [respond, clientDecode, ROp.rpc, Gen.Grpc.cliWritesBack, respMeta, encodeRes, decVer_encVer,
        decPhase_encPhase, Spec.Remote.viewOf, writeBack_eq r r' h']
    | update r owner exp =>
      have h' : r.owner = "" ∨ r.owner = r'.owner := by simpa [OutOk] using h
      simp [respond, clientDecode, ROp.rpc, Gen.Grpc.cliWritesBack, respMeta, encodeRes, decVer_encVer,
        decPhase_encPhase, Spec.Remote.viewOf, writeBack_eq r r' h']
    | destroy _ _ _ _ => simp [OutOk] at h
    | get _ _ _ => simp [OutOk] at h
    | list _ _ _ _ => simp [OutOk] at h
  | res r =>
    cases op with
    | get ns typ id =>
      have h' : wfRes r := by simpa [OutOk] using h
      simp [respond, clientDecode, decode_encode r h', Spec.Remote.viewOf]
    | create _ _ => simp [OutOk] at h
    | update _ _ _ => simp [OutOk] at h
    | destroy _ _ _ _ => simp [OutOk] at h
    | list _ _ _ _ => simp [OutOk] at h
  | items l =>
    cases op with
    | list ns typ qs idq =>
      have h' : ∀ r ∈ l, wfRes r := by simpa [OutOk] using h
      simp [respond, clientDecode, mapM_decode_encode l h', Spec.Remote.viewOf]
    | create _ _ => simp [OutOk] at h
    | update _ _ _ => simp [OutOk] at h
    | destroy _ _ _ _ => simp [OutOk] at h
    | get _ _ _ => simp [OutOk] at h
  | ok =>
    cases op with
    | destroy ns typ id owner => simp [respond, clientDecode, Spec.Remote.viewOf]
    | create _ _ => simp [OutOk] at h
    | update _ _ _ => simp [OutOk] at h
    | get _ _ _ => simp [OutOk] at h
    | list _ _ _ _ => simp [OutOk] at h

/-- a store operation through client and server, over ANY wrapped state that meets the contract:
    the wrapped state's transition, and its result as the client API shows it -/
theorem remoteVia_eq {σ : Type} (wrapped : σ → Op → σ × Out) (s : σ) (op : ROp) (hwf : opWf op)
    (hok : OutOk op (wrapped s op.direct).2) :
    remoteVia wrapped s op = ((wrapped s op.direct).1, .out (Spec.Remote.viewOf op (wrapped s op.direct).2)) := by
  obtain ⟨req, he, hd⟩ := request_roundtrip op hwf
  simp only [remoteVia, he, handleVia, hd]
  rw [response_roundtrip op _ hok]

/-! ### 5. the sequential store meets the contract -/

/-- every stored resource is well-formed (an invariant of runs of well-formed operations) -/
def StoreWf (s : Store) : Prop := ∀ p ∈ s, wfRes p.2

theorem storeWf_get {s : Store} (h : StoreWf s) {k : Key} {r : Res} (hg : s.get k = some r) : wfRes r := by
  induction s with
  | nil => simp [Store.get] at hg
  | cons p s ih =>
    obtain ⟨k', r'⟩ := p
    simp only [Store.get] at hg
    by_cases hk : k' = k
    · simp only [hk, if_true, Option.some.injEq] at hg
      subst hg
      exact h (k', r') (by simp)
    · simp only [hk, if_false] at hg
      exact ih (fun p hp => h p (by simp [hp])) hg

theorem storeWf_del {s : Store} (h : StoreWf s) (k : Key) : StoreWf (s.del k) := by
  intro p hp
  simp only [Store.del, List.mem_filter] at hp
  exact h p hp.1

theorem storeWf_put {s : Store} (h : StoreWf s) (k : Key) {r : Res} (hr : wfRes r) : StoreWf (s.put k r) := by
  intro p hp
  simp only [Store.put, List.mem_cons] at hp
  rcases hp with hp | hp
  · subst hp
    exact hr
  · exact storeWf_del h k p hp

theorem mem_insertBy {α} (lt : α → α → Bool) (x y : α) (l : List α) (h : y ∈ insertBy lt x l) : y = x ∨ y ∈ l := by
  induction l with
  | nil => simpa [insertBy] using h
  | cons z zs ih =>
    simp only [insertBy] at h
    by_cases hl : lt x z = true
    · simp only [hl, if_true, List.mem_cons] at h
      rcases h with h | h | h <;> simp [h]
    · simp only [hl, if_false, List.mem_cons, Bool.false_eq_true] at h
      rcases h with h | h
      · simp [h]
      · rcases ih h with h | h <;> simp [h]

theorem mem_sortBy {α} (lt : α → α → Bool) (y : α) (l : List α) (h : y ∈ sortBy lt l) : y ∈ l := by
  induction l with
  | nil => simpa [sortBy] using h
  | cons x xs ih =>
    simp only [sortBy, List.foldr_cons] at h
    rcases mem_insertBy lt x y _ h with h | h
    · simp [h]
    · exact List.mem_cons_of_mem _ (ih h)

/-- the specification's step keeps stores well-formed and answers within the contract -/
theorem spec_step_ok (cfg : Cfg) (s : Store) (now : Nat) (op : ROp) (hwf : opWf op) (hs : StoreWf s) :
    StoreWf (Spec.step cfg s now op.direct).1 ∧ OutOk op (Spec.step cfg s now op.direct).2 := by
  have errOk : ∀ (c : ErrCtor) (ns typ : String), clsOfCtor c ∈ producible op.rpc →
      OutOk op (Spec.err c ns typ) := by
    intro c ns typ h
    cases op <;> simpa [OutOk, Spec.err] using h
  cases op with
  | create r owner =>
    have hr : wfRes r := hwf
    simp only [ROp.direct, Spec.step]
    by_cases h1 : r.owner ≠ "" ∧ r.owner ≠ owner
    · rw [if_pos h1]
      exact ⟨hs, errOk _ _ _ (by simp only [ROp.rpc]; decide)⟩
    · rw [if_neg h1]
      by_cases h2 : (s.get (r.key cfg)).isSome = true
      · rw [if_pos h2]
        exact ⟨hs, errOk _ _ _ (by simp only [ROp.rpc]; decide)⟩
      · rw [if_neg h2]
        refine ⟨storeWf_put hs _ ⟨hr.1, hr.2⟩, ?_⟩
        simp only [OutOk]
        by_cases h3 : r.owner = ""
        · exact Or.inl h3
        · right
          by_cases h4 : r.owner = owner
          · exact h4
          · exact absurd ⟨h3, h4⟩ h1
  | update r owner exp =>
    have hr : wfRes r := hwf
    simp only [ROp.direct, Spec.step]
    cases hg : s.get (r.key cfg) with
    | none => exact ⟨hs, errOk _ _ _ (by simp only [ROp.rpc]; decide)⟩
    | some cur =>
      simp only
      by_cases h1 : cur.owner ≠ owner
      · rw [if_pos h1]
        exact ⟨hs, errOk _ _ _ (by simp only [ROp.rpc]; decide)⟩
      · rw [if_neg h1]
        by_cases h2 : cur.ver ≠ r.ver
        · rw [if_pos h2]
          exact ⟨hs, errOk _ _ _ (by simp only [ROp.rpc]; decide)⟩
        · rw [if_neg h2]
          by_cases h3 : exp.isSome = true ∧ exp ≠ some cur.phase
          · rw [if_pos h3]
            exact ⟨hs, errOk _ _ _ (by simp only [ROp.rpc]; decide)⟩
          · rw [if_neg h3]
            exact ⟨storeWf_put hs _ ⟨hr.1, hr.2⟩, by simp [OutOk]⟩
  | destroy ns typ id owner =>
    simp only [ROp.direct, Spec.step]
    cases hg : s.get (cfg.key ns typ id) with
    | none => exact ⟨hs, errOk _ _ _ (by simp only [ROp.rpc]; decide)⟩
    | some cur =>
      simp only
      by_cases h1 : cur.owner ≠ owner
      · rw [if_pos h1]
        exact ⟨hs, errOk _ _ _ (by simp only [ROp.rpc]; decide)⟩
      · rw [if_neg h1]
        by_cases h2 : cur.fins ≠ []
        · rw [if_pos h2]
          exact ⟨hs, errOk _ _ _ (by simp only [ROp.rpc]; decide)⟩
        · rw [if_neg h2]
          exact ⟨storeWf_del hs _, by simp [OutOk]⟩
  | get ns typ id =>
    simp only [ROp.direct, Spec.step]
    cases hg : s.get (cfg.key ns typ id) with
    | none => exact ⟨hs, errOk _ _ _ (by simp only [ROp.rpc]; decide)⟩
    | some r => exact ⟨hs, by simpa [OutOk] using storeWf_get hs hg⟩
  | list ns typ qs idq =>
    simp only [ROp.direct, Spec.step]
    refine ⟨hs, ?_⟩
    simp only [OutOk]
    intro r hr
    have hr' := mem_sortBy _ r _ hr
    simp only [List.mem_filter, List.mem_map] at hr'
    obtain ⟨⟨p, hp, hpr⟩, _⟩ := hr'
    rw [← hpr]
    exact hs p hp.1

/-! ### 6. remote == direct, for all operation sequences -/

/-- one operation: the remote step moves the wrapped store exactly as the direct call does and
    returns the direct result as the client API shows it -/
theorem remoteStep_eq (cfg : Cfg) (s : Store) (now : Nat) (op : ROp) (hwf : opWf op) (hs : StoreWf s) :
    remoteStep cfg s now op =
      ((step cfg s now op.direct).1, .out (Spec.Remote.viewOf op (step cfg s now op.direct).2)) ∧
    StoreWf (step cfg s now op.direct).1 := by
  have hok := spec_step_ok cfg s now op hwf hs
  rw [← C01.step_eq_spec] at hok
  exact ⟨remoteVia_eq (fun s o => step cfg s now o) s op hwf hok.2, hok.1⟩

theorem cls_errOfClass (c : ErrCtor) : clsOfCtor (errOfClass (clsOfCtor c)).ctor = clsOfCtor c := by
  cases c <;> rfl

/-- the view the client API gives of a result loses nothing a caller can observe -/
theorem obs_view (op : ROp) (o : Out) : obsOut (Spec.Remote.viewOf op o) = obsOut o := by
  cases o with
  | err e => simp [Spec.Remote.viewOf, obsOut, cls_errOfClass]
  | wrote r' => cases op <;> simp [Spec.Remote.viewOf, obsOut]
  | res r => cases op <;> simp [Spec.Remote.viewOf, obsOut]
  | items l => cases op <;> simp [Spec.Remote.viewOf, obsOut]
  | ok => cases op <;> simp [Spec.Remote.viewOf, obsOut]

/-- **remote_eq_direct.** For ALL sequences of store operations with all options (owners,
    expected phases, stale versions, label and ID queries) on well-formed resources, starting
    from any well-formed store: the state behind the server ends up exactly where the directly
    accessed state ends up, and every single result is observationally equal — same success /
    error class, same resources, same written-back version, owner and update-time. Induction
    over the operation list; rests on `request_roundtrip`, `response_roundtrip` (hence on
    `class_preserved` and every regenerated table) and on C01's `step_eq_spec`. -/
theorem remote_eq_direct (cfg : Cfg) (ops : List ROp) (hops : ∀ op ∈ ops, opWf op) (s : Store)
    (hs : StoreWf s) (t0 : Nat) :
    (runRemote cfg s t0 ops).1 = (run cfg s t0 (ops.map ROp.direct)).1 ∧
    (runRemote cfg s t0 ops).2.map obsR = (run cfg s t0 (ops.map ROp.direct)).2.map obsOut := by
  induction ops generalizing s t0 with
  | nil => exact ⟨rfl, rfl⟩
  | cons op ops ih =>
    obtain ⟨h1, h2⟩ := remoteStep_eq cfg s t0 op (hops op (by simp)) hs
    obtain ⟨ih1, ih2⟩ := ih (fun o ho => hops o (by simp [ho])) _ h2 (t0 + 1)
    simp only [runRemote, run, List.map_cons, h1]
    exact ⟨ih1, by simp [obsR, obs_view, ih2]⟩

/-- **Write-back, exactly.** After a successful remote Create / Update the caller's object is
    the object it passed in with version, owner and update-time of the stored resource — and
    nothing else touched (the direct call also copies the creation time; the property does not
    ask for that). -/
theorem writeback_exact (cfg : Cfg) (s : Store) (now : Nat) (op : ROp) (hwf : opWf op) (hs : StoreWf s)
    (r r' : Res) (hop : (∃ o, op = .create r o) ∨ (∃ o e, op = .update r o e))
    (hd : (step cfg s now op.direct).2 = .wrote r') :
    (remoteStep cfg s now op).2.toOut = .wrote { r with ver := r'.ver, owner := r'.owner, updated := r'.updated } := by
  rw [(remoteStep_eq cfg s now op hwf hs).1, hd]
  rcases hop with ⟨o, rfl⟩ | ⟨o, e, rfl⟩ <;> rfl

-- non-vacuity: a sequence that exercises owner conflict, stale version, expected phase,
-- pending finalizers and a label + ID query satisfies the hypotheses, and the two sides agree
-- on it by evaluation as well
def exRes : Res :=
  { ns := "n1", typ := "T1", id := "a", ver := none, owner := "", phase := .running, fins := ["f"],
    labels := [("k", "v")], created := 7, updated := 7, spec := "s" }

def exOps : List ROp :=
  [.create exRes "A", .create exRes "B", .update { exRes with ver := some 1, owner := "A" } "B" none,
   .update { exRes with ver := some 3, owner := "A" } "A" none,
   .update { exRes with ver := some 1, owner := "A" } "A" (some .tearingDown),
   .update { exRes with ver := some 1, owner := "A", spec := "s2" } "A" (some .running),
   .destroy "n1" "T1" "a" "A", .get "n1" "T1" "a", .get "n1" "T1" "zz",
   .list "n1" "T1" [[⟨"k", ["v"], .opEqual, false⟩]] (some ⟨"^a", fun id => id == "a"⟩)]

example : ∀ op ∈ exOps, opWf op := by
  intro op h
  simp only [exOps, List.mem_cons, List.mem_nil_iff, or_false] at h
  rcases h with h | h | h | h | h | h | h | h | h | h <;> subst h <;>
    first
      | exact ⟨by decide, by decide⟩
      | trivial
      | exact ⟨by decide, by intro q hq hsrc; cases hq; simp at hsrc⟩

example : (runRemote {} [] 1 exOps).2.map obsR =
    [.wrote (some 1) "A" 7, .err .conflict, .err .ownerConflict, .err .conflict, .err .phaseConflict,
     .wrote (some 2) "A" 6, .err .conflict, .res { exRes with ver := some 2, owner := "A", created := 1, updated := 6, spec := "s2" },
     .err .notFound, .items [{ exRes with ver := some 2, owner := "A", created := 1, updated := 6, spec := "s2" }]] := by
  decide

/-! ### 7. watch events -/

/-- the wire round trip of any resource with a finalizer set, tombstones included: a tombstone
    (it has no spec) arrives as a resource with an empty spec, everything else unchanged -/
theorem decode_encode_any (r : Res) (h : r.fins.Nodup) :
    decodeRes (some (encodeRes r)) = some (Spec.Remote.wireRes r) := by
  by_cases ht : isTomb r = true
  · simp [decodeRes, encodeRes, decVer_encVer, decPhase_encPhase, dedup_nodup r.fins h, ht, Spec.Remote.wireRes]
  · have ht' : isTomb r = false := by simpa using ht
    have hw : wfRes r := ⟨h, by simpa [isTomb] using ht'⟩
    simp [decode_encode r hw, Spec.Remote.wireRes, ht']

/-- the event type survives `mapEvent`'s and `watchAdapter`'s switch (regenerated tables) -/
theorem evtype_roundtrip (t : EvType) :
    (Gen.Grpc.cliEventMap.lookup ((Gen.Grpc.srvEventMap.lookup (evGen t)).getD .unknown)).bind evOfGen = some t := by
  cases t <;> rfl

/-- an event as the in-memory state publishes it: finalizers are sets; an `Errored` event is the
    bare one (no resource, no bookmark) -/
def evWf (e : Event) : Prop :=
  e.res.fins.Nodup ∧ (∀ o, e.old = some o → o.fins.Nodup) ∧ (e.typ = .errored → e = erroredEvent)

/-- **watch_events_equal.** What a watcher behind the client adapter receives for an event of
    the wrapped state is that event: same type, same bookmark, same resource and old resource
    (`mapEvent` then the client's decoding is the identity; a tombstone's missing spec arrives as
    an empty spec: `Spec.Remote.wireImage`). Over `Cosi.Event`, for every event type, with
    ApiVersion 1 (what the adapter sends) nothing is skipped. -/
theorem watch_events_equal (e : Event) (h : evWf e) : wireEvent e = Spec.Remote.wireImage e := by
  obtain ⟨hf, ho, he⟩ := h
  have hlt : ((1 : Int) < 1) = False := by decide
  by_cases hE : e.typ = .errored
  · have := he hE
    subst this
    rfl
  · have hE' : (e.typ == EvType.errored) = false := by simpa using hE
    cases hold : e.old with
    | none =>
      simp [wireEvent, mapEvent, cliEvent, Gen.Grpc.eventCopies, hE', evtype_roundtrip, decode_encode_any e.res hf,
        Spec.Remote.wireImage, hold]
    | some o =>
      have hof := ho o hold
      simp [wireEvent, mapEvent, cliEvent, Gen.Grpc.eventCopies, hE', evtype_roundtrip, decode_encode_any e.res hf,
        decode_encode_any o hof, Spec.Remote.wireImage, hold]

/-- on events that carry real resources the image is the event itself -/
theorem wireImage_id (e : Event) (hE : e.typ ≠ .errored) (hr : isTomb e.res = false)
    (ho : ∀ o, e.old = some o → isTomb o = false) : Spec.Remote.wireImage e = e := by
  have hE' : (e.typ == EvType.errored) = false := by simpa using hE
  obtain ⟨t, r, old, bm⟩ := e
  cases old with
  | none => simp_all [Spec.Remote.wireImage, Spec.Remote.wireRes]
  | some o =>
    have := ho o rfl
    simp_all [Spec.Remote.wireImage, Spec.Remote.wireRes]

/-- whole deliveries / event sequences are equal -/
theorem watch_sequences_equal (evs : List Event) (h : ∀ e ∈ evs, evWf e) :
    evs.map wireEvent = evs.map Spec.Remote.wireImage := by
  induction evs with
  | nil => rfl
  | cons e evs ih =>
    simp [watch_events_equal e (h e (by simp)), ih (fun x hx => h x (by simp [hx]))]

-- non-vacuity: an Updated event with an old value and a bookmark goes through unchanged; the
-- initial Destroyed event of a single watch (tombstone) keeps type and metadata; a legacy client
-- (ApiVersion 0) is not sent Bootstrapped / Errored, anything else it is
example : wireEvent { typ := .updated, res := { exRes with ver := some 2 }, old := some { exRes with ver := some 1 }, bm := some 5 } =
    { typ := .updated, res := { exRes with ver := some 2 }, old := some { exRes with ver := some 1 }, bm := some 5 } := by decide
example : wireEvent { typ := .destroyed, res := tombstone "n1" "T1" "a" } =
    { typ := .destroyed, res := { tombstone "n1" "T1" "a" with spec := "" } } := by decide
example : mapEvent 0 { typ := .bootstrapped, res := tombstone "n1" "T1" "", bm := some 3 } = none ∧
    (mapEvent 0 { typ := .created, res := exRes }).isSome = true ∧
    (mapEvent 1 { typ := .bootstrapped, res := tombstone "n1" "T1" "", bm := some 3 }).isSome = true := by decide

/-! ### 8. the handler answers every request -/

/-- a label term whose conversion does not index an empty value list -/
def termSafe (w : WTermX) : Prop :=
  match w.op with
  | some op => takesFirst op = true → w.value ≠ []
  | none => True

def lqSafe (lq : List (List WTermX)) : Prop := ∀ q ∈ lq, ∀ w ∈ q, termSafe w

/-- the label queries a request carries where the handler converts them -/
def WReq.lq : WReq → List (List WTermX)
  | .list _ _ (some o) => o.labelQuery
  | .watch _ _ none (some o) _ => o.labelQuery
  | _ => []

def WReq.hasOpts : WReq → Bool
  | .get _ _ _ o => o.isSome
  | .list _ _ o => o.isSome
  | .create _ o => o.isSome
  | .update _ o => o.isSome
  | .destroy _ _ _ o => o.isSome
  | .teardown _ _ _ o => o.isSome
  | .teardownAndDestroy _ _ _ o => o.isSome
  | .watch _ _ _ o _ => o.isSome

/-- the requests on which the handlers, AS THE SOURCE IS TODAY (regenerated facts), cannot panic:
    either `ConvertLabelQuery` checks `len(term.Value)` or no value-taking term comes without a
    value; either the handler dereferences `Options` only through nil-safe getters or the
    request has options. With both facts repaired this holds of every request. -/
def reqSafe (req : WReq) : Prop :=
  (Gen.Grpc.valueGuarded = true ∨ lqSafe (WReq.lq req)) ∧
  ((Gen.Grpc.derefUnchecked req.rpc).contains .options = false ∨ WReq.hasOpts req = true)

theorem serverTerm_panic (k : String) (vs : List String) (op : WireOp) (inv : Bool)
    (h : Selector.serverTerm ⟨k, vs, op, inv⟩ = .panic) : takesFirst op = true ∧ vs = [] := by
  cases op <;> cases vs <;>
    simp [Selector.serverTerm, Gen.Selector.serverTable, Gen.Selector.ctorTable, Selector.LabelOp.ofGen,
      Gen.Selector.serverOptsFromInvert, Gen.Selector.getInvertIsContains, Gen.Selector.serverDefaultErrors,
      Selector.Conv.bind, takesFirst] at h ⊢

theorem srvTerm_panic (w : WTermX) (h : srvTerm w = .error .panic) :
    Gen.Grpc.valueGuarded = false ∧ ¬ termSafe w := by
  obtain ⟨k, vs, op, inv⟩ := w
  cases op with
  | none =>
    simp only [srvTerm] at h
    split at h <;> simp at h
  | some op =>
    simp only [srvTerm] at h
    by_cases hg : (Gen.Grpc.valueGuarded && takesFirst op && vs.isEmpty) = true
    · simp [hg] at h
    · simp only [hg] at h
      cases hs : Selector.serverTerm ⟨k, vs, op, inv⟩ with
      | panic =>
        obtain ⟨ht, hv⟩ := serverTerm_panic k vs op inv hs
        subst hv
        refine ⟨?_, ?_⟩
        · cases hvg : Gen.Grpc.valueGuarded with
          | false => rfl
          | true => simp [hvg, ht] at hg
        · simp [termSafe, ht]
      | ok t => simp [hs] at h
      | error => simp [hs] at h
      | unknown => simp [hs] at h

theorem srvQuery_panic (q : List WTermX) (h : srvQuery q = .error .panic) :
    Gen.Grpc.valueGuarded = false ∧ ∃ w ∈ q, ¬ termSafe w := by
  induction q with
  | nil => simp [srvQuery] at h
  | cons w ws ih =>
    simp only [srvQuery] at h
    cases hw : srvTerm w with
    | error e =>
      simp only [hw] at h
      have : e = .panic := by injection h
      subst this
      obtain ⟨h1, h2⟩ := srvTerm_panic w hw
      exact ⟨h1, w, by simp, h2⟩
    | ok t =>
      simp only [hw] at h
      cases hws : srvQuery ws with
      | error e =>
        simp only [hws] at h
        have : e = .panic := by injection h
        subst this
        obtain ⟨h1, w', hm, h2⟩ := ih hws
        exact ⟨h1, w', by simp [hm], h2⟩
      | ok ts => simp [hws] at h

theorem srvQueries_panic (lq : List (List WTermX)) (h : srvQueries lq = .error .panic) :
    Gen.Grpc.valueGuarded = false ∧ ¬ lqSafe lq := by
  induction lq with
  | nil => simp [srvQueries] at h
  | cons q qs ih =>
    simp only [srvQueries] at h
    cases hq : srvQuery q with
    | error e =>
      simp only [hq] at h
      have : e = .panic := by injection h
      subst this
      obtain ⟨h1, w, hm, h2⟩ := srvQuery_panic q hq
      exact ⟨h1, fun hs => h2 (hs q (by simp) w hm)⟩
    | ok t =>
      simp only [hq] at h
      cases hqs : srvQueries qs with
      | error e =>
        simp only [hqs] at h
        have : e = .panic := by injection h
        subst this
        obtain ⟨h1, h2⟩ := ih hqs
        exact ⟨h1, fun hs => h2 (fun q' hq' => hs q' (by simp [hq']))⟩
      | ok ts => simp [hqs] at h

theorem srvIdQuery_no_panic (q : Option WIdQuery) : srvIdQuery q ≠ .error .panic := by
  cases q with
  | none => simp [srvIdQuery]
  | some q =>
    simp only [srvIdQuery]
    split
    · simp
    · split <;> simp

theorem deref_cond {α : Type} (l : List ReqField) (o : Option α)
    (h : l.contains ReqField.options = false ∨ o.isSome = true) :
    (o.isNone && l.contains ReqField.options) = false := by
  rcases h with h | h
  · rw [h]
    simp
  · cases o <;> simp_all

/-- the dispatch of the CURRENT server source: a kind watch iff the `id` field is absent (rests on
    `Gen.Grpc.watchDispatch`) -/
theorem servesKind_gen (id : Option String) : genWatchRules.servesKind id = id.isNone := by
  cases id <;> rfl

/-- the only way a handler panics before it reaches the wrapped state: an unguarded
    `term.Value[0]` on an empty list, or a field read on absent `Options` -/
theorem srvDecode_no_panic (req : WReq) (h : reqSafe req) : srvDecode req ≠ .early .panic := by
  obtain ⟨hq, ho⟩ := h
  have hlq : ∀ lq, lq = WReq.lq req → srvQueries lq ≠ .error .panic := by
    intro lq hl hp
    obtain ⟨h1, h2⟩ := srvQueries_panic lq hp
    rcases hq with hq | hq
    · simp [h1] at hq
    · exact h2 (hl ▸ hq)
  cases req with
  | get ns typ id o => simp [srvDecode]
  | list ns typ o =>
    cases o with
    | none => simp [srvDecode]
    | some o =>
      simp only [srvDecode]
      cases hs : srvQueries o.labelQuery with
      | error e =>
        simp only
        intro he
        injection he with he
        subst he
        exact hlq o.labelQuery rfl hs
      | ok qs =>
        simp only
        cases hi : srvIdQuery o.idQuery with
        | error e =>
          simp only
          intro he
          injection he with he
          subst he
          exact srvIdQuery_no_panic _ hi
        | ok idq => simp
  | create res o =>
    simp only [srvDecode]
    cases decodeRes res with
    | none => simp
    | some r =>
      simp only
      have hcond : (o.isNone && (Gen.Grpc.derefUnchecked Rpc.create).contains ReqField.options) = false :=
        deref_cond _ o ho
      rw [hcond]
      simp
  | update res o =>
    simp only [srvDecode]
    cases decodeRes res with
    | none => simp
    | some r =>
      cases o with
      | none =>
        have hc : (Gen.Grpc.derefUnchecked Rpc.update).contains ReqField.options = false := by
          rcases ho with ho | ho
          · exact ho
          · simp [WReq.hasOpts] at ho
        simp only [hc, Bool.false_eq_true, if_false]
        split <;> simp
      | some oe =>
        obtain ⟨owner, exp⟩ := oe
        simp only
        split
        · simp
        · cases exp with
          | none => simp
          | some p =>
            simp only
            cases decPhase p <;> simp
  | destroy ns typ id o =>
    simp only [srvDecode]
    have hcond : (o.isNone && (Gen.Grpc.derefUnchecked Rpc.destroy).contains ReqField.options) = false :=
      deref_cond _ o ho
    rw [hcond]
    simp
  | teardown ns typ id o =>
    simp only [srvDecode]
    have hcond : (o.isNone && (Gen.Grpc.derefUnchecked Rpc.teardown).contains ReqField.options) = false :=
      deref_cond _ o ho
    rw [hcond]
    simp
  | teardownAndDestroy ns typ id o =>
    simp only [srvDecode]
    have hcond : (o.isNone && (Gen.Grpc.derefUnchecked Rpc.teardownAndDestroy).contains ReqField.options) = false :=
      deref_cond _ o ho
    rw [hcond]
    simp
  | watch ns typ id o api =>
    simp only [srvDecode, srvDecodeWatch]
    have hcond : (o.isNone && (Gen.Grpc.derefUnchecked Rpc.watch).contains ReqField.options) = false :=
      deref_cond _ o ho
    rw [hcond, servesKind_gen id]
    simp only [Bool.false_eq_true, if_false]
    cases id with
      | some i =>
        simp only [Option.isNone, Bool.false_eq_true, if_false]
        split
        · simp
        · split <;> simp
      | none =>
        simp only [Option.isNone, if_true]
        cases o with
        | none => simp [srvQueries, srvIdQuery]
        | some o =>
          simp only [Option.getD]
          cases hs : srvQueries o.labelQuery with
          | error e =>
            simp only
            intro he
            injection he with he
            subst he
            exact hlq o.labelQuery rfl hs
          | ok qs =>
            simp only
            cases hi : srvIdQuery o.idQuery with
            | error e =>
              simp only
              intro he
              injection he with he
              subst he
              exact srvIdQuery_no_panic _ hi
            | ok idq => simp

theorem respond_no_panic (rpc : Rpc) (o : Out) : respond rpc o ≠ .panic := by cases o <;> simp [respond]

theorem respondHelper_no_panic (rpc : Rpc) (r : HRet) : respondHelper rpc r ≠ .panic := by
  cases r <;> simp [respondHelper]

/-- past the request checks no handler can panic: the error switch, the marshalling and the
    helper calls of the native Teardown RPCs all answer a status or a response -/
theorem serverHandle_panic (fuel : Nat) (s : Srv) (cid now : Nat) (req : WReq)
    (h : (serverHandle fuel s cid now req).2 = .panic) : srvDecode req = .early .panic := by
  unfold serverHandle at h
  cases hd : srvDecode req with
  | early e =>
    cases e with
    | panic => rfl
    | err c => simp [hd] at h
  | op rpc o =>
    simp only [hd] at h
    exact absurd h (respond_no_panic _ _)
  | teardown ns typ id owner =>
    simp only [hd] at h
    split at h
    · simp at h
    · split at h
      · exact absurd h (respondHelper_no_panic _ _)
      · simp at h
  | tad ns typ id owner =>
    simp only [hd] at h
    split at h
    · simp at h
    · split at h
      · exact absurd h (respondHelper_no_panic _ _)
      · simp at h
  | watch ns typ kind qs idq o =>
    simp only [hd] at h
    split at h <;> simp at h

/-- **handler_total_partial** (what holds of the source as it is today). Every request shape —
    every optional field present or absent, any operator number, any version / phase / regexp /
    bookmark / tail — on which the two regenerated nil-safety facts do not bite (`reqSafe`) gets a
    status or a response from the modelled handler, whatever the server's state.

    The FULL statement, as the property quantifies ("no request, well-formed or not, can crash
    the server"), is `handler_total` in `Cosi.Props.C11Total`:
        ∀ fuel s cid now req, (serverHandle fuel s cid now req).2 ≠ .panic
    It is FALSE on the unchanged tree — two kernel-checked witnesses follow — and that module
    does not build until server/helpers.go checks `len(term.Value)` (D2) and server.go:185 stops
    reading `ExpectedPhase` off a nil `*UpdateOptions`; its proof is this theorem plus
    `decide` on the two regenerated facts, so it builds by itself once they are repaired. -/
theorem handler_total_partial (fuel : Nat) (s : Srv) (cid now : Nat) (req : WReq) (h : reqSafe req) :
    (serverHandle fuel s cid now req).2 ≠ .panic :=
  fun hp => srvDecode_no_panic req h (serverHandle_panic fuel s cid now req hp)

/-- negative witness 1 (D2): a List request with ONE label term `k1 EQUAL` and no value — the
    handler indexes `term.Value[0]` (helpers.go:30). Minimal: any of EQUAL / LT / LTE /
    LT_NUMERIC / LTE_NUMERIC, in List or in a kind Watch. (Stated as "the source has the guard, or
    the handler panics" so that the module survives the repair; today `decide` finds the left
    side false and evaluates the handler to `panic`.) -/
example : Gen.Grpc.valueGuarded = true ∨
    (serverHandle 8 {} 1 1 (.list "n1" "T1" (some { labelQuery := [[⟨"k1", [], some .wEqual, false⟩]] }))).2 = .panic := by
  decide

example : Gen.Grpc.valueGuarded = true ∨
    (serverHandle 8 {} 1 1 (.watch "n1" "T1" none (some { labelQuery := [[⟨"k1", [], some .wLTNumeric, true⟩]] }) 1)).2 = .panic := by
  decide

/-- negative witness 2: an Update request with a perfectly valid resource and NO `options`
    message — `req.GetOptions().ExpectedPhase` (server.go:185) dereferences nil -/
example : (Gen.Grpc.derefUnchecked .update).contains .options = false ∨
    (serverHandle 8 {} 1 1 (.update (some (encodeRes exRes)) none)).2 = .panic := by decide

-- non-vacuity of the partial theorem: badly malformed requests satisfy `reqSafe` and are answered
example : reqSafe (.create none none) ∧ (serverHandle 8 {} 1 1 (.create none none)).2 = .err .unclassified := by
  refine ⟨⟨Or.inr (by intro q hq; cases hq), Or.inl (by decide)⟩, by decide⟩
example : (serverHandle 8 {} 1 1 (.list "n1" "T1" (some { labelQuery := [[⟨"k1", ["v"], none, false⟩]] }))).2 = .err .unimplemented := by
  decide
example : (serverHandle 8 {} 1 1 (.list "n1" "T1" (some { idQuery := some ⟨"(", false, fun _ => true⟩ }))).2 = .err .invalidArgument := by
  decide
example : (serverHandle 8 {} 1 1 (.update (some (encodeRes exRes)) (some ("", some .garbage)))).2 = .err .unclassified := by decide
example : (serverHandle 8 {} 1 1 (.watch "n1" "T1" (some "a") (some { tail := -5, bookmark := some ⟨3, false, 0⟩ }) 1)).2 = .err .failedPrecondition := by
  decide

/-! ### 9. the native Teardown / TeardownAndDestroy RPCs and their sticky fallbacks -/

theorem storeOp_snd (ws : WSys) (now : Nat) (op : Op) :
    (ws.storeOp now op).2 = (step ws.cfg ws.store now op).2 := by
  simp only [WSys.storeOp]
  split <;> try rfl
  split <;> rfl

theorem storeOp_store (ws : WSys) (now : Nat) (op : Op) :
    (ws.storeOp now op).1.store = (step ws.cfg ws.store now op).1 := by
  simp only [WSys.storeOp]
  split <;> try rfl
  split <;> rfl

theorem storeOp_cfg (ws : WSys) (now : Nat) (op : Op) : (ws.storeOp now op).1.cfg = ws.cfg := by
  simp only [WSys.storeOp]
  split <;> try rfl
  split <;> rfl

def notList : Op → Prop
  | .list .. => False
  | _ => True

theorem ofOp_direct (op : Op) (h : notList op) : (ROp.ofOp op).direct = op := by
  cases op <;> first | rfl | exact absurd h id

/-- a helper's store operation through the wire acts on the server's state exactly as the same
    operation performed there directly, and returns its result as the client API shows it -/
theorem remoteExec_op (ws : WSys) (now : Nat) (op : Op) (hnl : notList op) (hwf : opWf (ROp.ofOp op))
    (hs : StoreWf ws.store) :
    remoteExec.op ws now op =
      ((ws.storeOp now op).1, Spec.Remote.viewOf (ROp.ofOp op) (ws.storeOp now op).2) := by
  have hd := ofOp_direct op hnl
  have hok : OutOk (ROp.ofOp op) ((fun ws o => WSys.storeOp ws now o) ws (ROp.ofOp op).direct).2 := by
    have := (spec_step_ok ws.cfg ws.store now (ROp.ofOp op) hwf hs).2
    rw [← C01.step_eq_spec, hd] at this
    simpa [hd, storeOp_snd] using this
  have := remoteVia_eq (fun ws o => WSys.storeOp ws now o) ws (ROp.ofOp op) hwf hok
  simp only [remoteExec, remoteOp, this, hd, RRes.toOut]

theorem storeOp_wf (ws : WSys) (now : Nat) (op : Op) (hnl : notList op) (hwf : opWf (ROp.ofOp op))
    (hs : StoreWf ws.store) : StoreWf (ws.storeOp now op).1.store := by
  have := (spec_step_ok ws.cfg ws.store now (ROp.ofOp op) hwf hs).1
  rw [← C01.step_eq_spec, ofOp_direct op hnl] at this
  rw [storeOp_store]
  exact this

/-- the wire image of ANY resource: finalizer duplicates dropped, a tombstone's spec emptied -/
def imageRes (r : Res) : Res := { r with fins := dedupFins r.fins, spec := if isTomb r then "" else r.spec }

theorem decode_encode_image (r : Res) : decodeRes (some (encodeRes r)) = some (imageRes r) := by
  simp [decodeRes, encodeRes, decVer_encVer, decPhase_encPhase, imageRes]

theorem foldl_finsAdd_ne_nil (fs acc : List String) (h : acc ≠ []) : fs.foldl finsAdd acc ≠ [] := by
  induction fs generalizing acc with
  | nil => simpa using h
  | cons f fs ih =>
    simp only [List.foldl_cons]
    apply ih
    unfold finsAdd
    split
    · exact h
    · simp

theorem dedup_isEmpty (fs : List String) : (dedupFins fs).isEmpty = fs.isEmpty := by
  cases fs with
  | nil => rfl
  | cons f fs =>
    have : (f :: fs).foldl finsAdd [] ≠ [] := by
      simp only [List.foldl_cons]
      exact foldl_finsAdd_ne_nil fs _ (by simp [finsAdd])
    simp only [dedupFins, List.isEmpty_cons]
    cases h : (f :: fs).foldl finsAdd [] with
    | nil => exact absurd h this
    | cons _ _ => rfl

/-- what the wire does to an event, without any assumption on it -/
theorem wireEvent_eq (e : Event) :
    wireEvent e =
      if e.typ = .errored then { typ := .errored, res := tombstone "" "" "", old := e.old.map imageRes, bm := e.bm }
      else { typ := e.typ, res := imageRes e.res, old := e.old.map imageRes, bm := e.bm } := by
  have hlt : ((1 : Int) < 1) = False := by decide
  by_cases hE : e.typ = .errored
  · cases hold : e.old <;>
      simp [wireEvent, mapEvent, cliEvent, Gen.Grpc.eventCopies, hE, evtype_roundtrip, decode_encode_image, hold]
  · have hE' : (e.typ == EvType.errored) = false := by simpa using hE
    cases hold : e.old <;>
      simp [wireEvent, mapEvent, cliEvent, Gen.Grpc.eventCopies, hE, hE', evtype_roundtrip, decode_encode_image, hold]

theorem wireEvent_typ (e : Event) : (wireEvent e).typ = e.typ := by
  rw [wireEvent_eq]
  split
  · rename_i h
    simp [h]
  · rfl

theorem wireEvent_finsEmpty (e : Event) (h : e.typ ≠ .errored) :
    (wireEvent e).res.fins.isEmpty = e.res.fins.isEmpty := by
  rw [wireEvent_eq]
  simp [h, imageRes, dedup_isEmpty]

/-- the helper calls C11 is about -/
def isTd : HCall → Prop
  | .teardown .. => True
  | .tad .. => True
  | _ => False

theorem errClass_view (e : Err) : errClass (errOfClass (clsOfCtor e.ctor)) = errClass e := by
  obtain ⟨c, r⟩ := e
  cases c <;> rfl

/-- Teardown / TeardownAndDestroy look at a store result only through its error class, the
    resource a Get returns, and the finalizers of the resource an Update wrote -/
theorem resume_view (l : Local) (hc : isTd l.call) (hpc : ∀ r, l.pc ≠ .create r) (rop : ROp) (o : Out)
    (hv : Spec.Remote.viewOf rop o = o ∨
          (∃ r' r'', o = .wrote r' ∧ Spec.Remote.viewOf rop o = .wrote r'' ∧ r''.fins = r'.fins) ∨
          (∃ e, o = .err e)) :
    l.resume (.out (Spec.Remote.viewOf rop o)) = l.resume (.out o) := by
  rcases hv with hv | ⟨r', r'', ho, hv, hf⟩ | ⟨e, ho⟩
  · rw [hv]
  · rw [hv, ho]
    obtain ⟨call, pc, um, uo, ue⟩ := l
    cases pc with
    | create r => exact absurd rfl (hpc r)
    | uwcUpdate cur new =>
      cases call <;> simp [isTd] at hc <;> simp [Local.resume, Local.afterUwc, hf]
    | get0 => cases call <;> simp [isTd] at hc <;> simp [Local.resume]
    | uwcGet => simp [Local.resume]
    | destroy => simp [Local.resume]
    | watchStart => simp [Local.resume]
    | recv => simp [Local.resume]
    | done r => simp [Local.resume]
  · subst ho
    simp only [Spec.Remote.viewOf]
    obtain ⟨call, pc, um, uo, ue⟩ := l
    cases pc with
    | create r => exact absurd rfl (hpc r)
    | get0 => cases call <;> simp [isTd] at hc <;> simp [Local.resume, errClass_view]
    | uwcGet => simp [Local.resume, errClass_view]
    | uwcUpdate cur new => simp [Local.resume, errClass_view]
    | destroy => simp [Local.resume, errClass_view]
    | watchStart => simp [Local.resume]
    | recv => simp [Local.resume]
    | done r => simp [Local.resume]

/-- TeardownAndDestroy's wait looks at an event only through its type and whether the resource
    still has finalizers; both survive the wire for every event -/
theorem resume_event (l : Local) (hc : isTd l.call) (e : Event) :
    l.resume (.event (wireEvent e)) = l.resume (.event e) := by
  obtain ⟨call, pc, um, uo, ue⟩ := l
  cases pc with
  | recv =>
    cases call <;> simp [isTd] at hc
    · simp [Local.resume]
    · have ht := wireEvent_typ e
      by_cases hE : e.typ = .errored
      · simp only [Local.resume, ht, hE]
      · have hf := wireEvent_finsEmpty e hE
        simp only [Local.resume, ht, hf]
  | get0 => cases call <;> simp [isTd] at hc <;> simp [Local.resume]
  | uwcGet => simp [Local.resume]
  | uwcUpdate cur new => simp [Local.resume]
  | create r => simp [Local.resume]
  | destroy => simp [Local.resume]
  | watchStart => simp [Local.resume]
  | done r => simp [Local.resume]

/-- what is known about a Teardown / TeardownAndDestroy call in flight -/
def LocalOk (l : Local) : Prop :=
  isTd l.call ∧ (∀ r, l.pc ≠ .create r) ∧
  ((l.pc = .uwcGet ∨ ∃ c n, l.pc = .uwcUpdate c n) → l.um = .setPhaseTD) ∧
  (∀ cur new, l.pc = .uwcUpdate cur new → wfRes new)

theorem start_ok (c : HCall) (h : isTd c) : LocalOk c.start := by
  cases c <;> simp [isTd] at h <;> simp [LocalOk, HCall.start, isTd]

theorem viewOf_id (rop : ROp) (o : Out) (h1 : ∀ e, o ≠ .err e) (h2 : ∀ r, o ≠ .wrote r) :
    Spec.Remote.viewOf rop o = o := by
  cases o with
  | err e => exact absurd rfl (h1 e)
  | wrote r => exact absurd rfl (h2 r)
  | _ => cases rop <;> rfl

theorem actVia_get (x : Exec) (ws : WSys) (cid now : Nat) (l : Local) (ns typ id : String)
    (h : l.req = some (.get ns typ id)) :
    actVia x ws cid now l =
      some ((x.op ws now (.get ns typ id)).1.settle, l.resume (.out (x.op ws now (.get ns typ id)).2)) := by
  simp only [actVia, h]

theorem actVia_update (x : Exec) (ws : WSys) (cid now : Nat) (l : Local) (r : Res) (o : String) (e : Option Phase)
    (h : l.req = some (.update r o e)) :
    actVia x ws cid now l =
      some ((x.op ws now (.update r o e)).1.settle, l.resume (.out (x.op ws now (.update r o e)).2)) := by
  simp only [actVia, h]

theorem actVia_destroy (x : Exec) (ws : WSys) (cid now : Nat) (l : Local) (ns typ id o : String)
    (h : l.req = some (.destroy ns typ id o)) :
    actVia x ws cid now l =
      some ((x.op ws now (.destroy ns typ id o)).1.settle, l.resume (.out (x.op ws now (.destroy ns typ id o)).2)) := by
  simp only [actVia, h]

/-- **One atomic action.** Whatever a Teardown / TeardownAndDestroy call does next, doing it
    through the wire (the client's fallback) or directly on the server's state (the native RPC)
    gives the same server state and the same call state. -/
theorem actVia_eq (ws : WSys) (cid now : Nat) (l : Local) (hs : StoreWf ws.store) (hl : LocalOk l) :
    actVia remoteExec ws cid now l = actVia directExec ws cid now l := by
  obtain ⟨hc, hnc, _, hupd⟩ := hl
  cases hreq : l.req with
  | none => simp [actVia, hreq]
  | some req =>
    cases req with
    | get ns typ id =>
      rw [actVia_get remoteExec ws cid now l ns typ id hreq, actVia_get directExec ws cid now l ns typ id hreq,
        remoteExec_op ws now (.get ns typ id) trivial trivial hs]
      simp only [directExec, ROp.ofOp]
      congr 2
      apply resume_view l hc hnc
      cases ho : (ws.storeOp now (.get ns typ id)).2 with
      | err e => exact Or.inr (Or.inr ⟨e, rfl⟩)
      | wrote r => exact Or.inl rfl
      | _ => exact Or.inl rfl
    | update r owner exp =>
      have hr : wfRes r := by
        obtain ⟨call, pc, um, uo, ue⟩ := l
        cases pc <;> simp [Local.req] at hreq
        · obtain ⟨rfl, _, _⟩ := hreq
          exact hupd _ _ rfl
        · split at hreq <;> simp at hreq
        · split at hreq <;> simp at hreq
      rw [actVia_update remoteExec ws cid now l r owner exp hreq, actVia_update directExec ws cid now l r owner exp hreq,
        remoteExec_op ws now (.update r owner exp) trivial hr hs]
      simp only [directExec, ROp.ofOp]
      congr 2
      apply resume_view l hc hnc
      cases ho : (ws.storeOp now (.update r owner exp)).2 with
      | err e => exact Or.inr (Or.inr ⟨e, rfl⟩)
      | wrote r' =>
        refine Or.inr (Or.inl ⟨r', _, rfl, rfl, ?_⟩)
        rw [storeOp_snd] at ho
        obtain ⟨c, _, _, _, hr', _⟩ := C04.update_wrote ws.cfg ws.store now r owner exp r' ho
        rw [hr']
      | res x => exact Or.inl rfl
      | items x => exact Or.inl rfl
      | ok => exact Or.inl rfl
    | create r owner =>
      exfalso
      obtain ⟨call, pc, um, uo, ue⟩ := l
      cases pc <;> simp [Local.req] at hreq
      · exact hnc _ rfl
      · split at hreq <;> simp at hreq
    | destroy ns typ id owner =>
      rw [actVia_destroy remoteExec ws cid now l ns typ id owner hreq, actVia_destroy directExec ws cid now l ns typ id owner hreq,
        remoteExec_op ws now (.destroy ns typ id owner) trivial trivial hs]
      simp only [directExec, ROp.ofOp]
      congr 2
      apply resume_view l hc hnc
      cases ho : (ws.storeOp now (.destroy ns typ id owner)).2 with
      | err e => exact Or.inr (Or.inr ⟨e, rfl⟩)
      | wrote r => exact Or.inl rfl
      | _ => exact Or.inl rfl
    | watch ns typ id => simp only [actVia, hreq]
    | recv =>
      simp only [actVia, hreq, remoteExec, directExec, id]
      cases hd : (ws.recv (callWid cid)).2 with
      | none => rfl
      | some d =>
        cases d with
        | nil => rfl
        | cons e rest => simp only [resume_event l hc e]

theorem afterUwc_ok (l : Local) (hc : isTd l.call) (res : Except String Res) : LocalOk (l.afterUwc res) := by
  obtain ⟨call, pc, um, uo, ue⟩ := l
  cases call <;> simp [isTd] at hc
  · cases res <;> simp [Local.afterUwc, LocalOk, isTd]
  · cases res with
    | error c => simp [Local.afterUwc, LocalOk, isTd]
    | ok r =>
      simp only [Local.afterUwc]
      split <;> simp [LocalOk, isTd]

/-- the call state stays within `LocalOk` whatever answer it resumes with, provided a resource
    handed to it is well-formed -/
theorem resume_ok (l : Local) (hl : LocalOk l) (resp : Resp) (hres : ∀ cur, resp = .out (.res cur) → wfRes cur) :
    LocalOk (l.resume resp) := by
  obtain ⟨hc, hnc, hum, hupd⟩ := hl
  obtain ⟨call, pc, um, uo, ue⟩ := l
  have hcall : isTd call := hc
  cases pc with
  | create r => exact absurd rfl (hnc r)
  | done r => simp only [Local.resume]; exact ⟨hc, hnc, hum, hupd⟩
  | watchStart =>
    cases resp <;> simp only [Local.resume] <;> first | exact ⟨hc, hnc, hum, hupd⟩ | simp [LocalOk, hcall]
  | destroy =>
    cases resp with
    | out o => cases o <;> simp only [Local.resume] <;> first | exact ⟨hc, hnc, hum, hupd⟩ | simp [LocalOk, hcall]
    | event e => simp only [Local.resume]; exact ⟨hc, hnc, hum, hupd⟩
    | watchOk => simp only [Local.resume]; exact ⟨hc, hnc, hum, hupd⟩
  | recv =>
    cases resp with
    | out o => simp only [Local.resume]; exact ⟨hc, hnc, hum, hupd⟩
    | watchOk => simp only [Local.resume]; exact ⟨hc, hnc, hum, hupd⟩
    | event e =>
      cases call <;> simp [isTd] at hcall
      · simp only [Local.resume]; exact ⟨hc, hnc, hum, hupd⟩
      · simp only [Local.resume]
        split
        · simp [LocalOk, isTd]
        · split <;> first | exact ⟨hc, hnc, hum, hupd⟩ | simp [LocalOk, isTd]
        · split <;> first | exact ⟨hc, hnc, hum, hupd⟩ | simp [LocalOk, isTd]
        · simp [LocalOk, isTd]
        · exact ⟨hc, hnc, hum, hupd⟩
  | get0 =>
    cases resp with
    | event e => simp only [Local.resume]; exact ⟨hc, hnc, hum, hupd⟩
    | watchOk => simp only [Local.resume]; exact ⟨hc, hnc, hum, hupd⟩
    | out o =>
      cases o with
      | err e => cases call <;> simp [isTd] at hcall <;> simp [Local.resume, LocalOk, isTd]
      | res cur =>
        cases call <;> simp [isTd] at hcall <;> simp only [Local.resume] <;> split <;>
          first
            | exact afterUwc_ok _ (by simp [isTd]) _
            | simp [LocalOk, isTd]
      | wrote r => simp only [Local.resume]; exact ⟨hc, hnc, hum, hupd⟩
      | items x => simp only [Local.resume]; exact ⟨hc, hnc, hum, hupd⟩
      | ok => simp only [Local.resume]; exact ⟨hc, hnc, hum, hupd⟩
  | uwcGet =>
    have hu : um = .setPhaseTD := hum (Or.inl rfl)
    subst hu
    cases resp with
    | event e => simp only [Local.resume]; exact ⟨hc, hnc, hum, hupd⟩
    | watchOk => simp only [Local.resume]; exact ⟨hc, hnc, hum, hupd⟩
    | out o =>
      cases o with
      | err e => simp only [Local.resume]; exact afterUwc_ok _ hcall _
      | res cur =>
        have hw : wfRes cur := hres cur rfl
        simp only [Local.resume, Mut.apply]
        split
        · exact afterUwc_ok _ hcall _
        · split
          · exact afterUwc_ok _ hcall _
          · refine ⟨hcall, by simp, by simp, ?_⟩
            intro c n h
            simp only [Pc.uwcUpdate.injEq] at h
            obtain ⟨_, rfl⟩ := h
            exact ⟨hw.1, hw.2⟩
      | wrote r => simp only [Local.resume]; exact ⟨hc, hnc, hum, hupd⟩
      | items x => simp only [Local.resume]; exact ⟨hc, hnc, hum, hupd⟩
      | ok => simp only [Local.resume]; exact ⟨hc, hnc, hum, hupd⟩
  | uwcUpdate c n =>
    have hu : um = .setPhaseTD := hum (Or.inr ⟨c, n, rfl⟩)
    subst hu
    cases resp with
    | event e => simp only [Local.resume]; exact ⟨hc, hnc, hum, hupd⟩
    | watchOk => simp only [Local.resume]; exact ⟨hc, hnc, hum, hupd⟩
    | out o =>
      cases o with
      | err e =>
        simp only [Local.resume]
        split
        · exact ⟨hcall, by simp, by simp, by simp⟩
        · exact afterUwc_ok _ hcall _
      | wrote r => simp only [Local.resume]; exact afterUwc_ok _ hcall _
      | res r => simp only [Local.resume]; exact ⟨hc, hnc, hum, hupd⟩
      | items x => simp only [Local.resume]; exact ⟨hc, hnc, hum, hupd⟩
      | ok => simp only [Local.resume]; exact ⟨hc, hnc, hum, hupd⟩

theorem recv_store (ws : WSys) (wid : Nat) : (ws.recv wid).1.store = ws.store := by
  simp only [WSys.recv]
  split <;> rfl

theorem startWatch_store (ws : WSys) (wid : Nat) (ns typ : String) (k : WKind) (sel : Option (String × String))
    (cap : Nat) (o : StartOpts) : (ws.startWatch wid ns typ k sel cap o).1.store = ws.store := by
  simp only [WSys.startWatch]
  split <;> rfl

/-- an action performed directly keeps the store well-formed and the call state within `LocalOk` -/
theorem actVia_inv (ws : WSys) (cid now : Nat) (l : Local) (hs : StoreWf ws.store) (hl : LocalOk l)
    (ws' : WSys) (l' : Local) (h : actVia directExec ws cid now l = some (ws', l')) :
    StoreWf ws'.store ∧ LocalOk l' := by
  have hl0 := hl
  obtain ⟨hc, hnc, _, hupd⟩ := hl
  cases hreq : l.req with
  | none => simp [actVia, hreq] at h
  | some req =>
    cases req with
    | get ns typ id =>
      rw [actVia_get directExec ws cid now l ns typ id hreq] at h
      simp only [directExec, Option.some.injEq, Prod.mk.injEq] at h
      obtain ⟨h1, h2⟩ := h
      subst h1 h2
      refine ⟨storeOp_wf ws now (.get ns typ id) trivial trivial hs, resume_ok l hl0 _ ?_⟩
      intro cur hcur
      have hok := (spec_step_ok ws.cfg ws.store now (.get ns typ id) trivial hs).2
      rw [← C01.step_eq_spec] at hok
      simp only [ROp.direct] at hok
      rw [← storeOp_snd] at hok
      simp only [Resp.out.injEq] at hcur
      rw [hcur] at hok
      simpa [OutOk] using hok
    | update r owner exp =>
      have hr : wfRes r := by
        obtain ⟨call, pc, um, uo, ue⟩ := l
        cases pc <;> simp [Local.req] at hreq
        · obtain ⟨rfl, _, _⟩ := hreq
          exact hupd _ _ rfl
        · split at hreq <;> simp at hreq
        · split at hreq <;> simp at hreq
      rw [actVia_update directExec ws cid now l r owner exp hreq] at h
      simp only [directExec, Option.some.injEq, Prod.mk.injEq] at h
      obtain ⟨h1, h2⟩ := h
      subst h1 h2
      refine ⟨storeOp_wf ws now (.update r owner exp) trivial hr hs, resume_ok l hl0 _ ?_⟩
      intro cur hcur
      have hok := (spec_step_ok ws.cfg ws.store now (.update r owner exp) hr hs).2
      rw [← C01.step_eq_spec] at hok
      simp only [ROp.direct] at hok
      rw [← storeOp_snd] at hok
      simp only [Resp.out.injEq] at hcur
      rw [hcur] at hok
      simp [OutOk] at hok
    | create r owner =>
      exfalso
      obtain ⟨call, pc, um, uo, ue⟩ := l
      cases pc <;> simp [Local.req] at hreq
      · exact hnc _ rfl
      · split at hreq <;> simp at hreq
    | destroy ns typ id owner =>
      rw [actVia_destroy directExec ws cid now l ns typ id owner hreq] at h
      simp only [directExec, Option.some.injEq, Prod.mk.injEq] at h
      obtain ⟨h1, h2⟩ := h
      subst h1 h2
      refine ⟨storeOp_wf ws now (.destroy ns typ id owner) trivial trivial hs, resume_ok l hl0 _ ?_⟩
      intro cur hcur
      have hok := (spec_step_ok ws.cfg ws.store now (.destroy ns typ id owner) trivial hs).2
      rw [← C01.step_eq_spec] at hok
      simp only [ROp.direct] at hok
      rw [← storeOp_snd] at hok
      simp only [Resp.out.injEq] at hcur
      rw [hcur] at hok
      simp [OutOk] at hok
    | watch ns typ id =>
      simp only [actVia, hreq, Option.some.injEq, Prod.mk.injEq] at h
      obtain ⟨h1, h2⟩ := h
      subst h1 h2
      refine ⟨?_, resume_ok l hl0 _ (by intro cur hcur; cases hcur)⟩
      show StoreWf (ws.startWatch (callWid cid) ns typ (.single id) none 1 {}).1.store
      rw [startWatch_store]
      exact hs
    | recv =>
      simp only [actVia, hreq, directExec, id] at h
      cases hd : (ws.recv (callWid cid)).2 with
      | none => simp [hd] at h
      | some d =>
        cases d with
        | nil => simp [hd] at h
        | cons e rest =>
          simp only [hd, Option.some.injEq, Prod.mk.injEq] at h
          obtain ⟨h1, h2⟩ := h
          subst h2
          refine ⟨?_, resume_ok l hl0 _ (by intro cur hcur; cases hcur)⟩
          rw [← h1]
          have hrs := recv_store ws (callWid cid)
          split <;> (show StoreWf _; simp only [WSys.settle, WSys.stopWatch]; rw [hrs]; exact hs)

/-- **The fallback runs like the native call.** For every fuel, from every well-formed server
    state and every state of a Teardown / TeardownAndDestroy call (fresh or resumed after
    blocking): running the helper over the client adapter's own Get / Update / Watch / Destroy —
    what `teardownFallback` / `teardownAndDestroyFallback` do through `adapterCoreView` — ends in
    exactly the server state and call state in which running it inside the server ends. -/
theorem runVia_eq (fuel : Nat) (ws : WSys) (cid now : Nat) (l : Local) (hs : StoreWf ws.store) (hl : LocalOk l) :
    runVia remoteExec fuel ws cid now l = runVia directExec fuel ws cid now l := by
  induction fuel generalizing ws l with
  | zero => rfl
  | succ n ih =>
    simp only [runVia, actVia_eq ws cid now l hs hl]
    cases h : actVia directExec ws cid now l with
    | none => rfl
    | some p =>
      obtain ⟨ws', l'⟩ := p
      obtain ⟨hs', hl'⟩ := actVia_inv ws cid now l hs hl ws' l' h
      exact ih ws' l' hs' hl'

/-- a helper result that goes through the native RPC's code tables unchanged: success, or an
    error whose class the RPC can produce on a sequential history (`class_preserved`) -/
def retOk (rpc : Rpc) : HRet → Prop
  | .ready _ => rpc = .teardown
  | .ok => rpc = .teardownAndDestroy
  | .err c => clsOfStr c ∈ producible rpc ∧ clsStr (clsOfStr c) = c
  | _ => False

theorem native_err (rpc : Rpc) (c : String) (h : clsOfStr c ∈ producible rpc ∧ clsStr (clsOfStr c) = c) :
    cliDecode rpc (srvStatus rpc (clsOfStr c)) = clsOfStr c ∧ clsOfStr c ≠ .fallback := by
  refine ⟨class_preserved rpc _ h.1, ?_⟩
  intro hf
  rw [hf] at h
  cases rpc <;> simp [producible] at h

theorem native_not_fallback (rpc : Rpc) (c : ErrClass) : cliDecode rpc (srvStatus rpc c) ≠ .fallback := by
  cases rpc <;> cases c <;> decide

/-- **fallback_eq_native (Teardown).** `run` is the helper of wrap.go:110 run inside the server
    on the server's state (what the native RPC does).
    (a) Server without the RPC, flag clear: exactly one Teardown RPC is spent, the flag is set,
        and the call ends in the same server state with the helper's own result.
    (b) Flag set — sticky: NO RPC is sent whatever the server supports, same state and result,
        the flag stays set.
    (c) Server with the RPC, flag clear: the same server state, the flag stays clear, and the
        result is the helper's result whenever that result survives the code tables (`retOk`:
        success, notFound, ownerConflict, unclassified — everything a sequential history yields).
    Hence with the capability flag set the results equal the native RPC's.
    What a hypothesis-free (c) would need in addition: that a fresh sequential run never ends in
    a phase conflict (wrap.go:124 reads the phase first); the `grpc` engine checks that on every
    run (`remote=` equals `direct=` against the stub server). -/
theorem fallback_eq_native (fuel : Nat) (s : RSys) (cid now : Nat) (ns typ id owner : String)
    (hs : StoreWf s.srv.ws.store) :
    let run := runVia directExec fuel s.srv.ws cid now (HCall.teardown ns typ id owner).start
    let r := s.teardown fuel cid now ns typ id owner
    (s.srv.caps.hasTeardown = false → s.cli.tdNotSupported = false →
      r.1.srv.ws = run.1 ∧ r.2 = localResult run.2 ∧ r.1.cli.tdNotSupported = true ∧
      r.1.cli.tdRpcs = s.cli.tdRpcs + 1) ∧
    (s.cli.tdNotSupported = true →
      r.1.srv.ws = run.1 ∧ r.2 = localResult run.2 ∧ r.1.cli.tdNotSupported = true ∧
      r.1.cli.tdRpcs = s.cli.tdRpcs) ∧
    (s.srv.caps.hasTeardown = true → s.cli.tdNotSupported = false →
      r.1.srv.ws = run.1 ∧ r.1.cli.tdNotSupported = false ∧
      ∀ ret, run.2.pc = .done ret → retOk .teardown ret → r.2 = .finished ret) := by
  have hrun := runVia_eq fuel s.srv.ws cid now (HCall.teardown ns typ id owner).start hs
    (start_ok _ (by simp [isTd]))
  have hdec : srvDecode (.teardown ns typ id (cliOwner .teardown owner)) = .teardown ns typ id owner := by
    simp [srvDecode, cliOwner, srvOwner, Gen.Grpc.cliOwnerInOptions, Gen.Grpc.srvOwnerFromOptions,
      Gen.Grpc.derefUnchecked]
  refine ⟨?_, ?_, ?_⟩
  · intro hcap hflag
    simp only [RSys.teardown, hflag, Bool.and_false, Bool.false_eq_true, if_false, serverHandle, hdec, hcap,
      Bool.not_false, if_true]
    have : cliDecode .teardown .unimplemented = .fallback := by decide
    simp only [this, Gen.Grpc.stickyStore, if_true, RSys.teardownFallback, Gen.Grpc.fallbackOwner, hrun]
    simp
  · intro hflag
    simp only [RSys.teardown, hflag, Gen.Grpc.stickyLoad, Bool.and_self, if_true, RSys.teardownFallback,
      Gen.Grpc.fallbackOwner, hrun]
    simp
  · intro hcap hflag
    simp only [RSys.teardown, hflag, Bool.and_false, Bool.false_eq_true, if_false, serverHandle, hdec, hcap,
      Bool.not_true]
    cases hpc : (runVia directExec fuel s.srv.ws cid now (HCall.teardown ns typ id owner).start).2.pc with
    | done ret =>
      simp only
      cases ret with
      | ready b => simp [respondHelper, hflag]
      | ok => simp [respondHelper, hflag, retOk]
      | okRes x =>
        have h1 : cliDecode .teardown .unknown = .unknown := by decide
        simp [respondHelper, hflag, retOk, h1]
      | cancelled x =>
        have h1 : cliDecode .teardown .unknown = .unknown := by decide
        simp [respondHelper, hflag, retOk, h1]
      | err c =>
        simp only [respondHelper]
        have hnf := native_not_fallback .teardown (clsOfStr c)
        split
        · rename_i hfb
          exact absurd hfb hnf
        · refine ⟨rfl, by simpa using hflag, ?_⟩
          intro ret' hret hok
          cases hret
          obtain ⟨h1, _⟩ := native_err .teardown c hok
          have hc2 : clsStr (clsOfStr c) = c := hok.2
          simp only [h1, hc2]
    | _ => simp [hflag]

/-- **fallback_eq_native (TeardownAndDestroy).** As for Teardown, with `run` the helper of
    wrap.go:215 (Teardown, then Destroy or wait on a watch for the finalizers to go, then
    Destroy) run inside the server. The call may BLOCK (finalizers pending): then both paths
    report `blocked` with the same server state and the same suspended call state, and
    `runVia_eq` applies again when another actor's write lets them continue. -/
theorem fallback_eq_native_tad (fuel : Nat) (s : RSys) (cid now : Nat) (ns typ id owner : String)
    (hs : StoreWf s.srv.ws.store) :
    let run := runVia directExec fuel s.srv.ws cid now (HCall.tad ns typ id owner).start
    let r := s.tad fuel cid now ns typ id owner
    (s.srv.caps.hasTad = false → s.cli.tadNotSupported = false →
      r.1.srv.ws = run.1 ∧ r.2 = localResult run.2 ∧ r.1.cli.tadNotSupported = true ∧
      r.1.cli.tadRpcs = s.cli.tadRpcs + 1) ∧
    (s.cli.tadNotSupported = true →
      r.1.srv.ws = run.1 ∧ r.2 = localResult run.2 ∧ r.1.cli.tadNotSupported = true ∧
      r.1.cli.tadRpcs = s.cli.tadRpcs) ∧
    (s.srv.caps.hasTad = true → s.cli.tadNotSupported = false →
      r.1.srv.ws = run.1 ∧ r.1.cli.tadNotSupported = false ∧
      (∀ ret, run.2.pc = .done ret → retOk .teardownAndDestroy ret → r.2 = .finished ret) ∧
      ((∀ ret, run.2.pc ≠ .done ret) → r.2 = .blocked)) := by
  have hrun := runVia_eq fuel s.srv.ws cid now (HCall.tad ns typ id owner).start hs
    (start_ok _ (by simp [isTd]))
  have hdec : srvDecode (.teardownAndDestroy ns typ id (cliOwner .teardownAndDestroy owner)) = .tad ns typ id owner := by
    simp [srvDecode, cliOwner, srvOwner, Gen.Grpc.cliOwnerInOptions, Gen.Grpc.srvOwnerFromOptions,
      Gen.Grpc.derefUnchecked]
  refine ⟨?_, ?_, ?_⟩
  · intro hcap hflag
    simp only [RSys.tad, hflag, Bool.and_false, Bool.false_eq_true, if_false, serverHandle, hdec, hcap,
      Bool.not_false, if_true]
    have : cliDecode .teardownAndDestroy .unimplemented = .fallback := by decide
    simp only [this, Gen.Grpc.stickyStore, if_true, RSys.tadFallback, Gen.Grpc.fallbackOwner, hrun]
    simp
  · intro hflag
    simp only [RSys.tad, hflag, Gen.Grpc.stickyLoad, Bool.and_self, if_true, RSys.tadFallback,
      Gen.Grpc.fallbackOwner, hrun]
    simp
  · intro hcap hflag
    simp only [RSys.tad, hflag, Bool.and_false, Bool.false_eq_true, if_false, serverHandle, hdec, hcap,
      Bool.not_true]
    cases hpc : (runVia directExec fuel s.srv.ws cid now (HCall.tad ns typ id owner).start).2.pc with
    | done ret =>
      simp only
      cases ret with
      | ready b =>
        have h1 : cliDecode .teardownAndDestroy .unknown = .unknown := by decide
        simp [respondHelper, hflag, retOk]
      | ok => simp [respondHelper, hflag]
      | okRes x =>
        have h1 : cliDecode .teardownAndDestroy .unknown = .unknown := by decide
        simp [respondHelper, hflag, retOk, h1]
      | cancelled x =>
        have h1 : cliDecode .teardownAndDestroy .unknown = .unknown := by decide
        simp [respondHelper, hflag, retOk, h1]
      | err c =>
        simp only [respondHelper]
        have hnf := native_not_fallback .teardownAndDestroy (clsOfStr c)
        split
        · rename_i hfb
          exact absurd hfb hnf
        · refine ⟨rfl, by simpa using hflag, ?_, ?_⟩
          · intro ret' hret hok
            cases hret
            obtain ⟨h1, _⟩ := native_err .teardownAndDestroy c hok
            have hc2 : clsStr (clsOfStr c) = c := hok.2
            simp only [h1, hc2]
          · intro h
            exact absurd rfl (h _)
    | _ => simp [hflag]

-- non-vacuity, by evaluation on a concrete state: a resource `a` owned by "A" with one finalizer
def exSys (td tad : Bool) : RSys :=
  let ws : WSys := {}
  let (ws, _) := ws.storeOp 1 (.create exRes "A")
  { srv := { ws := ws.settle, caps := { hasTeardown := td, hasTad := tad } } }

example : StoreWf (exSys false false).srv.ws.store := by
  have h : (exSys false false).srv.ws.store =
      [(("n1", "T1", "a"), { exRes with owner := "A", ver := some 1, created := 1 })] := by decide
  rw [h]
  intro p hp
  simp only [List.mem_cons, List.mem_nil_iff, or_false] at hp
  subst hp
  exact ⟨by decide, by decide⟩

-- stub server: the first Teardown spends one RPC and sets the flag, the second spends none;
-- results (wrong owner, then the right one) are those of the native path
example :
    let s0 := exSys false true
    let (s1, r1) := s0.teardown 16 1 2 "n1" "T1" "a" "B"
    let (s2, r2) := s1.teardown 16 2 3 "n1" "T1" "a" "A"
    let n0 := exSys true true
    let (n1, q1) := n0.teardown 16 1 2 "n1" "T1" "a" "B"
    let (_, q2) := n1.teardown 16 2 3 "n1" "T1" "a" "A"
    (r1, r2) = (.finished (.err "ownerConflict"), .finished (.ready false)) ∧ (q1, q2) = (r1, r2) ∧
    (s1.cli.tdNotSupported, s1.cli.tdRpcs, s2.cli.tdNotSupported, s2.cli.tdRpcs) = (true, 1, true, 1) := by
  decide

-- TeardownAndDestroy blocks on the finalizer on both paths; once another actor removes it, both finish
def exTad (s : RSys) : HRes × HRes × Nat × Nat :=
  let (s, r1) := s.tad 16 1 2 "n1" "T1" "a" "A"
  let (ws, _) := s.srv.ws.storeOp 3
    (.update { exRes with ver := some 2, owner := "A", phase := .tearingDown, fins := [] } "A" none)
  let (s, r2) := ({ s with srv := { s.srv with ws := ws.settle } }).resumeTad 16 1 3
  (r1, r2, s.srv.ws.store.length, s.cli.tadRpcs)

example : exTad (exSys true false) = (.blocked, .finished .ok, 0, 1) ∧
    exTad (exSys true true) = (.blocked, .finished .ok, 0, 1) := by
  decide

/-! ### 9. the watch plumbing: dispatch on the id field, announced ApiVersion

`WatchRules` (Cosi.Model.Remote) holds the three decisions about a remote watch that are taken
outside the wrapped state. `WatchSound` is what transparency needs of them; `genWatchRules_sound`
says the CURRENT source has it (regenerated facts `watchDispatch`, `cliApiVersion`, `cliIdField`). -/

structure WatchSound (r : WatchRules) : Prop where
  /-- a kind watch is served exactly when the request carries NO id field -/
  kind_iff : ∀ id, r.servesKind id = id.isNone
  /-- every method announces an ApiVersion the server does not filter for -/
  api : ∀ c, 1 ≤ r.apiVersion c
  /-- `Watch` puts the target's ID on the wire whatever it is; the kind methods put none -/
  id_single : ∀ id, r.idField .watch id = some id
  id_kind : ∀ id, r.idField .watchKind id = none ∧ r.idField .watchKindAggregated id = none

theorem goodWatchRules_sound : WatchSound goodWatchRules :=
  ⟨fun _ => rfl, fun c => by cases c <;> decide, fun _ => rfl, fun _ => ⟨rfl, rfl⟩⟩

/-- the CURRENT source implements sound watch rules -/
theorem genWatchRules_sound : WatchSound genWatchRules :=
  ⟨fun id => by cases id <;> rfl, fun c => by cases c <;> decide, fun _ => rfl, fun _ => ⟨rfl, rfl⟩⟩

theorem mapEvent_api (v : Int) (hv : 1 ≤ v) (e : Event) : mapEvent v e = mapEvent 1 e := by
  unfold mapEvent
  have h1 : decide (v < 1) = false := by simp; omega
  have h2 : decide ((1 : Int) < 1) = false := by decide
  rw [h1, h2]

/-- under sound rules the subscriber of EVERY watch method is handed something for EVERY event of
    the server-side watch — the failure event `Errored` and `Bootstrapped` included — namely what
    `wireEvent` says -/
theorem wireDeliverWith_sound (r : WatchRules) (hr : WatchSound r) (c : WatchCall) (e : Event) :
    wireDeliverWith r c e = some (wireEvent e) := by
  unfold wireDeliverWith wireEvent
  rw [mapEvent_api _ (hr.api c)]
  cases hm : mapEvent 1 e with
  | none =>
    exfalso
    unfold mapEvent at hm
    have h2 : decide ((1 : Int) < 1) = false := by decide
    rw [h2] at hm
    simp at hm
  | some w =>
    cases hc : cliEvent w <;> simp [hc]

/-- **watch_events_delivered.** Whatever adapter method started the watch — Watch, WatchKind,
    WatchKindAggregated — each event of the wrapped state's watch reaches the remote subscriber, as
    that event (`watch_events_equal`); in particular a failure of the server-side watch (`Errored`:
    the watcher fell behind the history) is never withheld. -/
theorem watch_events_delivered (c : WatchCall) (e : Event) (h : evWf e) :
    wireDeliver c e = some (Spec.Remote.wireImage e) := by
  unfold wireDeliver
  rw [wireDeliverWith_sound genWatchRules genWatchRules_sound, watch_events_equal e h]

theorem watch_sequences_delivered (c : WatchCall) (evs : List Event) (h : ∀ e ∈ evs, evWf e) :
    evs.filterMap (wireDeliver c) = evs.map Spec.Remote.wireImage := by
  induction evs with
  | nil => rfl
  | cons e evs ih =>
    rw [List.filterMap_cons, watch_events_delivered c e (h e (by simp))]
    simp [ih (fun x hx => h x (by simp [hx]))]

theorem tailOf_nat (n : Nat) : tailOf (n : Int) = n := by
  unfold tailOf
  split <;> omega

/-- **A watch is served as requested.** Under sound rules the request the adapter builds for a
    watch of `kind` — a single-resource watch of ANY id, the empty string included, a kind watch,
    an aggregated kind watch — is taken apart by the server into a watch of exactly that kind on
    exactly that id with exactly the caller's options. -/
theorem watch_served_as_requested (r : WatchRules) (hr : WatchSound r) (ns typ : String) (kind : WKind) (o : StartOpts)
    (hs : ∀ id, kind = .single id → o.bootstrap = false ∧ o.bootstrapBookmark = false) :
    ∃ id opts api, watchRequestWith r ns typ kind none o = .watch ns typ id (some opts) api ∧
      srvDecodeWatch r ns typ id (some opts) = .watch ns typ kind [] none o := by
  cases kind with
  | single i =>
    obtain ⟨h1, h2⟩ := hs i rfl
    obtain ⟨b, bb, t, bm⟩ := o
    simp only at h1 h2
    subst h1 h2
    refine ⟨some i, { tail := (t : Int), bookmark := bm }, r.apiVersion .watch,
      by simp [watchRequestWith, hr.id_single], ?_⟩
    simp [srvDecodeWatch, hr.kind_iff, tailOf_nat]
  | kind =>
    refine ⟨none, { bootstrapContents := o.bootstrap, bootstrapBookmark := o.bootstrapBookmark, aggregated := false,
                    tail := (o.tail : Int), bookmark := o.bookmark }, r.apiVersion .watchKind,
      by simp [watchRequestWith, callOf, (hr.id_kind "").1], ?_⟩
    simp [srvDecodeWatch, hr.kind_iff, srvQueries, srvIdQuery, tailOf_nat]
  | agg =>
    refine ⟨none, { bootstrapContents := o.bootstrap, bootstrapBookmark := o.bootstrapBookmark, aggregated := true,
                    tail := (o.tail : Int), bookmark := o.bookmark }, r.apiVersion .watchKindAggregated,
      by simp [watchRequestWith, callOf, (hr.id_kind "").2], ?_⟩
    simp [srvDecodeWatch, hr.kind_iff, srvQueries, srvIdQuery, tailOf_nat]

/-- … for the current source text -/
theorem remote_watch_served_as_requested (ns typ : String) (kind : WKind) (o : StartOpts)
    (hs : ∀ id, kind = .single id → o.bootstrap = false ∧ o.bootstrapBookmark = false) :
    srvDecode (watchRequest ns typ kind none o) = .watch ns typ kind [] none o := by
  obtain ⟨id, opts, api, h1, h2⟩ := watch_served_as_requested genWatchRules genWatchRules_sound ns typ kind o hs
  unfold watchRequest
  rw [h1]
  exact h2

/-- **remote_watch_start_eq_direct.** Starting a watch through adapter and server starts, on the
    wrapped state, the watch a direct caller would start — same kind, same target, same options —
    and answers as the direct call does (running / invalid bookmark / other error). -/
theorem remote_watch_start_eq_direct (s : RSys) (wid now : Nat) (ns typ : String) (kind : WKind) (o : StartOpts)
    (hs : ∀ id, kind = .single id → o.bootstrap = false ∧ o.bootstrapBookmark = false) :
    s.startWatch wid now ns typ kind none o =
      match s.srv.ws.startWatch wid ns typ kind none 1 o with
      | (ws', none) => ({ s with srv := { s.srv with ws := ws'.settle } }, none, false)
      | (_, some .invalidBookmark) => (s, some .invalidBookmark, false)
      | (_, some .other) => (s, some .other, false) := by
  unfold RSys.startWatch serverHandle
  rw [remote_watch_served_as_requested ns typ kind o hs]
  have h1 : watchStartErr (srvStatus .watch .invalidBookmark) = .invalidBookmark := by decide
  have h2 : watchStartErr (srvStatus .watch .other) = .other := by decide
  simp only [watchSel, Option.getD]
  cases hw : s.srv.ws.startWatch wid ns typ kind none 1 o with
  | mk ws' e =>
    cases e with
    | none => rfl
    | some x => cases x <;> simp [h1, h2]

/-! kernel-checked negative witnesses -/

/-- the dispatch that looks at the VALUE of the id field (`req.GetId() == ""`) -/
def seededDispatch : WatchRules := { goodWatchRules with servesKind := fun id => id.getD "" == "" }

/-- the client that announces no ApiVersion on single-resource watches -/
def seededApi : WatchRules := { goodWatchRules with apiVersion := fun c => if c = .watch then 0 else 1 }

def servedKind (c : SCall) : Option WKind :=
  match c with
  | .watch _ _ k _ _ _ => some k
  | _ => none

theorem seededDispatch_unsound : ¬ WatchSound seededDispatch := fun h => by
  have := h.kind_iff (some "")
  revert this
  decide

/-- a single-resource Watch on a pointer with the EMPTY id is served as a kind watch by the seeded
    dispatch (every other id, and the sound dispatch on every id, serve the single-resource watch) -/
theorem seeded_dispatch_serves_empty_id_as_kind :
    servedKind (srvDecodeWatch seededDispatch "n1" "T1" (some "") (some {})) = some .kind ∧
    servedKind (srvDecodeWatch seededDispatch "n1" "T1" (some "a") (some {})) = some (.single "a") ∧
    servedKind (srvDecodeWatch goodWatchRules "n1" "T1" (some "") (some {})) = some (.single "") := by
  decide

/-- … and so the remote caller does not get the initial event of its watch: on an empty store the
    direct single-resource watch on "" announces one Destroyed tombstone, the kind watch the seeded
    server starts instead announces nothing -/
theorem seeded_dispatch_loses_initial_event :
    let ws : WSys := { cfg := { nsAware := true } }
    ((ws.startWatch 1 "n1" "T1" (.single "") none 1 {}).1.settle.recv 1).2 =
      some [{ typ := .destroyed, res := tombstone "n1" "T1" "" }] ∧
    ((ws.startWatch 1 "n1" "T1" .kind none 1 {}).1.settle.recv 1).2 = none := by
  decide

theorem seededApi_unsound : ¬ WatchSound seededApi := fun h => by
  have := h.api .watch
  revert this
  decide

/-- without `ApiVersion: 1` in the single-resource WatchRequest the server's overrun `Errored` (and
    only it: single watches have no Bootstrapped) never reaches the subscriber, while ordinary events
    and the kind watches are unaffected -/
theorem seeded_api_withholds_errored :
    wireDeliverWith seededApi .watch erroredEvent = none ∧
    wireDeliverWith seededApi .watchKind erroredEvent = some erroredEvent ∧
    wireDeliverWith goodWatchRules .watch erroredEvent = some erroredEvent ∧
    (wireDeliverWith seededApi .watch { typ := .created, res := exRes }).isSome = true := by
  decide

end Cosi.C11
