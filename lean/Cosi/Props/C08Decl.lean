/-
  Property C08, the declaration the guards read — "through the runtime API a controller can read only its
  DECLARED inputs and outputs, … change finalizers only on its strong inputs": the declared sets are the ones the
  runtime ACCEPTED (registration, UpdateInputs), not whatever the controller's memory holds later.

  Model: Cosi.Model.AccessDecl (`stepWith rules`; `step = stepWith genRules`): a heap of controller-owned
  buffers, the adapter's `Inputs` / `Outputs` as private lists or views of those buffers — decided per site by the
  REGENERATED `Gen.Access.declKeep` —, UpdateInputs with its in-place sort and its acceptance by the dependency
  database model of C17, and the ghost `decl` = the declaration last accepted, by value.

    Sound r fl                       the sites of flavour `fl` keep private copies (and a rejected update stores nothing)
    genRules_sound_r                 the CURRENT rruntime does (rests on Gen.Access.declKeep .rInputs / .rOutputs,
                                     updateStoresOnSuccessOnly)
    stepWith_owned / runWith_owned   `Owned` (the adapter's slices ARE the accepted declaration) is preserved by every
                                     step — buffer rewrites, accepted and rejected updates — of every sound rule set
    registerWith_owned               … and established by registration
    guards_read_accepted_declaration for EVERY program of a plain controller: the declaration the guards read is the
                                     accepted one
    dyn_allowed_eq_spec, dyn_read_confined, dyn_write_confined, dyn_finalizer_confined
                                     the confinement theorems of Cosi.C08 along every program, w.r.t. the accepted declaration
    buffer_write_keeps_access, rejected_update_keeps_access
                                     rewriting a buffer / a rejected UpdateInputs changes no access decision
    q_guards_read_accepted_declaration  the same for a QController (full strength since the D9 repair: qruntime clones the slices of
                                     Settings() as rruntime does); q_guards_read_accepted_declaration_partial holds for every rule set
                                     as long as the controller does not rewrite its buffers
    q_alias_changes_access           kernel-checked D9 witness: with the caller's slices kept (the tree before the repair) a QController
                                     that rewrites the slice it returned from Settings() reads and finalizes a type it never declared
    alias_inputs_not_sound, alias_rejected_update_grants_access, alias_buffer_write_grants_access,
    eager_store_rejected_update_grants_access
                                     kernel-checked: with `adapter.Inputs = deps` (no copy), resp. with the store placed before
                                     the validation, the SAME model lets a plain controller use inputs that were rejected
-/
import Cosi.Props.C08
import Cosi.Model.AccessDecl

namespace Cosi.C08D
open Cosi Cosi.Access Cosi.AccessDecl

/-- what the theorems need of the sites of one controller flavour -/
def Sound (r : Rules) : Flavour → Prop
  | .r => r.keep .rInputs = .clone ∧ r.keep .rOutputs = .clone ∧ r.storeOnSuccessOnly = true
  | .q => r.keep .qInputs = .clone ∧ r.keep .qOutputs = .clone

theorem goodRules_sound (fl : Flavour) : Sound goodRules fl := by
  cases fl <;> simp [Sound, goodRules]

/-- the CURRENT rruntime keeps private copies and stores only an accepted declaration -/
theorem genRules_sound_r : Sound genRules .r := by
  have h1 : Gen.Access.declKeep .rInputs = .clone := by decide
  have h2 : Gen.Access.declKeep .rOutputs = .clone := by decide
  have h3 : Gen.Access.updateStoresOnSuccessOnly = true := by decide
  exact ⟨h1, h2, h3⟩

/-- the CURRENT qruntime keeps private copies of the slices of Settings() (since the D9 repair: qruntime.go
    NewAdapter clones both, as rruntime always did) -/
theorem genRules_sound_q : Sound genRules .q := by
  have h1 : Gen.Access.declKeep .qInputs = .clone := by decide
  have h2 : Gen.Access.declKeep .qOutputs = .clone := by decide
  exact ⟨h1, h2⟩

/-- the in-place sort of the caller's slice is part of the current source (the model's bookkeeping of what a
    later UpdateInputs(buf[:n]) passes rests on it) -/
theorem gen_sorts_caller : Gen.Access.updateSortsCaller = some true := by decide

/-- the adapter's slices are private and ARE the accepted declaration -/
def Owned (s : DSt) : Prop :=
  s.inputs = .own s.decl.inputs ∧ s.outputs = .own s.decl.outputs ∧ s.decl.name = s.name

theorem owned_eff (s : DSt) (ho : Owned s) : s.eff = s.decl := by
  obtain ⟨hi, hou, hn⟩ := ho
  unfold DSt.eff
  rw [hi, hou, ← hn]
  rfl

theorem update_fl (r : Rules) (s : DSt) (heap : Heap AInput) (arg : List AInput) (st : Kept AInput) :
    (update r s heap arg st).fl = s.fl ∧ (update r s heap arg st).name = s.name := by
  unfold update updateWith
  split
  · exact ⟨rfl, rfl⟩
  · split <;> exact ⟨rfl, rfl⟩

theorem stepWith_fl (r : Rules) (s : DSt) (x : DOp) :
    (AccessDecl.stepWith r s x).fl = s.fl ∧ (AccessDecl.stepWith r s x).name = s.name := by
  cases x with
  | writeI b i vs => exact ⟨rfl, rfl⟩
  | writeO b i vs => exact ⟨rfl, rfl⟩
  | updateBuf b n =>
    unfold AccessDecl.stepWith
    cases hf : s.fl
    · simp only []
      have := update_fl r s (if r.sortsCaller == some true then s.bufI.write b 0 (updateArg r s (.updateBuf b n)) else s.bufI)
        (updateArg r s (.updateBuf b n))
        (keepAs (r.keep .rInputs) b (updateArg r s (.updateBuf b n)).length (updateArg r s (.updateBuf b n)))
      rw [hf] at this
      exact this
    · exact ⟨hf, rfl⟩
  | updateFresh l =>
    unfold AccessDecl.stepWith
    cases hf : s.fl
    · simp only []
      have := update_fl r s s.bufI (updateArg r s (.updateFresh l)) (.own (updateArg r s (.updateFresh l)))
      rw [hf] at this
      exact this
    · exact ⟨hf, rfl⟩

/-- UpdateInputs, whatever its outcome, keeps `Owned` when it stores a private copy of its (sorted) argument
    and stores nothing when it rejects -/
theorem update_owned (r : Rules) (hst : r.storeOnSuccessOnly = true) (s : DSt) (ho : Owned s)
    (heap : Heap AInput) (arg : List AInput) : Owned (update r s heap arg (.own arg)) := by
  obtain ⟨hi, hou, hn⟩ := ho
  unfold update updateWith
  split
  · exact ⟨rfl, hou, hn⟩
  · try rw [if_pos hst]
    exact ⟨hi, hou, hn⟩

/-- **`Owned` is preserved by every step of every sound rule set** -/
theorem stepWith_owned (r : Rules) (s : DSt) (hs : Sound r s.fl) (ho : Owned s) (x : DOp) :
    Owned (AccessDecl.stepWith r s x) := by
  cases x with
  | writeI b i vs => exact ho
  | writeO b i vs => exact ho
  | updateBuf b n =>
    unfold AccessDecl.stepWith
    cases hf : s.fl
    · rw [hf] at hs
      simp only []
      rw [hs.1]
      exact update_owned r hs.2.2 s ho _ _
    · exact ho
  | updateFresh l =>
    unfold AccessDecl.stepWith
    cases hf : s.fl
    · rw [hf] at hs
      exact update_owned r hs.2.2 s ho _ _
    · exact ho

theorem runWith_owned (r : Rules) (xs : List DOp) : ∀ (s : DSt), Sound r s.fl → Owned s →
    Owned (AccessDecl.runWith r s xs) := by
  induction xs with
  | nil => intro s _ ho; exact ho
  | cons x xs ih =>
    intro s hs ho
    have hfl := (stepWith_fl r s x).1
    exact ih (AccessDecl.stepWith r s x) (by rw [hfl]; exact hs) (stepWith_owned r s hs ho x)

/-- registration establishes `Owned` -/
theorem registerWith_owned (r : Rules) (fl : Flavour) (hs : Sound r fl) (name : String) (bufI : Heap AInput)
    (bufO : Heap AOutput) (bi ni bo no : Nat) : Owned (registerWith r fl name bufI bufO bi ni bo no) := by
  cases fl with
  | r =>
    unfold registerWith
    simp only []
    apply stepWith_owned r _ hs
    rw [hs.2.1]
    exact ⟨rfl, rfl, rfl⟩
  | q =>
    unfold registerWith
    simp only []
    rw [hs.1, hs.2]
    exact ⟨rfl, rfl, rfl⟩

theorem registerWith_fl (r : Rules) (fl : Flavour) (name : String) (bufI : Heap AInput) (bufO : Heap AOutput)
    (bi ni bo no : Nat) : (registerWith r fl name bufI bufO bi ni bo no).fl = fl := by
  cases fl with
  | r => unfold registerWith; simp only []; exact (stepWith_fl r _ _).1
  | q => rfl

/-- **the guards read the accepted declaration — every program of a plain controller.** Whatever the controller
    does after registration — rewrite the buffers it passed, call UpdateInputs with buffers or fresh slices, have
    updates accepted or rejected (invalid kinds, duplicate keys after a partial merge) in any order —, the
    declaration consulted by checkReadAccess / checkFinalizerAccess / isOutput is the one last accepted. -/
theorem guards_read_accepted_declaration (name : String) (bufI : Heap AInput) (bufO : Heap AOutput)
    (bi ni bo no : Nat) (xs : List DOp) :
    (AccessDecl.run (register .r name bufI bufO bi ni bo no) xs).eff =
      (AccessDecl.run (register .r name bufI bufO bi ni bo no) xs).decl := by
  apply owned_eff
  apply runWith_owned genRules xs
  · unfold register; rw [registerWith_fl]; exact genRules_sound_r
  · exact registerWith_owned genRules .r genRules_sound_r name bufI bufO bi ni bo no

/-- … hence every access decision along every program is the specification's decision on the accepted declaration -/
theorem dyn_allowed_eq_spec (name : String) (bufI : Heap AInput) (bufO : Heap AOutput) (bi ni bo no : Nat)
    (xs : List DOp) (op : AdapterOp) (t : Target) :
    allowed (AccessDecl.run (register .r name bufI bufO bi ni bo no) xs).eff op t =
      Spec.Access.allowed (AccessDecl.run (register .r name bufI bufO bi ni bo no) xs).decl op t := by
  rw [guards_read_accepted_declaration, C08.allowed_eq_spec]

theorem dyn_read_confined (name : String) (bufI : Heap AInput) (bufO : Heap AOutput) (bi ni bo no : Nat)
    (xs : List DOp) (op : AdapterOp) (t : Target) (hop : op.isRead1 = true ∨ op.isList = true) :
    allowed (AccessDecl.run (register .r name bufI bufO bi ni bo no) xs).eff op t = true ↔
      (∃ o ∈ (AccessDecl.run (register .r name bufI bufO bi ni bo no) xs).decl.outputs, o.typ = t.typ) ∨
      (∃ i ∈ (AccessDecl.run (register .r name bufI bufO bi ni bo no) xs).decl.inputs, i.ns = t.ns ∧ i.typ = t.typ ∧
        (i.id = none ∨ (op.isList = false ∧ i.id = t.id))) := by
  rw [guards_read_accepted_declaration]
  exact C08.read_confined _ op t hop

theorem dyn_write_confined (name : String) (bufI : Heap AInput) (bufO : Heap AOutput) (bi ni bo no : Nat)
    (xs : List DOp) (op : AdapterOp) (t : Target) (hop : op.isWrite = true) :
    allowed (AccessDecl.run (register .r name bufI bufO bi ni bo no) xs).eff op t = true ↔
      ∃ o ∈ (AccessDecl.run (register .r name bufI bufO bi ni bo no) xs).decl.outputs, o.typ = t.typ := by
  rw [guards_read_accepted_declaration]
  exact C08.write_confined _ op t hop

theorem dyn_finalizer_confined (name : String) (bufI : Heap AInput) (bufO : Heap AOutput) (bi ni bo no : Nat)
    (xs : List DOp) (op : AdapterOp) (t : Target) (hop : op.isFinalizer = true) :
    allowed (AccessDecl.run (register .r name bufI bufO bi ni bo no) xs).eff op t = true ↔
      ∃ i ∈ (AccessDecl.run (register .r name bufI bufO bi ni bo no) xs).decl.inputs,
        (i.kind = 1 ∨ i.kind = 3 ∨ i.kind = 4) ∧ i.ns = t.ns ∧ i.typ = t.typ ∧ (i.id = none ∨ i.id = t.id) := by
  rw [guards_read_accepted_declaration]
  exact C08.finalizer_confined _ op t hop

/-- the accepted declaration changes only by an ACCEPTED UpdateInputs: rewriting a buffer changes neither it nor
    (for sound rules) any access decision -/
theorem buffer_write_keeps_access (r : Rules) (s : DSt) (hs : Sound r s.fl) (ho : Owned s) (b i : Nat)
    (vs : List AInput) (ws : List AOutput) :
    (AccessDecl.stepWith r s (.writeI b i vs)).decl = s.decl ∧ (AccessDecl.stepWith r s (.writeI b i vs)).eff = s.eff ∧
    (AccessDecl.stepWith r s (.writeO b i ws)).decl = s.decl ∧ (AccessDecl.stepWith r s (.writeO b i ws)).eff = s.eff := by
  have h1 := owned_eff _ (stepWith_owned r s hs ho (.writeI b i vs))
  have h2 := owned_eff _ (stepWith_owned r s hs ho (.writeO b i ws))
  have h0 := owned_eff s ho
  exact ⟨rfl, by rw [h1, h0]; rfl, rfl, by rw [h2, h0]; rfl⟩

/-- a REJECTED UpdateInputs (the dependency database refused the set: invalid kind, duplicate keys) leaves the
    accepted declaration and every access decision as they were -/
theorem rejected_update_keeps_access (r : Rules) (s : DSt) (hfl : s.fl = .r) (hs : Sound r .r) (ho : Owned s) (b n : Nat)
    (hrej : accepted r s (.updateBuf b n) = false) :
    (AccessDecl.stepWith r s (.updateBuf b n)).decl = s.decl ∧ (AccessDecl.stepWith r s (.updateBuf b n)).eff = s.eff := by
  have hd : (AccessDecl.stepWith r s (.updateBuf b n)).decl = s.decl := by
    unfold AccessDecl.stepWith
    rw [hfl]
    simp only []
    unfold update updateWith
    unfold accepted at hrej
    rw [hrej, hs.2.2]
    rfl
  have h1 := owned_eff _ (stepWith_owned r s (by rw [hfl]; exact hs) ho (.updateBuf b n))
  exact ⟨hd, by rw [h1, hd, owned_eff s ho]⟩

/-! ### the queue runtime: what holds of the current source -/

theorem keepAs_read {α : Type} (k : Gen.SliceKeep) (h : Heap α) (b n : Nat) :
    (keepAs k b ((h.buf b).take n).length ((h.buf b).take n)).read h = (h.buf b).take n := by
  cases k <;> simp [keepAs, Kept.read]

/-- the controller rewrites none of its buffers -/
def noWrites : List DOp → Bool
  | [] => true
  | .writeI _ _ _ :: _ => false
  | .writeO _ _ _ :: _ => false
  | _ :: xs => noWrites xs

theorem q_step_nowrite (r : Rules) (s : DSt) (hfl : s.fl = .q) (x : DOp) (hx : noWrites [x] = true) :
    AccessDecl.stepWith r s x = s := by
  cases x with
  | writeI b i vs => simp [noWrites] at hx
  | writeO b i vs => simp [noWrites] at hx
  | updateBuf b n => unfold AccessDecl.stepWith; rw [hfl]
  | updateFresh l => unfold AccessDecl.stepWith; rw [hfl]

theorem q_run_nowrite (r : Rules) (xs : List DOp) : ∀ (s : DSt), s.fl = .q → noWrites xs = true →
    AccessDecl.runWith r s xs = s := by
  induction xs with
  | nil => intro s _ _; rfl
  | cons x xs ih =>
    intro s hfl hx
    have h1 : noWrites [x] = true ∧ noWrites xs = true := by
      cases x <;> simp_all [noWrites]
    show AccessDecl.runWith r (AccessDecl.stepWith r s x) xs = s
    rw [q_step_nowrite r s hfl x h1.1]
    exact ih s hfl h1.2

/-- **A QController's guards read the declaration of its Settings()** — for EVERY program, buffer rewrites
    included (full strength; did not hold before the D9 repair, when qruntime kept the caller's slices:
    `q_alias_changes_access`). -/
theorem q_guards_read_accepted_declaration (name : String) (bufI : Heap AInput) (bufO : Heap AOutput)
    (bi ni bo no : Nat) (xs : List DOp) :
    (AccessDecl.run (register .q name bufI bufO bi ni bo no) xs).eff =
      (AccessDecl.run (register .q name bufI bufO bi ni bo no) xs).decl := by
  apply owned_eff
  apply runWith_owned genRules xs
  · unfold register; rw [registerWith_fl]; exact genRules_sound_q
  · exact registerWith_owned genRules .q genRules_sound_q name bufI bufO bi ni bo no

/-- for every rule set (even one that keeps the caller's slices), a QController's guards read the
    declaration of its Settings() as long as the controller rewrites none of the buffers -/
theorem q_guards_read_accepted_declaration_partial (r : Rules) (name : String) (bufI : Heap AInput)
    (bufO : Heap AOutput) (bi ni bo no : Nat) (xs : List DOp) (hx : noWrites xs = true) :
    (AccessDecl.runWith r (registerWith r .q name bufI bufO bi ni bo no) xs).eff =
      (AccessDecl.runWith r (registerWith r .q name bufI bufO bi ni bo no) xs).decl := by
  rw [q_run_nowrite r xs _ rfl hx]
  unfold registerWith
  simp only [DSt.eff]
  rw [keepAs_read, keepAs_read]

/-! ### non-vacuity and negative witnesses (kernel-checked) -/

def inW1 : AInput := { ns := "n", typ := "T1", id := none, kind := 0 }     -- weak, kind-wide
def inS2 : AInput := { ns := "n", typ := "T2", id := none, kind := 1 }     -- strong
def inQ2 : AInput := { ns := "n", typ := "T2", id := none, kind := 4 }     -- q-mapped: invalid for a plain controller
def inP1 : AInput := { ns := "n", typ := "T1", id := none, kind := 3 }     -- q-primary
def inM2 : AInput := { ns := "n", typ := "T2", id := none, kind := 4 }
def outX : AOutput := { typ := "OX", kind := 0 }
def tgt2 : Target := { ns := "n", typ := "T2", id := some "a" }

/-- the seeded program: declare [T1 weak] from a buffer, rebuild the next set in the same buffer, have it rejected -/
def exProg : List DOp := [.writeI 0 0 [inQ2], .updateBuf 0 1]

def exReg (r : Rules) : DSt := registerWith r .r "ctl" [[inW1], []] [[outX]] 0 1 0 1

/-- non-vacuity on the CURRENT source (named, so that a change of the regenerated facts is reported against it):
    the seeded program leaves declaration and access decisions alone -/
theorem current_rejected_update_keeps_access :
    (exReg genRules).decl.inputs = [inW1] ∧ (exReg genRules).eff.inputs = [inW1] ∧
    (AccessDecl.runWith genRules (exReg genRules) exProg).decl.inputs = [inW1] ∧
    allowed (AccessDecl.runWith genRules (exReg genRules) exProg).eff .get tgt2 = false ∧
    allowed (AccessDecl.runWith genRules (exReg genRules) exProg).eff .addFinalizer tgt2 = false := by decide

/-- an accepted update does change the declaration (the ghost field is not frozen) -/
theorem current_accepted_update_changes_access :
    (AccessDecl.runWith genRules (exReg genRules) [.writeI 0 0 [inS2], .updateBuf 0 1]).decl.inputs = [inS2] ∧
    allowed (AccessDecl.runWith genRules (exReg genRules) [.writeI 0 0 [inS2], .updateBuf 0 1]).eff .addFinalizer tgt2 = true := by
  decide

/-- duplicate keys: rejected after a partial merge, access unchanged; the in-place sort is visible in the buffer -/
theorem current_duplicate_keys_rejected :
    (AccessDecl.runWith genRules (exReg genRules) [.writeI 1 0 [inS2, inW1, { inS2 with kind := 0 }], .updateBuf 1 3]).decl.inputs = [inW1] ∧
    ((AccessDecl.runWith genRules (exReg genRules) [.writeI 1 0 [inS2, inW1, { inS2 with kind := 0 }], .updateBuf 1 3]).bufI.buf 1).map (·.typ) =
      ["T1", "T2", "T2"] := by decide

/-- `adapter.Inputs = deps`: the caller's slice is kept -/
def aliasInputsRules : Rules := { goodRules with keep := fun s => if s = .rInputs then .alias else .clone }
/-- the store placed before the validation -/
def eagerStoreRules : Rules := { goodRules with storeOnSuccessOnly := false }

theorem alias_inputs_not_sound : ¬ Sound aliasInputsRules .r := by
  intro h; exact absurd h.1 (by decide)

/-- **negative witness.** With the caller's slice kept, the REJECTED second declaration (queue kinds) is what the
    guards read: the controller gets a resource of a type it never declared, and may add finalizers to it, while the
    accepted declaration is still [T1 weak]. -/
theorem alias_rejected_update_grants_access :
    (AccessDecl.runWith aliasInputsRules (exReg aliasInputsRules) exProg).decl.inputs = [inW1] ∧
    allowed (AccessDecl.runWith aliasInputsRules (exReg aliasInputsRules) exProg).eff .get tgt2 = true ∧
    allowed (AccessDecl.runWith aliasInputsRules (exReg aliasInputsRules) exProg).eff .addFinalizer tgt2 = true ∧
    Spec.Access.allowed (AccessDecl.runWith aliasInputsRules (exReg aliasInputsRules) exProg).decl .get tgt2 = false := by
  decide

/-- … the rejected call is not even needed: rewriting the buffer is enough -/
theorem alias_buffer_write_grants_access :
    allowed (AccessDecl.runWith aliasInputsRules (exReg aliasInputsRules) [.writeI 0 0 [inS2]]).eff .addFinalizer tgt2 = true ∧
    (AccessDecl.runWith aliasInputsRules (exReg aliasInputsRules) [.writeI 0 0 [inS2]]).decl.inputs = [inW1] := by decide

/-- a private copy taken BEFORE the validation: a rejected update is what the guards read -/
theorem eager_store_rejected_update_grants_access :
    (AccessDecl.runWith eagerStoreRules (exReg eagerStoreRules) exProg).decl.inputs = [inW1] ∧
    allowed (AccessDecl.runWith eagerStoreRules (exReg eagerStoreRules) exProg).eff .get tgt2 = true := by decide

/-- the queue runtime of the tree before the D9 repair: `Inputs: settings.Inputs, Outputs: settings.Outputs` -/
def aliasQRules : Rules := { goodRules with keep := fun s => if s = .qInputs ∨ s = .qOutputs then .alias else .clone }

/-- registered with [T1 q-primary] / [OX]; the controller then rewrites the slices it returned from Settings() -/
def exRegQ (r : Rules) : DSt := registerWith r .q "ctl" [[inP1]] [[outX]] 0 1 0 1

theorem current_q_registration_coherent : (exRegQ genRules).eff = (exRegQ genRules).decl :=
  q_guards_read_accepted_declaration_partial genRules "ctl" [[inP1]] [[outX]] 0 1 0 1 [] rfl

def exProgQ : List DOp := [.writeI 0 0 [inM2], .writeO 0 0 [{ typ := "OY", kind := 0 }]]

/-- **D9 witness** (kernel-checked): with the caller's slices kept, after the rewrite the guards let the QController
    get and finalize T2 and write type OY, none of which it declared. -/
theorem q_alias_changes_access :
    ¬ Sound aliasQRules .q ∧
    (AccessDecl.runWith aliasQRules (exRegQ aliasQRules) exProgQ).decl.inputs = [inP1] ∧
    allowed (AccessDecl.runWith aliasQRules (exRegQ aliasQRules) exProgQ).eff .get tgt2 = true ∧
    allowed (AccessDecl.runWith aliasQRules (exRegQ aliasQRules) exProgQ).eff .addFinalizer tgt2 = true ∧
    allowed (AccessDecl.runWith aliasQRules (exRegQ aliasQRules) exProgQ).eff .create { ns := "n", typ := "OY", id := some "a" } = true ∧
    Spec.Access.allowed (AccessDecl.runWith aliasQRules (exRegQ aliasQRules) exProgQ).decl .get tgt2 = false := by
  refine ⟨fun h => absurd h.1 (by decide), ?_⟩
  decide

/-- the same program on the current source: nothing changes -/
theorem q_clone_keeps_access :
    allowed (AccessDecl.run (exRegQ genRules) exProgQ).eff .get tgt2 = false ∧
    allowed (AccessDecl.run (exRegQ genRules) exProgQ).eff .create { ns := "n", typ := "OY", id := some "a" } = false := by
  decide

end Cosi.C08D
