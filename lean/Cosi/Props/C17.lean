/-
  Property C17 — output exclusivity and dependency graph consistent for any registration
  history.

  "For any sequence of controller registrations and dynamic input updates: at most one
  controller ever holds a resource type as exclusive output, exclusive and shared claims on a
  type never coexist, conflicting (same namespace/type/id) inputs of one controller are
  rejected, the exported dependency graph lists exactly the accepted inputs and outputs, and
  change notifications go to exactly the controllers having a matching input by kind or by
  ID. A registration that is rejected has no effect on the graph, on notifications or on
  later registrations."

  All theorems quantify over `ops : List Op` (register / registerQ / updateInputs / start
  with arbitrary declarations) and are proved through one invariant `Inv` of the five tables
  that every table operation preserves (Parts B, C); the registration procedures only ever
  apply table operations (`stepWith_induct`).

    neighbourhood_check_complete   the ±1 test around the binary search is complete (Part A)
    conflicting_inputs_rejected    hence a conflicting input is always rejected
    exclusive_unique               at most one exclusive holder of a type, ever
    exclusive_xor_shared           never exclusive and shared at once
    export_is_accepted             exported edges = accepted declarations (+ accepted_iff_tables)
    dependents_exact / _mem        who is notified
    accepted_kinds                 flavour tables (regenerated facts)
    rejected_is_noop               a rejected registration is a no-op (needs the rollback of the D3 fix; regenerated fact)
    rejected_is_noop_partial       rejections before the first table write
    rejected_is_noop_if_rolled_back / _of_rollback   the full statement once Register* rolls back
    rejected_leaves_edges_witness(_r), rejected_blocks_later_witness   kernel-checked counterexamples
    step_eq_of_no_rollback         ... which are about the model of the current tree (regenerated fact)
-/
import Cosi.Spec.DepDB

set_option linter.unusedSimpArgs false
set_option linter.unusedVariables false

namespace Cosi.C17

open Cosi Cosi.DepDB Std

/-! ## Part A — `Input.Compare` is a pre-order; binary search; the ±1 neighbourhood test -/

/-- what `Compare` really orders distinct-key inputs by -/
def rank (a : Input) : List String := [a.ns, a.typ, a.idVal]

/-- sorted as far as `Compare` can tell for inputs with different keys -/
def SortedK (l : List Input) : Prop := l.Pairwise (fun a b => (compare (rank a) (rank b)).isLE = true)

/-- no two entries with `EqualKeys` -/
def DistinctK (l : List Input) : Prop := l.Pairwise (fun a b => a.equalKeys b = false)

theorem equalKeys_iff (a b : Input) :
    a.equalKeys b = true ↔ a.ns = b.ns ∧ a.typ = b.typ ∧ a.id = b.id := by
  simp [Input.equalKeys, and_assoc]

theorem equalKeys_false_iff (a b : Input) :
    a.equalKeys b = false ↔ ¬ (a.ns = b.ns ∧ a.typ = b.typ ∧ a.id = b.id) := by
  rw [← equalKeys_iff]; simp

theorem equalKeys_refl (a : Input) : a.equalKeys a = true := by simp [equalKeys_iff]

theorem equalKeys_symm {a b : Input} (h : a.equalKeys b = true) : b.equalKeys a = true := by
  rw [equalKeys_iff] at *; exact ⟨h.1.symm, h.2.1.symm, h.2.2.symm⟩

theorem equalKeys_trans {a b c : Input} (h1 : a.equalKeys b = true) (h2 : b.equalKeys c = true) :
    a.equalKeys c = true := by
  rw [equalKeys_iff] at *
  exact ⟨h1.1.trans h2.1, h1.2.1.trans h2.2.1, h1.2.2.trans h2.2.2⟩

theorem equalKeys_congr_left {a b c : Input} (h : a.equalKeys b = true) :
    c.equalKeys a = c.equalKeys b := by
  cases hc : c.equalKeys b with
  | true => exact equalKeys_trans hc (equalKeys_symm h)
  | false =>
    cases hc' : c.equalKeys a with
    | false => rfl
    | true => rw [equalKeys_trans hc' h] at hc; exact absurd hc (by simp)

theorem rank_eq_of_equalKeys {a b : Input} (h : a.equalKeys b = true) : rank a = rank b := by
  rw [equalKeys_iff] at h
  simp [rank, Input.idVal, h.1, h.2.1, h.2.2]

theorem compare_rank (a b : Input) :
    compare (rank a) (rank b) =
      (compare a.ns b.ns).then ((compare a.typ b.typ).then (compare a.idVal b.idVal)) := by
  simp only [rank, List.compare_eq_compareLex, List.compareLex_cons_cons]
  cases compare a.idVal b.idVal <;> simp [List.compareLex, Ordering.then]

theorem str_compare_eq_iff (x y : String) : compare x y = .eq ↔ x = y :=
  LawfulEqOrd.compare_eq_iff_eq

/-- for inputs with different keys `Compare` is the lexicographic order of `rank` -/
theorem cmp_of_ne_keys {a b : Input} (h : a.equalKeys b = false) :
    a.cmp b = compare (rank a) (rank b) := by
  rw [compare_rank]
  rw [equalKeys_false_iff] at h
  unfold Input.cmp
  by_cases h1 : a.ns = b.ns
  · by_cases h2 : a.typ = b.typ
    · have h3 : a.id ≠ b.id := fun e => h ⟨h1, h2, e⟩
      have e1 : compare a.ns b.ns = .eq := (str_compare_eq_iff _ _).2 h1
      have e2 : compare a.typ b.typ = .eq := (str_compare_eq_iff _ _).2 h2
      simp [h1, h2, h3, Ordering.then, e1, e2]
    · have e1 : compare a.ns b.ns = .eq := (str_compare_eq_iff _ _).2 h1
      have n2 : compare a.typ b.typ ≠ .eq := fun e => h2 ((str_compare_eq_iff _ _).1 e)
      simp only [h1, h2, ne_eq, not_true_eq_false, if_false, not_false_eq_true, if_true, e1, Ordering.then]
      cases hc : compare a.typ b.typ <;> simp_all
  · have n1 : compare a.ns b.ns ≠ .eq := fun e => h1 ((str_compare_eq_iff _ _).1 e)
    simp only [h1, ne_eq, not_false_eq_true, if_true]
    cases hc : compare a.ns b.ns <;> simp_all [Ordering.then]

/-- for inputs with equal keys `Compare` looks at the kind only -/
theorem cmp_of_eq_keys {a b : Input} (h : a.equalKeys b = true) : a.cmp b = compare a.kind b.kind := by
  rw [equalKeys_iff] at h
  simp [Input.cmp, h.1, h.2.1, h.2.2]

/-- the pre-order quirk: an absent and an empty ID compare equal whatever the kinds -/
example : (⟨"n", "T", none, 5⟩ : Input).cmp ⟨"n", "T", some "", 0⟩ = .eq := by decide
/-- ... so `Compare` is not transitive on inputs with equal keys in between -/
example : (⟨"n", "T", none, 2⟩ : Input).cmp ⟨"n", "T", some "", 0⟩ = .eq ∧
    (⟨"n", "T", some "", 0⟩ : Input).cmp ⟨"n", "T", none, 0⟩ = .eq ∧
    (⟨"n", "T", none, 2⟩ : Input).cmp ⟨"n", "T", none, 0⟩ = .gt := by decide

/-- loop invariant of slices.BinarySearchFunc, for ANY predicate (monotone or not) -/
theorem bsearchAux_spec (p : Nat → Bool) :
    ∀ (fuel i j : Nat), i ≤ j → j - i ≤ fuel →
      i ≤ bsearchAux p fuel i j ∧ bsearchAux p fuel i j ≤ j ∧
      (bsearchAux p fuel i j = i ∨ p (bsearchAux p fuel i j - 1) = true) ∧
      (bsearchAux p fuel i j = j ∨ p (bsearchAux p fuel i j) = false) := by
  intro fuel
  induction fuel with
  | zero =>
    intro i j hij hf
    have : i = j := by omega
    subst this
    simp [bsearchAux]
  | succ f ih =>
    intro i j hij hf
    unfold bsearchAux
    by_cases hlt : i < j
    · simp only [hlt, if_true]
      have hh1 : i ≤ (i + j) / 2 := by omega
      have hh2 : (i + j) / 2 < j := by omega
      by_cases hp : p ((i + j) / 2) = true
      · simp only [hp, if_true]
        obtain ⟨a, b, c, d⟩ := ih ((i + j) / 2 + 1) j (by omega) (by omega)
        refine ⟨by omega, b, ?_, d⟩
        rcases c with c | c
        · right; rw [c]; simpa using hp
        · right; exact c
      · have hp' : p ((i + j) / 2) = false := by simpa using hp
        simp only [hp', Bool.false_eq_true, if_false]
        obtain ⟨a, b, c, d⟩ := ih i ((i + j) / 2) hh1 (by omega)
        refine ⟨a, by omega, c, ?_⟩
        rcases d with d | d
        · right; rw [d]; exact hp'
        · right; exact d
    · simp only [hlt, if_false]
      have : i = j := by omega
      subst this
      simp

theorem searchInputs_spec (l : List Input) (d : Input) :
    searchInputs l d ≤ l.length ∧
    (searchInputs l d = 0 ∨ ltAt l d (searchInputs l d - 1) = true) ∧
    (searchInputs l d = l.length ∨ ltAt l d (searchInputs l d) = false) := by
  obtain ⟨_, b, c, e⟩ := bsearchAux_spec (ltAt l d) l.length 0 l.length (Nat.zero_le _) (by omega)
  exact ⟨b, c, e⟩

theorem ltAt_eq (l : List Input) (d : Input) (h : Nat) (hh : h < l.length) :
    ltAt l d h = (l[h].cmp d == .lt) := by
  simp [ltAt, List.getElem?_eq_getElem hh]

theorem keyAt_eq (l : List Input) (d : Input) (h : Nat) (hh : h < l.length) :
    keyAt l h d = l[h].equalKeys d := by
  simp [keyAt, List.getElem?_eq_getElem hh]

theorem keyAt_oob (l : List Input) (d : Input) (h : Nat) (hh : l.length ≤ h) : keyAt l h d = false := by
  simp [keyAt, List.getElem?_eq_none hh]

theorem rank_eq_iff (a b : Input) : rank a = rank b ↔ a.ns = b.ns ∧ a.typ = b.typ ∧ a.idVal = b.idVal := by
  simp [rank]

/-- at most two keys share a rank (the absent and the empty ID) -/
theorem three_same_rank {a b c : Input} (hab : a.equalKeys b = false) (hac : a.equalKeys c = false)
    (hbc : b.equalKeys c = false) (r1 : rank a = rank b) (r2 : rank b = rank c) : False := by
  rw [rank_eq_iff] at r1 r2
  rw [equalKeys_false_iff] at hab hac hbc
  obtain ⟨n1, t1, i1⟩ := r1
  obtain ⟨n2, t2, i2⟩ := r2
  have hab' : a.id ≠ b.id := fun e => hab ⟨n1, t1, e⟩
  have hbc' : b.id ≠ c.id := fun e => hbc ⟨n2, t2, e⟩
  have hac' : a.id ≠ c.id := fun e => hac ⟨n1.trans n2, t1.trans t2, e⟩
  unfold Input.idVal at i1 i2
  cases ha : a.id <;> cases hb : b.id <;> cases hc : c.id <;> simp_all

theorem nearHit_isSome (l : List Input) (idx : Nat) (d : Input) :
    (nearHit l idx d).isSome = true ↔
      (1 ≤ idx ∧ keyAt l (idx - 1) d = true) ∨ keyAt l idx d = true ∨ keyAt l (idx + 1) d = true := by
  unfold nearHit
  cases hA : (decide (1 ≤ idx) && keyAt l (idx - 1) d) <;>
    cases hB : keyAt l idx d <;> cases hC : keyAt l (idx + 1) d <;>
    simp_all

theorem nearHit_some {l : List Input} {idx k : Nat} {d : Input} (h : nearHit l idx d = some k) :
    keyAt l k d = true := by
  unfold nearHit at h
  cases hA : (decide (1 ≤ idx) && keyAt l (idx - 1) d) <;>
    cases hB : keyAt l idx d <;> cases hC : keyAt l (idx + 1) d <;>
    simp [hA, hB, hC] at h <;> subst h <;> simp_all

theorem keyAt_true {l : List Input} {k : Nat} {d : Input} (h : keyAt l k d = true) :
    ∃ hk : k < l.length, l[k].equalKeys d = true := by
  by_cases hk : k < l.length
  · exact ⟨hk, by rw [← keyAt_eq l d k hk]; exact h⟩
  · rw [keyAt_oob l d k (by omega)] at h; exact absurd h (by simp)

theorem equalKeys_false_symm {a b : Input} (h : a.equalKeys b = false) : b.equalKeys a = false := by
  cases hb : b.equalKeys a with
  | false => rfl
  | true => rw [equalKeys_symm hb] at h; exact absurd h (by simp)

/-- entries of a distinct-key list at different positions have different keys -/
theorem distinct_at {l : List Input} (hk : DistinctK l) {i j : Nat} (hi : i < l.length) (hj : j < l.length)
    (hne : i ≠ j) : l[i].equalKeys l[j] = false := by
  have h := List.pairwise_iff_getElem.mp hk
  rcases Nat.lt_or_gt_of_ne hne with hlt | hgt
  · exact h i j hi hj hlt
  · exact equalKeys_false_symm (h j i hj hi hgt)

theorem sorted_at {l : List Input} (hs : SortedK l) {i j : Nat} (hi : i < l.length) (hj : j < l.length)
    (hle : i ≤ j) : (compare (rank l[i]) (rank l[j])).isLE = true := by
  rcases Nat.lt_or_eq_of_le hle with hlt | heq
  · exact List.pairwise_iff_getElem.mp hs i j hi hj hlt
  · subst heq; exact ReflCmp.isLE_rfl

/-- where the binary search can end when an equal-key entry sits at position `m` -/
theorem search_near {l : List Input} {d : Input} (hs : SortedK l) (hk : DistinctK l)
    {m : Nat} (hm : m < l.length) (he : l[m].equalKeys d = true) :
    searchInputs l d ≤ m + 1 ∧ m ≤ searchInputs l d + 1 := by
  obtain ⟨hlen, hlo, hhi⟩ := searchInputs_spec l d
  generalize searchInputs l d = idx at *
  have hr : rank l[m] = rank d := rank_eq_of_equalKeys he
  have hother : ∀ h (hh : h < l.length), h ≠ m → l[h].cmp d = compare (rank l[h]) (rank d) := by
    intro h hh hne
    apply cmp_of_ne_keys
    rw [← equalKeys_congr_left he]
    exact distinct_at hk hh hm hne
  constructor
  · -- idx ≤ m + 1
    apply Decidable.byContradiction
    intro hcon
    have hidx : m + 2 ≤ idx := by omega
    rcases hlo with h0 | hlt
    · omega
    · have hh : idx - 1 < l.length := by omega
      rw [ltAt_eq l d _ hh, hother _ hh (by omega)] at hlt
      have hlt' : compare (rank l[idx - 1]) (rank d) = .lt := by simpa using hlt
      have hle := sorted_at hs hm hh (by omega)
      rw [hr] at hle
      exact OrientedCmp.not_isLE_of_lt hlt' hle
  · -- m ≤ idx + 1
    apply Decidable.byContradiction
    intro hcon
    have hidx : idx + 2 ≤ m := by omega
    have hh : idx < l.length := by omega
    have hh1 : idx + 1 < l.length := by omega
    rcases hhi with hn | hge
    · omega
    · rw [ltAt_eq l d _ hh, hother _ hh (by omega)] at hge
      have hle := sorted_at hs hh hm (by omega)
      rw [hr] at hle
      have heq : compare (rank l[idx]) (rank d) = .eq := by
        cases hc : compare (rank l[idx]) (rank d) <;> simp_all
      have e0 : rank l[idx] = rank d := LawfulEqOrd.compare_eq_iff_eq.mp heq
      have l1 := sorted_at hs hh hh1 (by omega)
      have l2 := sorted_at hs hh1 hm (by omega)
      rw [e0] at l1
      rw [hr] at l2
      have e1 : rank d = rank l[idx + 1] :=
        LawfulEqOrd.compare_eq_iff_eq.mp (OrientedCmp.isLE_antisymm l1 l2)
      exact three_same_rank (distinct_at hk hh hh1 (by omega)) (distinct_at hk hh hm (by omega))
        (distinct_at hk hh1 hm (by omega)) (e0.trans e1) (e1.symm.trans hr.symm)

/-- **neighbourhood_check_complete.** On a slice that is sorted (as far as `Compare` can
    tell) and has pairwise distinct keys, the test of positions idx−1, idx, idx+1 around
    the binary-search result finds an entry with equal keys iff there is one anywhere in
    the slice. The `+1` position is needed exactly because `none` and `some ""` compare
    equal (see the `example`s below). -/
theorem neighbourhood_check_complete (l : List Input) (d : Input) (hs : SortedK l) (hk : DistinctK l) :
    (nearHit l (searchInputs l d) d).isSome = true ↔ ∃ e ∈ l, e.equalKeys d = true := by
  constructor
  · intro h
    cases hn : nearHit l (searchInputs l d) d with
    | none => rw [hn] at h; exact absurd h (by simp)
    | some k =>
      obtain ⟨hk', hek⟩ := keyAt_true (nearHit_some hn)
      exact ⟨l[k], List.getElem_mem hk', hek⟩
  · rintro ⟨e, hmem, he⟩
    obtain ⟨m, hm, rfl⟩ := List.mem_iff_getElem.mp hmem
    obtain ⟨h1, h2⟩ := search_near hs hk hm he
    rw [nearHit_isSome]
    generalize searchInputs l d = idx at *
    have hcases : idx = m + 1 ∨ idx = m ∨ idx + 1 = m := by omega
    rcases hcases with h | h | h
    · left
      refine ⟨by omega, ?_⟩
      have : idx - 1 = m := by omega
      rw [this, keyAt_eq l d m hm]; exact he
    · right; left
      rw [h, keyAt_eq l d m hm]; exact he
    · right; right
      rw [h, keyAt_eq l d m hm]; exact he

/-- non-vacuity, and the reason for the `+1`: the equal-key entry sits AFTER the search result -/
example : let l : List Input := [⟨"n", "T", some "", 0⟩, ⟨"n", "T", none, 3⟩, ⟨"n", "T", some "a", 0⟩]
    searchInputs l ⟨"n", "T", none, 1⟩ = 0 ∧ nearHit l 0 ⟨"n", "T", none, 1⟩ = some 1 := by decide
example : SortedK [⟨"n", "T", some "", 0⟩, ⟨"n", "T", none, 3⟩, ⟨"n", "T", some "a", 0⟩] ∧
    DistinctK [⟨"n", "T", some "", 0⟩, ⟨"n", "T", none, 3⟩, ⟨"n", "T", some "a", 0⟩] := by
  constructor <;> simp [SortedK, DistinctK] <;> decide

/-! ## Part B — the database invariant, preserved by every table operation -/

/-! ### association list (controllerInputs) -/

def NodupKeys (m : List (String × List Input)) : Prop := (m.map (·.1)).Nodup

theorem alGet_alPut_self (m : List (String × List Input)) (k : String) (v : List Input) :
    alGet (alPut m k v) k = some v := by
  simp [alPut, alGet]

theorem alGet_filter_ne (m : List (String × List Input)) (k k' : String) (h : k' ≠ k) :
    alGet (m.filter (fun p => !decide (p.1 = k))) k' = alGet m k' := by
  induction m with
  | nil => rfl
  | cons p m ih =>
    obtain ⟨a, b⟩ := p
    by_cases ha : a = k
    · subst ha
      have : ¬ a = k' := fun e => h e.symm
      simp [List.filter_cons, alGet, this, ih]
    · by_cases hk : a = k'
      · subst hk; simp [List.filter_cons, ha, alGet]
      · simp [List.filter_cons, ha, alGet, hk, ih]

theorem alGet_alPut_other (m : List (String × List Input)) (k k' : String) (v : List Input) (h : k' ≠ k) :
    alGet (alPut m k v) k' = alGet m k' := by
  have : ¬ k = k' := fun e => h e.symm
  simp [alPut, alGet, this, alGet_filter_ne m k k' h]

theorem nodupKeys_alPut {m : List (String × List Input)} (h : NodupKeys m) (k : String) (v : List Input) :
    NodupKeys (alPut m k v) := by
  unfold NodupKeys alPut at *
  simp only [List.map_cons, List.nodup_cons]
  constructor
  · simp [List.mem_map, List.mem_filter]
  · exact (List.filter_sublist.map _).nodup h

theorem mem_of_alGet {m : List (String × List Input)} {k : String} {v : List Input}
    (h : alGet m k = some v) : (k, v) ∈ m := by
  induction m with
  | nil => simp [alGet] at h
  | cons p m ih =>
    obtain ⟨a, b⟩ := p
    by_cases ha : a = k
    · simp [alGet, ha] at h; simp [ha, h]
    · simp [alGet, ha] at h; simp [ih h]

theorem alGet_of_mem {m : List (String × List Input)} (hn : NodupKeys m) {k : String} {v : List Input}
    (h : (k, v) ∈ m) : alGet m k = some v := by
  induction m with
  | nil => simp at h
  | cons p m ih =>
    obtain ⟨a, b⟩ := p
    unfold NodupKeys at hn
    simp only [List.map_cons, List.nodup_cons] at hn
    by_cases ha : a = k
    · subst ha
      rcases List.mem_cons.mp h with h | h
      · simp [alGet, (Prod.mk.inj h).2]
      · exact absurd (List.mem_map.mpr ⟨(a, v), h, rfl⟩) hn.1
    · rcases List.mem_cons.mp h with h | h
      · exact absurd (Prod.mk.inj h).1.symm ha
      · simp [alGet, ha, ih hn.2 h]

theorem getInputs_put (db : DB) (c c' : String) (l : List Input) (db' : DB)
    (h : db'.inputs = alPut db.inputs c l) :
    db'.getInputs c' = if c' = c then l else db.getInputs c' := by
  unfold DB.getInputs
  rw [h]
  by_cases hc : c' = c
  · subst hc; simp [alGet_alPut_self]
  · simp [hc, alGet_alPut_other _ _ _ _ hc]

/-! ### lookup slices -/

/-- `table[key]` for the lookup tables -/
def slice {κ : Type} [DecidableEq κ] (t : List (κ × String)) (k : κ) : List String :=
  (t.filter (fun p => p.1 = k)).map (·.2)

theorem lookupFor_eq (db : DB) (ns typ : String) : db.lookupFor ns typ = slice db.lookup (ns, typ) := rfl
theorem lookupIDFor_eq (db : DB) (ns typ id : String) :
    db.lookupIDFor ns typ id = slice db.lookupID (ns, typ, id) := rfl

theorem slice_append_one {κ : Type} [DecidableEq κ] (t : List (κ × String)) (k k' : κ) (c : String) :
    slice (t ++ [(k, c)]) k' = slice t k' ++ (if k = k' then [c] else []) := by
  unfold slice
  by_cases h : k = k' <;> simp [List.filter_append, h]

theorem slice_remove {κ : Type} [DecidableEq κ] (t : List (κ × String)) (k k' : κ) (c : String) :
    slice (t.filter (fun p => !(decide (p.1 = k) && decide (p.2 = c)))) k' =
      if k' = k then (slice t k).filter (fun x => x ≠ c) else slice t k' := by
  unfold slice
  induction t with
  | nil => simp
  | cons p t ih =>
    obtain ⟨a, b⟩ := p
    by_cases hk : k' = k
    · subst hk
      simp only [if_true] at ih ⊢
      by_cases ha : a = k' <;> by_cases hb : b = c <;> simp_all [List.filter_cons]
    · simp only [hk, if_false] at ih ⊢
      by_cases ha : a = k' <;> by_cases ha2 : a = k <;> by_cases hb : b = c <;>
        simp_all [List.filter_cons]

/-! ### slices.Insert / slices.Delete on a distinct-key slice -/

theorem mem_insertAt (l : List Input) (i : Nat) (d x : Input) : x ∈ insertAt l i d ↔ x = d ∨ x ∈ l := by
  unfold insertAt
  rw [List.mem_append, List.mem_cons]
  have := List.take_append_drop i l
  constructor
  · rintro (h | h | h)
    · exact Or.inr (List.mem_of_mem_take h)
    · exact Or.inl h
    · exact Or.inr (List.mem_of_mem_drop h)
  · rintro (h | h)
    · exact Or.inr (Or.inl h)
    · rw [← this, List.mem_append] at h
      rcases h with h | h
      · exact Or.inl h
      · exact Or.inr (Or.inr h)

theorem mem_eraseIdx_distinct {l : List Input} (hk : DistinctK l) {k : Nat} (hlt : k < l.length) {d : Input}
    (he : l[k].equalKeys d = true) (x : Input) :
    x ∈ l.eraseIdx k ↔ x ∈ l ∧ x.equalKeys d = false := by
  constructor
  · intro h
    obtain ⟨hx, j, hj, hne, rfl⟩ : x ∈ l ∧ ∃ j, ∃ hj : j < l.length, j ≠ k ∧ l[j] = x := by
      rw [List.mem_eraseIdx_iff_getElem] at h
      obtain ⟨j, hj, hne, rfl⟩ := h
      exact ⟨List.getElem_mem hj, j, hj, hne, rfl⟩
    refine ⟨hx, ?_⟩
    rw [← equalKeys_congr_left he]
    exact distinct_at hk hj hlt hne
  · rintro ⟨hx, hne⟩
    obtain ⟨j, hj, rfl⟩ := List.mem_iff_getElem.mp hx
    rw [List.mem_eraseIdx_iff_getElem]
    refine ⟨j, hj, ?_, rfl⟩
    intro e
    subst e
    rw [he] at hne
    exact absurd hne (by simp)

theorem pairwise_insertAt {R : Input → Input → Prop} {l : List Input} {i : Nat} {d : Input}
    (h : l.Pairwise R) (h1 : ∀ a ∈ l.take i, R a d) (h2 : ∀ b ∈ l.drop i, R d b) :
    (insertAt l i d).Pairwise R := by
  have hsplit : (l.take i ++ l.drop i).Pairwise R := by rw [List.take_append_drop]; exact h
  obtain ⟨ht, hd, hx⟩ := List.pairwise_append.mp hsplit
  unfold insertAt
  rw [List.pairwise_append]
  refine ⟨ht, List.pairwise_cons.mpr ⟨h2, hd⟩, ?_⟩
  intro a ha b hb
  rcases List.mem_cons.mp hb with rfl | hb
  · exact h1 a ha
  · exact hx a ha b hb

/-- inserting at the binary-search position keeps the slice sorted, provided no entry has
    the keys of the new one (which is what the neighbourhood test has just established) -/
theorem sorted_insert {l : List Input} {d : Input} (hs : SortedK l)
    (hno : ∀ e ∈ l, e.equalKeys d = false) : SortedK (insertAt l (searchInputs l d) d) := by
  obtain ⟨hlen, hlo, hhi⟩ := searchInputs_spec l d
  generalize searchInputs l d = idx at *
  have hcmp : ∀ h (hh : h < l.length), l[h].cmp d = compare (rank l[h]) (rank d) :=
    fun h hh => cmp_of_ne_keys (hno _ (List.getElem_mem hh))
  apply pairwise_insertAt hs
  · intro a ha
    obtain ⟨j, hj, rfl⟩ := List.mem_take_iff_getElem.mp ha
    have hjl : j < l.length := by omega
    have hji : j < idx := by omega
    rcases hlo with h0 | hlt
    · omega
    · have hh : idx - 1 < l.length := by omega
      rw [ltAt_eq l d _ hh, hcmp _ hh] at hlt
      have hlt' : (compare (rank l[idx - 1]) (rank d)).isLE = true := by
        have : compare (rank l[idx - 1]) (rank d) = .lt := by simpa using hlt
        rw [this]; rfl
      exact TransCmp.isLE_trans (sorted_at hs hjl hh (by omega)) hlt'
  · intro b hb
    obtain ⟨j, hj, rfl⟩ := List.mem_drop_iff_getElem.mp hb
    have hjl : idx + j < l.length := by omega
    rcases hhi with hn | hge
    · omega
    · have hh : idx < l.length := by omega
      rw [ltAt_eq l d _ hh, hcmp _ hh] at hge
      have hge' : (compare (rank d) (rank l[idx])).isLE = true := by
        apply OrientedCmp.isLE_of_isGE
        cases hc : compare (rank l[idx]) (rank d) <;> simp_all
      exact TransCmp.isLE_trans hge' (sorted_at hs hh hjl (by omega))

theorem distinct_insert {l : List Input} {d : Input} (hk : DistinctK l) (i : Nat)
    (hno : ∀ e ∈ l, e.equalKeys d = false) : DistinctK (insertAt l i d) := by
  apply pairwise_insertAt hk
  · intro a ha; exact hno a (List.mem_of_mem_take ha)
  · intro b hb; exact equalKeys_false_symm (hno b (List.mem_of_mem_drop hb))

/-- the invariant of the five tables and the ghost list of accepted declarations -/
structure Inv (db : DB) : Prop where
  exclNodup : (db.excl.map (·.1)).Nodup
  xor : ∀ t, ¬ (db.hasExcl t = true ∧ db.hasShared t = true)
  keys : NodupKeys db.inputs
  sorted : ∀ c, SortedK (db.getInputs c)
  distinct : ∀ c, DistinctK (db.getInputs c)
  lookupMem : ∀ ns typ c, c ∈ db.lookupFor ns typ ↔
    ∃ i ∈ db.getInputs c, i.ns = ns ∧ i.typ = typ ∧ i.id = none
  lookupNodup : ∀ ns typ, (db.lookupFor ns typ).Nodup
  lookupIDMem : ∀ ns typ id c, c ∈ db.lookupIDFor ns typ id ↔
    ∃ i ∈ db.getInputs c, i.ns = ns ∧ i.typ = typ ∧ i.id = some id
  lookupIDNodup : ∀ ns typ id, (db.lookupIDFor ns typ id).Nodup
  accOut : ∀ c o, (c, Decl.out o) ∈ db.acc ↔
    (o.kind = 0 ∧ (o.typ, c) ∈ db.excl) ∨ (o.kind = 1 ∧ (o.typ, c) ∈ db.shared)
  accInp : ∀ c i, (c, Decl.inp i) ∈ db.acc ↔ i ∈ db.getInputs c

theorem inv_empty : Inv DB.empty := by
  constructor <;> simp [DB.empty, DB.hasExcl, DB.hasShared, NodupKeys, DB.getInputs, alGet, SortedK, DistinctK,
    DB.lookupFor, DB.lookupIDFor]

theorem hasExcl_iff (db : DB) (t : String) : db.hasExcl t = true ↔ t ∈ db.excl.map (·.1) := by
  simp [DB.hasExcl]

theorem hasShared_iff (db : DB) (t : String) : db.hasShared t = true ↔ t ∈ db.shared.map (·.1) := by
  simp [DB.hasShared]

/-- a rejected table operation changes nothing -/
theorem addOutput_fail {db : DB} {c : String} {o : Output} (h : (addOutput db c o).2 = false) :
    (addOutput db c o).1 = db := by
  unfold addOutput at *
  by_cases h1 : db.hasExcl o.typ = true
  · rw [if_pos h1]
  · rw [if_neg h1] at h ⊢
    by_cases hk0 : o.kind = 0
    · rw [if_pos hk0] at h ⊢
      by_cases h2 : db.hasShared o.typ = true
      · rw [if_pos h2]
      · rw [if_neg h2] at h; simp at h
    · rw [if_neg hk0] at h ⊢
      by_cases hk1 : o.kind = 1
      · rw [if_pos hk1] at h ⊢
        by_cases h3 : (db.shared.any fun p => decide (p.1 = o.typ ∧ p.2 = c)) = true
        · rw [if_pos h3]
        · rw [if_neg h3] at h; simp at h
      · rw [if_neg hk1] at h; simp at h

theorem inv_addOutput {db : DB} (hi : Inv db) (c : String) (o : Output) : Inv (addOutput db c o).1 := by
  unfold addOutput
  by_cases h1 : db.hasExcl o.typ = true
  · simpa [h1] using hi
  · simp only [h1, Bool.false_eq_true, if_false]
    have h1' : o.typ ∉ db.excl.map (·.1) := fun h => h1 ((hasExcl_iff _ _).2 h)
    by_cases hk0 : o.kind = 0
    · simp only [hk0, if_true]
      by_cases h2 : db.hasShared o.typ = true
      · simpa [h2] using hi
      · simp only [h2, Bool.false_eq_true, if_false]
        constructor
        · simp only [List.map_append, List.map_cons, List.map_nil]
          rw [List.nodup_append]
          refine ⟨hi.exclNodup, by simp, ?_⟩
          intro a ha b hb
          simp at hb; subst hb
          intro e; subst e; exact h1' ha
        · intro t ⟨he, hs⟩
          simp only [DB.hasExcl, DB.hasShared, List.any_append, Bool.or_eq_true] at he hs
          rcases he with he | he
          · exact hi.xor t ⟨he, hs⟩
          · simp at he; subst he; exact h2 hs
        · exact hi.keys
        · exact hi.sorted
        · exact hi.distinct
        · exact hi.lookupMem
        · exact hi.lookupNodup
        · exact hi.lookupIDMem
        · exact hi.lookupIDNodup
        · intro c' o'
          simp only [List.mem_append, List.mem_singleton, Prod.mk.injEq, Decl.out.injEq]
          rw [hi.accOut]
          constructor
          · rintro (h | ⟨rfl, rfl⟩)
            · rcases h with h | h
              · exact Or.inl ⟨h.1, Or.inl h.2⟩
              · exact Or.inr h
            · exact Or.inl ⟨hk0, Or.inr ⟨rfl, rfl⟩⟩
          · rintro (⟨hk, h | ⟨ht, hc⟩⟩ | h)
            · exact Or.inl (Or.inl ⟨hk, h⟩)
            · right
              refine ⟨hc, ?_⟩
              cases o; cases o'; simp_all
            · exact Or.inl (Or.inr h)
        · intro c' i
          simp only [List.mem_append, List.mem_singleton, Prod.mk.injEq, reduceCtorEq, and_false, or_false]
          exact hi.accInp c' i
    · simp only [hk0, if_false]
      by_cases hk1 : o.kind = 1
      · simp only [hk1, if_true]
        by_cases h3 : (db.shared.any fun p => decide (p.1 = o.typ ∧ p.2 = c)) = true
        · rw [if_pos h3]; exact hi
        · rw [if_neg h3]
          constructor
          · exact hi.exclNodup
          · intro t ⟨he, hs⟩
            simp only [DB.hasExcl, DB.hasShared, List.any_append, Bool.or_eq_true] at he hs
            rcases hs with hs | hs
            · exact hi.xor t ⟨he, hs⟩
            · simp at hs; subst hs; exact h1 he
          · exact hi.keys
          · exact hi.sorted
          · exact hi.distinct
          · exact hi.lookupMem
          · exact hi.lookupNodup
          · exact hi.lookupIDMem
          · exact hi.lookupIDNodup
          · intro c' o'
            simp only [List.mem_append, List.mem_singleton, Prod.mk.injEq, Decl.out.injEq]
            rw [hi.accOut]
            constructor
            · rintro (h | ⟨rfl, rfl⟩)
              · rcases h with h | h
                · exact Or.inl h
                · exact Or.inr ⟨h.1, Or.inl h.2⟩
              · exact Or.inr ⟨hk1, Or.inr ⟨rfl, rfl⟩⟩
            · rintro (h | ⟨hk, h | ⟨ht, hc⟩⟩)
              · exact Or.inl (Or.inl h)
              · exact Or.inl (Or.inr ⟨hk, h⟩)
              · right
                refine ⟨hc, ?_⟩
                cases o; cases o'; simp_all
          · intro c' i
            simp only [List.mem_append, List.mem_singleton, Prod.mk.injEq, reduceCtorEq, and_false, or_false]
            exact hi.accInp c' i
      · simpa [hk1] using hi

theorem exists_insertAt (l : List Input) (i : Nat) (d : Input) (P : Input → Prop) :
    (∃ x ∈ insertAt l i d, P x) ↔ P d ∨ ∃ x ∈ l, P x := by
  constructor
  · rintro ⟨x, hx, hp⟩
    rcases (mem_insertAt l i d x).mp hx with rfl | hx
    · exact Or.inl hp
    · exact Or.inr ⟨x, hx, hp⟩
  · rintro (hp | ⟨x, hx, hp⟩)
    · exact ⟨d, (mem_insertAt l i d d).mpr (Or.inl rfl), hp⟩
    · exact ⟨x, (mem_insertAt l i d x).mpr (Or.inr hx), hp⟩

theorem addInput_fail {db : DB} {c : String} {d : Input} (h : (addInput db c d).2 = false) :
    (addInput db c d).1 = db := by
  unfold addInput at *
  by_cases hn : (nearHit (db.getInputs c) (searchInputs (db.getInputs c) d) d).isSome = true
  · simp only [hn, if_true]
  · simp only [hn] at h
    cases hid : d.id <;> simp [hid] at h

/-- in a state satisfying the invariant, the database accepts an input iff the controller
    has no input with the same keys: conflicting inputs are ALWAYS rejected -/
theorem addInput_ok_iff {db : DB} (hi : Inv db) (c : String) (d : Input) :
    (addInput db c d).2 = true ↔ ∀ e ∈ db.getInputs c, e.equalKeys d = false := by
  have hcomp := neighbourhood_check_complete (db.getInputs c) d (hi.sorted c) (hi.distinct c)
  unfold addInput
  by_cases hn : (nearHit (db.getInputs c) (searchInputs (db.getInputs c) d) d).isSome = true
  · simp only [hn, if_true]
    obtain ⟨e, he, hk⟩ := hcomp.mp hn
    constructor
    · intro h; simp at h
    · intro h; rw [h e he] at hk; simp at hk
  · simp only [hn]
    have : ∀ e ∈ db.getInputs c, e.equalKeys d = false := by
      intro e he
      cases hk : e.equalKeys d with
      | false => rfl
      | true => exact absurd (hcomp.mpr ⟨e, he, hk⟩) hn
    cases hid : d.id <;> simp <;> exact this

theorem inv_addInput_aux {db db' : DB} (hi : Inv db) (c : String) (d : Input)
    (hno : ∀ e ∈ db.getInputs c, e.equalKeys d = false)
    (hin : db'.inputs = alPut db.inputs c (insertAt (db.getInputs c) (searchInputs (db.getInputs c) d) d))
    (hex : db'.excl = db.excl) (hsh : db'.shared = db.shared)
    (hacc : db'.acc = db.acc ++ [(c, Decl.inp d)])
    (hlk : (d.id = none ∧ db'.lookup = db.lookup ++ [((d.ns, d.typ), c)] ∧ db'.lookupID = db.lookupID) ∨
      (∃ id, d.id = some id ∧ db'.lookup = db.lookup ∧ db'.lookupID = db.lookupID ++ [((d.ns, d.typ, id), c)])) :
    Inv db' := by
  have hg := fun c' => getInputs_put db c c' _ db' hin
  have hkeys : ∀ e ∈ db.getInputs c, ¬ (e.ns = d.ns ∧ e.typ = d.typ ∧ e.id = d.id) := by
    intro e he; exact (equalKeys_false_iff e d).mp (hno e he)
  constructor
  · rw [hex]; exact hi.exclNodup
  · intro t; simp only [DB.hasExcl, DB.hasShared, hex, hsh]; exact hi.xor t
  · rw [hin]; exact nodupKeys_alPut hi.keys _ _
  · intro c'
    rw [hg c']
    by_cases hc : c' = c
    · subst hc; simp only [if_true]; exact sorted_insert (hi.sorted c') hno
    · simp only [hc, if_false]; exact hi.sorted c'
  · intro c'
    rw [hg c']
    by_cases hc : c' = c
    · subst hc; simp only [if_true]; exact distinct_insert (hi.distinct c') _ hno
    · simp only [hc, if_false]; exact hi.distinct c'
  · -- lookupMem
    intro ns typ c'
    rw [lookupFor_eq, hg c']
    rcases hlk with ⟨hid, hl, _⟩ | ⟨id, hid, hl, _⟩
    · rw [hl, slice_append_one, List.mem_append, ← lookupFor_eq, hi.lookupMem]
      by_cases hc : c' = c
      · subst hc
        simp only [if_true, exists_insertAt]
        by_cases hk : (d.ns, d.typ) = (ns, typ)
        · simp only [hk, if_true, List.mem_singleton, true_or, or_true]
          obtain ⟨h1, h2⟩ := Prod.mk.inj hk
          simp [h1, h2, hid]
        · simp only [hk, if_false, List.not_mem_nil, or_false]
          have : ¬ (d.ns = ns ∧ d.typ = typ ∧ d.id = none) := fun h => hk (by rw [h.1, h.2.1])
          simp [this]
      · simp only [hc, if_false]
        by_cases hk : (d.ns, d.typ) = (ns, typ) <;> simp [hk, hc]
    · rw [hl, ← lookupFor_eq, hi.lookupMem]
      by_cases hc : c' = c
      · subst hc
        simp only [if_true, exists_insertAt, hid]
        simp
      · simp only [hc, if_false]
  · -- lookupNodup
    intro ns typ
    rw [lookupFor_eq]
    rcases hlk with ⟨hid, hl, _⟩ | ⟨id, hid, hl, _⟩
    · rw [hl, slice_append_one]
      by_cases hk : (d.ns, d.typ) = (ns, typ)
      · simp only [hk, if_true]
        rw [List.nodup_append]
        refine ⟨hi.lookupNodup ns typ, by simp, ?_⟩
        intro a ha b hb
        simp at hb; subst hb
        intro e; subst e
        obtain ⟨i, hil, h1, h2, h3⟩ := (hi.lookupMem ns typ a).mp ha
        obtain ⟨k1, k2⟩ := Prod.mk.inj hk
        exact hkeys i hil ⟨h1.trans k1.symm, h2.trans k2.symm, h3.trans hid.symm⟩
      · simp only [hk, if_false, List.append_nil]; exact hi.lookupNodup ns typ
    · rw [hl]; exact hi.lookupNodup ns typ
  · -- lookupIDMem
    intro ns typ id' c'
    rw [lookupIDFor_eq, hg c']
    rcases hlk with ⟨hid, _, hl⟩ | ⟨id, hid, _, hl⟩
    · rw [hl, ← lookupIDFor_eq, hi.lookupIDMem]
      by_cases hc : c' = c
      · subst hc
        simp only [if_true, exists_insertAt, hid]
        simp
      · simp only [hc, if_false]
    · rw [hl, slice_append_one, List.mem_append, ← lookupIDFor_eq, hi.lookupIDMem]
      by_cases hc : c' = c
      · subst hc
        simp only [if_true, exists_insertAt]
        by_cases hk : (d.ns, d.typ, id) = (ns, typ, id')
        · simp only [hk, if_true, List.mem_singleton, true_or, or_true]
          obtain ⟨h1, h23⟩ := Prod.mk.inj hk
          obtain ⟨h2, h3⟩ := Prod.mk.inj h23
          simp [h1, h2, hid, h3]
        · simp only [hk, if_false, List.not_mem_nil, or_false]
          have : ¬ (d.ns = ns ∧ d.typ = typ ∧ d.id = some id') := by
            intro h
            apply hk
            rw [h.1, h.2.1]
            have := h.2.2
            rw [hid] at this
            rw [Option.some.inj this]
          simp [this]
      · simp only [hc, if_false]
        by_cases hk : (d.ns, d.typ, id) = (ns, typ, id') <;> simp [hk, hc]
  · -- lookupIDNodup
    intro ns typ id'
    rw [lookupIDFor_eq]
    rcases hlk with ⟨hid, _, hl⟩ | ⟨id, hid, _, hl⟩
    · rw [hl]; exact hi.lookupIDNodup ns typ id'
    · rw [hl, slice_append_one]
      by_cases hk : (d.ns, d.typ, id) = (ns, typ, id')
      · simp only [hk, if_true]
        rw [List.nodup_append]
        refine ⟨hi.lookupIDNodup ns typ id', by simp, ?_⟩
        intro a ha b hb
        simp at hb; subst hb
        intro e; subst e
        obtain ⟨i, hil, h1, h2, h3⟩ := (hi.lookupIDMem ns typ id' a).mp ha
        obtain ⟨k1, k23⟩ := Prod.mk.inj hk
        obtain ⟨k2, k3⟩ := Prod.mk.inj k23
        exact hkeys i hil ⟨h1.trans k1.symm, h2.trans k2.symm, by rw [h3, hid, k3]⟩
      · simp only [hk, if_false, List.append_nil]; exact hi.lookupIDNodup ns typ id'
  · intro c' o
    rw [hacc, hex, hsh]
    simp only [List.mem_append, List.mem_singleton, Prod.mk.injEq, reduceCtorEq, and_false, or_false]
    exact hi.accOut c' o
  · intro c' i
    rw [hacc, hg c']
    simp only [List.mem_append, List.mem_singleton, Prod.mk.injEq, Decl.inp.injEq]
    rw [hi.accInp]
    by_cases hc : c' = c
    · subst hc
      simp only [if_true, mem_insertAt, true_and]
      exact Or.comm
    · simp [hc]

theorem inv_addInput {db : DB} (hi : Inv db) (c : String) (d : Input) : Inv (addInput db c d).1 := by
  by_cases hok : (addInput db c d).2 = true
  · have hno := (addInput_ok_iff hi c d).mp hok
    have hn : ¬ (nearHit (db.getInputs c) (searchInputs (db.getInputs c) d) d).isSome = true := by
      intro hn
      obtain ⟨e, he, hk⟩ := (neighbourhood_check_complete _ d (hi.sorted c) (hi.distinct c)).mp hn
      rw [hno e he] at hk; simp at hk
    unfold addInput
    simp only [hn]
    cases hid : d.id with
    | none =>
      exact inv_addInput_aux hi c d hno rfl rfl rfl rfl (Or.inl ⟨hid, rfl, rfl⟩)
    | some id =>
      exact inv_addInput_aux hi c d hno rfl rfl rfl rfl (Or.inr ⟨id, hid, rfl, rfl⟩)
  · rw [addInput_fail (by simpa using hok)]; exact hi

theorem deleteInput_fail {db : DB} {c : String} {d : Input} (h : (deleteInput db c d).2 = false) :
    (deleteInput db c d).1 = db := by
  unfold deleteInput at *
  cases hn : nearHit (db.getInputs c) (searchInputs (db.getInputs c) d) d with
  | none => simp only [hn]
  | some k =>
    simp only [hn] at h
    cases hid : d.id <;> simp [hid] at h

theorem inv_deleteInput_aux {db db' : DB} (hi : Inv db) (c : String) (d : Input) (k : Nat)
    (hk : k < (db.getInputs c).length) (he : (db.getInputs c)[k].equalKeys d = true)
    (hin : db'.inputs = alPut db.inputs c ((db.getInputs c).eraseIdx k))
    (hex : db'.excl = db.excl) (hsh : db'.shared = db.shared)
    (hacc : db'.acc = db.acc.filter (fun p => !accIsInputKey c d p))
    (hlk : (d.id = none ∧ db'.lookupID = db.lookupID ∧
        db'.lookup = db.lookup.filter (fun p => !(decide (p.1 = (d.ns, d.typ)) && decide (p.2 = c)))) ∨
      (∃ id, d.id = some id ∧ db'.lookup = db.lookup ∧
        db'.lookupID = db.lookupID.filter (fun p => !(decide (p.1 = (d.ns, d.typ, id)) && decide (p.2 = c))))) :
    Inv db' := by
  have hg := fun c' => getInputs_put db c c' _ db' hin
  have hmem := mem_eraseIdx_distinct (hi.distinct c) hk he
  have hkey : ∀ x : Input, x.ns = d.ns → x.typ = d.typ → x.id = d.id → x.equalKeys d = false → False := by
    intro x h1 h2 h3 h4
    rw [(equalKeys_iff x d).mpr ⟨h1, h2, h3⟩] at h4; simp at h4
  constructor
  · rw [hex]; exact hi.exclNodup
  · intro t; simp only [DB.hasExcl, DB.hasShared, hex, hsh]; exact hi.xor t
  · rw [hin]; exact nodupKeys_alPut hi.keys _ _
  · intro c'
    rw [hg c']
    by_cases hc : c' = c
    · subst hc; simp only [if_true]; exact List.Pairwise.sublist (List.eraseIdx_sublist _ _) (hi.sorted c')
    · simp only [hc, if_false]; exact hi.sorted c'
  · intro c'
    rw [hg c']
    by_cases hc : c' = c
    · subst hc; simp only [if_true]; exact List.Pairwise.sublist (List.eraseIdx_sublist _ _) (hi.distinct c')
    · simp only [hc, if_false]; exact hi.distinct c'
  · -- lookupMem
    intro ns typ c'
    rw [lookupFor_eq, hg c']
    rcases hlk with ⟨hid, _, hl⟩ | ⟨id, hid, hl, _⟩
    · rw [hl, slice_remove]
      by_cases hkk : (ns, typ) = (d.ns, d.typ)
      · obtain ⟨k1, k2⟩ := Prod.mk.inj hkk
        simp only [hkk, if_true, List.mem_filter, ← lookupFor_eq, hi.lookupMem]
        by_cases hc : c' = c
        · subst hc
          simp only [if_true, ne_eq, not_true_eq_false, decide_false, Bool.false_eq_true, and_false, false_iff]
          rintro ⟨x, hx, h1, h2, h3⟩
          obtain ⟨_, hx2⟩ := (hmem x).mp hx
          exact hkey x (h1.trans k1) (h2.trans k2) (h3.trans hid.symm) hx2
        · subst k1 k2; simp [hc]
      · simp only [hkk, if_false, ← lookupFor_eq, hi.lookupMem]
        by_cases hc : c' = c
        · subst hc
          simp only [if_true]
          constructor
          · rintro ⟨x, hx, h1, h2, h3⟩
            refine ⟨x, (hmem x).mpr ⟨hx, ?_⟩, h1, h2, h3⟩
            rw [equalKeys_false_iff]
            rintro ⟨e1, e2, _⟩
            exact hkk (by rw [← h1, ← h2, e1, e2])
          · rintro ⟨x, hx, hp⟩
            exact ⟨x, ((hmem x).mp hx).1, hp⟩
        · simp only [hc, if_false]
    · rw [hl, ← lookupFor_eq, hi.lookupMem]
      by_cases hc : c' = c
      · subst hc
        simp only [if_true]
        constructor
        · rintro ⟨x, hx, h1, h2, h3⟩
          refine ⟨x, (hmem x).mpr ⟨hx, ?_⟩, h1, h2, h3⟩
          rw [equalKeys_false_iff]
          rintro ⟨_, _, e3⟩
          rw [h3, hid] at e3; simp at e3
        · rintro ⟨x, hx, hp⟩
          exact ⟨x, ((hmem x).mp hx).1, hp⟩
      · simp only [hc, if_false]
  · -- lookupNodup
    intro ns typ
    rw [lookupFor_eq]
    rcases hlk with ⟨hid, _, hl⟩ | ⟨id, hid, hl, _⟩
    · rw [hl, slice_remove]
      by_cases hkk : (ns, typ) = (d.ns, d.typ)
      · simp only [hkk, if_true]
        exact (List.filter_sublist).nodup (hi.lookupNodup d.ns d.typ)
      · simp only [hkk, if_false]; exact hi.lookupNodup ns typ
    · rw [hl]; exact hi.lookupNodup ns typ
  · -- lookupIDMem
    intro ns typ id' c'
    rw [lookupIDFor_eq, hg c']
    rcases hlk with ⟨hid, hl, _⟩ | ⟨id, hid, _, hl⟩
    · rw [hl, ← lookupIDFor_eq, hi.lookupIDMem]
      by_cases hc : c' = c
      · subst hc
        simp only [if_true]
        constructor
        · rintro ⟨x, hx, h1, h2, h3⟩
          refine ⟨x, (hmem x).mpr ⟨hx, ?_⟩, h1, h2, h3⟩
          rw [equalKeys_false_iff]
          rintro ⟨_, _, e3⟩
          rw [h3, hid] at e3; simp at e3
        · rintro ⟨x, hx, hp⟩
          exact ⟨x, ((hmem x).mp hx).1, hp⟩
      · simp only [hc, if_false]
    · rw [hl, slice_remove]
      by_cases hkk : (ns, typ, id') = (d.ns, d.typ, id)
      · obtain ⟨k1, k23⟩ := Prod.mk.inj hkk
        obtain ⟨k2, k3⟩ := Prod.mk.inj k23
        simp only [hkk, if_true, List.mem_filter, ← lookupIDFor_eq, hi.lookupIDMem]
        by_cases hc : c' = c
        · subst hc
          simp only [if_true, ne_eq, not_true_eq_false, decide_false, Bool.false_eq_true, and_false, false_iff]
          rintro ⟨x, hx, h1, h2, h3⟩
          obtain ⟨_, hx2⟩ := (hmem x).mp hx
          exact hkey x (h1.trans k1) (h2.trans k2) (by rw [h3, hid, k3]) hx2
        · subst k1 k2 k3; simp [hc]
      · simp only [hkk, if_false, ← lookupIDFor_eq, hi.lookupIDMem]
        by_cases hc : c' = c
        · subst hc
          simp only [if_true]
          constructor
          · rintro ⟨x, hx, h1, h2, h3⟩
            refine ⟨x, (hmem x).mpr ⟨hx, ?_⟩, h1, h2, h3⟩
            rw [equalKeys_false_iff]
            rintro ⟨e1, e2, e3⟩
            apply hkk
            rw [h3, hid] at e3
            rw [← h1, ← h2, e1, e2, Option.some.inj e3]
          · rintro ⟨x, hx, hp⟩
            exact ⟨x, ((hmem x).mp hx).1, hp⟩
        · simp only [hc, if_false]
  · -- lookupIDNodup
    intro ns typ id'
    rw [lookupIDFor_eq]
    rcases hlk with ⟨hid, hl, _⟩ | ⟨id, hid, _, hl⟩
    · rw [hl]; exact hi.lookupIDNodup ns typ id'
    · rw [hl, slice_remove]
      by_cases hkk : (ns, typ, id') = (d.ns, d.typ, id)
      · simp only [hkk, if_true]
        exact (List.filter_sublist).nodup (hi.lookupIDNodup d.ns d.typ id)
      · simp only [hkk, if_false]; exact hi.lookupIDNodup ns typ id'
  · intro c' o
    rw [hacc, hex, hsh, List.mem_filter, hi.accOut]
    simp [accIsInputKey]
  · intro c' i
    rw [hacc, hg c', List.mem_filter, hi.accInp]
    by_cases hc : c' = c
    · subst hc
      simp only [if_true, hmem, accIsInputKey, decide_true, Bool.true_and, Bool.not_eq_true']
    · simp [hc, accIsInputKey]

theorem inv_deleteInput {db : DB} (hi : Inv db) (c : String) (d : Input) : Inv (deleteInput db c d).1 := by
  unfold deleteInput
  cases hn : nearHit (db.getInputs c) (searchInputs (db.getInputs c) d) d with
  | none => simp only [hn]; exact hi
  | some k =>
    obtain ⟨hk, he⟩ := keyAt_true (nearHit_some hn)
    simp only [hn]
    cases hid : d.id with
    | none => exact inv_deleteInput_aux hi c d k hk he rfl rfl rfl rfl (Or.inl ⟨hid, rfl, rfl⟩)
    | some id => exact inv_deleteInput_aux hi c d k hk he rfl rfl rfl rfl (Or.inr ⟨id, hid, rfl, rfl⟩)

/-! ## Part C — registration procedures are sequences of table operations -/

theorem addOutputs_induct (P : DB → Prop) (c : String)
    (hout : ∀ db o, P db → P (addOutput db c o).1) :
    ∀ (os : List Output) (db : DB), P db → P (addOutputs db c os).1 := by
  intro os
  induction os with
  | nil => intro db h; exact h
  | cons o os ih =>
    intro db h
    unfold addOutputs
    by_cases hr : (addOutput db c o).2 = true
    · simp only [hr, if_true]; exact ih _ (hout db o h)
    · simp only [hr]; exact hout db o h

theorem addInputsQ_induct (P : DB → Prop) (c : String)
    (hadd : ∀ db d, P db → P (addInput db c d).1) :
    ∀ (is : List Input) (db : DB), P db → P (addInputsQ db c is).1 := by
  intro is
  induction is with
  | nil => intro db h; exact h
  | cons i is ih =>
    intro db h
    unfold addInputsQ
    by_cases hk : Gen.DepDB.qRejectKinds.contains i.kind = true
    · simp only [hk, if_true]; exact h
    · simp only [hk]
      by_cases hr : (addInput db c i).2 = true
      · simp only [hr, if_true]; exact ih _ (hadd db i h)
      · simp only [hr]; exact hadd db i h

theorem mergeLoop_induct (P : DB → Prop) (c : String)
    (hadd : ∀ db d, P db → P (addInput db c d).1)
    (hdel : ∀ db d, P db → P (deleteInput db c d).1) :
    ∀ (fuel : Nat) (deps dbDeps : List Input) (db : DB), P db → P (mergeLoop c fuel deps dbDeps db).1 := by
  intro fuel
  induction fuel with
  | zero => intro deps dbDeps db h; exact h
  | succ f ih =>
    intro deps dbDeps db h
    cases deps with
    | nil =>
      cases dbDeps with
      | nil => exact h
      | cons dJ js =>
        simp only [mergeLoop]
        by_cases hr : (deleteInput db c dJ).2 = true
        · simp only [hr, if_true]; exact ih _ _ _ (hdel db dJ h)
        · simp only [hr]; exact hdel db dJ h
    | cons dI is =>
      cases dbDeps with
      | nil =>
        simp only [mergeLoop]
        by_cases hr : (addInput db c dI).2 = true
        · simp only [hr, if_true]; exact ih _ _ _ (hadd db dI h)
        · simp only [hr]; exact hadd db dI h
      | cons dJ js =>
        simp only [mergeLoop]
        by_cases he : dI = dJ
        · simp only [he, if_true]; exact ih _ _ _ h
        · simp only [he, if_false]
          by_cases hk : dI.equalKeys dJ = true
          · simp only [hk, if_true]
            by_cases hr : (deleteInput db c dJ).2 = true
            · simp only [hr, if_true]
              by_cases hr2 : (addInput (deleteInput db c dJ).1 c dI).2 = true
              · simp only [hr2, if_true]; exact ih _ _ _ (hadd _ dI (hdel db dJ h))
              · simp only [hr2]; exact hadd _ dI (hdel db dJ h)
            · simp only [hr]; exact hdel db dJ h
          · simp only [hk]
            by_cases hl : (dI.cmp dJ == .lt) = true
            · simp only [hl, if_true]
              by_cases hr : (addInput db c dI).2 = true
              · simp only [hr, if_true]; exact ih _ _ _ (hadd db dI h)
              · simp only [hr]; exact hadd db dI h
            · simp only [hl]
              by_cases hr : (deleteInput db c dJ).2 = true
              · simp only [hr, if_true]; exact ih _ _ _ (hdel db dJ h)
              · simp only [hr]; exact hdel db dJ h

theorem updateInputsDB_induct (P : DB → Prop) (c : String)
    (hadd : ∀ db d, P db → P (addInput db c d).1)
    (hdel : ∀ db d, P db → P (deleteInput db c d).1)
    (inputs : List Input) (db : DB) (h : P db) : P (updateInputsDB db c inputs).1 := by
  unfold updateInputsDB
  simp only
  split
  · exact h
  · split <;> exact mergeLoop_induct P c hadd hdel _ _ _ _ h

theorem failWith_P (P : DB → Prop) (rb : Bool) (s : Sys) (db' : DB) (h : P s.db) (h' : P db') :
    P (failWith rb s db').1.db := by
  cases rb <;> simpa [failWith]

theorem bool_false_of_not_true {b : Bool} (h : ¬ b = true) : b = false := by simpa using h

/-- every procedure of the model only ever applies table operations -/
theorem stepWith_induct (P : DB → Prop)
    (hout : ∀ db c o, P db → P (addOutput db c o).1)
    (hadd : ∀ db c d, P db → P (addInput db c d).1)
    (hdel : ∀ db c d, P db → P (deleteInput db c d).1)
    (rb : Bool) (s : Sys) (op : Op) (h : P s.db) : P (stepWith rb s op).1.db := by
  have hR : ∀ name inputs outputs, P (registerR rb s name inputs outputs).1.db := by
    intro name inputs outputs
    have h1 := addOutputs_induct P name (fun db o => hout db name o) outputs s.db h
    have h2 := updateInputsDB_induct P name (fun db d => hadd db name d) (fun db d => hdel db name d) inputs _ h1
    unfold registerR
    by_cases h0 : s.registered name = true
    · rw [if_pos h0]; exact h
    · rw [if_neg h0]
      simp only
      by_cases b1 : (addOutputs s.db name outputs).2 = true
      · simp only [b1, Bool.not_true, Bool.false_eq_true, if_false]
        by_cases b2 : (updateInputsDB (addOutputs s.db name outputs).1 name inputs).2 = true
        · simp only [b2, Bool.not_true, Bool.false_eq_true, if_false]; exact h2
        · simp only [bool_false_of_not_true b2, Bool.not_false, if_true]; exact failWith_P P rb s _ h h2
      · simp only [bool_false_of_not_true b1, Bool.not_false, if_true]; exact failWith_P P rb s _ h h1
  have hQ : ∀ name inputs outputs conc, P (registerQ rb s name inputs outputs conc).1.db := by
    intro name inputs outputs conc
    have h1 := addOutputs_induct P name (fun db o => hout db name o) outputs s.db h
    have h2 := addInputsQ_induct P name (fun db d => hadd db name d) inputs _ h1
    unfold registerQ
    by_cases h0 : s.registered name = true
    · rw [if_pos h0]; exact h
    · rw [if_neg h0]
      by_cases hc : (Gen.DepDB.qConcurrencyBeforeWrites && conc == some 0) = true
      · rw [if_pos hc]; exact h
      · rw [if_neg hc]
        simp only
        by_cases b1 : (addOutputs s.db name outputs).2 = true
        · simp only [b1, Bool.not_true, Bool.false_eq_true, if_false]
          by_cases b2 : (addInputsQ (addOutputs s.db name outputs).1 name inputs).2 = true
          · simp only [b2, Bool.not_true, Bool.false_eq_true, if_false]
            by_cases hc2 : (!Gen.DepDB.qConcurrencyBeforeWrites && conc == some 0) = true
            · rw [if_pos hc2]; exact failWith_P P rb s _ h h2
            · rw [if_neg hc2]; exact h2
          · simp only [bool_false_of_not_true b2, Bool.not_false, if_true]; exact failWith_P P rb s _ h h2
        · simp only [bool_false_of_not_true b1, Bool.not_false, if_true]; exact failWith_P P rb s _ h h1
  cases op with
  | register n i o => exact hR n i o
  | registerQ n i o c => exact hQ n i o c
  | updateInputs n i =>
    simp only [stepWith, updateInputs]
    split
    · exact updateInputsDB_induct P n (fun db d => hadd db n d) (fun db d => hdel db n d) i _ h
    · exact h
  | start =>
    simp only [stepWith]
    split <;> exact h

theorem runWith_induct (P : DB → Prop)
    (hout : ∀ db c o, P db → P (addOutput db c o).1)
    (hadd : ∀ db c d, P db → P (addInput db c d).1)
    (hdel : ∀ db c d, P db → P (deleteInput db c d).1)
    (rb : Bool) : ∀ (ops : List Op) (s : Sys), P s.db → P (runWith rb s ops).db := by
  intro ops
  induction ops with
  | nil => intro s h; exact h
  | cons op ops ih => intro s h; exact ih _ (stepWith_induct P hout hadd hdel rb s op h)

/-- the invariant holds after ANY history, with or without rollback of failed registrations -/
theorem inv_runWith (rb : Bool) (ops : List Op) (s : Sys) (h : Inv s.db) : Inv (runWith rb s ops).db :=
  runWith_induct Inv (fun _ c o h => inv_addOutput h c o) (fun _ c d h => inv_addInput h c d)
    (fun _ c d h => inv_deleteInput h c d) rb ops s h

theorem inv_run (ops : List Op) : Inv (run Sys.init ops).db :=
  inv_runWith _ ops Sys.init inv_empty

theorem runWith_append (rb : Bool) (s : Sys) (a b : List Op) :
    runWith rb s (a ++ b) = runWith rb (runWith rb s a) b := by
  induction a generalizing s with
  | nil => rfl
  | cons op a ih => simp only [List.cons_append, runWith, ih]

/-! ## Part D — the property theorems (all histories: `∀ ops : List Op`) -/

theorem excl_addInput (db : DB) (c : String) (d : Input) : (addInput db c d).1.excl = db.excl := by
  unfold addInput
  simp only
  split
  · rfl
  · cases d.id <;> rfl

theorem excl_deleteInput (db : DB) (c : String) (d : Input) : (deleteInput db c d).1.excl = db.excl := by
  unfold deleteInput
  simp only
  split
  · rfl
  · cases d.id <;> rfl

theorem excl_addOutput_mono (db : DB) (c : String) (o : Output) (p : String × String)
    (h : p ∈ db.excl) : p ∈ (addOutput db c o).1.excl := by
  unfold addOutput
  split
  · exact h
  · split
    · split
      · exact h
      · exact List.mem_append_left _ h
    · split
      · split <;> exact h
      · exact h

theorem pair_unique {l : List (String × String)} (hn : (l.map (·.1)).Nodup) {t c1 c2 : String}
    (h1 : (t, c1) ∈ l) (h2 : (t, c2) ∈ l) : c1 = c2 := by
  induction l with
  | nil => simp at h1
  | cons p l ih =>
    simp only [List.map_cons, List.nodup_cons] at hn
    rcases List.mem_cons.mp h1 with e1 | m1 <;> rcases List.mem_cons.mp h2 with e2 | m2
    · rw [← e1] at e2; exact ((Prod.mk.inj e2).2).symm
    · subst e1; exact absurd (List.mem_map.mpr ⟨(t, c2), m2, rfl⟩) hn.1
    · subst e2; exact absurd (List.mem_map.mpr ⟨(t, c1), m1, rfl⟩) hn.1
    · exact ih hn.2 m1 m2

/-- **exclusive_unique.** At most one controller EVER holds a resource type as exclusive
    output: if `c1` holds `t` after some history and `c2` holds `t` after any continuation of
    it (including the empty one), then `c1 = c2`. Valid or invalid registrations, before or
    after start, with or without rollback. -/
theorem exclusive_unique (ops more : List Op) (t c1 c2 : String)
    (h1 : (t, c1) ∈ (run Sys.init ops).db.excl)
    (h2 : (t, c2) ∈ (run Sys.init (ops ++ more)).db.excl) : c1 = c2 := by
  unfold run at *
  rw [runWith_append] at h2
  have hkeep : (t, c1) ∈ (runWith Gen.DepDB.registrationRollsBack
      (runWith Gen.DepDB.registrationRollsBack Sys.init ops) more).db.excl :=
    runWith_induct (fun db => (t, c1) ∈ db.excl)
      (fun db c o h => excl_addOutput_mono db c o _ h)
      (fun db c d h => by rw [excl_addInput]; exact h)
      (fun db c d h => by rw [excl_deleteInput]; exact h) _ more _ h1
  have hinv := inv_runWith Gen.DepDB.registrationRollsBack more _
    (inv_runWith Gen.DepDB.registrationRollsBack ops Sys.init inv_empty)
  exact pair_unique hinv.exclNodup hkeep h2

/-- what GetResourceExclusiveController answers is that unique holder -/
theorem getExclusive_eq {db : DB} (hi : Inv db) {t c : String} (h : (t, c) ∈ db.excl) :
    getExclusive db t = c := by
  unfold getExclusive
  cases hf : db.excl.find? (fun p => p.1 = t) with
  | none =>
    have := List.find?_eq_none.mp hf (t, c) h
    simp at this
  | some p =>
    have hm := List.mem_of_find?_eq_some hf
    have hp := List.find?_some hf
    simp at hp
    obtain ⟨a, b⟩ := p
    simp only at hp; subst hp
    exact pair_unique hi.exclNodup hm h

/-- **exclusive_xor_shared.** After any history no resource type has both an exclusive and a
    shared claim. -/
theorem exclusive_xor_shared (ops : List Op) (t : String) :
    ¬ ((run Sys.init ops).db.hasExcl t = true ∧ (run Sys.init ops).db.hasShared t = true) :=
  (inv_run ops).xor t

/-- non-vacuity of the two output theorems: a history that ends with both kinds of claims -/
example : (run Sys.init [.register "a" [] [⟨"T", 0⟩, ⟨"U", 1⟩], .registerQ "b" [] [⟨"U", 1⟩] none]).db.excl
      = [("T", "a")] ∧
    (run Sys.init [.register "a" [] [⟨"T", 0⟩, ⟨"U", 1⟩], .registerQ "b" [] [⟨"U", 1⟩] none]).db.shared
      = [("U", "a"), ("U", "b")] := by decide

/-- **conflicting_inputs_rejected** (corollary of `neighbourhood_check_complete`): after any
    history the database accepts a new input of controller `c` iff `c` has no input with the
    same (namespace, type, id). -/
theorem conflicting_inputs_rejected (ops : List Op) (c : String) (d : Input) :
    (addInput (run Sys.init ops).db c d).2 = true ↔
      ∀ e ∈ (run Sys.init ops).db.getInputs c, e.equalKeys d = false :=
  addInput_ok_iff (inv_run ops) c d

/-! ### export -/

theorem mem_insertBy {α} (lt : α → α → Bool) (a x : α) (l : List α) :
    x ∈ insertBy lt a l ↔ x = a ∨ x ∈ l := by
  induction l with
  | nil => simp [insertBy]
  | cons y ys ih =>
    unfold insertBy
    split
    · simp
    · simp only [List.mem_cons, ih]
      constructor
      · rintro (h | h | h)
        · exact Or.inr (Or.inl h)
        · exact Or.inl h
        · exact Or.inr (Or.inr h)
      · rintro (h | h | h)
        · exact Or.inr (Or.inl h)
        · exact Or.inl h
        · exact Or.inr (Or.inr h)

theorem mem_sortBy {α} (lt : α → α → Bool) (x : α) (l : List α) : x ∈ sortBy lt l ↔ x ∈ l := by
  unfold sortBy
  induction l with
  | nil => simp
  | cons y ys ih => simp only [List.foldr_cons, mem_insertBy, ih, List.mem_cons]

theorem mem_getInputs_iff {db : DB} (hi : Inv db) (c : String) (i : Input) :
    i ∈ db.getInputs c ↔ ∃ l, (c, l) ∈ db.inputs ∧ i ∈ l := by
  unfold DB.getInputs
  constructor
  · intro h
    cases hg : alGet db.inputs c with
    | none => rw [hg] at h; simp at h
    | some l => rw [hg] at h; exact ⟨l, mem_of_alGet hg, h⟩
  · rintro ⟨l, hl, hil⟩
    rw [alGet_of_mem hi.keys hl]; exact hil

theorem export_mem_iff {db : DB} (hi : Inv db) (e : Edge) :
    e ∈ exportGraph db ↔ ∃ p ∈ db.acc, edgeOfDecl p.1 p.2 = e := by
  unfold exportGraph
  rw [mem_sortBy]
  unfold exportEdges
  simp only [List.mem_append, List.mem_map, List.mem_flatMap]
  constructor
  · rintro ((⟨p, hp, rfl⟩ | ⟨p, hp, rfl⟩) | ⟨p, hp, i, hil, rfl⟩)
    · exact ⟨(p.2, .out ⟨p.1, 0⟩), (hi.accOut _ _).mpr (Or.inl ⟨rfl, hp⟩), rfl⟩
    · exact ⟨(p.2, .out ⟨p.1, 1⟩), (hi.accOut _ _).mpr (Or.inr ⟨rfl, hp⟩), rfl⟩
    · exact ⟨(p.1, .inp i), (hi.accInp _ _).mpr ((mem_getInputs_iff hi _ _).mpr ⟨p.2, hp, hil⟩), rfl⟩
  · rintro ⟨⟨c, dcl⟩, hp, rfl⟩
    cases dcl with
    | out o =>
      rcases (hi.accOut c o).mp hp with ⟨hk, hm⟩ | ⟨hk, hm⟩
      · left; left
        refine ⟨(o.typ, c), hm, ?_⟩
        simp [edgeOfDecl, hk]
      · left; right
        refine ⟨(o.typ, c), hm, ?_⟩
        simp [edgeOfDecl, hk]
    | inp i =>
      right
      obtain ⟨l, hl, hil⟩ := (mem_getInputs_iff hi c i).mp ((hi.accInp c i).mp hp)
      exact ⟨(c, l), hl, i, hil, rfl⟩

/-- **export_is_accepted.** After any history the exported dependency graph consists of
    exactly the edges of the declarations the database accepted and has not deleted since
    (`acc` is the ghost log kept by the model's table operations). -/
theorem export_is_accepted (ops : List Op) (e : Edge) :
    e ∈ exportGraph (run Sys.init ops).db ↔ ∃ p ∈ (run Sys.init ops).db.acc, edgeOfDecl p.1 p.2 = e :=
  export_mem_iff (inv_run ops) e

/-- ... and the ghost log itself holds a declaration iff it is in the tables: outputs by
    type and mode, inputs in the controller's slice. -/
theorem accepted_iff_tables (ops : List Op) (c : String) :
    (∀ o, (c, Decl.out o) ∈ (run Sys.init ops).db.acc ↔
      (o.kind = 0 ∧ (o.typ, c) ∈ (run Sys.init ops).db.excl) ∨
      (o.kind = 1 ∧ (o.typ, c) ∈ (run Sys.init ops).db.shared)) ∧
    (∀ i, (c, Decl.inp i) ∈ (run Sys.init ops).db.acc ↔ i ∈ (run Sys.init ops).db.getInputs c) :=
  ⟨(inv_run ops).accOut c, (inv_run ops).accInp c⟩

/-! ### notifications -/

/-- **dependents_exact.** After any history, GetDependentControllers for a change of
    (ns,typ,id) answers `kindWide ++ byID` where `kindWide` lists exactly the controllers
    with an accepted input (ns,typ,absent), each once, and `byID` exactly the controllers
    with an accepted input (ns,typ,id), each once. (A controller that has BOTH appears
    twice — once per matching input; delivery is idempotent.) -/
theorem dependents_exact (ops : List Op) (ns typ id : String) :
    ∃ kindWide byID,
      getDependents (run Sys.init ops).db ns typ (some id) = some (kindWide ++ byID) ∧
      kindWide.Nodup ∧ byID.Nodup ∧
      (∀ c, c ∈ kindWide ↔ ∃ i, (c, Decl.inp i) ∈ (run Sys.init ops).db.acc ∧
        i.ns = ns ∧ i.typ = typ ∧ i.id = none) ∧
      (∀ c, c ∈ byID ↔ ∃ i, (c, Decl.inp i) ∈ (run Sys.init ops).db.acc ∧
        i.ns = ns ∧ i.typ = typ ∧ i.id = some id) := by
  have hi := inv_run ops
  refine ⟨_, _, rfl, hi.lookupNodup ns typ, hi.lookupIDNodup ns typ id, ?_, ?_⟩
  · intro c
    rw [hi.lookupMem]
    constructor
    · rintro ⟨i, hm, hp⟩; exact ⟨i, (hi.accInp c i).mpr hm, hp⟩
    · rintro ⟨i, hm, hp⟩; exact ⟨i, (hi.accInp c i).mp hm, hp⟩
  · intro c
    rw [hi.lookupIDMem]
    constructor
    · rintro ⟨i, hm, hp⟩; exact ⟨i, (hi.accInp c i).mpr hm, hp⟩
    · rintro ⟨i, hm, hp⟩; exact ⟨i, (hi.accInp c i).mp hm, hp⟩

/-- membership form: a controller is notified iff it has a matching accepted input -/
theorem dependents_mem (ops : List Op) (ns typ id c : String) :
    (∃ l, getDependents (run Sys.init ops).db ns typ (some id) = some l ∧ c ∈ l) ↔
      ∃ i, (c, Decl.inp i) ∈ (run Sys.init ops).db.acc ∧ i.ns = ns ∧ i.typ = typ ∧
        (i.id = none ∨ i.id = some id) := by
  obtain ⟨kw, bi, hg, _, _, h1, h2⟩ := dependents_exact ops ns typ id
  rw [hg]
  constructor
  · rintro ⟨l, hl, hc⟩
    rw [← Option.some.inj hl, List.mem_append] at hc
    rcases hc with hc | hc
    · obtain ⟨i, a, b, c', d⟩ := (h1 c).mp hc; exact ⟨i, a, b, c', Or.inl d⟩
    · obtain ⟨i, a, b, c', d⟩ := (h2 c).mp hc; exact ⟨i, a, b, c', Or.inr d⟩
  · rintro ⟨i, a, b, c', d | d⟩
    · exact ⟨_, rfl, List.mem_append_left _ ((h1 c).mpr ⟨i, a, b, c', d⟩)⟩
    · exact ⟨_, rfl, List.mem_append_right _ ((h2 c).mpr ⟨i, a, b, c', d⟩)⟩

/-- non-vacuity: a controller with a kind-wide and a by-ID input on the same kind is listed twice -/
example : getDependents (run Sys.init [.register "a" [⟨"n", "T", none, 0⟩, ⟨"n", "T", some "x", 1⟩] [],
      .registerQ "b" [⟨"n", "T", some "x", 3⟩] [] none]).db "n" "T" (some "x") = some ["a", "a", "b"] := by decide

/-! ## Part E — rejected registrations -/

def isRegistration : Op → Bool
  | .register .. => true
  | .registerQ .. => true
  | _ => false

theorem sys_with_db (s : Sys) : { s with db := s.db } = s := by cases s; rfl

theorem failWith_true (s : Sys) (db' : DB) : failWith true s db' = (s, .rejected) := rfl

/-- With rollback, the full property holds: a rejected registration returns the very same
    state — every table, hence every later lookup, notification and registration. -/
theorem rejected_is_noop_of_rollback (s : Sys) (op : Op) (hreg : isRegistration op = true)
    (h : (stepWith true s op).2 = .rejected) : (stepWith true s op).1 = s := by
  cases op with
  | register name inputs outputs =>
    simp only [stepWith] at h ⊢
    unfold registerR at h ⊢
    by_cases h0 : s.registered name = true
    · rw [if_pos h0]
    · rw [if_neg h0] at h ⊢
      simp only at h ⊢
      by_cases b1 : (addOutputs s.db name outputs).2 = true
      · simp only [b1, Bool.not_true, Bool.false_eq_true, if_false] at h ⊢
        by_cases b2 : (updateInputsDB (addOutputs s.db name outputs).1 name inputs).2 = true
        · simp only [b2, Bool.not_true, Bool.false_eq_true, if_false] at h
          exact absurd h (by simp)
        · simp only [bool_false_of_not_true b2, Bool.not_false, if_true, failWith_true]
      · simp only [bool_false_of_not_true b1, Bool.not_false, if_true, failWith_true]
  | registerQ name inputs outputs conc =>
    simp only [stepWith] at h ⊢
    unfold registerQ at h ⊢
    by_cases h0 : s.registered name = true
    · rw [if_pos h0]
    · rw [if_neg h0] at h ⊢
      by_cases hc : (Gen.DepDB.qConcurrencyBeforeWrites && conc == some 0) = true
      · rw [if_pos hc]
      · rw [if_neg hc] at h ⊢
        simp only at h ⊢
        by_cases b1 : (addOutputs s.db name outputs).2 = true
        · simp only [b1, Bool.not_true, Bool.false_eq_true, if_false] at h ⊢
          by_cases b2 : (addInputsQ (addOutputs s.db name outputs).1 name inputs).2 = true
          · simp only [b2, Bool.not_true, Bool.false_eq_true, if_false] at h ⊢
            by_cases hc2 : (!Gen.DepDB.qConcurrencyBeforeWrites && conc == some 0) = true
            · rw [if_pos hc2, failWith_true]
            · rw [if_neg hc2] at h; exact absurd h (by simp)
          · simp only [bool_false_of_not_true b2, Bool.not_false, if_true, failWith_true]
        · simp only [bool_false_of_not_true b1, Bool.not_false, if_true, failWith_true]
  | updateInputs n i => simp [isRegistration] at hreg
  | start => simp [isRegistration] at hreg

/-- the same about the model of the code, under the regenerated fact that Register*
    rolls the database back (false on the current tree, see below) -/
theorem rejected_is_noop_if_rolled_back (hrb : Gen.DepDB.registrationRollsBack = true)
    (s : Sys) (op : Op) (hreg : isRegistration op = true)
    (h : (step s op).2 = .rejected) : (step s op).1 = s := by
  unfold step at *
  rw [hrb] at h ⊢
  exact rejected_is_noop_of_rollback s op hreg h

/-- **rejected_is_noop — full strength.** A registration that is rejected has no effect
    on any table, hence on the graph, on notifications and on later registrations.
    It rests on the regenerated fact `Gen.DepDB.registrationRollsBack` (the extractor
    recognises `runtime.depDB.RollbackController(name)` in both error branches of
    Runtime.Register(Q)Controller): `rfl` proves `true = true` only while the code rolls
    back. On the tree before the `fix:` commit for D3 the fact was `false`, this theorem did
    not build, and `rejected_leaves_edges_witness` / `rejected_blocks_later_witness` below
    (statements about the procedure WITHOUT rollback, `stepWith false`) were the
    kernel-checked counterexamples; they stay true statements about that procedure. -/
theorem rejected_is_noop (s : Sys) (op : Op) (hreg : isRegistration op = true)
    (h : (step s op).2 = .rejected) : (step s op).1 = s :=
  rejected_is_noop_if_rolled_back rfl s op hreg h


/-- as long as the regenerated fact says "no rollback", the model of the code IS the
    procedure the witnesses below are about -/
theorem step_eq_of_no_rollback (h : Gen.DepDB.registrationRollsBack = false) (s : Sys) (op : Op) :
    step s op = stepWith false s op := by
  unfold step; rw [h]

/-- the registrations that are rejected before the first table write: name taken; a
    QController with concurrency 0; the FIRST output refused by the database; no outputs
    and (Controller) an input of a Q kind / (QController) a first input of a non-Q kind or
    refused by the database -/
def earlyReject (s : Sys) : Op → Bool
  | .register n i o =>
    s.registered n || (match o with
      | o1 :: _ => !(addOutput s.db n o1).2
      | [] => (sortInputs i).any (fun d => Gen.DepDB.rRejectKinds.contains d.kind))
  | .registerQ n i o c =>
    s.registered n || c == some 0 || (match o with
      | o1 :: _ => !(addOutput s.db n o1).2
      | [] => match i with
        | i1 :: _ => Gen.DepDB.qRejectKinds.contains i1.kind || !(addInput s.db n i1).2
        | [] => false)
  | _ => false

/-- **rejected_is_noop_partial.** A registration rejected before the first table write
    leaves the whole state untouched, with or without rollback. What is missing for the full
    statement: rejections detected after a successful write (a later output or input
    refused, a wrong-flavour kind behind accepted outputs, a conflicting input behind accepted
    ones) — exactly the cases of `rejected_leaves_edges_witness`. Depends on the regenerated
    facts `rKindCheckBeforeWrites` and `qConcurrencyBeforeWrites`. -/
theorem rejected_is_noop_partial (rb : Bool) (s : Sys) (op : Op) (h : earlyReject s op = true) :
    stepWith rb s op = (s, .rejected) := by
  have fw : failWith rb s s.db = (s, .rejected) := by cases rb <;> rfl
  cases op with
  | register name inputs outputs =>
    simp only [stepWith]
    unfold registerR
    by_cases h0 : s.registered name = true
    · rw [if_pos h0]
    · rw [if_neg h0]
      simp only [earlyReject, bool_false_of_not_true h0, Bool.false_or] at h
      cases outputs with
      | nil =>
        simp only at h
        have hu : updateInputsDB s.db name inputs = (s.db, false) := by
          unfold updateInputsDB
          simp only [show Gen.DepDB.rKindCheckBeforeWrites = true from rfl, Bool.true_and, h, if_true]
        simp [addOutputs, hu, fw]
      | cons o1 os =>
        simp only [Bool.not_eq_true'] at h
        have ho : addOutputs s.db name (o1 :: os) = (s.db, false) := by
          unfold addOutputs
          simp only [h, Bool.false_eq_true, if_false, addOutput_fail h]
        simp [ho, fw]
  | registerQ name inputs outputs conc =>
    simp only [stepWith]
    unfold registerQ
    by_cases h0 : s.registered name = true
    · rw [if_pos h0]
    · rw [if_neg h0]
      simp only [earlyReject, bool_false_of_not_true h0, Bool.false_or, Bool.or_eq_true] at h
      by_cases hc : (conc == some 0) = true
      · simp [show Gen.DepDB.qConcurrencyBeforeWrites = true from rfl, hc]
      · rw [if_neg (by simp [hc])]
        rcases h with h | h
        · exact absurd h hc
        · cases outputs with
          | nil =>
            cases inputs with
            | nil => simp at h
            | cons i1 is =>
              simp only [Bool.or_eq_true, Bool.not_eq_true'] at h
              have hq : addInputsQ s.db name (i1 :: is) = (s.db, false) := by
                unfold addInputsQ
                by_cases hk : Gen.DepDB.qRejectKinds.contains i1.kind = true
                · rw [if_pos hk]
                · rw [if_neg hk]
                  rcases h with h | h
                  · exact absurd h hk
                  · simp only [h, Bool.false_eq_true, if_false, addInput_fail h]
              simp [addOutputs, hq, fw]
          | cons o1 os =>
            simp only [Bool.not_eq_true'] at h
            have ho : addOutputs s.db name (o1 :: os) = (s.db, false) := by
              unfold addOutputs
              simp only [h, Bool.false_eq_true, if_false, addOutput_fail h]
            simp [ho, fw]
  | updateInputs n i => simp [earlyReject] at h
  | start => simp [earlyReject] at h

/-- non-vacuity of the partial theorem: each clause of `earlyReject` fires on some input -/
example : earlyReject Sys.init (.registerQ "c" [⟨"n", "T", none, 3⟩] [] (some 0)) = true ∧
    earlyReject Sys.init (.register "c" [⟨"n", "T", none, 0⟩, ⟨"n", "U", none, 4⟩] []) = true ∧
    earlyReject Sys.init (.registerQ "c" [⟨"n", "T", none, 1⟩, ⟨"n", "U", none, 4⟩] [] none) = true ∧
    earlyReject (stepWith false Sys.init (.register "a" [] [⟨"T", 0⟩])).1 (.register "b" [] [⟨"T", 1⟩]) = true ∧
    earlyReject (stepWith false Sys.init (.register "a" [] [])).1 (.register "a" [] []) = true := by decide

/-- **Negative witness for `rejected_is_noop` (D3), kernel-checked on the registration
    procedure as the current tree performs it (no rollback).** A QController declaring one
    valid primary input and one Weak input is rejected, yet its first input stays: the graph
    shows an edge of a controller that does not exist, GetDependentControllers names it, and
    after Run the next change of n1/T1 makes `deliverDeduplicatedEvents` call WatchTrigger on
    the nil adapter (SIGSEGV in the runtime). -/
theorem rejected_leaves_edges_witness :
    (stepWith false Sys.init (.registerQ "c1" [⟨"n1", "T1", none, 3⟩, ⟨"n1", "T2", none, 0⟩] [] none)).2 = .rejected ∧
    (stepWith false Sys.init (.registerQ "c1" [⟨"n1", "T1", none, 3⟩, ⟨"n1", "T2", none, 0⟩] [] none)).1 ≠ Sys.init ∧
    exportGraph (stepWith false Sys.init (.registerQ "c1" [⟨"n1", "T1", none, 3⟩, ⟨"n1", "T2", none, 0⟩] [] none)).1.db
      = [⟨"c1", 5, "n1", "T1", ""⟩] ∧
    getDependents (stepWith false Sys.init (.registerQ "c1" [⟨"n1", "T1", none, 3⟩, ⟨"n1", "T2", none, 0⟩] [] none)).1.db
      "n1" "T1" (some "a") = some ["c1"] ∧
    (stepWith false Sys.init (.registerQ "c1" [⟨"n1", "T1", none, 3⟩, ⟨"n1", "T2", none, 0⟩] [] none)).1.registered "c1"
      = false ∧
    deliver (runWith false Sys.init [.start, .registerQ "c1" [⟨"n1", "T1", none, 3⟩, ⟨"n1", "T2", none, 0⟩] [] none])
      "n1" "T1" "a" = .crash := by decide

/-- the same for a Controller: two inputs with the same keys; the first one stays -/
theorem rejected_leaves_edges_witness_r :
    (stepWith false Sys.init (.register "c1" [⟨"n1", "T1", none, 0⟩, ⟨"n1", "T1", none, 1⟩] [])).2 = .rejected ∧
    deliver (runWith false Sys.init [.register "c1" [⟨"n1", "T1", none, 0⟩, ⟨"n1", "T1", none, 1⟩] [], .start])
      "n1" "T1" "a" = .crash := by decide

/-- ... and later registrations are affected: the exclusive claim of a rejected
    QController (Weak input ⇒ rejected after its outputs were written) makes a perfectly
    valid later registration fail, which succeeds on a fresh runtime. -/
theorem rejected_blocks_later_witness :
    (stepWith false Sys.init (.registerQ "c1" [⟨"n1", "T1", none, 0⟩] [⟨"T1", 0⟩] none)).2 = .rejected ∧
    (stepWith false (stepWith false Sys.init (.registerQ "c1" [⟨"n1", "T1", none, 0⟩] [⟨"T1", 0⟩] none)).1
      (.register "c2" [] [⟨"T1", 0⟩])).2 = .rejected ∧
    (stepWith false Sys.init (.register "c2" [] [⟨"T1", 0⟩])).2 = .accepted := by decide

/-- with rollback none of this happens (same inputs) -/
example :
    (stepWith true Sys.init (.registerQ "c1" [⟨"n1", "T1", none, 3⟩, ⟨"n1", "T2", none, 0⟩] [] none)).1 = Sys.init ∧
    deliver (runWith true Sys.init [.start, .registerQ "c1" [⟨"n1", "T1", none, 3⟩, ⟨"n1", "T2", none, 0⟩] [] none])
      "n1" "T1" "a" = .woken [] := by decide

/-! ### the flavour tables (regenerated) -/

theorem mem_insRev (x y : Input) (l : List Input) : y ∈ insRev x l ↔ y = x ∨ y ∈ l := by
  induction l with
  | nil => simp [insRev]
  | cons z zs ih =>
    unfold insRev
    split
    · simp only [List.mem_cons, ih]
      constructor
      · rintro (h | h | h)
        · exact Or.inr (Or.inl h)
        · exact Or.inl h
        · exact Or.inr (Or.inr h)
      · rintro (h | h | h)
        · exact Or.inr (Or.inl h)
        · exact Or.inl h
        · exact Or.inr (Or.inr h)
    · simp

theorem mem_sortInputs (l : List Input) (y : Input) : y ∈ sortInputs l ↔ y ∈ l := by
  unfold sortInputs
  rw [List.mem_reverse]
  have : ∀ (acc : List Input), y ∈ l.foldl (fun rev x => insRev x rev) acc ↔ y ∈ acc ∨ y ∈ l := by
    induction l with
    | nil => intro acc; simp
    | cons x xs ih =>
      intro acc
      simp only [List.foldl_cons, ih, mem_insRev, List.mem_cons]
      constructor
      · rintro ((h | h) | h)
        · exact Or.inr (Or.inl h)
        · exact Or.inl h
        · exact Or.inr (Or.inr h)
      · rintro (h | h | h)
        · exact Or.inl (Or.inr h)
        · exact Or.inl (Or.inl h)
        · exact Or.inr h
  simpa using this []

theorem addInputsQ_kinds : ∀ (is : List Input) (db : DB) (c : String),
    (addInputsQ db c is).2 = true → ∀ x ∈ is, Gen.DepDB.qRejectKinds.contains x.kind = false := by
  intro is
  induction is with
  | nil => intro db c _ x hx; simp at hx
  | cons i is ih =>
    intro db c h x hx
    unfold addInputsQ at h
    by_cases hk : Gen.DepDB.qRejectKinds.contains i.kind = true
    · rw [if_pos hk] at h; simp at h
    · rw [if_neg hk] at h
      by_cases hr : (addInput db c i).2 = true
      · simp only [hr, if_true] at h
        rcases List.mem_cons.mp hx with rfl | hx
        · exact bool_false_of_not_true hk
        · exact ih _ _ h x hx
      · simp [hr] at h

theorem updateInputsDB_ok_kinds (db : DB) (c : String) (inputs : List Input)
    (h : (updateInputsDB db c inputs).2 = true) :
    ((sortInputs inputs).any fun d => Gen.DepDB.rRejectKinds.contains d.kind) = false := by
  cases hbad : ((sortInputs inputs).any fun d => Gen.DepDB.rRejectKinds.contains d.kind) with
  | false => rfl
  | true =>
    have : updateInputsDB db c inputs = (db, false) := by
      unfold updateInputsDB
      simp only [hbad, show Gen.DepDB.rKindCheckBeforeWrites = true from rfl, Bool.and_self, if_true]
    rw [this] at h; simp at h

/-- **accepted_kinds** (depends on the regenerated tables `rRejectKinds`, `qRejectKinds`,
    `rKindCheckBeforeWrites`): an accepted Controller has no QPrimary/QMapped/
    QMappedDestroyReady input, an accepted QController no Weak/Strong/DestroyReady input. -/
theorem accepted_kinds (rb : Bool) (s : Sys) (name : String) (inputs : List Input) (outputs : List Output)
    (conc : Option Nat) :
    ((registerR rb s name inputs outputs).2 = .accepted →
      ∀ x ∈ inputs, x.kind ≠ 3 ∧ x.kind ≠ 4 ∧ x.kind ≠ 5) ∧
    ((registerQ rb s name inputs outputs conc).2 = .accepted →
      ∀ x ∈ inputs, x.kind ≠ 0 ∧ x.kind ≠ 1 ∧ x.kind ≠ 2) := by
  constructor
  · intro h x hx
    unfold registerR at h
    by_cases h0 : s.registered name = true
    · rw [if_pos h0] at h; exact absurd h (by simp)
    · rw [if_neg h0] at h
      simp only at h
      by_cases b1 : (addOutputs s.db name outputs).2 = true
      · simp only [b1, Bool.not_true, Bool.false_eq_true, if_false] at h
        by_cases b2 : (updateInputsDB (addOutputs s.db name outputs).1 name inputs).2 = true
        · have := updateInputsDB_ok_kinds _ _ _ b2
          · rw [List.any_eq_false] at this
            have hx' := this x ((mem_sortInputs inputs x).mpr hx)
            simp [Gen.DepDB.rRejectKinds] at hx'
            exact ⟨hx'.1, hx'.2.1, hx'.2.2⟩
        · simp only [bool_false_of_not_true b2, Bool.not_false, if_true] at h
          cases rb <;> simp [failWith] at h
      · simp only [bool_false_of_not_true b1, Bool.not_false, if_true] at h
        cases rb <;> simp [failWith] at h
  · intro h x hx
    unfold registerQ at h
    by_cases h0 : s.registered name = true
    · rw [if_pos h0] at h; exact absurd h (by simp)
    · rw [if_neg h0] at h
      by_cases hc : (Gen.DepDB.qConcurrencyBeforeWrites && conc == some 0) = true
      · rw [if_pos hc] at h; exact absurd h (by simp)
      · rw [if_neg hc] at h
        simp only at h
        by_cases b1 : (addOutputs s.db name outputs).2 = true
        · simp only [b1, Bool.not_true, Bool.false_eq_true, if_false] at h
          by_cases b2 : (addInputsQ (addOutputs s.db name outputs).1 name inputs).2 = true
          · have hx' := addInputsQ_kinds inputs _ _ b2 x hx
            simp [Gen.DepDB.qRejectKinds] at hx'
            exact ⟨hx'.1, hx'.2.1, hx'.2.2⟩
          · simp only [bool_false_of_not_true b2, Bool.not_false, if_true] at h
            cases rb <;> simp [failWith] at h
        · simp only [bool_false_of_not_true b1, Bool.not_false, if_true] at h
          cases rb <;> simp [failWith] at h

/-! ### the specification is transactional by construction -/

/-- in `Cosi.Spec.DepDB` (what the driver prints in `spec` mode) a rejected registration is a no-op -/
theorem spec_rejected_is_noop (s : Spec.DepDB.SSys) (isQ : Bool) (name : String) (inputs : List Input)
    (outputs : List Output) (conc : Option Nat)
    (h : (Spec.DepDB.register s isQ name inputs outputs conc).2 = false) :
    (Spec.DepDB.register s isQ name inputs outputs conc).1 = s := by
  unfold Spec.DepDB.register at *
  by_cases h1 : (s.ctrls.any fun p => decide (p.1 = name)) = true
  · rw [if_pos h1]
  · rw [if_neg h1] at h ⊢
    by_cases h2 : (isQ && conc == some 0) = true
    · rw [if_pos h2]
    · rw [if_neg h2] at h ⊢
      by_cases h3 : (!inputs.all fun i => if isQ = true then Spec.DepDB.kindOkQ i.kind else Spec.DepDB.kindOkR i.kind) = true
      · rw [if_pos h3]
      · rw [if_neg h3] at h ⊢
        cases h4 : Spec.DepDB.addOutputs s.db name outputs with
        | none => rfl
        | some db1 =>
          rw [h4] at h
          simp only at h ⊢
          cases h5 : Spec.DepDB.addInputs db1 name inputs with
          | none => rfl
          | some db2 => rw [h5] at h; simp at h

/-- **Obligation (transcription).** Two functions of dependency/database.go that `Model/DepDB` transcribes by hand are
    still the text it was written from: `AddControllerInput` looks for an input with equal keys at the positions
    `idx-1, idx, idx+1` of the sorted list that lie within its bounds (position 0 included) before inserting at `idx`
    (`DepDB.addInput`), and `RollbackController` deletes a shared-output entry that becomes empty (`DepDB.rollback`: a
    type none of whose sharers is left is free again for an exclusive owner). The facts are regenerated from the source
    on every run and fail closed; they are not consumed by the model, so a change there is reported through this theorem
    and through the `depdb` / `registry` engines. -/
theorem database_shapes_as_modelled :
    Gen.DepDB.addInputNeighbourhood = true ∧ Gen.DepDB.rollbackDropsEmptyShared = true := by decide

end Cosi.C17
