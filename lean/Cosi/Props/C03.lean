/-
  Property C03 — finalizers gate destruction; blocking lifecycle helpers never miss or jump.

  About the helper machines of Cosi.Model.Wrap (compared with wrap.go action by action by
  the engine `helpers`, at the granularity of single store operations and watch deliveries)
  and the store/watch models of C01/C02.

    no_destroy_with_finalizer     a key disappears only through a Destroy in a state with no finalizers
    teardown_ready_sound          ready=true only if the finalizer set was empty at the linearization step
    tad_success_means_gone        TeardownAndDestroy returns ok only after its own Destroy or a delivered Destroyed
    watch_first_event_is_current  + tad_no_missed_wakeup (+ C02.delivered_is_log_segment): no missed wake-up
    watchfor_first_match          WatchFor = first delivered event matching the condition (initial state first)
    ctx_teardown_iff              the bound context is cancelled iff a tearing-down / destroyed / errored event was delivered

  Liveness is stated over the delivered event sequence; that every committed change is
  eventually delivered is C02 (`delivered_is_log_segment`, `quiescent_complete`) under
  weak fairness of the scheduler (a hypothesis, see DESIGN C03).
-/
import Cosi.Props.C04
import Cosi.Props.C02
open Cosi
namespace Cosi.C03

/-! ### finalizers gate destruction -/

/-- **A resource is never removed while it holds a finalizer**: whatever else is going
    on (any interleaving of finalizer additions/removals, teardowns, destroys by any
    party — every schedule is a sequence of atomic `step`s), the only operation that
    removes a key is a Destroy, and it succeeds only in a state where the finalizer set
    is empty. -/
theorem no_destroy_with_finalizer (cfg : Cfg) (s : Store) (now : Nat) (op : Op) (k : Key) (cur : Res)
    (hbefore : s.get k = some cur) (hafter : (step cfg s now op).1.get k = none) :
    cur.fins = [] ∧ ∃ ns typ id owner, op = .destroy ns typ id owner ∧ cfg.key ns typ id = k := by
  rw [C01.step_eq_spec] at hafter
  cases op with
  | get ns typ id =>
    simp only [Spec.step] at hafter
    split at hafter <;> (rw [hbefore] at hafter; cases hafter)
  | list ns typ sel => simp only [Spec.step] at hafter; rw [hbefore] at hafter; cases hafter
  | create r o =>
    simp only [Spec.step] at hafter
    repeat' split at hafter
    all_goals try (rw [hbefore] at hafter; cases hafter)
    by_cases hk : k = r.key cfg
    · subst hk; rw [C01.get_put_self] at hafter; cases hafter
    · rw [C01.get_put_other _ _ _ _ hk, hbefore] at hafter; cases hafter
  | update r o e =>
    simp only [Spec.step] at hafter
    repeat' split at hafter
    all_goals try (rw [hbefore] at hafter; cases hafter)
    by_cases hk : k = r.key cfg
    · subst hk; rw [C01.get_put_self] at hafter; cases hafter
    · rw [C01.get_put_other _ _ _ _ hk, hbefore] at hafter; cases hafter
  | destroy ns typ id o =>
    simp only [Spec.step] at hafter
    by_cases hk : k = cfg.key ns typ id
    · subst hk
      rw [hbefore] at hafter
      simp only at hafter
      by_cases h1 : cur.owner ≠ o
      · rw [if_pos h1] at hafter; rw [hbefore] at hafter; cases hafter
      · rw [if_neg h1] at hafter
        by_cases h2 : cur.fins ≠ []
        · rw [if_pos h2] at hafter; rw [hbefore] at hafter; cases hafter
        · exact ⟨by simpa using h2, ns, typ, id, o, rfl, rfl⟩
    · exfalso
      repeat' split at hafter
      all_goals try (rw [hbefore] at hafter; cases hafter)
      rw [C01.get_del_other _ _ _ hk, hbefore] at hafter; cases hafter

/-! ### Teardown reports readiness soundly -/

theorem resEqual_fins_len (a b : Res) (h : resEqual a b = true) : a.fins.length = b.fins.length := by
  unfold resEqual at h
  simp only [Bool.and_eq_true, beq_iff_eq] at h
  exact h.1.1.2


/-- **Teardown reports ready-to-destroy only if the finalizer set was empty when the
    teardown took effect.** The call ends with `ready = true` only on one of two
    responses: the `Get` that found the resource already tearing down — then the value
    that Get read (the store at that step, `C01.get_reads_store`) has no finalizers — or
    the response of its own committed `Update` (or the no-op of an already tearing-down
    value) — then the value stored by that very step has none (and, by
    `C04.success_applied_once`, it is the phase mutator applied to the value stored
    immediately before, which therefore had none either). -/
theorem teardown_ready_sound (l : Local) (ns typ id owner : String) (resp : Resp)
    (hc : l.call = .teardown ns typ id owner)
    (hnd : ∀ r, l.pc ≠ .done r)
    (h : (l.resume resp).pc = .done (.ready true)) :
    (∃ cur, resp = .out (.res cur) ∧ cur.fins = []) ∨ (∃ r', resp = .out (.wrote r') ∧ r'.fins = []) := by
  unfold Local.resume at h
  repeat' split at h
  all_goals first
    | (simp only [Local.afterUwc, hc] at h
       first
         | (simp only [Pc.done.injEq, HRet.ready.injEq, List.isEmpty_iff] at h
            first
              | exact Or.inl ⟨_, rfl, h⟩
              | exact Or.inr ⟨_, rfl, h⟩)
         | cases h)
    | (rename_i hcall; rw [hc] at hcall; cases hcall)
    | (simp only at h; cases h)
    | exact absurd h (hnd _)
    | skip
  all_goals (simp only [Local.afterUwc, hc] at h)
  all_goals
    (rename_i hre
     simp only [Pc.done.injEq, HRet.ready.injEq, List.isEmpty_iff] at h
     refine Or.inl ⟨_, rfl, ?_⟩
     have hl := resEqual_fins_len _ _ hre
     rw [h] at hl
     exact List.eq_nil_of_length_eq_zero hl)

/-! ### TeardownAndDestroy -/

/-- **TeardownAndDestroy returns success only once the resource is gone**: the call
    ends with `ok` only on the success response of its own Destroy (after which the key
    is absent, `C01.destroy_ok_effect`) or on a delivered `Destroyed` event of a third
    party's Destroy. -/
theorem tad_success_means_gone (l : Local) (ns typ id owner : String) (resp : Resp)
    (hc : l.call = .tad ns typ id owner) (hnd : ∀ r, l.pc ≠ .done r)
    (h : (l.resume resp).pc = .done .ok) :
    (l.pc = .destroy ∧ resp = .out .ok) ∨ (l.pc = .recv ∧ ∃ e, resp = .event e ∧ e.typ = .destroyed) := by
  unfold Local.resume at h
  repeat' split at h
  all_goals first
    | (simp only [Local.afterUwc, hc] at h; (repeat' split at h) <;> cases h)
    | (rename_i hcall; rw [hc] at hcall; cases hcall)
    | (simp only at h; cases h)
    | exact absurd h (hnd _)
    | skip
  all_goals first
    | exact Or.inl ⟨‹_›, rfl⟩
    | exact Or.inr ⟨‹_›, _, rfl, ‹_›⟩

/-- feeding a list of delivered events to a helper that is waiting on its watch -/
def consume (l : Local) : List Event → Local
  | [] => l
  | e :: es =>
    match l.pc with
    | .recv => consume (l.resume (.event e)) es
    | _ => l

/-- events that end waitFinalizersEmpty (wrap.go:247) -/
def endsWait (e : Event) : Bool :=
  e.typ == .destroyed || e.typ == .errored || ((e.typ == .created || e.typ == .updated) && e.res.fins.isEmpty)

/-- **No missed wake-up between marking and waiting.** Whatever sequence of events the
    watch delivers to a TeardownAndDestroy that is waiting for the finalizers to go: as
    soon as one of them shows the resource destroyed or with an empty finalizer set (or
    the watch failed), the wait is over — the helper is no longer in `recv`. Together with
    `C03.watch_first_event_is_current` (the first event IS the state at the time the watch
    was established, taken under the same lock as its start position) and
    `C02.delivered_is_log_segment` / `quiescent_complete` (every later change is
    delivered, in order) this is "always completes when finalizers end up empty". -/
theorem tad_no_missed_wakeup (l : Local) (ns typ id owner : String) (evs : List Event)
    (hc : l.call = .tad ns typ id owner) (hpc : l.pc = .recv) (hex : ∃ e ∈ evs, endsWait e = true) :
    (consume l evs).pc ≠ .recv := by
  induction evs generalizing l with
  | nil => obtain ⟨e, he, _⟩ := hex; cases he
  | cons e es ih =>
    simp only [consume, hpc]
    by_cases hend : endsWait e = true
    · -- this very event ends the wait
      have hne : (l.resume (.event e)).pc ≠ .recv := by
        unfold Local.resume; rw [hpc]; simp only [hc]
        unfold endsWait at hend
        cases ht : e.typ <;> simp [ht] at hend ⊢ <;> simp [hend]
      cases hp : (l.resume (.event e)).pc with
      | recv => exact absurd hp hne
      | _ => cases es <;> simp [consume, hp]
    · -- not yet: the helper stays waiting, the call is unchanged
      have hstay : l.resume (.event e) = l := by
        unfold Local.resume; rw [hpc]; simp only [hc]
        unfold endsWait at hend
        cases ht : e.typ <;> simp [ht] at hend ⊢ <;> simp [hend]
      rw [hstay]
      obtain ⟨e', he', hend'⟩ := hex
      rcases List.mem_cons.1 he' with rfl | hmem
      · exact absurd hend' hend
      · exact ih l hc hpc ⟨e', hmem, hend'⟩

/-- the first event of a single-resource watch is the state at call time: `Created`
    with the stored value if the resource exists, else a `Destroyed` tombstone; the watch
    position is the current end of the log (same critical section, collection.go:314-355),
    so nothing can fall between "state at call time" and "first subsequent event" -/
theorem watch_first_event_is_current (r : Ring) (cur : Option Res) (ns typ id : String) :
    startSingle r cur ns typ id {} = .ok (r.writePos,
      [[match cur with
        | some c => { typ := .created, res := c }
        | none => { typ := .destroyed, res := tombstone ns typ id }]]) := by
  unfold startSingle
  cases cur <;> simp

/-! ### WatchFor -/

/-- **WatchFor returns the first state satisfying its condition, including the state at
    call time**: over the delivered sequence (initial state first, `watch_first_event_is_current`)
    the call ends at the first event matching the condition and returns that event's resource. -/
theorem watchfor_first_match (l : Local) (ns typ id : String) (c : Cond) (evs : List Event)
    (hc : l.call = .watchFor ns typ id c) (hpc : l.pc = .recv) :
    (consume l evs).pc = match evs.find? c.matches with
      | some e => .done (.okRes e.res)
      | none => .recv := by
  induction evs generalizing l with
  | nil => simp [consume, hpc]
  | cons e es ih =>
    simp only [consume, hpc, List.find?_cons]
    have hres : l.resume (.event e) = if c.matches e then { l with pc := .done (.okRes e.res) } else l := by
      unfold Local.resume; rw [hpc]; simp only [hc]
    rw [hres]
    by_cases hm : c.matches e = true
    · simp only [hm, if_true]
      cases es <;> simp [consume]
    · simp only [hm, if_false, Bool.false_eq_true]
      exact ih l hc hpc

/-! ### teardown-bound contexts -/

/-- events that cancel a teardown-bound context (wrap.go:188-203) -/
def cancels (e : Event) : Bool :=
  e.typ == .destroyed || e.typ == .errored ||
    ((e.typ == .created || e.typ == .updated) && e.res.phase == .tearingDown)

/-- **A teardown-bound context is cancelled iff the resource is, or becomes, torn down,
    destroyed or absent (or the watch fails)**: over the delivered sequence (initial
    state first) the context is cancelled exactly when some delivered event shows a
    tearing-down phase, a destruction (incl. the initial tombstone of an absent
    resource) or a watch error; otherwise it stays live. -/
theorem ctx_teardown_iff (l : Local) (ns typ id : String) (evs : List Event)
    (hc : l.call = .ctxTeardown ns typ id) (hpc : l.pc = .recv) :
    (∃ cause, (consume l evs).pc = .done (.cancelled cause)) ↔ ∃ e ∈ evs, cancels e = true := by
  induction evs generalizing l with
  | nil =>
    simp only [consume, hpc]
    constructor
    · intro ⟨_, h⟩; cases h
    · intro ⟨_, h, _⟩; cases h
  | cons e es ih =>
    simp only [consume, hpc]
    by_cases hcan : cancels e = true
    · have hd : ∃ cause, (l.resume (.event e)).pc = .done (.cancelled cause) := by
        unfold Local.resume; rw [hpc]; simp only [hc]
        unfold cancels at hcan
        cases ht : e.typ <;> simp [ht] at hcan ⊢ <;> simp [hcan]
      obtain ⟨cause, hd⟩ := hd
      constructor
      · intro _; exact ⟨e, List.mem_cons_self, hcan⟩
      · intro _; exact ⟨cause, by cases es <;> simp [consume, hd]⟩
    · have hstay : l.resume (.event e) = l := by
        unfold Local.resume; rw [hpc]; simp only [hc]
        unfold cancels at hcan
        cases ht : e.typ <;> simp [ht] at hcan ⊢ <;> simp [hcan]
      rw [hstay, ih l hc hpc]
      constructor
      · intro ⟨e', hm, h⟩; exact ⟨e', List.mem_cons_of_mem _ hm, h⟩
      · intro ⟨e', hm, h⟩
        rcases List.mem_cons.1 hm with rfl | hm
        · exact absurd h hcan
        · exact ⟨e', hm, h⟩

end Cosi.C03
