/-
  Property C09, clause "failed reconciles are retried with growing backoff" — for EVERY outcome
  `runOnce` can hand to `runReconcile`, in particular the boundary value the outcome table of
  `Cosi.Props.C09` did not name: a `*controller.RequeueError` that carries a real error and the
  interval 0 (`controller.NewRequeueError(err, 0)`, `NewRequeueErrorf(0, …)`).

  Model: `Cosi.Model.Queue.decisionWith rules` — the `switch` of qruntime.runReconcile
  (qruntime.go:298–334) with its one real decision point, the guard of
  `interval = adapter.getBackoffInterval(item.Key())` in `case reconcileError != nil`, a PARAMETER
  (`Rules.failBackoff`); `decision = decisionWith genRules`, `genRules` being instantiated from the
  regenerated facts `Cosi.Gen.Queue.outcomeSwitchKnown` / `failBackoffGuard` (fail closed).

    Sound                              what a rule must satisfy: backoff whenever the failure has no interval of
                                       its own, and only then
    genRules_sound                     the CURRENT source implements a sound rule (rests on the facts)
    failed_never_released_with         sound rules: a failed reconcile is never answered by a bare Release()
    failed_reconcile_is_requeued       the current source: every failed reconcile is requeued, window [lo, hi], hi ≠ 0
    requeue_error_zero_is_plain_failure   NewRequeueError(err, 0) is handled exactly like `err`
    failure_window                     the window of any failure: the explicit interval, else the backoff schedule
    failed_item_stays_queued           composition with the queue loop (for every reachable queue state): after the
                                       worker's message for a failed reconcile the key IS in the priority queue
    requeued_entry_due                 the entry a Requeue(t) by the holder leaves is due at t at the latest
    failed_item_redelivered            … once the clock has advanced by the drawn delay a `get` is served (no further
                                       notification for the key is needed)
    ok_item_released                   (contrast, non-vacuity) a success without interval leaves nothing behind
  negative, kernel-checked (`by decide`):
    seeded_drops_failure               the rule `!requeued` answers NewRequeueError(err, 0) with a bare release,
    seeded_item_lost                   after which the queue holds nothing for the key: it is never reconciled again
    always_overrides_interval          the unguarded rule ignores an explicit RequeueError interval
-/
import Cosi.Props.C09

namespace Cosi.C09R

open Cosi Cosi.Queue Cosi.Queue.PQ Cosi.Queue.Backoff Cosi.C09

/-- what the guard of the error backoff has to do: supply the interval whenever the failure brings
    none of its own (whether or not it came wrapped in a RequeueError), and leave an explicit
    interval alone -/
structure Sound (r : Rules) : Prop where
  backoff_iff_no_interval : ∀ (requeued : Bool) (i : Nat), r.failBackoff requeued i = (i == 0)

theorem goodRules_sound : Sound goodRules := ⟨fun _ _ => rfl⟩

/-- the CURRENT source implements a sound rule (rests on `Gen.Queue.outcomeSwitchKnown`,
    `Gen.Queue.failBackoffGuard`) -/
theorem genRules_sound : Sound genRules := ⟨genRules_failBackoff⟩

/-- the regenerated facts this module rests on -/
theorem facts : Gen.Queue.outcomeSwitchKnown = true ∧ Gen.Queue.failBackoffGuard = .intervalZero ∧
    Gen.Queue.backoffDefaultCtor = true ∧ Gen.Queue.backoffMaxElapsedZero = true := by decide

/-- the per-item backoff never answers 0 (MaxElapsedTime is cleared: no Stop) -/
theorem getInterval_hi_ne_zero (m : Backoff.Map) (k : Nat) : (getInterval m k).2.2 ≠ 0 := by
  rw [getInterval_eq]; exact bounds_ne_zero _

theorem getInterval_lo_le_hi (m : Backoff.Map) (k : Nat) : (getInterval m k).2.1 ≤ (getInterval m k).2.2 := by
  rw [getInterval_eq, bounds_eq]
  show (amLookup k m).getD initial / 2 ≤ (amLookup k m).getD initial + (amLookup k m).getD initial / 2 + 1
  omega

/-- the decision for a failed reconcile under any sound rule, written out -/
theorem decisionWith_fail (r : Rules) (h : Sound r) (m : Backoff.Map) (k : Nat) (o : Outcome) (ho : o.err = .fail) :
    decisionWith r m k o =
      if o.requeue.getD 0 = 0 then
        ((getInterval m k).1, .requeueIn (getInterval m k).2.1 (getInterval m k).2.2)
      else (m, .requeueIn (o.requeue.getD 0) (o.requeue.getD 0)) := by
  unfold decisionWith
  simp only [ho, h.backoff_iff_no_interval]
  by_cases hi : o.requeue.getD 0 = 0
  · simp [hi, getInterval_hi_ne_zero]
  · simp [hi]

/-- **a failed reconcile is never dropped** (any sound rule): whatever error value `Reconcile`
    returned — plain, panic, wrapped in a RequeueError with ANY interval, zero included — the
    worker answers with `Requeue`, never with the bare deferred `Release()` -/
theorem failed_never_released_with (r : Rules) (h : Sound r) (m : Backoff.Map) (k : Nat) (o : Outcome)
    (ho : o.err = .fail) : (decisionWith r m k o).2 ≠ .release := by
  rw [decisionWith_fail r h m k o ho]
  by_cases hi : o.requeue.getD 0 = 0 <;> simp [hi]

/-- **C09, failed reconciles are retried** — the current source, every backoff map (i.e. after any
    history), every key, every failing outcome: the item is requeued after a delay from a window
    `[lo, hi]` with `hi ≠ 0`. -/
theorem failed_reconcile_is_requeued (m : Backoff.Map) (k : Nat) (o : Outcome) (ho : o.err = .fail) :
    ∃ lo hi, (decision m k o).2 = .requeueIn lo hi ∧ hi ≠ 0 ∧ lo ≤ hi := by
  show ∃ lo hi, (decisionWith genRules m k o).2 = .requeueIn lo hi ∧ hi ≠ 0 ∧ lo ≤ hi
  rw [decisionWith_fail genRules genRules_sound m k o ho]
  by_cases hi : o.requeue.getD 0 = 0
  · exact ⟨_, _, by simp [hi], getInterval_hi_ne_zero m k, getInterval_lo_le_hi m k⟩
  · exact ⟨_, _, by simp [hi], hi, Nat.le_refl _⟩

/-- `controller.NewRequeueError(err, 0)` is handled exactly like the bare `err`: same requeue window
    from the error backoff, same growth of the per-item interval -/
theorem requeue_error_zero_is_plain_failure (m : Backoff.Map) (k : Nat) :
    decision m k (Outcome.requeueErr 0) = decision m k Outcome.error := by
  show decisionWith genRules m k _ = decisionWith genRules m k _
  rw [decisionWith_fail genRules genRules_sound m k _ rfl, decisionWith_fail genRules genRules_sound m k _ rfl]
  rfl

/-- the window of ANY failure after ANY history of reconciles: the interval the RequeueError asked
    for if it is not zero, else the backoff schedule of `C09.backoff_schedule` -/
theorem failure_window (hist : List (Nat × Outcome)) (k : Nat) (o : Outcome) (ho : o.err = .fail) :
    (decision (runOutcomes [] hist) k o).2 =
      if o.requeue.getD 0 = 0 then
        .requeueIn (bounds (base (streak k hist 0))).1 (bounds (base (streak k hist 0))).2
      else .requeueIn (o.requeue.getD 0) (o.requeue.getD 0) := by
  show (decisionWith genRules _ k o).2 = _
  rw [decisionWith_fail genRules genRules_sound _ k o ho]
  by_cases hi : o.requeue.getD 0 = 0
  · have hb := backoff_schedule hist k
    rw [show decision (runOutcomes [] hist) k Outcome.error = decisionWith genRules (runOutcomes [] hist) k Outcome.error from rfl,
      decisionWith_fail genRules genRules_sound _ k _ rfl] at hb
    simpa [hi, Outcome.error] using hb
  · simp [hi]

/-! ### composition with the queue loop -/

/-- **the failed item stays queued.** For every reachable queue state in which the worker holds
    `k`, every backoff map, every failing outcome and every delay `d` drawn from the decision's
    window: after the message the worker sends (`Decision.toStep`), `k` is in the priority queue —
    it will be handed out again without any further notification (`failed_item_redelivered`). -/
theorem failed_item_stays_queued (s : Q) (h : QInv s) (m : Backoff.Map) (k v d : Nat) (o : Outcome)
    (ho : o.err = .fail) :
    k ∈ keys (step s ((decision m k o).2.toStep k v s.now d)).1.pq := by
  obtain ⟨lo, hi, hd, _, _⟩ := failed_reconcile_is_requeued m k o ho
  rw [hd]
  exact requeue_pending s k v (s.now + d) h

/-- the entry a `Requeue(t)` by the holder of `k` leaves behind is due at `t` at the latest (earlier — at once —
    if a notification was parked during the hold) -/
theorem requeued_entry_due (s : Q) (h : QInv s) (k v t : Nat) (hk : k ∈ s.onHold) :
    ∃ e, lookup k (step s (.requeue k v t)).1.pq = some e ∧ e.due ≤ max t s.now := by
  show ∃ e, lookup k (doReleased s k v (some t)).pq = some e ∧ e.due ≤ max t s.now
  cases hp : amLookup k s.ohq with
  | some hv =>
    obtain ⟨e, he, _, hdue⟩ := released_parked s k v hv (some t) h hp
    rw [released_now] at hdue
    exact ⟨e, he, Nat.le_trans hdue (Nat.le_max_right _ _)⟩
  | none =>
    have hl : lookup k s.pq = none := (lookup_none_iff k s.pq).2 (h.disjoint k hk)
    refine ⟨⟨k, v, t⟩, ?_, Nat.le_max_left _ _⟩
    unfold doReleased doRequeuePart doUnpark
    simp only [hp]
    exact push_new _ _ _ _ _ hl

/-- **… and is handed out again.** The worker holds `k` (any reachable queue state), its reconcile
    fails with ANY error value, the worker sends its message with a delay `d` from the decision's
    window: once the clock has advanced by `d`, a worker asking for an item is served — without any
    further notification for `k`. -/
theorem failed_item_redelivered (s : Q) (h : QInv s) (m : Backoff.Map) (k v d : Nat) (o : Outcome)
    (ho : o.err = .fail) (hk : k ∈ s.onHold) :
    (delivers (run s [(decision m k o).2.toStep k v s.now d, .tick d])).isSome = true := by
  obtain ⟨lo, hi, hd, _, _⟩ := failed_reconcile_is_requeued m k o ho
  rw [hd]
  show (delivers (step (step s (.requeue k v (s.now + d))).1 (.tick d)).1).isSome = true
  obtain ⟨e, he, hdue⟩ := requeued_entry_due s h k v (s.now + d) hk
  have hi1 := inv_step s (.requeue k v (s.now + d)) h
  have hi2 := inv_step _ (.tick d) hi1
  have hnow : (step s (.requeue k v (s.now + d))).1.now = s.now := released_now s k v (some (s.now + d))
  refine get_serves_due _ k e hi2 he ?_
  show e.due ≤ (step s (.requeue k v (s.now + d))).1.now + d
  rw [hnow]
  have : max (s.now + d) s.now = s.now + d := by omega
  omega

/-- (contrast) a reconcile that succeeds without asking for a requeue leaves nothing behind for the key -/
theorem ok_item_released (m : Backoff.Map) (k : Nat) : (decision m k Outcome.ok).2 = .release :=
  (outcome_table m k 1 (by decide)).1

/-- (marker) errors reported below this line are in the witnesses -/
theorem examples_follow : True := trivial

/-! ### non-vacuity and negative witnesses -/

/-- the seeded rule (C09-d): the error backoff only when the error is not a RequeueError -/
def notRequeuedRules : Rules := { failBackoff := fun requeued _ => !requeued }

/-- the unguarded rule: the error backoff replaces any interval -/
def alwaysRules : Rules := { failBackoff := fun _ _ => true }

-- the hypotheses are satisfiable: key 1 is held, the reconcile fails as NewRequeueError(err, 0); under the
-- source's rule the key is back in the queue with the first backoff window …
example : 1 ∈ (run init [.put 1 7, .get]).onHold ∧ (Outcome.requeueErr 0).err = .fail ∧
    (decision [] 1 (Outcome.requeueErr 0)).2 = .requeueIn 250000000 750000001 ∧
    keys (run init [.put 1 7, .get, (decision [] 1 (Outcome.requeueErr 0)).2.toStep 1 7 0 250000000]).pq = [1] ∧
    delivers (run init [.put 1 7, .get, (decision [] 1 (Outcome.requeueErr 0)).2.toStep 1 7 0 250000000, .tick 250000000]) = some (1, 7) := by
  decide

-- … and the second such failure waits for the next window of the schedule
example : (decision (decision [] 1 (Outcome.requeueErr 0)).1 1 (Outcome.requeueErr 0)).2 = .requeueIn 375000000 1125000001 := by
  decide

/-- **negative witness for the seeded rule**: NewRequeueError(err, 0) is answered with a bare release … -/
theorem seeded_drops_failure :
    (decisionWith notRequeuedRules [] 1 (Outcome.requeueErr 0)).2 = .release ∧
    (decisionWith notRequeuedRules [] 1 Outcome.error).2 = .requeueIn 250000000 750000001 ∧
    (decisionWith notRequeuedRules [] 1 (Outcome.requeueErr 5)).2 = .requeueIn 5 5 := by decide

/-- … after which nothing is queued for the key, at any later time: the failed item is never reconciled again -/
theorem seeded_item_lost :
    (run init [.put 1 7, .get, (decisionWith notRequeuedRules [] 1 (Outcome.requeueErr 0)).2.toStep 1 7 0 0]).pq = [] ∧
    (run init [.put 1 7, .get, (decisionWith notRequeuedRules [] 1 (Outcome.requeueErr 0)).2.toStep 1 7 0 0]).ohq = [] ∧
    delivers (run init [.put 1 7, .get, (decisionWith notRequeuedRules [] 1 (Outcome.requeueErr 0)).2.toStep 1 7 0 0,
      .tick 100000000000000]) = none := by decide

theorem seeded_not_sound : ¬ Sound notRequeuedRules := fun h => by
  have := h.backoff_iff_no_interval true 0
  exact absurd this (by decide)

/-- the unguarded rule ignores the interval a RequeueError asked for -/
theorem always_overrides_interval :
    (decisionWith alwaysRules [] 1 (Outcome.requeueErr 5000000000)).2 = .requeueIn 250000000 750000001 := by decide

theorem always_not_sound : ¬ Sound alwaysRules := fun h => by
  have := h.backoff_iff_no_interval true 1
  exact absurd this (by decide)

end Cosi.C09R
