/-
  Property C03 over the gRPC path — the blocking helpers never miss a change and notice a failed
  watch when the state they are given is the client adapter of a remote state.

  C03's theorems (`ctx_teardown_iff`, `tad_no_missed_wakeup`, `watchfor_first_match`) are stated
  over the event sequence DELIVERED to the helper. For an in-process state that sequence is the
  watch's own (C02). Over gRPC it is what the server's `mapEvent` lets through for the ApiVersion
  the adapter announced: `evs.filterMap (wireDeliverWith rules .watch)` (Cosi.Model.Remote,
  Cosi.Model.WrapRemote). The theorems below say that under sound watch rules NOTHING is withheld —
  in particular not the `Errored` event by which a watch reports that it has failed (the watcher
  fell behind the history) — so the delivered-sequence theorems apply to the server-side sequence:

    ctx_teardown_iff_over_grpc      a teardown-bound context obtained through the adapter is cancelled
                                    iff the SERVER-side watch produced a tearing-down / destroyed /
                                    errored event
    watch_failure_cancels_over_grpc … in particular when that watch fails
    tad_wait_ends_over_grpc         waitFinalizersEmpty through the adapter (the TeardownAndDestroy
                                    fallback) ends as soon as the server-side watch shows the
                                    resource gone, finalizer-free, or fails
    genWatchRules_sound (C11)       the CURRENT source has sound rules (regenerated facts)

  `seeded_api_*` are kernel-checked witnesses for the rule "the single-resource WatchRequest does
  not announce ApiVersion 1": the failure of the watch is swallowed and the helper waits forever.
-/
import Cosi.Props.C03
import Cosi.Props.C11
import Cosi.Model.WrapRemote
open Cosi Cosi.Remote
namespace Cosi.C03R
open Cosi.C03 Cosi.C11

/-! ### the wire preserves what the helpers look at -/

theorem wireEvent_phase (e : Event) (h : e.typ ≠ .errored) : (wireEvent e).res.phase = e.res.phase := by
  rw [wireEvent_eq]
  simp [h, imageRes]

theorem cancels_wire (e : Event) : cancels (wireEvent e) = cancels e := by
  unfold cancels
  rw [wireEvent_typ]
  by_cases hE : e.typ = .errored
  · simp [hE]
  · rw [wireEvent_phase e hE]

theorem endsWait_wire (e : Event) : endsWait (wireEvent e) = endsWait e := by
  unfold endsWait
  rw [wireEvent_typ]
  by_cases hE : e.typ = .errored
  · simp [hE]
  · rw [wireEvent_finsEmpty e hE]

/-- under sound rules the helper is handed the image of EVERY event of the server-side watch -/
theorem delivered_all (r : WatchRules) (hr : WatchSound r) (evs : List Event) :
    evs.filterMap (wireDeliverWith r .watch) = evs.map wireEvent := by
  induction evs with
  | nil => rfl
  | cons e evs ih => rw [List.filterMap_cons, wireDeliverWith_sound r hr .watch e]; simp [ih]

/-! ### teardown-bound contexts over gRPC -/

/-- **A teardown-bound context obtained through the gRPC adapter is cancelled iff the server-side
    watch on the resource produced a tearing-down phase, a destruction (incl. the initial tombstone
    of an absent resource) or a FAILURE of that watch** — for every sequence `evs` of events of the
    server-side watch. -/
theorem ctx_teardown_iff_remote (r : WatchRules) (hr : WatchSound r) (l : Local) (ns typ id : String)
    (evs : List Event) (hc : l.call = .ctxTeardown ns typ id) (hpc : l.pc = .recv) :
    (∃ cause, (consume l (evs.filterMap (wireDeliverWith r .watch))).pc = .done (.cancelled cause)) ↔
      ∃ e ∈ evs, cancels e = true := by
  rw [delivered_all r hr, ctx_teardown_iff l ns typ id _ hc hpc]
  constructor
  · rintro ⟨e', hm, hcan⟩
    obtain ⟨e, he, rfl⟩ := List.mem_map.1 hm
    exact ⟨e, he, by rw [← cancels_wire]; exact hcan⟩
  · rintro ⟨e, he, hcan⟩
    exact ⟨wireEvent e, List.mem_map.2 ⟨e, he, rfl⟩, by rw [cancels_wire]; exact hcan⟩

/-- … for the current source text (rests on `Gen.Grpc.cliApiVersion` through `genWatchRules_sound`) -/
theorem ctx_teardown_iff_over_grpc (l : Local) (ns typ id : String) (evs : List Event)
    (hc : l.call = .ctxTeardown ns typ id) (hpc : l.pc = .recv) :
    (∃ cause, (consume l (evs.filterMap (wireDeliver .watch))).pc = .done (.cancelled cause)) ↔
      ∃ e ∈ evs, cancels e = true :=
  ctx_teardown_iff_remote genWatchRules genWatchRules_sound l ns typ id evs hc hpc

/-- **the watch fails ⇒ the context is cancelled**: whatever else the server-side watch delivered,
    once it reports its failure the holder of the context is told -/
theorem watch_failure_cancels_over_grpc (l : Local) (ns typ id : String) (pre post : List Event)
    (hc : l.call = .ctxTeardown ns typ id) (hpc : l.pc = .recv) :
    ∃ cause, (consume l ((pre ++ erroredEvent :: post).filterMap (wireDeliver .watch))).pc = .done (.cancelled cause) :=
  (ctx_teardown_iff_over_grpc l ns typ id _ hc hpc).2 ⟨erroredEvent, by simp, by decide⟩

/-! ### waitFinalizersEmpty over gRPC (the TeardownAndDestroy fallback, client.go:427) -/

theorem tad_wait_ends_remote (r : WatchRules) (hr : WatchSound r) (l : Local) (ns typ id owner : String)
    (evs : List Event) (hc : l.call = .tad ns typ id owner) (hpc : l.pc = .recv)
    (hex : ∃ e ∈ evs, endsWait e = true) :
    (consume l (evs.filterMap (wireDeliverWith r .watch))).pc ≠ .recv := by
  rw [delivered_all r hr]
  obtain ⟨e, he, hend⟩ := hex
  exact tad_no_missed_wakeup l ns typ id owner _ hc hpc
    ⟨wireEvent e, List.mem_map.2 ⟨e, he, rfl⟩, by rw [endsWait_wire]; exact hend⟩

theorem tad_wait_ends_over_grpc (l : Local) (ns typ id owner : String) (evs : List Event)
    (hc : l.call = .tad ns typ id owner) (hpc : l.pc = .recv) (hex : ∃ e ∈ evs, endsWait e = true) :
    (consume l (evs.filterMap (wireDeliver .watch))).pc ≠ .recv :=
  tad_wait_ends_remote genWatchRules genWatchRules_sound l ns typ id owner evs hc hpc hex

/-! ### the model of the remote path follows these rules

`HSys.stepActorVia` (what the engine `helpers` is compared with for `remote=1`) hands a watch
delivery to the helper exactly through `wireDeliverWith v.rules .watch`: when the rule withholds
the event the actor is unchanged. -/

theorem stepActorVia_withheld (v : Via) (s : HSys) (a now : Nat) (l : Local) (e : Event) (es : Delivery)
    (ha : s.actor a = some l) (hn : l.call.native = none) (hreq : l.req = some .recv)
    (hd : (s.ws.recv (actorWid a)).2 = some (e :: es)) (hw : wireDeliverWith v.rules .watch e = none) :
    (s.stepActorVia v a now).1.actor a = some l := by
  unfold HSys.stepActorVia
  simp only [ha, hn, hreq]
  cases hr : s.ws.recv (actorWid a) with
  | mk ws' d =>
    rw [hr] at hd
    simp only at hd
    subst hd
    simp only [hw]
    exact ha

/-! ### kernel-checked negative witnesses: no ApiVersion on the single-resource watch -/

def isWaiting (l : Local) : Bool :=
  match l.pc with
  | .recv => true
  | _ => false

def exCtx : Local := { call := .ctxTeardown "n1" "T1" "a", pc := .recv }
def exTadWait : Local := { call := .tad "n1" "T1" "a" "", pc := .recv }
def exRunning : Event := { typ := .created, res := { exRes with fins := ["A"] } }

/-- the server-side watch delivers the initial state and then FAILS (history overrun): with the
    seeded rule the holder of the teardown-bound context — and a TeardownAndDestroy waiting for
    finalizers through the adapter — is never told and stays blocked; with the sound rule both end -/
theorem seeded_api_swallows_watch_failure :
    isWaiting (consume exCtx ([exRunning, erroredEvent].filterMap (wireDeliverWith seededApi .watch))) = true ∧
    isWaiting (consume exTadWait ([exRunning, erroredEvent].filterMap (wireDeliverWith seededApi .watch))) = true ∧
    isWaiting (consume exCtx ([exRunning, erroredEvent].filterMap (wireDeliverWith goodWatchRules .watch))) = false ∧
    isWaiting (consume exTadWait ([exRunning, erroredEvent].filterMap (wireDeliverWith goodWatchRules .watch))) = false := by
  decide

/-- everything but the failure still arrives under the seeded rule: a teardown or destruction of
    the resource cancels the context as before — which is why nothing notices in ordinary use -/
theorem seeded_api_ordinary_use_unaffected :
    isWaiting (consume exCtx ([exRunning, { typ := .updated, res := { exRes with phase := .tearingDown } }].filterMap
      (wireDeliverWith seededApi .watch))) = false ∧
    isWaiting (consume exCtx ([exRunning, { typ := .destroyed, res := exRes }].filterMap
      (wireDeliverWith seededApi .watch))) = false := by
  decide

end Cosi.C03R
