/-
  Property C03, tie to the source text — the blocking lifecycle helpers of pkg/state/wrap.go (Teardown,
  TeardownAndDestroy + waitFinalizersEmpty, WatchFor + WatchForCondition.Matches, ContextWithTeardown) as the machine
  whose decision points are regenerated facts (Cosi.Model.WrapRules; `RLocal.resume = resumeWith genRules`).

    genRules_good                  the CURRENT wrap.go / condition.go implement the intended rules (Cosi.Gen.Wrap)
    teardown_ready_sound_gen       rests on genRules.rmw    (teardownFrame, teardownReadyFrom, uwc…, modify…)
    tad_success_means_gone_gen     rests on genRules.rmw and genRules.wait (waitFrame, tadFrame, waitAct)
    tad_no_missed_wakeup_gen       rests on genRules.wait
    watchfor_first_match_gen       rests on genRules.guards (watchForFrame, matchGuards, matchFallthrough)
    ctx_teardown_iff_gen           rests on genRules.ctx    (ctxFrame, ctxAct)
                                   — the theorems of Props/C03 for the machine generated from the current source
    stale_ready_unsound / stale_ready_witness      rule "ready from the pre-update Get": teardown_ready_sound fails
    ignore_created_misses_wakeup (+ _run)          rule "waitFinalizersEmpty ignores Created": tad_no_missed_wakeup fails
    early_return_matches_wrong_state               rule "Matches returns from the finalizers-empty guard": watchfor_first_match fails
                                   — kernel-checked negative witnesses on short schedules
-/
import Cosi.Props.WrapSim
import Cosi.Model.WrapGen
open Cosi Cosi.WR Cosi.C04 Cosi.WrapSim
namespace Cosi.C03Gen

/-! ### the tie -/

/-- **the rules regenerated from wrap.go / condition.go are the intended ones** -/
theorem genRules_good : genRules = goodRules := by decide

/-- the parts the single helpers look at -/
theorem genRules_rmw : genRules.rmw = goodRules.rmw := by decide
theorem genRules_wait : genRules.wait = goodRules.wait := by decide
theorem genRules_ctx : genRules.ctx = goodRules.ctx := by decide
theorem genRules_guards : genRules.guards = goodRules.guards := by decide

/-! ### Teardown -/

/-- **Teardown (as generated from the current source) reports ready-to-destroy only if the finalizer set was empty
    when the teardown took effect**: `ready = true` only on the Get that found the resource already tearing down
    (that value has no finalizers) or on the response of its own committed Update (the value it stored has none). -/
theorem teardown_ready_sound_gen (x : RLocal) (ns typ id owner : String) (resp : Resp)
    (hc : x.l.call = .teardown ns typ id owner) (hnd : ∀ r, x.l.pc ≠ .done r)
    (h : (x.resume resp).l.pc = .done (.ready true)) :
    (∃ cur, resp = .out (.res cur) ∧ cur.fins = []) ∨ (∃ r', resp = .out (.wrote r') ∧ r'.fins = []) := by
  have hag : agreeOn x.l genRules goodRules := agreeOn_rmw x.l (by rw [hc]; rfl) _ _ (by decide : genRules.rmw = goodRules.rmw)
  have hs : (x.resume resp).l = x.l.resume resp := resumeWith_sim genRules x resp hag
  rw [hs] at h
  exact C03.teardown_ready_sound x.l ns typ id owner resp hc hnd h

/-! ### TeardownAndDestroy -/

/-- **TeardownAndDestroy returns success only once the resource is gone** (generated machine) -/
theorem tad_success_means_gone_gen (x : RLocal) (ns typ id owner : String) (resp : Resp)
    (hc : x.l.call = .tad ns typ id owner) (hnd : ∀ r, x.l.pc ≠ .done r)
    (h : (x.resume resp).l.pc = .done .ok) :
    (x.l.pc = .destroy ∧ resp = .out .ok) ∨ (x.l.pc = .recv ∧ ∃ e, resp = .event e ∧ e.typ = .destroyed) := by
  have hag : agreeOn x.l genRules goodRules := by
    unfold agreeOn; rw [hc]; exact ⟨(by decide : genRules.rmw = goodRules.rmw), (by decide : genRules.wait = goodRules.wait)⟩
  have hs : (x.resume resp).l = x.l.resume resp := resumeWith_sim genRules x resp hag
  rw [hs] at h
  exact C03.tad_success_means_gone x.l ns typ id owner resp hc hnd h

/-- … of the machine generated from the current source -/
def consume (x : RLocal) (evs : List Event) : RLocal := consumeWith genRules x evs

/-- **No missed wake-up between marking and waiting** (generated machine): whatever the watch delivers to a
    TeardownAndDestroy waiting for the finalizers to go — the initial `Created` snapshot included — the first event
    that shows the resource destroyed or with an empty finalizer set (or a failed watch) ends the wait. -/
theorem tad_no_missed_wakeup_gen (x : RLocal) (ns typ id owner : String) (evs : List Event)
    (hc : x.l.call = .tad ns typ id owner) (hpc : x.l.pc = .recv) (hex : ∃ e ∈ evs, C03.endsWait e = true) :
    (consume x evs).l.pc ≠ .recv := by
  unfold consume
  rw [consumeWith_sim genRules evs x (by unfold agreeCall; rw [hc]; exact ⟨(by decide : genRules.rmw = goodRules.rmw), (by decide : genRules.wait = goodRules.wait)⟩)]
  exact C03.tad_no_missed_wakeup x.l ns typ id owner evs hc hpc hex

/-- non-vacuity of `tad_no_missed_wakeup_gen`: tearing down, finalizer A pending / no finalizer -/
def tdA : Res := { exRes with phase := .tearingDown, fins := ["A"], ver := some 2 }
def tdNone : Res := { exRes with phase := .tearingDown, ver := some 3 }

def waitingTad : RLocal := { l := { call := .tad "n1" "T1" "a" "", pc := .recv } }

example : C03.endsWait { typ := .created, res := tdNone } = true := by decide
example : isRecv (consume waitingTad [{ typ := .created, res := tdA }]).l.pc = true := by decide
example : isRecv (consume waitingTad [{ typ := .created, res := tdA }, { typ := .updated, res := tdNone }]).l.pc = false := by
  decide

/-! ### WatchFor -/

/-- **WatchFor returns the first state satisfying its whole condition, including the state at call time**
    (generated machine: the guards of the current `WatchForCondition.Matches`, each evaluated) -/
theorem watchfor_first_match_gen (x : RLocal) (ns typ id : String) (c : Cond) (evs : List Event)
    (hc : x.l.call = .watchFor ns typ id c) (hpc : x.l.pc = .recv) :
    (consume x evs).l.pc = match evs.find? c.matches with
      | some e => .done (.okRes e.res)
      | none => .recv := by
  unfold consume
  rw [consumeWith_sim genRules evs x (by unfold agreeCall; rw [hc]; exact (by decide : genRules.guards = goodRules.guards))]
  exact C03.watchfor_first_match x.l ns typ id c evs hc hpc

/-- the guard chain of the current `Matches` is the conjunction of all configured conditions -/
theorem matches_gen (c : Cond) (e : Event) : matchesWith genRules.guards c e = c.matches e := by
  rw [(by decide : genRules.guards = goodRules.guards)]; exact matchesWith_good c e

/-! ### teardown-bound contexts -/

/-- **A teardown-bound context is cancelled iff the resource is, or becomes, torn down, destroyed or absent (or the
    watch fails)** (generated machine) -/
theorem ctx_teardown_iff_gen (x : RLocal) (ns typ id : String) (evs : List Event)
    (hc : x.l.call = .ctxTeardown ns typ id) (hpc : x.l.pc = .recv) :
    (∃ cause, (consume x evs).l.pc = .done (.cancelled cause)) ↔ ∃ e ∈ evs, C03.cancels e = true := by
  unfold consume
  rw [consumeWith_sim genRules evs x (by unfold agreeCall; rw [hc]; exact (by decide : genRules.ctx = goodRules.ctx))]
  exact C03.ctx_teardown_iff x.l ns typ id evs hc hpc

/-! ### negative witnesses: other rules at the same decision points violate the statements (kernel-checked) -/

/-- the rule "readiness from the value the initial Get read" (teardownReadyFrom = .initialGet) -/
def ruleStaleReady : Rules := { goodRules with rmw := { goodRules.rmw with readyFrom := .initialGet } }

/-- the rule "waitFinalizersEmpty ignores Created" (waitAct .created = .ignore) -/
def ruleIgnoreCreated : Rules := { goodRules with wait := { goodRules.wait with created := .ignore } }

/-- the rule "Matches returns straight from the finalizers-empty (and phases) guard" -/
def ruleEarlyReturn : Rules :=
  { goodRules with guards := [(.eventTypes, .denyOnly), (.resourceNil, .denyOnly), (.condFunc, .denyOnly),
                              (.finsEmpty, .decides), (.phases, .decides)] }

/-- `teardown_ready_sound_gen` is false for the rule "ready from the pre-update Get": the Update that took the
    teardown into effect stored a value WITH a finalizer, the call still reports ready -/
theorem stale_ready_unsound :
    ∃ (x : RLocal) (resp : Resp), x.l.call = .teardown "n1" "T1" "a" "" ∧ (∀ r, x.l.pc ≠ .done r) ∧
      retOf (x.resumeWith ruleStaleReady resp) = some (.ready true) ∧
      ¬ ((∃ cur, resp = .out (.res cur) ∧ cur.fins = []) ∨ (∃ r', resp = .out (.wrote r') ∧ r'.fins = [])) := by
  refine ⟨{ l := { call := .teardown "n1" "T1" "a" "", pc := .uwcUpdate { exRes with fins := ["A"], ver := some 2 } tdA,
                    um := .setPhaseTD, uexp := some .running }, tcur := some exRes },
          .out (.wrote { tdA with ver := some 3 }), rfl, ?_, ?_, ?_⟩
  · intro r h; cases h
  · decide
  · rintro (⟨cur, h, _⟩ | ⟨r', h, hf⟩)
    · cases h
    · injection h with h; injection h with h; subst h; revert hf; decide

/-- Teardown and a concurrent AddFinalizer(A) on a running resource without finalizers -/
def staleSys : RCSys :=
  { store := [(wKey, exRes)],
    actors := [RLocal.start (.teardown "n1" "T1" "a" ""), RLocal.start (.addFin "n1" "T1" "a" ["A"])] }

/-- Teardown's Get · the whole AddFinalizer (Get, Get, Update) · Teardown's UpdateWithConflicts (Get, Update) -/
def staleSched : List Sched := [.actor 0, .actor 1, .actor 1, .actor 1, .actor 0, .actor 0]

/-- **ready although a finalizer is pending**: with the rule "ready from the pre-update Get" Teardown returns
    ready = true while the resource it has just torn down holds finalizer A … -/
theorem stale_ready_witness :
    ((staleSys.runWith ruleStaleReady {} 1 staleSched).actors.map retOf) = [some (.ready true), some .ok] ∧
    ((staleSys.runWith ruleStaleReady {} 1 staleSched).store.get wKey).map (fun r => (r.phase, r.fins)) =
      some (.tearingDown, ["A"]) := by decide

/-- … whereas the intended rule reports not ready -/
theorem stale_ready_good :
    ((staleSys.runWith goodRules {} 1 staleSched).actors.map retOf) = [some (.ready false), some .ok] := by decide

/-- **a missed wake-up**: `tad_no_missed_wakeup_gen` is false for the rule "ignore Created" — the watch's initial
    snapshot shows the resource tearing down with NO finalizers (the last one was removed between Teardown and
    Watch), nothing else will ever be delivered, and the helper keeps waiting -/
theorem ignore_created_misses_wakeup :
    C03.endsWait { typ := .created, res := tdNone } = true ∧
    isRecv (consumeWith ruleIgnoreCreated waitingTad [{ typ := .created, res := tdNone }]).l.pc = true ∧
    isRecv (consumeWith goodRules waitingTad [{ typ := .created, res := tdNone }]).l.pc = false := by decide

/-- the same on the whole system with its watch machinery: TeardownAndDestroy on a resource holding finalizer A;
    the finalizer is removed after Teardown returned not-ready and before the Watch is established -/
def missSys : RHSys :=
  (({ } : RHSys).envOp 1 (.create { exRes with ver := none, fins := ["A"] } "")).1.spawn 1 (.tad "n1" "T1" "a" "")

/-- tad: Get, Get, Update (not ready) · environment: RemoveFinalizer(A) · tad: Watch, receive the snapshot -/
def missRun (r : Rules) : RHSys :=
  let s := (missSys.stepActorWith r 1 2).1
  let s := (s.stepActorWith r 1 3).1
  let s := (s.stepActorWith r 1 4).1
  let s := (s.envMod 5 "n1" "T1" "a" (.removeFins ["A"])).1
  let s := (s.stepActorWith r 1 6).1
  (s.stepActorWith r 1 7).1

def outName : StepOut → String
  | .noActor => "noactor" | .finished _ => "finished" | .blocked => "blocked" | .did .. => "did"

/-- with the rule "ignore Created" the helper is blocked for good on a destroyable resource (its next step finds no
    event; nothing is pending), with the intended rule it has moved on to its Destroy -/
theorem ignore_created_misses_wakeup_run :
    ((missRun ruleIgnoreCreated).actor 1).map (fun x => isRecv x.l.pc) = some true ∧
    outName ((missRun ruleIgnoreCreated).stepActorWith ruleIgnoreCreated 1 8).2 = "blocked" ∧
    ((missRun ruleIgnoreCreated).ws.store.get wKey).map (fun r => (r.phase, r.fins)) = some (.tearingDown, []) ∧
    ((missRun goodRules).actor 1).map (fun x => isRecv x.l.pc) = some false ∧
    outName ((missRun goodRules).stepActorWith goodRules 1 8).2 = "did" ∧
    (((missRun goodRules).stepActorWith goodRules 1 8).1.ws.store.get wKey).isNone = true := by decide

/-- the "safe to destroy" wait: finalizers empty AND phase tearing-down -/
def condDestroyReady : Cond := { finsEmpty := true, phases := some [.tearingDown] }

def waitingWatchFor : RLocal := { l := { call := .watchFor "n1" "T1" "a" condDestroyReady, pc := .recv } }

/-- **a state that does not satisfy the condition is returned**: `watchfor_first_match_gen` is false for the rule
    "return from the finalizers-empty guard" — WatchFor(finalizers empty, phase tearing-down) returns the RUNNING
    resource of the initial snapshot, which does not match the condition -/
theorem early_return_matches_wrong_state :
    condDestroyReady.matches { typ := .created, res := exRes } = false ∧
    retOf (consumeWith ruleEarlyReturn waitingWatchFor [{ typ := .created, res := exRes }]) = some (.okRes exRes) ∧
    retOf (consumeWith goodRules waitingWatchFor [{ typ := .created, res := exRes }]) = none := by decide

end Cosi.C03Gen
