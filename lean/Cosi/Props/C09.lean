/-
  Property C09 — reconcile queue: per-item exclusion, coalescing, no loss, honoured
  backoff, growing error backoff that resets on success, Len = pending + held back.

  All theorems quantify over ALL step sequences (`List Step`, induction), i.e. all
  interleavings of Put / Get / Release / Requeue / clock advance over any keys; the
  worker layer (`W`, any number of workers) is tied in by `compile_valid` /
  `compile_run`. The model consumes the regenerated facts `Cosi.Gen.Queue.*`
  (overwrite flags of the three Push calls, parked-value re-push, backoff construction,
  cenkalti constants): an edit of /repo that changes one of them breaks these proofs.
-/
import Cosi.Model.Queue
import Cosi.Spec.Queue

namespace Cosi.C09

open Cosi Cosi.Queue Cosi.Queue.PQ

/-! ### priority-queue lemmas -/

def Sorted (pq : PQ) : Prop := pq.Pairwise (fun a b => a.due ≤ b.due)

/-- **Obligation (latest value).** A Put for a key that is being processed parks the value given — the latest
    one replaces whatever was parked (`Gen.Queue.onHoldPutKeepsLatest`, regenerated from queue.go's put arm). -/
@[simp] theorem parkValue_latest (k v : Nat) (ohq : List (Nat × Nat)) : parkValue k v ohq = amSet k v ohq := by
  simp [parkValue, Gen.Queue.onHoldPutKeepsLatest]

theorem mem_insert (e x : Entry) (pq : PQ) : x ∈ ins e pq ↔ x = e ∨ x ∈ pq := by
  induction pq with
  | nil => simp [ins]
  | cons y ys ih =>
    unfold ins
    by_cases h : y.due ≤ e.due
    · simp only [h, if_true, List.mem_cons, ih]
      constructor
      · rintro (h1 | h1 | h1) <;> simp [h1]
      · rintro (h1 | h1 | h1) <;> simp [h1]
    · simp [h]

theorem length_insert (e : Entry) (pq : PQ) : (ins e pq).length = pq.length + 1 := by
  induction pq with
  | nil => simp [ins]
  | cons y ys ih =>
    unfold ins
    by_cases h : y.due ≤ e.due <;> simp [h, ih]

theorem keys_insert (e : Entry) (pq : PQ) (k : Nat) :
    k ∈ keys (ins e pq) ↔ k = e.key ∨ k ∈ keys pq := by
  simp only [keys, List.mem_map, mem_insert]
  constructor
  · rintro ⟨x, (h | h), rfl⟩
    · exact Or.inl (by rw [h])
    · exact Or.inr ⟨x, h, rfl⟩
  · rintro (h | ⟨x, h, rfl⟩)
    · exact ⟨e, Or.inl rfl, h.symm⟩
    · exact ⟨x, Or.inr h, rfl⟩

theorem sorted_insert (e : Entry) (pq : PQ) (h : Sorted pq) : Sorted (ins e pq) := by
  induction pq with
  | nil => simp [ins, Sorted]
  | cons y ys ih =>
    unfold Sorted at h ih ⊢
    rw [List.pairwise_cons] at h
    unfold ins
    by_cases hy : y.due ≤ e.due
    · simp only [hy, if_true, List.pairwise_cons]
      refine ⟨?_, ih h.2⟩
      intro x hx
      rcases (mem_insert e x ys).1 hx with rfl | hx
      · exact hy
      · exact h.1 x hx
    · simp only [hy, if_false, List.pairwise_cons]
      refine ⟨?_, h.1, h.2⟩
      intro x hx
      rcases List.mem_cons.1 hx with rfl | hx
      · omega
      · have := h.1 x hx; omega

theorem nodup_insert (e : Entry) (pq : PQ) (hk : e.key ∉ keys pq) (h : (keys pq).Nodup) :
    (keys (ins e pq)).Nodup := by
  induction pq with
  | nil => simp [ins, keys]
  | cons y ys ih =>
    have hk' : e.key ≠ y.key ∧ e.key ∉ keys ys := by
      simpa [keys] using hk
    have h' : y.key ∉ keys ys ∧ (keys ys).Nodup := by
      simpa [keys, List.nodup_cons] using h
    unfold ins
    by_cases hy : y.due ≤ e.due
    · simp only [hy, if_true]
      show (y.key :: keys (ins e ys)).Nodup
      rw [List.nodup_cons]
      refine ⟨?_, ih hk'.2 h'.2⟩
      rw [keys_insert]
      rintro (h1 | h1)
      · exact hk'.1 h1.symm
      · exact h'.1 h1
    · simp only [hy, if_false]
      show (e.key :: keys (y :: ys)).Nodup
      rw [List.nodup_cons]
      exact ⟨hk, h⟩

theorem lookup_none_iff (k : Nat) (pq : PQ) : lookup k pq = none ↔ k ∉ keys pq := by
  induction pq with
  | nil => simp [lookup, keys]
  | cons y ys ih =>
    unfold lookup
    by_cases h : y.key = k
    · simp [h, keys]
    · simp only [h, if_false, ih]
      simp only [keys, List.map_cons, List.mem_cons, not_or]
      constructor
      · intro h1; exact ⟨fun e => h e.symm, h1⟩
      · intro h1; exact h1.2

theorem lookup_some (k : Nat) (pq : PQ) (e : Entry) (h : lookup k pq = some e) :
    e ∈ pq ∧ e.key = k := by
  induction pq with
  | nil => simp [lookup] at h
  | cons y ys ih =>
    unfold lookup at h
    by_cases hy : y.key = k
    · simp only [hy, if_true, Option.some.injEq] at h
      subst h
      exact ⟨List.mem_cons_self, hy⟩
    · simp only [hy, if_false] at h
      exact ⟨List.mem_cons_of_mem _ (ih h).1, (ih h).2⟩

theorem lookup_mem_keys (k : Nat) (pq : PQ) (e : Entry) (h : lookup k pq = some e) : k ∈ keys pq := by
  have := lookup_some k pq e h
  exact List.mem_map.2 ⟨e, this.1, this.2⟩

theorem lookup_of_mem (pq : PQ) (e : Entry) (hn : (keys pq).Nodup) (h : e ∈ pq) :
    lookup e.key pq = some e := by
  induction pq with
  | nil => simp at h
  | cons y ys ih =>
    have h' : y.key ∉ keys ys ∧ (keys ys).Nodup := by
      simpa [keys, List.nodup_cons] using hn
    unfold lookup
    rcases List.mem_cons.1 h with rfl | hm
    · simp
    · have : y.key ≠ e.key := by
        intro heq
        exact h'.1 (heq ▸ List.mem_map.2 ⟨e, hm, rfl⟩)
      simp only [this, if_false]
      exact ih h'.2 hm

theorem lookup_insert_self (e : Entry) (pq : PQ) (hk : e.key ∉ keys pq) :
    lookup e.key (ins e pq) = some e := by
  induction pq with
  | nil => simp [ins, lookup]
  | cons y ys ih =>
    have hk' : e.key ≠ y.key ∧ e.key ∉ keys ys := by
      simpa [keys] using hk
    unfold ins
    by_cases hy : y.due ≤ e.due
    · simp only [hy, if_true]
      unfold lookup
      have : y.key ≠ e.key := fun h => hk'.1 h.symm
      simp only [this, if_false]
      exact ih hk'.2
    · simp [hy, lookup]

theorem lookup_insert_other (e : Entry) (pq : PQ) (k : Nat) (hk : k ≠ e.key) :
    lookup k (ins e pq) = lookup k pq := by
  induction pq with
  | nil =>
    have : e.key ≠ k := fun h => hk h.symm
    simp [ins, lookup, this]
  | cons y ys ih =>
    unfold ins
    by_cases hy : y.due ≤ e.due
    · simp only [hy, if_true]
      unfold lookup
      by_cases hyk : y.key = k
      · simp [hyk]
      · simp only [hyk, if_false]; exact ih
    · simp only [hy, if_false]
      have : e.key ≠ k := fun h => hk h.symm
      conv => lhs; unfold lookup
      simp only [this, if_false]

/-! `del` -/

theorem del_sublist (k : Nat) (pq : PQ) : (del k pq).Sublist pq := by
  induction pq with
  | nil => simp [del]
  | cons y ys ih =>
    unfold del
    by_cases h : y.key = k
    · simp [h]
    · simp only [h, if_false]; exact ih.cons_cons y

theorem sorted_del (k : Nat) (pq : PQ) (h : Sorted pq) : Sorted (del k pq) :=
  List.Pairwise.sublist (del_sublist k pq) h

theorem keys_del_sublist (k : Nat) (pq : PQ) : (keys (del k pq)).Sublist (keys pq) :=
  (del_sublist k pq).map _

theorem nodup_del (k : Nat) (pq : PQ) (h : (keys pq).Nodup) : (keys (del k pq)).Nodup :=
  List.Pairwise.sublist (keys_del_sublist k pq) h

theorem keys_del (k k' : Nat) (pq : PQ) (hn : (keys pq).Nodup) :
    k' ∈ keys (del k pq) ↔ k' ≠ k ∧ k' ∈ keys pq := by
  induction pq with
  | nil => simp [del, keys]
  | cons y ys ih =>
    have h' : y.key ∉ keys ys ∧ (keys ys).Nodup := by
      simpa [keys, List.nodup_cons] using hn
    unfold del
    by_cases h : y.key = k
    · simp only [h, if_true]
      subst h
      constructor
      · intro hm
        refine ⟨?_, List.mem_cons_of_mem _ hm⟩
        rintro rfl; exact h'.1 hm
      · rintro ⟨hne, hm⟩
        rcases List.mem_cons.1 hm with h1 | h1
        · exact absurd h1 hne
        · exact h1
    · simp only [h, if_false]
      show k' ∈ y.key :: keys (del k ys) ↔ k' ≠ k ∧ k' ∈ y.key :: keys ys
      simp only [List.mem_cons, ih h'.2]
      constructor
      · rintro (h1 | h1)
        · exact ⟨by rw [h1]; exact h, Or.inl h1⟩
        · exact ⟨h1.1, Or.inr h1.2⟩
      · rintro ⟨h1, h2 | h2⟩
        · exact Or.inl h2
        · exact Or.inr ⟨h1, h2⟩

theorem length_del (k : Nat) (pq : PQ) (h : k ∈ keys pq) : (del k pq).length + 1 = pq.length := by
  induction pq with
  | nil => simp [keys] at h
  | cons y ys ih =>
    unfold del
    by_cases hy : y.key = k
    · simp [hy]
    · simp only [hy, if_false, List.length_cons]
      have : k ∈ keys ys := by
        rcases List.mem_cons.1 h with h1 | h1
        · exact absurd h1.symm hy
        · exact h1
      rw [ih this]

theorem lookup_del_other (k k' : Nat) (pq : PQ) (h : k' ≠ k) : lookup k' (del k pq) = lookup k' pq := by
  induction pq with
  | nil => simp [del]
  | cons y ys ih =>
    unfold del
    by_cases hy : y.key = k
    · have : y.key ≠ k' := fun e => h (by rw [← e, hy])
      simp only [hy, if_true]
      conv => rhs; unfold lookup
      simp only [hy]
      have hk : k ≠ k' := fun e => h e.symm
      simp [hk]
    · simp only [hy, if_false]
      unfold lookup
      by_cases hyk : y.key = k'
      · simp [hyk]
      · simp only [hyk, if_false]; exact ih

/-! `setVal` -/

theorem keys_setVal (k v : Nat) (pq : PQ) : keys (setVal k v pq) = keys pq := by
  induction pq with
  | nil => simp [setVal]
  | cons y ys ih =>
    unfold setVal
    by_cases hy : y.key = k
    · simp [hy, keys]
    · simp only [hy, if_false]
      show y.key :: keys (setVal k v ys) = y.key :: keys ys
      rw [ih]

theorem dues_setVal (k v : Nat) (pq : PQ) : (setVal k v pq).map Entry.due = pq.map Entry.due := by
  induction pq with
  | nil => simp [setVal]
  | cons y ys ih =>
    unfold setVal
    by_cases hy : y.key = k
    · simp [hy]
    · simp [hy, ih]

theorem sorted_iff_dues (pq : PQ) : Sorted pq ↔ (pq.map Entry.due).Pairwise (· ≤ ·) := by
  unfold Sorted
  rw [List.pairwise_map]

theorem sorted_setVal (k v : Nat) (pq : PQ) (h : Sorted pq) : Sorted (setVal k v pq) := by
  rw [sorted_iff_dues] at h ⊢
  rw [dues_setVal]; exact h

theorem length_setVal (k v : Nat) (pq : PQ) : (setVal k v pq).length = pq.length := by
  have := congrArg List.length (keys_setVal k v pq)
  simpa [keys] using this

theorem lookup_setVal_self (k v : Nat) (pq : PQ) (e : Entry) (h : lookup k pq = some e) :
    lookup k (setVal k v pq) = some { e with val := v } := by
  induction pq with
  | nil => simp [lookup] at h
  | cons y ys ih =>
    unfold lookup at h
    unfold setVal
    by_cases hy : y.key = k
    · simp only [hy, if_true, Option.some.injEq] at h
      subst h
      simp [hy, lookup]
    · simp only [hy, if_false] at h ⊢
      unfold lookup
      simp only [hy, if_false]
      exact ih h

theorem lookup_setVal_other (k k' v : Nat) (pq : PQ) (h : k' ≠ k) :
    lookup k' (setVal k v pq) = lookup k' pq := by
  induction pq with
  | nil => simp [setVal]
  | cons y ys ih =>
    unfold setVal
    by_cases hy : y.key = k
    · have : y.key ≠ k' := fun e => h (by rw [← e, hy])
      simp [hy, lookup]
      have hk : k ≠ k' := fun e => h e.symm
      simp [hk]
    · simp only [hy, if_false]
      unfold lookup
      by_cases hyk : y.key = k'
      · simp [hyk]
      · simp only [hyk, if_false]; exact ih

/-! `push` -/

/-- the `if overwriteValue { items[idx].Value = value }` part of Push -/
def ow1 (pq : PQ) (k v : Nat) (ow : Bool) : PQ := if ow then setVal k v pq else pq

theorem keys_ow1 (pq : PQ) (k v : Nat) (ow : Bool) : keys (ow1 pq k v ow) = keys pq := by
  unfold ow1; cases ow <;> simp [keys_setVal]

theorem sorted_ow1 (pq : PQ) (k v : Nat) (ow : Bool) (h : Sorted pq) : Sorted (ow1 pq k v ow) := by
  unfold ow1; cases ow
  · simpa using h
  · simpa using sorted_setVal k v pq h

theorem length_ow1 (pq : PQ) (k v : Nat) (ow : Bool) : (ow1 pq k v ow).length = pq.length := by
  unfold ow1; cases ow <;> simp [length_setVal]

theorem lookup_ow1_other (pq : PQ) (k k' v : Nat) (ow : Bool) (h : k' ≠ k) :
    lookup k' (ow1 pq k v ow) = lookup k' pq := by
  unfold ow1; cases ow
  · simp
  · simpa using lookup_setVal_other k k' v pq h

theorem lookup_ow1_self (pq : PQ) (k v : Nat) (ow : Bool) (e : Entry) (h : lookup k pq = some e) :
    lookup k (ow1 pq k v ow) = some { e with val := if ow then v else e.val } := by
  unfold ow1; cases ow
  · simpa using h
  · simpa using lookup_setVal_self k v pq e h

theorem push_none (pq : PQ) (k v t : Nat) (ow : Bool) (h : lookup k pq = none) :
    push pq k v t ow = (ins ⟨k, v, t⟩ pq, true) := by
  simp [push, h]

theorem push_some (pq : PQ) (k v t : Nat) (ow : Bool) (e : Entry) (h : lookup k pq = some e) :
    push pq k v t ow =
      if t > e.due then (ow1 pq k v ow, false) else (ins ⟨k, v, t⟩ (del k (ow1 pq k v ow)), false) := by
  simp [push, h, ow1, Gen.Queue.pqPushKeepsIfLater]

theorem push_added (pq : PQ) (k v t : Nat) (ow : Bool) : (push pq k v t ow).2 = true ↔ k ∉ keys pq := by
  cases h : lookup k pq with
  | none => simp [push_none _ _ _ _ _ h, (lookup_none_iff k pq).1 h]
  | some e =>
    have hk := lookup_mem_keys k pq e h
    rw [push_some _ _ _ _ _ e h]
    by_cases ht : t > e.due <;> simp [ht, hk]

theorem push_sorted (pq : PQ) (k v t : Nat) (ow : Bool) (hs : Sorted pq) : Sorted (push pq k v t ow).1 := by
  cases h : lookup k pq with
  | none => rw [push_none _ _ _ _ _ h]; exact sorted_insert _ _ hs
  | some e =>
    rw [push_some _ _ _ _ _ e h]
    by_cases ht : t > e.due
    · simp only [ht, if_true]; exact sorted_ow1 _ _ _ _ hs
    · simp only [ht, if_false]
      exact sorted_insert _ _ (sorted_del _ _ (sorted_ow1 _ _ _ _ hs))

theorem push_nodup (pq : PQ) (k v t : Nat) (ow : Bool) (hn : (keys pq).Nodup) :
    (keys (push pq k v t ow).1).Nodup := by
  cases h : lookup k pq with
  | none =>
    rw [push_none _ _ _ _ _ h]
    exact nodup_insert _ _ ((lookup_none_iff k pq).1 h) hn
  | some e =>
    rw [push_some _ _ _ _ _ e h]
    have hn1 : (keys (ow1 pq k v ow)).Nodup := by rw [keys_ow1]; exact hn
    by_cases ht : t > e.due
    · simp only [ht, if_true]; exact hn1
    · simp only [ht, if_false]
      refine nodup_insert _ _ ?_ (nodup_del _ _ hn1)
      intro hm
      exact ((keys_del k k _ hn1).1 hm).1 rfl

theorem push_keys (pq : PQ) (k v t : Nat) (ow : Bool) (hn : (keys pq).Nodup) (k' : Nat) :
    k' ∈ keys (push pq k v t ow).1 ↔ k' = k ∨ k' ∈ keys pq := by
  cases h : lookup k pq with
  | none => rw [push_none _ _ _ _ _ h]; exact keys_insert _ _ _
  | some e =>
    have hk := lookup_mem_keys k pq e h
    rw [push_some _ _ _ _ _ e h]
    have hn1 : (keys (ow1 pq k v ow)).Nodup := by rw [keys_ow1]; exact hn
    by_cases ht : t > e.due
    · simp only [ht, if_true, keys_ow1]
      constructor
      · exact Or.inr
      · rintro (rfl | h1)
        · exact hk
        · exact h1
    · simp only [ht, if_false, keys_insert, keys_del k k' _ hn1, keys_ow1]
      constructor
      · rintro (h1 | h1)
        · exact Or.inl h1
        · exact Or.inr h1.2
      · rintro (h1 | h1)
        · exact Or.inl h1
        · by_cases hkk : k' = k
          · exact Or.inl hkk
          · exact Or.inr ⟨hkk, h1⟩

theorem push_length (pq : PQ) (k v t : Nat) (ow : Bool) :
    (push pq k v t ow).1.length = pq.length + (if (push pq k v t ow).2 then 1 else 0) := by
  cases h : lookup k pq with
  | none => rw [push_none _ _ _ _ _ h]; simp [length_insert]
  | some e =>
    have hk := lookup_mem_keys k pq e h
    rw [push_some _ _ _ _ _ e h]
    by_cases ht : t > e.due
    · simp [ht, length_ow1]
    · simp only [ht, if_false, length_insert]
      have hk1 : k ∈ keys (ow1 pq k v ow) := by rw [keys_ow1]; exact hk
      have := length_del k _ hk1
      rw [length_ow1] at this
      simp; omega

theorem push_lookup_other (pq : PQ) (k v t : Nat) (ow : Bool) (k' : Nat) (hne : k' ≠ k) :
    lookup k' (push pq k v t ow).1 = lookup k' pq := by
  cases h : lookup k pq with
  | none => rw [push_none _ _ _ _ _ h]; exact lookup_insert_other _ _ _ hne
  | some e =>
    rw [push_some _ _ _ _ _ e h]
    by_cases ht : t > e.due
    · simp only [ht, if_true]; exact lookup_ow1_other _ _ _ _ _ hne
    · simp only [ht, if_false]
      rw [lookup_insert_other _ _ _ hne, lookup_del_other _ _ _ hne, lookup_ow1_other _ _ _ _ _ hne]

theorem push_new (pq : PQ) (k v t : Nat) (ow : Bool) (h : lookup k pq = none) :
    lookup k (push pq k v t ow).1 = some ⟨k, v, t⟩ := by
  rw [push_none _ _ _ _ _ h]
  exact lookup_insert_self ⟨k, v, t⟩ pq ((lookup_none_iff k pq).1 h)

theorem push_later (pq : PQ) (k v t : Nat) (ow : Bool) (e : Entry) (h : lookup k pq = some e)
    (ht : t > e.due) :
    lookup k (push pq k v t ow).1 = some { e with val := if ow then v else e.val } := by
  rw [push_some _ _ _ _ _ e h]
  simp only [ht, if_true]
  exact lookup_ow1_self _ _ _ _ _ h

theorem push_earlier (pq : PQ) (k v t : Nat) (ow : Bool) (e : Entry) (h : lookup k pq = some e)
    (ht : ¬ t > e.due) (hn : (keys pq).Nodup) :
    lookup k (push pq k v t ow).1 = some ⟨k, v, t⟩ := by
  rw [push_some _ _ _ _ _ e h]
  simp only [ht, if_false]
  have hn1 : (keys (ow1 pq k v ow)).Nodup := by rw [keys_ow1]; exact hn
  refine lookup_insert_self ⟨k, v, t⟩ _ ?_
  intro hm
  exact ((keys_del k k _ hn1).1 hm).1 rfl

/-- A push with `overwriteValue = true` leaves an entry for the key that carries the pushed
    value and is due no later than the pushed time (nor later than it was before). -/
theorem push_true_spec (pq : PQ) (k v t : Nat) (hn : (keys pq).Nodup) :
    ∃ e', lookup k (push pq k v t true).1 = some e' ∧ e'.val = v ∧ e'.due ≤ t ∧
      ∀ e, lookup k pq = some e → e'.due ≤ e.due := by
  cases h : lookup k pq with
  | none => exact ⟨_, push_new _ _ _ _ _ h, rfl, Nat.le_refl _, by simp⟩
  | some e =>
    by_cases ht : t > e.due
    · refine ⟨_, push_later _ _ _ _ _ e h ht, by simp, ?_, ?_⟩
      · simp; omega
      · intro e2 h2; cases h2; simp
    · refine ⟨_, push_earlier _ _ _ _ _ e h ht hn, rfl, Nat.le_refl _, ?_⟩
      intro e2 h2; cases h2; simp; omega

/-! ### association-list (onHoldQueue) and SliceSet lemmas -/

theorem amLookup_none_iff (k : Nat) (m : List (Nat × Nat)) : amLookup k m = none ↔ k ∉ amKeys m := by
  induction m with
  | nil => simp [amLookup, amKeys]
  | cons p xs ih =>
    obtain ⟨k', v'⟩ := p
    unfold amLookup
    by_cases h : k' = k
    · simp [h, amKeys]
    · simp only [h, if_false, ih]
      simp only [amKeys, List.map_cons, List.mem_cons, not_or]
      constructor
      · intro h1; exact ⟨fun e => h e.symm, h1⟩
      · intro h1; exact h1.2

theorem amLookup_mem (k v : Nat) (m : List (Nat × Nat)) (h : amLookup k m = some v) : k ∈ amKeys m := by
  by_cases hk : k ∈ amKeys m
  · exact hk
  · rw [(amLookup_none_iff k m).2 hk] at h; cases h

theorem amKeys_amSet (k v k' : Nat) (m : List (Nat × Nat)) :
    k' ∈ amKeys (amSet k v m) ↔ k' = k ∨ k' ∈ amKeys m := by
  induction m with
  | nil => simp [amSet, amKeys]
  | cons p xs ih =>
    obtain ⟨k1, v1⟩ := p
    unfold amSet
    by_cases h : k1 = k
    · simp [h, amKeys]
    · simp only [h, if_false]
      show k' ∈ k1 :: amKeys (amSet k v xs) ↔ k' = k ∨ k' ∈ k1 :: amKeys xs
      simp only [List.mem_cons, ih]
      constructor
      · rintro (h1 | h1 | h1) <;> simp [h1]
      · rintro (h1 | h1 | h1) <;> simp [h1]

theorem amNodup_amSet (k v : Nat) (m : List (Nat × Nat)) (hn : (amKeys m).Nodup) :
    (amKeys (amSet k v m)).Nodup := by
  induction m with
  | nil => simp [amSet, amKeys]
  | cons p xs ih =>
    obtain ⟨k1, v1⟩ := p
    have h' : k1 ∉ amKeys xs ∧ (amKeys xs).Nodup := by
      simpa [amKeys, List.nodup_cons] using hn
    unfold amSet
    by_cases h : k1 = k
    · subst h
      simp only [if_true]
      show (k1 :: amKeys xs).Nodup
      exact List.nodup_cons.2 h'
    · simp only [h, if_false]
      show (k1 :: amKeys (amSet k v xs)).Nodup
      rw [List.nodup_cons]
      refine ⟨?_, ih h'.2⟩
      rw [amKeys_amSet]
      rintro (h1 | h1)
      · exact h h1
      · exact h'.1 h1

theorem amLength_amSet (k v : Nat) (m : List (Nat × Nat)) :
    (amSet k v m).length = m.length + (if (amLookup k m).isSome then 0 else 1) := by
  induction m with
  | nil => simp [amSet, amLookup]
  | cons p xs ih =>
    obtain ⟨k1, v1⟩ := p
    unfold amSet amLookup
    by_cases h : k1 = k
    · simp [h]
    · simp only [h, if_false, List.length_cons, ih]; omega

theorem amLookup_amSet_self (k v : Nat) (m : List (Nat × Nat)) : amLookup k (amSet k v m) = some v := by
  induction m with
  | nil => simp [amSet, amLookup]
  | cons p xs ih =>
    obtain ⟨k1, v1⟩ := p
    unfold amSet
    by_cases h : k1 = k
    · simp [h, amLookup]
    · simp only [h, if_false]
      unfold amLookup
      simp only [h, if_false]; exact ih

theorem amLookup_amSet_other (k v k' : Nat) (m : List (Nat × Nat)) (hne : k' ≠ k) :
    amLookup k' (amSet k v m) = amLookup k' m := by
  induction m with
  | nil =>
    have : k ≠ k' := fun e => hne e.symm
    simp [amSet, amLookup, this]
  | cons p xs ih =>
    obtain ⟨k1, v1⟩ := p
    unfold amSet
    by_cases h : k1 = k
    · have h1 : k1 ≠ k' := fun e => hne (by rw [← e, h])
      have h2 : k ≠ k' := fun e => hne e.symm
      simp [h, amLookup, h2]
    · simp only [h, if_false]
      unfold amLookup
      by_cases h1 : k1 = k'
      · simp [h1]
      · simp only [h1, if_false]; exact ih

theorem amDel_sublist (k : Nat) (m : List (Nat × Nat)) : (amDel k m).Sublist m := by
  induction m with
  | nil => simp [amDel]
  | cons p xs ih =>
    obtain ⟨k1, v1⟩ := p
    unfold amDel
    by_cases h : k1 = k
    · simp [h]
    · simp only [h, if_false]; exact ih.cons_cons _

theorem amNodup_amDel (k : Nat) (m : List (Nat × Nat)) (hn : (amKeys m).Nodup) :
    (amKeys (amDel k m)).Nodup :=
  List.Pairwise.sublist ((amDel_sublist k m).map _) hn

theorem amKeys_amDel (k k' : Nat) (m : List (Nat × Nat)) (hn : (amKeys m).Nodup) :
    k' ∈ amKeys (amDel k m) ↔ k' ≠ k ∧ k' ∈ amKeys m := by
  induction m with
  | nil => simp [amDel, amKeys]
  | cons p xs ih =>
    obtain ⟨k1, v1⟩ := p
    have h' : k1 ∉ amKeys xs ∧ (amKeys xs).Nodup := by
      simpa [amKeys, List.nodup_cons] using hn
    unfold amDel
    by_cases h : k1 = k
    · simp only [h, if_true]
      subst h
      show k' ∈ amKeys xs ↔ k' ≠ k1 ∧ k' ∈ k1 :: amKeys xs
      constructor
      · intro hm
        refine ⟨?_, List.mem_cons_of_mem _ hm⟩
        rintro rfl; exact h'.1 hm
      · rintro ⟨hne, hm⟩
        rcases List.mem_cons.1 hm with h1 | h1
        · exact absurd h1 hne
        · exact h1
    · simp only [h, if_false]
      show k' ∈ k1 :: amKeys (amDel k xs) ↔ k' ≠ k ∧ k' ∈ k1 :: amKeys xs
      simp only [List.mem_cons, ih h'.2]
      constructor
      · rintro (h1 | h1)
        · exact ⟨by rw [h1]; exact h, Or.inl h1⟩
        · exact ⟨h1.1, Or.inr h1.2⟩
      · rintro ⟨h1, h2 | h2⟩
        · exact Or.inl h2
        · exact Or.inr ⟨h1, h2⟩

theorem amLength_amDel (k : Nat) (m : List (Nat × Nat)) (h : k ∈ amKeys m) :
    (amDel k m).length + 1 = m.length := by
  induction m with
  | nil => simp [amKeys] at h
  | cons p xs ih =>
    obtain ⟨k1, v1⟩ := p
    unfold amDel
    by_cases hy : k1 = k
    · simp [hy]
    · simp only [hy, if_false, List.length_cons]
      have : k ∈ amKeys xs := by
        rcases List.mem_cons.1 h with h1 | h1
        · exact absurd h1.symm hy
        · exact h1
      rw [ih this]

theorem amLookup_amDel_other (k k' : Nat) (m : List (Nat × Nat)) (hne : k' ≠ k) :
    amLookup k' (amDel k m) = amLookup k' m := by
  induction m with
  | nil => simp [amDel]
  | cons p xs ih =>
    obtain ⟨k1, v1⟩ := p
    unfold amDel
    by_cases h : k1 = k
    · have h2 : k ≠ k' := fun e => hne e.symm
      simp only [h, if_true]
      conv => rhs; unfold amLookup
      simp [h2]
    · simp only [h, if_false]
      unfold amLookup
      by_cases h1 : k1 = k'
      · simp [h1]
      · simp only [h1, if_false]; exact ih

theorem mem_ssAdd (s : List Nat) (k k' : Nat) : k' ∈ ssAdd s k ↔ k' = k ∨ k' ∈ s := by
  unfold ssAdd
  by_cases h : k ∈ s
  · simp only [h, if_true]
    constructor
    · exact Or.inr
    · rintro (rfl | h1)
      · exact h
      · exact h1
  · simp only [h, if_false, List.mem_append, List.mem_singleton]
    constructor
    · rintro (h1 | h1)
      · exact Or.inr h1
      · exact Or.inl h1
    · rintro (h1 | h1)
      · exact Or.inr h1
      · exact Or.inl h1

theorem nodup_ssAdd (s : List Nat) (k : Nat) (hn : s.Nodup) : (ssAdd s k).Nodup := by
  unfold ssAdd
  by_cases h : k ∈ s
  · simpa [h] using hn
  · simp only [h, if_false]
    rw [List.nodup_append]
    refine ⟨hn, by simp, ?_⟩
    intro a ha b hb
    simp at hb
    subst hb
    rintro rfl; exact h ha

theorem mem_ssRemove (s : List Nat) (k k' : Nat) (hn : s.Nodup) : k' ∈ ssRemove s k ↔ k' ≠ k ∧ k' ∈ s := by
  unfold ssRemove
  exact hn.mem_erase_iff

theorem nodup_ssRemove (s : List Nat) (k : Nat) (hn : s.Nodup) : (ssRemove s k).Nodup := by
  unfold ssRemove
  exact hn.erase k

/-! ### the invariants -/

/-- The loop invariant of queue.Run. `len` is the reported-length clause of the property:
    `Len()` = pending (`pq`) + held back (`onHoldQueue`). -/
structure QInv (s : Q) : Prop where
  sorted : Sorted s.pq
  nodupKeys : (keys s.pq).Nodup
  disjoint : ∀ k, k ∈ s.onHold → k ∉ keys s.pq
  parkedHeld : ∀ k, k ∈ amKeys s.ohq → k ∈ s.onHold
  nodupHold : s.onHold.Nodup
  nodupParked : (amKeys s.ohq).Nodup
  len : s.length = (s.pq.length : Int) + (s.ohq.length : Int)

theorem inv_init : QInv init := by
  refine ⟨?_, ?_, ?_, ?_, ?_, ?_, ?_⟩ <;> simp [init, Sorted, keys, amKeys]

theorem inv_put (s : Q) (k v : Nat) (h : QInv s) : QInv (doPut s k v) := by
  unfold doPut
  by_cases hh : k ∈ s.onHold
  · simp only [hh, if_true, parkValue_latest]
    refine ⟨h.sorted, h.nodupKeys, h.disjoint, ?_, h.nodupHold, amNodup_amSet _ _ _ h.nodupParked, ?_⟩
    · intro k' hk'
      rcases (amKeys_amSet k v k' s.ohq).1 hk' with rfl | h1
      · exact hh
      · exact h.parkedHeld _ h1
    · show (if (amLookup k s.ohq).isSome then s.length else s.length + 1) = _
      have := amLength_amSet k v s.ohq
      have hl := h.len
      by_cases hs : (amLookup k s.ohq).isSome
      · simp only [hs, if_true] at this ⊢; omega
      · simp only [hs] at this ⊢; simp at this ⊢; omega
  · simp only [hh, if_false]
    refine ⟨push_sorted _ _ _ _ _ h.sorted, push_nodup _ _ _ _ _ h.nodupKeys, ?_, h.parkedHeld,
      h.nodupHold, h.nodupParked, ?_⟩
    · intro k' hk' hm
      rcases (push_keys _ _ _ _ _ h.nodupKeys k').1 hm with rfl | h1
      · exact hh hk'
      · exact h.disjoint _ hk' h1
    · have := push_length s.pq k v s.now Gen.Queue.putOverwrite
      have hl := h.len
      show (if (push s.pq k v s.now Gen.Queue.putOverwrite).2 then s.length + 1 else s.length) = _
      by_cases hs : (push s.pq k v s.now Gen.Queue.putOverwrite).2 = true
      · simp only [hs, if_true] at this ⊢; omega
      · simp only [hs] at this ⊢; simp at this ⊢; omega

theorem peek_some (pq : PQ) (now : Nat) (e : Entry) (h : peek pq now = some e) :
    ∃ rest, pq = e :: rest ∧ e.due ≤ now := by
  cases pq with
  | nil => simp [peek] at h
  | cons x xs =>
    unfold peek at h
    simp only [Gen.Queue.pqPeekDueLE, Bool.true_and, decide_eq_true_eq] at h
    by_cases hx : x.due ≤ now
    · simp only [hx, if_true, Option.some.injEq] at h
      subst h; exact ⟨xs, rfl, hx⟩
    · simp [hx] at h

theorem inv_get (s : Q) (h : QInv s) : QInv (doGet s).1 := by
  unfold doGet
  cases hp : peek s.pq s.now with
  | none => exact h
  | some e =>
    obtain ⟨rest, hpq, _⟩ := peek_some _ _ _ hp
    have hs := h.sorted
    have hn := h.nodupKeys
    have hl := h.len
    rw [hpq] at hs hn hl
    unfold Sorted at hs
    rw [List.pairwise_cons] at hs
    have hn' : e.key ∉ keys rest ∧ (keys rest).Nodup := by
      simpa [keys, List.nodup_cons] using hn
    refine ⟨?_, ?_, ?_, ?_, nodup_ssAdd _ _ h.nodupHold, h.nodupParked, ?_⟩
    · show Sorted (pop s.pq); rw [hpq]; exact hs.2
    · show (keys (pop s.pq)).Nodup; rw [hpq]; exact hn'.2
    · intro k hk
      show k ∉ keys (pop s.pq)
      rw [hpq]
      intro hm
      rcases (mem_ssAdd _ _ _).1 hk with rfl | h1
      · exact hn'.1 hm
      · exact h.disjoint k h1 (by rw [hpq]; exact List.mem_cons_of_mem _ hm)
    · intro k hk
      exact (mem_ssAdd _ _ _).2 (Or.inr (h.parkedHeld k hk))
    · show s.length - 1 = ((pop s.pq).length : Int) + _
      rw [hpq]
      simp only [pop, List.tail_cons, List.length_cons] at hl ⊢
      omega

theorem inv_requeuePart (s : Q) (k v : Nat) (after : Option Nat) (h : QInv s) :
    let s' := doRequeuePart s k v after
    Sorted s'.pq ∧ (keys s'.pq).Nodup ∧ (∀ k', k' ∈ s'.onHold → k' ∉ keys s'.pq) ∧
    (∀ k', k' ∈ amKeys s'.ohq → k' ≠ k → k' ∈ s'.onHold) ∧ s'.onHold.Nodup ∧
    (amKeys s'.ohq).Nodup ∧ s'.length = (s'.pq.length : Int) + (s'.ohq.length : Int) ∧
    k ∉ s'.onHold ∧ s'.ohq = s.ohq ∧ s'.now = s.now := by
  have hrm : ∀ k', k' ∈ ssRemove s.onHold k ↔ k' ≠ k ∧ k' ∈ s.onHold :=
    fun k' => mem_ssRemove _ _ _ h.nodupHold
  cases after with
  | none =>
    simp only [doRequeuePart]
    refine ⟨h.sorted, h.nodupKeys, ?_, ?_, nodup_ssRemove _ _ h.nodupHold, h.nodupParked, h.len, ?_, trivial, trivial⟩
    · intro k' hk'; exact h.disjoint k' ((hrm k').1 hk').2
    · intro k' hk' hne; exact (hrm k').2 ⟨hne, h.parkedHeld k' hk'⟩
    · intro hk; exact ((hrm k).1 hk).1 rfl
  | some t =>
    simp only [doRequeuePart]
    refine ⟨push_sorted _ _ _ _ _ h.sorted, push_nodup _ _ _ _ _ h.nodupKeys, ?_, ?_,
      nodup_ssRemove _ _ h.nodupHold, h.nodupParked, ?_, ?_, trivial, trivial⟩
    · intro k' hk' hm
      have h1 := (hrm k').1 hk'
      rcases (push_keys _ _ _ _ _ h.nodupKeys k').1 hm with h2 | h2
      · exact h1.1 h2
      · exact h.disjoint k' h1.2 h2
    · intro k' hk' hne; exact (hrm k').2 ⟨hne, h.parkedHeld k' hk'⟩
    · have := push_length s.pq k v t Gen.Queue.requeueOverwrite
      have hl := h.len
      show (if (push s.pq k v t Gen.Queue.requeueOverwrite).2 then s.length + 1 else s.length) = _
      by_cases hs : (push s.pq k v t Gen.Queue.requeueOverwrite).2 = true
      · simp only [hs, if_true] at this ⊢; omega
      · simp only [hs] at this ⊢; simp at this ⊢; omega
    · intro hk; exact ((hrm k).1 hk).1 rfl

theorem inv_released (s : Q) (k v : Nat) (after : Option Nat) (h : QInv s) :
    QInv (doReleased s k v after) := by
  obtain ⟨h1, h2, h3, h4, h5, h6, h7, h8, h9, _⟩ := inv_requeuePart s k v after h
  unfold doReleased doUnpark
  generalize doRequeuePart s k v after = s1 at *
  cases hl : amLookup k s1.ohq with
  | none =>
    refine ⟨h1, h2, h3, ?_, h5, h6, h7⟩
    intro k' hk'
    by_cases hne : k' = k
    · subst hne
      exact absurd hk' ((amLookup_none_iff _ _).1 hl)
    · exact h4 k' hk' hne
  | some hv =>
    have hrep : Gen.Queue.onHoldRepush = true := rfl
    simp only [hrep, if_true]
    have hkm := amLookup_mem _ _ _ hl
    refine ⟨push_sorted _ _ _ _ _ h1, push_nodup _ _ _ _ _ h2, ?_, ?_, h5, amNodup_amDel _ _ h6, ?_⟩
    · intro k' hk' hm
      rcases (push_keys _ _ _ _ _ h2 k').1 hm with h' | h'
      · subst h'; exact h8 hk'
      · exact h3 k' hk' h'
    · intro k' hk'
      have := (amKeys_amDel k k' _ h6).1 hk'
      exact h4 k' this.2 this.1
    · have hp := push_length s1.pq k hv s1.now Gen.Queue.onHoldOverwrite
      have hd := amLength_amDel k _ hkm
      show (if (push s1.pq k hv s1.now Gen.Queue.onHoldOverwrite).2 then s1.length else s1.length - 1) = _
      by_cases hs : (push s1.pq k hv s1.now Gen.Queue.onHoldOverwrite).2 = true
      · simp only [hs, if_true] at hp ⊢; omega
      · simp only [hs] at hp ⊢; simp at hp ⊢; omega

theorem inv_step (s : Q) (st : Step) (h : QInv s) : QInv (step s st).1 := by
  cases st with
  | put k v => exact inv_put s k v h
  | get => exact inv_get s h
  | release k => exact inv_released s k 0 none h
  | requeue k v t => exact inv_released s k v (some t) h
  | tick d => exact ⟨h.sorted, h.nodupKeys, h.disjoint, h.parkedHeld, h.nodupHold, h.nodupParked, h.len⟩

theorem inv_run_from (s : Q) (steps : List Step) (h : QInv s) : QInv (run s steps) := by
  induction steps generalizing s with
  | nil => exact h
  | cons st rest ih => exact ih _ (inv_step s st h)

/-- **C09 invariants.** After ANY sequence of events: the priority queue is sorted by release
    time, holds at most one entry per key, no key that is handed out is pending, every parked
    value belongs to a handed-out key, and the reported length is pending + held back. -/
theorem inv_run (steps : List Step) : QInv (run init steps) :=
  inv_run_from init steps inv_init

/-- the length clause on its own, in the property's words -/
theorem len_eq_pending_plus_heldback (steps : List Step) :
    (run init steps).length = ((run init steps).pq.length : Int) + ((run init steps).ohq.length : Int) :=
  (inv_run steps).len

/-! ### small facts about single steps -/

theorem run_append (s : Q) (a b : List Step) : run s (a ++ b) = run (run s a) b := by
  induction a generalizing s with
  | nil => rfl
  | cons x xs ih => exact ih _

theorem validFrom_append (s : Q) (a b : List Step) :
    validFrom s (a ++ b) = (validFrom s a && validFrom (run s a) b) := by
  induction a generalizing s with
  | nil => simp [validFrom, run]
  | cons x xs ih =>
    simp only [List.cons_append, validFrom, run, ih, Bool.and_assoc]

/-- `st` is a release message (Release or Requeue) for key `k` -/
def releases (k : Nat) : Step → Bool
  | .release k' => k' = k
  | .requeue k' _ _ => k' = k
  | _ => false

/-- `st` is a Put of key `k` -/
def putsKey (k : Nat) : Step → Bool
  | .put k' _ => k' = k
  | _ => false

theorem delivers_eq (s : Q) : delivers s = (peek s.pq s.now).map (fun e => (e.key, e.val)) := by
  unfold delivers step doGet
  cases peek s.pq s.now <;> rfl

theorem delivers_some (s : Q) (k v : Nat) (h : delivers s = some (k, v)) :
    ∃ e rest, s.pq = e :: rest ∧ e.key = k ∧ e.val = v ∧ e.due ≤ s.now ∧ peek s.pq s.now = some e := by
  rw [delivers_eq] at h
  cases hp : peek s.pq s.now with
  | none => simp [hp] at h
  | some e =>
    simp only [hp, Option.map_some, Option.some.injEq, Prod.mk.injEq] at h
    obtain ⟨rest, h1, h2⟩ := peek_some _ _ _ hp
    exact ⟨e, rest, h1, h.1, h.2, h2, rfl⟩

theorem unpark_onHold (s : Q) (k : Nat) : (doUnpark s k).onHold = s.onHold := by
  cases h : amLookup k s.ohq <;> simp [doUnpark, h, Gen.Queue.onHoldRepush]

theorem unpark_now (s : Q) (k : Nat) : (doUnpark s k).now = s.now := by
  cases h : amLookup k s.ohq <;> simp [doUnpark, h, Gen.Queue.onHoldRepush]

theorem requeuePart_onHold (s : Q) (k v : Nat) (a : Option Nat) :
    (doRequeuePart s k v a).onHold = ssRemove s.onHold k := by
  cases a <;> rfl

theorem released_onHold (s : Q) (k v : Nat) (a : Option Nat) :
    (doReleased s k v a).onHold = ssRemove s.onHold k := by
  unfold doReleased; rw [unpark_onHold, requeuePart_onHold]

theorem released_now (s : Q) (k v : Nat) (a : Option Nat) : (doReleased s k v a).now = s.now := by
  unfold doReleased; rw [unpark_now]; cases a <;> rfl

theorem put_onHold (s : Q) (k v : Nat) : (doPut s k v).onHold = s.onHold := by
  unfold doPut; by_cases h : k ∈ s.onHold <;> simp [h]

/-- a release message for another key leaves the pending entry and the parked value of `k` alone -/
theorem released_other (s : Q) (k k' v : Nat) (a : Option Nat) (hne : k ≠ k') :
    lookup k (doReleased s k' v a).pq = lookup k s.pq ∧
    amLookup k (doReleased s k' v a).ohq = amLookup k s.ohq := by
  have h1 : lookup k (doRequeuePart s k' v a).pq = lookup k s.pq ∧
      (doRequeuePart s k' v a).ohq = s.ohq := by
    cases a with
    | none => exact ⟨rfl, rfl⟩
    | some t => exact ⟨push_lookup_other _ _ _ _ _ _ hne, rfl⟩
  unfold doReleased
  generalize doRequeuePart s k' v a = s1 at *
  unfold doUnpark
  cases hl : amLookup k' s1.ohq with
  | none => simpa using ⟨h1.1, by rw [h1.2]⟩
  | some hv =>
    simp only [Gen.Queue.onHoldRepush, if_true]
    refine ⟨?_, ?_⟩
    · rw [push_lookup_other _ _ _ _ _ _ hne]; exact h1.1
    · show amLookup k (amDel k' s1.ohq) = _
      rw [amLookup_amDel_other _ _ _ hne, h1.2]

/-- a release message for `k` when a value is parked: that value is pending and due right after -/
theorem released_parked (s : Q) (k v hv : Nat) (a : Option Nat) (h : QInv s)
    (hp : amLookup k s.ohq = some hv) :
    ∃ e, lookup k (doReleased s k v a).pq = some e ∧ e.val = hv ∧ e.due ≤ (doReleased s k v a).now := by
  obtain ⟨_, h2, _, _, _, _, _, _, h9, h10⟩ := inv_requeuePart s k v a h
  rw [released_now]
  unfold doReleased
  generalize doRequeuePart s k v a = s1 at *
  rw [← h9] at hp
  unfold doUnpark
  simp only [hp, Gen.Queue.onHoldRepush, if_true]
  have hov : Gen.Queue.onHoldOverwrite = true := rfl
  rw [hov]
  obtain ⟨e', he, hval, hdue, _⟩ := push_true_spec s1.pq k hv s1.now h2
  exact ⟨e', he, hval, by rw [← h10]; exact hdue⟩

/-! ### exclusion -/

theorem onHold_step (s : Q) (st : Step) (k : Nat) (h : QInv s) (hk : k ∈ s.onHold)
    (hr : releases k st = false) : k ∈ (step s st).1.onHold := by
  cases st with
  | put k' v => show k ∈ (doPut s k' v).onHold; rw [put_onHold]; exact hk
  | get =>
    show k ∈ (doGet s).1.onHold
    unfold doGet
    cases peek s.pq s.now with
    | none => exact hk
    | some e => exact (mem_ssAdd _ _ _).2 (Or.inr hk)
  | release k' =>
    have hne : k ≠ k' := by intro e; simp [releases, e] at hr
    show k ∈ (doReleased s k' 0 none).onHold
    rw [released_onHold]; exact (mem_ssRemove _ _ _ h.nodupHold).2 ⟨hne, hk⟩
  | requeue k' v t =>
    have hne : k ≠ k' := by intro e; simp [releases, e] at hr
    show k ∈ (doReleased s k' v (some t)).onHold
    rw [released_onHold]; exact (mem_ssRemove _ _ _ h.nodupHold).2 ⟨hne, hk⟩
  | tick d => exact hk

theorem onHold_run (s : Q) (mid : List Step) (k : Nat) (h : QInv s) (hk : k ∈ s.onHold)
    (hm : ∀ st ∈ mid, releases k st = false) : k ∈ (run s mid).onHold := by
  induction mid generalizing s with
  | nil => exact hk
  | cons st rest ih =>
    exact ih _ (inv_step s st h) (onHold_step s st k h hk (hm st List.mem_cons_self))
      (fun st' hst' => hm st' (List.mem_cons_of_mem _ hst'))

theorem get_onHold (s : Q) (k v : Nat) (hd : delivers s = some (k, v)) :
    k ∈ (step s .get).1.onHold := by
  obtain ⟨e, rest, _, hk, _, _, hp⟩ := delivers_some s k v hd
  show k ∈ (doGet s).1.onHold
  unfold doGet
  simp only [hp]
  exact (mem_ssAdd _ _ _).2 (Or.inl hk.symm)

theorem not_delivered_onHold (s : Q) (k : Nat) (h : QInv s) (hk : k ∈ s.onHold) (v : Nat) :
    delivers s ≠ some (k, v) := by
  intro hd
  obtain ⟨e, rest, hpq, hke, _, _, _⟩ := delivers_some s k v hd
  apply h.disjoint k hk
  rw [hpq]
  exact List.mem_map.2 ⟨e, List.mem_cons_self, hke⟩

/-- **C09 exclusion.** If some worker receives key `k` (after any history `pre`), then no
    `get` hands out `k` again — whatever else happens (`mid`: any puts of any keys incl. `k`,
    gets by any workers, releases/requeues of other keys, clock advances) — until a release
    message for `k` is processed. -/
theorem exclusion (pre mid : List Step) (k v : Nat)
    (hd : delivers (run init pre) = some (k, v))
    (hm : ∀ st ∈ mid, releases k st = false) (v' : Nat) :
    delivers (run init (pre ++ Step.get :: mid)) ≠ some (k, v') := by
  rw [run_append]
  have hi := inv_run pre
  have h1 := get_onHold _ k v hd
  have hi1 := inv_step _ Step.get hi
  exact not_delivered_onHold _ k (inv_run_from _ mid hi1) (onHold_run _ mid k hi1 h1 hm) v'

/-! ### coalescing -/

/-- the value that would be delivered for `k` next: the pending entry's, else the parked one -/
def pending (s : Q) (k : Nat) : Option Nat :=
  match lookup k s.pq with
  | some e => some e.val
  | none => amLookup k s.ohq

/-- ghost, defined on the trace alone: the value of the last `put k _` since the last time a
    `get` handed out `k` (`none` if there was no put since) -/
def lastPut (k : Nat) : Q → List Step → Option Nat → Option Nat
  | _, [], acc => acc
  | s, st :: rest, acc =>
    lastPut k (step s st).1 rest
      (match st with
       | .put k' v => if k' = k then some v else acc
       | .get => (match delivers s with
                  | some (k', _) => if k' = k then none else acc
                  | none => acc)
       | _ => acc)

/-- number of places a notification for `k` is waiting in -/
def pendingCount (s : Q) (k : Nat) : Nat := (keys s.pq).count k + (amKeys s.ohq).count k

/-- **C09 coalescing (one pending delivery).** After any history there is at most one pending
    delivery per key — in the priority queue or parked, never both. -/
theorem one_pending (steps : List Step) (k : Nat) : pendingCount (run init steps) k ≤ 1 := by
  have h := inv_run steps
  unfold pendingCount
  have h1 := List.nodup_iff_count.1 h.nodupKeys k
  have h2 := List.nodup_iff_count.1 h.nodupParked k
  by_cases hk : k ∈ amKeys (run init steps).ohq
  · have := h.disjoint k (h.parkedHeld k hk)
    rw [List.count_eq_zero_of_not_mem this]; omega
  · rw [List.count_eq_zero_of_not_mem hk]; omega

theorem pending_put_self (s : Q) (k v : Nat) (h : QInv s) : pending (doPut s k v) k = some v := by
  unfold doPut
  by_cases hh : k ∈ s.onHold
  · simp only [hh, if_true, pending]
    rw [(lookup_none_iff k s.pq).2 (h.disjoint k hh)]
    exact amLookup_amSet_self _ _ _
  · simp only [hh, if_false, pending]
    have hov : Gen.Queue.putOverwrite = true := rfl
    rw [hov]
    obtain ⟨e', he, hval, _, _⟩ := push_true_spec s.pq k v s.now h.nodupKeys
    simp only [he, hval]

theorem pending_put_other (s : Q) (k k' v : Nat) (hne : k ≠ k') : pending (doPut s k' v) k = pending s k := by
  unfold doPut
  by_cases hh : k' ∈ s.onHold
  · simp only [hh, if_true, pending, parkValue_latest, amLookup_amSet_other _ _ _ _ hne]
  · simp only [hh, if_false, pending, push_lookup_other _ _ _ _ _ _ hne]

theorem pending_released_other (s : Q) (k k' v : Nat) (a : Option Nat) (hne : k ≠ k') :
    pending (doReleased s k' v a) k = pending s k := by
  obtain ⟨h1, h2⟩ := released_other s k k' v a hne
  simp only [pending, h1, h2]

theorem pending_released_self (s : Q) (k v hv : Nat) (a : Option Nat) (h : QInv s)
    (hk : k ∈ s.onHold) (hp : pending s k = some hv) : pending (doReleased s k v a) k = some hv := by
  have hl : lookup k s.pq = none := (lookup_none_iff k s.pq).2 (h.disjoint k hk)
  simp only [pending, hl] at hp
  obtain ⟨e, he, hval, _⟩ := released_parked s k v hv a h hp
  simp only [pending, he, hval]

theorem pending_get_other (s : Q) (k : Nat) (hnd : ∀ v, delivers s ≠ some (k, v)) :
    pending (doGet s).1 k = pending s k := by
  unfold doGet
  cases hp : peek s.pq s.now with
  | none => rfl
  | some e =>
    obtain ⟨rest, hpq, _⟩ := peek_some _ _ _ hp
    have hne : e.key ≠ k := by
      intro heq
      apply hnd e.val
      rw [delivers_eq, hp]; simp [heq]
    simp only [pending, pop, hpq, List.tail_cons]
    conv => rhs; unfold lookup
    simp only [hne, if_false]

theorem coalescing_from (s : Q) (steps : List Step) (k : Nat) (acc : Option Nat) (h : QInv s)
    (hv : validFrom s steps = true) (hacc : ∀ v, acc = some v → pending s k = some v) :
    ∀ v, lastPut k s steps acc = some v → pending (run s steps) k = some v := by
  induction steps generalizing s acc with
  | nil => exact hacc
  | cons st rest ih =>
    simp only [validFrom, Bool.and_eq_true] at hv
    intro v hl
    unfold lastPut at hl
    refine ih (step s st).1 _ (inv_step s st h) hv.2 ?_ v hl
    intro w hw
    cases st with
    | put k' v' =>
      by_cases hk : k' = k
      · subst hk
        simp only [if_true, Option.some.injEq] at hw
        subst hw
        exact pending_put_self s k' v' h
      · simp only [hk, if_false] at hw
        show pending (doPut s k' v') k = some w
        rw [pending_put_other s k k' v' (fun e => hk e.symm)]
        exact hacc w hw
    | get =>
      show pending (doGet s).1 k = some w
      have hnd : ∀ v, delivers s ≠ some (k, v) := by
        intro v0 hd
        simp [hd] at hw
      rw [pending_get_other s k hnd]
      apply hacc w
      cases hd : delivers s with
      | none => simpa [hd] using hw
      | some p =>
        obtain ⟨k', v'⟩ := p
        have : k' ≠ k := by
          intro e; subst e; exact hnd v' hd
        simpa [hd, this] using hw
    | release k' =>
      show pending (doReleased s k' 0 none) k = some w
      by_cases hk : k = k'
      · subst hk
        have : k ∈ s.onHold := by simpa using hv.1
        exact pending_released_self s k 0 w none h this (hacc w hw)
      · rw [pending_released_other s k k' 0 none hk]; exact hacc w hw
    | requeue k' v' t =>
      show pending (doReleased s k' v' (some t)) k = some w
      by_cases hk : k = k'
      · subst hk
        have : k ∈ s.onHold := by simpa using hv.1
        exact pending_released_self s k v' w (some t) h this (hacc w hw)
      · rw [pending_released_other s k k' v' (some t) hk]; exact hacc w hw
    | tick d => exact hacc w hw

/-- **C09 coalescing (latest value wins).** For every schedule in the API's domain: if `v` is
    the value of the last Put of `k` since `k` was last handed out, then the single pending
    delivery of `k` (in the queue, or parked while `k` is held) carries exactly `v` — however
    many puts, requeues with stale values, and releases happened in between. -/
theorem coalescing (steps : List Step) (k v : Nat) (hv : validFrom init steps = true)
    (hl : lastPut k init steps none = some v) : pending (run init steps) k = some v :=
  coalescing_from init steps k none inv_init hv (by simp) v hl

/-- … and the delivery itself hands out that value. -/
theorem delivery_carries_last_put (steps : List Step) (k v v' : Nat)
    (hv : validFrom init steps = true) (hl : lastPut k init steps none = some v)
    (hd : delivers (run init steps) = some (k, v')) : v' = v := by
  have hp := coalescing steps k v hv hl
  obtain ⟨e, rest, hpq, hk, hval, _, _⟩ := delivers_some _ k v' hd
  have : lookup k (run init steps).pq = some e := by
    rw [hpq]; unfold lookup; simp [hk]
  simp only [pending, this, Option.some.injEq] at hp
  rw [← hval, hp]

/-! ### no loss -/

/-- the last value put for `k` in a stretch of the schedule (state independent) -/
def lastPutIn (k : Nat) : List Step → Option Nat → Option Nat
  | [], acc => acc
  | .put k' v :: rest, acc => lastPutIn k rest (if k' = k then some v else acc)
  | _ :: rest, acc => lastPutIn k rest acc

theorem parked_step (s : Q) (st : Step) (k : Nat) (_h : QInv s) (hk : k ∈ s.onHold)
    (hr : releases k st = false) :
    amLookup k (step s st).1.ohq =
      (match st with
       | .put k' v => if k' = k then some v else amLookup k s.ohq
       | _ => amLookup k s.ohq) := by
  cases st with
  | put k' v =>
    show amLookup k (doPut s k' v).ohq = _
    unfold doPut
    by_cases hkk : k' = k
    · subst hkk
      simp only [hk, if_true]
      exact amLookup_amSet_self _ _ _
    · simp only [hkk, if_false]
      by_cases hh : k' ∈ s.onHold
      · simp only [hh, if_true]
        exact amLookup_amSet_other _ _ _ _ (fun e => hkk e.symm)
      · simp only [hh, if_false]
  | get =>
    show amLookup k (doGet s).1.ohq = _
    unfold doGet
    cases peek s.pq s.now <;> rfl
  | release k' =>
    have hne : k ≠ k' := by intro e; simp [releases, e] at hr
    exact (released_other s k k' 0 none hne).2
  | requeue k' v t =>
    have hne : k ≠ k' := by intro e; simp [releases, e] at hr
    exact (released_other s k k' v (some t) hne).2
  | tick d => rfl

theorem parked_run (s : Q) (mid : List Step) (k : Nat) (h : QInv s) (hk : k ∈ s.onHold)
    (hm : ∀ st ∈ mid, releases k st = false) :
    amLookup k (run s mid).ohq = lastPutIn k mid (amLookup k s.ohq) := by
  induction mid generalizing s with
  | nil => rfl
  | cons st rest ih =>
    have h1 := inv_step s st h
    have h2 := onHold_step s st k h hk (hm st List.mem_cons_self)
    have h3 := parked_step s st k h hk (hm st List.mem_cons_self)
    show amLookup k (run (step s st).1 rest).ohq = _
    rw [ih _ h1 h2 (fun st' hst' => hm st' (List.mem_cons_of_mem _ hst')), h3]
    cases st <;> rfl

theorem lastPutIn_isSome (k : Nat) (mid : List Step) (acc : Option Nat) (h : acc.isSome) :
    (lastPutIn k mid acc).isSome := by
  induction mid generalizing acc with
  | nil => exact h
  | cons st rest ih =>
    cases st with
    | put k' v =>
      unfold lastPutIn
      apply ih
      by_cases hk : k' = k <;> simp [hk, h]
    | get => exact ih acc h
    | release k' => exact ih acc h
    | requeue k' v t => exact ih acc h
    | tick d => exact ih acc h

/-- **C09 no loss.** A Put of `k` that arrives while `k` is handed out (after any history
    `pre`) is not lost: whatever happens while the worker is busy (`mid`: more puts of any key,
    other workers receiving/releasing/requeueing other keys, time passing), right after the
    holder's release message — a plain Release or a Requeue with ANY value and ANY time, even
    far in the future — `k` is pending in the priority queue with release time ≤ now, carrying
    the value of the latest such Put. -/
theorem no_loss (pre mid : List Step) (k v : Nat) (rel : Step)
    (hk : k ∈ (run init pre).onHold)
    (hm : ∀ st ∈ mid, releases k st = false)
    (hrel : releases k rel = true) :
    ∃ e, lookup k (run init (pre ++ Step.put k v :: mid ++ [rel])).pq = some e ∧
      e.due ≤ (run init (pre ++ Step.put k v :: mid ++ [rel])).now ∧
      some e.val = lastPutIn k mid (some v) := by
  rw [run_append, run_append]
  have hi := inv_run pre
  generalize run init pre = s0 at *
  have hm' : ∀ st ∈ Step.put k v :: mid, releases k st = false := by
    intro st hst
    rcases List.mem_cons.1 hst with rfl | h1
    · rfl
    · exact hm st h1
  have hi1 := inv_run_from s0 (Step.put k v :: mid) hi
  have hk1 := onHold_run s0 (Step.put k v :: mid) k hi hk hm'
  have hp1 := parked_run s0 (Step.put k v :: mid) k hi hk hm'
  have hp2 : lastPutIn k (Step.put k v :: mid) (amLookup k s0.ohq) = lastPutIn k mid (some v) := by
    simp [lastPutIn]
  rw [hp2] at hp1
  generalize run s0 (Step.put k v :: mid) = s1 at *
  have hsome := lastPutIn_isSome k mid (some v) rfl
  cases hlp : lastPutIn k mid (some v) with
  | none => rw [hlp] at hsome; cases hsome
  | some hv =>
    rw [hlp] at hp1
    cases rel with
    | put k' v' => simp [releases] at hrel
    | get => simp [releases] at hrel
    | tick d => simp [releases] at hrel
    | release k' =>
      have : k' = k := by simpa [releases] using hrel
      subst this
      obtain ⟨e, he, hval, hdue⟩ := released_parked s1 k' 0 hv none hi1 hp1
      exact ⟨e, he, hdue, by rw [hval]⟩
    | requeue k' v' t =>
      have : k' = k := by simpa [releases] using hrel
      subst this
      obtain ⟨e, he, hval, hdue⟩ := released_parked s1 k' v' hv (some t) hi1 hp1
      exact ⟨e, he, hdue, by rw [hval]⟩

/-- A pending entry that is due stays pending and due (with the same or a fresher value)
    until it is handed out: nothing but a `get` removes it, nothing postpones it. -/
theorem due_stays_due (s : Q) (st : Step) (k : Nat) (e : Entry) (h : QInv s)
    (he : lookup k s.pq = some e) (hdue : e.due ≤ s.now)
    (hnd : ∀ v, st = Step.get → delivers s ≠ some (k, v)) :
    ∃ e', lookup k (step s st).1.pq = some e' ∧ e'.due ≤ (step s st).1.now := by
  have hkn : k ∉ s.onHold := fun hk => h.disjoint k hk (lookup_mem_keys k s.pq e he)
  have hpush : ∀ (pq : PQ) (v t : Nat) (ow : Bool) (e0 : Entry), (keys pq).Nodup →
      lookup k pq = some e0 → e0.due ≤ s.now →
      ∃ e', lookup k (push pq k v t ow).1 = some e' ∧ e'.due ≤ s.now := by
    intro pq v t ow e0 hn h0 hd0
    by_cases ht : t > e0.due
    · exact ⟨_, push_later _ _ _ _ _ e0 h0 ht, hd0⟩
    · exact ⟨_, push_earlier _ _ _ _ _ e0 h0 ht hn, by simp; omega⟩
  cases st with
  | put k' v =>
    show ∃ e', lookup k (doPut s k' v).pq = some e' ∧ e'.due ≤ (doPut s k' v).now
    unfold doPut
    by_cases hh : k' ∈ s.onHold
    · simp only [hh, if_true]; exact ⟨e, he, hdue⟩
    · simp only [hh, if_false]
      by_cases hkk : k = k'
      · subst hkk; exact hpush _ _ _ _ e h.nodupKeys he hdue
      · rw [push_lookup_other _ _ _ _ _ _ hkk]; exact ⟨e, he, hdue⟩
  | get =>
    show ∃ e', lookup k (doGet s).1.pq = some e' ∧ e'.due ≤ (doGet s).1.now
    unfold doGet
    cases hp : peek s.pq s.now with
    | none => exact ⟨e, he, hdue⟩
    | some e0 =>
      obtain ⟨rest, hpq, _⟩ := peek_some _ _ _ hp
      have hne : e0.key ≠ k := by
        intro heq
        apply hnd e0.val rfl
        rw [delivers_eq, hp]; simp [heq]
      refine ⟨e, ?_, hdue⟩
      show lookup k (pop s.pq) = some e
      rw [hpq] at he
      unfold lookup at he
      simpa [hne, pop, hpq] using he
  | release k' =>
    by_cases hkk : k = k'
    · subst hkk
      show ∃ e', lookup k (doReleased s k 0 none).pq = some e' ∧ e'.due ≤ (doReleased s k 0 none).now
      rw [released_now]
      unfold doReleased doRequeuePart doUnpark
      have : amLookup k s.ohq = none :=
        (amLookup_none_iff _ _).2 (fun hm => hkn (h.parkedHeld k hm))
      simp only [this]; exact ⟨e, he, hdue⟩
    · show ∃ e', lookup k (doReleased s k' 0 none).pq = some e' ∧ e'.due ≤ (doReleased s k' 0 none).now
      rw [released_now, (released_other s k k' 0 none hkk).1]; exact ⟨e, he, hdue⟩
  | requeue k' v t =>
    by_cases hkk : k = k'
    · subst hkk
      show ∃ e', lookup k (doReleased s k v (some t)).pq = some e' ∧ e'.due ≤ (doReleased s k v (some t)).now
      rw [released_now]
      unfold doReleased doRequeuePart doUnpark
      have : amLookup k s.ohq = none :=
        (amLookup_none_iff _ _).2 (fun hm => hkn (h.parkedHeld k hm))
      simp only [this]
      exact hpush _ _ _ _ e h.nodupKeys he hdue
    · show ∃ e', lookup k (doReleased s k' v (some t)).pq = some e' ∧ e'.due ≤ (doReleased s k' v (some t)).now
      rw [released_now, (released_other s k k' v (some t) hkk).1]; exact ⟨e, he, hdue⟩
  | tick d =>
    exact ⟨e, he, Nat.le_trans hdue (Nat.le_add_right _ _)⟩

/-- If anything pending is due, a `get` does hand out an item (a ready worker is served). -/
theorem get_serves_due (s : Q) (k : Nat) (e : Entry) (h : QInv s)
    (he : lookup k s.pq = some e) (hdue : e.due ≤ s.now) : (delivers s).isSome := by
  rw [delivers_eq]
  have hm := (lookup_some k s.pq e he).1
  cases hpq : s.pq with
  | nil => rw [hpq] at hm; cases hm
  | cons x xs =>
    have hs := h.sorted
    rw [hpq] at hs hm
    unfold Sorted at hs
    rw [List.pairwise_cons] at hs
    have : x.due ≤ s.now := by
      rcases List.mem_cons.1 hm with rfl | h1
      · exact hdue
      · exact Nat.le_trans (hs.1 e h1) hdue
    simp [peek, this, Gen.Queue.pqPeekDueLE]

/-! ### honoured backoff -/

/-- "`k` is not handed out before `t`": either the clock has reached `t`, or `k` is not held
    and its pending entry (if any) is not due before `t`. -/
def HeldBack (s : Q) (k t : Nat) : Prop :=
  t ≤ s.now ∨ (k ∉ s.onHold ∧ ∀ e, lookup k s.pq = some e → t ≤ e.due)

theorem heldBack_step (s : Q) (st : Step) (k t : Nat) (h : QInv s) (hb : HeldBack s k t)
    (hp : putsKey k st = false) (hv : validFrom s [st] = true) : HeldBack (step s st).1 k t := by
  rcases hb with hb | ⟨hb1, hb2⟩
  · left
    cases st with
    | put k' v =>
      show t ≤ (doPut s k' v).now
      unfold doPut; by_cases hh : k' ∈ s.onHold <;> simpa [hh] using hb
    | get =>
      show t ≤ (doGet s).1.now
      unfold doGet; cases peek s.pq s.now <;> exact hb
    | release k' => show t ≤ (doReleased s k' 0 none).now; rw [released_now]; exact hb
    | requeue k' v t' => show t ≤ (doReleased s k' v (some t')).now; rw [released_now]; exact hb
    | tick d => exact Nat.le_trans hb (Nat.le_add_right _ _)
  · cases st with
    | put k' v =>
      have hne : k ≠ k' := by intro e; simp [putsKey, e] at hp
      right
      show k ∉ (doPut s k' v).onHold ∧ ∀ e, lookup k (doPut s k' v).pq = some e → t ≤ e.due
      rw [put_onHold]
      refine ⟨hb1, ?_⟩
      unfold doPut
      by_cases hh : k' ∈ s.onHold
      · simpa [hh] using hb2
      · simp only [hh, if_false, push_lookup_other _ _ _ _ _ _ hne]; exact hb2
    | get =>
      show HeldBack (doGet s).1 k t
      unfold doGet
      cases hpk : peek s.pq s.now with
      | none => exact Or.inr ⟨hb1, hb2⟩
      | some e0 =>
        obtain ⟨rest, hpq, hd0⟩ := peek_some _ _ _ hpk
        by_cases hk0 : e0.key = k
        · left
          have : lookup k s.pq = some e0 := by rw [hpq]; unfold lookup; simp [hk0]
          exact Nat.le_trans (hb2 e0 this) hd0
        · right
          refine ⟨?_, ?_⟩
          · intro hm
            rcases (mem_ssAdd _ _ _).1 hm with h1 | h1
            · exact hk0 h1.symm
            · exact hb1 h1
          · intro e he
            apply hb2 e
            rw [hpq]; unfold lookup; simp only [hk0, if_false]
            simpa [pop, hpq] using he
    | release k' =>
      have hk' : k' ∈ s.onHold := by simpa [validFrom] using hv
      have hne : k ≠ k' := fun e => hb1 (e ▸ hk')
      right
      show k ∉ (doReleased s k' 0 none).onHold ∧ ∀ e, lookup k (doReleased s k' 0 none).pq = some e → t ≤ e.due
      rw [released_onHold, (released_other s k k' 0 none hne).1]
      exact ⟨fun hm => hb1 ((mem_ssRemove _ _ _ h.nodupHold).1 hm).2, hb2⟩
    | requeue k' v t' =>
      have hk' : k' ∈ s.onHold := by simpa [validFrom] using hv
      have hne : k ≠ k' := fun e => hb1 (e ▸ hk')
      right
      show k ∉ (doReleased s k' v (some t')).onHold ∧
        ∀ e, lookup k (doReleased s k' v (some t')).pq = some e → t ≤ e.due
      rw [released_onHold, (released_other s k k' v (some t') hne).1]
      exact ⟨fun hm => hb1 ((mem_ssRemove _ _ _ h.nodupHold).1 hm).2, hb2⟩
    | tick d => exact Or.inr ⟨hb1, hb2⟩

theorem heldBack_run (s : Q) (mid : List Step) (k t : Nat) (h : QInv s) (hb : HeldBack s k t)
    (hp : ∀ st ∈ mid, putsKey k st = false) (hv : validFrom s mid = true) :
    HeldBack (run s mid) k t := by
  induction mid generalizing s with
  | nil => exact hb
  | cons st rest ih =>
    simp only [validFrom, Bool.and_eq_true] at hv
    refine ih _ (inv_step s st h) (heldBack_step s st k t h hb (hp st List.mem_cons_self) ?_)
      (fun st' hst' => hp st' (List.mem_cons_of_mem _ hst')) hv.2
    simp [validFrom, hv.1]

theorem heldBack_after_requeue (s : Q) (k v t : Nat) (h : QInv s) (hk : k ∈ s.onHold)
    (hpark : amLookup k s.ohq = none) : HeldBack (step s (.requeue k v t)).1 k t := by
  right
  show k ∉ (doReleased s k v (some t)).onHold ∧ ∀ e, lookup k (doReleased s k v (some t)).pq = some e → t ≤ e.due
  rw [released_onHold]
  refine ⟨fun hm => ((mem_ssRemove _ _ _ h.nodupHold).1 hm).1 rfl, ?_⟩
  have hl : lookup k s.pq = none := (lookup_none_iff k s.pq).2 (h.disjoint k hk)
  unfold doReleased doRequeuePart doUnpark
  simp only [hpark]
  intro e he
  rw [push_new _ _ _ _ _ hl] at he
  cases he
  exact Nat.le_refl _

/-- **C09 honoured backoff.** After `Requeue(t)` of `k` (by its holder, after any history
    `pre`), with no notification parked during the hold, `k` is not handed out at any time
    `< t` — whatever else happens (`mid`: any puts of OTHER keys, gets/releases/requeues by any
    workers, clock advances) — unless a fresh Put of `k` arrives. Stated for every prefix
    state: if a `get` in the state after `pre ++ requeue :: mid` would hand out `k`, the clock
    is at least `t`. -/
theorem backoff_honoured (pre mid : List Step) (k v t : Nat)
    (hv : validFrom init (pre ++ Step.requeue k v t :: mid) = true)
    (hpark : amLookup k (run init pre).ohq = none)
    (hm : ∀ st ∈ mid, putsKey k st = false) (v' : Nat)
    (hd : delivers (run init (pre ++ Step.requeue k v t :: mid)) = some (k, v')) :
    t ≤ (run init (pre ++ Step.requeue k v t :: mid)).now := by
  rw [run_append] at hd ⊢
  rw [validFrom_append] at hv
  simp only [validFrom, Bool.and_eq_true, decide_eq_true_eq] at hv
  have hi := inv_run pre
  generalize run init pre = s0 at *
  have hb := heldBack_after_requeue s0 k v t hi hv.2.1 hpark
  have hb' := heldBack_run _ mid k t (inv_step s0 _ hi) hb hm hv.2.2
  show t ≤ (run (step s0 (Step.requeue k v t)).1 mid).now
  have hd' : delivers (run (step s0 (Step.requeue k v t)).1 mid) = some (k, v') := hd
  generalize run (step s0 (Step.requeue k v t)).1 mid = s2 at *
  rcases hb' with hb' | ⟨_, hb2⟩
  · exact hb'
  · obtain ⟨e, rest, hpq, hke, _, hdue, _⟩ := delivers_some s2 k v' hd'
    have : lookup k s2.pq = some e := by rw [hpq]; unfold lookup; simp [hke]
    exact Nat.le_trans (hb2 e this) hdue

/-- a failed/requeued reconcile IS retried: after `Requeue(t)` the key is pending -/
theorem requeue_pending (s : Q) (k v t : Nat) (h : QInv s) :
    k ∈ keys (step s (.requeue k v t)).1.pq := by
  obtain ⟨_, h2, _, _, _, _, _, _, _, _⟩ := inv_requeuePart s k v (some t) h
  show k ∈ keys (doReleased s k v (some t)).pq
  have h1 : k ∈ keys (doRequeuePart s k v (some t)).pq :=
    (push_keys _ _ _ _ _ h.nodupKeys k).2 (Or.inl rfl)
  unfold doReleased
  generalize doRequeuePart s k v (some t) = s1 at *
  unfold doUnpark
  cases hl : amLookup k s1.ohq with
  | none => exact h1
  | some hv =>
    simp only [Gen.Queue.onHoldRepush, if_true]
    exact (push_keys _ _ _ _ _ h2 k).2 (Or.inl rfl)

/-! ### workers: any number of workers, each holding the `Item` it received last -/

theorem heldBy_setHeld_self (w : Nat) (it : Item) (l : List (Nat × Item)) :
    heldBy w (setHeld w it l) = some it := by
  induction l with
  | nil => simp [setHeld, heldBy]
  | cons p xs ih =>
    obtain ⟨w', it'⟩ := p
    unfold setHeld
    by_cases h : w' = w
    · simp [h, heldBy]
    · simp only [h, if_false]; unfold heldBy; simp only [h, if_false]; exact ih

theorem heldBy_setHeld_other (w w' : Nat) (it : Item) (l : List (Nat × Item)) (hne : w' ≠ w) :
    heldBy w' (setHeld w it l) = heldBy w' l := by
  induction l with
  | nil =>
    have : w ≠ w' := fun e => hne e.symm
    simp [setHeld, heldBy, this]
  | cons p xs ih =>
    obtain ⟨w1, it1⟩ := p
    unfold setHeld
    by_cases h : w1 = w
    · have h2 : w ≠ w' := fun e => hne e.symm
      have h3 : w1 ≠ w' := fun e => hne (by rw [← e, h])
      simp [h, heldBy, h2]
    · simp only [h, if_false]
      unfold heldBy
      by_cases h1 : w1 = w'
      · simp [h1]
      · simp only [h1, if_false]; exact ih

/-- worker-level invariant: un-released items are on hold and pairwise on different keys -/
structure WInv (s : W) : Prop where
  q : QInv s.q
  heldOn : ∀ w it, heldBy w s.held = some it → it.released = false → it.key ∈ s.q.onHold
  distinct : ∀ w1 w2 i1 i2, w1 ≠ w2 → heldBy w1 s.held = some i1 → heldBy w2 s.held = some i2 →
    i1.released = false → i2.released = false → i1.key ≠ i2.key

theorem winv_init : WInv {} := by
  refine ⟨inv_init, ?_, ?_⟩
  · intro w it h; simp [heldBy] at h
  · intro w1 w2 i1 i2 _ h; simp [heldBy] at h

theorem wstep_get (s : W) (w : Nat) :
    wstep s (.get w) =
      match delivers s.q with
      | some (k, v) => { q := (doGet s.q).1, held := setHeld w ⟨k, v, false⟩ s.held }
      | none => { s with q := (doGet s.q).1 } := rfl

theorem wstep_rel_some (s : W) (w : Nat) (it : Item) (st : WStep) (c : Step)
    (hst : st = .release w ∨ ∃ t, st = .requeue w t)
    (h : heldBy w s.held = some it) (hc : toCore s st = some c) :
    wstep s st = { q := (step s.q c).1, held := setHeld w { it with released := true } s.held } := by
  rcases hst with rfl | ⟨t, rfl⟩ <;> simp [wstep, hc, h]

theorem toCore_rel (s : W) (w : Nat) (st : WStep) (hst : st = .release w ∨ ∃ t, st = .requeue w t) :
    (toCore s st = none ∧ wstep s st = s) ∨
    (∃ it c, heldBy w s.held = some it ∧ it.released = false ∧ toCore s st = some c ∧
      releases it.key c = true ∧
      (c = .release it.key ∨ ∃ t, c = .requeue it.key it.val t)) := by
  cases hh : heldBy w s.held with
  | none =>
    left
    rcases hst with rfl | ⟨t, rfl⟩ <;> simp [toCore, wstep, hh]
  | some it =>
    cases hr : it.released with
    | true =>
      left
      rcases hst with rfl | ⟨t, rfl⟩ <;> simp [toCore, wstep, hh, hr]
    | false =>
      right
      rcases hst with rfl | ⟨t, rfl⟩
      · exact ⟨it, .release it.key, rfl, hr, by simp [toCore, hh, hr], by simp [releases], Or.inl rfl⟩
      · exact ⟨it, .requeue it.key it.val t, rfl, hr, by simp [toCore, hh, hr], by simp [releases],
          Or.inr ⟨t, rfl⟩⟩

theorem winv_rel (s : W) (w : Nat) (st : WStep) (hst : st = .release w ∨ ∃ t, st = .requeue w t)
    (h : WInv s) : WInv (wstep s st) := by
  rcases toCore_rel s w st hst with ⟨_, h2⟩ | ⟨it, c, hh, hr, hc, hrel, hform⟩
  · rw [h2]; exact h
  · rw [wstep_rel_some s w it st c hst hh hc]
    have hon : (step s.q c).1.onHold = ssRemove s.q.onHold it.key := by
      rcases hform with rfl | ⟨t, rfl⟩ <;> exact released_onHold _ _ _ _
    refine ⟨inv_step _ _ h.q, ?_, ?_⟩
    · intro w' it' hw' hr'
      show it'.key ∈ (step s.q c).1.onHold
      by_cases hww : w' = w
      · subst hww
        rw [heldBy_setHeld_self] at hw'
        cases hw'; simp at hr'
      · rw [heldBy_setHeld_other _ _ _ _ hww] at hw'
        rw [hon]
        exact (mem_ssRemove _ _ _ h.q.nodupHold).2
          ⟨h.distinct w' w it' it hww hw' hh hr' hr, h.heldOn w' it' hw' hr'⟩
    · intro w1 w2 i1 i2 hne h1 h2 hr1 hr2
      by_cases hw1 : w1 = w
      · subst hw1
        rw [heldBy_setHeld_self] at h1
        cases h1; simp at hr1
      · by_cases hw2 : w2 = w
        · subst hw2
          rw [heldBy_setHeld_self] at h2
          cases h2; simp at hr2
        · rw [heldBy_setHeld_other _ _ _ _ hw1] at h1
          rw [heldBy_setHeld_other _ _ _ _ hw2] at h2
          exact h.distinct w1 w2 i1 i2 hne h1 h2 hr1 hr2

theorem winv_get (s : W) (w : Nat) (h : WInv s) : WInv (wstep s (.get w)) := by
  rw [wstep_get]
  have hi := inv_step s.q .get h.q
  have hmono : ∀ k, k ∈ s.q.onHold → k ∈ (doGet s.q).1.onHold :=
    fun k hk => onHold_step s.q .get k h.q hk rfl
  cases hd : delivers s.q with
  | none =>
    exact ⟨hi, fun w' it' hw' hr' => hmono _ (h.heldOn w' it' hw' hr'), h.distinct⟩
  | some p =>
    obtain ⟨k, v⟩ := p
    have hknew : k ∈ (doGet s.q).1.onHold := get_onHold s.q k v hd
    have hkold : k ∉ s.q.onHold := fun hk => not_delivered_onHold s.q k h.q hk v hd
    refine ⟨hi, ?_, ?_⟩
    · intro w' it' hw' hr'
      show it'.key ∈ (doGet s.q).1.onHold
      by_cases hww : w' = w
      · subst hww
        rw [heldBy_setHeld_self] at hw'
        cases hw'; exact hknew
      · rw [heldBy_setHeld_other _ _ _ _ hww] at hw'
        exact hmono _ (h.heldOn w' it' hw' hr')
    · intro w1 w2 i1 i2 hne h1 h2 hr1 hr2
      by_cases hw1 : w1 = w
      · subst hw1
        rw [heldBy_setHeld_self] at h1
        rw [heldBy_setHeld_other _ _ _ _ (fun e => hne e.symm)] at h2
        cases h1
        intro heq
        have heq' : k = i2.key := heq
        exact hkold (heq' ▸ h.heldOn w2 i2 h2 hr2)
      · rw [heldBy_setHeld_other _ _ _ _ hw1] at h1
        by_cases hw2 : w2 = w
        · subst hw2
          rw [heldBy_setHeld_self] at h2
          cases h2
          intro heq
          have heq' : i1.key = k := heq
          exact hkold (heq' ▸ h.heldOn w1 i1 h1 hr1)
        · rw [heldBy_setHeld_other _ _ _ _ hw2] at h2
          exact h.distinct w1 w2 i1 i2 hne h1 h2 hr1 hr2

theorem winv_step (s : W) (st : WStep) (h : WInv s) : WInv (wstep s st) := by
  cases st with
  | put k v =>
    have : wstep s (.put k v) = { s with q := doPut s.q k v } := rfl
    rw [this]
    exact ⟨inv_put _ _ _ h.q, fun w it hw hr => by
      show it.key ∈ (doPut s.q k v).onHold
      rw [put_onHold]; exact h.heldOn w it hw hr, h.distinct⟩
  | get w => exact winv_get s w h
  | release w => exact winv_rel s w _ (Or.inl rfl) h
  | requeue w t => exact winv_rel s w _ (Or.inr ⟨t, rfl⟩) h
  | tick d =>
    have : wstep s (.tick d) = { s with q := { s.q with now := s.q.now + d } } := rfl
    rw [this]
    exact ⟨inv_step s.q (.tick d) h.q, h.heldOn, h.distinct⟩

theorem winv_run (s : W) (ws : List WStep) (h : WInv s) : WInv (wrun s ws) := by
  induction ws generalizing s with
  | nil => exact h
  | cons st rest ih => exact ih _ (winv_step s st h)

/-- **C09 exclusion, in terms of workers.** For every schedule of any number of workers: at
    no time do two different workers hold un-released items for the same key. -/
theorem exclusion_workers (ws : List WStep) (w1 w2 : Nat) (i1 i2 : Item) (hne : w1 ≠ w2)
    (h1 : heldBy w1 (wrun {} ws).held = some i1) (h2 : heldBy w2 (wrun {} ws).held = some i2)
    (hr1 : i1.released = false) (hr2 : i2.released = false) : i1.key ≠ i2.key :=
  (winv_run {} ws winv_init).distinct w1 w2 i1 i2 hne h1 h2 hr1 hr2

theorem wstep_q (s : W) (st : WStep) :
    (wstep s st).q = match toCore s st with
      | some c => (step s.q c).1
      | none => s.q := by
  cases st with
  | put k v => rfl
  | tick d => rfl
  | get w =>
    rw [wstep_get]
    show _ = (doGet s.q).1
    cases delivers s.q with
    | none => rfl
    | some p => rfl
  | release w =>
    rcases toCore_rel s w (.release w) (Or.inl rfl) with ⟨h1, h2⟩ | ⟨it, c, hh, _, hc, _, _⟩
    · rw [h1, h2]
    · rw [wstep_rel_some s w it _ c (Or.inl rfl) hh hc, hc]
  | requeue w t =>
    rcases toCore_rel s w (.requeue w t) (Or.inr ⟨t, rfl⟩) with ⟨h1, h2⟩ | ⟨it, c, hh, _, hc, _, _⟩
    · rw [h1, h2]
    · rw [wstep_rel_some s w it _ c (Or.inr ⟨t, rfl⟩) hh hc, hc]

/-- the queue state a worker-level schedule reaches is the one its compiled core schedule reaches -/
theorem compile_run (s : W) (ws : List WStep) : (wrun s ws).q = run s.q (compile s ws) := by
  induction ws generalizing s with
  | nil => rfl
  | cons st rest ih =>
    show (wrun (wstep s st) rest).q = run s.q (_ ++ compile (wstep s st) rest)
    rw [ih, run_append, wstep_q]
    cases toCore s st <;> rfl

/-- **Domain lemma.** Every worker-level schedule (any number of workers, double releases,
    releases without an item, workers that drop items) compiles to a core schedule inside the
    domain `validFrom`: the `Item.released` guard makes sure a release message for `k` only ever
    reaches the loop while `k` is on hold. So `coalescing`, `backoff_honoured` … apply to all
    of them. -/
theorem compile_valid (s : W) (ws : List WStep) (h : WInv s) : validFrom s.q (compile s ws) = true := by
  induction ws generalizing s with
  | nil => rfl
  | cons st rest ih =>
    show validFrom s.q (_ ++ compile (wstep s st) rest) = true
    have ih' := ih _ (winv_step s st h)
    rw [wstep_q] at ih'
    rw [validFrom_append]
    cases st with
    | put k v => simpa [toCore, validFrom, run] using ih'
    | tick d => simpa [toCore, validFrom, run] using ih'
    | get w => simpa [toCore, validFrom, run] using ih'
    | release w =>
      rcases toCore_rel s w (.release w) (Or.inl rfl) with ⟨h1, _⟩ | ⟨it, c, hh, hr, hc, _, hform⟩
      · rw [h1] at ih' ⊢; simpa [validFrom, run] using ih'
      · rw [hc] at ih' ⊢
        have hon := h.heldOn w it hh hr
        rcases hform with rfl | ⟨t, rfl⟩ <;> simpa [validFrom, run, hon] using ih'
    | requeue w t =>
      rcases toCore_rel s w (.requeue w t) (Or.inr ⟨t, rfl⟩) with ⟨h1, _⟩ | ⟨it, c, hh, hr, hc, _, hform⟩
      · rw [h1] at ih' ⊢; simpa [validFrom, run] using ih'
      · rw [hc] at ih' ⊢
        have hon := h.heldOn w it hh hr
        rcases hform with rfl | ⟨t', rfl⟩ <;> simpa [validFrom, run, hon] using ih'

/-- coalescing for worker-level schedules, as one corollary showing how the pieces combine -/
theorem coalescing_workers (ws : List WStep) (k v : Nat)
    (hl : lastPut k init (compile {} ws) none = some v) : pending (wrun {} ws).q k = some v := by
  rw [compile_run]
  exact coalescing _ k v (compile_valid {} ws winv_init) hl

/-! ### the tie to the independent specification (`Cosi.Spec.Queue`) -/

/-- what the specification sees of key `k` in a state of the model of the code -/
def absKey (s : Q) (k : Nat) : Spec.Queue.KeySt :=
  { pend := (lookup k s.pq).map (fun e => (e.val, e.due)),
    held := decide (k ∈ s.onHold),
    parked := amLookup k s.ohq }

def abs (s : Q) : Spec.Queue.S := { ks := absKey s, now := s.now }

/-- the specification event a step of the loop amounts to (`get` names the key it hands out) -/
def evOf (s : Q) : Step → Spec.Queue.Ev
  | .put k v => .put k v
  | .get => (match delivers s with
             | some (k, _) => .deliver k
             | none => .tick 0)
  | .release k => .release k
  | .requeue k v t => .requeue k v t
  | .tick d => .tick d

theorem spec_ext (a b : Spec.Queue.S) (h1 : ∀ k, a.ks k = b.ks k) (h2 : a.now = b.now) : a = b := by
  cases a; cases b
  simp only [Spec.Queue.S.mk.injEq]
  exact ⟨funext h1, h2⟩

theorem absKey_put (s : Q) (k v k' : Nat) (h : QInv s) :
    absKey (doPut s k v) k' = (Spec.Queue.step (abs s) (.put k v)).ks k' := by
  unfold doPut
  by_cases hh : k ∈ s.onHold
  · simp only [hh, if_true, Spec.Queue.step, abs, absKey, decide_true, Spec.Queue.S.set]
    by_cases hk : k' = k
    · subst hk; simp [amLookup_amSet_self, hh]
    · simp [hk, amLookup_amSet_other _ _ _ _ hk]
  · simp only [hh, if_false, Spec.Queue.step, abs, absKey, decide_false, Spec.Queue.S.set]
    by_cases hk : k' = k
    · subst hk
      have hov : Gen.Queue.putOverwrite = true := rfl
      simp only [hov, if_true, Bool.false_eq_true, if_false]
      cases hl : lookup k' s.pq with
      | none => simp [push_new _ _ _ _ _ hl, Spec.Queue.freshen, hh]
      | some e =>
        by_cases ht : s.now > e.due
        · rw [push_later _ _ _ _ _ e hl ht]
          simp [Spec.Queue.freshen, hh]; omega
        · rw [push_earlier _ _ _ _ _ e hl ht h.nodupKeys]
          simp [Spec.Queue.freshen, hh]; omega
    · simp [hk, push_lookup_other _ _ _ _ _ _ hk]

theorem absKey_get (s : Q) (k' : Nat) (h : QInv s) :
    absKey (doGet s).1 k' = (Spec.Queue.step (abs s) (evOf s .get)).ks k' := by
  unfold doGet evOf
  rw [delivers_eq]
  cases hp : peek s.pq s.now with
  | none => simp [Spec.Queue.step, abs]
  | some e =>
    obtain ⟨rest, hpq, _⟩ := peek_some _ _ _ hp
    have hn := h.nodupKeys
    rw [hpq] at hn
    have hn' : e.key ∉ keys rest ∧ (keys rest).Nodup := by
      simpa [keys, List.nodup_cons] using hn
    simp only [Option.map_some, Spec.Queue.step, abs, Spec.Queue.S.set, absKey, pop, hpq, List.tail_cons]
    by_cases hk : k' = e.key
    · subst hk
      simp [(lookup_none_iff _ _).2 hn'.1, mem_ssAdd]
    · have hne : e.key ≠ k' := fun e' => hk e'.symm
      simp only [hk, if_false, mem_ssAdd, false_or]
      conv => rhs; unfold lookup
      simp [hne]

theorem absKey_released_other (s : Q) (k k' v : Nat) (a : Option Nat) (h : QInv s) (hne : k' ≠ k) :
    absKey (doReleased s k v a) k' = absKey s k' := by
  obtain ⟨h1, h2⟩ := released_other s k' k v a hne
  simp only [absKey, h1, h2, released_onHold, mem_ssRemove _ _ _ h.nodupHold, hne, ne_eq,
    not_false_eq_true, true_and]

theorem absKey_released_self (s : Q) (k v : Nat) (a : Option Nat) (h : QInv s) (hk : k ∈ s.onHold) :
    absKey (doReleased s k v a) k =
      (match amLookup k s.ohq with
       | some pv => { pend := Spec.Queue.freshen (a.map fun t => (v, t)) pv s.now, held := false, parked := none }
       | none => { pend := a.map fun t => (v, t), held := false, parked := none }) := by
  have hl : lookup k s.pq = none := (lookup_none_iff k s.pq).2 (h.disjoint k hk)
  obtain ⟨_, h2, _, _, _, h6, _, h8, h9, h10⟩ := inv_requeuePart s k v a h
  have hl1 : lookup k (doRequeuePart s k v a).pq = a.map fun t => (⟨k, v, t⟩ : Entry) := by
    cases a with
    | none => exact hl
    | some t => exact push_new _ _ _ _ _ hl
  have hheld : decide (k ∈ (doReleased s k v a).onHold) = false := by
    rw [released_onHold]
    simp [mem_ssRemove _ _ _ h.nodupHold]
  unfold absKey
  rw [hheld]
  unfold doReleased
  generalize doRequeuePart s k v a = s1 at *
  rw [← h9]
  unfold doUnpark
  cases hp : amLookup k s1.ohq with
  | none =>
    simp only [hl1, hp]
    cases a <;> rfl
  | some pv =>
    have hov : Gen.Queue.onHoldOverwrite = true := rfl
    simp only [Gen.Queue.onHoldRepush, if_true, hov]
    have hpk : amLookup k (amDel k s1.ohq) = none :=
      (amLookup_none_iff _ _).2 (fun hm => ((amKeys_amDel k k _ h6).1 hm).1 rfl)
    rw [hpk, h10]
    cases a with
    | none =>
      simp only [Option.map_none] at hl1 ⊢
      rw [push_new _ _ _ _ _ hl1]; rfl
    | some t =>
      simp only [Option.map_some] at hl1 ⊢
      by_cases ht : s.now > t
      · rw [push_later _ _ _ _ _ _ hl1 ht]
        simp [Spec.Queue.freshen]; omega
      · rw [push_earlier _ _ _ _ _ _ hl1 ht h2]
        simp [Spec.Queue.freshen]; omega

/-- **C09 tie to the specification.** Every step of the model of the code — with the
    overwrite flags, the parked-value re-push etc. as REGENERATED from /repo — is exactly the
    corresponding event of the independent per-key specification, for every state the loop can
    be in and every step in the API's domain. -/
theorem refines_spec (s : Q) (st : Step) (h : QInv s) (hv : validFrom s [st] = true) :
    abs (step s st).1 = Spec.Queue.step (abs s) (evOf s st) := by
  cases st with
  | put k v =>
    refine spec_ext _ _ (fun k' => absKey_put s k v k' h) ?_
    show (doPut s k v).now = (Spec.Queue.step (abs s) (.put k v)).now
    unfold doPut Spec.Queue.step
    by_cases hh : k ∈ s.onHold <;> simp [hh, abs, absKey, Spec.Queue.S.set]
  | get =>
    refine spec_ext _ _ (fun k' => absKey_get s k' h) ?_
    show (doGet s).1.now = (Spec.Queue.step (abs s) (evOf s .get)).now
    unfold doGet evOf
    rw [delivers_eq]
    cases peek s.pq s.now <;> simp [Spec.Queue.step, abs, Spec.Queue.S.set]
  | release k =>
    have hk : k ∈ s.onHold := by simpa [validFrom] using hv
    refine spec_ext _ _ (fun k' => ?_) ?_
    · show absKey (doReleased s k 0 none) k' = (Spec.Queue.step (abs s) (.release k)).ks k'
      by_cases hkk : k' = k
      · subst hkk
        rw [absKey_released_self s k' 0 none h hk]
        have hl : lookup k' s.pq = none := (lookup_none_iff k' s.pq).2 (h.disjoint k' hk)
        simp only [Spec.Queue.step, abs, absKey, hl, Option.map_none]
        cases amLookup k' s.ohq <;> simp [Spec.Queue.S.set]
      · rw [absKey_released_other s k k' 0 none h hkk]
        simp only [Spec.Queue.step, abs]
        cases (absKey s k).parked <;> simp [Spec.Queue.S.set, hkk]
    · show (doReleased s k 0 none).now = (Spec.Queue.step (abs s) (.release k)).now
      rw [released_now]
      simp only [Spec.Queue.step, abs]
      cases (absKey s k).parked <;> rfl
  | requeue k v t =>
    have hk : k ∈ s.onHold := by simpa [validFrom] using hv
    refine spec_ext _ _ (fun k' => ?_) ?_
    · show absKey (doReleased s k v (some t)) k' = (Spec.Queue.step (abs s) (.requeue k v t)).ks k'
      by_cases hkk : k' = k
      · subst hkk
        rw [absKey_released_self s k' v (some t) h hk]
        simp only [Spec.Queue.step, abs, absKey, Option.map_some]
        cases amLookup k' s.ohq <;> simp [Spec.Queue.S.set]
      · rw [absKey_released_other s k k' v (some t) h hkk]
        simp only [Spec.Queue.step, abs]
        cases (absKey s k).parked <;> simp [Spec.Queue.S.set, hkk]
    · show (doReleased s k v (some t)).now = (Spec.Queue.step (abs s) (.requeue k v t)).now
      rw [released_now]
      simp only [Spec.Queue.step, abs]
      cases (absKey s k).parked <;> rfl
  | tick d => exact spec_ext _ _ (fun _ => rfl) rfl

/-- what a `get` hands out is allowed by the specification, with the specification's value -/
theorem delivers_allowed (s : Q) (k v : Nat) (h : QInv s) (hd : delivers s = some (k, v)) :
    Spec.Queue.canDeliver (abs s) k = some v := by
  obtain ⟨e, rest, hpq, hke, hval, hdue, _⟩ := delivers_some s k v hd
  have hl : lookup k s.pq = some e := by rw [hpq]; unfold lookup; simp [hke]
  have hnh : k ∉ s.onHold := fun hk => h.disjoint k hk (lookup_mem_keys k s.pq e hl)
  simp [Spec.Queue.canDeliver, abs, absKey, hl, hdue, hnh, hval]

/-- … and whenever the specification allows some delivery, a `get` does hand out an item -/
theorem spec_deliverable_served (s : Q) (k v : Nat) (h : QInv s)
    (hc : Spec.Queue.canDeliver (abs s) k = some v) : (delivers s).isSome := by
  unfold Spec.Queue.canDeliver at hc
  simp only [abs, absKey] at hc
  cases hl : lookup k s.pq with
  | none => simp [hl] at hc
  | some e =>
    simp only [hl, Option.map_some] at hc
    by_cases hd : e.due ≤ s.now
    · exact get_serves_due s k e h hl hd
    · simp [hd] at hc

/-! ### error backoff: growth, randomisation interval, reset on success -/

open Backoff

/-- Defined on the reconcile history alone (not on the model): the number of consecutive
    plain failures of `k` (error or panic, no RequeueError interval) since the last reconcile of
    `k` that ended ok / skipped / asked for a requeue without error. A failure that carries its
    own RequeueError interval neither advances nor resets the count (qruntime.go:309–312). -/
def streak (k : Nat) : List (Nat × Outcome) → Nat → Nat
  | [], n => n
  | (k', o) :: rest, n =>
    streak k rest
      (if k' = k then
        (match o.err with
         | .fail => if o.requeue.getD 0 = 0 then n + 1 else n
         | _ => 0)
       else n)

theorem streak_append (k : Nat) (a b : List (Nat × Outcome)) (n : Nat) :
    streak k (a ++ b) n = streak k b (streak k a n) := by
  induction a generalizing n with
  | nil => rfl
  | cons p xs ih => obtain ⟨k', o⟩ := p; exact ih _

/-- the map holds `base n` for a key with a streak of `n > 0`, and nothing for streak 0 -/
def MapRel (k : Nat) (m : Backoff.Map) (n : Nat) : Prop :=
  (amKeys m).Nodup ∧ (n = 0 → amLookup k m = none) ∧ (0 < n → amLookup k m = some (base n))

theorem cur_of_rel (k : Nat) (m : Backoff.Map) (n : Nat) (h : MapRel k m n) :
    (amLookup k m).getD initial = base n := by
  cases n with
  | zero => rw [h.2.1 rfl]; rfl
  | succ n => rw [h.2.2 (Nat.succ_pos n)]; rfl

theorem clear_rel (k : Nat) (m : Backoff.Map) (n : Nat) (h : MapRel k m n) : MapRel k (clear m k) 0 := by
  have hc : clear m k = amDel k m := by simp [clear, Gen.Queue.clearDeletes]
  rw [hc]
  refine ⟨amNodup_amDel _ _ h.1, fun _ => ?_, fun h0 => absurd h0 (Nat.lt_irrefl 0)⟩
  exact (amLookup_none_iff _ _).2 (fun hm => ((amKeys_amDel k k m h.1).1 hm).1 rfl)

theorem clear_other (k k' : Nat) (m : Backoff.Map) (n : Nat) (hne : k ≠ k') (h : MapRel k m n) :
    MapRel k (clear m k') n := by
  have hc : clear m k' = amDel k' m := by simp [clear, Gen.Queue.clearDeletes]
  rw [hc]
  exact ⟨amNodup_amDel _ _ h.1, fun h0 => by rw [amLookup_amDel_other _ _ _ hne]; exact h.2.1 h0,
    fun h0 => by rw [amLookup_amDel_other _ _ _ hne]; exact h.2.2 h0⟩

theorem getInterval_eq (m : Backoff.Map) (k : Nat) :
    getInterval m k = (amSet k (incr ((amLookup k m).getD initial)) m, bounds ((amLookup k m).getD initial)) := by
  simp [getInterval, Gen.Queue.backoffDefaultCtor, Gen.Queue.backoffMaxElapsedZero]

/-- **the regenerated rule of runReconcile's failure branch** (rests on `Gen.Queue.outcomeSwitchKnown`,
    `Gen.Queue.failBackoffGuard`): the error backoff supplies the interval exactly when the failure
    brings none of its own — whether or not the error was a RequeueError -/
theorem genRules_failBackoff (requeued : Bool) (i : Nat) : genRules.failBackoff requeued i = (i == 0) := by
  have h1 : Gen.Queue.outcomeSwitchKnown = true := by decide
  have h2 : Gen.Queue.failBackoffGuard = .intervalZero := by decide
  simp [genRules, h1, h2]

/-- the model of the current source text, written out -/
theorem decision_eq (m : Backoff.Map) (k : Nat) (o : Outcome) :
    decision m k o =
      (match o.err with
       | .skip => (Backoff.clear m k, if o.requeue.getD 0 ≠ 0 then .requeueIn (o.requeue.getD 0) (o.requeue.getD 0) else .release)
       | .fail =>
         if o.requeue.getD 0 = 0 then
           ((Backoff.getInterval m k).1,
            if (Backoff.getInterval m k).2.2 ≠ 0 then
              .requeueIn (Backoff.getInterval m k).2.1 (Backoff.getInterval m k).2.2 else .release)
         else (m, .requeueIn (o.requeue.getD 0) (o.requeue.getD 0))
       | .none => (Backoff.clear m k, if o.requeue.getD 0 ≠ 0 then .requeueIn (o.requeue.getD 0) (o.requeue.getD 0) else .release)) := by
  unfold decision decisionWith
  cases he : o.err with
  | none => rfl
  | skip => rfl
  | fail =>
    simp only [genRules_failBackoff]
    by_cases hi : o.requeue.getD 0 = 0
    · simp [hi]
    · simp [hi]

theorem decision_rel (k k' : Nat) (o : Outcome) (m : Backoff.Map) (n : Nat) (h : MapRel k m n) :
    MapRel k (decision m k' o).1
      (if k' = k then
        (match o.err with
         | .fail => if o.requeue.getD 0 = 0 then n + 1 else n
         | _ => 0)
       else n) := by
  by_cases hk : k' = k
  · subst hk
    simp only [if_true]
    rw [decision_eq]
    cases he : o.err with
    | none => exact clear_rel k' m n h
    | skip => exact clear_rel k' m n h
    | fail =>
      by_cases hi : o.requeue.getD 0 = 0
      · simp only [hi, if_true, getInterval_eq, cur_of_rel k' m n h]
        exact ⟨amNodup_amSet _ _ _ h.1, fun h0 => absurd h0 (Nat.succ_ne_zero n),
          fun _ => amLookup_amSet_self _ _ _⟩
      · simp only [hi, if_false]; exact h
  · simp only [hk, if_false]
    have hne : k ≠ k' := fun e => hk e.symm
    rw [decision_eq]
    cases he : o.err with
    | none => exact clear_other k k' m n hne h
    | skip => exact clear_other k k' m n hne h
    | fail =>
      by_cases hi : o.requeue.getD 0 = 0
      · simp only [hi, if_true, getInterval_eq]
        exact ⟨amNodup_amSet _ _ _ h.1, fun h0 => by rw [amLookup_amSet_other _ _ _ _ hne]; exact h.2.1 h0,
          fun h0 => by rw [amLookup_amSet_other _ _ _ _ hne]; exact h.2.2 h0⟩
      · simp only [hi, if_false]; exact h

theorem runOutcomes_rel (k : Nat) (hist : List (Nat × Outcome)) (m : Backoff.Map) (n : Nat)
    (h : MapRel k m n) : MapRel k (runOutcomes m hist) (streak k hist n) := by
  induction hist generalizing m n with
  | nil => exact h
  | cons p rest ih =>
    obtain ⟨k', o⟩ := p
    exact ih _ _ (decision_rel k k' o m n h)

theorem bounds_ne_zero (cur : Nat) : (bounds cur).2 ≠ 0 := by
  unfold bounds; simp

/-- **C09 backoff schedule.** For EVERY history of reconcile outcomes of any keys (ok, error,
    panic, skip, requeue with/without error, in any order): when a reconcile of `k` now fails
    with a plain error or a panic, the item is requeued after a delay drawn from the interval
    around `base n`, where `n` is the number of consecutive plain failures of `k` so far — so
    the base interval grows with every further failure and is back at `base 0` after any
    success or skip of `k` (`backoff_reset`). -/
theorem backoff_schedule (hist : List (Nat × Outcome)) (k : Nat) :
    (decision (runOutcomes [] hist) k Outcome.error).2 =
      Decision.requeueIn (bounds (base (streak k hist 0))).1 (bounds (base (streak k hist 0))).2 := by
  have h := runOutcomes_rel k hist [] 0 ⟨by simp [amKeys], fun _ => rfl, fun h0 => absurd h0 (Nat.lt_irrefl 0)⟩
  simp only [decision_eq, Outcome.error, Option.getD_none, if_true, getInterval_eq,
    cur_of_rel k _ _ h, bounds_ne_zero, ne_eq, not_false_eq_true]

/-- a panic is handled exactly like an error (recovered in runOnce) -/
theorem panic_is_error : Outcome.panic = Outcome.error := rfl

/-- success, skip and requeue-without-error reset the schedule: the next failure starts again
    from the initial interval -/
theorem backoff_reset (hist : List (Nat × Outcome)) (k : Nat) (o : Outcome)
    (ho : o.err = .none ∨ o.err = .skip) :
    (decision (runOutcomes [] (hist ++ [(k, o)])) k Outcome.error).2 =
      Decision.requeueIn (bounds initial).1 (bounds initial).2 := by
  rw [backoff_schedule, streak_append]
  have : streak k [(k, o)] (streak k hist 0) = 0 := by
    rcases ho with ho | ho <;> simp [streak, ho]
  rw [this]; rfl

/-- each further plain failure moves to the next base interval -/
theorem backoff_grows (hist : List (Nat × Outcome)) (k : Nat) :
    streak k (hist ++ [(k, Outcome.error)]) 0 = streak k hist 0 + 1 := by
  rw [streak_append]; simp [streak, Outcome.error]

/-- what runReconcile does with each outcome class (qruntime.go:298–334) -/
theorem outcome_table (m : Backoff.Map) (k i : Nat) (hi : i ≠ 0) :
    (decision m k Outcome.ok).2 = .release ∧
    (decision m k Outcome.skip).2 = .release ∧
    (decision m k (Outcome.requeueOnly i)) = (clear m k, .requeueIn i i) ∧
    (decision m k (Outcome.requeueErr i)) = (m, .requeueIn i i) ∧
    (decision m k Outcome.ok).1 = clear m k ∧ (decision m k Outcome.skip).1 = clear m k := by
  simp [decision_eq, Outcome.ok, Outcome.skip, Outcome.requeueOnly, Outcome.requeueErr, hi]

/-- the base interval: 500 ms · 1.5ⁿ (each step truncated to whole ns) capped at 60 s -/
theorem base_step (n : Nat) :
    base (n + 1) = if base n * 3 ≥ 60000000000 * 2 then 60000000000 else base n * 3 / 2 := by
  show incr (base n) = _
  unfold incr
  simp only [Gen.Queue.multiplierNum, Gen.Queue.multiplierDen, Gen.Queue.maxIntervalNs]
  by_cases h : base n * 3 ≥ 60000000000 * 2
  · have : base n * 15 ≥ 60000000000 * 10 := by omega
    simp [h, this]
  · have : ¬ base n * 15 ≥ 60000000000 * 10 := by omega
    simp only [h, this, if_false]; omega

theorem base_table :
    base 0 = 500000000 ∧ base 1 = 750000000 ∧ base 2 = 1125000000 ∧ base 3 = 1687500000 ∧
    base 4 = 2531250000 ∧ base 5 = 3796875000 ∧ base 6 = 5695312500 ∧ base 7 = 8542968750 ∧
    base 8 = 12814453125 ∧ base 9 = 19221679687 ∧ base 10 = 28832519530 ∧
    base 11 = 43248779295 ∧ base 12 = 60000000000 := by
  decide

theorem base_capped (n : Nat) (h : 12 ≤ n) : base n = 60000000000 := by
  induction n with
  | zero => omega
  | succ n ih =>
    by_cases h12 : n + 1 = 12
    · rw [h12]; exact base_table.2.2.2.2.2.2.2.2.2.2.2.2
    · rw [base_step, ih (by omega)]; simp

theorem base_le_max (n : Nat) : base n ≤ 60000000000 := by
  induction n with
  | zero => exact (by decide : base 0 ≤ 60000000000)
  | succ n ih =>
    rw [base_step]
    by_cases h : base n * 3 ≥ 60000000000 * 2
    · simp [h]
    · simp only [h, if_false]; omega

theorem base_mono (n : Nat) : base n ≤ base (n + 1) := by
  have := base_le_max n
  rw [base_step]
  by_cases h : base n * 3 ≥ 60000000000 * 2
  · simp only [h, if_true]; exact this
  · simp only [h, if_false]; omega

theorem pow_dominates (n : Nat) (h : 12 ≤ n) : 60000000000 * 2 ^ n ≤ 500000000 * 3 ^ n := by
  induction n with
  | zero => omega
  | succ n ih =>
    by_cases h12 : n + 1 = 12
    · rw [h12]; decide
    · have := ih (by omega)
      rw [Nat.pow_succ, Nat.pow_succ]; omega

/-- the model's backoff base is the specification's min(500 ms · 1.5ⁿ, 60 s) up to the
    truncation to whole nanoseconds after each multiplication (at most 2 ns in total) -/
theorem base_matches_spec (n : Nat) :
    base n ≤ Spec.Queue.base n ∧ Spec.Queue.base n ≤ base n + 2 := by
  by_cases h : n < 13
  · have hall : ∀ m, m < 13 → base m ≤ Spec.Queue.base m ∧ Spec.Queue.base m ≤ base m + 2 := by decide
    exact hall n h
  · have h1 := base_capped n (by omega)
    have h2 : Spec.Queue.base n = 60000000000 := by
      unfold Spec.Queue.base
      have hp := pow_dominates n (by omega)
      have : 60000000000 ≤ 500000000 * 3 ^ n / 2 ^ n :=
        (Nat.le_div_iff_mul_le (Nat.pow_pos (by decide : 0 < 2))).2 hp
      omega
    rw [h1, h2]; omega

/-- the randomised delay lies in `[⌊cur/2⌋, cur + ⌊cur/2⌋ + 1]`, i.e. `[0.5, 1.5] × cur` up to rounding -/
theorem bounds_eq (cur : Nat) : bounds cur = (cur / 2, cur + cur / 2 + 1) := by
  unfold bounds
  simp only [Gen.Queue.randomizationNum, Gen.Queue.randomizationDen]
  refine Prod.ext ?_ ?_ <;> simp <;> omega

/-- the randomisation window of the model lies within 3 ns of the specification's [0.5,1.5]×base -/
theorem window_matches_spec (n : Nat) :
    (bounds (base n)).1 ≤ (Spec.Queue.window n).1 ∧ (Spec.Queue.window n).1 ≤ (bounds (base n)).1 + 1 ∧
    (bounds (base n)).2 ≤ (Spec.Queue.window n).2 + 1 ∧ (Spec.Queue.window n).2 ≤ (bounds (base n)).2 + 2 := by
  have h := base_matches_spec n
  rw [bounds_eq]
  simp only [Spec.Queue.window]
  omega

def resultOf : ErrKind → Spec.Queue.Result
  | .none => .ok
  | .skip => .skip
  | .fail => .fail

/-- the streak as the specification counts it -/
def specStreak (k : Nat) : List (Nat × Outcome) → Nat → Nat
  | [], n => n
  | (k', o) :: rest, n =>
    specStreak k rest (if k' = k then Spec.Queue.nextStreak n (resultOf o.err) (o.requeue.getD 0) else n)

theorem streak_eq_spec (k : Nat) (hist : List (Nat × Outcome)) (n : Nat) :
    streak k hist n = specStreak k hist n := by
  induction hist generalizing n with
  | nil => rfl
  | cons p rest ih =>
    obtain ⟨k', o⟩ := p
    unfold streak specStreak
    rw [ih]
    cases he : o.err <;> simp [Spec.Queue.nextStreak, resultOf]

/-- (marker) errors reported below this line are in the non-vacuity examples -/
theorem examples_follow : True := trivial

/-! ### non-vacuity: the hypotheses of the theorems are satisfiable by non-trivial schedules,
    the bounds are tight, and the domain hypothesis is needed -/

-- exclusion: key 1 handed out; more puts of 1, another worker's get, time, other keys in between
example : delivers (run init [.put 1 10]) = some (1, 10) ∧
    (∀ st ∈ [Step.put 1 11, .get, .tick 5, .put 2 3, .get, .release 2], releases 1 st = false) ∧
    delivers (run init ([.put 1 10] ++ Step.get :: [Step.put 1 11, .get, .tick 5, .put 2 3])) = some (2, 3) := by
  decide

-- … and after the release the parked value IS handed out again (so exclusion is not vacuous "never")
example : delivers (run init [.put 1 10, .get, .put 1 11, .release 1]) = some (1, 11) := by decide

-- coalescing: three puts, one of them parked, a requeue carrying the stale value 10
example : validFrom init [.put 1 9, .put 1 10, .get, .put 1 11, .put 1 12, .requeue 1 10 500] = true ∧
    lastPut 1 init [.put 1 9, .put 1 10, .get, .put 1 11, .put 1 12, .requeue 1 10 500] none = some 12 ∧
    (run init [.put 1 9, .put 1 10, .get, .put 1 11, .put 1 12, .requeue 1 10 500]).pq = [⟨1, 12, 0⟩] ∧
    pendingCount (run init [.put 1 9, .put 1 10, .get, .put 1 11, .put 1 12]) 1 = 1 := by
  decide

-- the domain hypothesis `validFrom` is needed: a release message for a key that is NOT on hold
-- (impossible through `Item`, see `compile_valid`) overwrites the fresh value with the stale one,
-- because `PriorityQueue.Push(…, overwriteValue=false)` re-inserts with the pushed value when
-- the new time is not later:
example : (push [⟨1, 11, 5⟩] 1 10 3 false).1 = [⟨1, 10, 3⟩] := by decide

example : validFrom init [.put 1 10, .get, .release 1, .tick 5, .put 1 11, .requeue 1 10 3] = false ∧
    lastPut 1 init [.put 1 10, .get, .release 1, .tick 5, .put 1 11, .requeue 1 10 3] none = some 11 ∧
    pending (run init [.put 1 10, .get, .release 1, .tick 5, .put 1 11, .requeue 1 10 3]) 1 = some 10 := by
  decide

-- no loss: put while held, requeue far in the future, the parked value is due immediately
example : 1 ∈ (run init [.put 1 10, .get]).onHold ∧
    (∀ st ∈ [Step.put 2 7, .put 1 12, .tick 3, .get], releases 1 st = false) ∧
    lastPutIn 1 [Step.put 2 7, .put 1 12, .tick 3, .get] (some 11) = some 12 ∧
    lookup 1 (run init ([.put 1 10, .get] ++ Step.put 1 11 :: [Step.put 2 7, .put 1 12, .tick 3, .get]
      ++ [Step.requeue 1 10 100000])).pq = some ⟨1, 12, 3⟩ := by
  decide

-- honoured backoff: hypotheses hold; one tick before `t` nothing is handed out, at `t` it is
example : validFrom init ([.put 1 10, .get] ++ Step.requeue 1 10 500 :: [Step.put 2 1, .get, .tick 499]) = true ∧
    amLookup 1 (run init [.put 1 10, .get]).ohq = none ∧
    (∀ st ∈ [Step.put 2 1, .get, .tick 499], putsKey 1 st = false) ∧
    delivers (run init ([.put 1 10, .get] ++ Step.requeue 1 10 500 :: [Step.put 2 1, .get, .tick 499])) = none ∧
    delivers (run init ([.put 1 10, .get] ++ Step.requeue 1 10 500 :: [Step.put 2 1, .get, .tick 500])) = some (1, 10) := by
  decide

-- … and the two escape clauses of the property are real: a fresh put, or a value parked during the hold
example : delivers (run init [.put 1 10, .get, .requeue 1 10 500, .put 1 11]) = some (1, 11) ∧
    delivers (run init [.put 1 10, .get, .put 1 11, .requeue 1 10 500]) = some (1, 11) := by
  decide

-- tie to the specification: the hypotheses of `refines_spec` hold at a non-trivial state, and the
-- specification then allows exactly the delivery the model makes
example : validFrom (run init [.put 1 10, .get, .put 1 11, .put 2 5]) [.requeue 1 10 500] = true ∧
    Spec.Queue.canDeliver (abs (run init [.put 1 10, .get, .put 1 11, .put 2 5, .requeue 1 10 500])) 1 = some 11 ∧
    Spec.Queue.canDeliver (abs (run init [.put 1 10, .get, .put 1 11, .put 2 5])) 1 = none ∧
    delivers (run init [.put 1 10, .get, .put 1 11, .put 2 5, .requeue 1 10 500]) = some (2, 5) := by
  decide

-- workers: two workers hold different keys; worker 3 gets nothing while both keys are held
example : heldBy 1 (wrun {} [.put 1 1, .put 2 2, .get 1, .get 2, .put 1 5, .get 3]).held = some ⟨1, 1, false⟩ ∧
    heldBy 2 (wrun {} [.put 1 1, .put 2 2, .get 1, .get 2, .put 1 5, .get 3]).held = some ⟨2, 2, false⟩ ∧
    heldBy 3 (wrun {} [.put 1 1, .put 2 2, .get 1, .get 2, .put 1 5, .get 3]).held = none ∧
    compile {} [.put 1 1, .get 1, .release 1, .release 1, .requeue 1 9, .release 2] = [.put 1 1, .get, .release 1] := by
  decide

-- backoff schedule: error, error, (other key ok), panic ⇒ streak 3; then ok ⇒ 0
example : streak 1 [(1, .error), (1, .error), (2, .ok), (1, .panic)] 0 = 3 ∧
    streak 1 [(1, .error), (1, .requeueErr 7), (1, .error), (1, .ok)] 0 = 0 ∧
    streak 1 [(1, .error), (1, .requeueErr 7), (1, .error)] 0 = 2 := by
  decide

end Cosi.C09
