/-
  Cosi.Props.C15 — the runtime read cache is coherent with the state and with notifications.

  All theorems are about `Cosi.Model.Cache` (binary searches of handler.go transcribed loop by
  loop, the waiter map, processEvents over the REGENERATED event tables of `Cosi.Gen.Cache`,
  the hand-off order of deduplicateWatchEvents) and quantify over every operation sequence /
  event history / batching without bound; proofs are inductions over those lists.

    A  binary search            bsLoop_spec, bsearch_split, putRes_eq_ins, removeRes_eq_del, get_is_lookup
    B  handler invariants       sorted_invariant, list_is_filter, blocks_until_bootstrapped,
                                ctx_fate, cached_ctx_teardown_iff, ctx_open_means_running,
                                run_refines_spec
    C  events and the pipeline  boot_exact, never_partial, cache_eq_replay, pipe_eq_applyAll,
                                fresh_as_notification, woken_reader_sees_notification,
                                monotone_per_resource, monotone_versions, quiescent_cache_eq_state

  Domain (explicit hypotheses, never hidden in definitions): bootstrap contents arrive in
  strictly ascending ID order (`Sorted`; the state's bootstrap list is sorted by ID —
  collection.go:470, C02 `kindInit`), the watch stream carries no Errored event (then the
  runtime stops: C16), IDs are valid UTF-8 (Lean compares code points, Go bytes).
-/
import Cosi.Spec.Cache

namespace Cosi.C15
open Cosi Cosi.Cache

/-! ## A. binary search -/

/-- the slice invariant: strictly ascending IDs (hence unique IDs) -/
abbrev Sorted (l : List Res) : Prop := l.Pairwise (fun a b => a.id < b.id)

theorem sorted_idx {l : List Res} (hs : Sorted l) {k h : Nat} {y x : Res} (hkh : k < h)
    (hy : l[k]? = some y) (hx : l[h]? = some x) : y.id < x.id := by
  have hk : k < l.length := by
    apply Decidable.byContradiction; intro hn
    rw [List.getElem?_eq_none (Nat.le_of_not_lt hn)] at hy; cases hy
  have hh : h < l.length := by
    apply Decidable.byContradiction; intro hn
    rw [List.getElem?_eq_none (Nat.le_of_not_lt hn)] at hx; cases hx
  rw [List.getElem?_eq_getElem hk] at hy
  rw [List.getElem?_eq_getElem hh] at hx
  cases hy; cases hx
  exact List.pairwise_iff_getElem.1 hs k h hk hh hkh

/-- what the loop of `slices.BinarySearchFunc` establishes on a sorted slice, for any fuel that
    covers the interval: the result splits the slice into IDs below `id` and IDs not below it -/
theorem bsLoop_spec (l : List Res) (id : String) (hs : Sorted l) :
    ∀ (fuel i j : Nat), i ≤ j → j ≤ l.length → j - i ≤ fuel →
      (∀ k x, k < i → l[k]? = some x → x.id < id) →
      (∀ k x, j ≤ k → l[k]? = some x → ¬ x.id < id) →
      i ≤ bsLoop l id fuel i j ∧ bsLoop l id fuel i j ≤ j ∧
      (∀ k x, k < bsLoop l id fuel i j → l[k]? = some x → x.id < id) ∧
      (∀ k x, bsLoop l id fuel i j ≤ k → l[k]? = some x → ¬ x.id < id) := by
  intro fuel
  induction fuel with
  | zero =>
    intro i j hij _ hf lo hi
    have : j = i := by omega
    subst this
    exact ⟨Nat.le_refl _, Nat.le_refl _, lo, hi⟩
  | succ fuel ih =>
    intro i j hij hjl hf lo hi
    unfold bsLoop
    by_cases hlt : i < j
    · simp only [hlt, if_true]
      have hh : (i + j) / 2 < l.length := by omega
      rw [List.getElem?_eq_getElem hh]
      simp only
      by_cases hc : (l[(i + j) / 2]).id < id
      · simp only [hc, if_true]
        have lo' : ∀ k x, k < (i + j) / 2 + 1 → l[k]? = some x → x.id < id := by
          intro k x hk hx
          by_cases hke : k = (i + j) / 2
          · subst hke
            rw [List.getElem?_eq_getElem hh] at hx
            cases hx; exact hc
          · exact String.lt_trans (sorted_idx hs (by omega) hx (List.getElem?_eq_getElem hh)) hc
        have r := ih ((i + j) / 2 + 1) j (by omega) hjl (by omega) lo' hi
        exact ⟨by omega, r.2.1, r.2.2.1, r.2.2.2⟩
      · simp only [hc, if_false]
        have hi' : ∀ k x, (i + j) / 2 ≤ k → l[k]? = some x → ¬ x.id < id := by
          intro k x hk hx hlt'
          by_cases hke : k = (i + j) / 2
          · subst hke
            rw [List.getElem?_eq_getElem hh] at hx
            cases hx; exact hc hlt'
          · exact hc (String.lt_trans (sorted_idx hs (by omega) (List.getElem?_eq_getElem hh) hx) hlt')
        have r := ih i ((i + j) / 2) (by omega) (by omega) (by omega) lo hi'
        exact ⟨r.1, by omega, r.2.2.1, r.2.2.2⟩
    · simp only [hlt, if_false]
      have : j = i := by omega
      subst this
      exact ⟨Nat.le_refl _, Nat.le_refl _, lo, hi⟩

/-- the index `slices.BinarySearchFunc` returns on a sorted slice is the split point -/
theorem bsearch_split (l : List Res) (id : String) (hs : Sorted l) :
    (bsearch l id).1 ≤ l.length ∧
    (∀ x ∈ l.take (bsearch l id).1, x.id < id) ∧
    (∀ x ∈ l.drop (bsearch l id).1, ¬ x.id < id) := by
  have r := bsLoop_spec l id hs l.length 0 l.length (Nat.zero_le _) (Nat.le_refl _) (by omega)
    (fun k x hk _ => absurd hk (Nat.not_lt_zero _))
    (fun k x hk hx => by rw [List.getElem?_eq_none hk] at hx; cases hx)
  refine ⟨r.2.1, ?_, ?_⟩
  · intro x hx
    obtain ⟨k, hk⟩ := List.mem_iff_getElem?.1 hx
    rw [List.getElem?_take] at hk
    by_cases hlt : k < (bsearch l id).1
    · rw [if_pos hlt] at hk
      exact r.2.2.1 k x hlt hk
    · rw [if_neg hlt] at hk; cases hk
  · intro x hx
    obtain ⟨k, hk⟩ := List.mem_iff_getElem?.1 hx
    rw [List.getElem?_drop] at hk
    exact r.2.2.2 _ x (Nat.le_add_right _ _) hk

/-- the `found` flag: the element at the split point, if any, has exactly that ID -/
theorem bsearch_found (l : List Res) (id : String) :
    (bsearch l id).2 = (match (l.drop (bsearch l id).1).head? with
      | some x => x.id == id
      | none => false) := by
  have : (l.drop (bsearch l id).1).head? = l[(bsearch l id).1]? := by
    rw [List.head?_drop]
  rw [this]
  rfl

/-! the linear specifications on a split list -/

theorem str_total {a b : String} (h1 : ¬ a < b) (h2 : ¬ a = b) : b < a := by
  apply Decidable.byContradiction
  intro hn
  exact h2 (String.le_antisymm (String.not_lt.1 h1) (String.not_lt.1 hn)).symm

theorem ins_append_lt (a b : List Res) (r : Res) (h : ∀ x ∈ a, x.id < r.id) :
    ins (a ++ b) r = a ++ ins b r := by
  induction a with
  | nil => rfl
  | cons x xs ih =>
    have hx : x.id < r.id := h x (by simp)
    have h1 : ¬ r.id < x.id := String.lt_asymm hx
    have h2 : ¬ x.id = r.id := fun e => String.lt_irrefl r.id (e ▸ hx)
    show ins (x :: (xs ++ b)) r = x :: (xs ++ ins b r)
    rw [ins, if_neg h1, if_neg h2, ih (fun y hy => h y (List.mem_cons_of_mem _ hy))]

theorem del_append_lt (a b : List Res) (id : String) (h : ∀ x ∈ a, x.id < id) :
    del (a ++ b) id = a ++ del b id := by
  unfold del
  rw [List.filter_append]
  congr 1
  apply List.filter_eq_self.2
  intro x hx
  have : x.id ≠ id := fun e => String.lt_irrefl id (e ▸ h x hx)
  simp [this]

theorem find_append_lt (a b : List Res) (id : String) (h : ∀ x ∈ a, x.id < id) :
    find (a ++ b) id = find b id := by
  unfold find
  rw [List.find?_append]
  have : List.find? (fun x => x.id == id) a = none := by
    apply List.find?_eq_none.2
    intro x hx
    have : x.id ≠ id := fun e => String.lt_irrefl id (e ▸ h x hx)
    simp [this]
  rw [this]; rfl

theorem del_of_gt (b : List Res) (id : String) (h : ∀ x ∈ b, id < x.id) : del b id = b := by
  unfold del
  apply List.filter_eq_self.2
  intro x hx
  have : x.id ≠ id := fun e => String.lt_irrefl id (e ▸ h x hx)
  simp [this]

theorem find_of_gt (b : List Res) (id : String) (h : ∀ x ∈ b, id < x.id) : find b id = none := by
  unfold find
  apply List.find?_eq_none.2
  intro x hx
  have : x.id ≠ id := fun e => String.lt_irrefl id (e ▸ h x hx)
  simp [this]

/-- the tail of a sorted list whose head is not below `id`: everything after the head is above -/
theorem tail_gt {x : Res} {xs : List Res} {id : String} (hs : Sorted (x :: xs)) (hx : ¬ x.id < id) :
    ∀ y ∈ xs, id < y.id := by
  intro y hy
  have hxy : x.id < y.id := (List.pairwise_cons.1 hs).1 y hy
  by_cases he : x.id = id
  · exact he ▸ hxy
  · exact String.lt_trans (str_total hx he) hxy

theorem sorted_drop {l : List Res} (hs : Sorted l) (k : Nat) : Sorted (l.drop k) := by
  have := (List.take_append_drop k l) ▸ hs
  exact (List.pairwise_append.1 this).2.1

/-- **put is insert-or-replace.** On a sorted slice the binary-search `put` (replace at the found
    index, else `slices.Insert` at the returned index) is the linear insert-or-replace by ID. -/
theorem putRes_eq_ins (l : List Res) (r : Res) (hs : Sorted l) : putRes l r = ins l r := by
  obtain ⟨hlen, hlo, hhi⟩ := bsearch_split l r.id hs
  have hf := bsearch_found l r.id
  have hsplit := List.take_append_drop (bsearch l r.id).1 l
  have hsd := sorted_drop hs (bsearch l r.id).1
  unfold putRes
  generalize hk : (bsearch l r.id).1 = k at *
  generalize hfd : (bsearch l r.id).2 = fd at *
  have hb : bsearch l r.id = (k, fd) := by rw [← hk, ← hfd]
  rw [hb]
  simp only
  conv => rhs; rw [← hsplit]
  rw [ins_append_lt _ _ _ hlo]
  cases hd : l.drop k with
  | nil =>
    rw [hd] at hf
    simp only [List.head?_nil] at hf
    subst hf
    simp [ins]
  | cons x xs =>
    rw [hd] at hf hhi hsd
    simp only [List.head?_cons] at hf
    have hxn : ¬ x.id < r.id := hhi x (by simp)
    have hklt : k < l.length := by
      apply Decidable.byContradiction; intro hn
      rw [List.drop_eq_nil_of_le (Nat.le_of_not_lt hn)] at hd; cases hd
    by_cases he : x.id = r.id
    · have : fd = true := by rw [hf]; simp [he]
      subst this
      simp only [if_true]
      rw [List.set_eq_take_append_cons_drop, if_pos hklt]
      have hd1 : l.drop (k + 1) = xs := by
        have := List.drop_eq_getElem_cons hklt
        rw [hd] at this
        cases this; rfl
      rw [hd1]
      have h1 : ¬ r.id < x.id := fun h => String.lt_irrefl _ (he ▸ h)
      simp [ins, he]
    · have : fd = false := by rw [hf]; simp [he]
      subst this
      have hlt : r.id < x.id := str_total hxn he
      simp [ins, hlt]

/-- **remove is delete-by-ID** on a sorted slice -/
theorem removeRes_eq_del (l : List Res) (id : String) (hs : Sorted l) : removeRes l id = del l id := by
  obtain ⟨hlen, hlo, hhi⟩ := bsearch_split l id hs
  have hf := bsearch_found l id
  have hsplit := List.take_append_drop (bsearch l id).1 l
  have hsd := sorted_drop hs (bsearch l id).1
  unfold removeRes
  generalize hk : (bsearch l id).1 = k at *
  generalize hfd : (bsearch l id).2 = fd at *
  have hb : bsearch l id = (k, fd) := by rw [← hk, ← hfd]
  rw [hb]
  simp only
  conv => rhs; rw [← hsplit]
  rw [del_append_lt _ _ _ hlo]
  cases hd : l.drop k with
  | nil =>
    rw [hd] at hf
    simp only [List.head?_nil] at hf
    subst hf
    simp only [Bool.false_eq_true, if_false]
    have ht : l.take k = l := by
      have := hsplit
      rw [hd, List.append_nil] at this
      exact this
    rw [ht]
    simp [del]
  | cons x xs =>
    rw [hd] at hf hhi hsd
    simp only [List.head?_cons] at hf
    have hxn : ¬ x.id < id := hhi x (by simp)
    have hgt := tail_gt hsd hxn
    have hklt : k < l.length := by
      apply Decidable.byContradiction; intro hn
      rw [List.drop_eq_nil_of_le (Nat.le_of_not_lt hn)] at hd; cases hd
    have hd1 : l.drop (k + 1) = xs := by
      have := List.drop_eq_getElem_cons hklt
      rw [hd] at this
      cases this; rfl
    by_cases he : x.id = id
    · have : fd = true := by rw [hf]; simp [he]
      subst this
      simp only [if_true]
      rw [hd1]
      have : del (x :: xs) id = del xs id := by simp [del, he]
      rw [this, del_of_gt xs id hgt]
    · have : fd = false := by rw [hf]; simp [he]
      subst this
      simp only [Bool.false_eq_true, if_false]
      have hall : ∀ y ∈ x :: xs, id < y.id := by
        intro y hy
        rcases List.mem_cons.1 hy with rfl | hy
        · exact str_total hxn he
        · exact hgt y hy
      rw [del_of_gt _ id hall, ← hd, hsplit]

/-- the binary search of get / contextWithTeardown is the lookup by ID on a sorted slice -/
theorem getRes_eq_find (l : List Res) (id : String) (hs : Sorted l) : getRes l id = find l id := by
  obtain ⟨hlen, hlo, hhi⟩ := bsearch_split l id hs
  have hf := bsearch_found l id
  have hsplit := List.take_append_drop (bsearch l id).1 l
  have hsd := sorted_drop hs (bsearch l id).1
  unfold getRes
  generalize hk : (bsearch l id).1 = k at *
  generalize hfd : (bsearch l id).2 = fd at *
  have hb : bsearch l id = (k, fd) := by rw [← hk, ← hfd]
  rw [hb]
  simp only
  conv => rhs; rw [← hsplit]
  rw [find_append_lt _ _ _ hlo]
  cases hd : l.drop k with
  | nil =>
    rw [hd] at hf
    simp only [List.head?_nil] at hf
    subst hf
    simp [find]
  | cons x xs =>
    rw [hd] at hf hhi hsd
    simp only [List.head?_cons] at hf
    have hxn : ¬ x.id < id := hhi x (by simp)
    have hgt := tail_gt hsd hxn
    have hklt : k < l.length := by
      apply Decidable.byContradiction; intro hn
      rw [List.drop_eq_nil_of_le (Nat.le_of_not_lt hn)] at hd; cases hd
    have hkx : l[k]? = some x := by
      have := List.drop_eq_getElem_cons hklt
      rw [hd] at this
      rw [List.getElem?_eq_getElem hklt]
      cases this; rfl
    by_cases he : x.id = id
    · have : fd = true := by rw [hf]; simp [he]
      subst this
      simp [find, he, hkx]
    · have : fd = false := by rw [hf]; simp [he]
      subst this
      have h1 : find (x :: xs) id = find xs id := by simp [find, he]
      rw [h1, find_of_gt xs id hgt]
      simp

/-! ## B. the handler: invariants over all operation sequences -/

/-! the regenerated facts the handler theorems stand on (each is `rfl` on the extracted value:
    a source change that flips one makes the dependent theorems fail to build) -/
theorem gen_put_closes : Gen.Cache.putClosesWhenTearingDown = true := rfl
theorem gen_remove_closes : Gen.Cache.removeClosesWaiter = true := rfl
theorem gen_get_waits : Gen.Cache.getWaits = true := rfl
theorem gen_list_waits : Gen.Cache.listWaits = true := rfl
theorem gen_ctx_waits : Gen.Cache.ctxWaits = true := rfl
theorem gen_cache_pred : Gen.Selector.cachePred = .idAndLabels := rfl

theorem mem_ins {l : List Res} {r y : Res} (h : y ∈ ins l r) : y = r ∨ y ∈ l := by
  induction l with
  | nil => simp [ins] at h; exact Or.inl h
  | cons x xs ih =>
    unfold ins at h
    by_cases h1 : r.id < x.id
    · rw [if_pos h1] at h
      rcases List.mem_cons.1 h with rfl | h
      · exact Or.inl rfl
      · exact Or.inr h
    · rw [if_neg h1] at h
      by_cases h2 : x.id = r.id
      · rw [if_pos h2] at h
        rcases List.mem_cons.1 h with rfl | h
        · exact Or.inl rfl
        · exact Or.inr (List.mem_cons_of_mem _ h)
      · rw [if_neg h2] at h
        rcases List.mem_cons.1 h with rfl | h
        · exact Or.inr (by simp)
        · rcases ih h with rfl | h
          · exact Or.inl rfl
          · exact Or.inr (List.mem_cons_of_mem _ h)

theorem sorted_ins {l : List Res} (h : Sorted l) (r : Res) : Sorted (ins l r) := by
  induction l with
  | nil => simp [ins, Sorted]
  | cons x xs ih =>
    have hx := List.pairwise_cons.1 h
    unfold ins
    by_cases h1 : r.id < x.id
    · rw [if_pos h1]
      refine List.pairwise_cons.2 ⟨?_, h⟩
      intro z hz
      rcases List.mem_cons.1 hz with rfl | hz
      · exact h1
      · exact String.lt_trans h1 (hx.1 z hz)
    · rw [if_neg h1]
      by_cases h2 : x.id = r.id
      · rw [if_pos h2]
        refine List.pairwise_cons.2 ⟨?_, hx.2⟩
        intro z hz
        exact h2 ▸ hx.1 z hz
      · rw [if_neg h2]
        refine List.pairwise_cons.2 ⟨?_, ih hx.2⟩
        intro z hz
        rcases mem_ins hz with rfl | hz
        · exact str_total h1 (fun e => h2 e.symm)
        · exact hx.1 z hz

theorem sorted_del {l : List Res} (h : Sorted l) (id : String) : Sorted (del l id) :=
  List.Pairwise.filter _ h

theorem sorted_snoc {l : List Res} (h : Sorted l) (r : Res) (hr : ∀ x ∈ l, x.id < r.id) : Sorted (l ++ [r]) := by
  refine List.pairwise_append.2 ⟨h, by simp, ?_⟩
  intro a ha b hb
  rcases List.mem_singleton.1 hb with rfl
  exact hr a ha

theorem ins_snoc (l : List Res) (r : Res) (hr : ∀ x ∈ l, x.id < r.id) : ins l r = l ++ [r] := by
  have := ins_append_lt l [] r hr
  simpa [ins] using this

theorem find_cons_eq {x : Res} {xs : List Res} {id : String} (h : x.id = id) : find (x :: xs) id = some x := by
  simp [find, h]

theorem find_cons_ne {x : Res} {xs : List Res} {id : String} (h : ¬ x.id = id) : find (x :: xs) id = find xs id := by
  simp [find, h]

theorem del_cons_eq {x : Res} {xs : List Res} {id : String} (h : x.id = id) : del (x :: xs) id = del xs id := by
  simp [del, h]

theorem del_cons_ne {x : Res} {xs : List Res} {id : String} (h : ¬ x.id = id) : del (x :: xs) id = x :: del xs id := by
  simp [del, h]

/-- `find` after insert-or-replace / delete: the map semantics (no sortedness needed) -/
theorem find_ins (l : List Res) (r : Res) (id : String) :
    find (ins l r) id = if r.id = id then some r else find l id := by
  induction l with
  | nil =>
    show find [r] id = _
    by_cases h : r.id = id
    · rw [if_pos h, find_cons_eq h]
    · rw [if_neg h, find_cons_ne h]
  | cons x xs ih =>
    unfold ins
    by_cases h1 : r.id < x.id
    · rw [if_pos h1]
      by_cases h : r.id = id
      · rw [if_pos h, find_cons_eq h]
      · rw [if_neg h, find_cons_ne h]
    · rw [if_neg h1]
      by_cases h2 : x.id = r.id
      · rw [if_pos h2]
        by_cases h : r.id = id
        · rw [if_pos h, find_cons_eq h]
        · rw [if_neg h, find_cons_ne h, find_cons_ne (fun e => h (h2 ▸ e))]
      · rw [if_neg h2]
        by_cases hx : x.id = id
        · rw [find_cons_eq hx, if_neg (fun e => h2 (hx.trans e.symm)), find_cons_eq hx]
        · rw [find_cons_ne hx, ih, find_cons_ne hx]

theorem find_del (l : List Res) (id' id : String) :
    find (del l id') id = if id' = id then none else find l id := by
  induction l with
  | nil => by_cases h : id' = id <;> simp [del, find, h]
  | cons x xs ih =>
    by_cases hx : x.id = id'
    · rw [del_cons_eq hx, ih]
      by_cases h : id' = id
      · rw [if_pos h, if_pos h]
      · rw [if_neg h, if_neg h, find_cons_ne (fun e => h (hx ▸ e))]
    · rw [del_cons_ne hx]
      by_cases h3 : x.id = id
      · rw [find_cons_eq h3, if_neg (fun e => hx (h3.trans e.symm)), find_cons_eq h3]
      · rw [find_cons_ne h3, ih, find_cons_ne h3]

/-! ### which operation sequences the property talks about -/

/-- bootstrap contents arrive in strictly ascending ID order before the one mark
    (processEvents appends only while the handler is not bootstrapped) -/
def stepOk (h : Handler) : Cosi.Cache.Op → Bool
  | .append r => !h.bootstrapped && h.resources.all (fun x => x.id < r.id)
  | .mark => !h.bootstrapped
  | _ => true

def runOk (h : Handler) : List Cosi.Cache.Op → Bool
  | [] => true
  | op :: ops => stepOk h op && runOk (h.step op) ops

@[simp] theorem closeWaiter_resources (h : Handler) (id : String) : (h.closeWaiter id).resources = h.resources := by
  unfold Handler.closeWaiter; split <;> rfl

@[simp] theorem closeWaiter_boot (h : Handler) (id : String) : (h.closeWaiter id).bootstrapped = h.bootstrapped := by
  unfold Handler.closeWaiter; split <;> rfl

@[simp] theorem put_resources (h : Handler) (r : Res) : (h.put r).resources = putRes h.resources r := by
  unfold Handler.put
  rw [gen_put_closes]
  simp only [if_true]
  split <;> simp

@[simp] theorem put_boot (h : Handler) (r : Res) : (h.put r).bootstrapped = h.bootstrapped := by
  unfold Handler.put
  rw [gen_put_closes]
  simp only [if_true]
  split <;> simp

@[simp] theorem remove_resources (h : Handler) (r : Res) : (h.remove r).resources = removeRes h.resources r.id := by
  unfold Handler.remove
  rw [gen_remove_closes]
  simp

@[simp] theorem remove_boot (h : Handler) (r : Res) : (h.remove r).bootstrapped = h.bootstrapped := by
  unfold Handler.remove
  rw [gen_remove_closes]
  simp

theorem ctxTeardown_resources (h h' : Handler) (cid : Nat) (id : String) (e : h.ctxTeardown cid id = some h') :
    h'.resources = h.resources ∧ h'.bootstrapped = h.bootstrapped := by
  unfold Handler.ctxTeardown at e
  split at e
  · split at e
    · cases e; exact ⟨rfl, rfl⟩
    · split at e <;> (cases e; exact ⟨rfl, rfl⟩)
  · cases e

theorem step_ctx_resources (h : Handler) (cid : Nat) (id : String) :
    (h.step (.ctx cid id)).resources = h.resources ∧ (h.step (.ctx cid id)).bootstrapped = h.bootstrapped := by
  show ((h.ctxTeardown cid id).getD h).resources = _ ∧ ((h.ctxTeardown cid id).getD h).bootstrapped = _
  cases e : h.ctxTeardown cid id with
  | none => exact ⟨rfl, rfl⟩
  | some h' => exact ctxTeardown_resources h h' cid id e

/-- the contents after one operation, in terms of the linear map operations -/
theorem step_resources (h : Handler) (hs : Sorted h.resources) (op : Cosi.Cache.Op) :
    (h.step op).resources = (match op with
      | .append r => h.resources ++ [r]
      | .put r => ins h.resources r
      | .remove r => del h.resources r.id
      | _ => h.resources) := by
  cases op with
  | append r => rfl
  | put r => show (h.put r).resources = _; rw [put_resources, putRes_eq_ins _ _ hs]
  | remove r => show (h.remove r).resources = _; rw [remove_resources, removeRes_eq_del _ _ hs]
  | mark => rfl
  | ctx cid id => exact (step_ctx_resources h cid id).1
  | cancel cid => rfl

theorem sorted_step (h : Handler) (hs : Sorted h.resources) (op : Cosi.Cache.Op) (hok : stepOk h op = true) :
    Sorted (h.step op).resources := by
  rw [step_resources h hs op]
  cases op with
  | append r =>
    simp only [stepOk, Bool.and_eq_true, List.all_eq_true, decide_eq_true_eq] at hok
    exact sorted_snoc hs r hok.2
  | put r => exact sorted_ins hs r
  | remove r => exact sorted_del hs r.id
  | mark => exact hs
  | ctx cid id => exact hs
  | cancel cid => exact hs

/-- **sorted_invariant.** Given that bootstrap contents arrive sorted, the slice stays strictly
    ascending by ID (so IDs are unique) under every sequence of append / put / remove / mark /
    contextWithTeardown / cancel — the precondition of every binary search in the handler. -/
theorem sorted_invariant (ops : List Cosi.Cache.Op) :
    ∀ (h : Handler), Sorted h.resources → runOk h ops = true → Sorted (h.run ops).resources := by
  induction ops with
  | nil => intro h hs _; exact hs
  | cons op ops ih =>
    intro h hs hok
    simp only [runOk, Bool.and_eq_true] at hok
    exact ih (h.step op) (sorted_step h hs op hok.1) hok.2

/-- **get_is_lookup.** A cached `get` is not enabled before the mark; afterwards the binary search
    returns exactly the entry with that ID, or not-found when there is none. -/
theorem get_is_lookup (h : Handler) (hs : Sorted h.resources) (id : String) :
    h.get id = if h.bootstrapped then some (find h.resources id) else none := by
  unfold Handler.get Handler.enabled
  rw [gen_get_waits, getRes_eq_find _ _ hs]
  cases h.bootstrapped <;> rfl

theorem find_some_iff {l : List Res} (hs : Sorted l) {id : String} {r : Res} :
    find l id = some r ↔ r ∈ l ∧ r.id = id := by
  constructor
  · intro h
    unfold find at h
    exact ⟨List.mem_of_find?_eq_some h, by simpa using List.find?_some h⟩
  · intro ⟨hm, hid⟩
    induction l with
    | nil => cases hm
    | cons x xs ih =>
      have hx := List.pairwise_cons.1 hs
      rcases List.mem_cons.1 hm with rfl | hm
      · exact find_cons_eq hid
      · have : ¬ x.id = id := fun e => String.lt_irrefl id (by
          have := hx.1 r hm
          rw [e, hid] at this
          exact this)
        rw [find_cons_ne this]
        exact ih hx.2 hm

/-- **list_is_filter.** A cached `list` is not enabled before the mark; afterwards it returns
    exactly the entries that satisfy the selector (ID query and label queries, C14's one
    predicate), each once, in ascending ID order. -/
theorem list_is_filter (h : Handler) (s : Selector.Sel) :
    h.list s = if h.bootstrapped then some (h.resources.filter fun r => s.matches (toItem r)) else none := by
  unfold Handler.list Handler.enabled listRes
  rw [gen_list_waits, gen_cache_pred]
  cases h.bootstrapped
  · rfl
  · simp only [Bool.not_true, Bool.false_or, if_true]
    by_cases hq : (s.idQ.isSome || !s.queries.isEmpty) = true
    · rw [if_pos hq]; rfl
    · rw [if_neg hq]
      simp only [Bool.or_eq_true, Bool.not_eq_true', not_or, Bool.not_eq_true, Option.isSome_eq_false_iff,
        Option.isNone_iff_eq_none, Bool.not_eq_false] at hq
      have : ∀ r : Res, s.matches (toItem r) = true := by
        intro r
        simp [Selector.Sel.matches, Selector.Sel.idMatches, hq.1, Selector.queriesMatch, hq.2]
      congr 1
      exact (List.filter_eq_self.2 (fun r _ => this r)).symm

theorem list_members (h : Handler) (hs : Sorted h.resources) (hb : h.bootstrapped = true) (s : Selector.Sel) :
    ∃ l, h.list s = some l ∧ Sorted l ∧ ∀ r, r ∈ l ↔ r ∈ h.resources ∧ s.matches (toItem r) = true := by
  refine ⟨_, by rw [list_is_filter, hb]; rfl, List.Pairwise.filter _ hs, ?_⟩
  intro r; simp

/-- **blocks_until_bootstrapped.** While the handler is not marked bootstrapped none of the three
    reads is enabled: a caller of get / list / contextWithTeardown stays parked. -/
theorem blocks_until_bootstrapped (h : Handler) (hb : h.bootstrapped = false) (id : String)
    (s : Selector.Sel) (cid : Nat) :
    h.get id = none ∧ h.list s = none ∧ h.ctxTeardown cid id = none := by
  unfold Handler.get Handler.list Handler.ctxTeardown Handler.enabled
  rw [gen_get_waits, gen_list_waits, gen_ctx_waits, hb]
  exact ⟨rfl, rfl, rfl⟩

/-- the only operation that enables reads is the mark -/
theorem boot_only_by_mark (h : Handler) (op : Cosi.Cache.Op) (hb : h.bootstrapped = false)
    (hop : op ≠ .mark) : (h.step op).bootstrapped = false := by
  cases op with
  | append r => exact hb
  | put r => show (h.put r).bootstrapped = false; rw [put_boot]; exact hb
  | remove r => show (h.remove r).bootstrapped = false; rw [remove_boot]; exact hb
  | mark => exact absurd rfl hop
  | ctx cid id => rw [(step_ctx_resources h cid id).2]; exact hb
  | cancel cid => exact hb

/-! ### teardown-bound contexts -/

/-- a context that is not cancelled is waiting on the channel registered for its ID -/
def WInv (h : Handler) : Prop := ∀ c ∈ h.ctxs, c.cancelled = false → h.waiters.contains c.id = true

/-- does this operation tear `id` down, remove it, or cancel the parent of context `cid`? -/
def kills (cid : Nat) (id : String) : Cosi.Cache.Op → Bool
  | .put r => id == r.id && r.phase == .tearingDown
  | .remove r => id == r.id
  | .cancel c => cid == c
  | _ => false

def fate (c : TCtx) (op : Cosi.Cache.Op) : TCtx := { c with cancelled := c.cancelled || kills c.cid c.id op }

theorem tctx_eta (c : TCtx) (b : Bool) (h : b = c.cancelled) : ({ c with cancelled := b } : TCtx) = c := by
  cases c; simp at h ⊢; exact h

theorem closeWaiter_get (h : Handler) (hw : WInv h) (id : String) (i : Nat) (c : TCtx)
    (hc : h.ctxs[i]? = some c) :
    (h.closeWaiter id).ctxs[i]? = some { c with cancelled := c.cancelled || (c.id == id) } := by
  unfold Handler.closeWaiter
  by_cases hcon : h.waiters.contains id = true
  · rw [if_pos hcon]
    simp only [List.getElem?_map, hc, Option.map_some]
    by_cases he : c.id = id
    · simp [he]
    · rw [if_neg he]
      have hb : (c.id == id) = false := by simp [he]
      exact congrArg some (tctx_eta c _ (by simp [hb])).symm
  · rw [if_neg hcon, hc]
    by_cases he : c.id = id
    · have hcan : c.cancelled = true := by
        cases hcc : c.cancelled with
        | true => rfl
        | false =>
          have := hw c (List.mem_of_getElem? hc) hcc
          rw [he] at this
          exact absurd this hcon
      exact congrArg some (tctx_eta c _ (by simp [hcan])).symm
    · exact congrArg some (tctx_eta c _ (by simp [he])).symm

theorem closeWaiter_winv (h : Handler) (hw : WInv h) (id : String) : WInv (h.closeWaiter id) := by
  unfold Handler.closeWaiter
  by_cases hcon : h.waiters.contains id = true
  · rw [if_pos hcon]
    intro c' hc' hcan
    simp only [List.mem_map] at hc'
    obtain ⟨c, hc, rfl⟩ := hc'
    by_cases he : c.id = id
    · simp [he] at hcan
    · simp only [he, if_false] at hcan ⊢
      have := hw c hc hcan
      simp only [List.contains_eq_mem, List.mem_filter, decide_eq_true_eq] at this ⊢
      simp [this, he]
  · rw [if_neg hcon]; exact hw

/-- **the fate of a context, one operation at a time**: it becomes cancelled exactly by a put of
    its ID with the tearing-down phase, a remove of its ID, or the cancellation of its parent -/
theorem ctx_step (h : Handler) (hw : WInv h) (op : Cosi.Cache.Op) (i : Nat) (c : TCtx)
    (hc : h.ctxs[i]? = some c) : (h.step op).ctxs[i]? = some (fate c op) := by
  have keep : ∀ (h' : Handler), h'.ctxs = h.ctxs → kills c.cid c.id op = false → h'.ctxs[i]? = some (fate c op) := by
    intro h' e hk
    rw [e, hc]
    exact congrArg some (tctx_eta c _ (by simp [hk])).symm
  cases op with
  | append r => exact keep _ rfl rfl
  | mark => exact keep _ rfl rfl
  | put r =>
    show (h.put r).ctxs[i]? = _
    unfold Handler.put
    rw [gen_put_closes]
    simp only [if_true]
    by_cases htd : r.phase = .tearingDown
    · rw [if_pos htd]
      have hw' : WInv { h with resources := putRes h.resources r } := hw
      rw [closeWaiter_get _ hw' r.id i c hc]
      simp [fate, kills, htd]
    · rw [if_neg htd]
      exact keep _ rfl (by simp [kills, htd])
  | remove r =>
    show (h.remove r).ctxs[i]? = _
    unfold Handler.remove
    rw [gen_remove_closes]
    simp only [if_true]
    have hw' : WInv { h with resources := removeRes h.resources r.id } := hw
    rw [closeWaiter_get _ hw' r.id i c hc]
    simp [fate, kills]
  | ctx cid id =>
    show ((h.ctxTeardown cid id).getD h).ctxs[i]? = _
    have hi : i < h.ctxs.length := by
      apply Decidable.byContradiction; intro hn
      rw [List.getElem?_eq_none (Nat.le_of_not_lt hn)] at hc; cases hc
    have app : ∀ (x : TCtx), (h.ctxs ++ [x])[i]? = some (fate c (.ctx cid id)) := by
      intro x
      rw [List.getElem?_append_left hi, hc]
      exact congrArg some (tctx_eta c _ (by simp [kills])).symm
    unfold Handler.ctxTeardown
    split
    · split
      · exact app _
      · split <;> exact app _
    · exact keep _ rfl rfl
  | cancel cid =>
    show (h.cancelParent cid).ctxs[i]? = _
    unfold Handler.cancelParent
    simp only [List.getElem?_map, hc, Option.map_some]
    by_cases he : c.cid = cid
    · simp [fate, kills, he]
    · simp only [he, if_false]
      exact congrArg some (tctx_eta c _ (by simp [kills, he])).symm

theorem winv_step (h : Handler) (hw : WInv h) (op : Cosi.Cache.Op) : WInv (h.step op) := by
  cases op with
  | append r => exact hw
  | mark => exact hw
  | put r =>
    show WInv (h.put r)
    unfold Handler.put
    rw [gen_put_closes]
    simp only [if_true]
    have hw' : WInv { h with resources := putRes h.resources r } := hw
    split
    · exact closeWaiter_winv _ hw' _
    · exact hw'
  | remove r =>
    show WInv (h.remove r)
    unfold Handler.remove
    rw [gen_remove_closes]
    simp only [if_true]
    have hw' : WInv { h with resources := removeRes h.resources r.id } := hw
    exact closeWaiter_winv _ hw' _
  | ctx cid id =>
    show WInv ((h.ctxTeardown cid id).getD h)
    have cancelledNew : ∀ (x : TCtx), x.cancelled = true →
        WInv { h with ctxs := h.ctxs ++ [x] } := by
      intro x hx c hc hcan
      rcases List.mem_append.1 hc with hc | hc
      · exact hw c hc hcan
      · rcases List.mem_singleton.1 hc with rfl
        rw [hx] at hcan; cases hcan
    unfold Handler.ctxTeardown
    split
    · split
      · exact cancelledNew _ rfl
      · split
        · exact cancelledNew _ rfl
        · intro c hc hcan
          change c ∈ h.ctxs ++ [_] at hc
          show (if h.waiters.contains id = true then h.waiters else h.waiters ++ [id]).contains c.id = true
          rcases List.mem_append.1 hc with hc | hc
          · have := hw c hc hcan
            split
            · exact this
            · simp only [List.contains_eq_mem, List.mem_append, decide_eq_true_eq] at this ⊢
              exact Or.inl this
          · rcases List.mem_singleton.1 hc with rfl
            split
            · assumption
            · simp
    · exact hw
  | cancel cid =>
    show WInv (h.cancelParent cid)
    intro c' hc' hcan
    unfold Handler.cancelParent at hc' ⊢
    simp only [List.mem_map] at hc'
    obtain ⟨c, hc, rfl⟩ := hc'
    by_cases he : c.cid = cid
    · simp [he] at hcan
    · simp only [he, if_false] at hcan ⊢
      exact hw c hc hcan

/-- the fate of a context over a whole operation sequence -/
theorem ctx_fate (ops : List Cosi.Cache.Op) :
    ∀ (h : Handler), WInv h → ∀ (i : Nat) (c : TCtx), h.ctxs[i]? = some c →
      (h.run ops).ctxs[i]? = some { c with cancelled := c.cancelled || ops.any (kills c.cid c.id) } := by
  induction ops with
  | nil =>
    intro h _ i c hc
    show h.ctxs[i]? = _
    rw [hc]
    exact congrArg some (tctx_eta c _ (by simp)).symm
  | cons op ops ih =>
    intro h hw i c hc
    have := ih (h.step op) (winv_step h hw op) i (fate c op) (ctx_step h hw op i c hc)
    show ((h.step op).run ops).ctxs[i]? = _
    rw [this]
    simp [fate, Bool.or_assoc]

/-- **cached_ctx_teardown_iff.** A teardown-bound context obtained for `id` from a bootstrapped
    cache, followed by ANY operation sequence, is cancelled at the end if and only if the
    resource was absent or tearing down at call time, or a later put carried the tearing-down
    phase for that ID, or a later remove hit that ID (or the caller cancelled the parent).
    Stated functionally: the context's record is known exactly. -/
theorem cached_ctx_teardown_iff (h : Handler) (hs : Sorted h.resources) (hw : WInv h)
    (hb : h.bootstrapped = true) (cid : Nat) (id : String) (ops : List Cosi.Cache.Op) :
    ((h.step (.ctx cid id)).run ops).ctxs[h.ctxs.length]? =
      some { cid := cid, id := id,
             cancelled := (match find h.resources id with
                 | none => true
                 | some r => r.phase == .tearingDown) || ops.any (kills cid id) } := by
  have hnew : (h.step (.ctx cid id)).ctxs[h.ctxs.length]? =
      some { cid := cid, id := id, cancelled := (match find h.resources id with
                 | none => true
                 | some r => r.phase == .tearingDown) } := by
    show ((h.ctxTeardown cid id).getD h).ctxs[h.ctxs.length]? = _
    unfold Handler.ctxTeardown Handler.enabled
    rw [gen_ctx_waits, hb, getRes_eq_find _ _ hs]
    simp only [Bool.not_true, Bool.or_true, if_true]
    cases hf : find h.resources id with
    | none => simp
    | some r =>
      by_cases htd : r.phase = .tearingDown
      · simp [htd]
      · simp only [htd, if_false, Option.getD_some, List.getElem?_append_right (Nat.le_refl _), Nat.sub_self,
          List.getElem?_cons_zero]
        simp [htd]
  have := ctx_fate ops (h.step (.ctx cid id)) (winv_step h hw _) h.ctxs.length _ hnew
  rw [this]

/-- **…cancelled when torn down, removed or absent**, as a state invariant: a context that is
    still open names a resource that is in the cache and running -/
def RInv (h : Handler) : Prop :=
  ∀ c ∈ h.ctxs, c.cancelled = false → ∃ r, find h.resources c.id = some r ∧ r.phase = .running

theorem phase_running_of_not_td {p : Phase} (h : ¬ p = .tearingDown) : p = .running := by
  cases p <;> simp_all

theorem closeWaiter_rinv_keep (h : Handler) (id : String) (c : TCtx) (hc : c ∈ (h.closeWaiter id).ctxs)
    (hcan : c.cancelled = false) : c ∈ h.ctxs ∧ (h.waiters.contains id = true → c.id ≠ id) := by
  unfold Handler.closeWaiter at hc
  by_cases hcon : h.waiters.contains id = true
  · rw [if_pos hcon] at hc
    simp only [List.mem_map] at hc
    obtain ⟨c0, hc0, rfl⟩ := hc
    by_cases he : c0.id = id
    · simp [he] at hcan
    · simp only [he, if_false] at hcan ⊢
      exact ⟨hc0, fun _ => he⟩
  · rw [if_neg hcon] at hc
    exact ⟨hc, fun h' => absurd h' hcon⟩

theorem rinv_step (h : Handler) (hs : Sorted h.resources) (hw : WInv h) (hr : RInv h)
    (op : Cosi.Cache.Op) (hok : stepOk h op = true) : RInv (h.step op) := by
  intro c hc hcan
  have hres := step_resources h hs op
  cases op with
  | append r =>
    obtain ⟨x, hx, hp⟩ := hr c hc hcan
    refine ⟨x, ?_, hp⟩
    rw [hres]
    unfold find at hx ⊢
    rw [List.find?_append, hx]; rfl
  | mark => exact hr c hc hcan
  | cancel cid =>
    have : c ∈ h.ctxs := by
      change c ∈ (h.cancelParent cid).ctxs at hc
      unfold Handler.cancelParent at hc
      simp only [List.mem_map] at hc
      obtain ⟨c0, hc0, rfl⟩ := hc
      by_cases he : c0.cid = cid
      · simp [he] at hcan
      · simpa [he] using hc0
    exact hr c this hcan
  | put r =>
    rw [hres]
    simp only
    rw [find_ins]
    have hcc : c ∈ h.ctxs ∧ (r.phase = .tearingDown → c.id ≠ r.id) := by
      change c ∈ (h.put r).ctxs at hc
      unfold Handler.put at hc
      rw [gen_put_closes] at hc
      simp only [if_true] at hc
      by_cases htd : r.phase = .tearingDown
      · rw [if_pos htd] at hc
        have k := closeWaiter_rinv_keep _ r.id c hc hcan
        refine ⟨k.1, fun _ he => ?_⟩
        have hwc := hw c k.1 hcan
        rw [he] at hwc
        exact k.2 hwc he
      · rw [if_neg htd] at hc
        exact ⟨hc, fun h' => absurd h' htd⟩
    by_cases he : r.id = c.id
    · rw [if_pos he]
      refine ⟨r, rfl, phase_running_of_not_td (fun htd => hcc.2 htd he.symm)⟩
    · rw [if_neg he]; exact hr c hcc.1 hcan
  | remove r =>
    rw [hres]
    simp only
    rw [find_del]
    have hcc : c ∈ h.ctxs ∧ c.id ≠ r.id := by
      change c ∈ (h.remove r).ctxs at hc
      unfold Handler.remove at hc
      rw [gen_remove_closes] at hc
      simp only [if_true] at hc
      have k := closeWaiter_rinv_keep _ r.id c hc hcan
      refine ⟨k.1, fun he => ?_⟩
      have hwc := hw c k.1 hcan
      rw [he] at hwc
      exact k.2 hwc he
    rw [if_neg (fun e => hcc.2 e.symm)]
    exact hr c hcc.1 hcan
  | ctx cid id =>
    rw [hres]
    simp only
    change c ∈ ((h.ctxTeardown cid id).getD h).ctxs at hc
    unfold Handler.ctxTeardown at hc
    split at hc
    · rw [getRes_eq_find _ _ hs] at hc
      split at hc
      · simp only [Option.getD_some, List.mem_append, List.mem_singleton] at hc
        rcases hc with hc | rfl
        · exact hr c hc hcan
        · cases hcan
      · rename_i x hx
        split at hc
        · simp only [Option.getD_some, List.mem_append, List.mem_singleton] at hc
          rcases hc with hc | rfl
          · exact hr c hc hcan
          · cases hcan
        · rename_i htd
          simp only [Option.getD_some, List.mem_append, List.mem_singleton] at hc
          rcases hc with hc | rfl
          · exact hr c hc hcan
          · exact ⟨x, hx, phase_running_of_not_td htd⟩
    · exact hr c hc hcan

/-- an open context always names a cached, running resource — over every operation sequence -/
theorem ctx_open_means_running (ops : List Cosi.Cache.Op) :
    ∀ (h : Handler), Sorted h.resources → WInv h → RInv h → runOk h ops = true → RInv (h.run ops) := by
  induction ops with
  | nil => intro h _ _ hr _; exact hr
  | cons op ops ih =>
    intro h hs hw hr hok
    simp only [runOk, Bool.and_eq_true] at hok
    exact ih (h.step op) (sorted_step h hs op hok.1) (winv_step h hw op) (rinv_step h hs hw hr op hok.1) hok.2

/-! ### the model of the code is the property's specification -/

/-- the correspondence between the handler and the specification's view -/
structure Rel (h : Handler) (v : Spec.Cache.View) : Prop where
  boot : h.bootstrapped = v.booted
  res : h.resources = v.contents
  ctxs : h.ctxs = v.ctxs

theorem cancelId_get (l : List TCtx) (id : String) (i : Nat) :
    (Spec.Cache.cancelId l id)[i]? = (l[i]?).map fun c => { c with cancelled := c.cancelled || (c.id == id) } := by
  unfold Spec.Cache.cancelId
  rw [List.getElem?_map]
  cases l[i]? with
  | none => rfl
  | some c =>
    simp only [Option.map_some]
    by_cases he : c.id = id
    · simp [he]
    · rw [if_neg he]
      have hb : (c.id == id) = false := by simp [he]
      exact congrArg some (tctx_eta c _ (by simp [hb])).symm

theorem closeWaiter_eq_cancelId (h : Handler) (hw : WInv h) (id : String) :
    (h.closeWaiter id).ctxs = Spec.Cache.cancelId h.ctxs id := by
  apply List.ext_getElem?
  intro i
  rw [cancelId_get]
  cases hc : h.ctxs[i]? with
  | some c => rw [closeWaiter_get h hw id i c hc]; rfl
  | none =>
    have hlen : (h.closeWaiter id).ctxs.length = h.ctxs.length := by
      unfold Handler.closeWaiter; split <;> simp
    have : h.ctxs.length ≤ i := by
      apply Decidable.byContradiction; intro hn
      rw [List.getElem?_eq_getElem (Nat.lt_of_not_le hn)] at hc; cases hc
    rw [List.getElem?_eq_none (hlen ▸ this)]; rfl

theorem rel_step (h : Handler) (v : Spec.Cache.View) (hs : Sorted h.resources) (hw : WInv h) (r : Rel h v)
    (op : Cosi.Cache.Op) (hok : stepOk h op = true) :
    Rel (h.step op) (v.step op) ∧ (v.step op).inDomain = v.inDomain := by
  have hres := step_resources h hs op
  cases op with
  | append x =>
    simp only [stepOk, Bool.and_eq_true, Bool.not_eq_true', List.all_eq_true, decide_eq_true_eq] at hok
    refine ⟨⟨r.boot, ?_, r.ctxs⟩, ?_⟩
    · rw [hres]
      show h.resources ++ [x] = ins v.contents x
      rw [← r.res, ins_snoc _ _ hok.2]
    · show (v.inDomain && !v.booted && v.contents.all _) = v.inDomain
      rw [← r.boot, ← r.res, hok.1]
      have : h.resources.all (fun y => decide (y.id < x.id)) = true := by
        simp only [List.all_eq_true, decide_eq_true_eq]; exact hok.2
      rw [this]; simp
  | mark =>
    simp only [stepOk, Bool.not_eq_true'] at hok
    refine ⟨⟨rfl, r.res, r.ctxs⟩, ?_⟩
    show (v.inDomain && !v.booted) = v.inDomain
    rw [← r.boot, hok]; simp
  | put x =>
    refine ⟨⟨?_, ?_, ?_⟩, rfl⟩
    · show (h.put x).bootstrapped = _; rw [put_boot]; exact r.boot
    · rw [hres]; show ins h.resources x = ins v.contents x; rw [r.res]
    · show (h.put x).ctxs = (if x.phase = .tearingDown then Spec.Cache.cancelId v.ctxs x.id else v.ctxs)
      unfold Handler.put
      rw [gen_put_closes]
      simp only [if_true]
      have hw' : WInv { h with resources := putRes h.resources x } := hw
      by_cases htd : x.phase = .tearingDown
      · rw [if_pos htd, if_pos htd, closeWaiter_eq_cancelId _ hw']; exact congrArg (Spec.Cache.cancelId · x.id) r.ctxs
      · rw [if_neg htd, if_neg htd]; exact r.ctxs
  | remove x =>
    refine ⟨⟨?_, ?_, ?_⟩, rfl⟩
    · show (h.remove x).bootstrapped = _; rw [remove_boot]; exact r.boot
    · rw [hres]; show del h.resources x.id = del v.contents x.id; rw [r.res]
    · show (h.remove x).ctxs = Spec.Cache.cancelId v.ctxs x.id
      unfold Handler.remove
      rw [gen_remove_closes]
      simp only [if_true]
      have hw' : WInv { h with resources := removeRes h.resources x.id } := hw
      rw [closeWaiter_eq_cancelId _ hw']; exact congrArg (Spec.Cache.cancelId · x.id) r.ctxs
  | cancel cid =>
    refine ⟨⟨r.boot, r.res, ?_⟩, rfl⟩
    show (h.cancelParent cid).ctxs = _
    unfold Handler.cancelParent
    show List.map _ h.ctxs = List.map _ v.ctxs
    rw [r.ctxs]
  | ctx cid id =>
    have hb := step_ctx_resources h cid id
    have hdom : (v.step (.ctx cid id)).inDomain = v.inDomain := by
      show (if v.booted = true then _ else v).inDomain = _
      split <;> rfl
    refine ⟨⟨?_, ?_, ?_⟩, hdom⟩
    · rw [hb.2, r.boot]
      show v.booted = (if v.booted = true then _ else v).booted
      split <;> rfl
    · rw [hb.1, r.res]
      show v.contents = (if v.booted = true then _ else v).contents
      split <;> rfl
    · show ((h.ctxTeardown cid id).getD h).ctxs = (if v.booted = true then _ else v).ctxs
      unfold Handler.ctxTeardown Handler.enabled
      rw [gen_ctx_waits, getRes_eq_find _ _ hs, r.boot, r.res, r.ctxs]
      cases v.booted
      · exact r.ctxs
      · simp only [Bool.not_true, Bool.or_true, if_true]
        cases find v.contents id with
        | none => rfl
        | some x =>
          by_cases htd : x.phase = .tearingDown
          · simp [htd]
          · simp [htd]

/-- **run_refines_spec.** For every operation sequence in the property's domain, the handler of
    the code (binary searches, waiter channels, regenerated wait/close facts) and the property's
    specification (`Cosi.Spec.Cache`: a map by ID, direct cancellation) stay in correspondence,
    so every read returns what the specification says. -/
theorem run_refines_spec (ops : List Cosi.Cache.Op) :
    ∀ (h : Handler) (v : Spec.Cache.View), Sorted h.resources → WInv h → Rel h v → runOk h ops = true →
      Rel (h.run ops) (v.run ops) ∧ (v.run ops).inDomain = v.inDomain := by
  induction ops with
  | nil => intro h v _ _ r _; exact ⟨r, rfl⟩
  | cons op ops ih =>
    intro h v hs hw r hok
    simp only [runOk, Bool.and_eq_true] at hok
    have st := rel_step h v hs hw r op hok.1
    have := ih (h.step op) (v.step op) (sorted_step h hs op hok.1) (winv_step h hw op) st.1 hok.2
    exact ⟨this.1, this.2.trans st.2⟩

/-- reads of the code = reads of the specification, after any operation sequence from the start -/
theorem reads_eq_spec (ops : List Cosi.Cache.Op) (hok : runOk {} ops = true) (id : String) (s : Selector.Sel) :
    (Handler.run {} ops).get id = (Spec.Cache.View.run {} ops).get id ∧
    (Handler.run {} ops).list s = (Spec.Cache.View.run {} ops).list s := by
  have hs0 : Sorted ({} : Handler).resources := List.Pairwise.nil
  have hw0 : WInv {} := fun c hc => by cases hc
  have r := (run_refines_spec ops {} {} hs0 hw0 ⟨rfl, rfl, rfl⟩ hok).1
  have hs := sorted_invariant ops {} hs0 hok
  constructor
  · rw [get_is_lookup _ hs, r.boot, r.res]; rfl
  · rw [list_is_filter, r.boot, r.res]; rfl


/-! ## C. watch events, the pipeline, the state behind the cache -/

/-- a change event of a kind's log: Created / Updated / Destroyed -/
def isChange (e : Event) : Bool := e.typ == .created || e.typ == .updated || e.typ == .destroyed

theorem gen_before_handoff : Gen.Cache.cacheBeforeHandoff = true := rfl

/-- the regenerated event tables never abort on, or fail to recognise, a non-Errored event -/
theorem act_ok (h : Handler) (e : Event) (he : e.typ ≠ .errored) :
    actOf h e ≠ .abort ∧ actOf h e ≠ .unknown := by
  unfold actOf
  cases h.bootstrapped <;> cases ht : e.typ <;> simp_all [evKind, Gen.Cache.actAfterBoot, Gen.Cache.actBeforeBoot]

theorem applyEv_created_preboot (h : Handler) (e : Event) (hb : h.bootstrapped = false) (he : e.typ = .created) :
    applyEv h e = h.append e.res := by
  unfold applyEv actOf
  rw [hb, he]
  rfl

theorem applyEv_bootstrapped (h : Handler) (e : Event) (he : e.typ = .bootstrapped) : applyEv h e = h.mark := by
  unfold applyEv actOf
  rw [he]
  cases h.bootstrapped <;> rfl

/-- before the mark, Created events are appended in arrival order -/
theorem applyAll_created (snap : List Res) : ∀ (h : Handler), h.bootstrapped = false →
    applyAll h (snap.map fun c => ({ typ := .created, res := c } : Event)) =
      { h with resources := h.resources ++ snap } := by
  induction snap with
  | nil => intro h _; simp [applyAll]
  | cons x xs ih =>
    intro h hb
    show applyAll (applyEv h _) _ = _
    rw [applyEv_created_preboot h _ hb rfl, ih (h.append x) hb]
    simp [Handler.append]

/-- **the bootstrap delivery, applied as a whole, is exactly the snapshot** (and nothing is
    enabled before its last event). `b` is the Bootstrapped event of the delivery. -/
theorem boot_exact_with (snap : List Res) (b : Event) (hb : b.typ = .bootstrapped) :
    applyAll {} (snap.map (fun c => ({ typ := .created, res := c } : Event)) ++ [b]) =
      { bootstrapped := true, resources := snap } := by
  unfold applyAll
  rw [List.foldl_append]
  have := applyAll_created snap {} rfl
  unfold applyAll at this
  rw [this]
  simp only [List.foldl_cons, List.foldl_nil]
  rw [applyEv_bootstrapped _ _ hb]
  simp [Handler.mark]

theorem boot_exact (ns typ : String) (snap : List Res) :
    applyAll {} (bootBatch ns typ snap) = { bootstrapped := true, resources := snap } :=
  boot_exact_with snap _ rfl

/-- the bootstrap delivery of the C02 watch model for an aggregated kind watch with
    BootstrapContents (what `setupWatches` asks for, runtime.go:241) is one batch of that shape -/
theorem boot_delivery_of_watch_model (snap : List Res) (ns typ : String) (pos : Nat) :
    ∃ b : Event, b.typ = .bootstrapped ∧
      kindInit snap ns typ true { bootstrap := true } pos =
        [snap.map (fun c => ({ typ := .created, res := c } : Event)) ++ [b]] :=
  ⟨_, rfl, rfl⟩

theorem applyEv_change (h : Handler) (hb : h.bootstrapped = true) (hs : Sorted h.resources) (e : Event)
    (he : isChange e = true) :
    (applyEv h e).resources = replayEv h.resources e ∧ (applyEv h e).bootstrapped = true := by
  unfold applyEv actOf replayEv
  rw [hb]
  unfold isChange at he
  cases ht : e.typ <;> simp [ht] at he
  · show (h.put e.res).resources = _ ∧ (h.put e.res).bootstrapped = true
    rw [put_resources, put_boot, putRes_eq_ins _ _ hs]; exact ⟨rfl, hb⟩
  · show (h.put e.res).resources = _ ∧ (h.put e.res).bootstrapped = true
    rw [put_resources, put_boot, putRes_eq_ins _ _ hs]; exact ⟨rfl, hb⟩
  · show (h.remove e.res).resources = _ ∧ (h.remove e.res).bootstrapped = true
    rw [remove_resources, remove_boot, removeRes_eq_del _ _ hs]; exact ⟨rfl, hb⟩

theorem sorted_replayEv {l : List Res} (hs : Sorted l) (e : Event) : Sorted (replayEv l e) := by
  unfold replayEv
  cases e.typ
  · exact sorted_ins hs _
  · exact sorted_ins hs _
  · exact sorted_del hs _
  · exact hs
  · exact hs
  · exact hs

/-- **the cache is the replay of the change log**: after the mark, applying any list of change
    events (through the binary-search put / remove) leaves exactly the replay of those events -/
theorem cache_eq_replay (log : List Event) : ∀ (h : Handler), h.bootstrapped = true → Sorted h.resources →
    (∀ e ∈ log, isChange e = true) →
    (applyAll h log).resources = replay h.resources log ∧ (applyAll h log).bootstrapped = true ∧
      Sorted (applyAll h log).resources := by
  induction log with
  | nil => intro h hb hs _; exact ⟨rfl, hb, hs⟩
  | cons e es ih =>
    intro h hb hs hch
    have st := applyEv_change h hb hs e (hch e (by simp))
    have hs' : Sorted (applyEv h e).resources := st.1 ▸ sorted_replayEv hs e
    have := ih (applyEv h e) st.2 hs' (fun x hx => hch x (List.mem_cons_of_mem _ hx))
    show (applyAll (applyEv h e) es).resources = replay (replayEv h.resources e) es ∧ _
    rw [← st.1]
    exact this

theorem applyAll_append (h : Handler) (a b : List Event) : applyAll h (a ++ b) = applyAll (applyAll h a) b := by
  unfold applyAll; rw [List.foldl_append]

theorem created_not_boot (snap : List Res) : ∀ (h : Handler), h.bootstrapped = false →
    (applyAll h (snap.map fun c => ({ typ := .created, res := c } : Event))).bootstrapped = false := by
  intro h hb
  rw [applyAll_created snap h hb]
  exact hb

/-- **never_partial.** Feed the bootstrap delivery followed by any change log, in ANY batching,
    and stop after any number `n` of events: reads are enabled iff the whole bootstrap delivery
    (every snapshot entry and the Bootstrapped event) has been applied, and then the contents are
    the complete snapshot with the first `n - |delivery|` changes replayed on it — never a subset
    of the snapshot. -/
theorem never_partial (ns typ : String) (snap : List Res) (hs : Sorted snap) (rest : List Event)
    (hrest : ∀ e ∈ rest, isChange e = true) (n : Nat) :
    ((applyAll {} ((bootBatch ns typ snap ++ rest).take n)).bootstrapped = true ↔ snap.length + 1 ≤ n) ∧
    ((applyAll {} ((bootBatch ns typ snap ++ rest).take n)).bootstrapped = true →
      (applyAll {} ((bootBatch ns typ snap ++ rest).take n)).resources =
        replay snap (rest.take (n - (snap.length + 1)))) := by
  have hlen : (bootBatch ns typ snap).length = snap.length + 1 := by simp [bootBatch]
  by_cases hn : snap.length + 1 ≤ n
  · have htake : (bootBatch ns typ snap ++ rest).take n = bootBatch ns typ snap ++ rest.take (n - (snap.length + 1)) := by
      rw [List.take_append, List.take_of_length_le (by omega), hlen]
    rw [htake, applyAll_append, boot_exact]
    have := cache_eq_replay (rest.take (n - (snap.length + 1))) { bootstrapped := true, resources := snap } rfl hs
      (fun e he => hrest e (List.mem_of_mem_take he))
    exact ⟨⟨fun _ => hn, fun _ => this.2.1⟩, fun _ => this.1⟩
  · have htake : (bootBatch ns typ snap ++ rest).take n =
        (snap.take n).map (fun c => ({ typ := .created, res := c } : Event)) := by
      unfold bootBatch
      rw [List.append_assoc, List.take_append_of_le_length (by simp; omega), List.map_take]
    rw [htake]
    have := created_not_boot (snap.take n) {} rfl
    rw [this]
    exact ⟨⟨fun h => Bool.noConfusion h, fun h => absurd h hn⟩, fun h => Bool.noConfusion h⟩

/-! ### the pipeline: cache first, hand-off second -/

theorem processEvents_eq (evs : List Event) : ∀ (h : Handler), (∀ e ∈ evs, e.typ ≠ .errored) →
    (processEvents h evs).1 = applyAll h evs ∧ (processEvents h evs).2.2 = true := by
  induction evs with
  | nil => intro h _; exact ⟨rfl, rfl⟩
  | cons e es ih =>
    intro h hne
    have ok := act_ok h e (hne e (by simp))
    have := ih (applyEv h e) (fun x hx => hne x (List.mem_cons_of_mem _ hx))
    unfold processEvents
    split
    · rename_i ha; exact absurd ha ok.1
    · rename_i ha; exact absurd ha ok.2
    · exact this

/-- the pipeline invariant: the cache is the stream applied so far, and every hand-off made so
    far showed the delivery stage a cache that had applied everything up to that hand-off -/
structure PInv (h0 : Handler) (consumed : List Event) (p : Pipe) : Prop where
  cache : p.h = applyAll h0 consumed
  count : p.applied = consumed.length
  alive : p.aborted = false
  fresh : ∀ ho ∈ p.handoffs, ho.upTo ≤ consumed.length ∧ ho.view = applyAll h0 (consumed.take ho.upTo)

theorem pinv_group (h0 : Handler) (consumed : List Event) (p : Pipe) (inv : PInv h0 consumed p)
    (g : List Event) (hne : ∀ e ∈ g, e.typ ≠ .errored) : PInv h0 (consumed ++ g) (p.group g) := by
  have pe := processEvents_eq g p.h hne
  unfold Pipe.group
  rw [inv.alive]
  simp only [Bool.false_eq_true, if_false]
  rcases hpe : processEvents p.h g with ⟨h', keys, ok⟩
  rw [hpe] at pe
  simp only at pe
  obtain ⟨rfl, rfl⟩ := pe
  simp only [Bool.not_true, Bool.false_eq_true, if_false]
  rw [gen_before_handoff]
  simp only [if_true]
  have hcache : applyAll p.h g = applyAll h0 (consumed ++ g) := by rw [applyAll_append, inv.cache]
  have hold : ∀ ho ∈ p.handoffs, ho.upTo ≤ (consumed ++ g).length ∧
      ho.view = applyAll h0 ((consumed ++ g).take ho.upTo) := by
    intro ho hho
    have := inv.fresh ho hho
    refine ⟨by rw [List.length_append]; omega, ?_⟩
    rw [List.take_append_of_le_length this.1]; exact this.2
  refine ⟨hcache, by simp [inv.count], rfl, ?_⟩
  by_cases hk : keys.isEmpty = true
  · simp only [hk, if_true]; exact hold
  · simp only [hk]
    intro ho hho
    rcases List.mem_append.1 hho with hho | hho
    · exact hold ho hho
    · rcases List.mem_singleton.1 hho with rfl
      simp only
      rw [inv.count, ← List.length_append]
      exact ⟨Nat.le_refl _, by rw [List.take_of_length_le (Nat.le_refl _)]; exact hcache⟩

theorem pinv_run (h0 : Handler) (groups : List (List Event)) :
    ∀ (consumed : List Event) (p : Pipe), PInv h0 consumed p →
      (∀ g ∈ groups, ∀ e ∈ g, e.typ ≠ .errored) → PInv h0 (consumed ++ groups.flatten) (p.run groups) := by
  induction groups with
  | nil => intro consumed p inv _; simpa [Pipe.run] using inv
  | cons g gs ih =>
    intro consumed p inv hne
    have := ih (consumed ++ g) (p.group g) (pinv_group h0 consumed p inv g (hne g (by simp)))
      (fun g' hg' => hne g' (List.mem_cons_of_mem _ hg'))
    rw [List.flatten_cons, ← List.append_assoc]
    exact this

/-- the cache after ANY batching of a stream is the stream applied event by event -/
theorem pipe_eq_applyAll (h0 : Handler) (groups : List (List Event))
    (hne : ∀ g ∈ groups, ∀ e ∈ g, e.typ ≠ .errored) :
    (Pipe.run { h := h0 } groups).h = applyAll h0 groups.flatten := by
  have := pinv_run h0 groups [] { h := h0 } ⟨rfl, rfl, rfl, fun _ h => by cases h⟩ hne
  simpa using this.cache

/-- **fresh_as_notification.** For every stream and every batching/draining of it: whenever the
    dedup map is handed to the delivery stage — the only way a controller is ever woken — the
    cache already contains every event consumed so far, in particular every event of the group
    that caused the hand-off (`upTo` counts them). So a reader woken by a notification reads a
    cache at least as new as that notification. Stands on the regenerated `cacheBeforeHandoff`. -/
theorem fresh_as_notification (h0 : Handler) (groups : List (List Event))
    (hne : ∀ g ∈ groups, ∀ e ∈ g, e.typ ≠ .errored) :
    ∀ ho ∈ (Pipe.run { h := h0 } groups).handoffs,
      ho.upTo ≤ groups.flatten.length ∧ ho.view = applyAll h0 (groups.flatten.take ho.upTo) := by
  have := pinv_run h0 groups [] { h := h0 } ⟨rfl, rfl, rfl, fun _ h => by cases h⟩ hne
  simpa using this.fresh

/-! ### never backwards -/

/-- the newest event of a segment that concerns `id` -/
def lastTouching (id : String) : List Event → Option Event
  | [] => none
  | e :: es =>
    match lastTouching id es with
    | some x => some x
    | none => if e.res.id = id then some e else none

theorem lastTouching_cons (id : String) (e : Event) (es : List Event) :
    lastTouching id (e :: es) = (match lastTouching id es with
      | some x => some x
      | none => if e.res.id = id then some e else none) := rfl

/-- what an event says about its resource -/
def verdict (e : Event) : Option Res := if e.typ = .destroyed then none else some e.res

theorem find_replayEv (v : List Res) (e : Event) (he : isChange e = true) (id : String) :
    find (replayEv v e) id = if e.res.id = id then verdict e else find v id := by
  unfold replayEv verdict
  unfold isChange at he
  cases ht : e.typ <;> simp [ht] at he
  · simp only [find_ins]; simp
  · simp only [find_ins]; simp
  · simp only [find_del]; simp

theorem find_replay (evs : List Event) : ∀ (v : List Res), (∀ e ∈ evs, isChange e = true) → ∀ (id : String),
    find (replay v evs) id = (match lastTouching id evs with
      | none => find v id
      | some e => verdict e) := by
  induction evs with
  | nil => intro v _ id; rfl
  | cons e es ih =>
    intro v hch id
    show find (replay (replayEv v e) es) id = _
    rw [ih (replayEv v e) (fun x hx => hch x (List.mem_cons_of_mem _ hx)) id, lastTouching_cons]
    cases lastTouching id es with
    | some x => rfl
    | none =>
      simp only
      rw [find_replayEv v e (hch e (by simp)) id]
      by_cases h : e.res.id = id <;> simp [h]

/-- **monotone_per_resource.** Feed the log in commit order; compare a cached read of `id` after
    the events `a` with a later one after `a ++ b`. Either no event of `b` concerns `id` and the
    two reads agree, or the later read is exactly what the NEWEST event of `b` about `id` says —
    an event that comes after everything the earlier read could have seen. A later read never
    returns an older version than an earlier one. -/
theorem monotone_per_resource (h : Handler) (hb : h.bootstrapped = true) (hs : Sorted h.resources)
    (a b : List Event) (ha : ∀ e ∈ a, isChange e = true) (hb' : ∀ e ∈ b, isChange e = true) (id : String) :
    (applyAll h (a ++ b)).get id = (match lastTouching id b with
      | none => (applyAll h a).get id
      | some e => some (verdict e)) := by
  have ca := cache_eq_replay a h hb hs ha
  have cb := cache_eq_replay b (applyAll h a) ca.2.1 ca.2.2 hb'
  rw [applyAll_append, get_is_lookup _ cb.2.2, cb.2.1, cb.1, get_is_lookup _ ca.2.2, ca.2.1]
  simp only [if_true]
  rw [find_replay b _ hb' id]
  cases lastTouching id b <;> rfl

/-! ### quiescence: the cache equals the state -/

theorem applyWrite_spec (ns typ : String) (stg : List Res) (w : Write) :
    ((applyWrite ns typ stg w).2 = none ∧ (applyWrite ns typ stg w).1 = stg) ∨
    (∃ e, (applyWrite ns typ stg w).2 = some e ∧ isChange e = true ∧ replayEv stg e = (applyWrite ns typ stg w).1) := by
  cases w with
  | create id labels spec =>
    simp only [applyWrite]
    cases find stg id with
    | some _ => exact Or.inl ⟨rfl, rfl⟩
    | none => exact Or.inr ⟨_, rfl, rfl, rfl⟩
  | update id labels spec =>
    simp only [applyWrite]
    cases find stg id with
    | none => exact Or.inl ⟨rfl, rfl⟩
    | some _ => exact Or.inr ⟨_, rfl, rfl, rfl⟩
  | teardown id spec =>
    simp only [applyWrite]
    cases find stg id with
    | none => exact Or.inl ⟨rfl, rfl⟩
    | some _ => exact Or.inr ⟨_, rfl, rfl, rfl⟩
  | destroy id =>
    simp only [applyWrite]
    cases hf : find stg id with
    | none => exact Or.inl ⟨rfl, rfl⟩
    | some old =>
      have : old.id = id := by
        unfold find at hf
        simpa using List.find?_some hf
      refine Or.inr ⟨_, rfl, rfl, ?_⟩
      show del stg old.id = del stg id
      rw [this]

/-- the state is the replay of its own change log (cf. C02: the watch stream IS that log) -/
theorem replay_log_eq_run (ns typ : String) (ws : List Write) : ∀ (stg : List Res),
    replay stg (logWrites ns typ stg ws) = runWrites ns typ stg ws ∧
    (∀ e ∈ logWrites ns typ stg ws, isChange e = true) := by
  induction ws with
  | nil => intro stg; exact ⟨rfl, fun _ h => by cases h⟩
  | cons w ws ih =>
    intro stg
    have := ih (applyWrite ns typ stg w).1
    rcases applyWrite_spec ns typ stg w with ⟨h2, h1⟩ | ⟨e, h2, hc, hr⟩
    · simp only [logWrites, runWrites, h2]
      rw [h1] at this ⊢
      exact this
    · simp only [logWrites, runWrites, h2]
      refine ⟨?_, ?_⟩
      · show replay (replayEv stg e) _ = _
        rw [hr]; exact this.1
      · intro x hx
        rcases List.mem_cons.1 hx with rfl | hx
        · exact hc
        · exact this.2 x hx

theorem sorted_runWrites (ns typ : String) (ws : List Write) : ∀ (stg : List Res), Sorted stg →
    Sorted (runWrites ns typ stg ws) := by
  induction ws with
  | nil => intro stg hs; exact hs
  | cons w ws ih =>
    intro stg hs
    apply ih
    rcases applyWrite_spec ns typ stg w with ⟨_, h1⟩ | ⟨e, _, _, hr⟩
    · rw [h1]; exact hs
    · rw [← hr]; exact sorted_replayEv hs e

theorem runWrites_append (ns typ : String) (a b : List Write) : ∀ (stg : List Res),
    runWrites ns typ stg (a ++ b) = runWrites ns typ (runWrites ns typ stg a) b := by
  induction a with
  | nil => intro stg; rfl
  | cons w ws ih => intro stg; exact ih _

theorem change_not_errored {e : Event} (h : isChange e = true) : e.typ ≠ .errored := by
  intro he
  simp [isChange, he] at h

/-- **quiescent_cache_eq_state.** Any write history before runtime start (`pre`), any write
    history after it (`post`), any batching/draining of the resulting watch stream (`groups`:
    the bootstrap delivery of the state at start, then the change log of `post`): once the
    stream is consumed the cache is bootstrapped and its contents ARE the state, so cached
    Get / List (with any selector) answer exactly like uncached ones. -/
theorem quiescent_cache_eq_state (ns typ : String) (pre post : List Write) (groups : List (List Event))
    (hg : groups.flatten = bootBatch ns typ (runWrites ns typ [] pre) ++
            logWrites ns typ (runWrites ns typ [] pre) post) :
    (Pipe.run {} groups).h.bootstrapped = true ∧
    (Pipe.run {} groups).h.resources = runWrites ns typ [] (pre ++ post) ∧
    (∀ id, (Pipe.run {} groups).h.get id = some (find (runWrites ns typ [] (pre ++ post)) id)) ∧
    (∀ s, (Pipe.run {} groups).h.list s =
        some ((runWrites ns typ [] (pre ++ post)).filter fun r => s.matches (toItem r))) := by
  have hs0 := sorted_runWrites ns typ pre [] List.Pairwise.nil
  have lg := replay_log_eq_run ns typ post (runWrites ns typ [] pre)
  have hne : ∀ g ∈ groups, ∀ e ∈ g, e.typ ≠ .errored := by
    intro g hgm e he
    have : e ∈ groups.flatten := List.mem_flatten.2 ⟨g, hgm, he⟩
    rw [hg] at this
    rcases List.mem_append.1 this with hm | hm
    · unfold bootBatch at hm
      rcases List.mem_append.1 hm with hm | hm
      · obtain ⟨c, _, rfl⟩ := List.mem_map.1 hm
        intro h; cases h
      · rcases List.mem_singleton.1 hm with rfl
        intro h; cases h
    · exact change_not_errored (lg.2 e hm)
  have hp : (Pipe.run {} groups).h = applyAll {} groups.flatten := pipe_eq_applyAll {} groups hne
  rw [hp, hg, applyAll_append, boot_exact]
  have c := cache_eq_replay (logWrites ns typ (runWrites ns typ [] pre) post)
    { bootstrapped := true, resources := runWrites ns typ [] pre } rfl hs0 lg.2
  have hres : (applyAll { bootstrapped := true, resources := runWrites ns typ [] pre }
      (logWrites ns typ (runWrites ns typ [] pre) post)).resources = runWrites ns typ [] (pre ++ post) := by
    rw [c.1, runWrites_append]; exact lg.1
  refine ⟨c.2.1, hres, ?_, ?_⟩
  · intro id
    rw [get_is_lookup _ c.2.2, c.2.1, hres]; rfl
  · intro s
    rw [list_is_filter, c.2.1, hres]; rfl


/-- what a reader woken by a hand-off reads: for every stream (bootstrap delivery of a sorted
    snapshot, then a change log) and every batching, a `get` on the cache as it is at a hand-off
    answers with the newest event about `id` among ALL events consumed up to that hand-off
    (the snapshot's entry when there is none) — at least as new as the notification. -/
theorem woken_reader_sees_notification (ns typ : String) (snap : List Res) (hs : Sorted snap)
    (log : List Event) (hlog : ∀ e ∈ log, isChange e = true) (groups : List (List Event))
    (hg : groups.flatten = bootBatch ns typ snap ++ log) (id : String) :
    ∀ ho ∈ (Pipe.run {} groups).handoffs, ho.view.bootstrapped = true →
      ho.view.get id = some (match lastTouching id (log.take (ho.upTo - (snap.length + 1))) with
        | none => find snap id
        | some e => verdict e) := by
  have hne : ∀ g ∈ groups, ∀ e ∈ g, e.typ ≠ .errored := by
    intro g hgm e he
    have : e ∈ groups.flatten := List.mem_flatten.2 ⟨g, hgm, he⟩
    rw [hg] at this
    rcases List.mem_append.1 this with hm | hm
    · unfold bootBatch at hm
      rcases List.mem_append.1 hm with hm | hm
      · obtain ⟨c, _, rfl⟩ := List.mem_map.1 hm
        intro h; cases h
      · rcases List.mem_singleton.1 hm with rfl
        intro h; cases h
    · exact change_not_errored (hlog e hm)
  intro ho hho hboot
  have fr := fresh_as_notification {} groups hne ho hho
  rw [hg] at fr
  rw [fr.2] at hboot ⊢
  have np := never_partial ns typ snap hs log hlog ho.upTo
  have hn := np.1.1 hboot
  have htake : (bootBatch ns typ snap ++ log).take ho.upTo =
      bootBatch ns typ snap ++ log.take (ho.upTo - (snap.length + 1)) := by
    have hlen : (bootBatch ns typ snap).length = snap.length + 1 := by simp [bootBatch]
    rw [List.take_append, List.take_of_length_le (by omega), hlen]
  have hch : ∀ e ∈ log.take (ho.upTo - (snap.length + 1)), isChange e = true :=
    fun e he => hlog e (List.mem_of_mem_take he)
  have c := cache_eq_replay (log.take (ho.upTo - (snap.length + 1)))
    { bootstrapped := true, resources := snap } rfl hs hch
  rw [htake, applyAll_append, boot_exact, get_is_lookup _ c.2.2, c.2.1, c.1]
  simp only [if_true]
  rw [find_replay _ _ hch id]

/-! ### never backwards, in versions -/

/-- the version a read shows (0 = not found) -/
def verOf : Option Res → Nat
  | none => 0
  | some r => r.ver.getD 0

/-- the history never destroys `id` -/
def noDestroy (id : String) (ws : List Write) : Bool :=
  ws.all fun w => match w with
    | .destroy i => i != id
    | _ => true

theorem find_some_id {l : List Res} {id : String} {r : Res} (h : find l id = some r) : r.id = id := by
  unfold find at h
  simpa using List.find?_some h

theorem write_version_mono (ns typ : String) (stg : List Res) (w : Write) (id : String)
    (hw : (match w with
      | .destroy i => i != id
      | _ => true) = true) :
    verOf (find stg id) ≤ verOf (find (applyWrite ns typ stg w).1 id) ∧
    ((find stg id).isSome → (find (applyWrite ns typ stg w).1 id).isSome) := by
  cases w with
  | create i labels spec =>
    simp only [applyWrite]
    cases hf : find stg i with
    | some _ => exact ⟨Nat.le_refl _, fun h => h⟩
    | none =>
      simp only
      rw [find_ins]
      by_cases he : i = id
      · subst he
        simp [mkRes, hf, verOf]
      · simp [mkRes, he]
  | update i labels spec =>
    simp only [applyWrite]
    cases hf : find stg i with
    | none => exact ⟨Nat.le_refl _, fun h => h⟩
    | some old =>
      simp only
      rw [find_ins]
      by_cases he : i = id
      · subst he
        simp [mkRes, hf, verOf]
      · simp [mkRes, he]
  | teardown i spec =>
    simp only [applyWrite]
    cases hf : find stg i with
    | none => exact ⟨Nat.le_refl _, fun h => h⟩
    | some old =>
      simp only
      rw [find_ins]
      by_cases he : i = id
      · subst he
        simp [mkRes, hf, verOf]
      · simp [mkRes, he]
  | destroy i =>
    simp only [applyWrite]
    have hne : ¬ i = id := by simpa using hw
    cases hf : find stg i with
    | none => exact ⟨Nat.le_refl _, fun h => h⟩
    | some old =>
      simp only
      rw [find_del, if_neg hne]
      exact ⟨Nat.le_refl _, fun h => h⟩

theorem store_version_mono (ns typ : String) (id : String) (ws : List Write) : ∀ (stg : List Res),
    noDestroy id ws = true →
    verOf (find stg id) ≤ verOf (find (runWrites ns typ stg ws) id) ∧
    ((find stg id).isSome → (find (runWrites ns typ stg ws) id).isSome) := by
  induction ws with
  | nil => intro stg _; exact ⟨Nat.le_refl _, fun h => h⟩
  | cons w ws ih =>
    intro stg hnd
    simp only [noDestroy, List.all_cons, Bool.and_eq_true] at hnd
    have s1 := write_version_mono ns typ stg w id hnd.1
    have s2 := ih (applyWrite ns typ stg w).1 (by simpa [noDestroy] using hnd.2)
    exact ⟨Nat.le_trans s1.1 s2.1, fun h => s2.2 (s1.2 h)⟩

/-- **monotone_per_resource, in versions.** Two quiescence points of one run — after the write
    history `w1` and after `w1 ++ w2` (any batching of either stream): unless `w2` destroys `id`
    (a re-created resource starts again at version 1), the cached read of `id` at the later point
    shows a version that is not lower, and a resource that was found is still found. -/
theorem monotone_versions (ns typ : String) (pre w1 w2 : List Write) (g1 g2 : List (List Event))
    (h1 : g1.flatten = bootBatch ns typ (runWrites ns typ [] pre) ++ logWrites ns typ (runWrites ns typ [] pre) w1)
    (h2 : g2.flatten = bootBatch ns typ (runWrites ns typ [] pre) ++
            logWrites ns typ (runWrites ns typ [] pre) (w1 ++ w2))
    (id : String) (hnd : noDestroy id w2 = true) :
    ∃ r1 r2, (Pipe.run {} g1).h.get id = some r1 ∧ (Pipe.run {} g2).h.get id = some r2 ∧
      verOf r1 ≤ verOf r2 ∧ (r1.isSome → r2.isSome) := by
  have q1 := (quiescent_cache_eq_state ns typ pre w1 g1 h1).2.2.1 id
  have q2 := (quiescent_cache_eq_state ns typ pre (w1 ++ w2) g2 h2).2.2.1 id
  refine ⟨_, _, q1, q2, ?_⟩
  have e1 : runWrites ns typ [] (pre ++ (w1 ++ w2)) = runWrites ns typ (runWrites ns typ [] (pre ++ w1)) w2 := by
    rw [← List.append_assoc, runWrites_append]
  rw [e1]
  exact store_version_mono ns typ id w2 _ hnd

example : noDestroy "a" [.update "a" [] "s5", .destroy "b", .teardown "a" "s6"] = true ∧
    noDestroy "a" [.destroy "a", .create "a" [] "s7"] = false := by decide
-- the hypothesis is needed: destroy + create restarts the version
example : verOf (find (runWrites "n1" "T1" [] [.create "a" [] "s1", .update "a" [] "s2"]) "a") = 2 ∧
    verOf (find (runWrites "n1" "T1" [] [.create "a" [] "s1", .update "a" [] "s2", .destroy "a", .create "a" [] "s3"]) "a") = 1 := by
  decide


/-! ## non-vacuity: concrete states satisfying the hypotheses, and what happens outside them -/

def exA : Res := mkRes "n1" "T1" "a" 1 .running [] "s1"
def exB : Res := mkRes "n1" "T1" "b" 1 .running [("env", "prod")] "s2"
def exC : Res := mkRes "n1" "T1" "c" 1 .running [("env", "dev")] "s3"
def exCt : Res := mkRes "n1" "T1" "c" 2 .tearingDown [("env", "dev")] "s4"
def exOps : List Cosi.Cache.Op := [.append exA, .append exC, .mark, .put exB, .remove exA]
def exSel : Selector.Sel := { idQ := some (fun id => id != "a"), queries := [[⟨"env", ["prod"], .opEqual, false⟩]] }

-- binary search: hit, miss with the insertion index, and the loop on an UNSORTED slice (outside
-- the domain: `a` is there and is not found — why `Sorted` is a hypothesis, not a decoration)
example : bsearch [exA, exB, exC] "c" = (2, true) := by decide
example : bsearch [exA, exC] "b" = (1, false) := by decide
example : getRes [exC, exA] "a" = none ∧ find [exC, exA] "a" = some exA := by decide
example : putRes [exA, exC] exB = [exA, exB, exC] ∧ putRes [exA, exC] exCt = [exA, exCt] := by decide
-- sorted_invariant / run_refines_spec: an in-domain sequence, and its result
example : runOk {} exOps = true := by decide
example : (Handler.run {} exOps).resources = [exB, exC] := by decide
example : runOk {} [.append exC, .append exA] = false := by decide
-- blocks_until_bootstrapped / get_is_lookup / list_is_filter
example : (Handler.run {} [.append exA]).get "a" = none := by decide
example : (Handler.run {} exOps).get "c" = some (some exC) ∧ (Handler.run {} exOps).get "a" = some none := by decide
example : (Handler.run {} exOps).list exSel = some [exB] := by decide
-- never_partial: two of the three bootstrap events applied: nothing is readable yet
example : (applyAll {} ((bootBatch "n1" "T1" [exA, exC]).take 2)).bootstrapped = false ∧
    (applyAll {} ((bootBatch "n1" "T1" [exA, exC]).take 2)).get "a" = none := by decide
example : (applyAll {} (bootBatch "n1" "T1" [exA, exC])).get "c" = some (some exC) := by decide
-- cached_ctx_teardown_iff: tearing down / absent at call time, open, then closed by a put
example : ((Handler.run {} [.append exA, .append exCt, .mark, .ctx 1 "c", .ctx 2 "b", .ctx 3 "a"]).ctxs.map (·.cancelled))
    = [true, true, false] := by decide
example : ((Handler.run {} [.append exA, .append exC, .mark, .ctx 1 "c", .ctx 2 "a", .put exCt, .remove exA, .ctx 3 "c"]).ctxs.map
    (·.cancelled)) = [true, true, true] := by decide
example : ((Handler.run {} [.append exA, .append exC, .mark, .ctx 1 "c", .put exB]).ctxs.map (·.cancelled)) = [false] := by decide
-- fresh_as_notification: three groups, two hand-offs (the bootstrap delivery notifies nobody)
example : ((Pipe.run {} [bootBatch "n1" "T1" [exA], [{ typ := .created, res := exB }],
    [{ typ := .updated, res := exCt }, { typ := .destroyed, res := exA }]]).handoffs.map fun ho => (ho.upTo, ho.keys, ho.view.resources))
    = [(3, ["b"], [exA, exB]), (5, ["c", "a"], [exB, exCt])] := by decide
-- monotone_per_resource: the later segment decides, or nothing changes
example : lastTouching "c" [{ typ := .updated, res := exCt }, { typ := .destroyed, res := exA }] = some { typ := .updated, res := exCt } ∧
    lastTouching "b" [{ typ := .updated, res := exCt }, { typ := .destroyed, res := exA }] = none := by decide
-- quiescent_cache_eq_state: history before start, history after, a batching that splits the bootstrap delivery
example : runWrites "n1" "T1" [] [.create "c" [] "s1", .create "a" [] "s2"] = [mkRes "n1" "T1" "a" 1 .running [] "s2", mkRes "n1" "T1" "c" 1 .running [] "s1"] := by
  decide
example : logWrites "n1" "T1" [exA, exC] [.teardown "c" "s4", .destroy "a", .destroy "zz", .create "b" [("env", "prod")] "s2"] =
    [{ typ := .updated, res := mkRes "n1" "T1" "c" 2 .tearingDown [("env", "dev")] "s4", old := some exC },
     { typ := .destroyed, res := exA }, { typ := .created, res := exB }] := by decide

end Cosi.C15
