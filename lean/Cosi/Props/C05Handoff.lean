/-
  Property C05, fine model — no lost wake-ups across the hand-off of the dedup map between the
  two goroutines of `processWatched`, across a delivery that is parked between its lookup of the
  dependents and its triggers, and across registration / UpdateInputs in that window.

  Model: Cosi.Model.Handoff (`stepWith rules`; `step = stepWith genRules`, the rules being
  regenerated from the current source text).

    Sound r                          what the invariant needs of the three rules
    genRules_sound                   the CURRENT source implements sound rules (rests on Gen.Pipeline:
                                     dedupRoute, deliverRoute, dedupAcquire, deliverAcquiresCh, lookupThenTrigger,
                                     channel capacities, single initial map, dependentsFresh, triggerOnRegister)
    stepWith_inv / runWith_inv       `HInv` is preserved by every step of every sound rule set
    step_inv / run_inv               … hence by the model of the current source, for every schedule
    init_inv                         a freshly started runtime satisfies it
    quiescent_means_current          the property: quiet ⇒ every controller observed the current state
    pending_or_observed              the invariant itself: observed, or a wake-up pending, or in flight, or a
                                     delivery of the key with this controller in its lookup list is in progress
    parked_map_is_empty              map in `empty` ⇒ no pending key (and `ch_map_is_nonempty`: takeOne never panics)
    nonempty_map_not_stranded        a non-empty map can be taken by the delivery goroutine, or a delivery is in
                                     progress (which `trigger_completes` finishes): the hand-off never deadlocks
    pipeline_drains                  from every reachable state some schedule empties the whole pipeline
    register_starts_triggered        dynamic registration: the newcomer starts triggered, nothing else changes
    takeKey_trigger_is_deliver       an undisturbed delivery is the coarse model's atomic `deliver`
    parked_nonempty_is_stuck         (any rules) a non-empty map parked in `empty` with nothing else in flight is
                                     never delivered unless another change arrives
    lost_wakeup_when_parking_unchanged_map / lost_wakeup_when_lookup_aliased
                                     kernel-checked: with the rule "park when the batch added no new key", resp.
                                     with a lookup list that aliases the dependency tables, the SAME model loses a wake-up
-/
import Cosi.Model.Handoff
import Cosi.Props.C05
open Cosi Cosi.Pipeline Cosi.Handoff Cosi.C05
namespace Cosi.C05H

/-! ### what the invariant needs of the rules -/

structure Sound (r : Rules) : Prop where
  park_iff : ∀ a b, r.parkAfterBatch a b = true ↔ b = 0
  back_iff : ∀ n, r.backToCh n = true ↔ 0 < n
  lookup_id : ∀ l n, r.lookupAfterRegister l n = l
  trig : r.triggerOnRegister = true

theorem goodRules_sound : Sound goodRules :=
  ⟨fun _ b => by simp [goodRules], fun n => by simp [goodRules], fun _ _ => rfl, rfl⟩

/-- **the current source text implements sound rules** — every conjunct is a regenerated fact -/
theorem genRules_sound : Sound genRules := by
  have hf : frameOk = true := by decide
  have hd : Gen.Pipeline.dedupRoute = .emptyIffEmpty := by decide
  have hv : Gen.Pipeline.deliverRoute = .chIffNonEmpty := by decide
  have hl : Gen.Pipeline.dependentsFresh = true := by decide
  have ht : Gen.Pipeline.triggerOnRegister = true := by decide
  refine ⟨?_, ?_, ?_, ?_⟩
  · intro a b; simp only [genRules, hf, hd]; exact goodRules_sound.park_iff a b
  · intro n; simp only [genRules, hf, hv]; exact goodRules_sound.back_iff n
  · intro l n; simp [genRules, hl]
  · exact ht

/-- the structural frame by itself (readable list of what `frameOk` contains) -/
theorem handoff_facts :
    Gen.Pipeline.handoffChCap = 1 ∧ Gen.Pipeline.handoffEmptyCap = 1 ∧ Gen.Pipeline.handoffInitialMaps = 1 ∧
    Gen.Pipeline.dedupAcquire = .emptyOrCh ∧ Gen.Pipeline.dedupRoute = .emptyIffEmpty ∧
    Gen.Pipeline.deliverAcquiresCh = true ∧ Gen.Pipeline.deliverRoute = .chIffNonEmpty ∧
    Gen.Pipeline.lookupThenTrigger = true ∧ Gen.Pipeline.dependentsFresh = true := by decide

/-! ### the invariant -/

/-- a delivery of `k` with controller `i` in its lookup list is in progress -/
def Covered (s : HSys) (i : Nat) (k : Key) : Prop := ∃ v l, s.inflight = some (k, v, l) ∧ i ∈ l

def GoodH (s : HSys) (i : Nat) (c : Ctl) (k : Key) : Prop := Good s.p c k ∨ Covered s i k

def DemandH (s : HSys) (i : Nat) (c : Ctl) (k : Key) : Prop :=
  match c.needs k with
  | .none => True
  | .always => GoodH s i c k
  | .whenDR => (s.p.cur k).dr = true → GoodH s i c k

structure HInv (s : HSys) : Prop where
  newest : ∀ k v, lastOf k (flightH s) = some v → v = s.p.cur k
  uniq : Uniq s.p.dedup
  ok : ∀ c ∈ s.p.ctls, CtlOk c
  parked : s.loc = .empty ↔ s.p.dedup = []
  demand : ∀ i c, s.p.ctls[i]? = some c → ∀ k, DemandH s i c k

theorem demandH_of_good (s : HSys) (i : Nat) (c : Ctl) (k : Key) (h : GoodH s i c k) : DemandH s i c k := by
  unfold DemandH; cases c.needs k <;> simp [h]

theorem demandH_congr (s s' : HSys) (i : Nat) (c c' : Ctl) (k : Key)
    (hcur : s'.p.cur k = s.p.cur k) (hneeds : c'.needs k = c.needs k)
    (hgood : GoodH s i c k → GoodH s' i c' k) (h : DemandH s i c k) : DemandH s' i c' k := by
  unfold DemandH at *
  rw [hneeds, hcur]
  cases hn : c.needs k with
  | none => trivial
  | always => rw [hn] at h; exact hgood h
  | whenDR => rw [hn] at h; exact fun hd => hgood (h hd)

/-- Good only looks at cur k, lastOf k (flight) and the controller -/
theorem good_of_same (p p' : PSys) (c : Ctl) (k : Key) (hcur : p'.cur k = p.cur k)
    (hfl : lastOf k (flight p') = lastOf k (flight p)) : Good p c k → Good p' c k :=
  good_transfer p p' c c k hcur hfl rfl rfl id

theorem getElem_setCtl (l : List Ctl) (i j : Nat) (f : Ctl → Ctl) :
    (setCtl l i f)[j]? = if j = i then (l[j]?).map f else l[j]? := by
  unfold setCtl
  cases hl : l[i]? with
  | none =>
    by_cases hji : j = i
    · subst hji; simp [hl]
    · simp [hji]
  | some c0 =>
    simp only
    rw [List.getElem?_set]
    by_cases hji : j = i
    · subst hji
      rcases List.getElem?_eq_some_iff.1 hl with ⟨hlt, heq⟩
      simp [hlt, heq]
    · have : ¬ i = j := fun e => hji e.symm
      simp [hji, this]

theorem mem_dependents (cs : List Ctl) (k : Key) (i : Nat) (c : Ctl) (hc : cs[i]? = some c) (hn : c.needs k ≠ .none) :
    i ∈ dependents cs k := by
  unfold dependents
  rw [List.mem_filter, List.mem_range]
  refine ⟨?_, ?_⟩
  · rcases List.getElem?_eq_some_iff.1 hc with ⟨h, _⟩; exact h
  · simp [hc, hn]

theorem lastOf_cons_ne (k k' : Key) (v : Val) (l : List Entry) (h : k' ≠ k) :
    lastOf k' ((k, v) :: l) = lastOf k' l := by
  have : (k, v) :: l = [(k, v)] ++ l := rfl
  rw [this, lastOf_append, lastOf_single]
  have hk : ¬ (k, v).1 = k' := fun e => h e.symm
  simp only [hk, if_false]
  cases lastOf k' l <;> rfl

theorem lastOf_cons_self (k : Key) (v : Val) (l : List Entry) :
    lastOf k ((k, v) :: l) = (lastOf k l).or (some v) := by
  have : (k, v) :: l = [(k, v)] ++ l := rfl
  rw [this, lastOf_append, lastOf_single]
  simp

theorem flightH_none (s : HSys) (h : s.inflight = none) : flightH s = flight s.p := by
  simp [flightH, inflightEntry, h]

theorem flightH_some (s : HSys) (k : Key) (v : Val) (l : List Nat) (h : s.inflight = some (k, v, l)) :
    flightH s = (k, v) :: flight s.p := by
  simp [flightH, inflightEntry, h]

/-- whatever is in flight behind the delivery goroutine's entry is newer than it -/
theorem lastOf_flightH (s : HSys) (k : Key) :
    lastOf k (flightH s) = (lastOf k (flight s.p)).or (lastOf k (inflightEntry s)) := by
  unfold flightH; rw [lastOf_append]

theorem newest_flight (s : HSys) (h : HInv s) (k : Key) (v : Val) (hv : lastOf k (flight s.p) = some v) :
    v = s.p.cur k := by
  apply h.newest k v
  rw [lastOf_flightH, hv]; rfl

/-! ### every step keeps the invariant -/

theorem inv_write (r : Rules) (s : HSys) (k : Key) (dr : Bool) (h : HInv s) :
    HInv (stepWith r s (.write k dr)) := by
  obtain ⟨hnew, huniq, hok, hpark, hdem⟩ := h
  have hfl : flight (Pipeline.step s.p (.write k dr)) = flight s.p ++ [(k, { ver := (s.p.cur k).ver + 1, dr := dr })] := by
    simp [Pipeline.step, flight]
  have hflH : flightH (stepWith r s (.write k dr)) = flightH s ++ [(k, { ver := (s.p.cur k).ver + 1, dr := dr })] := by
    show inflightEntry s ++ flight (Pipeline.step s.p (.write k dr)) = _
    rw [hfl, flightH, List.append_assoc]
  refine ⟨?_, huniq, hok, hpark, ?_⟩
  · intro k' v hv
    rw [hflH, lastOf_append, lastOf_single] at hv
    show v = (Pipeline.step s.p (.write k dr)).cur k'
    by_cases hk : k = k'
    · subst hk; simp at hv; simp [Pipeline.step, ← hv]
    · simp only [hk, if_false, Option.or] at hv
      have := hnew k' v hv
      have hk' : ¬ k' = k := fun e => hk e.symm
      simp [Pipeline.step, hk', this]
  · intro i c hc k'
    have hc0 : s.p.ctls[i]? = some c := hc
    by_cases hk : k = k'
    · subst hk
      apply demandH_of_good
      left; right; right; right
      show (lastOf k (flight (Pipeline.step s.p (.write k dr)))).isSome = true
      rw [hfl, lastOf_append, lastOf_single]; simp
    · have hk' : ¬ k' = k := fun e => hk e.symm
      refine demandH_congr s _ i c c k' (by show (Pipeline.step s.p (.write k dr)).cur k' = _; simp [Pipeline.step, hk']) rfl ?_ (hdem i c hc0 k')
      intro hg
      rcases hg with hg | hg
      · left
        refine good_of_same s.p (Pipeline.step s.p (.write k dr)) c k' (by simp [Pipeline.step, hk']) ?_ hg
        rw [hfl, lastOf_append, lastOf_single]; simp only [hk, if_false, Option.or]
      · right; exact hg

/-- a step that changes neither cur, nor the map, nor the in-progress delivery, nor the controllers, and keeps every
    key's newest in-flight entry, keeps the invariant -/
theorem inv_of_same_flight (s s' : HSys) (h : HInv s)
    (hcur : s'.p.cur = s.p.cur) (hd : s'.p.dedup = s.p.dedup) (hc : s'.p.ctls = s.p.ctls)
    (hloc : s'.loc = s.loc) (hin : s'.inflight = s.inflight)
    (hfl : ∀ k, lastOf k (flight s'.p) = lastOf k (flight s.p)) : HInv s' := by
  obtain ⟨hnew, huniq, hok, hpark, hdem⟩ := h
  have hie : inflightEntry s' = inflightEntry s := by unfold inflightEntry; rw [hin]
  refine ⟨?_, by rw [hd]; exact huniq, by rw [hc]; exact hok, by rw [hloc, hd]; exact hpark, ?_⟩
  · intro k v hv
    rw [lastOf_flightH, hfl, hie, ← lastOf_flightH] at hv
    rw [hcur]; exact hnew k v hv
  · intro i c hci k
    rw [hc] at hci
    refine demandH_congr s s' i c c k (by rw [hcur]) rfl ?_ (hdem i c hci k)
    intro hg
    rcases hg with hg | hg
    · left; exact good_of_same s.p s'.p c k (by rw [hcur]) (hfl k) hg
    · right; unfold Covered at *; rw [hin]; exact hg

theorem inv_fetch (r : Rules) (s : HSys) (n : Nat) (h : HInv s) : HInv (stepWith r s (.fetch n)) := by
  by_cases hn : n = 0 ∨ s.p.logSuffix = []
  · have : stepWith r s (.fetch n) = s := by simp [stepWith, Pipeline.step, hn]
    rw [this]; exact h
  · refine inv_of_same_flight s _ h ?_ ?_ ?_ rfl rfl ?_
    · simp [stepWith, Pipeline.step, hn]
    · simp [stepWith, Pipeline.step, hn]
    · simp [stepWith, Pipeline.step, hn]
    · intro k
      have : flight (stepWith r s (.fetch n)).p = flight s.p := by
        simp only [stepWith, Pipeline.step, hn, if_false]
        exact flight_fetch s.p n
      rw [this]

/-- a step that only rewrites one controller, keeping needs/passes, and leaves it Good for every key -/
theorem inv_of_setCtl (s s' : HSys) (h : HInv s) (i : Nat) (f : Ctl → Ctl)
    (hcur : s'.p.cur = s.p.cur) (hlog : s'.p.logSuffix = s.p.logSuffix) (hw : s'.p.watchCh = s.p.watchCh)
    (hd : s'.p.dedup = s.p.dedup) (hc : s'.p.ctls = setCtl s.p.ctls i f)
    (hloc : s'.loc = s.loc) (hin : s'.inflight = s.inflight)
    (hneeds : ∀ c, (f c).needs = c.needs) (hpasses : ∀ c, (f c).passes = c.passes)
    (hgood : ∀ c k, Good s.p c k → Good s.p (f c) k) : HInv s' := by
  obtain ⟨hnew, huniq, hok, hpark, hdem⟩ := h
  have hflight : flight s'.p = flight s.p := by unfold flight; rw [hd, hw, hlog]
  have hie : inflightEntry s' = inflightEntry s := by unfold inflightEntry; rw [hin]
  have hgs : ∀ c k, Good s.p c k → Good s'.p c k := fun c k =>
    good_of_same s.p s'.p c k (by rw [hcur]) (by rw [hflight])
  refine ⟨?_, by rw [hd]; exact huniq, ?_, by rw [hloc, hd]; exact hpark, ?_⟩
  · intro k v hv
    rw [flightH, hflight, hie] at hv
    rw [hcur]; exact hnew k v hv
  · intro c hcm
    rw [hc] at hcm
    rcases mem_setCtl _ _ _ _ hcm with hm | ⟨c0, h0, rfl⟩
    · exact hok c hm
    · have := hok c0 h0
      unfold CtlOk at *
      rw [hneeds, hpasses]; exact this
  · intro j c hcj k
    rw [hc, getElem_setCtl] at hcj
    have hcov : ∀ c0, GoodH s j c0 k → GoodH s' j c0 k := by
      intro c0 hg
      rcases hg with hg | hg
      · left; exact hgs c0 k hg
      · right; unfold Covered at *; rw [hin]; exact hg
    by_cases hji : j = i
    · simp only [hji, if_true] at hcj
      cases hl : s.p.ctls[i]? with
      | none => rw [hl] at hcj; cases hcj
      | some c0 =>
        rw [hl] at hcj
        simp only [Option.map_some, Option.some.injEq] at hcj
        subst hcj
        refine demandH_congr s s' j c0 (f c0) k (by rw [hcur]) (by rw [hneeds]) ?_ (hdem j c0 (by rw [hji]; exact hl) k)
        intro hg
        rcases hg with hg | hg
        · left; exact hgs _ k (hgood c0 k hg)
        · right; unfold Covered at *; rw [hin]; exact hg
    · simp only [hji, if_false] at hcj
      exact demandH_congr s s' j c c k (by rw [hcur]) rfl (hcov c) (hdem j c hcj k)

theorem inv_take (r : Rules) (s : HSys) (i : Nat) (h : HInv s) : HInv (stepWith r s (.take i)) := by
  refine inv_of_setCtl s _ h i
    (fun x => if x.trigger ∧ ¬ x.reading then { x with trigger := false, reading := true } else x)
    rfl rfl rfl rfl rfl rfl rfl ?_ ?_ ?_
  · intro c; split <;> rfl
  · intro c; split <;> rfl
  · intro c k hg
    split
    · right; right; left; rfl
    · exact hg

theorem inv_read (r : Rules) (s : HSys) (i : Nat) (h : HInv s) : HInv (stepWith r s (.read i)) := by
  refine inv_of_setCtl s _ h i
    (fun x => if x.reading then { x with reading := false, observed := fun k => (s.p.cur k).ver } else x)
    rfl rfl rfl rfl rfl rfl rfl ?_ ?_ ?_
  · intro c; split <;> rfl
  · intro c; split <;> rfl
  · intro c k hg
    split
    · left; rfl
    · exact hg

theorem inv_dedup_aux (s : HSys) (h : HInv s) (b : List Entry) (bs : List (List Entry)) (loc' : Loc)
    (hw : s.p.watchCh = b :: bs) (hloc : loc' = .empty ↔ b.foldl upd s.p.dedup = []) :
    HInv { p := { s.p with watchCh := bs, dedup := b.foldl upd s.p.dedup }, loc := loc', inflight := s.inflight } := by
  obtain ⟨hnew, huniq, hok, hpark, hdem⟩ := h
  have hfl : ∀ k, lastOf k (flight { s.p with watchCh := bs, dedup := b.foldl upd s.p.dedup }) = lastOf k (flight s.p) := by
    intro k
    unfold flight
    simp only [hw, List.flatten_cons]
    rw [List.append_assoc, lastOf_foldl_upd]
    simp only [List.append_assoc]
  refine ⟨?_, uniq_foldl_upd b _ huniq, hok, hloc, ?_⟩
  · intro k v hv
    rw [lastOf_flightH] at hv
    simp only at hv
    rw [hfl k] at hv
    exact hnew k v (by rw [lastOf_flightH]; exact hv)
  · intro i c hci k
    refine demandH_congr s _ i c c k rfl rfl ?_ (hdem i c hci k)
    intro hg
    rcases hg with hg | hg
    · left; exact good_of_same s.p _ c k rfl (hfl k) hg
    · right; exact hg

theorem inv_dedup (r : Rules) (hr : Sound r) (s : HSys) (h : HInv s) : HInv (stepWith r s .dedup) := by
  cases hw : s.p.watchCh with
  | nil =>
    have : stepWith r s .dedup = s := by simp [stepWith, hw]
    rw [this]; exact h
  | cons b bs =>
    have hst : stepWith r s .dedup =
        { p := { s.p with watchCh := bs, dedup := b.foldl upd s.p.dedup },
          loc := if r.parkAfterBatch s.p.dedup.length (b.foldl upd s.p.dedup).length then .empty else .ch,
          inflight := s.inflight } := by
      simp [stepWith, hw]
    rw [hst]
    apply inv_dedup_aux s h b bs _ hw
    by_cases hp : r.parkAfterBatch s.p.dedup.length (b.foldl upd s.p.dedup).length = true
    · have := (hr.park_iff _ _).1 hp
      rw [if_pos hp]
      exact ⟨fun _ => List.length_eq_zero_iff.1 this, fun _ => rfl⟩
    · have hne : (b.foldl upd s.p.dedup) ≠ [] := by
        intro he
        exact hp ((hr.park_iff _ _).2 (by rw [he]; rfl))
      rw [if_neg hp]
      exact ⟨fun e => (by cases e), fun e => absurd e hne⟩

theorem inv_takeKey_aux (s : HSys) (h : HInv s) (k : Key) (v : Val) (loc' : Loc)
    (hnone : s.inflight = none) (hlast : lastOf k s.p.dedup = some v)
    (hloc : loc' = .empty ↔ s.p.dedup.filter (·.1 ≠ k) = []) :
    HInv { p := { s.p with dedup := s.p.dedup.filter (·.1 ≠ k) }, loc := loc',
           inflight := some (k, v, dependents s.p.ctls k) } := by
  obtain ⟨hnew, huniq, hok, hpark, hdem⟩ := h
  have hfl_other : ∀ k', k' ≠ k → lastOf k' (flight { s.p with dedup := s.p.dedup.filter (·.1 ≠ k) }) = lastOf k' (flight s.p) := by
    intro k' hk'
    unfold flight
    rw [lastOf_append, lastOf_append, lastOf_append (a := s.p.dedup ++ s.p.watchCh.flatten), lastOf_append (a := s.p.dedup),
      lastOf_filter_ne k' k hk']
  have hfl_self : lastOf k (flight { s.p with dedup := s.p.dedup.filter (·.1 ≠ k) }) = lastOf k (s.p.watchCh.flatten ++ s.p.logSuffix) := by
    unfold flight
    rw [List.append_assoc, lastOf_append, lastOf_filter_self]
    cases lastOf k (s.p.watchCh.flatten ++ s.p.logSuffix) <;> rfl
  have hfl_old : lastOf k (flight s.p) = (lastOf k (s.p.watchCh.flatten ++ s.p.logSuffix)).or (some v) := by
    unfold flight
    rw [List.append_assoc, lastOf_append, hlast]
  have hFold : flightH s = flight s.p := flightH_none s hnone
  refine ⟨?_, uniq_filter _ k huniq, hok, hloc, ?_⟩
  · intro k' v' hv'
    rw [flightH_some _ k v _ rfl] at hv'
    simp only at hv'
    by_cases hk' : k' = k
    · subst hk'
      rw [lastOf_cons_self, hfl_self] at hv'
      exact hnew k' v' (by rw [hFold, hfl_old]; exact hv')
    · rw [lastOf_cons_ne k k' v _ hk', hfl_other k' hk'] at hv'
      exact hnew k' v' (by rw [hFold]; exact hv')
  · intro i c hci k'
    have hci0 : s.p.ctls[i]? = some c := hci
    by_cases hk' : k' = k
    · subst hk'
      by_cases hn : c.needs k' = .none
      · unfold DemandH; rw [hn]; trivial
      · apply demandH_of_good
        right
        exact ⟨v, dependents s.p.ctls k', rfl, mem_dependents s.p.ctls k' i c hci0 hn⟩
    · refine demandH_congr s _ i c c k' rfl rfl ?_ (hdem i c hci0 k')
      intro hg
      rcases hg with hg | ⟨v0, l0, h0, _⟩
      · left; exact good_of_same s.p _ c k' rfl (hfl_other k' hk') hg
      · rw [hnone] at h0; cases h0

theorem inv_takeKey (r : Rules) (hr : Sound r) (s : HSys) (k : Key) (h : HInv s) : HInv (stepWith r s (.takeKey k)) := by
  by_cases hen : s.loc = .ch ∧ s.inflight.isNone = true
  · cases hf : s.p.dedup.find? (·.1 = k) with
    | none =>
      have : stepWith r s (.takeKey k) = s := by simp [stepWith, hen, hf]
      rw [this]; exact h
    | some kv =>
      obtain ⟨k0, v⟩ := kv
      have hst : stepWith r s (.takeKey k) =
          { p := { s.p with dedup := s.p.dedup.filter (·.1 ≠ k) },
            loc := if r.backToCh (s.p.dedup.filter (·.1 ≠ k)).length then .ch else .empty,
            inflight := some (k, v, dependents s.p.ctls k) } := by
        simp [stepWith, hen, hf]
      rw [hst]
      have hnone : s.inflight = none := by
        cases hi : s.inflight with
        | none => rfl
        | some x => rw [hi] at hen; simp at hen
      have hlast : lastOf k s.p.dedup = some v := by
        rw [← find_is_last s.p.dedup k h.uniq, hf]; rfl
      apply inv_takeKey_aux s h k v _ hnone hlast
      by_cases hb : r.backToCh (s.p.dedup.filter (·.1 ≠ k)).length = true
      · have hpos := (hr.back_iff _).1 hb
        rw [if_pos hb]
        refine ⟨fun e => (by cases e), fun e => ?_⟩
        rw [e] at hpos; cases hpos
      · rw [if_neg hb]
        refine ⟨fun _ => ?_, fun _ => rfl⟩
        apply List.length_eq_zero_iff.1
        cases hlen : (s.p.dedup.filter (·.1 ≠ k)).length with
        | zero => rfl
        | succ n => exact absurd ((hr.back_iff _).2 (by rw [hlen]; exact Nat.succ_pos n)) hb
  · have : stepWith r s (.takeKey k) = s := by
      simp only [stepWith]; rw [if_neg hen]
    rw [this]; exact h

theorem trig_needs (k : Key) (v : Val) (l : List Nat) (i : Nat) (c : Ctl) : (trig k v l i c).needs = c.needs := by
  unfold trig; split <;> rfl
theorem trig_passes (k : Key) (v : Val) (l : List Nat) (i : Nat) (c : Ctl) : (trig k v l i c).passes = c.passes := by
  unfold trig; split <;> rfl
theorem trig_observed (k : Key) (v : Val) (l : List Nat) (i : Nat) (c : Ctl) : (trig k v l i c).observed = c.observed := by
  unfold trig; split <;> rfl
theorem trig_reading (k : Key) (v : Val) (l : List Nat) (i : Nat) (c : Ctl) : (trig k v l i c).reading = c.reading := by
  unfold trig; split <;> rfl
theorem trig_mono (k : Key) (v : Val) (l : List Nat) (i : Nat) (c : Ctl) (h : c.trigger = true) : (trig k v l i c).trigger = true := by
  unfold trig; split
  · rfl
  · exact h
theorem trig_fires (k : Key) (v : Val) (l : List Nat) (i : Nat) (c : Ctl) (hi : i ∈ l) (hp : c.passes k v = true) :
    (trig k v l i c).trigger = true := by
  unfold trig
  simp [hi, hp]

theorem inv_trigger (r : Rules) (s : HSys) (h : HInv s) : HInv (stepWith r s .trigger) := by
  cases hin : s.inflight with
  | none =>
    have : stepWith r s .trigger = s := by simp [stepWith, hin]
    rw [this]; exact h
  | some x =>
    obtain ⟨k, v, l⟩ := x
    have hst : stepWith r s .trigger =
        { p := { s.p with ctls := s.p.ctls.mapIdx (trig k v l) }, loc := s.loc, inflight := none } := by
      simp only [stepWith, hin]
    rw [hst]
    obtain ⟨hnew, huniq, hok, hpark, hdem⟩ := h
    have hFold : flightH s = (k, v) :: flight s.p := flightH_some s k v l hin
    refine ⟨?_, huniq, ?_, hpark, ?_⟩
    · intro k' v' hv'
      rw [flightH_none _ rfl] at hv'
      have hv'' : lastOf k' (flight s.p) = some v' := hv'
      exact hnew k' v' (by rw [lastOf_flightH, hv'']; rfl)
    · intro c hc
      simp only [List.mem_mapIdx] at hc
      obtain ⟨i, hi, rfl⟩ := hc
      have := hok s.p.ctls[i] (List.getElem_mem hi)
      unfold CtlOk at *
      rw [trig_needs, trig_passes]; exact this
    · intro i c' hci k'
      simp only [List.getElem?_mapIdx] at hci
      cases hc0 : s.p.ctls[i]? with
      | none => rw [hc0] at hci; cases hci
      | some c =>
        rw [hc0] at hci
        simp only [Option.map_some, Option.some.injEq] at hci
        subst hci
        have hok0 : CtlOk c := hok c (List.mem_of_getElem? hc0)
        have hd0 := hdem i c hc0 k'
        have hgood : Good s.p c k' → Good s.p (trig k v l i c) k' :=
          good_transfer s.p s.p c _ k' rfl rfl (by rw [trig_observed]) (by rw [trig_reading]) (trig_mono k v l i c)
        -- the case that matters: this delivery covered (i, k')
        have hcov : Covered s i k' → (c.needs k' = .always ∨ (c.needs k' = .whenDR ∧ (s.p.cur k').dr = true)) →
            Good s.p (trig k v l i c) k' := by
          intro ⟨v0, l0, h0, hil⟩ hneed
          rw [hin] at h0
          simp only [Option.some.injEq, Prod.mk.injEq] at h0
          obtain ⟨hk, hv, hl⟩ := h0
          subst hk; subst hv; subst hl
          by_cases hrest : (lastOf k (flight s.p)).isSome = true
          · right; right; right; exact hrest
          · have hnone : lastOf k (flight s.p) = none := by
              cases hx : lastOf k (flight s.p) with
              | none => rfl
              | some _ => rw [hx] at hrest; exact absurd rfl hrest
            have hcur : v = s.p.cur k := hnew k v (by rw [hFold, lastOf_cons_self, hnone]; rfl)
            have hp : c.passes k v = true := by
              rcases hneed with hn | ⟨hn, hdr⟩
              · exact (hok0 k v).1 hn
              · exact (hok0 k v).2 hn (by rw [hcur]; exact hdr)
            right; left; exact trig_fires k v l i c hil hp
        unfold DemandH at *
        rw [trig_needs]
        cases hn : c.needs k' with
        | none => trivial
        | always =>
          rw [hn] at hd0
          left
          rcases hd0 with hg | hg
          · exact hgood hg
          · exact hcov hg (Or.inl hn)
        | whenDR =>
          rw [hn] at hd0
          intro hdr
          left
          rcases hd0 hdr with hg | hg
          · exact hgood hg
          · exact hcov hg (Or.inr ⟨hn, hdr⟩)

/-- with a fresh lookup slice a change of the dependency tables leaves the in-progress delivery alone -/
theorem inflight_kept (r : Rules) (hr : Sound r) (o : Option (Key × Val × List Nat)) (n : Nat) :
    relist r o n = o := by
  cases o with
  | none => rfl
  | some x => obtain ⟨k, v, l⟩ := x; simp only [relist, hr.lookup_id]

theorem inv_register (r : Rules) (hr : Sound r) (s : HSys) (km : KeyMap) (ds : List Decl) (h : HInv s) :
    HInv (stepWith r s (.register km ds)) := by
  have hst : stepWith r s (.register km ds) =
      { p := { s.p with ctls := s.p.ctls ++ [{ needs := needsOf km ds, passes := passesOf km ds, trigger := true }] },
        loc := s.loc, inflight := s.inflight } := by
    simp only [stepWith, inflight_kept r hr, hr.trig]
  rw [hst]
  obtain ⟨hnew, huniq, hok, hpark, hdem⟩ := h
  refine ⟨hnew, huniq, ?_, hpark, ?_⟩
  · intro c hc
    rcases List.mem_append.1 hc with hc | hc
    · exact hok c hc
    · rw [List.mem_singleton.1 hc]
      exact ctlOk_of_decls km ds true false (fun _ => 0)
  · intro i c hci k
    by_cases hlt : i < s.p.ctls.length
    · have hci0 : s.p.ctls[i]? = some c := by
        rw [← List.getElem?_append_left (l₂ := [({ needs := needsOf km ds, passes := passesOf km ds, trigger := true } : Ctl)]) hlt]
        exact hci
      exact demandH_congr s _ i c c k rfl rfl (fun hg => hg) (hdem i c hci0 k)
    · have hge : s.p.ctls.length ≤ i := Nat.le_of_not_lt hlt
      have hci' : ([({ needs := needsOf km ds, passes := passesOf km ds, trigger := true } : Ctl)])[i - s.p.ctls.length]? = some c := by
        rw [← List.getElem?_append_right hge]; exact hci
      have hc : c = { needs := needsOf km ds, passes := passesOf km ds, trigger := true } := by
        have := List.mem_of_getElem? hci'
        exact List.mem_singleton.1 this
      apply demandH_of_good
      left; right; left
      rw [hc]

theorem inv_updateInputs (r : Rules) (hr : Sound r) (s : HSys) (i : Nat) (km : KeyMap) (ds : List Decl) (h : HInv s) :
    HInv (stepWith r s (.updateInputs i km ds)) := by
  have hst : stepWith r s (.updateInputs i km ds) =
      { p := { s.p with ctls := setCtl s.p.ctls i fun x =>
                 if x.trigger || x.reading then { x with needs := needsOf km ds, passes := passesOf km ds } else x },
        loc := s.loc, inflight := s.inflight } := by
    simp only [stepWith, inflight_kept r hr]
  rw [hst]
  obtain ⟨hnew, huniq, hok, hpark, hdem⟩ := h
  refine ⟨hnew, huniq, ?_, hpark, ?_⟩
  · intro c hcm
    rcases mem_setCtl _ _ _ _ hcm with hm | ⟨c0, h0, rfl⟩
    · exact hok c hm
    · split
      · exact ctlOk_of_decls km ds c0.trigger c0.reading c0.observed
      · exact hok c0 h0
  · intro j c hcj k
    have hcj' := hcj
    simp only [getElem_setCtl] at hcj'
    by_cases hji : j = i
    · simp only [hji, if_true] at hcj'
      cases hl : s.p.ctls[i]? with
      | none => rw [hl] at hcj'; cases hcj'
      | some c0 =>
        rw [hl] at hcj'
        simp only [Option.map_some, Option.some.injEq] at hcj'
        by_cases hcond : (c0.trigger || c0.reading) = true
        · simp only [hcond, if_true] at hcj'
          subst hcj'
          apply demandH_of_good
          left
          rcases Bool.or_eq_true_iff.1 hcond with ht | hrd
          · right; left; exact ht
          · right; right; left; exact hrd
        · simp only [hcond] at hcj'
          subst hcj'
          exact demandH_congr s _ j c0 c0 k rfl rfl (fun hg => hg) (hdem j c0 (by rw [hji]; exact hl) k)
    · simp only [hji, if_false] at hcj'
      exact demandH_congr s _ j c c k rfl rfl (fun hg => hg) (hdem j c hcj' k)

/-- **every step of every sound rule set keeps the invariant** -/
theorem stepWith_inv (r : Rules) (hr : Sound r) (s : HSys) (x : HStep) (h : HInv s) : HInv (stepWith r s x) := by
  cases x with
  | write k dr => exact inv_write r s k dr h
  | fetch n => exact inv_fetch r s n h
  | dedup => exact inv_dedup r hr s h
  | takeKey k => exact inv_takeKey r hr s k h
  | trigger => exact inv_trigger r s h
  | register km ds => exact inv_register r hr s km ds h
  | updateInputs i km ds => exact inv_updateInputs r hr s i km ds h
  | take i => exact inv_take r s i h
  | read i => exact inv_read r s i h

theorem runWith_inv (r : Rules) (hr : Sound r) (xs : List HStep) : ∀ s, HInv s → HInv (runWith r s xs) := by
  induction xs with
  | nil => intro s h; exact h
  | cons x xs ih => intro s h; exact ih _ (stepWith_inv r hr s x h)

/-- the model of the current source text keeps the invariant (rests on `genRules_sound`) -/
theorem step_inv (s : HSys) (x : HStep) (h : HInv s) : HInv (step s x) :=
  stepWith_inv genRules genRules_sound s x h

theorem run_inv (xs : List HStep) (s : HSys) (h : HInv s) : HInv (run s xs) :=
  runWith_inv genRules genRules_sound xs s h

/-- a freshly started runtime: `empty <- dedup{}` (the one map, empty, parked), no delivery in progress,
    every controller triggered once at registration -/
theorem init_inv (cur : Key → Val) (ctls : List Ctl) (hok : ∀ c ∈ ctls, CtlOk c)
    (htrig : ∀ c ∈ ctls, c.trigger = true) : HInv { p := { cur := cur, ctls := ctls } } := by
  refine ⟨?_, ?_, hok, ⟨fun _ => rfl, fun _ => rfl⟩, ?_⟩
  · intro k v hv; simp [flightH, inflightEntry, flight, lastOf] at hv
  · intro k; simp
  · intro i c hc k
    exact demandH_of_good _ _ _ _ (Or.inl (Or.inr (Or.inl (htrig c (List.mem_of_getElem? hc)))))

/-! ### the property -/

/-- the system is quiet: nothing in the log suffix, in watchCh or in the map, no delivery in progress,
    no wake-up pending, no reconcile running -/
def Quiet (s : HSys) : Prop :=
  flight s.p = [] ∧ s.inflight = none ∧ ∀ c ∈ s.p.ctls, c.trigger = false ∧ c.reading = false

/-- **C05 on the fine model — no lost wake-ups.** For every write history, every batching, every
    interleaving of the two dedup goroutines (including a delivery parked between its lookup and its
    triggers for as long as a registration holds the controllers lock), every registration and input
    update in between, every controller busy time: whenever the system goes quiet, the last state each
    controller observed for each of its inputs is the current state. -/
theorem quiescent_means_current (s0 : HSys) (h0 : HInv s0) (xs : List HStep) (hq : Quiet (run s0 xs)) :
    ∀ c ∈ (run s0 xs).p.ctls, ∀ k,
      (c.needs k = .always → c.observed k = ((run s0 xs).p.cur k).ver) ∧
      (c.needs k = .whenDR → ((run s0 xs).p.cur k).dr = true → c.observed k = ((run s0 xs).p.cur k).ver) := by
  intro c hc k
  have hinv := run_inv xs s0 h0
  obtain ⟨i, hi⟩ := List.getElem?_of_mem hc
  have hd := hinv.demand i c hi k
  obtain ⟨hfl, hnone, hidle⟩ := hq
  obtain ⟨ht, hr⟩ := hidle c hc
  have hgood : GoodH (run s0 xs) i c k → c.observed k = ((run s0 xs).p.cur k).ver := by
    intro hg
    rcases hg with (hg | hg | hg | hg) | ⟨v, l, hg, _⟩
    · exact hg
    · rw [ht] at hg; cases hg
    · rw [hr] at hg; cases hg
    · rw [hfl] at hg; simp [lastOf] at hg
    · rw [hnone] at hg; cases hg
  unfold DemandH at hd
  constructor
  · intro hn; rw [hn] at hd; exact hgood hd
  · intro hn hdr; rw [hn] at hd; exact hgood (hd hdr)

/-- the invariant itself, for every reachable state: for every controller and input key the controller has
    observed the current value, or a wake-up is pending, or a reconcile is running, or the current value is
    still in flight, or a delivery of the key with this controller in its lookup list is in progress -/
theorem pending_or_observed (s0 : HSys) (h0 : HInv s0) (xs : List HStep) :
    ∀ i c, (run s0 xs).p.ctls[i]? = some c → ∀ k, DemandH (run s0 xs) i c k :=
  (run_inv xs s0 h0).demand

/-- **a map parked in `empty` holds no pending key** (the delivery goroutine never receives from `empty`) -/
theorem parked_map_is_empty (s0 : HSys) (h0 : HInv s0) (xs : List HStep) (hp : (run s0 xs).loc = .empty) :
    (run s0 xs).p.dedup = [] :=
  (run_inv xs s0 h0).parked.1 hp

/-- the map the delivery goroutine receives from `ch` is never empty: `takeOne` never panics -/
theorem ch_map_is_nonempty (s0 : HSys) (h0 : HInv s0) (xs : List HStep) (hp : (run s0 xs).loc = .ch) :
    (run s0 xs).p.dedup ≠ [] := by
  intro he
  have := (run_inv xs s0 h0).parked.2 he
  rw [hp] at this; cases this

/-- **a non-empty map is never stranded**: the delivery goroutine can take a key out of it, or it is busy with
    a delivery (which `trigger_completes` finishes) -/
theorem nonempty_map_not_stranded (s0 : HSys) (h0 : HInv s0) (xs : List HStep) (hne : (run s0 xs).p.dedup ≠ []) :
    (∃ k, TakeEnabled (run s0 xs) k) ∨ (run s0 xs).inflight.isSome = true := by
  have hinv := run_inv xs s0 h0
  cases hin : (run s0 xs).inflight with
  | some x => right; rfl
  | none =>
    left
    cases hd : (run s0 xs).p.dedup with
    | nil => exact absurd hd hne
    | cons e es =>
      refine ⟨e.1, ?_, hin, ?_⟩
      · cases hl : (run s0 xs).loc with
        | ch => rfl
        | empty => exact absurd (hinv.parked.1 hl) hne
      · rw [hd]; simp [List.find?]

/-- an enabled `takeKey` removes the key from the map and starts its delivery to every dependent -/
theorem takeKey_fires (r : Rules) (s : HSys) (k : Key) (h : TakeEnabled s k) :
    ∃ v, (stepWith r s (.takeKey k)).inflight = some (k, v, dependents s.p.ctls k) ∧
      (stepWith r s (.takeKey k)).p.dedup = s.p.dedup.filter (·.1 ≠ k) ∧
      s.p.dedup.find? (·.1 = k) = some (k, v) := by
  obtain ⟨hl, hi, hf⟩ := h
  cases hfind : s.p.dedup.find? (·.1 = k) with
  | none => rw [hfind] at hf; cases hf
  | some kv =>
    obtain ⟨k0, v⟩ := kv
    have hk0 : k0 = k := by simpa using List.find?_some hfind
    subst hk0
    refine ⟨v, ?_, ?_, rfl⟩ <;> simp [stepWith, hl, hi, hfind]

/-- the trigger loop needs nothing but the read lock: it always completes the delivery -/
theorem trigger_completes (r : Rules) (s : HSys) : (stepWith r s .trigger).inflight = none := by
  cases hin : s.inflight with
  | none => simp [stepWith, hin]
  | some x => obtain ⟨k, v, l⟩ := x; simp [stepWith, hin]

/-- **dynamic registration never loses a wake-up**: the newcomer is appended, starts triggered (so it reads
    all its inputs), and neither the other controllers nor the in-progress delivery change -/
theorem register_starts_triggered (s : HSys) (km : KeyMap) (ds : List Decl) :
    (step s (.register km ds)).p.ctls = s.p.ctls ++ [{ needs := needsOf km ds, passes := passesOf km ds, trigger := true }] ∧
    (step s (.register km ds)).inflight = s.inflight ∧
    (step s (.register km ds)).p.dedup = s.p.dedup ∧ (step s (.register km ds)).loc = s.loc := by
  have h1 : genRules.triggerOnRegister = true := genRules_sound.trig
  refine ⟨?_, ?_, rfl, rfl⟩
  · simp only [Handoff.step, stepWith, h1]
  · simp only [Handoff.step, stepWith]; exact inflight_kept genRules genRules_sound s.inflight _

/-! ### the hand-off never deadlocks: from every reachable state some schedule empties the pipeline -/

theorem runWith_append (r : Rules) (s : HSys) (xs ys : List HStep) :
    runWith r s (xs ++ ys) = runWith r (runWith r s xs) ys := by
  unfold runWith; rw [List.foldl_append]

theorem trigger_frame (r : Rules) (s : HSys) :
    (stepWith r s .trigger).p.dedup = s.p.dedup ∧ (stepWith r s .trigger).p.watchCh = s.p.watchCh ∧
    (stepWith r s .trigger).p.logSuffix = s.p.logSuffix := by
  cases hin : s.inflight with
  | none => simp [stepWith, hin]
  | some x => obtain ⟨k, v, l⟩ := x; simp [stepWith, hin]

theorem takeKey_frame (r : Rules) (s : HSys) (k : Key) :
    (stepWith r s (.takeKey k)).p.watchCh = s.p.watchCh ∧ (stepWith r s (.takeKey k)).p.logSuffix = s.p.logSuffix := by
  simp only [stepWith]
  split
  · split <;> exact ⟨rfl, rfl⟩
  · exact ⟨rfl, rfl⟩

theorem flight_nil (p : PSys) (hd : p.dedup = []) (hw : p.watchCh = []) (hl : p.logSuffix = []) : flight p = [] := by
  unfold flight; rw [hd, hw, hl]; rfl

/-- stage 1: the watchers hand the whole remaining log over as one batch -/
theorem fetch_all (r : Rules) (s : HSys) (n : Nat) (hn : n = s.p.logSuffix.length) :
    (stepWith r s (.fetch n)).p.logSuffix = [] := by
  by_cases hc : n = 0 ∨ s.p.logSuffix = []
  · have : stepWith r s (.fetch n) = s := by simp [stepWith, Pipeline.step, hc]
    rw [this]
    rcases hc with hc | hc
    · exact List.length_eq_zero_iff.1 (by rw [← hn]; exact hc)
    · exact hc
  · have hne : ¬ s.p.logSuffix = [] := fun e => hc (Or.inr e)
    simp [stepWith, Pipeline.step, hn, hne]

/-- stage 3: the delivery goroutine empties the map, one key per `takeKey` + `trigger` -/
theorem drain_map (r : Rules) (hr : Sound r) : ∀ n (s : HSys), HInv s → s.p.dedup.length ≤ n → s.inflight = none →
    s.p.watchCh = [] → s.p.logSuffix = [] →
    ∃ xs, flight (runWith r s xs).p = [] ∧ (runWith r s xs).inflight = none := by
  intro n
  induction n with
  | zero =>
    intro s _ hl hi hw hlg
    exact ⟨[], flight_nil _ (List.length_eq_zero_iff.1 (Nat.le_zero.1 hl)) hw hlg, hi⟩
  | succ n ih =>
    intro s h hl hi hw hlg
    cases hd : s.p.dedup with
    | nil => exact ⟨[], flight_nil _ hd hw hlg, hi⟩
    | cons e es =>
      have hne : s.p.dedup ≠ [] := by rw [hd]; exact List.cons_ne_nil e es
      have hloc : s.loc = .ch := by
        cases hl' : s.loc with
        | ch => rfl
        | empty => exact absurd (h.parked.1 hl') hne
      have hen : TakeEnabled s e.1 := ⟨hloc, hi, by rw [hd]; simp [List.find?]⟩
      obtain ⟨v, _, hd1, _⟩ := takeKey_fires r s e.1 hen
      have h1 : HInv (stepWith r s (.takeKey e.1)) := stepWith_inv r hr s _ h
      have h2 : HInv (stepWith r (stepWith r s (.takeKey e.1)) .trigger) := stepWith_inv r hr _ _ h1
      obtain ⟨tf1, tf2, tf3⟩ := trigger_frame r (stepWith r s (.takeKey e.1))
      obtain ⟨kf1, kf2⟩ := takeKey_frame r s e.1
      have hlen : (stepWith r (stepWith r s (.takeKey e.1)) .trigger).p.dedup.length ≤ n := by
        rw [tf1, hd1, hd]
        have : (e :: es).filter (·.1 ≠ e.1) = es.filter (·.1 ≠ e.1) := by simp [List.filter]
        rw [this]
        have h3 : (es.filter (·.1 ≠ e.1)).length ≤ es.length := List.length_filter_le _ _
        have h4 : es.length + 1 ≤ n + 1 := by rw [hd] at hl; exact hl
        omega
      obtain ⟨xs, hx1, hx2⟩ := ih _ h2 hlen (trigger_completes r _) (by rw [tf2, kf1]; exact hw) (by rw [tf3, kf2]; exact hlg)
      exact ⟨.takeKey e.1 :: .trigger :: xs, hx1, hx2⟩

/-- stage 2: the dedup goroutine consumes every batch of watchCh -/
theorem drain_watchCh (r : Rules) (hr : Sound r) : ∀ n (s : HSys), HInv s → s.p.watchCh.length = n → s.inflight = none →
    s.p.logSuffix = [] →
    ∃ xs, HInv (runWith r s xs) ∧ (runWith r s xs).p.watchCh = [] ∧ (runWith r s xs).inflight = none ∧
      (runWith r s xs).p.logSuffix = [] := by
  intro n
  induction n with
  | zero => intro s h hl hi hlg; exact ⟨[], h, List.length_eq_zero_iff.1 hl, hi, hlg⟩
  | succ n ih =>
    intro s h hl hi hlg
    cases hw : s.p.watchCh with
    | nil => rw [hw] at hl; cases hl
    | cons b bs =>
      have h1 : HInv (stepWith r s .dedup) := stepWith_inv r hr s _ h
      have hw1 : (stepWith r s .dedup).p.watchCh = bs := by simp [stepWith, hw]
      have hi1 : (stepWith r s .dedup).inflight = none := by simp [stepWith, hw, hi]
      have hl1 : (stepWith r s .dedup).p.logSuffix = [] := by simp [stepWith, hw, hlg]
      have hlen : (stepWith r s .dedup).p.watchCh.length = n := by
        rw [hw1]; rw [hw] at hl; simpa using hl
      obtain ⟨xs, hx⟩ := ih _ h1 hlen hi1 hl1
      exact ⟨.dedup :: xs, hx⟩

/-- **deadlock-freedom of the hand-off.** From every state that satisfies the invariant there is a
    continuation (finish the delivery in progress, hand the remaining events over, let the two
    goroutines pass the map back and forth) after which nothing is in flight and no delivery is in
    progress — under every sound rule set. -/
theorem pipeline_drains_with (r : Rules) (hr : Sound r) (s : HSys) (h : HInv s) :
    ∃ xs, flight (runWith r s xs).p = [] ∧ (runWith r s xs).inflight = none := by
  -- stage 0: finish the delivery in progress; stage 1: the watchers hand over the rest of the log
  have hA : HInv (runWith r s [.trigger, .fetch s.p.logSuffix.length]) :=
    runWith_inv r hr _ s h
  have hAi : (runWith r s [.trigger, .fetch s.p.logSuffix.length]).inflight = none := by
    show (stepWith r (stepWith r s .trigger) (.fetch _)).inflight = none
    exact trigger_completes r s
  have hAl : (runWith r s [.trigger, .fetch s.p.logSuffix.length]).p.logSuffix = [] := by
    show (stepWith r (stepWith r s .trigger) (.fetch _)).p.logSuffix = []
    obtain ⟨_, _, tf3⟩ := trigger_frame r s
    exact fetch_all r (stepWith r s .trigger) _ (by rw [tf3])
  obtain ⟨ys, hB, hBw, hBi, hBl⟩ := drain_watchCh r hr _ _ hA rfl hAi hAl
  obtain ⟨zs, hC1, hC2⟩ := drain_map r hr _ _ hB (Nat.le_refl _) hBi hBw hBl
  refine ⟨[.trigger, .fetch s.p.logSuffix.length] ++ ys ++ zs, ?_, ?_⟩
  · rw [runWith_append, runWith_append]; exact hC1
  · rw [runWith_append, runWith_append]; exact hC2

theorem pipeline_drains (s0 : HSys) (h0 : HInv s0) (xs : List HStep) :
    ∃ ys, flight (Handoff.run s0 (xs ++ ys)).p = [] ∧ (Handoff.run s0 (xs ++ ys)).inflight = none := by
  obtain ⟨ys, h1, h2⟩ := pipeline_drains_with genRules genRules_sound _ (run_inv xs s0 h0)
  refine ⟨ys, ?_, ?_⟩
  · show flight (runWith genRules s0 (xs ++ ys)).p = []
    rw [runWith_append]; exact h1
  · show (runWith genRules s0 (xs ++ ys)).inflight = none
    rw [runWith_append]; exact h2

/-! ### what goes wrong when a non-empty map is parked -/

def isWrite : HStep → Bool
  | .write _ _ => true
  | _ => false

/-- the map is parked and nothing else is on its way -/
def Stuck (s : HSys) : Prop := s.loc = .empty ∧ s.inflight = none ∧ s.p.watchCh = [] ∧ s.p.logSuffix = []

theorem stuck_step (r : Rules) (s : HSys) (x : HStep) (hx : isWrite x = false) (h : Stuck s) :
    Stuck (stepWith r s x) ∧ (stepWith r s x).p.dedup = s.p.dedup := by
  obtain ⟨hl, hi, hw, hlg⟩ := h
  cases x with
  | write k dr => cases hx
  | fetch n => simp [Stuck, stepWith, Pipeline.step, hl, hi, hw, hlg]
  | dedup => simp [Stuck, stepWith, hl, hi, hw, hlg]
  | takeKey k => simp [Stuck, stepWith, hl, hi, hw, hlg]
  | trigger => simp [Stuck, stepWith, hl, hi, hw, hlg]
  | register km ds => simp [Stuck, stepWith, relist, hl, hi, hw, hlg]
  | updateInputs i km ds => simp [Stuck, stepWith, relist, hl, hi, hw, hlg]
  | take i => simp [Stuck, stepWith, Pipeline.step, Pipeline.step.setCtl', hl, hi, hw, hlg]
  | read i => simp [Stuck, stepWith, Pipeline.step, Pipeline.step.setCtl', hl, hi, hw, hlg]

/-- **(any rules) keys in a map parked in `empty` are never delivered unless another change arrives**: no
    schedule without a write starts a delivery or takes anything out of the map. This is why the invariant
    `parked ⇒ empty` (`parked_map_is_empty`) is the crux of the hand-off. -/
theorem parked_nonempty_is_stuck (r : Rules) (xs : List HStep) : ∀ (s : HSys), xs.all (fun x => !isWrite x) = true → Stuck s →
    Stuck (runWith r s xs) ∧ (runWith r s xs).p.dedup = s.p.dedup := by
  induction xs with
  | nil => intro s _ h; exact ⟨h, rfl⟩
  | cons x xs ih =>
    intro s hall h
    simp only [List.all_cons, Bool.and_eq_true, Bool.not_eq_true'] at hall
    obtain ⟨h1, h2⟩ := stuck_step r s x hall.1 h
    obtain ⟨h3, h4⟩ := ih (stepWith r s x) hall.2 h1
    exact ⟨h3, by rw [← h2]; exact h4⟩

/-! ### the fine model refines the coarse one -/

theorem mem_dependents_iff (cs : List Ctl) (k : Key) (i : Nat) (c : Ctl) (hc : cs[i]? = some c) :
    i ∈ dependents cs k ↔ c.needs k ≠ .none := by
  constructor
  · intro h
    unfold dependents at h
    rw [List.mem_filter] at h
    have := h.2
    simp only [hc, decide_eq_true_eq] at this
    exact this
  · exact mem_dependents cs k i c hc

/-- an undisturbed delivery (`takeKey k` immediately followed by `trigger`) is exactly the atomic `deliver k`
    of Cosi.Model.Pipeline — the coarse model is the fine one without parked deliveries -/
theorem takeKey_trigger_is_deliver (r : Rules) (s : HSys) (k : Key) (h : TakeEnabled s k) :
    (stepWith r (stepWith r s (.takeKey k)) .trigger).p = Pipeline.step s.p (.deliver k) := by
  obtain ⟨v, _, _, hf⟩ := takeKey_fires r s k h
  obtain ⟨hl, hi, _⟩ := h
  have hst : stepWith r s (.takeKey k) =
      { p := { s.p with dedup := s.p.dedup.filter (·.1 ≠ k) },
        loc := if r.backToCh (s.p.dedup.filter (·.1 ≠ k)).length then .ch else .empty,
        inflight := some (k, v, dependents s.p.ctls k) } := by
    simp [stepWith, hl, hi, hf]
  rw [hst]
  simp only [stepWith, Pipeline.step, hf]
  congr 1
  apply List.ext_getElem?
  intro i
  rw [List.getElem?_mapIdx, List.getElem?_map]
  cases hc : s.p.ctls[i]? with
  | none => rfl
  | some c =>
    simp only [Option.map_some, Option.some.injEq]
    unfold trig
    by_cases hn : c.needs k ≠ .none
    · have hm : i ∈ dependents s.p.ctls k := (mem_dependents_iff _ k i c hc).2 hn
      simp [hm, hn]
    · have hm : ¬ i ∈ dependents s.p.ctls k := fun hm => hn ((mem_dependents_iff _ k i c hc).1 hm)
      simp [hm, hn]

/-! ### non-vacuity and negative witnesses -/

/-- one (namespace,type) group; the id of a key is the key -/
def exKm : KeyMap := { group := fun _ => 0, ident := fun k => k }

def byId (i : Nat) : List Decl := [⟨0, some i, .weak⟩]
def byKind : List Decl := [⟨0, none, .weak⟩]

def ctlOf (ds : List Decl) (trigger : Bool) : Ctl :=
  { needs := needsOf exKm ds, passes := passesOf exKm ds, trigger := trigger }

theorem ctlOf_ok (ds : List Decl) (t : Bool) : CtlOk (ctlOf ds t) := ctlOk_of_decls exKm ds t false (fun _ => 0)

/-- a running, idle system: every controller has observed the current state -/
theorem idle_inv (cur : Key → Val) (ctls : List Ctl) (hok : ∀ c ∈ ctls, CtlOk c)
    (hobs : ∀ c ∈ ctls, ∀ k, c.observed k = (cur k).ver) : HInv { p := { cur := cur, ctls := ctls } } := by
  refine ⟨?_, ?_, hok, ⟨fun _ => rfl, fun _ => rfl⟩, ?_⟩
  · intro k v hv; simp [flightH, inflightEntry, flight, lastOf] at hv
  · intro k; simp
  · intro i c hc k
    exact demandH_of_good _ _ _ _ (Or.inl (Or.inl (hobs c (List.mem_of_getElem? hc) k)))

/-- two controllers with by-ID inputs on keys 1 and 2, idle -/
def exSys : HSys := { p := { cur := fun _ => ⟨0, false⟩, ctls := [ctlOf (byId 1) false, ctlOf (byId 2) false] } }

theorem exSys_inv : HInv exSys := by
  apply idle_inv
  · intro c hc
    simp only [List.mem_cons, List.mem_nil_iff, or_false] at hc
    rcases hc with rfl | rfl <;> exact ctlOf_ok _ _
  · intro c hc k
    simp only [List.mem_cons, List.mem_nil_iff, or_false] at hc
    rcases hc with rfl | rfl <;> rfl

/-- key 1 is being delivered (the delivery goroutine is parked before its triggers), key 2 changed twice
    meanwhile and is pending in the map, which sits in `ch`; a third controller was registered in between -/
def exSched : List HStep :=
  [.write 1 false, .fetch 1, .dedup, .takeKey 1, .write 2 false, .fetch 1, .dedup, .write 2 false, .fetch 1, .dedup,
   .register exKm byKind]

example : HInv (Handoff.run exSys exSched) := run_inv exSched exSys exSys_inv

theorem ex_state :
    (Handoff.run exSys exSched).loc = .ch ∧ (Handoff.run exSys exSched).p.dedup = [(2, ⟨2, false⟩)] ∧
    (Handoff.run exSys exSched).inflight = some (1, ⟨1, false⟩, [0]) ∧
    ((Handoff.run exSys exSched).p.ctls.map fun c => (c.trigger, c.reading, c.observed 1, c.observed 2)) =
      [(false, false, 0, 0), (false, false, 0, 0), (true, false, 0, 0)] := by decide

/-- … and the same schedule continued to quiescence: the hypotheses of `quiescent_means_current` are satisfiable -/
def exSchedQuiet : List HStep :=
  exSched ++ [.trigger, .takeKey 2, .trigger, .take 0, .read 0, .take 1, .read 1, .take 2, .read 2]

theorem ex_quiet : Quiet (Handoff.run exSys exSchedQuiet) := by unfold Quiet; decide

example : ((Handoff.run exSys exSchedQuiet).p.ctls.map fun c => (c.observed 1, c.observed 2)) = [(1, 2), (1, 2), (1, 2)] ∧
    ((Handoff.run exSys exSchedQuiet).p.cur 1).ver = 1 ∧ ((Handoff.run exSys exSchedQuiet).p.cur 2).ver = 2 := by decide

/-- the routing rule of seeded change (a): `pending := len(m)` before processEvents, `if len(m) == pending
    { send empty }` — park the map when the batch added no NEW key -/
def parkUnchangedRules : Rules := { goodRules with parkAfterBatch := fun before after => after == before }

/-- the lookup of seeded change (b): `append(byKind, byID...)` aliases the spare capacity of the by-kind table;
    the next AddControllerInput on that (namespace,type) overwrites the slot behind the by-kind dependents
    (here: the last entry of the looked-up list) with the newcomer -/
def aliasedLookupRules : Rules := { goodRules with lookupAfterRegister := fun l n => l.dropLast ++ [n] }

theorem parkUnchanged_not_sound : ¬ Sound parkUnchangedRules := by
  intro h
  have := (h.park_iff 1 1).1 rfl
  cases this

theorem aliasedLookup_not_sound : ¬ Sound aliasedLookupRules := by
  intro h
  have := h.lookup_id [0] 1
  revert this; decide

/-- the schedule of `exSched` (without the registration) under the rule of change (a), then the parked delivery
    of key 1 completes and controller 0 reconciles -/
def lostA : HSys :=
  runWith parkUnchangedRules exSys
    [.write 1 false, .fetch 1, .dedup, .takeKey 1, .write 2 false, .fetch 1, .dedup, .write 2 false, .fetch 1, .dedup,
     .trigger, .take 0, .read 0]

/-- **with the rule "park when the batch added no new key" the model loses a wake-up** (kernel-checked): the second
    change of key 2 arrives while key 2 is already pending and the delivery goroutine is parked; the map
    {2 ↦ version 2} goes to `empty`; the state is `Stuck` (by `parked_nonempty_is_stuck` nothing but another write
    gets it out); controller 1, which demands key 2, has no wake-up pending and has observed version 0 -/
theorem lost_wakeup_when_parking_unchanged_map :
    lostA.loc = .empty ∧ lostA.p.dedup = [(2, ⟨2, false⟩)] ∧ lostA.inflight = none ∧
    lostA.p.watchCh = [] ∧ lostA.p.logSuffix = [] ∧
    (lostA.p.ctls.map fun c => (c.needs 2, c.trigger, c.reading, c.observed 2)) =
      [(.none, false, false, 2), (.always, false, false, 0)] ∧
    (lostA.p.cur 2).ver = 2 := by decide

theorem lostA_stuck : Stuck lostA := by unfold Stuck; decide

/-- the same schedule under the rules of the current source: the map goes to `ch` and key 2 is delivered -/
theorem repeat_delivered_under_current_rules : (Handoff.run exSys [.write 1 false, .fetch 1, .dedup, .takeKey 1, .write 2 false, .fetch 1, .dedup,
    .write 2 false, .fetch 1, .dedup, .trigger, .takeKey 2, .trigger]).p.ctls.map (·.trigger) = [true, true] := by decide

/-- three controllers with a by-kind input and one with a by-ID input (key 1) on the same (namespace,type), idle -/
def fanSys : HSys :=
  { p := { cur := fun _ => ⟨0, false⟩, ctls := [ctlOf byKind false, ctlOf byKind false, ctlOf byKind false, ctlOf (byId 1) false] } }

theorem fanSys_inv : HInv fanSys := by
  apply idle_inv
  · intro c hc
    simp only [List.mem_cons, List.mem_nil_iff, or_false] at hc
    rcases hc with rfl | rfl | rfl | rfl <;> exact ctlOf_ok _ _
  · intro c hc k
    simp only [List.mem_cons, List.mem_nil_iff, or_false] at hc
    rcases hc with rfl | rfl | rfl | rfl <;> rfl

/-- key 1 changes; the delivery goroutine looks up [0,1,2,3] and is parked; a fifth controller with a by-kind input
    is registered; the delivery completes; everybody who was woken reconciles -/
def fanSched : List HStep :=
  [.write 1 false, .fetch 1, .dedup, .takeKey 1, .register exKm byKind, .trigger,
   .take 0, .read 0, .take 1, .read 1, .take 2, .read 2, .take 3, .read 3, .take 4, .read 4]

def lostB : HSys := runWith aliasedLookupRules fanSys fanSched

/-- **with a lookup list that aliases the dependency tables the model loses a wake-up** (kernel-checked): the
    system is quiet, controller 3 demands key 1, has no wake-up pending and has observed version 0 of a key
    whose current version is 1 -/
theorem lost_wakeup_when_lookup_aliased :
    flight lostB.p = [] ∧ lostB.inflight = none ∧
    (lostB.p.ctls.map fun c => (c.needs 1, c.trigger, c.reading, c.observed 1)) =
      [(.always, false, false, 1), (.always, false, false, 1), (.always, false, false, 1),
       (.always, false, false, 0), (.always, false, false, 1)] ∧
    (lostB.p.cur 1).ver = 1 := by decide

/-- the same schedule under the rules of the current source: quiet and everybody is current -/
theorem fan_current_under_current_rules : Quiet (Handoff.run fanSys fanSched) ∧
    ((Handoff.run fanSys fanSched).p.ctls.map fun c => c.observed 1) = [1, 1, 1, 1, 1] := by
  unfold Quiet; decide

example : HInv (Handoff.run fanSys fanSched) := run_inv fanSched fanSys fanSys_inv

end Cosi.C05H
