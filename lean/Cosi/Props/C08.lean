/-
  Property C08 — controllers are confined to declared inputs/outputs and resources
  they own.

  `policy_eq_spec` is the tie: the guard/owner tables REGENERATED from adapter.go and
  owned/state.go (Cosi.Gen.Access), assembled by Cosi.Model.Access, are exactly the
  policy written from the property statement (Cosi.Spec.Access), and the store below is
  the C01 store. Every other theorem is about the model of the code (`Access.exec`,
  `Access.allowed`) and quantifies over ALL declarations, calls, targets, owners, stores.
-/
import Cosi.Model.Access
import Cosi.Spec.Access
import Cosi.Props.C01

namespace Cosi.C08

open Cosi Cosi.Access

/-! ### the tie: model over regenerated tables = specification -/

theorem isOutput_eq_spec (d : Decl) (typ : String) : isOutput d typ = Spec.Access.isOutputType d typ := by
  simp [isOutput, Spec.Access.isOutputType, Gen.Access.outputByTypeOnly]

theorem sbeq_comm (a b : String) : (a == b) = (b == a) := BEq.comm

theorem kindOk_fin (k : Nat) :
    kindOk Gen.Access.finalizerKindSel k = Spec.Access.finalizerCapable k := by
  simp only [kindOk, Gen.Access.finalizerKindSel, Spec.Access.finalizerCapable]
  by_cases h1 : k = 1
  · subst h1; rfl
  · by_cases h3 : k = 3
    · subst h3; rfl
    · by_cases h4 : k = 4
      · subst h4; rfl
      · simp [h1, h3, h4]

theorem readLets_eq_covers (i : AInput) (t : Target) :
    inputLets Gen.Access.readKindSel Gen.Access.readNoId Gen.Access.readIdVsId Gen.Access.readIdVsKind i t
      = Spec.Access.covers i t := by
  simp only [inputLets, Spec.Access.covers, Gen.Access.readKindSel, Gen.Access.readNoId,
    Gen.Access.readIdVsId, Gen.Access.readIdVsKind, kindOk, idRule]
  cases i.id <;> cases t.id <;> simp [sbeq_comm]

theorem finLets_eq_covers (i : AInput) (t : Target) :
    inputLets Gen.Access.finalizerKindSel Gen.Access.finNoId Gen.Access.finIdVsId .skip i t
      = (Spec.Access.finalizerCapable i.kind && Spec.Access.covers i t) := by
  simp only [inputLets, Spec.Access.covers, kindOk_fin, Gen.Access.finNoId, Gen.Access.finIdVsId, idRule]
  cases Spec.Access.finalizerCapable i.kind <;> cases (i.ns == t.ns) <;> cases (i.typ == t.typ) <;>
    cases i.id <;> cases t.id <;> simp [sbeq_comm]

theorem readOk_eq_spec (d : Decl) (t : Target) : readOk d t = Spec.Access.readable d t := by
  simp only [readOk, Spec.Access.readable, isOutput_eq_spec, Gen.Access.readAllowsOutputs, Bool.true_and]
  congr 1
  exact congrArg _ (funext fun i => readLets_eq_covers i t)

theorem finOk_eq_spec (d : Decl) (t : Target) : finOk d t = Spec.Access.finalizable d t := by
  simp only [finOk, Spec.Access.finalizable]
  exact congrArg _ (funext fun i => finLets_eq_covers i t)

/-- **Obligation C08.tie (guards).** For every declaration set, method and target the
    guard assembled from the regenerated tables decides exactly what the property allows.
    Adding a kind to `finalizerKindSel`, dropping a guard (`.noGuard`), moving it behind
    the delegate (`guardFirst = false`) or any `.unknown` breaks this proof. -/
theorem allowed_eq_spec (d : Decl) (op : AdapterOp) (t : Target) :
    allowed d op t = Spec.Access.allowed d op t := by
  cases op <;>
    simp [allowed, Spec.Access.allowed, AdapterOp.toGen, Gen.Access.guardFirst, Gen.Access.guardOf,
      guardAllows, readOk_eq_spec, finOk_eq_spec, isOutput_eq_spec]

/-- **Obligation C08.tie (owner injection).** The owner handed to the store is the
    controller's name, except `""` under the explicit no-owner option of Create/Modify
    and the explicitly named owner of a Teardown/Destroy. -/
theorem effOwner_eq_spec (name : String) (op : AdapterOp) (a : OwnerArg) :
    effOwner name op a = Spec.Access.effOwner name op a := by
  cases op <;> cases a <;> rfl

/-- **Obligation C08.tie.** -/
theorem policy_eq_spec : modelPolicy = Spec.Access.specPolicy := by
  simp only [modelPolicy, Spec.Access.specPolicy]
  congr
  · funext d op t; exact allowed_eq_spec d op t
  · funext n op a; exact effOwner_eq_spec n op a
  · funext cfg s now op; exact C01.step_eq_spec cfg s now op

theorem exec_eq_spec (cfg : Cfg) (s : Store) (now : Nat) (d : Decl) (c : Call) :
    exec cfg s now d c = Spec.Access.exec cfg s now d c := by
  simp only [exec, Spec.Access.exec, policy_eq_spec]

theorem run_eq_spec (cfg : Cfg) (d : Decl) (s : Store) (t0 : Nat) (cs : List Call) :
    Access.run cfg d s t0 cs = Spec.Access.run cfg d s t0 cs := by
  simp only [Access.run, Spec.Access.run, policy_eq_spec]

/-! ### confinement: what the guards let through -/

theorem covers_iff (i : AInput) (t : Target) :
    Spec.Access.covers i t = true ↔ i.ns = t.ns ∧ i.typ = t.typ ∧ (i.id = none ∨ i.id = t.id) := by
  simp only [Spec.Access.covers]
  cases hi : i.id <;> cases ht : t.id <;> simp
  rename_i x y
  constructor
  · intro h; exact ⟨h.1.1, h.1.2, h.2.symm⟩
  · intro h; exact ⟨⟨h.1, h.2.1⟩, h.2.2.symm⟩

theorem isOutputType_iff (d : Decl) (typ : String) :
    Spec.Access.isOutputType d typ = true ↔ ∃ o ∈ d.outputs, o.typ = typ := by
  simp [Spec.Access.isOutputType]

theorem read_confined (d : Decl) (op : AdapterOp) (t : Target)
    (hop : op.isRead1 = true ∨ op.isList = true) :
    allowed d op t = true ↔
      (∃ o ∈ d.outputs, o.typ = t.typ) ∨
      (∃ i ∈ d.inputs, i.ns = t.ns ∧ i.typ = t.typ ∧
        (i.id = none ∨ (op.isList = false ∧ i.id = t.id))) := by
  rw [allowed_eq_spec]
  cases op <;> simp [AdapterOp.isRead1, AdapterOp.isList] at hop <;>
    simp [Spec.Access.allowed, Spec.Access.readable, isOutputType_iff, covers_iff, AdapterOp.isList]

theorem write_confined (d : Decl) (op : AdapterOp) (t : Target) (hop : op.isWrite = true) :
    allowed d op t = true ↔ ∃ o ∈ d.outputs, o.typ = t.typ := by
  rw [allowed_eq_spec]
  cases op <;> simp [AdapterOp.isWrite] at hop <;> simp [Spec.Access.allowed, isOutputType_iff]

theorem finalizer_confined (d : Decl) (op : AdapterOp) (t : Target) (hop : op.isFinalizer = true) :
    allowed d op t = true ↔
      ∃ i ∈ d.inputs, (i.kind = 1 ∨ i.kind = 3 ∨ i.kind = 4) ∧ i.ns = t.ns ∧ i.typ = t.typ ∧
        (i.id = none ∨ i.id = t.id) := by
  rw [allowed_eq_spec]
  cases op <;> simp [AdapterOp.isFinalizer] at hop <;>
    simp [Spec.Access.allowed, Spec.Access.finalizable, covers_iff, Spec.Access.finalizerCapable, or_assoc]

/-! ### the store below the adapter -/

theorem readRes_model (cfg : Cfg) (s : Store) (now : Nat) (ns typ id : String) :
    readRes modelPolicy cfg s now ns typ id =
      match s.get (cfg.key ns typ id) with
      | some r => .ok r
      | none => .error (mkErr .notFound ns typ) := by
  simp only [readRes, modelPolicy, step]
  cases s.get (cfg.key ns typ id) <;> rfl

/-- a failed core write leaves the store untouched (C01.failed_untouched), a successful
    one returns what `okRet` makes of the written resource -/
theorem write_cases (cfg : Cfg) (s : Store) (now : Nat) (op : Op) (tr : List String) (okRet : Res → ARet)
    (dflt : Res) :
    (∃ e, (step cfg s now op).2 = .err e ∧
        write modelPolicy cfg s now op tr okRet dflt = (s, .err (errClass e), tr)) ∨
    ((step cfg s now op).2.isErr = false ∧
        write modelPolicy cfg s now op tr okRet dflt
          = ((step cfg s now op).1, okRet (Out.resOr dflt (step cfg s now op).2), tr)) := by
  simp only [write, modelPolicy]
  cases h : (step cfg s now op).2 with
  | err e =>
    left
    refine ⟨e, rfl, ?_⟩
    have hu := C01.failed_untouched cfg s now op (by rw [h]; rfl)
    simp [Out.err?, hu]
  | ok => right; simp [Out.err?, Cosi.Out.isErr]
  | wrote r => right; simp [Out.err?, Cosi.Out.isErr]
  | res r => right; simp [Out.err?, Cosi.Out.isErr]
  | items l => right; simp [Out.err?, Cosi.Out.isErr]

theorem write_err_untouched (cfg : Cfg) (s : Store) (now : Nat) (op : Op) (tr : List String)
    (okRet : Res → ARet) (dflt : Res) (hok : ∀ r, (okRet r).isErr = false)
    (h : (write modelPolicy cfg s now op tr okRet dflt).2.1.isErr = true) :
    (write modelPolicy cfg s now op tr okRet dflt).1 = s := by
  rcases write_cases cfg s now op tr okRet dflt with ⟨e, _, hw⟩ | ⟨_, hw⟩
  · rw [hw]
  · rw [hw] at h; simp [hok] at h

theorem uwc_err_untouched (cfg : Cfg) (s : Store) (now : Nat) (ns typ id : String) (m : Mut)
    (owner : Option String) (exp : Option Phase) (okRet : Res → ARet) (pre : List String)
    (hok : ∀ r, (okRet r).isErr = false)
    (h : (uwc modelPolicy cfg s now ns typ id m owner exp okRet pre).2.1.isErr = true) :
    (uwc modelPolicy cfg s now ns typ id m owner exp okRet pre).1 = s := by
  unfold uwc at h ⊢
  rw [readRes_model] at h ⊢
  cases hg : s.get (cfg.key ns typ id) with
  | none => rfl
  | some cur =>
    simp only [hg] at h ⊢
    split
    · rfl
    · rename_i hph
      simp only [hph, if_false] at h
      cases hm : m.apply cur with
      | none => rfl
      | some new =>
        simp only [hm] at h ⊢
        split
        · rfl
        · rename_i heq
          simp only [heq] at h
          exact write_err_untouched cfg s now _ _ okRet new hok h

theorem below_err_untouched (cfg : Cfg) (s : Store) (now : Nat) (name : String) (c : Call)
    (h : (below modelPolicy cfg s now name c).2.1.isErr = true) :
    (below modelPolicy cfg s now name c).1 = s := by
  obtain ⟨op, ns, typ, id, payload, mu, own, exp, fins⟩ := c
  cases op <;> simp only [below, readRes_model] at h ⊢
  case get => split <;> rfl
  case getUncached => split <;> rfl
  case list => split <;> rfl
  case listUncached => split <;> rfl
  case ctxTeardown => split <;> rfl
  case create => exact write_err_untouched _ _ _ _ _ _ _ (fun _ => rfl) h
  case update => exact write_err_untouched _ _ _ _ _ _ _ (fun _ => rfl) h
  case destroy => exact write_err_untouched _ _ _ _ _ _ _ (fun _ => rfl) h
  case modify =>
    cases hg : s.get (cfg.key ns typ id) with
    | none =>
      simp only [hg] at h ⊢
      split
      · split
        · rfl
        · exact write_err_untouched _ _ _ _ _ _ _ (fun _ => by simp [ARet.isErr]) (by simpa [*] using h)
      · rfl
    | some cur =>
      simp only [hg] at h ⊢
      exact uwc_err_untouched _ _ _ _ _ _ _ _ _ _ _ (fun _ => by simp [ARet.isErr]) h
  case modifyWithResult =>
    cases hg : s.get (cfg.key ns typ id) with
    | none =>
      simp only [hg] at h ⊢
      split
      · split
        · rfl
        · exact write_err_untouched _ _ _ _ _ _ _ (fun _ => by simp [ARet.isErr]) (by simpa [*] using h)
      · rfl
    | some cur =>
      simp only [hg] at h ⊢
      exact uwc_err_untouched _ _ _ _ _ _ _ _ _ _ _ (fun _ => by simp [ARet.isErr]) h
  case teardown =>
    cases hg : s.get (cfg.key ns typ id) with
    | none => rfl
    | some cur =>
      simp only [hg] at h ⊢
      split
      · rename_i hp
        rw [if_pos hp] at h
        exact uwc_err_untouched _ _ _ _ _ _ _ _ _ _ _ (fun _ => rfl) h
      · rfl
  case addFinalizer =>
    cases hg : s.get (cfg.key ns typ id) with
    | none => rfl
    | some cur =>
      simp only [hg] at h ⊢
      exact uwc_err_untouched _ _ _ _ _ _ _ _ _ _ _ (fun _ => rfl) h
  case removeFinalizer =>
    cases hg : s.get (cfg.key ns typ id) with
    | none => rfl
    | some cur =>
      simp only [hg] at h ⊢
      exact uwc_err_untouched _ _ _ _ _ _ _ _ _ _ _ (fun _ => rfl) h

/-- **denied ⇒ untouched.** Whatever makes a call fail — the adapter's guard, an owner,
    phase or version conflict, a missing resource, pending finalizers, a failing update
    function — the state after the call is the state before it. For ALL declarations,
    calls (method, target, options, payload), stores and times. Rests on
    `C01.failed_untouched`. -/
theorem denied_untouched (cfg : Cfg) (s : Store) (now : Nat) (d : Decl) (c : Call)
    (h : (exec cfg s now d c).2.1.isErr = true) : (exec cfg s now d c).1 = s := by
  unfold exec execCore at h ⊢
  split
  · rename_i ha
    simp only [ha, if_true] at h
    exact below_err_untouched cfg s now d.name c h
  · rfl

/-- a call the guard rejects does not reach the state at all -/
theorem denied_no_calls (cfg : Cfg) (s : Store) (now : Nat) (d : Decl) (c : Call)
    (h : allowed d c.op c.target = false) : exec cfg s now d c = (s, .denied, []) := by
  simp [exec, execCore, modelPolicy, h]

/-! ### the single core write of a call -/

/-- the owner a creation is stamped with -/
def stamp (name : String) (a : OwnerArg) : String := if a = .noOwner then "" else name

/-- the Update that `UpdateWithConflicts` ends in, if it gets that far -/
def uwcWrite (cur : Res) (m : Mut) (owner : Option String) (exp : Option Phase) : Option Op :=
  if exp.isSome ∧ exp ≠ some cur.phase then none
  else match m.apply cur with
    | none => none
    | some new => if resEqual cur new then none else some (.update new (owner.getD cur.owner) exp)

/-- ghost: the one mutating core-store operation a call attempts below the guard -/
def theWrite (cfg : Cfg) (s : Store) (now : Nat) (name : String) (c : Call) : Option Op :=
  let owner := effOwner name c.op c.own
  let cur? := s.get (cfg.key c.ns c.typ c.id)
  let stored := (cur?.map (·.owner)).getD ""
  match c.op with
  | .create => some (.create c.obj (owner.getD ""))
  | .update => some (.update c.obj (owner.getD stored) (some .running))
  | .destroy => some (.destroy c.ns c.typ c.id (owner.getD stored))
  | .modify | .modifyWithResult =>
    match cur? with
    | none => (c.mu.apply (emptyRes c.ns c.typ c.id now)).map fun r => .create r (owner.getD "")
    | some cur => uwcWrite cur c.mu owner c.exp.toExp
  | .teardown =>
    match cur? with
    | none => none
    | some cur =>
      if cur.phase ≠ .tearingDown then uwcWrite cur .setPhaseTD (some (owner.getD cur.owner)) (some .running)
      else none
  | .addFinalizer =>
    match cur? with
    | none => none
    | some cur => uwcWrite cur (.addFins c.fins) none none
  | .removeFinalizer =>
    match cur? with
    | none => none
    | some cur => uwcWrite cur (.removeFins c.fins) none none
  | _ => none

def after (cfg : Cfg) (s : Store) (now : Nat) : Option Op → Store
  | none => s
  | some op => (step cfg s now op).1

theorem write_store (cfg : Cfg) (s : Store) (now : Nat) (op : Op) (tr : List String) (okRet : Res → ARet)
    (dflt : Res) : (write modelPolicy cfg s now op tr okRet dflt).1 = (step cfg s now op).1 := by
  simp only [write, modelPolicy]
  split <;> rfl

theorem uwc_store (cfg : Cfg) (s : Store) (now : Nat) (ns typ id : String) (m : Mut)
    (owner : Option String) (exp : Option Phase) (okRet : Res → ARet) (pre : List String) (cur : Res)
    (hg : s.get (cfg.key ns typ id) = some cur) :
    (uwc modelPolicy cfg s now ns typ id m owner exp okRet pre).1
      = after cfg s now (uwcWrite cur m owner exp) := by
  unfold uwc uwcWrite
  rw [readRes_model]
  simp only [hg]
  split
  · rfl
  · cases hm : m.apply cur with
    | none => rfl
    | some new =>
      simp only
      split
      · rfl
      · exact write_store ..

/-- the state after a call that passed the guard is the state after its one core write -/
theorem below_store (cfg : Cfg) (s : Store) (now : Nat) (name : String) (c : Call) :
    (below modelPolicy cfg s now name c).1 = after cfg s now (theWrite cfg s now name c) := by
  obtain ⟨op, ns, typ, id, payload, mu, own, exp, fins⟩ := c
  cases op <;> simp only [below, theWrite, readRes_model]
  case get => split <;> rfl
  case getUncached => split <;> rfl
  case list => split <;> rfl
  case listUncached => split <;> rfl
  case ctxTeardown => split <;> rfl
  case create => exact write_store ..
  case update => exact write_store ..
  case destroy => exact write_store ..
  case modify =>
    cases hg : s.get (cfg.key ns typ id) with
    | none =>
      simp only [mkErr, ErrCtor.isNotFound, if_true]
      cases mu.apply (emptyRes ns typ id now) with
      | none => rfl
      | some r => exact write_store ..
    | some cur => exact uwc_store _ _ _ _ _ _ _ _ _ _ _ cur hg
  case modifyWithResult =>
    cases hg : s.get (cfg.key ns typ id) with
    | none =>
      simp only [mkErr, ErrCtor.isNotFound, if_true]
      cases mu.apply (emptyRes ns typ id now) with
      | none => rfl
      | some r => exact write_store ..
    | some cur => exact uwc_store _ _ _ _ _ _ _ _ _ _ _ cur hg
  case teardown =>
    cases hg : s.get (cfg.key ns typ id) with
    | none => rfl
    | some cur =>
      simp only
      split
      · exact uwc_store _ _ _ _ _ _ _ _ _ _ _ cur hg
      · rfl
  case addFinalizer =>
    cases hg : s.get (cfg.key ns typ id) with
    | none => rfl
    | some cur => exact uwc_store _ _ _ _ _ _ _ _ _ _ _ cur hg
  case removeFinalizer =>
    cases hg : s.get (cfg.key ns typ id) with
    | none => rfl
    | some cur => exact uwc_store _ _ _ _ _ _ _ _ _ _ _ cur hg

theorem exec_store (cfg : Cfg) (s : Store) (now : Nat) (d : Decl) (c : Call) :
    (exec cfg s now d c).1 =
      if allowed d c.op c.target then after cfg s now (theWrite cfg s now d.name c) else s := by
  unfold exec execCore
  split
  · rename_i h
    have h' : allowed d c.op c.target = true := h
    rw [if_pos h']; exact below_store ..
  · rename_i h
    have h' : ¬ allowed d c.op c.target = true := h
    rw [if_neg h']

/-! ### well-formed stores, frame -/

/-- every stored resource sits under its own key (true of the empty store, kept by every operation) -/
def WF (cfg : Cfg) (s : Store) : Prop := ∀ k r, s.get k = some r → r.key cfg = k

theorem wf_nil (cfg : Cfg) : WF cfg [] := by intro k r h; simp at h

theorem wf_put (cfg : Cfg) (s : Store) (r : Res) (h : WF cfg s) : WF cfg (s.put (r.key cfg) r) := by
  intro k r' hg
  by_cases hk : k = r.key cfg
  · subst hk; rw [C01.get_put_self] at hg; injection hg with hg; subst hg; rfl
  · rw [C01.get_put_other _ _ _ _ hk] at hg; exact h k r' hg

theorem wf_del (cfg : Cfg) (s : Store) (k0 : Key) (h : WF cfg s) : WF cfg (s.del k0) := by
  intro k r' hg
  by_cases hk : k = k0
  · subst hk; rw [C01.get_del_self] at hg; exact absurd hg (by simp)
  · rw [C01.get_del_other _ _ _ hk] at hg; exact h k r' hg

theorem wf_step (cfg : Cfg) (s : Store) (now : Nat) (op : Op) (h : WF cfg s) :
    WF cfg (step cfg s now op).1 := by
  rw [C01.step_eq_spec]
  cases op with
  | create r o =>
    simp only [Spec.step]; split
    · exact h
    · split
      · exact h
      · exact wf_put cfg s { r with owner := o, ver := some 1, created := now } h
  | update r o e =>
    simp only [Spec.step]; split
    · exact h
    · split
      · exact h
      · split
        · exact h
        · split
          · exact h
          · rename_i cur _ _ _ _
            exact wf_put cfg s { r with ver := some (r.ver.getD 0 + 1), updated := now, created := cur.created } h
  | destroy ns typ id o =>
    simp only [Spec.step]; split
    · exact h
    · split
      · exact h
      · split
        · exact h
        · exact wf_del cfg s _ h
  | get ns typ id => simp only [Spec.step]; split <;> exact h
  | list ns typ sel => exact h

theorem wf_after (cfg : Cfg) (s : Store) (now : Nat) (o : Option Op) (h : WF cfg s) :
    WF cfg (after cfg s now o) := by
  cases o with
  | none => exact h
  | some op => exact wf_step cfg s now op h

theorem wf_exec (cfg : Cfg) (s : Store) (now : Nat) (d : Decl) (c : Call) (h : WF cfg s) :
    WF cfg (exec cfg s now d c).1 := by
  rw [exec_store]; split
  · exact wf_after _ _ _ _ h
  · exact h

theorem mut_key (m : Mut) (r r' : Res) (h : m.apply r = some r') :
    r'.ns = r.ns ∧ r'.typ = r.typ ∧ r'.id = r.id := by
  cases m <;> simp [Mut.apply] at h <;> subst h <;> exact ⟨rfl, rfl, rfl⟩

theorem mut_key_eq (cfg : Cfg) (m : Mut) (r r' : Res) (h : m.apply r = some r') : r'.key cfg = r.key cfg := by
  obtain ⟨a, b, c⟩ := mut_key m r r' h
  simp [Res.key, a, b, c]

/-- the key a mutating core operation acts on -/
def opKey (cfg : Cfg) : Op → Option Key
  | .create r _ => some (r.key cfg)
  | .update r _ _ => some (r.key cfg)
  | .destroy ns typ id _ => some (cfg.key ns typ id)
  | _ => none

theorem uwcWrite_key (cfg : Cfg) (cur : Res) (m : Mut) (owner : Option String) (exp : Option Phase) (op : Op)
    (h : uwcWrite cur m owner exp = some op) : opKey cfg op = some (cur.key cfg) := by
  unfold uwcWrite at h
  split at h
  · exact absurd h (by simp)
  · cases hm : m.apply cur with
    | none => simp [hm] at h
    | some new =>
      simp only [hm] at h
      split at h
      · exact absurd h (by simp)
      · injection h with h; subst h
        simp [opKey, mut_key_eq cfg m cur new hm]

/-- every call writes, if at all, under its own target key -/
theorem theWrite_key (cfg : Cfg) (s : Store) (now : Nat) (name : String) (c : Call) (hwf : WF cfg s) (op : Op)
    (h : theWrite cfg s now name c = some op) : opKey cfg op = some (cfg.key c.ns c.typ c.id) := by
  obtain ⟨o, ns, typ, id, payload, mu, own, exp, fins⟩ := c
  cases o <;> simp only [theWrite] at h
  case get => exact absurd h (by simp)
  case getUncached => exact absurd h (by simp)
  case list => exact absurd h (by simp)
  case listUncached => exact absurd h (by simp)
  case ctxTeardown => exact absurd h (by simp)
  case create => injection h with h; subst h; rfl
  case update => injection h with h; subst h; rfl
  case destroy => injection h with h; subst h; rfl
  case modify =>
    cases hg : s.get (cfg.key ns typ id) with
    | none =>
      simp only [hg] at h
      cases hm : mu.apply (emptyRes ns typ id now) with
      | none => simp [hm] at h
      | some r =>
        simp only [hm, Option.map_some] at h
        injection h with h; subst h
        have hk := mut_key_eq cfg mu _ r hm
        simp only [opKey, hk]; rfl
    | some cur =>
      simp only [hg] at h
      rw [uwcWrite_key cfg cur _ _ _ op h, hwf _ _ hg]
  case modifyWithResult =>
    cases hg : s.get (cfg.key ns typ id) with
    | none =>
      simp only [hg] at h
      cases hm : mu.apply (emptyRes ns typ id now) with
      | none => simp [hm] at h
      | some r =>
        simp only [hm, Option.map_some] at h
        injection h with h; subst h
        have hk := mut_key_eq cfg mu _ r hm
        simp only [opKey, hk]; rfl
    | some cur =>
      simp only [hg] at h
      rw [uwcWrite_key cfg cur _ _ _ op h, hwf _ _ hg]
  case teardown =>
    cases hg : s.get (cfg.key ns typ id) with
    | none => simp [hg] at h
    | some cur =>
      simp only [hg] at h
      split at h
      · rw [uwcWrite_key cfg cur _ _ _ op h, hwf _ _ hg]
      · exact absurd h (by simp)
  case addFinalizer =>
    cases hg : s.get (cfg.key ns typ id) with
    | none => simp [hg] at h
    | some cur =>
      simp only [hg] at h
      rw [uwcWrite_key cfg cur _ _ _ op h, hwf _ _ hg]
  case removeFinalizer =>
    cases hg : s.get (cfg.key ns typ id) with
    | none => simp [hg] at h
    | some cur =>
      simp only [hg] at h
      rw [uwcWrite_key cfg cur _ _ _ op h, hwf _ _ hg]

theorem step_other_keys (cfg : Cfg) (s : Store) (now : Nat) (op : Op) (k k0 : Key)
    (hk : opKey cfg op = some k0) (hne : k ≠ k0) : (step cfg s now op).1.get k = s.get k := by
  apply C01.other_keys_untouched
  cases op <;> simp [opKey] at hk ⊢ <;> (subst hk; exact hne)

/-- **Frame.** A call changes nothing outside its own (namespace,type,id). -/
theorem exec_other_keys (cfg : Cfg) (s : Store) (now : Nat) (d : Decl) (c : Call) (hwf : WF cfg s) (k : Key)
    (hne : k ≠ cfg.key c.ns c.typ c.id) : (exec cfg s now d c).1.get k = s.get k := by
  rw [exec_store]; split
  · cases hw : theWrite cfg s now d.name c with
    | none => rfl
    | some op => exact step_other_keys cfg s now op k _ (theWrite_key cfg s now d.name c hwf op hw) hne
  · rfl

theorem effOwner_creating (name : String) (op : AdapterOp) (a : OwnerArg)
    (hop : op = .create ∨ op = .modify ∨ op = .modifyWithResult) :
    effOwner name op a = some (stamp name a) := by
  rcases hop with h | h | h <;> subst h <;> cases a <;> rfl

/-- what a core Create leaves under a key that was free -/
theorem step_create_get (cfg : Cfg) (s : Store) (now : Nat) (r0 : Res) (o : String) (r : Res)
    (habs : s.get (r0.key cfg) = none)
    (hnew : (step cfg s now (.create r0 o)).1.get (r0.key cfg) = some r) :
    r.owner = o ∧ r.ver = some 1 ∧ r.created = now := by
  by_cases hok : (step cfg s now (.create r0 o)).2.isOk = true
  · rw [C01.create_ok_effect cfg s now r0 o hok] at hnew
    injection hnew with hnew
    subst hnew
    exact ⟨rfl, rfl, rfl⟩
  · have he : (step cfg s now (.create r0 o)).2.isErr = true := by
      simpa [Out.isOk] using hok
    rw [C01.failed_untouched cfg s now _ he, habs] at hnew
    exact absurd hnew (by simp)

theorem step_err_of_not_ok {cfg : Cfg} {s : Store} {now : Nat} {op : Op}
    (h : ¬ (step cfg s now op).2.isOk = true) : (step cfg s now op).1 = s :=
  C01.failed_untouched cfg s now op (by simpa [Out.isOk] using h)

/-- **Owner stamping.** Whenever a call makes a resource appear under a key that was
    free — by Create, or by Modify/ModifyWithResult of a missing resource — the stored
    owner is the controller's own name; only under the explicit no-owner option it is
    empty. No call can create a resource owned by anyone else (whatever owner the
    caller pre-set on the object). For ALL declarations, calls, stores. -/
theorem created_owner_stamped (cfg : Cfg) (s : Store) (now : Nat) (d : Decl) (c : Call) (hwf : WF cfg s)
    (k : Key) (r : Res) (habs : s.get k = none) (hnew : (exec cfg s now d c).1.get k = some r) :
    r.owner = stamp d.name c.own ∧ r.ver = some 1 ∧ r.created = now ∧ k = cfg.key c.ns c.typ c.id ∧
      (c.op = .create ∨ c.op = .modify ∨ c.op = .modifyWithResult) := by
  have hno : ∀ {P : Prop}, (none : Option Res) = some r → P := fun h => absurd h (by simp)
  by_cases hk : k ≠ cfg.key c.ns c.typ c.id
  · rw [exec_other_keys cfg s now d c hwf k hk, habs] at hnew; exact hno hnew
  have hk : k = cfg.key c.ns c.typ c.id := Decidable.of_not_not hk
  subst hk
  rw [exec_store] at hnew
  by_cases ha : allowed d c.op c.target = true
  case neg => rw [if_neg ha, habs] at hnew; exact hno hnew
  rw [if_pos ha] at hnew
  clear ha
  obtain ⟨op, ns, typ, id, payload, mu, own, exp, fins⟩ := c
  simp only at habs hnew ⊢
  cases op <;> simp only [theWrite, after, habs] at hnew
  case get => exact hno hnew
  case getUncached => exact hno hnew
  case list => exact hno hnew
  case listUncached => exact hno hnew
  case ctxTeardown => exact hno hnew
  case teardown => exact hno hnew
  case addFinalizer => exact hno hnew
  case removeFinalizer => exact hno hnew
  case create =>
    rw [effOwner_creating _ _ _ (Or.inl rfl)] at hnew
    have := step_create_get cfg s now (Call.obj ⟨.create, ns, typ, id, payload, mu, own, exp, fins⟩) _ r habs hnew
    exact ⟨this.1, this.2.1, this.2.2, trivial, Or.inl rfl⟩
  case update =>
    exfalso
    by_cases hok : (step cfg s now (.update (Call.obj ⟨.update, ns, typ, id, payload, mu, own, exp, fins⟩)
        ((effOwner d.name .update own).getD "") (some .running))).2.isOk = true
    · obtain ⟨cur, hg, _⟩ := (C01.update_ok_iff _ _ _ _ _ _).1 hok
      rw [show (Call.obj ⟨.update, ns, typ, id, payload, mu, own, exp, fins⟩).key cfg = cfg.key ns typ id from rfl,
        habs] at hg
      exact absurd hg (by simp)
    · simp only [Option.map_none, Option.getD_none] at hnew
      rw [step_err_of_not_ok hok, habs] at hnew; exact hno hnew
  case destroy =>
    exfalso
    by_cases hok : (step cfg s now (.destroy ns typ id ((effOwner d.name .destroy own).getD ""))).2.isOk = true
    · obtain ⟨cur, hg, _⟩ := (C01.destroy_ok_iff _ _ _ _ _ _ _).1 hok
      rw [habs] at hg; exact absurd hg (by simp)
    · simp only [Option.map_none, Option.getD_none] at hnew
      rw [step_err_of_not_ok hok, habs] at hnew; exact hno hnew
  case modify =>
    cases hm : mu.apply (emptyRes ns typ id now) with
    | none => simp only [hm, Option.map_none] at hnew; rw [habs] at hnew; exact hno hnew
    | some r0 =>
      simp only [hm, Option.map_some] at hnew
      rw [effOwner_creating _ _ _ (Or.inr (Or.inl rfl))] at hnew
      have hk0 : r0.key cfg = cfg.key ns typ id := mut_key_eq cfg mu _ r0 hm
      rw [← hk0] at hnew habs
      have := step_create_get cfg s now _ _ r habs hnew
      exact ⟨this.1, this.2.1, this.2.2, trivial, Or.inr (Or.inl rfl)⟩
  case modifyWithResult =>
    cases hm : mu.apply (emptyRes ns typ id now) with
    | none => simp only [hm, Option.map_none] at hnew; rw [habs] at hnew; exact hno hnew
    | some r0 =>
      simp only [hm, Option.map_some] at hnew
      rw [effOwner_creating _ _ _ (Or.inr (Or.inr rfl))] at hnew
      have hk0 : r0.key cfg = cfg.key ns typ id := mut_key_eq cfg mu _ r0 hm
      rw [← hk0] at hnew habs
      have := step_create_get cfg s now _ _ r habs hnew
      exact ⟨this.1, this.2.1, this.2.2, trivial, Or.inr (Or.inr rfl)⟩

/-! ### resources of other owners -/

theorem write_fails (cfg : Cfg) (s : Store) (now : Nat) (op : Op) (tr : List String) (okRet : Res → ARet)
    (dflt : Res) (hbad : ¬ (step cfg s now op).2.isOk = true) :
    (write modelPolicy cfg s now op tr okRet dflt).1 = s ∧
      (write modelPolicy cfg s now op tr okRet dflt).2.1.isErr = true := by
  rcases write_cases cfg s now op tr okRet dflt with ⟨e, _, hw⟩ | ⟨hne, _⟩
  · rw [hw]; exact ⟨rfl, rfl⟩
  · exact absurd (by simp [Out.isOk, hne]) hbad

/-- a core Update as owner `o` of a resource stored under another owner is refused -/
theorem update_foreign_bad (cfg : Cfg) (s : Store) (now : Nat) (r cur : Res) (o : String) (exp : Option Phase)
    (hg : s.get (r.key cfg) = some cur) (hne : cur.owner ≠ o) :
    ¬ (step cfg s now (.update r o exp)).2.isOk = true := by
  intro hok
  obtain ⟨cur', hg', ho, _⟩ := (C01.update_ok_iff cfg s now r o exp).1 hok
  rw [hg] at hg'; injection hg' with hg'; subst hg'; exact hne ho

theorem destroy_foreign_bad (cfg : Cfg) (s : Store) (now : Nat) (ns typ id : String) (cur : Res) (o : String)
    (hg : s.get (cfg.key ns typ id) = some cur) (hne : cur.owner ≠ o) :
    ¬ (step cfg s now (.destroy ns typ id o)).2.isOk = true := by
  intro hok
  obtain ⟨cur', hg', ho, _⟩ := (C01.destroy_ok_iff cfg s now ns typ id o).1 hok
  rw [hg] at hg'; injection hg' with hg'; subst hg'; exact hne ho

theorem create_existing_bad (cfg : Cfg) (s : Store) (now : Nat) (r cur : Res) (o : String)
    (hg : s.get (r.key cfg) = some cur) : ¬ (step cfg s now (.create r o)).2.isOk = true := by
  intro hok
  have := ((C01.create_ok_iff cfg s now r o).1 hok).1
  rw [hg] at this; exact absurd this (by simp)

theorem uwc_foreign (cfg : Cfg) (s : Store) (now : Nat) (ns typ id : String) (m : Mut) (o : String)
    (exp : Option Phase) (okRet : Res → ARet) (pre : List String) (cur : Res) (hwf : WF cfg s)
    (hg : s.get (cfg.key ns typ id) = some cur) (hne : cur.owner ≠ o) :
    (uwc modelPolicy cfg s now ns typ id m (some o) exp okRet pre).1 = s ∧
      ((uwc modelPolicy cfg s now ns typ id m (some o) exp okRet pre).2.1.isErr = true ∨
        ∃ new, m.apply cur = some new ∧ resEqual cur new = true) := by
  unfold uwc
  rw [readRes_model]
  simp only [hg]
  split
  · exact ⟨rfl, Or.inl rfl⟩
  · cases hm : m.apply cur with
    | none => exact ⟨rfl, Or.inl rfl⟩
    | some new =>
      simp only
      split
      · rename_i heq; exact ⟨rfl, Or.inr ⟨new, rfl, heq⟩⟩
      · have hk : new.key cfg = cfg.key ns typ id := by rw [mut_key_eq cfg m cur new hm, hwf _ _ hg]
        have hbad := update_foreign_bad cfg s now new cur o exp (by rw [hk]; exact hg) hne
        have := write_fails cfg s now (.update new o exp) (pre ++ ["get", "update"]) okRet new hbad
        exact ⟨this.1, Or.inl this.2⟩

/-- the call would not write anything even if it were allowed to -/
def isNoopOn (c : Call) (cur : Res) : Bool :=
  match c.op with
  | .teardown => cur.phase == .tearingDown
  | .modify | .modifyWithResult =>
    match c.mu.apply cur with
    | some new => resEqual cur new
    | none => false
  | _ => false

theorem effOwner_write_some (name : String) (op : AdapterOp) (a : OwnerArg) (h : op.isWrite = true) :
    ∃ o, effOwner name op a = some o := by
  cases op <;> simp [AdapterOp.isWrite] at h <;> cases a <;> exact ⟨_, rfl⟩

theorem below_foreign (cfg : Cfg) (s : Store) (now : Nat) (name : String) (c : Call) (cur : Res) (o : String)
    (hwf : WF cfg s) (hw : c.op.isWrite = true) (hg : s.get (cfg.key c.ns c.typ c.id) = some cur)
    (ho : effOwner name c.op c.own = some o) (hne : cur.owner ≠ o) :
    (below modelPolicy cfg s now name c).1 = s ∧
      ((below modelPolicy cfg s now name c).2.1.isErr = true ∨ isNoopOn c cur = true) := by
  obtain ⟨op, ns, typ, id, payload, mu, own, exp, fins⟩ := c
  simp only at hg ho
  have hpo : modelPolicy.owner name op own = some o := ho
  cases op <;> simp [AdapterOp.isWrite] at hw <;>
    simp only [below, readRes_model, hg, hpo, Option.getD_some, isNoopOn]
  case create =>
    have := write_fails cfg s now (.create (Call.obj ⟨.create, ns, typ, id, payload, mu, own, exp, fins⟩) o)
      ["create"] (fun _ => .ok) (Call.obj ⟨.create, ns, typ, id, payload, mu, own, exp, fins⟩)
      (create_existing_bad cfg s now _ cur o hg)
    exact ⟨this.1, Or.inl this.2⟩
  case update =>
    have := write_fails cfg s now (.update (Call.obj ⟨.update, ns, typ, id, payload, mu, own, exp, fins⟩) o
      (some .running)) ["update"] (fun _ => .ok) (Call.obj ⟨.update, ns, typ, id, payload, mu, own, exp, fins⟩)
      (update_foreign_bad cfg s now _ cur o _ hg hne)
    exact ⟨this.1, Or.inl this.2⟩
  case destroy =>
    have := write_fails cfg s now (.destroy ns typ id o) ["destroy"] (fun _ => .ok)
      (Call.obj ⟨.destroy, ns, typ, id, payload, mu, own, exp, fins⟩)
      (destroy_foreign_bad cfg s now ns typ id cur o hg hne)
    exact ⟨this.1, Or.inl this.2⟩
  case modify =>
    have := uwc_foreign cfg s now ns typ id mu o exp.toExp (fun _ => ARet.ok) ["get"] cur hwf hg hne
    refine ⟨this.1, this.2.imp (fun h => h) ?_⟩
    rintro ⟨new, hm, heq⟩; simp [hm, heq]
  case modifyWithResult =>
    have := uwc_foreign cfg s now ns typ id mu o exp.toExp (fun r => ARet.okRes r) ["get"] cur hwf hg hne
    refine ⟨this.1, this.2.imp (fun h => h) ?_⟩
    rintro ⟨new, hm, heq⟩; simp [hm, heq]
  case teardown =>
    split
    · rename_i hp
      have := uwc_foreign cfg s now ns typ id .setPhaseTD o (some .running) (fun r => .ready r.fins.isEmpty) ["get"]
        cur hwf hg hne
      refine ⟨this.1, Or.inl ?_⟩
      rcases this.2 with h | ⟨new, hm, heq⟩
      · exact h
      · exfalso
        simp only [Mut.apply, Option.some.injEq] at hm
        subst hm
        cases hph : cur.phase <;> simp_all [resEqual]
    · rename_i hp
      refine ⟨rfl, Or.inr ?_⟩
      cases hph : cur.phase <;> simp_all

/-- **Foreign resources are untouchable.** A create/update/modify/teardown/destroy aimed
    at an existing resource whose stored owner differs from the owner the call acts as
    leaves the state exactly as it was, and the call fails — unless it would not have
    written anything anyway (Teardown of a resource already tearing down, Modify whose
    update function changes nothing). For ALL declarations, calls, well-formed stores. -/
theorem foreign_untouchable (cfg : Cfg) (s : Store) (now : Nat) (d : Decl) (c : Call) (cur : Res)
    (hwf : WF cfg s) (hw : c.op.isWrite = true) (hg : s.get (cfg.key c.ns c.typ c.id) = some cur)
    (hown : ∀ o, effOwner d.name c.op c.own = some o → cur.owner ≠ o) :
    (exec cfg s now d c).1 = s ∧ ((exec cfg s now d c).2.1.isErr = true ∨ isNoopOn c cur = true) := by
  obtain ⟨o, ho⟩ := effOwner_write_some d.name c.op c.own hw
  unfold exec execCore
  split
  · exact below_foreign cfg s now d.name c cur o hwf hw hg ho (hown o ho)
  · exact ⟨rfl, Or.inl rfl⟩

/-- … in the words of the property: the call acts as the controller's name; as nobody
    only under the explicit no-owner option of Create/Modify; as another owner only when
    a Teardown/Destroy names it explicitly. So a resource owned by someone else can be
    modified or removed only by a Teardown/Destroy that names exactly its owner. -/
theorem foreign_needs_explicit_owner (cfg : Cfg) (s : Store) (now : Nat) (d : Decl) (c : Call) (cur : Res)
    (hwf : WF cfg s) (hw : c.op.isWrite = true) (hg : s.get (cfg.key c.ns c.typ c.id) = some cur)
    (hname : cur.owner ≠ d.name) (hnone : c.own = .noOwner → cur.owner ≠ "")
    (hexp : ∀ o, c.own = .explicit o → c.op = .teardown ∨ c.op = .destroy → cur.owner ≠ o) :
    (exec cfg s now d c).1 = s ∧ ((exec cfg s now d c).2.1.isErr = true ∨ isNoopOn c cur = true) := by
  apply foreign_untouchable cfg s now d c cur hwf hw hg
  intro o ho
  rw [effOwner_eq_spec] at ho
  obtain ⟨op, ns, typ, id, payload, mu, own, exp, fins⟩ := c
  simp only at ho hnone hexp hw
  cases op <;> simp [AdapterOp.isWrite] at hw <;> cases own <;>
    simp only [Spec.Access.effOwner, Option.some.injEq] at ho <;> subst ho <;>
    first
    | exact hname
    | exact hnone rfl
    | exact hexp _ rfl (Or.inl rfl)
    | exact hexp _ rfl (Or.inr rfl)

/-- reads never change the state -/
theorem exec_read_store (cfg : Cfg) (s : Store) (now : Nat) (d : Decl) (c : Call)
    (hw : c.op.isWrite = false) (hf : c.op.isFinalizer = false) : (exec cfg s now d c).1 = s := by
  rw [exec_store]
  split
  · obtain ⟨op, ns, typ, id, payload, mu, own, exp, fins⟩ := c
    cases op <;> simp [AdapterOp.isWrite, AdapterOp.isFinalizer] at hw hf <;> rfl
  · rfl

/-! ### call sequences of any length -/

theorem run_cons (cfg : Cfg) (d : Decl) (s : Store) (t0 : Nat) (c : Call) (cs : List Call) :
    (Access.run cfg d s t0 (c :: cs)).1 = (Access.run cfg d (exec cfg s t0 d c).1 (t0 + 1) cs).1 := rfl

theorem wf_run (cfg : Cfg) (d : Decl) (cs : List Call) : ∀ (s : Store) (t0 : Nat), WF cfg s →
    WF cfg (Access.run cfg d s t0 cs).1 := by
  induction cs with
  | nil => intro s t0 h; exact h
  | cons c cs ih => intro s t0 h; rw [run_cons]; exact ih _ _ (wf_exec cfg s t0 d c h)

/-- one call leaves a foreign-owned resource exactly as it is, unless it is a finalizer
    change or a Teardown/Destroy naming the resource's owner -/
theorem exec_preserves_foreign (cfg : Cfg) (s : Store) (now : Nat) (d : Decl) (c : Call) (hwf : WF cfg s)
    (k : Key) (cur : Res) (hg : s.get k = some cur) (hname : cur.owner ≠ d.name) (hnone : cur.owner ≠ "")
    (hfin : c.op.isFinalizer = false) (hexp : ∀ o, c.own = .explicit o → o ≠ cur.owner) :
    (exec cfg s now d c).1.get k = some cur := by
  by_cases hk : k ≠ cfg.key c.ns c.typ c.id
  · rw [exec_other_keys cfg s now d c hwf k hk]; exact hg
  have hk : k = cfg.key c.ns c.typ c.id := Decidable.of_not_not hk
  subst hk
  by_cases hw : c.op.isWrite = true
  · rw [(foreign_needs_explicit_owner cfg s now d c cur hwf hw hg hname (fun _ => hnone)
      (fun o ho _ => (hexp o ho).symm)).1]
    exact hg
  · rw [exec_read_store cfg s now d c (by simpa using hw) hfin]; exact hg

/-- **Foreign resources survive any call sequence.** Over call sequences of ANY length
    (all methods, targets, payloads, no-owner options included), a resource owned by
    another owner is bit-for-bit unchanged, provided no call is a finalizer change (those
    are `finalizer_confined`'s subject) and no Teardown/Destroy names its owner. -/
theorem foreign_preserved (cfg : Cfg) (d : Decl) (k : Key) (cur : Res) (hname : cur.owner ≠ d.name)
    (hnone : cur.owner ≠ "") (cs : List Call) :
    ∀ (s : Store) (t0 : Nat), WF cfg s → s.get k = some cur →
      (∀ c ∈ cs, c.op.isFinalizer = false ∧ ∀ o, c.own = .explicit o → o ≠ cur.owner) →
      (Access.run cfg d s t0 cs).1.get k = some cur := by
  induction cs with
  | nil => intro s t0 _ hg _; exact hg
  | cons c cs ih =>
    intro s t0 hwf hg hall
    rw [run_cons]
    have hc := hall c (List.mem_cons_self ..)
    exact ih _ _ (wf_exec cfg s t0 d c hwf)
      (exec_preserves_foreign cfg s t0 d c hwf k cur hg hname hnone hc.1 hc.2)
      (fun c' hc' => hall c' (List.mem_cons_of_mem _ hc'))

theorem key_inj (cfg : Cfg) (hns : cfg.nsAware = true) (ns typ id ns' typ' id' : String)
    (h : cfg.key ns typ id = cfg.key ns' typ' id') : ns = ns' ∧ typ = typ' ∧ id = id' := by
  simp only [Cfg.key, hns, if_true, Prod.mk.injEq] at h
  exact h

/-- **Confinement over call sequences.** A (namespace,type,id) whose type is not a
    declared output and which no strong / queue-primary / queue-mapped input covers is
    never changed by the controller, whatever calls it makes, with whatever options, for
    however long. (Namespaced state, as the runtime uses.) -/
theorem undeclared_preserved (cfg : Cfg) (hns : cfg.nsAware = true) (d : Decl) (ns typ id : String)
    (hout : ∀ o ∈ d.outputs, o.typ ≠ typ)
    (hfin : ∀ i ∈ d.inputs, ¬ ((i.kind = 1 ∨ i.kind = 3 ∨ i.kind = 4) ∧ i.ns = ns ∧ i.typ = typ ∧
      (i.id = none ∨ i.id = some id)))
    (cs : List Call) : ∀ (s : Store) (t0 : Nat), WF cfg s →
      (Access.run cfg d s t0 cs).1.get (cfg.key ns typ id) = s.get (cfg.key ns typ id) := by
  induction cs with
  | nil => intro s t0 _; rfl
  | cons c cs ih =>
    intro s t0 hwf
    rw [run_cons, ih _ _ (wf_exec cfg s t0 d c hwf)]
    by_cases hk : cfg.key ns typ id ≠ cfg.key c.ns c.typ c.id
    · exact exec_other_keys cfg s t0 d c hwf _ hk
    have hk : cfg.key ns typ id = cfg.key c.ns c.typ c.id := Decidable.of_not_not hk
    obtain ⟨h1, h2, h3⟩ := key_inj cfg hns _ _ _ _ _ _ hk
    by_cases hw : c.op.isWrite = true
    · have hden : allowed d c.op c.target = false := by
        cases ha : allowed d c.op c.target with
        | false => rfl
        | true =>
          obtain ⟨o, ho, ht⟩ := (write_confined d c.op c.target hw).1 ha
          exact absurd (by simpa [Call.target, h2] using ht) (hout o ho)
      rw [denied_no_calls cfg s t0 d c hden]
    · by_cases hf : c.op.isFinalizer = true
      · have hden : allowed d c.op c.target = false := by
          cases ha : allowed d c.op c.target with
          | false => rfl
          | true =>
            obtain ⟨i, hi, hkind, hins, hit, hid⟩ := (finalizer_confined d c.op c.target hf).1 ha
            have hl : c.op.isList = false := by
              cases hop : c.op <;> simp [hop, AdapterOp.isFinalizer] at hf <;> rfl
            simp only [Call.target, hl, Bool.false_eq_true, if_false] at hins hit hid
            exact absurd ⟨hkind, by rw [hins, h1], by rw [hit, h2], by rw [h3]; exact hid⟩ (hfin i hi)
        rw [denied_no_calls cfg s t0 d c hden]
      · rw [exec_read_store cfg s t0 d c (by simpa using hw) (by simpa using hf)]

/-- what `UpdateWithConflicts` with the stored owner and any phase leaves behind, for a
    mutator that only touches the finalizers -/
theorem after_uwc_fins (cfg : Cfg) (s : Store) (now : Nat) (cur : Res) (k : Key) (m : Mut)
    (hm : ∃ fs, m.apply cur = some { cur with fins := fs })
    (hg : s.get k = some cur) (hk : cur.key cfg = k) :
    ∃ r, (after cfg s now (uwcWrite cur m none none)).get k = some r ∧
      r.owner = cur.owner ∧ r.phase = cur.phase ∧ r.spec = cur.spec ∧ r.labels = cur.labels ∧
      r.created = cur.created ∧ r.ns = cur.ns ∧ r.typ = cur.typ ∧ r.id = cur.id := by
  obtain ⟨fs, hm⟩ := hm
  unfold uwcWrite
  simp only [Option.isSome_none, Bool.false_eq_true, false_and, if_false, hm, Option.getD_none]
  split
  · exact ⟨cur, hg, rfl, rfl, rfl, rfl, rfl, rfl, rfl, rfl⟩
  · simp only [after]
    rw [C01.step_eq_spec]
    have hk' : Res.key cfg { cur with fins := fs } = k := hk
    simp only [Spec.step, hk', hg]
    simp only [ne_eq, not_true_eq_false, if_false, Option.isSome_none, Bool.false_eq_true, false_and]
    exact ⟨_, C01.get_put_self _ _ _, rfl, rfl, rfl, rfl, rfl, rfl, rfl, rfl⟩

/-- **Finalizer changes change finalizers only.** AddFinalizer / RemoveFinalizer on an
    existing resource — the one kind of write the property grants on resources owned by
    others — leaves owner, phase, spec, labels, identity and creation time as they were. -/
theorem finalizer_only_fins (cfg : Cfg) (s : Store) (now : Nat) (d : Decl) (c : Call) (cur : Res)
    (hwf : WF cfg s) (hf : c.op.isFinalizer = true) (hg : s.get (cfg.key c.ns c.typ c.id) = some cur) :
    ∃ r, (exec cfg s now d c).1.get (cfg.key c.ns c.typ c.id) = some r ∧
      r.owner = cur.owner ∧ r.phase = cur.phase ∧ r.spec = cur.spec ∧ r.labels = cur.labels ∧
      r.created = cur.created ∧ r.ns = cur.ns ∧ r.typ = cur.typ ∧ r.id = cur.id := by
  rw [exec_store]
  split
  · obtain ⟨op, ns, typ, id, payload, mu, own, exp, fins⟩ := c
    simp only at hg ⊢
    cases op <;> simp [AdapterOp.isFinalizer] at hf <;> simp only [theWrite, hg]
    · exact after_uwc_fins cfg s now cur _ (.addFins fins) ⟨_, rfl⟩ hg (hwf _ _ hg)
    · exact after_uwc_fins cfg s now cur _ (.removeFins fins) ⟨_, rfl⟩ hg (hwf _ _ hg)
  · exact ⟨cur, hg, rfl, rfl, rfl, rfl, rfl, rfl, rfl, rfl⟩

/-! ### non-vacuity: concrete declarations, stores and calls meet the hypotheses above -/

def exDecl : Decl :=
  { name := "ctl",
    inputs := [⟨"n", "W", none, 0⟩, ⟨"n", "S", none, 1⟩, ⟨"n", "I", some "a", 4⟩, ⟨"n", "D", none, 2⟩],
    outputs := [⟨"O", 0⟩, ⟨"P", 1⟩] }

def exRes (typ id owner : String) : Res :=
  { ns := "n", typ := typ, id := id, ver := some 1, owner := owner, phase := .running, fins := [], labels := [],
    created := 0, updated := 0, spec := "x" }

def exStore : Store :=
  [(("n", "O", "a"), exRes "O" "a" "B"), (("n", "O", "b"), exRes "O" "b" "ctl"), (("n", "S", "a"), exRes "S" "a" "B")]

-- reads: inputs of every kind and outputs; a by-ID input serves Get of that ID only, never List
example : allowed exDecl .get ⟨"n", "W", some "z"⟩ = true := by decide
example : allowed exDecl .get ⟨"n", "I", some "a"⟩ = true := by decide
example : allowed exDecl .get ⟨"n", "I", some "b"⟩ = false := by decide
example : allowed exDecl .list ⟨"n", "I", none⟩ = false := by decide
example : allowed exDecl .get ⟨"m", "W", some "z"⟩ = false := by decide
example : allowed exDecl .getUncached ⟨"zz", "O", some "a"⟩ = true := by decide
-- writes: output types only (exclusive or shared), not inputs
example : allowed exDecl .create ⟨"n", "P", some "a"⟩ = true := by decide
example : allowed exDecl .destroy ⟨"n", "S", some "a"⟩ = false := by decide
-- finalizers: strong and queue-mapped inputs, not weak / destroy-ready inputs, not outputs
example : allowed exDecl .addFinalizer ⟨"n", "S", some "q"⟩ = true := by decide
example : allowed exDecl .removeFinalizer ⟨"n", "I", some "a"⟩ = true := by decide
example : allowed exDecl .addFinalizer ⟨"n", "W", some "q"⟩ = false := by decide
example : allowed exDecl .addFinalizer ⟨"n", "D", some "q"⟩ = false := by decide
example : allowed exDecl .addFinalizer ⟨"n", "O", some "a"⟩ = false := by decide

example : WF {} exStore := by
  intro k r h
  simp only [exStore, C01.get_cons, C01.get_nil] at h
  repeat' split at h
  all_goals first
    | (injection h with h; subst h; subst_vars; rfl)
    | exact absurd h (by simp)

def exCall (op : AdapterOp) (typ id : String) (own : OwnerArg := .dflt) : Call :=
  { op := op, ns := "n", typ := typ, id := id, payload := exRes typ id "", mu := .setSpec "y", own := own }

-- creation is stamped with the controller's name, whatever is stored elsewhere …
example : ((exec {} exStore 7 exDecl (exCall .create "O" "new")).1.get ("n", "O", "new")).map (·.owner)
    = some "ctl" := by decide
example : ((exec {} exStore 7 exDecl (exCall .modify "P" "new")).1.get ("n", "P", "new")).map (·.owner)
    = some "ctl" := by decide
-- … and with nobody under the explicit no-owner option
example : ((exec {} exStore 7 exDecl (exCall .create "O" "new" .noOwner)).1.get ("n", "O", "new")).map (·.owner)
    = some "" := by decide
-- hypotheses of `foreign_needs_explicit_owner`: an output-typed resource of owner B; the default call fails …
example : (exec {} exStore 7 exDecl (exCall .destroy "O" "a")).2.1.isErr = true := by decide
example : (exec {} exStore 7 exDecl (exCall .modify "O" "a")).2.1.isErr = true := by decide
example : (exec {} exStore 7 exDecl (exCall .teardown "O" "a")).1 = exStore := by decide
-- … naming the owner explicitly is the one way through (so the hypothesis `hexp` is needed)
example : (exec {} exStore 7 exDecl (exCall .destroy "O" "a" (.explicit "B"))).2.1.isErr = false := by decide
example : (exec {} exStore 7 exDecl (exCall .destroy "O" "a" (.explicit "B"))).1.get ("n", "O", "a") = none := by
  decide
-- own resources can be written
example : (exec {} exStore 7 exDecl (exCall .update "O" "b")).2.1.isErr = false := by decide
-- a denied call: the guard refuses, no store operation, state untouched
example : (exec {} exStore 7 exDecl (exCall .destroy "S" "a" (.explicit "B"))).1 = exStore ∧
    (exec {} exStore 7 exDecl (exCall .destroy "S" "a" (.explicit "B"))).2.2 = [] := by decide
-- finalizers go on a strong input owned by somebody else (that is their purpose)
example : ((exec {} exStore 7 exDecl { exCall .addFinalizer "S" "a" with fins := ["ctl"] }).1.get ("n", "S", "a")).map
    (fun r => (r.owner, r.fins)) = some ("B", ["ctl"]) := by decide

/-- what a widened guard would do: were weak inputs finalizer-capable, this call would be let
    through — the specification refuses it, so `allowed_eq_spec` could not be proved -/
example : Spec.Access.allowed exDecl .addFinalizer ⟨"n", "W", some "q"⟩ = false := by decide

end Cosi.C08
