/-
  Property C16, clause "a controller that panics is restarted and gets a fresh reconcile … once
  faults cease the system converges as if they had not happened" — for controllers that use the
  OUTPUT TRACKER (StartTrackingOutputs … CleanupOutputs) and fail or panic in between.

  Model: `Cosi.Model.Tracker` (`stepWith rules`; `step = stepWith genRules`, the rules being
  instantiated from the regenerated facts `Cosi.Gen.Restart.trackerReset`, `trackerPrivate`,
  `cleanupClearsTracker`, `cleanupResetsBackoff`).

    Sound                               what the rules must satisfy: runOnce clears the tracker however ctrl.Run
                                        ended, CleanupOutputs clears it
    genRules_sound                      the CURRENT source implements sound rules (rests on the facts)
    inv_run                             every schedule: `adapter.outputTracker != nil` iff the current execution of
                                        ctrl.Run is between StartTrackingOutputs and CleanupOutputs
    tracker_clear_between_runs          every schedule: whenever ctrl.Run is not executing the tracker is nil
    tracking_never_panics_spuriously    every schedule: a well-behaved tracking controller is never told
                                        "output tracking already enabled" / "not enabled"
    fresh_tracked_reconcile_after_fault after ANY history in which ctrl.Run executes (e.g. mid tracked reconcile), ANY
                                        way of ending that run (error, panic): backoff, restart, the event is
                                        pending, and StartTrackingOutputs of the fresh reconcile succeeds
    cleanup_reports_success             CleanupOutputs returns the restart backoff to the initial interval
  negative, kernel-checked (`by decide`) + for every number of restarts:
    afterRun_first_restart_panics       rule `.afterRun` (the tracker is cleared by a statement after ctrl.Run):
                                        one panic inside a tracked reconcile, and the restarted run panics in
                                        StartTrackingOutputs
    afterRun_crash_loop                 … and so does EVERY later restart: n restarts, n spurious panics, the
                                        controller never reconciles again
    never_first_error_panics            rule `.never`: already a returned error is enough
-/
import Cosi.Model.Tracker
import Cosi.Props.C16

namespace Cosi.C16T

open Cosi Cosi.Restart Cosi.Tracker Cosi.Queue.Backoff

/-- what the rules have to do for the tracker never to outlive an execution of `ctrl.Run` -/
structure Sound (r : Rules) : Prop where
  clears_on_every_exit : ∀ e, r.clearsOn e = true
  cleanup_clears : r.cleanupClears = true

theorem goodRules_sound : Sound goodRules := ⟨fun _ => rfl, rfl⟩

/-- the regenerated facts this module rests on -/
theorem facts : Gen.Restart.trackerReset = .deferred ∧ Gen.Restart.trackerPrivate = true ∧
    Gen.Restart.startPanicsWhenSet = true ∧ Gen.Restart.cleanupClearsTracker = true ∧
    Gen.Restart.cleanupResetsBackoff = true := by decide

/-- the CURRENT source implements sound rules -/
theorem genRules_sound : Sound genRules := by
  have h1 : Gen.Restart.trackerReset = .deferred := facts.1
  have h2 : Gen.Restart.trackerPrivate = true := facts.2.1
  have h3 : Gen.Restart.cleanupClearsTracker = true := facts.2.2.2.1
  exact ⟨fun e => by simp [genRules, h1, h2], by simp [genRules, h3]⟩

/-! ### the invariant -/

structure Inv (s : TLoop) : Prop where
  tracker_is_mine : s.tracker = s.mine
  idle_clear : s.loop.phase ≠ .running → s.mine = false
  no_spurious : s.spurious = 0

theorem inv_init : Inv {} := ⟨rfl, fun _ => rfl, rfl⟩

theorem stepWith_disabled (r : Rules) (s : TLoop) (e : TEv) (h : e.enabled s = false) : stepWith r s e = s := by
  simp [stepWith, h]

theorem stepWith_enabled (r : Rules) (s : TLoop) (e : TEv) (h : e.enabled s = true) :
    stepWith r s e = stepOn r s e := by
  simp [stepWith, h]

theorem reset_phase (l : RLoop) : (rstep l .reset).phase = l.phase := by
  unfold rstep
  by_cases h : REv.reset.enabled l = true
  · simp only [h, if_true, rstepOn]
    by_cases hr : Gen.Restart.rResetResets = true <;> simp [hr]
  · simp [h]

theorem trigger_phase (l : RLoop) : (rstep l .trigger).phase = l.phase := by
  rw [C16.rstep_trigger]

theorem isBackingOff_not_running (p : Phase) (h : p.isBackingOff = true) : p ≠ .running := by
  intro e; subst e; simp [Phase.isBackingOff] at h

theorem inv_step (r : Rules) (hr : Sound r) (s : TLoop) (e : TEv) (h : Inv s) : Inv (stepWith r s e) := by
  by_cases hen : e.enabled s = true
  · rw [stepWith_enabled r s e hen]
    obtain ⟨h1, h2, h3⟩ := h
    cases e with
    | take =>
      exact ⟨h1, fun hp => h2 (by rw [← C16.takeEvent_phase]; exact hp), h3⟩
    | start =>
      have hen2 : s.loop.phase = .running ∧ s.mine = false := by
        simpa [TEv.enabled] using hen
      have ht : s.tracker = false := by rw [h1, hen2.2]
      simp only [Tracker.stepOn, ht]
      exact ⟨rfl, fun hp => absurd hen2.1 hp, h3⟩
    | cleanup =>
      have hm : s.mine = true := by
        simp only [TEv.enabled, Bool.and_eq_true] at hen; exact hen.2
      have ht : s.tracker = true := by rw [h1, hm]
      simp only [Tracker.stepOn, ht, hr.cleanup_clears]
      exact ⟨rfl, fun _ => rfl, h3⟩
    | ends e' =>
      simp only [Tracker.stepOn, endRun, hr.clears_on_every_exit]
      exact ⟨rfl, fun _ => rfl, h3⟩
    | timer =>
      have hb : s.loop.phase.isBackingOff = true := by simpa [TEv.enabled, REv.enabled] using hen
      have hm := h2 (isBackingOff_not_running _ hb)
      exact ⟨h1, fun _ => hm, h3⟩
    | ctxDone =>
      have hb : s.loop.phase.isBackingOff = true := by simpa [TEv.enabled, REv.enabled] using hen
      have hm := h2 (isBackingOff_not_running _ hb)
      exact ⟨h1, fun _ => hm, h3⟩
    | trigger =>
      exact ⟨h1, fun hp => h2 (by rw [← trigger_phase]; exact hp), h3⟩
  · rw [stepWith_disabled r s e (by simpa using hen)]; exact h

theorem inv_runWith (r : Rules) (hr : Sound r) (evs : List TEv) (s : TLoop) (h : Inv s) : Inv (runWith r s evs) := by
  induction evs generalizing s with
  | nil => exact h
  | cons e rest ih => exact ih _ (inv_step r hr s e h)

/-- **the tracker belongs to the execution of ctrl.Run that set it** — every schedule of the
    restart loop and of a well-behaved tracking controller, the current source -/
theorem inv_run (evs : List TEv) : Inv (Tracker.run {} evs) :=
  inv_runWith genRules genRules_sound evs {} inv_init

/-- whenever `ctrl.Run` is not executing (the loop backs off, has stopped) the tracker is nil: a
    restarted run starts with a clean adapter -/
theorem tracker_clear_between_runs (evs : List TEv) (h : (Tracker.run {} evs).loop.phase ≠ .running) :
    (Tracker.run {} evs).tracker = false := by
  have hi := inv_run evs
  rw [hi.tracker_is_mine]; exact hi.idle_clear h

/-- **C16 for tracking controllers, safety half.** Whatever faults happened (errors, panics, at any
    point of any reconcile, any number of times), a controller that uses the tracker as documented
    is never told "output tracking already enabled" (nor "not enabled") -/
theorem tracking_never_panics_spuriously (evs : List TEv) : (Tracker.run {} evs).spurious = 0 :=
  (inv_run evs).no_spurious

/-- the run in progress ends as `e`; the restart loop waits, restarts, the controller takes the pending event and
    starts tracking -/
def faultThenRestart (e : RunEnd) : List TEv := [.ends e, .timer, .take, .start]

theorem runWith_append (r : Rules) (a b : List TEv) (s : TLoop) :
    runWith r s (a ++ b) = runWith r (runWith r s a) b := by
  induction a generalizing s with
  | nil => rfl
  | cons x xs ih => exact ih _

/-- **C16 for tracking controllers, fresh reconcile after a fault.** After ANY history in which
    `ctrl.Run` is executing — in particular in the middle of a tracked reconcile (StartTrackingOutputs
    called, CleanupOutputs not yet) — let the run end by an error or a panic: the loop backs off
    within the window of its current interval, and after the timer the reconcile event is pending,
    the controller takes it, and its StartTrackingOutputs SUCCEEDS — the controller is tracking
    again, no spurious panic. -/
theorem fresh_tracked_reconcile_after_fault (evs : List TEv) (e : RunEnd) (he : e ≠ .finished)
    (hrun : (Tracker.run {} evs).loop.phase = .running) :
    (Tracker.run {} (evs ++ faultThenRestart e)).loop.phase = .running ∧
    (Tracker.run {} (evs ++ faultThenRestart e)).tracker = true ∧
    (Tracker.run {} (evs ++ faultThenRestart e)).mine = true ∧
    (Tracker.run {} (evs ++ faultThenRestart e)).spurious = 0 := by
  have hi := inv_run evs
  have hsplit : Tracker.run {} (evs ++ faultThenRestart e) = runWith genRules (Tracker.run {} evs) (faultThenRestart e) :=
    runWith_append genRules evs (faultThenRestart e) {}
  rw [hsplit]
  generalize Tracker.run {} evs = s at *
  -- ends
  have hfail : rstep s.loop (.runEnds e) = s.loop.fail := by
    cases e with
    | finished => exact absurd rfl he
    | failed => exact C16.rstep_failed s.loop hrun
    | panicked => exact C16.rstep_panicked s.loop hrun
  have h1 : stepWith genRules s (.ends e) =
      { s with loop := s.loop.fail, tracker := false, mine := false } := by
    rw [stepWith_enabled _ _ _ (by simp [TEv.enabled, hrun])]
    simp only [Tracker.stepOn, endRun, genRules_sound.clears_on_every_exit, hfail, if_true]
  have hph1 : s.loop.fail.phase.isBackingOff = true := by rw [C16.rfail_eq]; rfl
  -- timer
  have h2 : stepWith genRules { s with loop := s.loop.fail, tracker := false, mine := false } .timer =
      { s with loop := { s.loop.fail with phase := .running, pending := true }, tracker := false, mine := false } := by
    rw [stepWith_enabled _ _ _ (by simpa [TEv.enabled, REv.enabled] using hph1)]
    simp only [Tracker.stepOn, C16.rstep_timerFires _ hph1]
  -- take
  have h3 : stepWith genRules
        { s with loop := { s.loop.fail with phase := .running, pending := true }, tracker := false, mine := false } .take =
      { s with loop := { s.loop.fail with phase := .running, pending := false }, tracker := false, mine := false } := by
    rw [stepWith_enabled _ _ _ (by simp [TEv.enabled, REv.enabled])]
    simp only [Tracker.stepOn]
    rw [C16.rstep_takeEvent _ rfl rfl]
  -- start
  have h4 : stepWith genRules
        { s with loop := { s.loop.fail with phase := .running, pending := false }, tracker := false, mine := false } .start =
      { s with loop := { s.loop.fail with phase := .running, pending := false }, tracker := true, mine := true } := by
    rw [stepWith_enabled _ _ _ (by simp [TEv.enabled])]
    simp [Tracker.stepOn]
  have hfin : runWith genRules s (faultThenRestart e) =
      { s with loop := { s.loop.fail with phase := .running, pending := false }, tracker := true, mine := true } := by
    simp only [faultThenRestart, runWith, h1, h2, h3, h4]
  rw [hfin]
  exact ⟨rfl, rfl, rfl, hi.no_spurious⟩

/-- CleanupOutputs reports success: the restart backoff is back at the initial interval -/
theorem cleanup_reports_success (s : TLoop) (hrun : s.loop.phase = .running) (hm : s.mine = true) (ht : s.tracker = true) :
    (Tracker.step s .cleanup).loop.cur = initial ∧ (Tracker.step s .cleanup).tracker = false := by
  have h3 : Gen.Restart.cleanupClearsTracker = true := facts.2.2.2.1
  have h4 : Gen.Restart.cleanupResetsBackoff = true := facts.2.2.2.2
  show (stepWith genRules s .cleanup).loop.cur = initial ∧ (stepWith genRules s .cleanup).tracker = false
  rw [stepWith_enabled _ _ _ (by simp [TEv.enabled, hrun, hm])]
  simp only [Tracker.stepOn, ht, genRules, h3, h4]
  simp [C16.rstep_reset _ hrun]

/-- (marker) errors reported below this line are in the witnesses -/
theorem examples_follow : True := trivial

/-! ### non-vacuity and negative witnesses -/

/-- the seeded rule (C16-c): the tracker is cleared by a statement AFTER `err = adapter.ctrl.Run(…)` -/
def afterRunRules : Rules := { goodRules with clearsOn := fun e => e != .panicked }

/-- runOnce does not clear the tracker at all -/
def neverRules : Rules := { goodRules with clearsOn := fun _ => false }

-- the hypotheses of `fresh_tracked_reconcile_after_fault` are satisfiable: in the middle of the second tracked
-- reconcile, after a first one that succeeded and an error before any tracking
example : (Tracker.run {} [.take, .start, .cleanup, .trigger, .take, .ends .failed, .timer, .take, .start]).loop.phase = .running ∧
    (Tracker.run {} [.take, .start, .cleanup, .trigger, .take, .ends .failed, .timer, .take, .start]).mine = true ∧
    (Tracker.run {} [.take, .start, .cleanup, .trigger, .take, .ends .failed, .timer, .take, .start]).tracker = true := by
  decide

-- the current source: a panic inside a tracked reconcile, restart, the fresh reconcile tracks and completes
example : (Tracker.run {} [.take, .start, .ends .panicked, .timer, .take, .start, .cleanup]).spurious = 0 ∧
    (Tracker.run {} [.take, .start, .ends .panicked, .timer, .take, .start, .cleanup]).tracker = false ∧
    (Tracker.run {} [.take, .start, .ends .panicked, .timer, .take, .start, .cleanup]).loop.phase = .running ∧
    (Tracker.run {} [.take, .start, .ends .panicked, .timer, .take, .start, .cleanup]).loop.cur = initial := by
  decide

/-- **negative witness for the seeded rule**: ONE panic inside a tracked reconcile; the restarted run
    panics in StartTrackingOutputs and the loop is backing off again, the stale tracker still set -/
theorem afterRun_first_restart_panics :
    (runWith afterRunRules {} [.take, .start, .ends .panicked, .timer, .take, .start]).spurious = 1 ∧
    (runWith afterRunRules {} [.take, .start, .ends .panicked, .timer, .take, .start]).tracker = true ∧
    (runWith afterRunRules {} [.take, .start, .ends .panicked, .timer, .take, .start]).loop.phase.isBackingOff = true ∧
    -- … while a returned error (what the project's tests inject) is harmless under that rule
    (runWith afterRunRules {} [.take, .start, .ends .failed, .timer, .take, .start]).spurious = 0 := by
  decide

/-- the state the seeded rule gets stuck in: backing off with a stale tracker nobody owns -/
structure Stuck (s : TLoop) : Prop where
  backing : s.loop.phase.isBackingOff = true
  stale : s.tracker = true
  not_mine : s.mine = false

theorem afterRun_round (s : TLoop) (h : Stuck s) :
    Stuck (runWith afterRunRules s round) ∧ (runWith afterRunRules s round).spurious = s.spurious + 1 := by
  obtain ⟨hb, ht, hm⟩ := h
  have e1 : stepWith afterRunRules s .timer = { s with loop := { s.loop with phase := .running, pending := true } } := by
    rw [stepWith_enabled _ _ _ (by simpa [TEv.enabled, REv.enabled] using hb)]
    simp only [Tracker.stepOn, C16.rstep_timerFires _ hb]
  have e2 : stepWith afterRunRules { s with loop := { s.loop with phase := .running, pending := true } } .take =
      { s with loop := { s.loop with phase := .running, pending := false } } := by
    rw [stepWith_enabled _ _ _ (by simp [TEv.enabled, REv.enabled])]
    simp only [Tracker.stepOn]
    rw [C16.rstep_takeEvent _ rfl rfl]
  have e3 : stepWith afterRunRules { s with loop := { s.loop with phase := .running, pending := false } } .start =
      { s with loop := ({ s.loop with phase := .running, pending := false } : RLoop).fail, spurious := s.spurious + 1 } := by
    rw [stepWith_enabled _ _ _ (by simp [TEv.enabled, hm])]
    simp only [Tracker.stepOn, ht, if_true, endRun]
    rw [C16.rstep_panicked _ rfl]
    simp [afterRunRules, goodRules, hm]
  have hfin : runWith afterRunRules s round =
      { s with loop := ({ s.loop with phase := .running, pending := false } : RLoop).fail, spurious := s.spurious + 1 } := by
    simp only [round, runWith, e1, e2, e3]
  rw [hfin]
  exact ⟨⟨by rw [C16.rfail_eq]; rfl, ht, hm⟩, rfl⟩

/-- **the seeded rule never recovers**: from the stuck state, `n` restarts of a controller that starts
    its reconcile with StartTrackingOutputs are `n` more "output tracking already enabled" panics, and
    the state is stuck again — for every `n`: the controller never reconciles again -/
theorem afterRun_crash_loop (n : Nat) (s : TLoop) (h : Stuck s) :
    Stuck (runWith afterRunRules s (rounds n)) ∧ (runWith afterRunRules s (rounds n)).spurious = s.spurious + n := by
  induction n generalizing s with
  | zero => exact ⟨h, rfl⟩
  | succ n ih =>
    obtain ⟨h1, h2⟩ := afterRun_round s h
    obtain ⟨h3, h4⟩ := ih _ h1
    have hr : rounds (n + 1) = round ++ rounds n := rfl
    rw [hr, runWith_append]
    exact ⟨h3, by rw [h4, h2]; omega⟩

/-- the stuck state IS reached by one panic inside a tracked reconcile -/
theorem afterRun_reaches_stuck : Stuck (runWith afterRunRules {} [.take, .start, .ends .panicked]) :=
  ⟨by decide, by decide, by decide⟩

theorem afterRun_not_sound : ¬ Sound afterRunRules := fun h => by
  have := h.clears_on_every_exit .panicked
  exact absurd this (by decide)

/-- rule `.never`: already a returned error inside a tracked reconcile is enough -/
theorem never_first_error_panics :
    (runWith neverRules {} [.take, .start, .ends .failed, .timer, .take, .start]).spurious = 1 := by decide

end Cosi.C16T
