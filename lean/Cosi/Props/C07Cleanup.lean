/-
  Property C07, the cleanup controller's clause: "a cleanup controller releases its finalizer on a
  torn-down input only after its removal handler succeeded (dependent outputs gone)" — theorems
  about the machine of Cosi.Model.Cleanup for EVERY schedule of controller actions, spurious
  helper failures and external actions.
-/
import Cosi.Model.Cleanup

namespace Cosi.C07C
open Cosi Cosi.CL
open Cosi.TF (Ph AIn Choice listOf)

variable {m : Nat}

/-! ### the invariant -/

/-- the input is tearing down and carries the controller's finalizer -/
def tdFin (s : Sys m) : Prop := ∃ i, s.inp = some i ∧ i.phase = .tearingDown ∧ i.ctlFin = true

/-- no dependent that sub-handler `j` is responsible for exists -/
def clean (s : Sys m) (j : Nat) : Prop :=
  ∀ h, s.hs[j]? = some h → ∀ k d, s.deps j k = some d → resp h d = false

/-- this processInput has run the sub-handlers before `j`; all returned nil and their dependents are gone -/
def okSoFar (s : Sys m) (j : Nat) : Prop :=
  s.results.length = j ∧ (∀ x, x ∈ s.results → x = .ok) ∧ ∀ j', j' < j → clean s j'

/-- every sub-handler has run in this processInput and returned nil -/
def allOk (s : Sys m) : Prop := s.results.length = s.hs.length ∧ ∀ x, x ∈ s.results → x = .ok

def allClean (s : Sys m) : Prop := ∀ j, clean s j

def ids (l : List (Fin m × ADep)) : List (Fin m) := l.map (·.1)

/-- inside RemoveOutputs' loop of sub-handler `j`: as long as no error and no "still tearing down" has been
    counted, every unowned dependent that still exists is one the loop has yet to visit -/
def loopInv (s : Sys m) (j : Nat) (pending : List (Fin m)) (todo : List (Fin m × ADep)) (inTD : Nat) (err : Bool) : Prop :=
  tdFin s ∧ okSoFar s j ∧ s.hs[j]? = some .removeOutputs ∧
  (∀ p, p ∈ todo → ∀ cur, s.deps j p.1 = some cur → cur.owned = p.2.owned) ∧
  (err = false → inTD = 0 → ∀ k d, s.deps j k = some d → d.owned = false → k ∈ pending)

def pcInv (s : Sys m) : Prop :=
  match s.pc with
  | .idle => True
  | .gotIn i => i.phase = .tearingDown → i.ctlFin = true → tdFin s
  | .handler j => tdFin s ∧ okSoFar s j
  | .remLoop j todo inTD err => loopInv s j (ids todo) todo inTD err
  | .remDestroy j k todo inTD err =>
    loopInv s j (k :: ids todo) todo inTD err ∧ ∀ cur, s.deps j k = some cur → cur.phase = .tearingDown
  | .decide res => res = .ok → tdFin s ∧ allClean s ∧ allOk s
  | .release => tdFin s ∧ allClean s ∧ allOk s

/-- what the proofs need of the rules -/
structure GoodRules (r : Rules) : Prop where
  stops : ∀ res, r.combineStops res = true ↔ res ≠ .ok
  release : ∀ res, r.releaseOn res = true → res = .ok

/-! ### the environment -/

theorem env_frame (s : Sys m) (e : Env m) :
    (env s e).pc = s.pc ∧ (env s e).hs = s.hs ∧ (env s e).results = s.results := by
  cases e <;> simp only [env] <;> split <;> (try split) <;> simp

theorem env_tdFin (s : Sys m) (e : Env m) (h : tdFin s) : tdFin (env s e) := by
  obtain ⟨i, hi, hp, hf⟩ := h
  cases e <;> simp only [env, hi] <;> (try split) <;> (try split) <;> simp_all [tdFin]

/-- while the input is tearing down, the environment creates no dependent and never changes an owner -/
theorem env_deps (s : Sys m) (e : Env m) (h : tdFin s) (j : Nat) (k : Fin m) (d' : ADep)
    (hd : (env s e).deps j k = some d') :
    ∃ d, s.deps j k = some d ∧ d'.owned = d.owned ∧ (d.phase = .tearingDown → d'.phase = .tearingDown) := by
  obtain ⟨i, hi, hp, hf⟩ := h
  cases e with
  | createIn f | teardownIn | destroyIn | setForeignIn b =>
    simp only [env, hi] at hd
    (try split at hd) <;> exact ⟨d', hd, rfl, id⟩
  | createDep j0 k0 o =>
    simp only [env, hi] at hd
    split at hd
    · rename_i i' hi' _
      cases hi'
      simp [hp] at hd
      exact ⟨d', hd, rfl, id⟩
    · exact ⟨d', hd, rfl, id⟩
  | teardownDep j0 k0 | destroyDep j0 k0 | setForeignDep j0 k0 b =>
    simp only [env] at hd
    repeat' split at hd
    all_goals (by_cases hjk : j = j0 ∧ k = k0)
    all_goals (first | (obtain ⟨rfl, rfl⟩ := hjk) | skip)
    all_goals simp_all [updD]
    all_goals (try (subst hd; simp))

theorem env_clean (s : Sys m) (e : Env m) (h : tdFin s) (j : Nat) (hc : clean s j) : clean (env s e) j := by
  intro hk hhk k d' hd
  obtain ⟨d, hd0, hown, _⟩ := env_deps s e h j k d' hd
  rw [(env_frame s e).2.1] at hhk
  have := hc hk hhk k d hd0
  cases hk <;> simp_all [resp]

theorem env_okSoFar (s : Sys m) (e : Env m) (h : tdFin s) (j : Nat) (hc : okSoFar s j) : okSoFar (env s e) j := by
  obtain ⟨h1, h2, h3⟩ := hc
  rw [okSoFar, (env_frame s e).2.2]
  exact ⟨h1, h2, fun j' hj' => env_clean s e h j' (h3 j' hj')⟩

theorem env_loopInv (s : Sys m) (e : Env m) (j : Nat) (pend : List (Fin m)) (todo : List (Fin m × ADep)) (inTD : Nat)
    (err : Bool) (h : loopInv s j pend todo inTD err) : loopInv (env s e) j pend todo inTD err := by
  obtain ⟨h1, h2, h3, h4, h5⟩ := h
  refine ⟨env_tdFin s e h1, env_okSoFar s e h1 j h2, by rw [(env_frame s e).2.1]; exact h3, ?_, ?_⟩
  · intro p hp cur hcur
    obtain ⟨d, hd0, hown, _⟩ := env_deps s e h1 j p.1 cur hcur
    rw [hown]; exact h4 p hp d hd0
  · intro he hi k d' hd hown'
    obtain ⟨d, hd0, hown, _⟩ := env_deps s e h1 j k d' hd
    exact h5 he hi k d hd0 (by rw [← hown]; exact hown')

theorem safe_env (s : Sys m) (e : Env m) (hs : pcInv s) : pcInv (env s e) := by
  unfold pcInv at hs ⊢
  rw [(env_frame s e).1]
  cases hp : s.pc with
  | idle => trivial
  | gotIn i => rw [hp] at hs; exact fun a b => env_tdFin s e (hs a b)
  | handler j => rw [hp] at hs; exact ⟨env_tdFin s e hs.1, env_okSoFar s e hs.1 j hs.2⟩
  | remLoop j todo inTD err => rw [hp] at hs; exact env_loopInv s e j _ todo inTD err hs
  | remDestroy j k todo inTD err =>
    rw [hp] at hs
    refine ⟨env_loopInv s e j _ todo inTD err hs.1, ?_⟩
    intro cur hcur
    obtain ⟨d, hd0, _, hph⟩ := env_deps s e hs.1.1 j k cur hcur
    exact hph (hs.2 d hd0)
  | decide res =>
    rw [hp] at hs
    intro hr
    obtain ⟨h1, h2, h3⟩ := hs hr
    refine ⟨env_tdFin s e h1, fun j => env_clean s e h1 j (h2 j), ?_⟩
    rw [allOk, (env_frame s e).2.2, (env_frame s e).2.1]; exact h3
  | release =>
    rw [hp] at hs
    obtain ⟨h1, h2, h3⟩ := hs
    refine ⟨env_tdFin s e h1, fun j => env_clean s e h1 j (h2 j), ?_⟩
    rw [allOk, (env_frame s e).2.2, (env_frame s e).2.1]; exact h3

/-- sub-handler `j` returns `res` -/
theorem finish_inv (r : Rules) (hr : GoodRules r) (s : Sys m) (j : Nat) (res : HRes) (h : HKind)
    (htd : tdFin s) (hok : okSoFar s j) (hh : s.hs[j]? = some h) (hclean : res = .ok → clean s j) :
    pcInv (finish r s j res) := by
  obtain ⟨h1, h2, h3⟩ := hok
  have hjlt : j < s.hs.length := by
    rcases Nat.lt_or_ge j s.hs.length with hlt | hge
    · exact hlt
    · rw [List.getElem?_eq_none hge] at hh; cases hh
  unfold finish
  by_cases hst : r.combineStops res = true
  · simp only [hst, if_true, pcInv]
    intro hres
    exact absurd hres ((hr.stops res).1 hst)
  · have hres : res = .ok := by
      cases res with
      | ok => rfl
      | pending => exact absurd ((hr.stops _).2 (by decide)) hst
      | error => exact absurd ((hr.stops _).2 (by decide)) hst
    subst hres
    have hcl := hclean rfl
    have hall : ∀ x, x ∈ s.results ++ [HRes.ok] → x = .ok := by
      intro x hx
      rcases List.mem_append.1 hx with hx | hx
      · exact h2 x hx
      · simpa using hx
    have hcl' : ∀ j', j' < j + 1 → clean s j' := by
      intro j' hj'
      rcases Nat.lt_succ_iff_lt_or_eq.1 hj' with hlt | heq
      · exact h3 j' hlt
      · subst heq; exact hcl
    have hst' : r.combineStops HRes.ok = false := by simpa using hst
    simp only [hst', Bool.false_eq_true, if_false]
    by_cases hlast : j + 1 < s.hs.length
    · simp only [hlast, if_true, pcInv]
      exact ⟨htd, by simp [h1], hall, hcl'⟩
    · simp only [hlast, if_false, pcInv]
      intro _
      refine ⟨htd, ?_, ?_, hall⟩
      · intro j'
        rcases Nat.lt_or_ge j' (j + 1) with hlt | hge
        · exact hcl' j' hlt
        · intro hk hhk
          have : s.hs.length ≤ j' := by omega
          have hn : s.hs[j']? = none := List.getElem?_eq_none this
          have hhk' : s.hs[j']? = some hk := hhk
          rw [hn] at hhk'; cases hhk'
      · show (s.results ++ [HRes.ok]).length = s.hs.length
        simp only [List.length_append, List.length_singleton, h1]
        omega

/-! ### the controller: one lemma per program point -/

theorem loopInv_next (s : Sys m) (j : Nat) (k : Fin m) (d : ADep) (rest : List (Fin m × ADep)) (inTD inTD' : Nat)
    (err err' : Bool) (h : loopInv s j (k :: ids rest) ((k, d) :: rest) inTD err)
    (hp : err' = false → inTD' = 0 → err = false ∧ inTD = 0 ∧ ∀ cur, s.deps j k = some cur → cur.owned = true) :
    loopInv s j (ids rest) rest inTD' err' := by
  obtain ⟨h1, h2, h3, h4, h5⟩ := h
  refine ⟨h1, h2, h3, fun p hp' => h4 p (List.mem_cons_of_mem _ hp'), ?_⟩
  intro he hi k' d' hd hown
  obtain ⟨he0, hi0, hk⟩ := hp he hi
  rcases List.mem_cons.1 (h5 he0 hi0 k' d' hd hown) with hkk | hmem
  · subst hkk
    have := hk d' hd
    rw [hown] at this; cases this
  · exact hmem

theorem loopInv_keep (s : Sys m) (j : Nat) (k : Fin m) (d : ADep) (rest : List (Fin m × ADep)) (inTD : Nat)
    (err : Bool) (h : loopInv s j (k :: ids rest) ((k, d) :: rest) inTD err) :
    loopInv s j (k :: ids rest) rest inTD err := by
  obtain ⟨h1, h2, h3, h4, h5⟩ := h
  exact ⟨h1, h2, h3, fun p hp' => h4 p (List.mem_cons_of_mem _ hp'), h5⟩

theorem loopInv_write (s : Sys m) (j : Nat) (k : Fin m) (v : Option ADep)
    (hv : ∀ d', v = some d' → ∃ cur, s.deps j k = some cur ∧ d'.owned = cur.owned)
    (pend : List (Fin m)) (todo : List (Fin m × ADep)) (inTD : Nat) (err : Bool) (pc : Pc m)
    (h : loopInv s j pend todo inTD err) :
    loopInv { s with deps := updD s.deps j k v, pc := pc } j pend todo inTD err := by
  obtain ⟨h1, h2, h3, h4, h5⟩ := h
  have hsame : ∀ j' k' d', updD s.deps j k v j' k' = some d' → ∃ cur, s.deps j' k' = some cur ∧ d'.owned = cur.owned := by
    intro j' k' d' hd
    by_cases hjk : j' = j ∧ k' = k
    · obtain ⟨rfl, rfl⟩ := hjk
      simp only [updD, and_self, if_true] at hd
      exact hv d' hd
    · simp only [updD, hjk, if_false] at hd
      exact ⟨d', hd, rfl⟩
  refine ⟨h1, ⟨h2.1, h2.2.1, ?_⟩, h3, ?_, ?_⟩
  · intro j' hj' hk hhk k' d' hd
    obtain ⟨cur, hc, ho⟩ := hsame j' k' d' hd
    have := h2.2.2 j' hj' hk hhk k' cur hc
    cases hk <;> simp_all [resp]
  · intro p hp cur hcur
    obtain ⟨c0, hc, ho⟩ := hsame j p.1 cur hcur
    rw [ho]; exact h4 p hp c0 hc
  · intro he hi k' d' hd hown
    obtain ⟨c0, hc, ho⟩ := hsame j k' d' hd
    exact h5 he hi k' c0 hc (by rw [← ho]; exact hown)

theorem ctl_idle (r : Rules) (s : Sys m) (c : Choice) (hs : pcInv s) (hpc : s.pc = .idle) : pcInv (ctlWith r s c) := by
  simp only [ctlWith, hpc]
  split
  · exact hs
  · rename_i i hi
    simp only [pcInv]
    exact fun a b => ⟨i, hi, a, b⟩

theorem ctl_gotIn (r : Rules) (s : Sys m) (c : Choice) (hs : pcInv s) (i : AIn) (hpc : s.pc = .gotIn i) :
    pcInv (ctlWith r s c) := by
  simp only [pcInv, hpc] at hs
  simp only [ctlWith, hpc]
  repeat' split
  all_goals (try trivial)
  rename_i htd hfin
  simp only [pcInv]
  refine ⟨hs htd (by simpa using hfin), rfl, ?_, ?_⟩
  · intro x hx; cases hx
  · intro j' hj'; exact absurd hj' (Nat.not_lt_zero _)

theorem ctl_handler (r : Rules) (hr : GoodRules r) (s : Sys m) (c : Choice) (hs : pcInv s) (j : Nat)
    (hpc : s.pc = .handler j) : pcInv (ctlWith r s c) := by
  simp only [pcInv, hpc] at hs
  obtain ⟨htd, hok⟩ := hs
  simp only [ctlWith, hpc]
  split
  · trivial
  · rename_i hh
    split
    · exact finish_inv r hr s j _ _ htd hok hh (fun h => by cases h)
    · split
      · rename_i hempty
        refine finish_inv r hr s j _ _ htd hok hh (fun _ => ?_)
        intro hk hhk k d hd
        have := (TF.mem_listOf (s.deps j) k d).2 hd
        rw [List.isEmpty_iff] at hempty
        rw [hempty] at this; cases this
      · exact finish_inv r hr s j _ _ htd hok hh (fun h => by cases h)
  · rename_i hh
    split
    · exact finish_inv r hr s j _ _ htd hok hh (fun h => by cases h)
    · simp only [pcInv]
      refine ⟨htd, hok, hh, ?_, ?_⟩
      · intro p hp cur hcur
        obtain ⟨k, d⟩ := p
        have := (TF.mem_listOf (s.deps j) k d).1 hp
        simp only at hcur
        rw [this] at hcur; cases hcur; rfl
      · intro _ _ k d hd _
        simp only [ids, List.mem_map]
        exact ⟨(k, d), (TF.mem_listOf (s.deps j) k d).2 hd, rfl⟩

theorem ctl_remLoop_nil (r : Rules) (hr : GoodRules r) (s : Sys m) (c : Choice) (hs : pcInv s) (j inTD : Nat) (err : Bool)
    (hpc : s.pc = .remLoop j [] inTD err) : pcInv (ctlWith r s c) := by
  simp only [pcInv, hpc] at hs
  obtain ⟨htd, hok, hh, _, h5⟩ := hs
  simp only [ctlWith, hpc]
  refine finish_inv r hr s j _ _ htd hok hh ?_
  intro hres hk hhk k d hd
  rw [hh] at hhk; cases hhk
  cases herr : err with
  | true => simp [herr] at hres
  | false =>
    have hz : inTD = 0 := by
      rcases Nat.eq_zero_or_pos inTD with h | h
      · exact h
      · simp [herr, h] at hres
    cases ho : d.owned with
    | true => simp [resp, ho]
    | false => exact absurd (h5 herr hz k d hd ho) (by simp [ids])

theorem ctl_remLoop_cons (r : Rules) (s : Sys m) (c : Choice) (hs : pcInv s) (j : Nat) (k : Fin m) (d : ADep)
    (rest : List (Fin m × ADep)) (inTD : Nat) (err : Bool)
    (hpc : s.pc = .remLoop j ((k, d) :: rest) inTD err) : pcInv (ctlWith r s c) := by
  simp only [pcInv, hpc, ids, List.map_cons] at hs
  have hlisted := hs.2.2.2.1 (k, d) (List.mem_cons_self ..)
  simp only [ctlWith, hpc]
  split
  · -- listed as owned: skipped
    rename_i hown
    exact loopInv_next s j k d rest inTD inTD err err hs (fun he hi => ⟨he, hi, fun cur hc => by rw [hlisted cur hc]; exact hown⟩)
  · split
    · exact loopInv_next s j k d rest inTD inTD err true hs (fun he => by cases he)
    · split
      · exact loopInv_next s j k d rest inTD (inTD + 1) err err hs (fun _ hi => by cases hi)
      · rename_i cur hcur
        split
        · split
          · exact loopInv_next s j k d rest inTD (inTD + 1) err err hs (fun _ hi => by cases hi)
          · rename_i htd _
            refine ⟨loopInv_keep s j k d rest inTD err hs, ?_⟩
            intro cur' hcur'
            have h2 : s.deps j k = some cur' := hcur'
            rw [hcur] at h2; cases h2; exact htd
        · split
          · exact loopInv_next s j k d rest inTD inTD err true hs (fun he => by cases he)
          · have hw : ∀ pc, loopInv { s with deps := updD s.deps j k (some { cur with phase := .tearingDown }), pc := pc } j
                (k :: ids rest) ((k, d) :: rest) inTD err :=
              fun pc => loopInv_write s j k _ (fun d' hd' => ⟨cur, hcur, by cases hd'; rfl⟩) _ _ inTD err pc hs
            split
            · exact loopInv_next _ j k d rest inTD (inTD + 1) err err (hw _) (fun _ hi => by cases hi)
            · refine ⟨loopInv_keep _ j k d rest inTD err (hw _), ?_⟩
              intro cur' hcur'
              simp only [updD, and_self, if_true, Option.some.injEq] at hcur'
              rw [← hcur']

theorem ctl_remDestroy (r : Rules) (s : Sys m) (c : Choice) (hs : pcInv s) (j : Nat) (k : Fin m)
    (rest : List (Fin m × ADep)) (inTD : Nat) (err : Bool)
    (hpc : s.pc = .remDestroy j k rest inTD err) : pcInv (ctlWith r s c) := by
  simp only [pcInv, hpc] at hs
  obtain ⟨⟨h1, h2, h3, h4, h5⟩, _⟩ := hs
  simp only [ctlWith, hpc]
  split
  · exact ⟨h1, h2, h3, h4, fun he => by cases he⟩
  · split
    · rename_i hnone
      refine ⟨h1, h2, h3, h4, ?_⟩
      intro he hi k' d' hd hown
      rcases List.mem_cons.1 (h5 he hi k' d' hd hown) with hkk | hmem
      · subst hkk; rw [hnone] at hd; cases hd
      · exact hmem
    · rename_i cur hcur
      split
      · exact ⟨h1, h2, h3, h4, fun he => by cases he⟩
      · have hw := loopInv_write s j k none (fun d' hd' => by cases hd') (k :: ids rest) rest inTD err
          (.remLoop j rest inTD err) ⟨h1, h2, h3, h4, h5⟩
        obtain ⟨g1, g2, g3, g4, g5⟩ := hw
        refine ⟨g1, g2, g3, g4, ?_⟩
        intro he hi k' d' hd hown
        rcases List.mem_cons.1 (g5 he hi k' d' hd hown) with hkk | hmem
        · subst hkk; simp [updD] at hd
        · exact hmem

theorem ctl_decide (r : Rules) (hr : GoodRules r) (s : Sys m) (c : Choice) (hs : pcInv s) (res : HRes)
    (hpc : s.pc = .decide res) : pcInv (ctlWith r s c) := by
  simp only [pcInv, hpc] at hs
  simp only [ctlWith, hpc]
  split
  · rename_i hrel
    exact hs (hr.release res hrel)
  · trivial

theorem ctl_release (r : Rules) (s : Sys m) (c : Choice) (hpc : s.pc = .release) : pcInv (ctlWith r s c) := by
  simp only [ctlWith, hpc]
  repeat' split
  all_goals trivial

theorem safe_ctl (r : Rules) (hr : GoodRules r) (s : Sys m) (c : Choice) (hs : pcInv s) : pcInv (ctlWith r s c) := by
  cases hpc : s.pc with
  | idle => exact ctl_idle r s c hs hpc
  | gotIn i => exact ctl_gotIn r s c hs i hpc
  | handler j => exact ctl_handler r hr s c hs j hpc
  | remLoop j todo inTD err =>
    cases todo with
    | nil => exact ctl_remLoop_nil r hr s c hs j inTD err hpc
    | cons p rest => obtain ⟨k, d⟩ := p; exact ctl_remLoop_cons r s c hs j k d rest inTD err hpc
  | remDestroy j k rest inTD err => exact ctl_remDestroy r s c hs j k rest inTD err hpc
  | decide res => exact ctl_decide r hr s c hs res hpc
  | release => exact ctl_release r s c hpc

theorem safe_stepWith (r : Rules) (hr : GoodRules r) (s : Sys m) (a : Act m) (hs : pcInv s) : pcInv (stepWith r s a) := by
  cases a with
  | ctl c => exact safe_ctl r hr s c hs
  | env e => exact safe_env s e hs

theorem safe_runWith (r : Rules) (hr : GoodRules r) (as : List (Act m)) : ∀ s, pcInv s → pcInv (runWith r s as) := by
  induction as with
  | nil => intro s h; exact h
  | cons a as ih => intro s h; exact ih _ (safe_stepWith r hr s a h)

/-- a controller action removes the controller's finalizer only as the RemoveFinalizer step of processInput -/
theorem ctl_keeps_fin (r : Rules) (s : Sys m) (c : Choice) (h1 : hasFin s = true) (h2 : hasFin (ctlWith r s c) = false) :
    s.pc = .release := by
  cases hpc : s.pc with
  | release => rfl
  | idle => simp only [ctlWith, hpc] at h2; split at h2 <;> simp_all [hasFin]
  | gotIn i =>
    simp only [ctlWith, hpc] at h2
    repeat' split at h2
    all_goals simp_all [hasFin]
  | handler j =>
    simp only [ctlWith, hpc] at h2
    repeat' split at h2
    all_goals (try simp only [finish] at h2)
    all_goals (repeat' split at h2)
    all_goals simp_all [hasFin]
  | remLoop j todo inTD err =>
    cases todo with
    | nil =>
      simp only [ctlWith, hpc, finish] at h2
      repeat' split at h2
      all_goals simp_all [hasFin]
    | cons p rest =>
      obtain ⟨k, d⟩ := p
      simp only [ctlWith, hpc] at h2
      repeat' split at h2
      all_goals simp_all [hasFin]
  | remDestroy j k rest inTD err =>
    simp only [ctlWith, hpc] at h2
    repeat' split at h2
    all_goals simp_all [hasFin]
  | decide res =>
    simp only [ctlWith, hpc] at h2
    repeat' split at h2
    all_goals simp_all [hasFin]

theorem env_hasFin (s : Sys m) (e : Env m) (h : hasFin s = true) : hasFin (env s e) = true := by
  cases e <;> simp only [env] <;> (repeat' split) <;> simp_all [hasFin]

/-! ### trace inclusion: `CL.writeOk` covers every write of the machine -/

theorem sameExceptD_updD (hn : Nat) (f : Nat → Fin m → Option ADep) (j : Nat) (k : Fin m) (v : Option ADep) :
    sameExceptD hn f (updD f j k v) j k = true := by
  simp only [sameExceptD, List.all_eq_true, Bool.or_eq_true, Bool.and_eq_true, beq_iff_eq]
  intro j' _ k' _
  by_cases h : j' = j ∧ k' = k
  · exact Or.inl h
  · exact Or.inr (by simp [updD, h])

theorem cleanOn_of_allClean (s : Sys m) (h : allClean s) : cleanOn s.hs s.deps = true := by
  simp only [cleanOn, List.all_eq_true]
  intro j _
  cases hh : s.hs[j]? with
  | none => rfl
  | some hk =>
    simp only [List.all_eq_true]
    intro k _
    cases hd : s.deps j k with
    | none => rfl
    | some d => simp [h j hk hh k d hd]

theorem tdFinOn_of_tdFin (s : Sys m) (h : tdFin s) : tdFinOn s.inp = true := by
  obtain ⟨i, hi, hp, hf⟩ := h
  simp [tdFinOn, hi, hp, hf]

theorem lt_of_getElem? {α : Type} (l : List α) (j : Nat) (a : α) (h : l[j]? = some a) : j < l.length := by
  rcases Nat.lt_or_ge j l.length with hlt | hge
  · exact hlt
  · rw [List.getElem?_eq_none hge] at h; cases h

theorem w_depWrite (hs : List HKind) (inp : Option AIn) (deps : Nat → Fin m → Option ADep) (j : Nat) (k : Fin m)
    (d : ADep) (v : Option ADep) (htd : tdFinOn inp = true) (hh : hs[j]? = some .removeOutputs) (hd : deps j k = some d)
    (hown : d.owned = false)
    (hv : (d.phase = .running ∧ v = some { d with phase := .tearingDown }) ∨
          (d.phase = .tearingDown ∧ d.foreign = false ∧ v = none)) :
    writeOk hs inp inp deps (updD deps j k v) = true := by
  simp only [writeOk, Bool.or_eq_true, Bool.and_eq_true]
  right
  refine ⟨⟨by simp, htd⟩, ?_⟩
  simp only [List.any_eq_true, Bool.and_eq_true]
  refine ⟨j, List.mem_range.2 (lt_of_getElem? _ _ _ hh), by simp [hh], k, TF.mem_allFin k, sameExceptD_updD _ _ _ _ _, ?_⟩
  rcases hv with ⟨hp, rfl⟩ | ⟨hp, hf, rfl⟩
  · simp [hd, updD, hown, hp]
  · simp [hd, updD, hown, hp, hf]

/-- the action changed nothing in the store -/
def Unch (s s' : Sys m) : Prop := s'.inp = s.inp ∧ ∀ j k, s'.deps j k = s.deps j k

theorem finish_unch (r : Rules) (s : Sys m) (j : Nat) (res : HRes) : Unch s (finish r s j res) := by
  unfold finish
  repeat' split
  all_goals exact ⟨rfl, fun _ _ => rfl⟩

theorem ph_running_of_ne {p : Ph} (h : ¬ p = .tearingDown) : p = .running := by
  cases p <;> simp_all

/-- **soundness of the trace check**: whatever a controller action does to the store from a state satisfying the
    invariant — under ANY rules — is no change at all or passes `CL.writeOk`: AddFinalizer on the input; Teardown
    of a running unowned dependent of a RemoveOutputs sub-handler, or Destroy of a tearing-down one without
    finalizers, both only while the input is tearing down and carries the finalizer; RemoveFinalizer only when no
    dependent any sub-handler is responsible for exists -/
theorem machine_writes_ok (r : Rules) (s : Sys m) (c : Choice) (hs : pcInv s) :
    Unch s (ctlWith r s c) ∨ writeOk s.hs s.inp (ctlWith r s c).inp s.deps (ctlWith r s c).deps = true := by
  cases hpc : s.pc with
  | idle => left; simp only [ctlWith, hpc]; split <;> exact ⟨rfl, fun _ _ => rfl⟩
  | gotIn i =>
    simp only [ctlWith, hpc]
    repeat' split
    all_goals (first | exact Or.inl ⟨rfl, fun _ _ => rfl⟩ | skip)
    rename_i cur hcur _
    right
    simp [writeOk, hcur]
  | handler j =>
    left
    simp only [ctlWith, hpc]
    repeat' split
    all_goals (first | exact finish_unch r s j _ | exact ⟨rfl, fun _ _ => rfl⟩)
  | remLoop j todo inTD err =>
    cases todo with
    | nil => left; simp only [ctlWith, hpc]; exact finish_unch r s j _
    | cons p rest =>
      obtain ⟨k, d⟩ := p
      simp only [pcInv, hpc] at hs
      have htd := tdFinOn_of_tdFin s hs.1
      have hh := hs.2.2.1
      simp only [ctlWith, hpc]
      split
      · exact Or.inl ⟨rfl, fun _ _ => rfl⟩
      · split
        · exact Or.inl ⟨rfl, fun _ _ => rfl⟩
        · split
          · exact Or.inl ⟨rfl, fun _ _ => rfl⟩
          · rename_i cur hcur
            split
            · split <;> exact Or.inl ⟨rfl, fun _ _ => rfl⟩
            · rename_i hph
              split
              · exact Or.inl ⟨rfl, fun _ _ => rfl⟩
              · rename_i hown
                have hw := w_depWrite s.hs s.inp s.deps j k cur (some { cur with phase := .tearingDown }) htd hh hcur
                  (by simpa using hown) (Or.inl ⟨ph_running_of_ne hph, rfl⟩)
                split <;> exact Or.inr hw
  | remDestroy j k rest inTD err =>
    simp only [pcInv, hpc] at hs
    have htd := tdFinOn_of_tdFin s hs.1.1
    have hh := hs.1.2.2.1
    simp only [ctlWith, hpc]
    split
    · exact Or.inl ⟨rfl, fun _ _ => rfl⟩
    · split
      · exact Or.inl ⟨rfl, fun _ _ => rfl⟩
      · rename_i cur hcur
        split
        · exact Or.inl ⟨rfl, fun _ _ => rfl⟩
        · rename_i hok
          simp only [Bool.or_eq_true, not_or, Bool.not_eq_true] at hok
          exact Or.inr (w_depWrite s.hs s.inp s.deps j k cur none htd hh hcur hok.1 (Or.inr ⟨hs.2 cur hcur, hok.2, rfl⟩))
  | decide res => left; simp only [ctlWith, hpc]; split <;> exact ⟨rfl, fun _ _ => rfl⟩
  | release =>
    simp only [pcInv, hpc] at hs
    obtain ⟨⟨i, hi, hp, hf⟩, hclean, _⟩ := hs
    simp only [ctlWith, hpc, hi]
    split
    · exact Or.inl ⟨hi.symm, fun _ _ => rfl⟩
    · right
      simp [writeOk, hp, hf, cleanOn_of_allClean s hclean]

/-! ### C07 for the machine of the CURRENT source text (`step = stepWith genRules`) -/

/-- the regenerated rules are the good ones (fails when the source text deviates) -/
macro "cl_rules_ok" : tactic =>
  `(tactic| exact ⟨by intro res; cases res <;> decide,
      by intro res h; cases res <;> first | rfl | exact absurd h (by decide)⟩)

theorem genRules_good : GoodRules genRules := by cl_rules_ok

theorem init_safe (m : Nat) (hs : List HKind) : pcInv (init m hs) := trivial

/-- the invariant holds after EVERY schedule -/
theorem safe_run (s0 : Sys m) (h0 : pcInv s0) (as : List (Act m)) : pcInv (run s0 as) :=
  safe_runWith genRules (by cl_rules_ok) as s0 h0

/-- **cleanup_release_after_handler**: whenever processInput is about to call RemoveFinalizer, EVERY sub-handler
    of the (combined) removal handler has run in this very processInput and returned nil, the input is tearing
    down and carries the finalizer -/
theorem cleanup_release_after_handler (s0 : Sys m) (h0 : pcInv s0) (as : List (Act m))
    (hpc : (run s0 as).pc = .release) :
    (run s0 as).results.length = (run s0 as).hs.length ∧ (∀ x, x ∈ (run s0 as).results → x = .ok) ∧ tdFin (run s0 as) := by
  have h : pcInv (run s0 as) := safe_runWith genRules (by cl_rules_ok) as s0 h0
  simp only [pcInv, hpc] at h
  exact ⟨h.2.2.1, h.2.2.2, h.1⟩

/-- **dependent outputs gone**: … and at that moment no dependent that any sub-handler is responsible for
    exists (HasNoOutputs: none of its kind; RemoveOutputs: no unowned one of its kind) -/
theorem cleanup_release_dependents_gone (s0 : Sys m) (h0 : pcInv s0) (as : List (Act m))
    (hpc : (run s0 as).pc = .release) (j : Nat) (h : HKind) (hh : (run s0 as).hs[j]? = some h)
    (k : Fin m) (d : ADep) (hd : (run s0 as).deps j k = some d) : resp h d = false := by
  have hI : pcInv (run s0 as) := safe_runWith genRules (by cl_rules_ok) as s0 h0
  simp only [pcInv, hpc] at hI
  exact hI.2.1 j h hh k d hd

/-- the same about the write itself: a controller action that takes the finalizer off the input happens in a state
    where every sub-handler has returned nil in this processInput and the dependents are gone -/
theorem cleanup_release_write_after_handler (s0 : Sys m) (h0 : pcInv s0) (as : List (Act m)) (c : Choice)
    (h1 : hasFin (run s0 as) = true) (h2 : hasFin (step (run s0 as) (.ctl c)) = false) :
    allOk (run s0 as) ∧ allClean (run s0 as) := by
  have hpc := ctl_keeps_fin genRules (run s0 as) c h1 h2
  have hI : pcInv (run s0 as) := safe_runWith genRules (by cl_rules_ok) as s0 h0
  simp only [pcInv, hpc] at hI
  exact ⟨hI.2.2, hI.2.1⟩

/-- **the finalizer is held while a dependent exists**: in a reachable state where the input carries the
    finalizer and a dependent some sub-handler is responsible for exists, NO action takes the finalizer off -/
theorem cleanup_fin_held_while_dependents (s0 : Sys m) (h0 : pcInv s0) (as : List (Act m)) (a : Act m)
    (hfin : hasFin (run s0 as) = true) (j : Nat) (h : HKind) (hh : (run s0 as).hs[j]? = some h)
    (k : Fin m) (d : ADep) (hd : (run s0 as).deps j k = some d) (hresp : resp h d = true) :
    hasFin (step (run s0 as) a) = true := by
  cases a with
  | env e => exact env_hasFin _ e hfin
  | ctl c =>
    cases hf : hasFin (step (run s0 as) (.ctl c)) with
    | true => rfl
    | false =>
      have := (cleanup_release_write_after_handler s0 h0 as c hfin hf).2 j h hh k d hd
      rw [this] at hresp; cases hresp

def c : Act 1 := .ctl {}

/-! ### non-vacuity and a quirk of the code that exists -/

/-- the release state is reachable, with both sub-handlers having returned nil after RemoveOutputs tore down and
    destroyed a dependent -/
example :
    let s := run (init 1 [.hasNoOutputs, .removeOutputs])
      [.env (.createIn false), c, c, .env (.createDep 1 0 false), .env .teardownIn, c, c, c, c, c, c, c, c]
    s.pc = .release ∧ s.results = [.ok, .ok] ∧ s.deps 1 0 = none ∧ hasFin s = true := by decide

/-- a dependent held by a foreign finalizer keeps the controller's finalizer on the input -/
example :
    let s := run (init 1 [.removeOutputs])
      [.env (.createIn false), c, c, .env (.createDep 0 0 false), .env (.setForeignDep 0 0 true), .env .teardownIn,
       c, c, c, c, c, c]
    s.pc = .idle ∧ s.results = [.pending] ∧ s.deps 0 0 = some ⟨false, .tearingDown, true⟩ ∧ hasFin s = true := by decide

/-- QUIRK (cleanup.go:320, transcribed): RemoveOutputs skips a dependent that has an owner without counting it, so
    its success does not say that OWNED dependents are gone — `resp .removeOutputs d = !d.owned` -/
example :
    let s := run (init 1 [.removeOutputs])
      [.env (.createIn false), c, c, .env (.createDep 0 0 true), .env .teardownIn, c, c, c, c, c, c, c]
    s.deps 0 0 = some ⟨true, .running, false⟩ ∧ hasFin s = false := by decide

/-! ### the seeded Combine rule breaks the clause (kernel-checked) -/

/-- seeded change C07-b: Combine keeps iterating after a SkipReconcile-tagged result (only other errors return
    early) and returns the LAST sub-handler's result -/
def c07bRules : Rules :=
  { goodRules with combineStops := fun r => r == .error, combineFinal := fun rs => rs.getLast?.getD .ok }

/-- Combine(HasNoOutputs[B], RemoveOutputs[C]); the input gets the finalizer, a dependent of kind B is created,
    the input is torn down; processInput: HasNoOutputs[B] is pending, RemoveOutputs[C] finds nothing and succeeds -/
def combineSched : List (Act 1) :=
  [.env (.createIn false), c, c,                 -- List inputs; AddFinalizer
   .env (.createDep 0 0 false), .env .teardownIn,
   c, c,                                         -- List inputs; tearing down with the finalizer → handler
   c,                                            -- HasNoOutputs[B]: List → one item → "waiting" (SkipReconcileTag)
   c, c,                                         -- RemoveOutputs[C]: List → nothing; loop ends → nil
   c, c]                                         -- processInput's switch; RemoveFinalizer

/-- **C07-b witness**: with the seeded Combine rule the finalizer is released while the dependent of the first
    sub-handler still exists, and the input can then be destroyed -/
theorem c07b_witness :
    let s := runWith c07bRules (init 1 [.hasNoOutputs, .removeOutputs]) combineSched
    s.deps 0 0 = some ⟨false, .running, false⟩ ∧ hasFin s = false ∧ s.results = [.pending, .ok] ∧
    (env s .destroyIn).inp = none := by decide

/-- the same schedule with the rules of the unchanged tree: Combine stops at the pending sub-handler, the
    finalizer stays, the input cannot be destroyed -/
theorem c07b_schedule_safe_on_good_rules :
    let s := runWith goodRules (init 1 [.hasNoOutputs, .removeOutputs]) combineSched
    hasFin s = true ∧ s.results = [.pending] ∧ (env s .destroyIn).inp ≠ none := by decide

/-- releasing on a SkipReconcile-tagged result (processInput's switch gone wrong) -/
def eagerRules : Rules := { goodRules with releaseOn := fun r => r != .error }

theorem eager_release_witness :
    let s := runWith eagerRules (init 1 [.hasNoOutputs]) [.env (.createIn false), c, c, .env (.createDep 0 0 false),
      .env .teardownIn, c, c, c, c, c]
    s.deps 0 0 = some ⟨false, .running, false⟩ ∧ hasFin s = false := by decide

end Cosi.C07C
