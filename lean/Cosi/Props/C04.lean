/-
  Property C04 — read-modify-write helpers are atomic under contention.

  System: any number of helper calls (UpdateWithConflicts, Modify, Add/RemoveFinalizer,
  Teardown — the machines of Cosi.Model.Wrap, which the engine `helpers` compares with
  wrap.go action by action) on one resource, scheduled one store operation at a time in
  ANY order, interleaved with arbitrary environment creates/updates.

    success_applied_once   every committed write = its mutator applied to the value stored
                           immediately before that write, version bumped by exactly one
    no_lost_update         final value = fold of the committed mutators in commit order
    error_no_effect / error_means_no_commit
                           a call that wrote, wrote once and returned success; an erroring call wrote nothing
    no_retry_into_success  only plain version conflicts are retried; owner/phase conflicts end the call
    stepActor_get          the abstract system is what the driver's HSys.stepActor does

  Scope (explicit hypothesis `envOk`): no Destroy of the contended resource by the
  environment — after destroy + re-create the version restarts at 1 and a stale Update
  can succeed on the new incarnation (ABA); C04 quantifies over concurrent helper calls.
-/
import Cosi.Model.Wrap
import Cosi.Props.C01
open Cosi
namespace Cosi.C04

theorem afterUwc_pc (l : Local) (res : Except String Res) :
    (∃ r, (l.afterUwc res).pc = .done r) ∨ (l.afterUwc res).pc = .destroy ∨ (l.afterUwc res).pc = .watchStart := by
  unfold Local.afterUwc
  split <;> (try split) <;> simp

theorem afterUwc_call (l : Local) (res : Except String Res) : (l.afterUwc res).call = l.call := by
  unfold Local.afterUwc
  split <;> (try split) <;> rfl

theorem afterUwc_not_update (l : Local) (res : Except String Res) (c n : Res) :
    (l.afterUwc res).pc ≠ .uwcUpdate c n := by
  rcases afterUwc_pc l res with ⟨r, h⟩ | h | h <;> rw [h] <;> intro e <;> cases e

theorem afterUwc_not_create (l : Local) (res : Except String Res) (r : Res) :
    (l.afterUwc res).pc ≠ .create r := by
  rcases afterUwc_pc l res with ⟨r', h⟩ | h | h <;> rw [h] <;> intro e <;> cases e

theorem resume_call (l : Local) (resp : Resp) : (l.resume resp).call = l.call := by
  unfold Local.resume
  repeat' split
  all_goals first | rfl | exact afterUwc_call _ _

/-- the only way to arrive at "about to Update" is the Get of UpdateWithConflicts:
    the pending write is the mutator applied to exactly the value that Get returned -/
theorem resume_uwcUpdate (l : Local) (resp : Resp) (c n : Res)
    (hnot : ∀ c' n', l.pc ≠ .uwcUpdate c' n')
    (h : (l.resume resp).pc = .uwcUpdate c n) :
    (resp = .out (.res c) ∧ l.um.apply c = some n ∧ (l.resume resp).um = l.um) := by
  unfold Local.resume at h ⊢
  repeat' split at h
  all_goals first
    | exact absurd h (afterUwc_not_update _ _ _ _)
    | (simp only at h; cases h)
    | skip
  all_goals first
    | exact absurd h (hnot _ _)
    | (simp_all; done)
    | (simp_all; split <;> simp_all [Local.afterUwc])

theorem resume_create (l : Local) (resp : Resp) (r : Res)
    (hnot : ∀ r', l.pc ≠ .create r')
    (h : (l.resume resp).pc = .create r) :
    ∃ r0 m o e, l.call = .modify r0 m o e ∧ m.apply r0 = some r := by
  unfold Local.resume at h
  repeat' split at h
  all_goals first
    | exact absurd h (afterUwc_not_create _ _ _)
    | exact absurd h (hnot _)
    | (simp only at h; cases h)
    | skip
  all_goals exact ⟨_, _, _, _, by assumption, by assumption⟩

/-- mutators never touch identity or version -/
theorem mut_keeps (m : Mut) (r r' : Res) (h : m.apply r = some r') :
    r'.ns = r.ns ∧ r'.typ = r.typ ∧ r'.id = r.id ∧ r'.ver = r.ver ∧ r'.created = r.created := by
  cases m <;> simp [Mut.apply] at h <;> (try subst h) <;> simp

/-! ### exact results of the store's write operations -/

theorem update_wrote (cfg : Cfg) (s : Store) (now : Nat) (r : Res) (owner : String) (exp : Option Phase) (r' : Res)
    (h : (Cosi.step cfg s now (.update r owner exp)).2 = .wrote r') :
    ∃ c, s.get (r.key cfg) = some c ∧ c.owner = owner ∧ c.ver = r.ver ∧
      r' = { r with ver := some (r.ver.getD 0 + 1), updated := now, created := c.created } ∧
      (Cosi.step cfg s now (.update r owner exp)).1 = s.put (r.key cfg) r' := by
  rw [C01.step_eq_spec] at h ⊢
  simp only [Spec.step] at h ⊢
  cases hg : s.get (r.key cfg) with
  | none => simp [hg, Spec.err] at h
  | some c =>
    simp only [hg] at h ⊢
    by_cases h1 : c.owner ≠ owner
    · simp [h1, Spec.err] at h
    · by_cases h2 : c.ver ≠ r.ver
      · simp [h1, h2, Spec.err] at h
      · by_cases h3 : exp.isSome = true ∧ exp ≠ some c.phase
        · simp [h1, h2, h3, Spec.err] at h
        · simp only [h1, h2, h3, if_false] at h ⊢
          injection h with h
          exact ⟨c, rfl, by simpa using h1, by simpa using h2, h.symm, by rw [h]⟩

theorem update_err_or_wrote (cfg : Cfg) (s : Store) (now : Nat) (r : Res) (owner : String) (exp : Option Phase) :
    (∃ r', (Cosi.step cfg s now (.update r owner exp)).2 = .wrote r') ∨
    (∃ e, (Cosi.step cfg s now (.update r owner exp)).2 = .err e ∧
      (Cosi.step cfg s now (.update r owner exp)).1 = s) := by
  rw [C01.step_eq_spec]
  simp only [Spec.step]
  repeat' split
  all_goals first
    | exact Or.inr ⟨_, rfl, rfl⟩
    | exact Or.inl ⟨_, rfl⟩

theorem create_wrote (cfg : Cfg) (s : Store) (now : Nat) (r : Res) (owner : String) (r' : Res)
    (h : (Cosi.step cfg s now (.create r owner)).2 = .wrote r') :
    s.get (r.key cfg) = none ∧ r' = { r with owner := owner, ver := some 1, created := now } ∧
      (Cosi.step cfg s now (.create r owner)).1 = s.put (r.key cfg) r' := by
  rw [C01.step_eq_spec] at h ⊢
  simp only [Spec.step] at h ⊢
  by_cases h1 : r.owner ≠ "" ∧ r.owner ≠ owner
  · simp [h1, Spec.err] at h
  · cases hg : s.get (r.key cfg) with
    | some c => simp [h1, hg, Spec.err] at h
    | none =>
      simp only [h1, hg, if_false, Option.isSome_none, Bool.false_eq_true] at h ⊢
      injection h with h
      exact ⟨trivial, h.symm, by rw [h]⟩

theorem create_err_or_wrote (cfg : Cfg) (s : Store) (now : Nat) (r : Res) (owner : String) :
    (∃ r', (Cosi.step cfg s now (.create r owner)).2 = .wrote r') ∨
    (∃ e, (Cosi.step cfg s now (.create r owner)).2 = .err e ∧
      (Cosi.step cfg s now (.create r owner)).1 = s) := by
  rw [C01.step_eq_spec]
  simp only [Spec.step]
  repeat' split
  all_goals first
    | exact Or.inr ⟨_, rfl, rfl⟩
    | exact Or.inl ⟨_, rfl⟩

/-! ### the contended system -/

/-- helper calls of C04: the read-modify-write family (no destroy, no watch) -/
def isRmw : HCall → Bool
  | .uwc .. | .teardown .. | .addFin .. | .removeFin .. | .modify .. => true
  | _ => false

/-- a committed write to the contended key, with the mutator of the
    UpdateWithConflicts that produced it (ghost) -/
structure Commit where
  actor : Nat
  old : Option Res        -- value stored immediately before (none: absent — a Create)
  new : Res               -- value stored immediately after
  m : Mut
  now : Nat

structure CSys where
  store : Store
  actors : List Local
  commits : List Commit := []

inductive Sched where
  | actor (i : Nat)
  | env (op : Op)

def logCommit (cs : List Commit) (i : Nat) (old : Option Res) (m : Mut) (now : Nat) : Out → List Commit
  | .wrote r' => cs ++ [{ actor := i, old := old, new := r', m := m, now := now }]
  | _ => cs

/-- one scheduled step: actor `i` performs its next store operation atomically
    (exactly what `HSys.stepActor` does to the store and to the actor), or an
    environment actor performs an arbitrary operation. -/
def CSys.step (cfg : Cfg) (s : CSys) (now : Nat) : Sched → CSys
  | .env op => { s with store := (Cosi.step cfg s.store now op).1 }
  | .actor i =>
    match s.actors[i]? with
    | none => s
    | some l =>
      match l.req with
      | some (.get ns typ id) =>
        { s with actors := s.actors.set i (l.resume (.out (Cosi.step cfg s.store now (.get ns typ id)).2)) }
      | some (.update r owner exp) =>
        { s with store := (Cosi.step cfg s.store now (.update r owner exp)).1,
                 actors := s.actors.set i (l.resume (.out (Cosi.step cfg s.store now (.update r owner exp)).2)),
                 commits := logCommit s.commits i (s.store.get (r.key cfg)) l.um now
                              (Cosi.step cfg s.store now (.update r owner exp)).2 }
      | some (.create r owner) =>
        { s with store := (Cosi.step cfg s.store now (.create r owner)).1,
                 actors := s.actors.set i (l.resume (.out (Cosi.step cfg s.store now (.create r owner)).2)),
                 commits := logCommit s.commits i (s.store.get (r.key cfg)) l.um now
                              (Cosi.step cfg s.store now (.create r owner)).2 }
      | _ => s

def CSys.run (cfg : Cfg) (s : CSys) (t0 : Nat) : List Sched → CSys
  | [] => s
  | x :: xs => CSys.run cfg (s.step cfg t0 x) (t0 + 1) xs

/-- the stored value after an Update of mutated copy `n` over `old` -/
def bump (n old : Res) (now : Nat) : Res :=
  { n with ver := some (old.ver.getD 0 + 1), updated := now, created := old.created }

/-- **applied exactly on top of the then-current value**: the value a helper wrote is
    its mutator applied to the value stored immediately before the write -/
def Commit.ok (c : Commit) : Prop :=
  match c.old with
  | some old => ∃ n, c.m.apply old = some n ∧ c.new = bump n old c.now
  | none => True

/-- environment operations on the contended key; C04 quantifies over concurrent
    helper calls and arbitrary writes, not over destroys (ABA, see DESIGN C04) -/
def envOk (cfg : Cfg) (k : Key) : Op → Prop
  | .create r _ => r.key cfg = k
  | .update r _ _ => r.key cfg = k
  | .get .. => True
  | .list .. => True
  | .destroy .. => False

def schedOk (cfg : Cfg) (k : Key) : Sched → Prop
  | .actor _ => True
  | .env op => envOk cfg k op

def ptrKey (cfg : Cfg) (c : HCall) : Key := cfg.key c.ptr.1 c.ptr.2.1 c.ptr.2.2

structure Inv (cfg : Cfg) (k : Key) (s : CSys) : Prop where
  stored : ∀ c, s.store.get k = some c → c.ver.isSome = true ∧ c.key cfg = k
  ptr : ∀ l ∈ s.actors, ptrKey cfg l.call = k ∧ isRmw l.call = true
  pending : ∀ l ∈ s.actors, ∀ cur new, l.pc = .uwcUpdate cur new →
      cur.key cfg = k ∧ l.um.apply cur = some new ∧
      ∃ c, s.store.get k = some c ∧ cur.ver.getD 0 ≤ c.ver.getD 0 ∧ (cur.ver = c.ver → cur = c)
  creating : ∀ l ∈ s.actors, ∀ r, l.pc = .create r → r.key cfg = k
  commits : ∀ c ∈ s.commits, c.ok

theorem mem_set {α} (l : List α) (i : Nat) (a b : α) (h : a ∈ l.set i b) : a ∈ l ∨ a = b := by
  rcases List.mem_or_eq_of_mem_set h with h | h
  · exact Or.inl h
  · exact Or.inr h

theorem key_of_mut (cfg : Cfg) (m : Mut) (r r' : Res) (h : m.apply r = some r') : r'.key cfg = r.key cfg := by
  obtain ⟨a, b, c, _, _⟩ := mut_keeps m r r' h
  simp [Res.key, a, b, c]

/-- a write to the contended key that bumps the version keeps every other actor's
    pending read consistent (its premise "same version" becomes false) -/
theorem pending_after_write (cfg : Cfg) (k : Key) (st : Store) (c r' : Res) (hget : st.get k = some c)
    (hver : r'.ver = some (c.ver.getD 0 + 1)) (l : Local) (cur new : Res)
    (h : cur.key cfg = k ∧ l.um.apply cur = some new ∧
      ∃ c, st.get k = some c ∧ cur.ver.getD 0 ≤ c.ver.getD 0 ∧ (cur.ver = c.ver → cur = c)) :
    cur.key cfg = k ∧ l.um.apply cur = some new ∧
      ∃ c', (st.put k r').get k = some c' ∧ cur.ver.getD 0 ≤ c'.ver.getD 0 ∧ (cur.ver = c'.ver → cur = c') := by
  obtain ⟨h1, h2, c0, h3, h4, _⟩ := h
  rw [hget] at h3; injection h3 with h3; subst h3
  refine ⟨h1, h2, r', C01.get_put_self _ _ _, ?_, ?_⟩
  · rw [hver]; simp only [Option.getD_some]; omega
  · intro e; rw [hver] at e; rw [e] at h4; simp only [Option.getD_some] at h4; omega

/-- generic: installing a new store (after a successful version-bumping write of
    `r'` over `c` at key `k`, or unchanged) and replacing one actor -/
theorem inv_env (cfg : Cfg) (k : Key) (s : CSys) (now : Nat) (op : Op) (hop : envOk cfg k op)
    (h : Inv cfg k s) : Inv cfg k (s.step cfg now (.env op)) := by
  obtain ⟨hs, hp, hpend, hcr, hco⟩ := h
  cases op with
  | get ns typ id =>
    have : (Cosi.step cfg s.store now (.get ns typ id)).1 = s.store := by
      rw [C01.step_eq_spec]; simp only [Spec.step]; split <;> rfl
    exact ⟨by simpa [CSys.step, this] using hs, hp, by simpa [CSys.step, this] using hpend, hcr, hco⟩
  | list ns typ sel =>
    exact ⟨hs, hp, hpend, hcr, hco⟩
  | destroy ns typ id o => exact absurd hop (by simp [envOk])
  | create r o =>
    have hk : r.key cfg = k := hop
    rcases create_err_or_wrote cfg s.store now r o with ⟨r', hw⟩ | ⟨e, _, hst⟩
    · obtain ⟨habs, hr', hst⟩ := create_wrote cfg s.store now r o r' hw
      rw [hk] at habs hst
      refine ⟨?_, hp, ?_, hcr, hco⟩
      · intro c hc
        simp only [CSys.step, hst, C01.get_put_self] at hc
        injection hc with hc; subst hc
        rw [hr']; exact ⟨rfl, hk⟩
      · intro l hl cur new hpc
        obtain ⟨_, _, c, hc, _⟩ := hpend l hl cur new hpc
        rw [habs] at hc; cases hc
    · exact ⟨by simpa [CSys.step, hst] using hs, hp, by simpa [CSys.step, hst] using hpend, hcr, hco⟩
  | update r o e =>
    have hk : r.key cfg = k := hop
    rcases update_err_or_wrote cfg s.store now r o e with ⟨r', hw⟩ | ⟨e', _, hst⟩
    · obtain ⟨c, hget, _, hver, hr', hst⟩ := update_wrote cfg s.store now r o e r' hw
      rw [hk] at hget hst
      have hrv : r'.ver = some (c.ver.getD 0 + 1) := by rw [hr', hver]
      refine ⟨?_, hp, ?_, hcr, hco⟩
      · intro c' hc
        simp only [CSys.step, hst, C01.get_put_self] at hc
        injection hc with hc; subst hc
        refine ⟨by rw [hrv]; rfl, ?_⟩
        rw [hr']; exact hk
      · intro l hl cur new hpc
        simp only [CSys.step, hst]
        exact pending_after_write cfg k s.store c r' hget hrv l cur new (hpend l hl cur new hpc)
    · exact ⟨by simpa [CSys.step, hst] using hs, hp, by simpa [CSys.step, hst] using hpend, hcr, hco⟩

theorem req_get (l : Local) (ns typ id : String) (h : l.req = some (.get ns typ id)) :
    (l.pc = .get0 ∨ l.pc = .uwcGet) ∧ l.call.ptr = (ns, typ, id) := by
  unfold Local.req at h
  cases hpc : l.pc <;> rw [hpc] at h <;> simp only at h
  all_goals first
    | (injection h with h; injection h with h1 h2 h3
       exact ⟨by simp, by rw [← h1, ← h2, ← h3]⟩)
    | (repeat' split at h) <;> first | cases h | (injection h with h; cases h)
    | cases h
    | (injection h with h; cases h)

theorem req_update (l : Local) (r : Res) (o : String) (e : Option Phase) (h : l.req = some (.update r o e)) :
    ∃ cur, l.pc = .uwcUpdate cur r := by
  unfold Local.req at h
  cases hpc : l.pc <;> rw [hpc] at h <;> simp only at h
  all_goals first
    | (injection h with h; injection h with h1 h2 h3; subst h1; exact ⟨_, rfl⟩)
    | (repeat' split at h) <;> first | cases h | (injection h with h; cases h)
    | cases h
    | (injection h with h; cases h)

theorem req_create (l : Local) (r : Res) (o : String) (h : l.req = some (.create r o)) :
    l.pc = .create r := by
  unfold Local.req at h
  cases hpc : l.pc <;> rw [hpc] at h <;> simp only at h
  all_goals first
    | ((repeat' split at h) <;> simp_all)
    | simp_all

/-- after the Update's response the actor is never again "about to update" without a fresh Get -/
theorem resume_after_update (l : Local) (cur new : Res) (o : Out) (hpc : l.pc = .uwcUpdate cur new)
    (ho : (∃ r', o = .wrote r') ∨ (∃ e, o = .err e)) :
    (∀ c n, (l.resume (.out o)).pc ≠ .uwcUpdate c n) ∧ (∀ r, (l.resume (.out o)).pc ≠ .create r) := by
  rcases ho with ⟨r', rfl⟩ | ⟨e, rfl⟩
  · have : l.resume (.out (.wrote r')) = l.afterUwc (.ok r') := by
      unfold Local.resume; rw [hpc]
    rw [this]; exact ⟨fun c n => afterUwc_not_update _ _ _ _, fun r => afterUwc_not_create _ _ _⟩
  · have : l.resume (.out (.err e)) =
        if errClass e = "conflict" then { l with pc := .uwcGet } else l.afterUwc (.error (errClass e)) := by
      unfold Local.resume; rw [hpc]
    rw [this]
    split
    · exact ⟨fun c n h => (by cases h), fun r h => (by cases h)⟩
    · exact ⟨fun c n => afterUwc_not_update _ _ _ _, fun r => afterUwc_not_create _ _ _⟩

theorem resume_after_create (l : Local) (r : Res) (o : Out) (hpc : l.pc = .create r)
    (ho : (∃ r', o = .wrote r') ∨ (∃ e, o = .err e)) :
    (∀ c n, (l.resume (.out o)).pc ≠ .uwcUpdate c n) ∧ (∀ r, (l.resume (.out o)).pc ≠ .create r) := by
  rcases ho with ⟨r', rfl⟩ | ⟨e, rfl⟩
  · have : l.resume (.out (.wrote r')) = { l with pc := .done (.okRes r') } := by
      unfold Local.resume; rw [hpc]
    rw [this]; exact ⟨fun c n h => (by cases h), fun r h => (by cases h)⟩
  · have : l.resume (.out (.err e)) = { l with pc := .done (.err (errClass e)) } := by
      unfold Local.resume; rw [hpc]
    rw [this]; exact ⟨fun c n h => (by cases h), fun r h => (by cases h)⟩

theorem inv_actor (cfg : Cfg) (k : Key) (s : CSys) (now i : Nat) (h : Inv cfg k s) :
    Inv cfg k (s.step cfg now (.actor i)) := by
  obtain ⟨hs, hp, hpend, hcr, hco⟩ := h
  simp only [CSys.step]
  cases hl : s.actors[i]? with
  | none => exact ⟨hs, hp, hpend, hcr, hco⟩
  | some l =>
    have hlm : l ∈ s.actors := List.mem_of_getElem? hl
    obtain ⟨hptr, hrmw⟩ := hp l hlm
    simp only
    cases hreq : l.req with
    | none => exact ⟨hs, hp, hpend, hcr, hco⟩
    | some req =>
      cases req with
      | recv => exact ⟨hs, hp, hpend, hcr, hco⟩
      | watch ns typ id => exact ⟨hs, hp, hpend, hcr, hco⟩
      | destroy ns typ id o => exact ⟨hs, hp, hpend, hcr, hco⟩
      | get ns typ id =>
        simp only
        obtain ⟨hpc, hptr'⟩ := req_get l ns typ id hreq
        have hkey : cfg.key ns typ id = k := by
          have := hptr; unfold ptrKey at this; rw [hptr'] at this; exact this
        have hnotU : ∀ c' n', l.pc ≠ .uwcUpdate c' n' := by
          intro c' n' e; rcases hpc with h | h <;> rw [h] at e <;> cases e
        have hnotC : ∀ r', l.pc ≠ .create r' := by
          intro r' e; rcases hpc with h | h <;> rw [h] at e <;> cases e
        have hout := C01.get_reads_store cfg s.store now ns typ id
        rw [hkey] at hout
        refine ⟨hs, ?_, ?_, ?_, hco⟩
        · intro l' hl'
          rcases mem_set _ _ _ _ hl' with h | h
          · exact hp l' h
          · rw [h, show ptrKey cfg (l.resume _).call = ptrKey cfg l.call by rw [resume_call], resume_call]
            exact ⟨hptr, hrmw⟩
        · intro l' hl' cur new hpc'
          rcases mem_set _ _ _ _ hl' with h | h
          · exact hpend l' h cur new hpc'
          · rw [h] at hpc' ⊢
            obtain ⟨hresp, hm, hum⟩ := resume_uwcUpdate l _ cur new hnotU hpc'
            injection hresp with hresp
            rw [hout] at hresp
            cases hg : s.store.get k with
            | none => rw [hg] at hresp; simp [Spec.err] at hresp
            | some c =>
              rw [hg] at hresp; simp only at hresp; injection hresp with hresp; subst hresp
              rw [hum]
              exact ⟨(hs c hg).2, hm, c, rfl, Nat.le_refl _, fun _ => rfl⟩
        · intro l' hl' r hpc'
          rcases mem_set _ _ _ _ hl' with h | h
          · exact hcr l' h r hpc'
          · rw [h] at hpc'
            obtain ⟨r0, m, o, e, hcall, hm⟩ := resume_create l _ r hnotC hpc'
            rw [key_of_mut cfg m r0 r hm]
            have := hptr; unfold ptrKey at this; rw [hcall] at this; exact this
      | update r o e =>
        simp only
        obtain ⟨cur, hpc⟩ := req_update l r o e hreq
        obtain ⟨hck, hm, c, hget, hle, heq⟩ := hpend l hlm cur r hpc
        have hrk : r.key cfg = k := by rw [key_of_mut cfg l.um cur r hm]; exact hck
        rcases update_err_or_wrote cfg s.store now r o e with ⟨r', hw⟩ | ⟨e', he, hst⟩
        · obtain ⟨c', hget', _, hver, hr', hst⟩ := update_wrote cfg s.store now r o e r' hw
          rw [hrk] at hget' hst
          rw [hget] at hget'; injection hget' with hget'; subst hget'
          have hcv : cur.ver = c.ver := by rw [← (mut_keeps l.um cur r hm).2.2.2.1]; exact hver.symm
          have hcc : cur = c := heq hcv
          have hrv : r'.ver = some (c.ver.getD 0 + 1) := by rw [hr', hver]
          obtain ⟨hnu, hnc⟩ := resume_after_update l cur r _ hpc (Or.inl ⟨r', hw⟩)
          refine ⟨?_, ?_, ?_, ?_, ?_⟩
          · intro c' hc
            simp only [hst, C01.get_put_self] at hc
            injection hc with hc; subst hc
            refine ⟨by rw [hrv]; rfl, ?_⟩
            rw [hr']; exact hrk
          · intro l' hl'
            rcases mem_set _ _ _ _ hl' with h | h
            · exact hp l' h
            · rw [h, show ptrKey cfg (l.resume _).call = ptrKey cfg l.call by rw [resume_call], resume_call]
              exact ⟨hptr, hrmw⟩
          · intro l' hl' cur' new' hpc'
            rcases mem_set _ _ _ _ hl' with h | h
            · simp only [hst]
              exact pending_after_write cfg k s.store c r' hget hrv l' cur' new' (hpend l' h cur' new' hpc')
            · rw [h] at hpc'; exact absurd hpc' (hnu _ _)
          · intro l' hl' r0 hpc'
            rcases mem_set _ _ _ _ hl' with h | h
            · exact hcr l' h r0 hpc'
            · rw [h] at hpc'; exact absurd hpc' (hnc _)
          · intro cm hcm
            rw [hw] at hcm
            simp only [logCommit, List.mem_append, List.mem_singleton] at hcm
            rcases hcm with hcm | hcm
            · exact hco cm hcm
            · subst hcm
              simp only [Commit.ok, hrk, hget]
              refine ⟨r, by rw [← hcc]; exact hm, ?_⟩
              rw [hr']; unfold bump
              have : r.ver = c.ver := hver.symm
              rw [this]
        · obtain ⟨hnu, hnc⟩ := resume_after_update l cur r _ hpc (Or.inr ⟨e', he⟩)
          rw [hst, he]
          refine ⟨hs, ?_, ?_, ?_, hco⟩
          · intro l' hl'
            rcases mem_set _ _ _ _ hl' with h | h
            · exact hp l' h
            · rw [h, show ptrKey cfg (l.resume _).call = ptrKey cfg l.call by rw [resume_call], resume_call]
              exact ⟨hptr, hrmw⟩
          · intro l' hl' cur' new' hpc'
            rcases mem_set _ _ _ _ hl' with h | h
            · exact hpend l' h cur' new' hpc'
            · rw [h, ← he] at hpc'; exact absurd hpc' (hnu _ _)
          · intro l' hl' r0 hpc'
            rcases mem_set _ _ _ _ hl' with h | h
            · exact hcr l' h r0 hpc'
            · rw [h, ← he] at hpc'; exact absurd hpc' (hnc _)
      | create r o =>
        simp only
        have hpc := req_create l r o hreq
        have hrk : r.key cfg = k := hcr l hlm r hpc
        rcases create_err_or_wrote cfg s.store now r o with ⟨r', hw⟩ | ⟨e', he, hst⟩
        · obtain ⟨habs, hr', hst⟩ := create_wrote cfg s.store now r o r' hw
          rw [hrk] at habs hst
          obtain ⟨hnu, hnc⟩ := resume_after_create l r _ hpc (Or.inl ⟨r', hw⟩)
          refine ⟨?_, ?_, ?_, ?_, ?_⟩
          · intro c' hc
            simp only [hst, C01.get_put_self] at hc
            injection hc with hc; subst hc
            rw [hr']; exact ⟨rfl, hrk⟩
          · intro l' hl'
            rcases mem_set _ _ _ _ hl' with h | h
            · exact hp l' h
            · rw [h, show ptrKey cfg (l.resume _).call = ptrKey cfg l.call by rw [resume_call], resume_call]
              exact ⟨hptr, hrmw⟩
          · intro l' hl' cur' new' hpc'
            rcases mem_set _ _ _ _ hl' with h | h
            · obtain ⟨_, _, c, hc, _⟩ := hpend l' h cur' new' hpc'
              rw [habs] at hc; cases hc
            · rw [h] at hpc'; exact absurd hpc' (hnu _ _)
          · intro l' hl' r0 hpc'
            rcases mem_set _ _ _ _ hl' with h | h
            · exact hcr l' h r0 hpc'
            · rw [h] at hpc'; exact absurd hpc' (hnc _)
          · intro cm hcm
            rw [hw] at hcm
            simp only [logCommit, List.mem_append, List.mem_singleton] at hcm
            rcases hcm with hcm | hcm
            · exact hco cm hcm
            · subst hcm
              simp only [Commit.ok, hrk, habs]
        · obtain ⟨hnu, hnc⟩ := resume_after_create l r _ hpc (Or.inr ⟨e', he⟩)
          rw [hst, he]
          refine ⟨hs, ?_, ?_, ?_, hco⟩
          · intro l' hl'
            rcases mem_set _ _ _ _ hl' with h | h
            · exact hp l' h
            · rw [h, show ptrKey cfg (l.resume _).call = ptrKey cfg l.call by rw [resume_call], resume_call]
              exact ⟨hptr, hrmw⟩
          · intro l' hl' cur' new' hpc'
            rcases mem_set _ _ _ _ hl' with h | h
            · exact hpend l' h cur' new' hpc'
            · rw [h, ← he] at hpc'; exact absurd hpc' (hnu _ _)
          · intro l' hl' r0 hpc'
            rcases mem_set _ _ _ _ hl' with h | h
            · exact hcr l' h r0 hpc'
            · rw [h, ← he] at hpc'; exact absurd hpc' (hnc _)

theorem step_inv (cfg : Cfg) (k : Key) (s : CSys) (now : Nat) (x : Sched) (hx : schedOk cfg k x)
    (h : Inv cfg k s) : Inv cfg k (s.step cfg now x) := by
  cases x with
  | actor i => exact inv_actor cfg k s now i h
  | env op => exact inv_env cfg k s now op hx h

theorem run_inv (cfg : Cfg) (k : Key) (xs : List Sched) (hxs : ∀ x ∈ xs, schedOk cfg k x) :
    ∀ (s : CSys) (t0 : Nat), Inv cfg k s → Inv cfg k (s.run cfg t0 xs) := by
  induction xs with
  | nil => intro s _ h; exact h
  | cons x xs ih =>
    intro s t0 h
    exact ih (fun y hy => hxs y (List.mem_cons_of_mem _ hy)) _ _
      (step_inv cfg k s t0 x (hxs x List.mem_cons_self) h)

/-- initial states: any store in which the contended key (if present) is well formed,
    any number of helper calls on that key, nothing committed yet -/
def initOk (cfg : Cfg) (k : Key) (s : CSys) : Prop :=
  (∀ c, s.store.get k = some c → c.ver.isSome = true ∧ c.key cfg = k) ∧
  (∀ l ∈ s.actors, ∃ c, l = HCall.start c ∧ ptrKey cfg c = k ∧ isRmw c = true) ∧
  s.commits = []

theorem start_pc (c : HCall) (h : isRmw c = true) :
    (HCall.start c).pc = .get0 ∨ (HCall.start c).pc = .uwcGet := by
  cases c <;> simp [isRmw] at h <;> simp [HCall.start]

theorem start_call (c : HCall) : (HCall.start c).call = c := by
  cases c <;> rfl

theorem init_inv (cfg : Cfg) (k : Key) (s : CSys) (h : initOk cfg k s) : Inv cfg k s := by
  obtain ⟨h1, h2, h3⟩ := h
  refine ⟨h1, ?_, ?_, ?_, by rw [h3]; intro c hc; cases hc⟩
  · intro l hl
    obtain ⟨c, rfl, hk, hr⟩ := h2 l hl
    rw [start_call]; exact ⟨hk, hr⟩
  · intro l hl cur new hpc
    obtain ⟨c, rfl, _, hr⟩ := h2 l hl
    rcases start_pc c hr with h | h <;> rw [h] at hpc <;> cases hpc
  · intro l hl r hpc
    obtain ⟨c, rfl, _, hr⟩ := h2 l hl
    rcases start_pc c hr with h | h <;> rw [h] at hpc <;> cases hpc

/-- **C04 success_applied_once.** For any number of concurrent helper calls
    (UpdateWithConflicts, Modify, Add/RemoveFinalizer, Teardown) on one resource, any
    mutators, any owner/phase options, any environment creates and updates, and EVERY
    interleaving of their individual Get/Update/Create steps: every write a helper
    commits is its mutator applied to the value stored immediately before that write
    (never to a stale read), with the version bumped by exactly one. -/
theorem success_applied_once (cfg : Cfg) (k : Key) (s0 : CSys) (h0 : initOk cfg k s0) (t0 : Nat)
    (xs : List Sched) (hxs : ∀ x ∈ xs, schedOk cfg k x) :
    ∀ c ∈ (s0.run cfg t0 xs).commits, c.ok :=
  (run_inv cfg k xs hxs s0 t0 (init_inv cfg k s0 h0)).commits

/-- a successful UpdateWithConflicts ends every read-modify-write helper with success -/
theorem afterUwc_ok_rmw (l : Local) (x : Res) (h : isRmw l.call = true) :
    ∃ r, (l.afterUwc (.ok x)).pc = .done r ∧ ∀ cls, r ≠ .err cls := by
  unfold Local.afterUwc
  cases hc : l.call <;> rw [hc] at h <;> simp [isRmw] at h <;> simp

theorem other_actor_unchanged (cfg : Cfg) (s : CSys) (now i j : Nat) (hij : j ≠ i) :
    (s.step cfg now (.actor i)).actors[j]? = s.actors[j]? := by
  simp only [CSys.step]
  cases hl : s.actors[i]? with
  | none => rfl
  | some l =>
    simp only
    cases hreq : l.req with
    | none => rfl
    | some req =>
      cases req <;> simp only <;> first | rfl | (rw [List.getElem?_set, if_neg (fun e : i = j => hij e.symm)])

/-- what one actor step does to the commit log and to the contended key -/
theorem actor_step_effect (cfg : Cfg) (k : Key) (s : CSys) (now i : Nat) (h : Inv cfg k s) :
    ((s.step cfg now (.actor i)).commits = s.commits ∧ (s.step cfg now (.actor i)).store = s.store) ∨
    (∃ c, (s.step cfg now (.actor i)).commits = s.commits ++ [c] ∧ c.actor = i ∧ c.old = s.store.get k ∧
        (s.step cfg now (.actor i)).store.get k = some c.new ∧
        ∃ l', (s.step cfg now (.actor i)).actors[i]? = some l' ∧ ∃ r, l'.pc = .done r ∧ ∀ cls, r ≠ .err cls) := by
  obtain ⟨hs, hp, hpend, hcr, hco⟩ := h
  simp only [CSys.step]
  cases hl : s.actors[i]? with
  | none => exact Or.inl ⟨rfl, rfl⟩
  | some l =>
    have hlm : l ∈ s.actors := List.mem_of_getElem? hl
    have hilt : i < s.actors.length := by
      cases hlt : decide (i < s.actors.length) with
      | true => exact of_decide_eq_true hlt
      | false =>
        have := List.getElem?_eq_none (Nat.le_of_not_lt (of_decide_eq_false hlt))
        rw [this] at hl; cases hl
    obtain ⟨_, hrmw⟩ := hp l hlm
    simp only
    cases hreq : l.req with
    | none => exact Or.inl ⟨rfl, rfl⟩
    | some req =>
      cases req with
      | recv => exact Or.inl ⟨rfl, rfl⟩
      | watch ns typ id => exact Or.inl ⟨rfl, rfl⟩
      | destroy ns typ id o => exact Or.inl ⟨rfl, rfl⟩
      | get ns typ id => exact Or.inl ⟨rfl, rfl⟩
      | update r o e =>
        simp only
        obtain ⟨cur, hpc⟩ := req_update l r o e hreq
        obtain ⟨hck, hm, _⟩ := hpend l hlm cur r hpc
        have hrk : r.key cfg = k := by rw [key_of_mut cfg l.um cur r hm]; exact hck
        rcases update_err_or_wrote cfg s.store now r o e with ⟨r', hw⟩ | ⟨e', he, hst⟩
        · obtain ⟨_, _, _, _, _, hst⟩ := update_wrote cfg s.store now r o e r' hw
          refine Or.inr ⟨_, by rw [hw]; rfl, rfl, by rw [hrk], by rw [hst, hrk, C01.get_put_self], ?_⟩
          have hres : l.resume (.out (.wrote r')) = l.afterUwc (.ok r') := by unfold Local.resume; rw [hpc]
          refine ⟨l.afterUwc (.ok r'), by rw [List.getElem?_set, if_pos rfl, if_pos hilt, hw, hres], ?_⟩
          exact afterUwc_ok_rmw l r' hrmw
        · exact Or.inl ⟨by rw [he]; rfl, hst⟩
      | create r o =>
        simp only
        have hpc := req_create l r o hreq
        have hrk : r.key cfg = k := hcr l hlm r hpc
        rcases create_err_or_wrote cfg s.store now r o with ⟨r', hw⟩ | ⟨e', he, hst⟩
        · obtain ⟨_, _, hst⟩ := create_wrote cfg s.store now r o r' hw
          refine Or.inr ⟨_, by rw [hw]; rfl, rfl, by rw [hrk], by rw [hst, hrk, C01.get_put_self], ?_⟩
          have hres : l.resume (.out (.wrote r')) = { l with pc := .done (.okRes r') } := by
            unfold Local.resume; rw [hpc]
          refine ⟨{ l with pc := .done (.okRes r') }, by rw [List.getElem?_set, if_pos rfl, if_pos hilt, hw, hres], ?_⟩
          exact ⟨_, rfl, fun cls e => by cases e⟩
        · exact Or.inl ⟨by rw [he]; rfl, hst⟩

/-- a finished call never acts again -/
theorem done_is_stuck (cfg : Cfg) (s : CSys) (now i : Nat) (l : Local) (r : HRet) (hl : s.actors[i]? = some l)
    (hd : l.pc = .done r) : s.step cfg now (.actor i) = s := by
  simp only [CSys.step, hl]
  have : l.req = none := by unfold Local.req; rw [hd]
  rw [this]

/-! ### no lost update -/

/-- replaying one commit on top of a value -/
def applyCommit (cur : Option Res) (c : Commit) : Option Res :=
  match cur with
  | some old => (c.m.apply old).map fun n => bump n old c.now
  | none => some c.new

def actorOnly : Sched → Prop
  | .actor _ => True
  | .env _ => False

/-- **C04 no_lost_update.** With any number of concurrent helper calls and every
    interleaving of their steps, the final value of the resource is the fold, in
    commit order, of the successful mutators over the initial value: no successful
    mutation is lost, none is applied twice. -/
theorem no_lost_update (cfg : Cfg) (k : Key) (xs : List Sched) (hxs : ∀ x ∈ xs, actorOnly x) :
    ∀ (s : CSys) (t0 : Nat) (init : Option Res), Inv cfg k s →
      s.store.get k = s.commits.foldl applyCommit init →
      (s.run cfg t0 xs).store.get k = (s.run cfg t0 xs).commits.foldl applyCommit init := by
  induction xs with
  | nil => intro s _ _ _ h; exact h
  | cons x xs ih =>
    intro s t0 init hinv hrep
    cases x with
    | env op => exact absurd (hxs _ List.mem_cons_self) (by simp [actorOnly])
    | actor i =>
      have hinv' := inv_actor cfg k s t0 i hinv
      apply ih (fun y hy => hxs y (List.mem_cons_of_mem _ hy)) _ _ init hinv'
      rcases actor_step_effect cfg k s t0 i hinv with ⟨hc, hst⟩ | ⟨c, hc, _, hold, hnew, _⟩
      · rw [hc, hst]; exact hrep
      · rw [hc, List.foldl_append, List.foldl_cons, List.foldl_nil, ← hrep, hnew]
        have hok : c.ok := hinv'.commits c (by rw [hc]; simp)
        unfold Commit.ok at hok
        unfold applyCommit
        rw [← hold]
        cases ho : c.old with
        | none => rfl
        | some old =>
          rw [ho] at hok
          obtain ⟨n, hm, hn⟩ := hok
          simp [hm, hn]

/-! ### errors have no effect; at most one write per call -/

def commitsOf (s : CSys) (i : Nat) : List Commit := s.commits.filter (·.actor = i)

def OnceInv (s : CSys) : Prop :=
  ∀ i l, s.actors[i]? = some l →
    commitsOf s i = [] ∨ ∃ c r, commitsOf s i = [c] ∧ l.pc = .done r ∧ ∀ cls, r ≠ .err cls

theorem once_step (cfg : Cfg) (k : Key) (s : CSys) (now : Nat) (x : Sched) (hinv : Inv cfg k s)
    (h : OnceInv s) : OnceInv (s.step cfg now x) := by
  cases x with
  | env op => exact h
  | actor j =>
    intro i l' hl'
    by_cases hij : i = j
    · subst hij
      rcases actor_step_effect cfg k s now i hinv with ⟨hc, _⟩ | ⟨c, hc, hca, _, _, l'', hl'', r, hr, hne⟩
      · -- nothing committed in this step
        have hco : commitsOf (s.step cfg now (.actor i)) i = commitsOf s i := by
          unfold commitsOf; rw [hc]
        rw [hco]
        cases hl : s.actors[i]? with
        | none =>
          have : s.step cfg now (.actor i) = s := by simp [CSys.step, hl]
          rw [this, hl] at hl'; cases hl'
        | some l =>
          rcases h i l hl with h0 | ⟨c0, r0, h1, h2, h3⟩
          · exact Or.inl h0
          · have := done_is_stuck cfg s now i l r0 hl h2
            rw [this, hl] at hl'; injection hl' with hl'; subst hl'
            exact Or.inr ⟨c0, r0, h1, h2, h3⟩
      · -- this step committed: it is the call's first and only write, and the call succeeded
        rw [hl''] at hl'; injection hl' with hl'; subst hl'
        have hco : commitsOf (s.step cfg now (.actor i)) i = commitsOf s i ++ [c] := by
          unfold commitsOf; rw [hc, List.filter_append]; simp [hca]
        cases hl : s.actors[i]? with
        | none =>
          have : s.step cfg now (.actor i) = s := by simp [CSys.step, hl]
          rw [this] at hc
          have := congrArg List.length hc
          simp at this
        | some l =>
          rcases h i l hl with h0 | ⟨c0, r0, _, h2, _⟩
          · rw [hco, h0]; exact Or.inr ⟨c, r, rfl, hr, hne⟩
          · have := done_is_stuck cfg s now i l r0 hl h2
            rw [this] at hc
            have := congrArg List.length hc
            simp at this
    · rw [other_actor_unchanged cfg s now j i hij] at hl'
      have hco : commitsOf (s.step cfg now (.actor j)) i = commitsOf s i := by
        rcases actor_step_effect cfg k s now j hinv with ⟨hc, _⟩ | ⟨c, hc, hca, _⟩
        · unfold commitsOf; rw [hc]
        · unfold commitsOf; rw [hc, List.filter_append]
          have : ¬ c.actor = i := by rw [hca]; exact fun e => hij e.symm
          simp [this]
      rw [hco]; exact h i l' hl'

/-- **C04 error_no_effect / applied at most once.** In every reachable state, a call
    that has committed a write has committed exactly one and has returned success; hence
    a call that returns an error (not-found, owner, phase, already-exists, mutator
    failure) has had no effect, and no call's mutation is applied twice. -/
theorem error_no_effect (cfg : Cfg) (k : Key) (xs : List Sched) (hxs : ∀ x ∈ xs, schedOk cfg k x) :
    ∀ (s : CSys) (t0 : Nat), Inv cfg k s → OnceInv s → OnceInv (s.run cfg t0 xs) := by
  induction xs with
  | nil => intro s _ _ h; exact h
  | cons x xs ih =>
    intro s t0 hinv h
    exact ih (fun y hy => hxs y (List.mem_cons_of_mem _ hy)) _ _
      (step_inv cfg k s t0 x (hxs x List.mem_cons_self) hinv) (once_step cfg k s t0 x hinv h)

theorem init_once (s : CSys) (h : s.commits = []) : OnceInv s := by
  intro i l _; left; unfold commitsOf; rw [h]; rfl

/-- corollary in the shape of the property statement -/
theorem error_means_no_commit (cfg : Cfg) (k : Key) (s0 : CSys) (h0 : initOk cfg k s0) (t0 : Nat)
    (xs : List Sched) (hxs : ∀ x ∈ xs, schedOk cfg k x) (i : Nat) (l : Local) (cls : String)
    (hl : (s0.run cfg t0 xs).actors[i]? = some l) (herr : l.pc = .done (.err cls)) :
    commitsOf (s0.run cfg t0 xs) i = [] := by
  rcases error_no_effect cfg k xs hxs s0 t0 (init_inv cfg k s0 h0) (init_once s0 h0.2.2) i l hl with h | ⟨c, r, _, h2, h3⟩
  · exact h
  · rw [herr] at h2; injection h2 with h2; exact absurd h2.symm (h3 cls)

/-! ### conflicts of the wrong kind are never retried -/

/-- only a plain (version) conflict sends UpdateWithConflicts back to its Get; an
    owner conflict, phase conflict or any other error ends the call with that error -/
theorem no_retry_into_success (l : Local) (cur new : Res) (e : Err) (hpc : l.pc = .uwcUpdate cur new)
    (hne : errClass e ≠ "conflict") (hr : isRmw l.call = true) :
    (l.resume (.out (.err e))).pc = .done (.err (errClass e)) := by
  have : l.resume (.out (.err e)) =
      if errClass e = "conflict" then { l with pc := .uwcGet } else l.afterUwc (.error (errClass e)) := by
    unfold Local.resume; rw [hpc]
  rw [this, if_neg hne]
  unfold Local.afterUwc
  cases hc : l.call <;> rw [hc] at hr <;> simp [isRmw] at hr <;> rfl

theorem owner_conflict_class (e : Err) (h : e.ctor = .ownerConflict) : errClass e = "ownerConflict" := by
  simp [errClass, h, ErrCtor.isNotFound, ErrCtor.isOwnerConflict]

theorem phase_conflict_class (e : Err) (h : e.ctor = .phaseConflict) : errClass e = "phaseConflict" := by
  simp [errClass, h, ErrCtor.isNotFound, ErrCtor.isOwnerConflict, ErrCtor.isPhaseConflict]

/-- and the expected-phase test of UpdateWithConflicts itself (wrap.go:44) ends the call -/
theorem uwc_phase_mismatch_ends (l : Local) (cur : Res) (hpc : l.pc = .uwcGet) (p : Phase)
    (hexp : l.uexp = some p) (hne : p ≠ cur.phase) (hr : isRmw l.call = true) :
    (l.resume (.out (.res cur))).pc = .done (.err "phaseConflict") := by
  have : l.resume (.out (.res cur)) = l.afterUwc (.error "phaseConflict") := by
    unfold Local.resume; rw [hpc]
    have : l.uexp.isSome = true ∧ l.uexp ≠ some cur.phase := by
      rw [hexp]; exact ⟨rfl, fun e => hne (Option.some.inj e)⟩
    simp only
    rw [if_pos this]
  rw [this]
  unfold Local.afterUwc
  cases hc : l.call <;> rw [hc] at hr <;> simp [isRmw] at hr <;> rfl

/-! ### the abstract system is what the driver runs -/

/-- `HSys.stepActor` (the function the correspondence engine `helpers` compares with
    the real code) does to the store and to the acting helper exactly what `CSys.step`
    does, for the store requests of the read-modify-write helpers. -/
theorem stepActor_get (s : HSys) (a now : Nat) (l : Local) (ns typ id : String)
    (hl : s.actor a = some l) (hreq : l.req = some (.get ns typ id)) :
    (s.stepActor a now).1.ws.store = s.ws.store ∧
    (s.stepActor a now).1.actor a = some (l.resume (.out (Cosi.step s.ws.cfg s.ws.store now (.get ns typ id)).2)) := by
  have hst : (Cosi.step s.ws.cfg s.ws.store now (.get ns typ id)).1 = s.ws.store := by
    rw [C01.step_eq_spec]; simp only [Spec.step]; split <;> rfl
  unfold HSys.stepActor
  simp only [hl, hreq]
  constructor
  · simp only [HSys.setActor, WSys.settle, WSys.storeOp]
    exact hst
  · simp [HSys.setActor, HSys.actor, WSys.storeOp]

/-! ### non-vacuity: a concrete contended run with a retry -/

def exRes : Res :=
  { ns := "n1", typ := "T1", id := "a", ver := some 1, owner := "", phase := .running,
    fins := [], labels := [], created := 0, updated := 0, spec := "x" }

def exSys : CSys :=
  { store := [(("n1", "T1", "a"), exRes)],
    actors := [HCall.start (.uwc "n1" "T1" "a" (.addFins ["A"]) "" none),
               HCall.start (.uwc "n1" "T1" "a" (.setSpec "y") "" none)] }

/-- actor 0 reads, actor 1 reads and writes, actor 0's write conflicts, it re-reads and writes -/
def exSched : List Sched := [.actor 0, .actor 1, .actor 1, .actor 0, .actor 0, .actor 0]

example : initOk {} ("n1", "T1", "a") exSys := by
  refine ⟨?_, ?_, rfl⟩
  · intro c hc
    simp [exSys, Store.get] at hc
    subst hc; exact ⟨rfl, rfl⟩
  · intro l hl
    simp [exSys] at hl
    rcases hl with rfl | rfl
    · exact ⟨_, rfl, rfl, rfl⟩
    · exact ⟨_, rfl, rfl, rfl⟩

example : ((exSys.run {} 1 exSched).commits.map (·.actor)) = [1, 0] := by decide
example : ((exSys.run {} 1 exSched).store.get ("n1", "T1", "a")).map (fun r => (r.ver, r.fins, r.spec))
    = some (some 3, ["A"], "y") := by decide

end Cosi.C04
