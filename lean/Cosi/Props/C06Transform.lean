/-
  Property C06 for the Transform controller (transform.Controller WithInputFinalizers): the N-pair
  pass machine of Cosi.Model.Transform converges to the mapped image of its inputs.

  One whole reconcile pass with nobody interfering (callbacks succeed, no helper fails for outside
  reasons) is followed through its three loops — processInputs over the listed inputs,
  cleanupOutputs over the listed outputs, the RemoveFinalizer loop over what is left in
  removeInputFinalizers — for ANY number of pairs, by induction over the List results:

    pass_effect            from any quiet state the pass terminates, and what it does to pair k is `pairPass`
                           of pair k alone: the per-pass bookkeeping never lets one pair influence another
    two_passes_reach_spec  from any quiet state satisfying C07's guard, two passes reach a state in which
                           EVERY pair satisfies the C06 specification (one pass, unless an old-generation
                           output has to be destroyed before the new one can be created)
    spec_is_fixpoint       … and a further pass changes no pair
    fixpoint_is_spec       conversely a pair that a pass leaves unchanged satisfies the specification
    quiescent_is_spec      after ANY history of external and controller actions, once nothing external
                           happens any more and the controller is triggered (C05), every pair satisfies it

  The rules of the pass are the regenerated ones (`genRules_exact`).
-/
import Cosi.Props.C07Transform

set_option linter.unusedSimpArgs false

namespace Cosi.C06T
open Cosi Cosi.TF Cosi.C07T

variable {n : Nat}

/-! ### lists of all ids have no duplicates -/

theorem lt_of_mem_finsBelow (x : Fin n) : ∀ (m : Nat) (h : m ≤ n), x ∈ finsBelow n m h → x.val < m := by
  intro m
  induction m with
  | zero => intro _ hx; simp [finsBelow] at hx
  | succ m ih =>
    intro h hx
    simp only [finsBelow, List.mem_append, List.mem_singleton] at hx
    rcases hx with hx | hx
    · exact Nat.lt_succ_of_lt (ih _ hx)
    · subst hx; exact Nat.lt_succ_self _

theorem finsBelow_nodup : ∀ (m : Nat) (h : m ≤ n), (finsBelow n m h).Nodup := by
  intro m
  induction m with
  | zero => intro _; simp [finsBelow]
  | succ m ih =>
    intro h
    simp only [finsBelow]
    rw [List.nodup_append]
    refine ⟨ih _, by simp, ?_⟩
    intro a ha b hb
    simp only [List.mem_singleton] at hb
    subst hb
    intro heq
    have := lt_of_mem_finsBelow a m _ ha
    subst heq
    exact absurd this (Nat.lt_irrefl _)

theorem allFin_nodup : (allFin n).Nodup := finsBelow_nodup n (Nat.le_refl n)

theorem ids_listOf_nodup {α : Type} (f : Fin n → Option α) : (ids (listOf f)).Nodup := by
  unfold ids listOf
  have : ∀ (l : List (Fin n)), l.Nodup → (List.map (·.1) (l.filterMap fun k => (f k).map fun v => (k, v))).Nodup := by
    intro l
    induction l with
    | nil => intro _; simp
    | cons a l ih =>
      intro hnd
      rw [List.nodup_cons] at hnd
      cases hf : f a with
      | none => simp only [List.filterMap_cons, hf, Option.map_none]; exact ih hnd.2
      | some v =>
        simp only [List.filterMap_cons, hf, Option.map_some, List.map_cons, List.nodup_cons]
        refine ⟨?_, ih hnd.2⟩
        intro hmem
        rw [List.mem_map] at hmem
        obtain ⟨p, hp, hpa⟩ := hmem
        rw [List.mem_filterMap] at hp
        obtain ⟨b, hb, hbp⟩ := hp
        cases hfb : f b with
        | none => simp [hfb] at hbp
        | some w =>
          simp [hfb] at hbp
          subst hbp
          simp only at hpa
          subst hpa
          exact hnd.1 hb
  exact this _ allFin_nodup

theorem mem_ids_listOf {α : Type} (f : Fin n → Option α) (k : Fin n) : k ∈ ids (listOf f) ↔ (f k).isSome = true := by
  simp only [ids, List.mem_map]
  constructor
  · rintro ⟨p, hp, rfl⟩
    obtain ⟨a, b⟩ := p
    rw [TF.mem_listOf] at hp
    simp [hp]
  · intro h
    cases hf : f k with
    | none => simp [hf] at h
    | some v => exact ⟨(k, v), (TF.mem_listOf f k v).2 hf, rfl⟩

/-! ### the input loop -/

/-- what the proofs of convergence need of the rules: the exact table -/
structure ExactRules (r : Rules) : Prop where
  keeps : ∀ e, r.keepsRelease e = (e == .destroyOk)
  finFirst : r.finFirst = true
  populates : ∀ ph fin ok, r.populates ph fin ok = (ph == .tearingDown && fin && ok)

/-- `m` controller actions with nobody interfering: callbacks succeed, no helper fails for outside reasons -/
def runCtl (r : Rules) : Nat → Sys n → Sys n
  | 0, s => s
  | m + 1, s => runCtl r m (ctlWith r s {})

theorem runCtl_add (r : Rules) (a b : Nat) (s : Sys n) : runCtl r (a + b) s = runCtl r b (runCtl r a s) := by
  induction a generalizing s with
  | zero => simp [runCtl]
  | succ a ih => rw [Nat.succ_add]; simp only [runCtl]; exact ih _

/-- the effect of processInputs' loop body on one pair -/
structure InEff where
  inp : AIn
  out : Option AOut
  touched : Bool
  rel : Bool

def inEff (i : AIn) (o : Option AOut) : InEff :=
  if i.phase = .tearingDown then ⟨i, o, false, i.ctlFin⟩
  else
    ⟨{ i with ctlFin := true },
     (match o with
      | none => some ⟨true, .running, false, true⟩
      | some o => if !o.owned then some o else if o.phase = .tearingDown then some o else some { o with fresh := true }),
     true, false⟩

theorem upd_self {α : Type} (f : Fin n → α) (k : Fin n) : upd f k (f k) = f := by
  funext j; by_cases h : j = k <;> simp [upd, h]

/-- one iteration of processInputs' loop, undisturbed -/
theorem in_item (r : Rules) (hr : ExactRules r) (s : Sys n) (k : Fin n) (i : AIn) (rest : List (Fin n × AIn))
    (hpc : s.pc = .inputs ((k, i) :: rest)) (hcur : s.inp k = some i) (hst : s.staleRead k = false) :
    ∃ m, (runCtl r m s).pc = .inputs rest ∧
      (runCtl r m s).inp = upd s.inp k (some (inEff i (s.out k)).inp) ∧
      (runCtl r m s).out = upd s.out k (inEff i (s.out k)).out ∧
      (runCtl r m s).touched = (if (inEff i (s.out k)).touched then k :: s.touched else s.touched) ∧
      (runCtl r m s).rel = (if (inEff i (s.out k)).rel then k :: s.rel else s.rel) ∧
      (runCtl r m s).staleRead = s.staleRead ∧ (runCtl r m s).gone = s.gone := by
  by_cases htd : i.phase = .tearingDown
  · refine ⟨1, ?_⟩
    simp only [runCtl, ctlWith, hpc, htd, if_true, inEff, hr.populates]
    refine ⟨by first | rfl | trivial, ?_, ?_, ?_, ?_, by first | rfl | trivial, by first | rfl | trivial⟩
    · rw [← hcur, upd_self]
    · rw [upd_self]
    · simp
    · cases i.ctlFin <;> simp
  · refine ⟨2, ?_⟩
    have hpop : ∀ f, r.populates .running f true = false := by intro f; rw [hr.populates]; rfl
    have hph : i.phase = .running := by cases hp : i.phase <;> simp_all
    simp only [runCtl, ctlWith, hpc, htd, if_false, inEff, hr.finFirst, hpop, hcur, Bool.true_and]
    cases hfin : i.ctlFin with
    | false =>
      simp only [Bool.not_false, if_true, Bool.false_eq_true, if_false]
      cases ho : s.out k with
      | none => simp [writesFresh, hst, upd]
      | some o =>
        simp only []
        by_cases hown : o.owned = true
        · by_cases hot : o.phase = .tearingDown
          · simp [hown, hot]
            rw [← ho, upd_self]
          · simp [hown, hot, writesFresh, hst, upd]
        · simp [hown]
          rw [← ho, upd_self]
    | true =>
      have hii : (some { i with ctlFin := true } : Option AIn) = s.inp k := by
        rw [hcur]; obtain ⟨a, b, c⟩ := i; simp at hfin; subst hfin; rfl
      simp only [Bool.not_true, Bool.false_eq_true, if_false, Bool.and_false, Bool.and_true, hii, upd_self]
      cases ho : s.out k with
      | none => simp [writesFresh, hst, hcur]
      | some o =>
        simp only []
        by_cases hown : o.owned = true
        · by_cases hot : o.phase = .tearingDown
          · simp [hown, hot]
            rw [← ho, upd_self]
          · simp [hown, hot, writesFresh, hst, hcur]
        · simp [hown]
          rw [← ho, upd_self]

theorem in_loop (r : Rules) (hr : ExactRules r) : ∀ (todo : List (Fin n × AIn)) (s : Sys n),
    s.pc = .inputs todo → (ids todo).Nodup → (∀ p, p ∈ todo → s.inp p.1 = some p.2) → (∀ j, s.staleRead j = false) →
    ∃ m s', runCtl r m s = s' ∧ s'.pc = .inputs [] ∧ s'.staleRead = s.staleRead ∧ s'.gone = s.gone ∧
      (∀ j, j ∉ ids todo → s'.inp j = s.inp j ∧ s'.out j = s.out j) ∧
      (∀ p, p ∈ todo → s'.inp p.1 = some (inEff p.2 (s.out p.1)).inp ∧ s'.out p.1 = (inEff p.2 (s.out p.1)).out) ∧
      (∀ j, j ∈ s'.touched ↔ (j ∈ s.touched ∨ ∃ p, p ∈ todo ∧ p.1 = j ∧ (inEff p.2 (s.out p.1)).touched = true)) ∧
      (∀ j, j ∈ s'.rel ↔ (j ∈ s.rel ∨ ∃ p, p ∈ todo ∧ p.1 = j ∧ (inEff p.2 (s.out p.1)).rel = true)) := by
  intro todo
  induction todo with
  | nil =>
    intro s hpc _ _ _
    exact ⟨0, s, rfl, hpc, rfl, rfl, fun j _ => ⟨rfl, rfl⟩, (fun p hp => by cases hp),
      (fun j => by simp), (fun j => by simp)⟩
  | cons p rest ih =>
    obtain ⟨k, i⟩ := p
    intro s hpc hnd hcur hst
    simp only [ids, List.map_cons, List.nodup_cons] at hnd
    obtain ⟨hk, hnd⟩ := hnd
    obtain ⟨m1, h1pc, h1inp, h1out, h1t, h1r, h1s, h1g⟩ :=
      in_item r hr s k i rest hpc (hcur (k, i) (List.mem_cons_self ..)) (hst k)
    have hne : ∀ p, p ∈ rest → p.1 ≠ k := by
      intro p hp heq
      exact hk (by rw [← heq]; exact List.mem_map_of_mem hp)
    obtain ⟨m2, s2, h2run, h2pc, h2s, h2g, h2frame, h2eff, h2t, h2r⟩ := ih (runCtl r m1 s) h1pc hnd
      (by intro p hp; rw [h1inp, upd_other _ _ _ _ (hne p hp)]; exact hcur p (List.mem_cons_of_mem _ hp))
      (by intro j; rw [h1s]; exact hst j)
    have hout1 : ∀ p, p ∈ rest → (runCtl r m1 s).out p.1 = s.out p.1 := by
      intro p hp; rw [h1out, upd_other _ _ _ _ (hne p hp)]
    refine ⟨m1 + m2, s2, by rw [runCtl_add, h2run], h2pc, by rw [h2s, h1s], by rw [h2g, h1g], ?_, ?_, ?_, ?_⟩
    · intro j hj
      simp only [ids, List.map_cons, List.mem_cons, not_or] at hj
      obtain ⟨hjk, hjr⟩ := hj
      obtain ⟨f1, f2⟩ := h2frame j hjr
      rw [f1, f2, h1inp, h1out, upd_other _ _ _ _ hjk, upd_other _ _ _ _ hjk]
      exact ⟨rfl, rfl⟩
    · intro p hp
      rcases List.mem_cons.1 hp with rfl | hp
      · obtain ⟨f1, f2⟩ := h2frame k hk
        simp only
        rw [f1, f2, h1inp, h1out, upd_same, upd_same]
        exact ⟨rfl, rfl⟩
      · obtain ⟨e1, e2⟩ := h2eff p hp
        rw [hout1 p hp] at e1 e2
        exact ⟨e1, e2⟩
    · intro j
      rw [h2t j, h1t]
      constructor
      · rintro (h | ⟨p, hp, hpj, he⟩)
        · split at h
          · rename_i het
            rcases List.mem_cons.1 h with rfl | h
            · exact Or.inr ⟨(j, i), List.mem_cons_self .., rfl, het⟩
            · exact Or.inl h
          · exact Or.inl h
        · rw [hout1 p hp] at he
          exact Or.inr ⟨p, List.mem_cons_of_mem _ hp, hpj, he⟩
      · rintro (h | ⟨p, hp, hpj, he⟩)
        · left; split
          · exact List.mem_cons_of_mem _ h
          · exact h
        · rcases List.mem_cons.1 hp with rfl | hp
          · left; simp only at hpj he; subst hpj; simp [he]
          · right; exact ⟨p, hp, hpj, by rw [hout1 p hp]; exact he⟩
    · intro j
      rw [h2r j, h1r]
      constructor
      · rintro (h | ⟨p, hp, hpj, he⟩)
        · split at h
          · rename_i het
            rcases List.mem_cons.1 h with rfl | h
            · exact Or.inr ⟨(j, i), List.mem_cons_self .., rfl, het⟩
            · exact Or.inl h
          · exact Or.inl h
        · rw [hout1 p hp] at he
          exact Or.inr ⟨p, List.mem_cons_of_mem _ hp, hpj, he⟩
      · rintro (h | ⟨p, hp, hpj, he⟩)
        · left; split
          · exact List.mem_cons_of_mem _ h
          · exact h
        · rcases List.mem_cons.1 hp with rfl | hp
          · left; simp only at hpj he; subst hpj; simp [he]
          · right; exact ⟨p, hp, hpj, by rw [hout1 p hp]; exact he⟩

/-! ### the output loop and the release loop -/

/-- the effect of cleanupOutputs' loop body on one output: the output afterwards, whether a pending release of its
    input survives, whether the output was destroyed -/
structure OutEff where
  out : Option AOut
  keepRel : Bool

def outEff (o : AOut) (tch : Bool) : OutEff :=
  if !o.owned then ⟨some o, false⟩
  else if o.phase ≠ .tearingDown && tch then ⟨some o, false⟩
  else if o.foreign then ⟨some { o with phase := .tearingDown }, false⟩
  else ⟨none, true⟩

theorem upd_upd {α : Type} (f : Fin n → α) (k : Fin n) (v w : α) : upd (upd f k v) k w = upd f k w := by
  funext j; by_cases h : j = k <;> simp [upd, h]

theorem out_item (r : Rules) (hr : ExactRules r) (s : Sys n) (k : Fin n) (o : AOut) (rest : List (Fin n × AOut))
    (hpc : s.pc = .outputs ((k, o) :: rest)) (hcur : s.out k = some o) :
    ∃ m, (runCtl r m s).pc = .outputs rest ∧
      (runCtl r m s).out = upd s.out k (outEff o (s.touched.contains k)).out ∧
      (runCtl r m s).inp = s.inp ∧ (runCtl r m s).touched = s.touched ∧
      (runCtl r m s).rel = (if (outEff o (s.touched.contains k)).keepRel then s.rel else s.rel.filter (fun j => j ≠ k)) := by
  have hkN : r.keepsRelease .notOwned = false := by rw [hr.keeps]; rfl
  have hkT : r.keepsRelease .touched = false := by rw [hr.keeps]; rfl
  have hkR : r.keepsRelease .notReady = false := by rw [hr.keeps]; rfl
  have hkO : r.keepsRelease .destroyOk = true := by rw [hr.keeps]; rfl
  have hself : s.out = upd s.out k (some o) := by rw [← hcur, upd_self]
  obtain ⟨ow, ph, fo, fr⟩ := o
  cases ow
  · exact ⟨1, by simp [runCtl, ctlWith, hpc, outEff, exitLoop, hkN, ← hself]⟩
  · by_cases htc : k ∈ s.touched <;> cases ph <;> cases fo
    all_goals first
      | (refine ⟨1, ?_⟩; simp [runCtl, ctlWith, hpc, outEff, exitLoop, hkT, hkR, htc, hcur, ← hself]; done)
      | (refine ⟨2, ?_⟩; simp [runCtl, ctlWith, hpc, outEff, exitLoop, hkT, hkR, hkO, htc, hcur, upd_upd]; done)

theorem out_loop (r : Rules) (hr : ExactRules r) : ∀ (todo : List (Fin n × AOut)) (s : Sys n),
    s.pc = .outputs todo → (ids todo).Nodup → (∀ p, p ∈ todo → s.out p.1 = some p.2) →
    ∃ m s', runCtl r m s = s' ∧ s'.pc = .outputs [] ∧ s'.inp = s.inp ∧ s'.touched = s.touched ∧
      (∀ j, j ∉ ids todo → s'.out j = s.out j ∧ (j ∈ s'.rel ↔ j ∈ s.rel)) ∧
      (∀ p, p ∈ todo → s'.out p.1 = (outEff p.2 (s.touched.contains p.1)).out ∧
        (p.1 ∈ s'.rel ↔ (p.1 ∈ s.rel ∧ (outEff p.2 (s.touched.contains p.1)).keepRel = true))) := by
  intro todo
  induction todo with
  | nil =>
    intro s hpc _ _
    exact ⟨0, s, rfl, hpc, rfl, rfl, (fun j _ => ⟨rfl, Iff.rfl⟩), (fun p hp => by cases hp)⟩
  | cons p rest ih =>
    obtain ⟨k, o⟩ := p
    intro s hpc hnd hcur
    simp only [ids, List.map_cons, List.nodup_cons] at hnd
    obtain ⟨hk, hnd⟩ := hnd
    obtain ⟨m1, h1pc, h1out, h1inp, h1t, h1r⟩ := out_item r hr s k o rest hpc (hcur (k, o) (List.mem_cons_self ..))
    have hne : ∀ p, p ∈ rest → p.1 ≠ k := by
      intro p hp heq
      exact hk (by rw [← heq]; exact List.mem_map_of_mem hp)
    have hrel1 : ∀ j, j ∈ (runCtl r m1 s).rel ↔ (j ∈ s.rel ∧ (j = k → (outEff o (s.touched.contains k)).keepRel = true)) := by
      intro j
      rw [h1r]
      split
      · rename_i hkeep; exact ⟨fun a => ⟨a, fun _ => hkeep⟩, fun a => a.1⟩
      · rename_i hkeep
        simp only [List.mem_filter, decide_eq_true_eq]
        constructor
        · rintro ⟨a, b⟩; exact ⟨a, fun h => absurd h b⟩
        · rintro ⟨a, b⟩; exact ⟨a, fun h => hkeep (b h)⟩
    obtain ⟨m2, s2, h2run, h2pc, h2inp, h2t, h2frame, h2eff⟩ := ih (runCtl r m1 s) h1pc hnd
      (by intro p hp; rw [h1out, upd_other _ _ _ _ (hne p hp)]; exact hcur p (List.mem_cons_of_mem _ hp))
    refine ⟨m1 + m2, s2, by rw [runCtl_add, h2run], h2pc, by rw [h2inp, h1inp], by rw [h2t, h1t], ?_, ?_⟩
    · intro j hj
      simp only [ids, List.map_cons, List.mem_cons, not_or] at hj
      obtain ⟨hjk, hjr⟩ := hj
      obtain ⟨f1, f2⟩ := h2frame j hjr
      refine ⟨by rw [f1, h1out, upd_other _ _ _ _ hjk], ?_⟩
      rw [f2, hrel1 j]
      exact ⟨fun h => h.1, fun h => ⟨h, fun e => absurd e hjk⟩⟩
    · intro p hp
      rcases List.mem_cons.1 hp with rfl | hp
      · obtain ⟨f1, f2⟩ := h2frame k hk
        simp only
        refine ⟨by rw [f1, h1out, upd_same], ?_⟩
        rw [f2, hrel1 k]
        exact ⟨fun h => ⟨h.1, h.2 rfl⟩, fun h => ⟨h.1, fun _ => h.2⟩⟩
      · obtain ⟨e1, e2⟩ := h2eff p hp
        rw [h1t] at e1 e2
        refine ⟨e1, ?_⟩
        rw [e2, hrel1 p.1]
        exact ⟨fun h => ⟨h.1.1, h.2⟩, fun h => ⟨⟨h.1, fun e => absurd e (hne p hp)⟩, h.2⟩⟩

def clearFin (i : Option AIn) : Option AIn := i.map fun x => { x with ctlFin := false }

theorem clearFin_idem (i : Option AIn) : clearFin (clearFin i) = clearFin i := by
  cases i <;> simp [clearFin]

theorem release_loop (r : Rules) : ∀ (todo : List (Fin n)) (s : Sys n), s.pc = .release todo →
    ∃ m s', runCtl r m s = s' ∧ s'.pc = .idle ∧ s'.out = s.out ∧
      (∀ j, s'.inp j = if j ∈ todo then clearFin (s.inp j) else s.inp j) := by
  intro todo
  induction todo with
  | nil =>
    intro s hpc
    exact ⟨1, _, rfl, by simp [runCtl, ctlWith, hpc], by simp [runCtl, ctlWith, hpc], by simp [runCtl, ctlWith, hpc]⟩
  | cons h t ih =>
    intro s hpc
    have h1 : (ctlWith r s {}).pc = .release t ∧ (ctlWith r s {}).out = s.out ∧
        (ctlWith r s {}).inp = upd s.inp h (clearFin (s.inp h)) := by
      simp only [ctlWith, hpc]
      simp only [List.getElem?_cons_zero, Option.getD_some, List.erase_cons_head, Bool.false_eq_true, if_false]
      split
      · rename_i hi
        refine ⟨rfl, rfl, ?_⟩
        simp only [hi, clearFin, Option.map_none]
        rw [← hi, upd_self]
      · rename_i cur hi
        refine ⟨rfl, rfl, ?_⟩
        simp [hi, clearFin]
    obtain ⟨m2, s2, h2run, h2pc, h2out, h2inp⟩ := ih (ctlWith r s {}) h1.1
    refine ⟨m2 + 1, s2, by simp only [runCtl]; exact h2run, h2pc, by rw [h2out, h1.2.1], ?_⟩
    intro j
    rw [h2inp j, h1.2.2]
    by_cases hjh : j = h
    · subst hjh
      simp only [upd_same, List.mem_cons, true_or, if_true]
      split
      · exact clearFin_idem _
      · rfl
    · simp [upd, hjh]

/-! ### one whole pass, pair by pair -/

/-- what one undisturbed pass does to a pair, as a function of that pair alone -/
def pairPass (i : Option AIn) (o : Option AOut) : Option AIn × Option AOut :=
  match i with
  | none =>
    (none, match o with
      | none => none
      | some o => (outEff o false).out)
  | some i =>
    let e := inEff i o
    match e.out with
    | none => (if e.rel then clearFin (some e.inp) else some e.inp, none)
    | some o1 =>
      let f := outEff o1 e.touched
      (if e.rel && f.keepRel then clearFin (some e.inp) else some e.inp, f.out)

theorem contains_eq_of_iff (l : List (Fin n)) (k : Fin n) (b : Bool) (h : k ∈ l ↔ b = true) : l.contains k = b := by
  cases b with
  | true => simpa using h.2 rfl
  | false =>
    have : k ∉ l := fun hk => by have := h.1 hk; cases this
    simpa using this

theorem pass_effect (r : Rules) (hr : ExactRules r) (s : Sys n) (hpc : s.pc = .idle) :
    ∃ m s', 0 < m ∧ runCtl r m s = s' ∧ s'.pc = .idle ∧
      ∀ k, (s'.inp k, s'.out k) = pairPass (s.inp k) (s.out k) := by
  -- List inputs
  have hA : (ctlWith r s {}).pc = .inputs (listOf s.inp) ∧ (ctlWith r s {}).inp = s.inp ∧ (ctlWith r s {}).out = s.out ∧
      (ctlWith r s {}).touched = [] ∧ (ctlWith r s {}).rel = [] ∧ (∀ j, (ctlWith r s {}).staleRead j = false) := by
    simp [ctlWith, hpc]
  obtain ⟨hApc, hAinp, hAout, hAt, hAr, hAs⟩ := hA
  -- processInputs
  obtain ⟨m1, s1, h1run, h1pc, _, _, h1frame, h1eff, h1t, h1r⟩ := in_loop r hr (listOf s.inp) (ctlWith r s {}) hApc
    (ids_listOf_nodup _) (by intro p hp; obtain ⟨a, b⟩ := p; rw [hAinp]; exact (TF.mem_listOf _ _ _).1 hp) hAs
  -- List outputs
  have hB : (ctlWith r s1 {}).pc = .outputs (listOf s1.out) ∧ (ctlWith r s1 {}).inp = s1.inp ∧ (ctlWith r s1 {}).out = s1.out ∧
      (ctlWith r s1 {}).touched = s1.touched ∧ (ctlWith r s1 {}).rel = s1.rel := by
    simp [ctlWith, h1pc]
  obtain ⟨hBpc, hBinp, hBout, hBt, hBr⟩ := hB
  -- cleanupOutputs
  obtain ⟨m2, s2, h2run, h2pc, h2inp, _, h2frame, h2eff⟩ := out_loop r hr (listOf s1.out) (ctlWith r s1 {}) hBpc
    (ids_listOf_nodup _) (by intro p hp; obtain ⟨a, b⟩ := p; rw [hBout]; exact (TF.mem_listOf _ _ _).1 hp)
  -- the release loop
  have hC : (ctlWith r s2 {}).pc = .release s2.rel ∧ (ctlWith r s2 {}).inp = s2.inp ∧ (ctlWith r s2 {}).out = s2.out := by
    simp [ctlWith, h2pc]
  obtain ⟨hCpc, hCinp, hCout⟩ := hC
  obtain ⟨m3, s3, h3run, h3pc, h3out, h3inp⟩ := release_loop r s2.rel (ctlWith r s2 {}) hCpc
  refine ⟨1 + m1 + 1 + m2 + 1 + m3, s3, by omega, ?_, h3pc, ?_⟩
  · have one : ∀ x : Sys n, runCtl r 1 x = ctlWith r x {} := fun _ => rfl
    rw [runCtl_add, runCtl_add, runCtl_add, runCtl_add, runCtl_add]
    simp only [one]
    rw [h1run, h2run]
    exact h3run
  · intro k
    rw [h3inp k, h3out, hCout, hCinp, h2inp, hBinp]
    cases hi : s.inp k with
    | none =>
      -- not listed: nothing happens to the input, it is neither touched nor entered for release
      have hnot : k ∉ ids (listOf (ctlWith r s {}).inp) := by
        rw [hAinp, mem_ids_listOf, hi]; simp
      have hnot' : k ∉ ids (listOf s.inp) := by rw [mem_ids_listOf, hi]; simp
      obtain ⟨f1, f2⟩ := h1frame k hnot'
      rw [hAinp, hi] at f1
      rw [hAout] at f2
      have ht : k ∉ s1.touched := by
        rw [h1t k, hAt]
        rintro (h | ⟨p, hp, hpk, _⟩)
        · cases h
        · obtain ⟨a, b⟩ := p
          have := (TF.mem_listOf _ _ _).1 hp
          simp only at hpk; subst hpk
          rw [hi] at this; cases this
      have hr1 : k ∉ s1.rel := by
        rw [h1r k, hAr]
        rintro (h | ⟨p, hp, hpk, _⟩)
        · cases h
        · obtain ⟨a, b⟩ := p
          have := (TF.mem_listOf _ _ _).1 hp
          simp only at hpk; subst hpk
          rw [hi] at this; cases this
      cases ho : s.out k with
      | none =>
        have hno : k ∉ ids (listOf s1.out) := by rw [mem_ids_listOf, f2, ho]; simp
        obtain ⟨g1, g2⟩ := h2frame k hno
        have hr2 : k ∉ s2.rel := fun h => hr1 (by rw [← hBr]; exact g2.1 h)
        simp [pairPass, hr2, f1, g1, hBout, f2, ho]
      | some o =>
        have hmem : (k, o) ∈ listOf s1.out := (TF.mem_listOf _ _ _).2 (by rw [f2, ho])
        obtain ⟨g1, g2⟩ := h2eff (k, o) hmem
        have hr2 : k ∉ s2.rel := fun h => hr1 (by rw [← hBr]; exact (g2.1 h).1)
        have htc : (ctlWith r s1 {}).touched.contains k = false := by
          rw [hBt]; simpa using ht
        simp only at g1
        rw [htc] at g1
        simp [pairPass, hr2, f1, g1]
    | some i =>
      have hmem : (k, i) ∈ listOf s.inp := (TF.mem_listOf _ _ _).2 hi
      obtain ⟨e1, e2⟩ := h1eff (k, i) hmem
      simp only at e1 e2
      rw [hAout] at e1 e2
      have huniq : ∀ p, p ∈ listOf s.inp → p.1 = k → p = (k, i) := by
        intro p hp hpk
        obtain ⟨a, b⟩ := p
        have := (TF.mem_listOf _ _ _).1 hp
        simp only at hpk; subst hpk
        rw [hi] at this; cases this; rfl
      have ht : k ∈ s1.touched ↔ (inEff i (s.out k)).touched = true := by
        rw [h1t k, hAt]
        constructor
        · rintro (h | ⟨p, hp, hpk, he⟩)
          · cases h
          · have := huniq p hp hpk; subst this; rw [hAout] at he; exact he
        · intro h; exact Or.inr ⟨(k, i), hmem, rfl, by rw [hAout]; exact h⟩
      have hr1 : k ∈ s1.rel ↔ (inEff i (s.out k)).rel = true := by
        rw [h1r k, hAr]
        constructor
        · rintro (h | ⟨p, hp, hpk, he⟩)
          · cases h
          · have := huniq p hp hpk; subst this; rw [hAout] at he; exact he
        · intro h; exact Or.inr ⟨(k, i), hmem, rfl, by rw [hAout]; exact h⟩
      have htc : (ctlWith r s1 {}).touched.contains k = (inEff i (s.out k)).touched := by
        rw [hBt]; exact contains_eq_of_iff _ _ _ ht
      cases heo : (inEff i (s.out k)).out with
      | none =>
        have hno : k ∉ ids (listOf s1.out) := by rw [mem_ids_listOf, e2, heo]; simp
        obtain ⟨g1, g2⟩ := h2frame k hno
        rw [hBout, e2, heo] at g1
        have hr2 : k ∈ s2.rel ↔ (inEff i (s.out k)).rel = true := by rw [g2, hBr]; exact hr1
        simp only [pairPass, heo, e1, g1]
        cases hrel : (inEff i (s.out k)).rel with
        | true => simp [hr2.2 hrel]
        | false =>
          have : k ∉ s2.rel := fun h => by have := hr2.1 h; rw [hrel] at this; cases this
          simp [this]
      | some o1 =>
        have hmem1 : (k, o1) ∈ listOf s1.out := (TF.mem_listOf _ _ _).2 (by rw [e2, heo])
        obtain ⟨g1, g2⟩ := h2eff (k, o1) hmem1
        simp only at g1 g2
        rw [htc] at g1 g2
        rw [hBr] at g2
        simp only [pairPass, heo, e1, g1]
        cases hkeep : ((inEff i (s.out k)).rel && (outEff o1 (inEff i (s.out k)).touched).keepRel) with
        | true =>
          simp only [Bool.and_eq_true] at hkeep
          have : k ∈ s2.rel := g2.2 ⟨hr1.2 hkeep.1, hkeep.2⟩
          simp [this]
        | false =>
          have : k ∉ s2.rel := by
            intro h
            have h' := g2.1 h
            have : ((inEff i (s.out k)).rel && (outEff o1 (inEff i (s.out k)).touched).keepRel) = true := by
              simp [hr1.1 h'.1, h'.2]
            rw [hkeep] at this; cases this
          simp [this]

/-! ### the per-pair function: finite case analysis -/

/-- C06's specification of a quiet pair (as `QT.specOk`, without the ignore-teardown option) -/
def specOk (i : Option AIn) (o : Option AOut) : Bool :=
  match i, o with
  | some i, some o =>
    if i.phase = .running then (o.phase == .running && o.fresh) || (o.phase == .tearingDown && o.foreign)
    else o.foreign
  | some i, none => i.phase == .tearingDown && !i.ctlFin
  | none, some o => o.foreign
  | none, none => true

/-- a quiet pair as C07 leaves it, the output type being the controller's own: an output is owned by the
    controller and its input carries the finalizer -/
def quietSafe (i : Option AIn) (o : Option AOut) : Bool :=
  match o with
  | none => true
  | some o => o.owned && (match i with
    | some i => i.ctlFin
    | none => false)

def pass2 (i : Option AIn) (o : Option AOut) : Option AIn × Option AOut :=
  pairPass (pairPass i o).1 (pairPass i o).2

macro "pair_cases" i:ident o:ident : tactic =>
  `(tactic| (rcases $i:ident with _ | ⟨ph, cf, fo⟩ <;> rcases $o:ident with _ | ⟨ow, oph, ofo, ofr⟩ <;>
      (try cases ph) <;> (try cases cf) <;> (try cases fo) <;> (try cases ow) <;> (try cases oph) <;>
      (try cases ofo) <;> (try cases ofr)))

theorem pairPass_quietSafe (i : Option AIn) (o : Option AOut) (h : quietSafe i o = true) :
    quietSafe (pairPass i o).1 (pairPass i o).2 = true := by
  pair_cases i o <;> first | decide | (exact absurd h (by decide))

theorem pair_two_passes_spec (i : Option AIn) (o : Option AOut) (h : quietSafe i o = true) :
    specOk (pass2 i o).1 (pass2 i o).2 = true := by
  pair_cases i o <;> first | decide | (exact absurd h (by decide))

/-- an old-generation output (tearing down, not held) stands in the way of a running input -/
def oldGen (i : Option AIn) (o : Option AOut) : Bool :=
  match i, o with
  | some i, some o => i.phase == .running && o.phase == .tearingDown && !o.foreign
  | _, _ => false

/-- one pass is enough unless an old-generation output has to be destroyed first -/
theorem pair_one_pass_spec (i : Option AIn) (o : Option AOut) (h : quietSafe i o = true) (hgen : oldGen i o = false) :
    specOk (pairPass i o).1 (pairPass i o).2 = true := by
  pair_cases i o <;> first | decide | (exact absurd h (by decide)) | (exact absurd hgen (by decide))

theorem pair_two_passes_fixpoint (i : Option AIn) (o : Option AOut) (h : quietSafe i o = true) :
    pairPass (pass2 i o).1 (pass2 i o).2 = pass2 i o := by
  pair_cases i o <;> first | decide | (exact absurd h (by decide))

theorem pair_fixpoint_is_spec (i : Option AIn) (o : Option AOut) (h : quietSafe i o = true)
    (hfix : pairPass i o = (i, o)) : specOk i o = true := by
  pair_cases i o <;> first | decide | (exact absurd h (by decide)) | (exact absurd hfix (by decide))

/-! ### C06 for the machine of the CURRENT source text -/

/-- the regenerated rules are exactly the intended ones (fails when the source text deviates) -/
theorem genRules_exact : ExactRules genRules :=
  ⟨by intro e; cases e <;> rfl, rfl, by intro ph fin ok; cases ph <;> cases fin <;> cases ok <;> rfl⟩

/-- an undisturbed stretch of controller actions IS a schedule of the machine -/
theorem runCtl_is_run (m : Nat) (s : Sys n) : runCtl genRules m s = TF.run s (List.replicate m (.ctl {})) := by
  induction m generalizing s with
  | zero => rfl
  | succ m ih =>
    simp only [runCtl, List.replicate_succ]
    rw [ih]
    rfl

/-- **one pass, pair by pair**: from any state in which the controller is between two passes, a pass with nobody
    interfering terminates (back to idle after `m > 0` actions), and what it does to pair `k` is `pairPass` of
    pair `k` alone — for any number of pairs -/
theorem pass_pointwise (s : Sys n) (hpc : s.pc = .idle) :
    ∃ m s', 0 < m ∧ runCtl genRules m s = s' ∧ s'.pc = .idle ∧
      ∀ k, (s'.inp k, s'.out k) = pairPass (s.inp k) (s.out k) :=
  pass_effect genRules (by exact genRules_exact) s hpc

/-- **bounded convergence** (bound = 2 passes): from any quiet state in which every pair is as C07 leaves it, two
    passes with nobody interfering reach a state in which EVERY pair satisfies the C06 specification: the output
    exists, is running and carries the latest transformed content iff the input is running (unless an old output
    is still held by a foreign finalizer); a torn-down input's output is gone (unless held) and the finalizer has
    been released — and that state is a fixpoint: a further pass changes no pair -/
theorem two_passes_reach_spec (s : Sys n) (hpc : s.pc = .idle) (hq : ∀ k, quietSafe (s.inp k) (s.out k) = true) :
    ∃ m s', runCtl genRules m s = s' ∧ s'.pc = .idle ∧ (∀ k, specOk (s'.inp k) (s'.out k) = true) ∧
      (∀ k, pairPass (s'.inp k) (s'.out k) = (s'.inp k, s'.out k)) := by
  obtain ⟨m1, s1, _, h1run, h1pc, h1⟩ := pass_effect genRules (by exact genRules_exact) s hpc
  obtain ⟨m2, s2, _, h2run, h2pc, h2⟩ := pass_effect genRules (by exact genRules_exact) s1 h1pc
  have hp : ∀ k, (s2.inp k, s2.out k) = pass2 (s.inp k) (s.out k) := by
    intro k
    rw [h2 k]
    have := h1 k
    simp only [Prod.ext_iff] at this
    rw [this.1, this.2]
    rfl
  refine ⟨m1 + m2, s2, by rw [runCtl_add, h1run, h2run], h2pc, ?_, ?_⟩
  · intro k
    have := hp k
    simp only [Prod.ext_iff] at this
    rw [this.1, this.2]
    exact pair_two_passes_spec _ _ (hq k)
  · intro k
    have := hp k
    simp only [Prod.ext_iff] at this
    rw [this.1, this.2]
    exact pair_two_passes_fixpoint _ _ (hq k)

/-- one pass suffices when no old-generation output stands in the way of a running input -/
theorem one_pass_reaches_spec (s : Sys n) (hpc : s.pc = .idle) (hq : ∀ k, quietSafe (s.inp k) (s.out k) = true)
    (hgen : ∀ k, oldGen (s.inp k) (s.out k) = false) :
    ∃ m s', runCtl genRules m s = s' ∧ s'.pc = .idle ∧ ∀ k, specOk (s'.inp k) (s'.out k) = true := by
  obtain ⟨m1, s1, _, h1run, h1pc, h1⟩ := pass_effect genRules (by exact genRules_exact) s hpc
  refine ⟨m1, s1, h1run, h1pc, ?_⟩
  intro k
  have := h1 k
  simp only [Prod.ext_iff] at this
  rw [this.1, this.2]
  exact pair_one_pass_spec _ _ (hq k) (hgen k)

/-- **reconcile_fixpoint_is_spec**: if a pass changes nothing for pair `k`, pair `k` satisfies the specification -/
theorem fixpoint_is_spec (s : Sys n) (hpc : s.pc = .idle) (hq : ∀ k, quietSafe (s.inp k) (s.out k) = true) :
    ∃ m s', 0 < m ∧ runCtl genRules m s = s' ∧ s'.pc = .idle ∧
      ∀ k, s'.inp k = s.inp k → s'.out k = s.out k → specOk (s.inp k) (s.out k) = true := by
  obtain ⟨m1, s1, hm, h1run, h1pc, h1⟩ := pass_effect genRules (by exact genRules_exact) s hpc
  refine ⟨m1, s1, hm, h1run, h1pc, ?_⟩
  intro k hi ho
  apply pair_fixpoint_is_spec _ _ (hq k)
  rw [← h1 k, hi, ho]

/-- **quiescent_is_spec**: after ANY history of external and controller actions (`as`), once nothing external
    happens any more, the controller is between two passes and is triggered (which C05 guarantees for every change)
    — the output ids being the controller's own (C17) — two passes later every pair satisfies the specification -/
theorem quiescent_is_spec (s0 : Sys n) (h0 : Safe s0) (as : List (Act n)) (hidle : (TF.run s0 as).pc = .idle)
    (hexcl : ∀ k o, (TF.run s0 as).out k = some o → o.owned = true) :
    ∃ m, (TF.run s0 (as ++ List.replicate m (.ctl {}))).pc = .idle ∧
      ∀ k, specOk ((TF.run s0 (as ++ List.replicate m (.ctl {}))).inp k)
                  ((TF.run s0 (as ++ List.replicate m (.ctl {}))).out k) = true := by
  have hs : Safe (TF.run s0 as) := C07T.safe_run s0 h0 as
  have hq : ∀ k, quietSafe ((TF.run s0 as).inp k) ((TF.run s0 as).out k) = true := by
    intro k
    cases ho : (TF.run s0 as).out k with
    | none => rfl
    | some o =>
      have hown := hexcl k o ho
      have hfin := hs.guard k (by simp [ownedOut, ho, hown])
      simp only [hasFin] at hfin
      simp only [quietSafe, hown, Bool.true_and]
      exact hfin
  obtain ⟨m, s', hrun, hpc, hspec, _⟩ := two_passes_reach_spec (TF.run s0 as) hidle hq
  refine ⟨m, ?_⟩
  have : TF.run s0 (as ++ List.replicate m (.ctl {})) = s' := by
    rw [← hrun, runCtl_is_run]
    simp [TF.run, TF.runWith, List.foldl_append]
  rw [this]
  exact ⟨hpc, hspec⟩

/-! ### a failed Modify is reported -/

/-- **C06 (retry).** A pass in which the Modify of an input failed for an outside reason — the transform function
    returned an error, a write inside it was refused, a conflict on a companion output — records an error (the pass
    ends with `multiErr`, the controller is restarted and the input is transformed again). The one error the loop
    skips is a phase conflict on the mapped output itself: the test is qualified by that output's namespace and type
    (`Gen.Ctrl.conflictSkipQualified`); with an unqualified test a conflict on any resource is swallowed and nothing
   retries the input. -/
theorem failed_modify_is_reported {n : Nat} (s : Sys n) (k : Fin n) (after : Bool) (rest : List (Fin n × AIn)) (c : Choice)
    (hpc : s.pc = .modify k after rest) (hf : c.fail = true) : (ctlWith genRules s c).errs = true := by
  unfold ctlWith
  rw [hpc]
  simp [hf, Gen.Ctrl.conflictSkipQualified]

/-- errors recorded earlier in the pass are kept by a failing Modify -/
theorem failed_modify_keeps_errors {n : Nat} (r : Rules) (s : Sys n) (k : Fin n) (after : Bool) (rest : List (Fin n × AIn))
    (c : Choice) (hpc : s.pc = .modify k after rest) (hf : c.fail = true) (he : s.errs = true) :
    (ctlWith r s c).errs = true := by
  unfold ctlWith
  rw [hpc]
  simp [hf, he]

/-! ### non-vacuity -/

/-- a pass over one running input whose Modify fails: the error is recorded -/
example :
    let s : Sys 1 := { inp := fun _ => some ⟨.running, true, false⟩, out := fun _ => none }
    let s1 := ctlWith genRules (ctlWith genRules s {}) {}
    s1.pc = .modify 0 false [] ∧ (ctlWith genRules s1 { fail := true }).errs = true := by decide

example : quietSafe (some ⟨.running, false, false⟩) none = true := by decide
example : specOk (some ⟨.running, false, false⟩) none = false := by decide
example : pairPass (some ⟨.running, false, false⟩) none
    = (some ⟨.running, true, false⟩, some ⟨true, .running, false, true⟩) := by decide
example : pairPass (some ⟨.tearingDown, true, false⟩) (some ⟨true, .running, false, true⟩)
    = (some ⟨.tearingDown, false, false⟩, none) := by decide
/-- the case that needs two passes: a running input whose old output is tearing down -/
example : pairPass (some ⟨.running, true, false⟩) (some ⟨true, .tearingDown, false, false⟩)
    = (some ⟨.running, true, false⟩, none) ∧
    pass2 (some ⟨.running, true, false⟩) (some ⟨true, .tearingDown, false, false⟩)
    = (some ⟨.running, true, false⟩, some ⟨true, .running, false, true⟩) := by decide
/-- two pairs at once: pair 0 is torn down and cleaned up while pair 1 is transformed, in the same pass -/
example :
    let s : Sys 2 := { inp := fun k => if k = 0 then some ⟨.tearingDown, true, false⟩ else some ⟨.running, false, false⟩,
                       out := fun k => if k = 0 then some ⟨true, .running, false, true⟩ else none }
    let s' := runCtl genRules 11 s
    s'.pc = .idle ∧ s'.inp 0 = some ⟨.tearingDown, false, false⟩ ∧ s'.out 0 = none ∧
    s'.inp 1 = some ⟨.running, true, false⟩ ∧ s'.out 1 = some ⟨true, .running, false, true⟩ := by decide

end Cosi.C06T
