/-
  Property C05 — no lost wake-ups: every input change reaches every dependent controller.

  Model: Cosi.Model.Pipeline (log suffix → watchCh → dedup map → deliver → trigger →
  take → read), any number of controllers, any keys, any schedule.

    step_inv / run_inv          the invariant `PInv` (newest in-flight entry of a key is its
                                current value; dedup map has one entry per key; Demand) is
                                preserved by every step, hence holds after every schedule
    pending_or_observed         for every controller and input key: observed = current, or a
                                wake-up is pending, or the current value is still in flight
    quiescent_means_current     the property itself
    dedup_last_value_wins, trigger_keeps_one_pending, init_inv (start-up covers existing)
    ctlOk_of_decls              the adapter's trigger rule (regenerated shape of WatchTrigger) never filters
                                out what the declarations demand; pipeline_facts: non-blocking cap-1 trigger etc.
    ctlOk_perGroup_of_consistent / d5_lost_wakeup_witness   the per-(namespace,type) filter of the tree before
                                the D5 fix is harmless only for unmixed groups, and loses wake-ups otherwise

  Queue controllers are the same system at (controller × primary item) granularity:
  `trigger` = the item is pending in the reconcile queue (C09 coalescing: one entry),
  `reading` = the item is on hold being reconciled (a Put during the hold is kept: C09
  no_loss = `trigger` may be set while `reading`), `needs`/`passes` per item come from the
  primary / mapped / mapped-destroy-ready inputs whose mapper names the item (the q-adapter
  evaluates the destroy-ready filter per input, qruntime/watch.go:25, so it is always
  consistent), and start-up enqueues every existing primary after the watch is set
  (`init_inv`: every item starts triggered).

  Limits (partial): `dedup` and `deliver` are atomic here; the hand-off of the map between the
  two goroutines of processWatched, a delivery parked between lookup and trigger, and
  registration in that window are the fine model Cosi.Model.Handoff / Cosi.Props.C05Handoff
  (same invariant, every schedule; `takeKey_trigger_is_deliver` ties the two). A reconcile
  reads all its inputs in one atomic `read` step (a write between two reads of one pass
  produces a fresh token, so the invariant is unaffected).
-/
import Cosi.Model.Pipeline
open Cosi Cosi.Pipeline
namespace Cosi.C05


theorem lastOf_append (k : Key) (a b : List Entry) :
    lastOf k (a ++ b) = (lastOf k b).or (lastOf k a) := by
  unfold lastOf
  rw [List.filter_append, List.getLast?_append]
  cases h : (List.filter (fun x => decide (x.1 = k)) b).getLast? <;> simp

theorem lastOf_nil (k : Key) : lastOf k [] = none := rfl

theorem lastOf_single (k : Key) (e : Entry) : lastOf k [e] = if e.1 = k then some e.2 else none := by
  unfold lastOf
  by_cases h : e.1 = k <;> simp [List.filter, h]

/-- removing the entries of another key does not change a key's entries -/
theorem filter_ne_comm (k k' : Key) (h : k ≠ k') (l : List Entry) :
    (l.filter (·.1 ≠ k')).filter (·.1 = k) = l.filter (·.1 = k) := by
  rw [List.filter_filter]
  apply List.filter_congr
  intro a _
  by_cases h1 : a.1 = k
  · have h2 : a.1 ≠ k' := by rw [h1]; exact h
    simp [h1, h]
  · simp [h1]

theorem lastOf_filter_ne (k k' : Key) (h : k ≠ k') (l : List Entry) :
    lastOf k (l.filter (·.1 ≠ k')) = lastOf k l := by
  unfold lastOf; rw [filter_ne_comm k k' h]

theorem lastOf_filter_self (k : Key) (l : List Entry) : lastOf k (l.filter (·.1 ≠ k)) = none := by
  unfold lastOf
  have : (l.filter (·.1 ≠ k)).filter (·.1 = k) = [] := by
    rw [List.filter_filter]
    apply List.filter_eq_nil_iff.2
    intro a _; simp
  rw [this]; rfl

/-- `m[k] = v` keeps, for every key, the newest of (old entries, new entry) -/
theorem lastOf_upd (k : Key) (d : List Entry) (e : Entry) :
    lastOf k (upd d e) = lastOf k (d ++ [e]) := by
  unfold upd
  rw [lastOf_append, lastOf_append, lastOf_single]
  by_cases h : e.1 = k
  · simp [h]
  · have h' : k ≠ e.1 := fun x => h x.symm
    simp only [h, if_false, Option.or]
    exact lastOf_filter_ne k e.1 h' d

theorem lastOf_foldl_upd (k : Key) (b d rest : List Entry) :
    lastOf k (b.foldl upd d ++ rest) = lastOf k (d ++ b ++ rest) := by
  induction b generalizing d with
  | nil => simp
  | cons e es ih =>
    simp only [List.foldl_cons]
    rw [ih (upd d e)]
    rw [lastOf_append, lastOf_append, lastOf_append (a := d ++ e :: es), lastOf_append (a := d),
      lastOf_upd, lastOf_append]
    have : lastOf k (e :: es) = (lastOf k es).or (lastOf k [e]) := by
      rw [← lastOf_append]; rfl
    rw [this]
    cases lastOf k rest <;> cases lastOf k es <;> cases lastOf k [e] <;> cases lastOf k d <;> rfl

/-- the dedup map holds at most one entry per key -/
def Uniq (d : List Entry) : Prop := ∀ k, (d.filter (·.1 = k)).length ≤ 1

theorem uniq_upd (d : List Entry) (e : Entry) (h : Uniq d) : Uniq (upd d e) := by
  intro k
  unfold upd
  rw [List.filter_append]
  by_cases hk : e.1 = k
  · have : (d.filter (·.1 ≠ e.1)).filter (·.1 = k) = [] := by
      rw [hk, List.filter_filter]
      apply List.filter_eq_nil_iff.2
      intro a _; simp
    rw [this]; simp [List.filter, hk]
  · have hk' : k ≠ e.1 := fun x => hk x.symm
    rw [filter_ne_comm k e.1 hk']
    simp [List.filter, hk]
    exact h k

theorem uniq_foldl_upd (b d : List Entry) (h : Uniq d) : Uniq (b.foldl upd d) := by
  induction b generalizing d with
  | nil => exact h
  | cons e es ih => exact ih _ (uniq_upd d e h)

theorem uniq_filter (d : List Entry) (k' : Key) (h : Uniq d) : Uniq (d.filter (·.1 ≠ k')) := by
  intro k
  by_cases hk : k = k'
  · subst hk
    have := lastOf_filter_self k d
    rw [List.filter_filter]
    have : d.filter (fun a => decide (a.1 = k) && decide (a.1 ≠ k)) = [] := by
      apply List.filter_eq_nil_iff.2; intro a _; simp
    rw [this]; simp
  · rw [filter_ne_comm k k' hk]; exact h k

/-- with at most one entry per key, `find?` returns the newest (= only) one -/
theorem find_is_last (d : List Entry) (k : Key) (h : Uniq d) :
    (d.find? (·.1 = k)).map (·.2) = lastOf k d := by
  unfold lastOf
  have hu := h k
  rw [← List.head?_filter]
  cases hf : d.filter (·.1 = k) with
  | nil => rfl
  | cons a as =>
    rw [hf] at hu
    have : as = [] := by
      cases as with
      | nil => rfl
      | cons b bs => simp at hu
    subst this; rfl

/-! ### the invariant -/

/-- for controller `c` and key `k`: the controller has seen the current value, or a
    wake-up is pending for it, or the current value is still travelling towards it -/
def Good (s : PSys) (c : Ctl) (k : Key) : Prop :=
  c.observed k = (s.cur k).ver ∨ c.trigger = true ∨ c.reading = true ∨ (lastOf k (flight s)).isSome = true

/-- the trigger rule never filters out what the declarations demand -/
def CtlOk (c : Ctl) : Prop :=
  ∀ k v, (c.needs k = .always → c.passes k v = true) ∧ (c.needs k = .whenDR → v.dr = true → c.passes k v = true)

def Demand (s : PSys) (c : Ctl) (k : Key) : Prop :=
  match c.needs k with
  | .none => True
  | .always => Good s c k
  | .whenDR => (s.cur k).dr = true → Good s c k

structure PInv (s : PSys) : Prop where
  newest : ∀ k v, lastOf k (flight s) = some v → v = s.cur k
  uniq : Uniq s.dedup
  ok : ∀ c ∈ s.ctls, CtlOk c
  demand : ∀ c ∈ s.ctls, ∀ k, Demand s c k

theorem demand_of_good (s : PSys) (c : Ctl) (k : Key) (h : Good s c k) : Demand s c k := by
  unfold Demand; cases c.needs k <;> simp [h]

/-- Demand only looks at cur k, the controller and lastOf k (flight) -/
theorem demand_congr (s s' : PSys) (c c' : Ctl) (k : Key)
    (hcur : s'.cur k = s.cur k) (hneeds : c'.needs k = c.needs k)
    (hgood : Good s c k → Good s' c' k) (h : Demand s c k) : Demand s' c' k := by
  unfold Demand at *
  rw [hneeds, hcur]
  cases hn : c.needs k with
  | none => trivial
  | always => rw [hn] at h; exact hgood h
  | whenDR => rw [hn] at h; exact fun hd => hgood (h hd)

theorem good_transfer (s s' : PSys) (c c' : Ctl) (k : Key) (hcur : s'.cur k = s.cur k)
    (hfl : lastOf k (flight s') = lastOf k (flight s)) (hobs : c'.observed k = c.observed k)
    (hread : c'.reading = c.reading) (htrig : c.trigger = true → c'.trigger = true) :
    Good s c k → Good s' c' k := by
  intro hg
  unfold Good at *
  rw [hcur, hfl, hobs, hread]
  rcases hg with hg | hg | hg | hg
  · exact Or.inl hg
  · exact Or.inr (Or.inl (htrig hg))
  · exact Or.inr (Or.inr (Or.inl hg))
  · exact Or.inr (Or.inr (Or.inr hg))

theorem mem_setCtl (l : List Ctl) (i : Nat) (f : Ctl → Ctl) (c : Ctl) (h : c ∈ setCtl l i f) :
    c ∈ l ∨ ∃ c0 ∈ l, c = f c0 := by
  unfold setCtl at h
  cases hl : l[i]? with
  | none => rw [hl] at h; exact Or.inl h
  | some c0 =>
    rw [hl] at h
    rcases List.mem_or_eq_of_mem_set h with h | h
    · exact Or.inl h
    · exact Or.inr ⟨c0, List.mem_of_getElem? hl, h⟩

theorem flight_fetch (s : PSys) (n : Nat) :
    flight { s with watchCh := s.watchCh ++ [s.logSuffix.take n], logSuffix := s.logSuffix.drop n } = flight s := by
  unfold flight
  simp only [List.flatten_append, List.flatten_cons, List.flatten_nil, List.append_nil, List.append_assoc,
    List.take_append_drop]

theorem step_inv (s : PSys) (x : Step) (h : PInv s) : PInv (step s x) := by
  obtain ⟨hnew, huniq, hok, hdem⟩ := h
  cases x with
  | write k dr =>
    have hfl : flight (step s (.write k dr)) = flight s ++ [(k, { ver := (s.cur k).ver + 1, dr := dr })] := by
      simp [step, flight]
    refine ⟨?_, huniq, hok, ?_⟩
    · intro k' v hv
      rw [hfl, lastOf_append, lastOf_single] at hv
      by_cases hk : k = k'
      · subst hk; simp at hv; simp [step, ← hv]
      · simp only [hk, if_false, Option.or] at hv
        have := hnew k' v hv
        have hk' : ¬ k' = k := fun e => hk e.symm
        simp [step, hk', this]
    · intro c hc k'
      by_cases hk : k = k'
      · subst hk
        apply demand_of_good
        right; right; right
        rw [hfl, lastOf_append, lastOf_single]; simp
      · have hk' : ¬ k' = k := fun e => hk e.symm
        refine demand_congr s _ c c k' (by simp [step, hk']) rfl ?_ (hdem c hc k')
        intro hg
        rcases hg with hg | hg | hg | hg
        · left; simp [step, hk', hg]
        · right; left; exact hg
        · right; right; left; exact hg
        · right; right; right
          rw [hfl, lastOf_append, lastOf_single]; simp only [hk, if_false, Option.or]; exact hg
  | fetch n =>
    simp only [step]
    by_cases hn : n = 0 ∨ s.logSuffix = []
    · simp only [hn, if_true]; exact ⟨hnew, huniq, hok, hdem⟩
    · simp only [hn, if_false]
      have hfl := flight_fetch s n
      refine ⟨by rw [hfl]; exact hnew, huniq, hok, ?_⟩
      intro c hc k
      refine demand_congr s _ c c k rfl rfl ?_ (hdem c hc k)
      intro hg; unfold Good at *; rw [hfl]; exact hg
  | dedup =>
    simp only [step]
    cases hw : s.watchCh with
    | nil => exact ⟨hnew, huniq, hok, hdem⟩
    | cons b bs =>
      simp only
      have hfl : ∀ k, lastOf k (flight { s with watchCh := bs, dedup := b.foldl upd s.dedup }) = lastOf k (flight s) := by
        intro k
        unfold flight
        simp only [hw, List.flatten_cons]
        rw [List.append_assoc, lastOf_foldl_upd]
        simp only [List.append_assoc]
      refine ⟨fun k v hv => hnew k v (by rw [← hfl]; exact hv), uniq_foldl_upd b _ huniq, hok, ?_⟩
      intro c hc k
      refine demand_congr s _ c c k rfl rfl ?_ (hdem c hc k)
      intro hg; unfold Good at *; rw [hfl]; exact hg
  | deliver k =>
    simp only [step]
    cases hf : s.dedup.find? (·.1 = k) with
    | none => exact ⟨hnew, huniq, hok, hdem⟩
    | some kv =>
      obtain ⟨k0, v⟩ := kv
      simp only
      have hlast : lastOf k s.dedup = some v := by
        rw [← find_is_last s.dedup k huniq, hf]; rfl
      -- the flight after removing k from the dedup map
      have hfl_other : ∀ k', k' ≠ k → ∀ cs, lastOf k' (flight { s with dedup := s.dedup.filter (·.1 ≠ k), ctls := cs })
          = lastOf k' (flight s) := by
        intro k' hk' cs
        unfold flight
        rw [lastOf_append, lastOf_append, lastOf_append (a := s.dedup ++ s.watchCh.flatten), lastOf_append (a := s.dedup),
          lastOf_filter_ne k' k hk']
      have hfl_self : ∀ cs, lastOf k (flight { s with dedup := s.dedup.filter (·.1 ≠ k), ctls := cs })
          = lastOf k (s.watchCh.flatten ++ s.logSuffix) := by
        intro cs
        unfold flight
        rw [List.append_assoc, lastOf_append, lastOf_filter_self]
        cases lastOf k (s.watchCh.flatten ++ s.logSuffix) <;> rfl
      have hfl_old : lastOf k (flight s) = (lastOf k (s.watchCh.flatten ++ s.logSuffix)).or (some v) := by
        unfold flight
        rw [List.append_assoc, lastOf_append, hlast]
      refine ⟨?_, uniq_filter _ k huniq, ?_, ?_⟩
      · intro k' v' hv'
        by_cases hk' : k' = k
        · subst hk'
          rw [hfl_self] at hv'
          exact hnew k' v' (by rw [hfl_old, hv']; rfl)
        · rw [hfl_other k' hk'] at hv'; exact hnew k' v' hv'
      · intro c hc
        simp only [List.mem_map] at hc
        obtain ⟨c0, hc0, rfl⟩ := hc
        have := hok c0 hc0
        split <;> exact this
      · intro c hc k'
        simp only [List.mem_map] at hc
        obtain ⟨c0, hc0, rfl⟩ := hc
        have hd0 := hdem c0 hc0 k'
        have hok0 := hok c0 hc0
        by_cases hk' : k' = k
        · subst hk'
          -- the delivered key itself
          by_cases hrest : (lastOf k' (s.watchCh.flatten ++ s.logSuffix)).isSome = true
          · -- a newer entry is still in flight
            split
            · exact demand_of_good _ _ _ (Or.inr (Or.inl rfl))
            · refine demand_congr s _ c0 c0 k' rfl rfl ?_ hd0
              intro _; right; right; right; rw [hfl_self]; exact hrest
          · -- the delivered value was the newest: it is the current value
            have hnone : lastOf k' (s.watchCh.flatten ++ s.logSuffix) = none := by
              cases hx : lastOf k' (s.watchCh.flatten ++ s.logSuffix) with
              | none => rfl
              | some _ => rw [hx] at hrest; exact absurd rfl hrest
            have hcur : v = s.cur k' := hnew k' v (by rw [hfl_old, hnone]; rfl)
            by_cases hcond : c0.needs k' ≠ .none ∧ c0.passes k' v = true
            · simp only [hcond, and_self, if_true, ne_eq, not_false_eq_true]
              exact demand_of_good _ _ _ (Or.inr (Or.inl rfl))
            · simp only [hcond, if_false]
              -- not triggered: then nothing is demanded, or it was already good without the flight
              unfold Demand at *
              cases hn : c0.needs k' with
              | none => trivial
              | always =>
                have := (hok0 k' v).1 hn
                exact absurd ⟨(by rw [hn]; exact fun e => by cases e), this⟩ hcond
              | whenDR =>
                intro hdr
                have : c0.passes k' v = true := (hok0 k' v).2 hn (by rw [hcur]; exact hdr)
                exact absurd ⟨(by rw [hn]; exact fun e => by cases e), this⟩ hcond
        · -- another key: only the trigger may have become true
          split
          · exact demand_congr s _ c0 _ k' rfl rfl
              (good_transfer s _ c0 _ k' rfl (hfl_other k' hk' _) rfl rfl (fun _ => rfl)) hd0
          · exact demand_congr s _ c0 _ k' rfl rfl
              (good_transfer s _ c0 _ k' rfl (hfl_other k' hk' _) rfl rfl id) hd0
  | take i =>
    simp only [step, step.setCtl']
    refine ⟨hnew, huniq, ?_, ?_⟩
    · intro c hc
      rcases mem_setCtl _ _ _ _ hc with h | ⟨c0, h0, rfl⟩
      · exact hok c h
      · have := hok c0 h0; split <;> exact this
    · intro c hc k
      rcases mem_setCtl _ _ _ _ hc with h | ⟨c0, h0, rfl⟩
      · exact demand_congr s _ c c k rfl rfl (fun hg => hg) (hdem c h k)
      · split
        · exact demand_of_good _ _ _ (Or.inr (Or.inr (Or.inl rfl)))
        · exact demand_congr s _ c0 c0 k rfl rfl (fun hg => hg) (hdem c0 h0 k)
  | read i =>
    simp only [step, step.setCtl']
    refine ⟨hnew, huniq, ?_, ?_⟩
    · intro c hc
      rcases mem_setCtl _ _ _ _ hc with h | ⟨c0, h0, rfl⟩
      · exact hok c h
      · have := hok c0 h0; split <;> exact this
    · intro c hc k
      rcases mem_setCtl _ _ _ _ hc with h | ⟨c0, h0, rfl⟩
      · exact demand_congr s _ c c k rfl rfl (fun hg => hg) (hdem c h k)
      · split
        · exact demand_of_good _ _ _ (Or.inl rfl)
        · exact demand_congr s _ c0 c0 k rfl rfl (fun hg => hg) (hdem c0 h0 k)

/-! ### every schedule -/

theorem run_inv (xs : List Step) : ∀ s, PInv s → PInv (run s xs) := by
  induction xs with
  | nil => intro s h; exact h
  | cons x xs ih => intro s h; exact ih _ (step_inv s x h)

/-- a freshly started runtime: nothing in flight; every controller was triggered once
    at registration (`NewAdapter` ends with `triggerReconcile`, rruntime.go:86; the
    q-runtime lists and enqueues every existing primary after its watch is set up) -/
theorem init_inv (cur : Key → Val) (ctls : List Ctl) (hok : ∀ c ∈ ctls, CtlOk c)
    (htrig : ∀ c ∈ ctls, c.trigger = true) : PInv { cur := cur, ctls := ctls } := by
  refine ⟨?_, ?_, hok, ?_⟩
  · intro k v hv; simp [flight, lastOf] at hv
  · intro k; simp
  · intro c hc k; exact demand_of_good _ _ _ (Or.inr (Or.inl (htrig c hc)))

/-- the system is quiet: nothing in flight, no wake-up pending, no reconcile running -/
def Quiet (s : PSys) : Prop :=
  flight s = [] ∧ ∀ c ∈ s.ctls, c.trigger = false ∧ c.reading = false

/-- **C05 — no lost wake-ups.** For every write history, every batching of events by
    the watchers, every dedup/delivery schedule, every controller busy time (any
    `List Step`), any number of controllers and input declarations: whenever the system
    goes quiet, the last state each controller observed for each of its inputs is the
    current state — for destroy-ready inputs: for every resource currently tearing down
    without finalizers. -/
theorem quiescent_means_current (s0 : PSys) (h0 : PInv s0) (xs : List Step) (hq : Quiet (run s0 xs)) :
    ∀ c ∈ (run s0 xs).ctls, ∀ k,
      (c.needs k = .always → c.observed k = ((run s0 xs).cur k).ver) ∧
      (c.needs k = .whenDR → ((run s0 xs).cur k).dr = true → c.observed k = ((run s0 xs).cur k).ver) := by
  intro c hc k
  have hinv := run_inv xs s0 h0
  have hd := hinv.demand c hc k
  obtain ⟨hfl, hidle⟩ := hq
  obtain ⟨ht, hr⟩ := hidle c hc
  have hgood : Good (run s0 xs) c k → c.observed k = ((run s0 xs).cur k).ver := by
    intro hg
    rcases hg with hg | hg | hg | hg
    · exact hg
    · rw [ht] at hg; cases hg
    · rw [hr] at hg; cases hg
    · rw [hfl] at hg; simp [lastOf] at hg
  unfold Demand at hd
  constructor
  · intro hn; rw [hn] at hd; exact hgood hd
  · intro hn hdr; rw [hn] at hd; exact hgood (hd hdr)

/-- `pending_or_observed`, the invariant itself, for every reachable state -/
theorem pending_or_observed (s0 : PSys) (h0 : PInv s0) (xs : List Step) :
    ∀ c ∈ (run s0 xs).ctls, ∀ k, Demand (run s0 xs) c k :=
  (run_inv xs s0 h0).demand

/-- deduplication keeps, per key, the last value (`m[key] = value`, processEvents) -/
theorem dedup_last_value_wins (k : Key) (d b : List Entry) :
    lastOf k (b.foldl upd d) = (lastOf k b).or (lastOf k d) := by
  have := lastOf_foldl_upd k b d []
  simp only [List.append_nil] at this
  rw [this, lastOf_append]

/-- the non-blocking send on the capacity-1 event channel never loses a wake-up: after
    a delivery that passes the filter the event is pending, whatever was there before -/
theorem trigger_keeps_one_pending (s : PSys) (k : Key) (v : Val) (c : Ctl) (hc : c ∈ s.ctls)
    (hf : s.dedup.find? (·.1 = k) = some (k, v)) (hn : c.needs k ≠ .none) (hp : c.passes k v = true) :
    ∃ c' ∈ (step s (.deliver k)).ctls, c'.trigger = true ∧ c'.needs = c.needs ∧ c'.observed = c.observed := by
  simp only [step, hf]
  refine ⟨{ c with trigger := true }, ?_, rfl, rfl, rfl⟩
  simp only [List.mem_map]
  exact ⟨c, hc, by simp [hn, hp]⟩

/-! ### from declarations (rruntime) -/

theorem needsOf_always (km : KeyMap) (ds : List Decl) (k : Key) (h : needsOf km ds k = .always) :
    ∃ d ∈ ds, d.matchesKey km k = true ∧ d.kind ≠ .destroyReady := by
  unfold needsOf at h
  simp only at h
  split at h
  · cases h
  · split at h
    · rename_i hany
      simp only [List.any_eq_true, List.mem_filter] at hany
      obtain ⟨d, ⟨hd, hm⟩, hk⟩ := hany
      exact ⟨d, hd, hm, by simpa using hk⟩
    · cases h

/-- the per-input rule never filters out what the declarations demand -/
theorem ctlOk_perInput (km : KeyMap) (ds : List Decl) (trigger reading : Bool) (obs : Key → Nat) :
    CtlOk { needs := needsOf km ds, passes := passesPerInput km ds, trigger := trigger, reading := reading, observed := obs } := by
  intro k v
  constructor
  · intro hn
    obtain ⟨d, hd, hm, hk⟩ := needsOf_always km ds k hn
    show passesPerInput km ds k v = true
    unfold passesPerInput
    simp only
    have hmem : d ∈ ds.filter (·.matchesKey km k) := List.mem_filter.2 ⟨hd, hm⟩
    have hne : (ds.filter (·.matchesKey km k)).isEmpty = false := by
      cases hl : ds.filter (·.matchesKey km k) with
      | nil => rw [hl] at hmem; cases hmem
      | cons _ _ => rfl
    rw [hne]
    simp only [Bool.false_eq_true, if_false, List.any_eq_true]
    refine ⟨d, hmem, ?_⟩
    cases hkk : d.kind <;> simp_all
  · intro _ hdr
    show passesPerInput km ds k v = true
    unfold passesPerInput
    simp only
    split
    · rfl
    · rename_i hne
      cases hl : ds.filter (·.matchesKey km k) with
      | nil => rw [hl] at hne; exact absurd rfl hne
      | cons d ds' => simp [hdr]

/-- **Every declaration set is served by the adapter's trigger rule** — rests on the
    regenerated shape of rruntime.(*Adapter).WatchTrigger (`Gen.Pipeline.filterRule`): with
    the per-(namespace,type) filter of the tree before the D5 fix this does not hold
    (`d5_lost_wakeup_witness`) and only `ctlOk_perGroup_of_consistent` is available. -/
theorem ctlOk_of_decls (km : KeyMap) (ds : List Decl) (trigger reading : Bool) (obs : Key → Nat) :
    CtlOk { needs := needsOf km ds, passes := passesOf km ds, trigger := trigger, reading := reading, observed := obs } := by
  have h : passesOf km ds = passesPerInput km ds := by
    funext k v; simp [passesOf, Gen.Pipeline.filterRule]
  rw [h]; exact ctlOk_perInput km ds trigger reading obs

/-- the structural facts the step function of the model relies on: the trigger is a
    non-blocking send on a capacity-1 channel (`deliver` never blocks and keeps one event
    pending), every controller is triggered once at registration (`init_inv`), the
    q-adapter filters per input (always consistent) -/
theorem pipeline_facts :
    Gen.Pipeline.triggerNonBlocking = true ∧ Gen.Pipeline.eventChCap = 1 ∧
    Gen.Pipeline.triggerOnRegister = true ∧ Gen.Pipeline.qFilterPerInput = true ∧
    0 < Gen.Pipeline.watchBuffer := by decide

/-- the old per-group rule is harmless when no (namespace,type) group mixes a
    destroy-ready input with inputs of another kind -/
theorem ctlOk_perGroup_of_consistent (km : KeyMap) (ds : List Decl) (hc : filtersConsistent ds = true)
    (trigger reading : Bool) (obs : Key → Nat) :
    CtlOk { needs := needsOf km ds, passes := passesPerGroup km ds, trigger := trigger, reading := reading, observed := obs } := by
  intro k v
  constructor
  · intro hn
    obtain ⟨d, hd, hm, hk⟩ := needsOf_always km ds k hn
    show passesPerGroup km ds k v = true
    unfold passesPerGroup
    have hnofilter : ds.any (fun d' => d'.kind == .destroyReady && d'.g == km.group k) = false := by
      unfold filtersConsistent at hc
      simp only [List.all_eq_true] at hc
      have := hc d hd
      have hkind : (d.kind == InKind.destroyReady) = false := by
        cases hkk : d.kind <;> simp_all
      simp only [hkind, Bool.false_or, Bool.not_eq_true'] at this
      have hg : d.g = km.group k := by
        unfold Decl.matchesKey at hm
        simp only [Bool.and_eq_true, beq_iff_eq] at hm
        exact hm.1
      rw [← hg]; exact this
    rw [hnofilter]; rfl
  · intro _ hdr
    show passesPerGroup km ds k v = true
    unfold passesPerGroup
    split
    · exact hdr
    · rfl

/-- **D5 — the per-group rule loses wake-ups in a mixed group** (kernel-checked; this is
    the behaviour of the tree before the `fix:` commit). Inputs {(g0, id 1, DestroyReady),
    (g0, id 2, Weak)}: a change of the weak input id 2 that is not itself destroy-ready
    never triggers the controller: the system goes quiet with the controller having
    observed version 0 of a key whose current version is 1. -/
def d5Km : KeyMap := { group := fun _ => 0, ident := fun k => k }
def d5Decls : List Decl := [⟨0, some 1, .destroyReady⟩, ⟨0, some 2, .weak⟩]
def d5Sys : PSys :=
  { cur := fun _ => ⟨0, false⟩,
    ctls := [{ needs := needsOf d5Km d5Decls, passes := passesPerGroup d5Km d5Decls }] }
def d5Run : PSys := run d5Sys [.write 2 false, .fetch 1, .dedup, .deliver 2]

theorem d5_lost_wakeup_witness :
    filtersConsistent d5Decls = false ∧
    needsOf d5Km d5Decls 2 = .always ∧
    flight d5Run = [] ∧
    (d5Run.ctls.map fun c => (c.trigger, c.reading, c.observed 2)) = [(false, false, 0)] ∧
    (d5Run.cur 2).ver = 1 := by decide

/-- the same schedule under the per-input rule wakes the controller -/
def d5SysFixed : PSys :=
  { cur := fun _ => ⟨0, false⟩,
    ctls := [{ needs := needsOf d5Km d5Decls, passes := passesPerInput d5Km d5Decls }] }

example : ((run d5SysFixed [.write 2 false, .fetch 1, .dedup, .deliver 2]).ctls.map (·.trigger)) = [true] := by decide

/-! ### non-vacuity -/

example : PInv d5Sys → False := by
  intro h
  have := (h.ok _ (List.mem_singleton.2 rfl) 2 ⟨1, false⟩).1 (by decide)
  revert this; decide

def okDecls : List Decl := [⟨0, none, .weak⟩, ⟨1, some 3, .destroyReady⟩]
example : filtersConsistent okDecls = true := by decide

end Cosi.C05
