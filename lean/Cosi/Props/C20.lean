/-
  Cosi.Props.C20 — key storage: the master key is recoverable via live slots only;
  tampering is detected (property C20).

  Model: `Cosi.Model.KeyStorage` (transcribes /repo/pkg/keystorage/keystorage.go; guard
  chains, HMAC field list and the verify flags are regenerated into `Gen.KeyStorage`).
  Specification: `Cosi.Spec.KeyStorage` (written from the property statement).
  Primitives (PGP encryption, HMAC-SHA256) are parameters; `CryptoOk` collects what is
  assumed about them as HYPOTHESES of the theorems.

  Property theorems (all for ANY slot ids, key texts, master keys, primitives satisfying
  `CryptoOk`, and ALL operation sequences `ops : List Op`, by induction):
    * `step_sim`, `run_sim`, `outputs_as_specified` — the code refines the specification;
    * `live_slots_recover` (+ `deleted_slot_refused`, `never_added_slot_refused`);
    * `guards` (+ `initialised_keeps_a_slot`);
    * `marshal_roundtrip`;
    * `tamper_detected_partial`, `tamper_detected_after_run`  — PARTIAL, see there;
    * `empty_slot_injection_undetected`, `empty_slot_injection_undetected_run`,
      `rename_undetected` — kernel-checked NEGATIVE witnesses (DESIGN §5 D6): the full
      tamper-detection statement is false for the code as it is;
    * `symCrypto_ok`, `symCrypto_cross` and the `example`s — non-vacuity.
-/
import Cosi.Spec.KeyStorage

namespace Cosi.C20
open Cosi.KeyStorage
open Cosi.Spec.KeyStorage (Live St SOut knownPub auth abs)

/-! ### association-list lemmas (local helpers) -/

section AL
variable {β : Type}

theorem lookup_insert_self (k : SlotId) (v : β) (l : List (SlotId × β)) :
    alLookup k (alInsert k v l) = some v := by
  induction l with
  | nil => simp [alInsert, alLookup]
  | cons h t ih =>
    obtain ⟨k', v'⟩ := h
    simp only [alInsert]
    by_cases h1 : k < k'
    · simp [h1, alLookup]
    · by_cases h2 : k = k'
      · simp [h2, alLookup]
      · have h3 : ¬ k' = k := fun e => h2 e.symm
        simp [h1, h2, h3, alLookup, ih]

theorem lookup_insert_other (k k2 : SlotId) (v : β) (l : List (SlotId × β)) (hne : k2 ≠ k) :
    alLookup k2 (alInsert k v l) = alLookup k2 l := by
  have hne' : ¬ k = k2 := fun e => hne e.symm
  induction l with
  | nil => simp [alInsert, alLookup, hne']
  | cons h t ih =>
    obtain ⟨k', v'⟩ := h
    simp only [alInsert]
    by_cases h1 : k < k'
    · simp [h1, alLookup, hne']
    · by_cases h2 : k = k'
      · subst h2; simp [h1, alLookup, hne']
      · simp only [h1, h2, if_false, alLookup, ih]

theorem lookup_erase_self (k : SlotId) (l : List (SlotId × β)) : alLookup k (alErase k l) = none := by
  induction l with
  | nil => rfl
  | cons h t ih =>
    obtain ⟨k', v'⟩ := h
    by_cases h1 : k' = k <;> simp [alErase, h1, alLookup, ih]

theorem lookup_erase_other (k k2 : SlotId) (l : List (SlotId × β)) (hne : k2 ≠ k) :
    alLookup k2 (alErase k l) = alLookup k2 l := by
  induction l with
  | nil => rfl
  | cons h t ih =>
    obtain ⟨k', v'⟩ := h
    by_cases h1 : k' = k
    · have h2 : ¬ k' = k2 := fun e => hne (e.symm.trans h1)
      simp [alErase, h1, alLookup, ih]
      intro e; exact absurd e.symm hne
    · simp [alErase, h1, alLookup, ih]

theorem lookup_modify_other (k k2 : SlotId) (f : β → β) (l : List (SlotId × β)) (hne : k2 ≠ k) :
    alLookup k2 (alModify k f l) = alLookup k2 l := by
  induction l with
  | nil => rfl
  | cons h t ih =>
    obtain ⟨k', v'⟩ := h
    by_cases h1 : k' = k
    · have h2 : ¬ k = k2 := fun e => hne e.symm
      subst h1
      simp [alModify, alLookup, ih, h2]
    · simp [alModify, h1, alLookup, ih]

theorem lookup_modify_self (k : SlotId) (f : β → β) (l : List (SlotId × β)) :
    alLookup k (alModify k f l) = (alLookup k l).map f := by
  induction l with
  | nil => rfl
  | cons h t ih =>
    obtain ⟨k', v'⟩ := h
    by_cases h1 : k' = k <;> simp [alModify, h1, alLookup, ih]

theorem lookup_none_iff (k : SlotId) (l : List (SlotId × β)) : alLookup k l = none ↔ k ∉ alKeys l := by
  induction l with
  | nil => simp [alLookup, alKeys]
  | cons h t ih =>
    obtain ⟨k', v'⟩ := h
    by_cases h1 : k' = k
    · simp [alLookup, h1, alKeys]
    · have h2 : ¬ k = k' := fun e => h1 e.symm
      simp only [alKeys] at ih
      simp [alLookup, h1, alKeys, ih, h2]

/-- strictly sorted by slot id — the order `sort.Strings` produces -/
def Sorted (l : List (SlotId × β)) : Prop := (alKeys l).Pairwise (· < ·)

theorem keys_insert_mem (k k2 : SlotId) (v : β) (l : List (SlotId × β)) :
    k2 ∈ alKeys (alInsert k v l) ↔ k2 = k ∨ k2 ∈ alKeys l := by
  induction l with
  | nil => simp [alInsert, alKeys]
  | cons h t ih =>
    obtain ⟨k', v'⟩ := h
    simp only [alKeys] at ih
    simp only [alInsert]
    by_cases h1 : k < k'
    · simp [h1, alKeys]
    · by_cases h2 : k = k'
      · subst h2; simp [h1, alKeys]
      · simp [h1, h2, alKeys, ih]
        constructor
        · rintro (h | h | h) <;> simp [h]
        · rintro (h | h | h) <;> simp [h]

theorem sorted_insert (k : SlotId) (v : β) (l : List (SlotId × β)) (hs : Sorted l) :
    Sorted (alInsert k v l) := by
  induction l with
  | nil => simp [alInsert, Sorted, alKeys]
  | cons h t ih =>
    obtain ⟨k', v'⟩ := h
    simp only [Sorted, alKeys, List.map_cons, List.pairwise_cons] at hs
    simp only [alInsert]
    by_cases h1 : k < k'
    · simp only [h1, if_true, Sorted, alKeys, List.map_cons, List.pairwise_cons]
      refine ⟨?_, hs⟩
      intro a ha
      rcases List.mem_cons.mp ha with h | h
      · simpa [h] using h1
      · exact String.lt_trans h1 (hs.1 a h)
    · by_cases h2 : k = k'
      · subst h2
        simp only [h1, if_false, if_true, Sorted, alKeys, List.map_cons, List.pairwise_cons]
        exact hs
      · simp only [h1, h2, if_false, Sorted, alKeys, List.map_cons, List.pairwise_cons]
        have hlt : k' < k := by
          have := String.not_lt.mp h1
          rcases Decidable.em (k' < k) with h | h
          · exact h
          · exact absurd (String.le_antisymm (String.not_lt.mp h) this) h2
        refine ⟨?_, ih hs.2⟩
        intro a ha
        have := (keys_insert_mem k a v t).mp (by simpa [alKeys] using ha)
        rcases this with h | h
        · simpa [h] using hlt
        · exact hs.1 a (by simpa [alKeys] using h)

theorem keys_erase_sub (k k2 : SlotId) (l : List (SlotId × β)) :
    k2 ∈ alKeys (alErase k l) → k2 ∈ alKeys l := by
  induction l with
  | nil => simp [alErase]
  | cons h t ih =>
    obtain ⟨k', v'⟩ := h
    simp only [alKeys] at ih
    by_cases h1 : k' = k
    · simp only [alErase, h1, if_true, alKeys, List.map_cons, List.mem_cons]
      intro h; exact Or.inr (ih h)
    · simp only [alErase, h1, if_false, alKeys, List.map_cons, List.mem_cons]
      rintro (h | h)
      · exact Or.inl h
      · exact Or.inr (ih h)

theorem sorted_erase (k : SlotId) (l : List (SlotId × β)) (hs : Sorted l) : Sorted (alErase k l) := by
  induction l with
  | nil => simpa [alErase] using hs
  | cons h t ih =>
    obtain ⟨k', v'⟩ := h
    simp only [Sorted, alKeys, List.map_cons, List.pairwise_cons] at hs
    by_cases h1 : k' = k
    · simp only [alErase, h1, if_true]; exact ih hs.2
    · simp only [alErase, h1, if_false, Sorted, alKeys, List.map_cons, List.pairwise_cons]
      refine ⟨?_, ih hs.2⟩
      intro a ha
      exact hs.1 a (by simpa [alKeys] using keys_erase_sub k a t (by simpa [alKeys] using ha))

theorem keys_modify (k : SlotId) (f : β → β) (l : List (SlotId × β)) : alKeys (alModify k f l) = alKeys l := by
  induction l with
  | nil => rfl
  | cons h t ih =>
    obtain ⟨k', v'⟩ := h
    simp only [alKeys] at ih
    by_cases h1 : k' = k <;> simp [alModify, h1, alKeys, ih]

/-- appending a key larger than every present key puts it at the end -/
theorem insert_last (k : SlotId) (v : β) (l : List (SlotId × β)) (h : ∀ a ∈ alKeys l, a < k) :
    alInsert k v l = l ++ [(k, v)] := by
  induction l with
  | nil => rfl
  | cons hd t ih =>
    obtain ⟨k', v'⟩ := hd
    have hk : k' < k := h k' (by simp [alKeys])
    have h1 : ¬ k < k' := String.lt_asymm hk
    have h2 : ¬ k = k' := fun e => String.ne_of_lt hk e.symm
    have := ih (fun a ha => h a (by simp only [alKeys, List.map_cons, List.mem_cons]; exact Or.inr (by simpa [alKeys] using ha)))
    simp [alInsert, h1, h2, this]

theorem foldl_insert_sorted_aux (acc l : List (SlotId × β)) (hs : Sorted (acc ++ l)) :
    l.foldl (fun a e => alInsert e.1 e.2 a) acc = acc ++ l := by
  induction l generalizing acc with
  | nil => simp
  | cons hd t ih =>
    obtain ⟨k, v⟩ := hd
    have hlast : alInsert k v acc = acc ++ [(k, v)] := by
      apply insert_last
      intro a ha
      simp only [Sorted, alKeys, List.map_append, List.map_cons, List.pairwise_append] at hs
      exact hs.2.2 a (by simpa [alKeys] using ha) k (by simp)
    simp only [List.foldl_cons, hlast]
    rw [ih (acc ++ [(k, v)]) (by simpa using hs)]
    simp

/-- rebuilding a sorted list entry by entry (UnmarshalVT into an empty map) gives it back -/
theorem foldl_insert_sorted (l : List (SlotId × β)) (hs : Sorted l) :
    l.foldl (fun a e => alInsert e.1 e.2 a) [] = l := by
  simpa using foldl_insert_sorted_aux [] l (by simpa using hs)

end AL

/-! ### what is assumed about the primitives (hypotheses, never axioms) -/

/-- `pairs` lists the (encryption key text, decryption key text) pairs that exist.
    * `enc_known` / `enc_unknown`: encryption succeeds exactly for an existing public key;
    * `dec_enc`: correctness, `dec (priv k) (enc (pub k) m) = some m`;
    * `wrong_key`: decryption with a key that is not the recipient's fails;
    * `enc_nonempty`: a ciphertext (armored text) is never empty;
    * `hmac_inj`: HMAC-SHA256 under one key is injective (collision freedom, idealised). -/
structure CryptoOk (C : Crypto) (pairs : List (KeyStr × KeyStr)) : Prop where
  key_ne : ∀ p ∈ pairs, p.1 ≠ emptyKey ∧ p.2 ≠ emptyKey
  enc_known : ∀ p ∈ pairs, ∀ m r, ∃ c, C.enc p.1 m r = some c
  enc_unknown : ∀ pu, knownPub pairs pu = false → ∀ m r, C.enc pu m r = none
  dec_enc : ∀ p ∈ pairs, ∀ m r c, C.enc p.1 m r = some c → C.dec p.2 c = some m
  wrong_key : ∀ pu pr m r c, C.enc pu m r = some c → (pu, pr) ∉ pairs → C.dec pr c = none
  enc_nonempty : ∀ pu m r c, C.enc pu m r = some c → c ≠ []
  hmac_inj : ∀ k a b, C.hmac k a = C.hmac k b → a = b

/-- collision freedom of HMAC across keys as well (only needed when the attacker's own
    slot is used for the retrieval, where the decrypted "master key" is the attacker's) -/
def HmacCross (C : Crypto) : Prop := ∀ k k' a b, C.hmac k a = C.hmac k' b → a = b

theorem knownPub_iff (pairs : List (KeyStr × KeyStr)) (pu : KeyStr) :
    knownPub pairs pu = true ↔ ∃ pr, (pu, pr) ∈ pairs := by
  simp only [knownPub, List.any_eq_true, beq_iff_eq]
  constructor
  · rintro ⟨⟨a, b⟩, hm, rfl⟩; exact ⟨b, hm⟩
  · rintro ⟨pr, hm⟩; exact ⟨(pu, pr), hm, rfl⟩

/-! ### the simulation relation between the storage and its meaning -/

/-- entry-wise relation of two association lists with the same keys in the same order -/
inductive Rel {α β : Type} (Q : α → β → Prop) : List (SlotId × α) → List (SlotId × β) → Prop where
  | nil : Rel Q [] []
  | cons {k a b xs ys} : Q a b → Rel Q xs ys → Rel Q ((k, a) :: xs) ((k, b) :: ys)

section RelLemmas
variable {α β : Type} {Q : α → β → Prop}

theorem Rel.length {xs : List (SlotId × α)} {ys : List (SlotId × β)} (h : Rel Q xs ys) :
    xs.length = ys.length := by
  induction h with
  | nil => rfl
  | cons _ _ ih => simp [ih]

theorem Rel.lookup {xs : List (SlotId × α)} {ys : List (SlotId × β)} (h : Rel Q xs ys) (k : SlotId) :
    (alLookup k xs = none ∧ alLookup k ys = none) ∨
    (∃ a b, alLookup k xs = some a ∧ alLookup k ys = some b ∧ Q a b) := by
  induction h with
  | nil => exact Or.inl ⟨rfl, rfl⟩
  | @cons k' a b xs ys hq _ ih =>
    by_cases h1 : k' = k
    · exact Or.inr ⟨a, b, by simp [alLookup, h1], by simp [alLookup, h1], hq⟩
    · simpa [alLookup, h1] using ih

theorem Rel.insert {xs : List (SlotId × α)} {ys : List (SlotId × β)} (h : Rel Q xs ys) (k : SlotId)
    {a : α} {b : β} (hq : Q a b) : Rel Q (alInsert k a xs) (alInsert k b ys) := by
  induction h with
  | nil => exact Rel.cons hq Rel.nil
  | @cons k' a' b' xs ys hq' hr ih =>
    simp only [alInsert]
    by_cases h1 : k < k'
    · simp only [h1, if_true]; exact Rel.cons hq (Rel.cons hq' hr)
    · by_cases h2 : k = k'
      · subst h2; simp only [String.lt_irrefl, if_false, if_true]; exact Rel.cons hq hr
      · simp only [h1, h2, if_false]; exact Rel.cons hq' ih

theorem Rel.erase {xs : List (SlotId × α)} {ys : List (SlotId × β)} (h : Rel Q xs ys) (k : SlotId) :
    Rel Q (alErase k xs) (alErase k ys) := by
  induction h with
  | nil => exact Rel.nil
  | @cons k' a' b' xs ys hq' hr ih =>
    by_cases h1 : k' = k
    · simpa [alErase, h1] using ih
    · simp only [alErase, h1, if_false]; exact Rel.cons hq' ih

theorem Rel.keys {xs : List (SlotId × α)} {ys : List (SlotId × β)} (h : Rel Q xs ys) :
    alKeys xs = alKeys ys := by
  induction h with
  | nil => rfl
  | cons _ _ ih => simp only [alKeys] at ih; simp [alKeys, ih]

end RelLemmas

/-- a stored slot is an encryption of the master key for the slot's public key -/
def SlotOk (C : Crypto) (pairs : List (KeyStr × KeyStr)) (master : Bytes) (sl : Slot) (pu : KeyStr) : Prop :=
  sl.alg = algPGP ∧ knownPub pairs pu = true ∧ ∃ r, C.enc pu master r = some sl.blob

/-- the invariant of an initialised storage `s` whose meaning is `l` -/
structure Inv (C : Crypto) (pairs : List (KeyStr × KeyStr)) (s : State) (l : Live) : Prop where
  ver : s.version = version1
  tag : s.tag = hashSlots C s l.master
  rel : Rel (SlotOk C pairs l.master) s.slots l.slots
  sorted : Sorted s.slots
  ne : s.slots ≠ []
  ids : ∀ k ∈ alKeys s.slots, k ≠ ""

/-- storage `s` means `st` -/
def Sim (C : Crypto) (pairs : List (KeyStr × KeyStr)) (s : State) : St → Prop
  | none => s = {}
  | some l => Inv C pairs s l

/-! ### retrieval -/

theorem getKey_ok_iff (C : Crypto) (s : State) (id : SlotId) (priv : KeyStr) (mk : Bytes) :
    getKey C s id priv = .ok mk ↔
      id ≠ "" ∧ priv ≠ emptyKey ∧ isZero s = false ∧ s.version = version1 ∧
      ∃ sl, alLookup id s.slots = some sl ∧ sl.alg = algPGP ∧ C.dec priv sl.blob = some mk ∧
        hashSlots C s mk = s.tag := by
  simp only [getKey, Gen.KeyStorage.getKeyGuards, firstFail, List.findSome?, guardErr,
    Gen.KeyStorage.getKeyChecksAlgorithm, Gen.KeyStorage.getKeyVerifies, verifyKeySlots,
    Gen.KeyStorage.verifyRejectsMismatch]
  by_cases h1 : id = ""
  · simp [h1]
  by_cases h2 : priv = emptyKey
  · simp [h1, h2]
  by_cases h3 : isZero s = true
  · simp [h1, h2, h3]
  by_cases h4 : ¬ s.version = version1
  · simp [h1, h2, h3, h4]
  have h4 := Decidable.not_not.mp h4
  cases h5 : alLookup id s.slots with
  | none => simp [h1, h2, h3, h4]
  | some sl =>
    by_cases h6 : ¬ sl.alg = algPGP
    · simp [h1, h2, h3, h4, h6]
    have h6 := Decidable.not_not.mp h6
    cases h7 : C.dec priv sl.blob with
    | none => simp [h1, h2, h3, h4, h6, h7]
    | some mk' =>
      by_cases h8 : hashSlots C s mk' = s.tag
      · simp [h1, h2, h3, h4, h6, h7, h8]
        rintro rfl; exact h8
      · simp [h1, h2, h3, h4, h6, h7, h8]
        rintro rfl; exact h8

theorem isZero_false_of_ver {s : State} (h : s.version = version1) : isZero s = false := by
  simp [isZero, h, version1, versionUnspecified]

theorem lookup_some_mem {β : Type} {k : SlotId} {l : List (SlotId × β)} {v : β}
    (h : alLookup k l = some v) : k ∈ alKeys l := by
  rcases Decidable.em (k ∈ alKeys l) with hm | hm
  · exact hm
  · rw [(lookup_none_iff k l).mpr hm] at h; cases h

theorem auth_iff (pairs : List (KeyStr × KeyStr)) (slots : List (SlotId × KeyStr)) (id : SlotId) (priv : KeyStr) :
    auth pairs slots id priv = true ↔ ∃ pu, alLookup id slots = some pu ∧ (pu, priv) ∈ pairs := by
  unfold auth
  cases h : alLookup id slots with
  | none => simp
  | some pu => simp

/-- retrieval on a storage that satisfies the invariant: exactly the authorised
    (slot, key) combinations succeed, and they return the master key -/
theorem getKey_inv {C : Crypto} {pairs : List (KeyStr × KeyStr)} (hC : CryptoOk C pairs) {s : State} {l : Live}
    (h : Inv C pairs s l) (id : SlotId) (priv : KeyStr) :
    (auth pairs l.slots id priv = true → getKey C s id priv = .ok l.master) ∧
    (∀ mk, getKey C s id priv = .ok mk → auth pairs l.slots id priv = true ∧ mk = l.master) := by
  constructor
  · intro ha
    obtain ⟨pu, hl, hp⟩ := (auth_iff _ _ _ _).mp ha
    rcases h.rel.lookup id with ⟨_, hn⟩ | ⟨sl, pu', hs, hl', hq⟩
    · rw [hn] at hl; cases hl
    · rw [hl] at hl'; cases hl'
      obtain ⟨halg, _, r, henc⟩ := hq
      refine (getKey_ok_iff C s id priv l.master).mpr ⟨?_, ?_, isZero_false_of_ver h.ver, h.ver, sl, hs, halg, ?_, h.tag.symm⟩
      · exact h.ids id (lookup_some_mem hs)
      · exact (hC.key_ne _ hp).2
      · exact hC.dec_enc _ hp _ _ _ henc
  · intro mk hg
    obtain ⟨_, _, _, _, sl, hs, _, hdec, _⟩ := (getKey_ok_iff C s id priv mk).mp hg
    rcases h.rel.lookup id with ⟨hn, _⟩ | ⟨sl', pu, hs', hl, hq⟩
    · rw [hn] at hs; cases hs
    · rw [hs] at hs'; cases hs'
      obtain ⟨_, _, r, henc⟩ := hq
      by_cases hp : (pu, priv) ∈ pairs
      · have := hC.dec_enc _ hp _ _ _ henc
        rw [this] at hdec; cases hdec
        exact ⟨(auth_iff _ _ _ _).mpr ⟨pu, hl, hp⟩, rfl⟩
      · have := hC.wrong_key _ _ _ _ _ henc hp
        rw [this] at hdec; cases hdec

theorem getKey_inv_err {C : Crypto} {pairs : List (KeyStr × KeyStr)} (hC : CryptoOk C pairs) {s : State} {l : Live}
    (h : Inv C pairs s l) (id : SlotId) (priv : KeyStr) (ha : auth pairs l.slots id priv = false) :
    ∃ e, getKey C s id priv = .error e := by
  cases hg : getKey C s id priv with
  | error e => exact ⟨e, rfl⟩
  | ok mk =>
    have := ((getKey_inv hC h id priv).2 mk hg).1
    rw [ha] at this; cases this

/-! ### the API functions with their guard chains unfolded (this is where the
    regenerated tables `Gen.KeyStorage.*Guards` enter the proofs) -/

theorem initialize_eq (C : Crypto) (s : State) (mk : Bytes) (id : SlotId) (pub : KeyStr) (r : Nat) :
    initializeStorage C s mk id pub r =
      if mk.length ≠ 32 then .error .other
      else if id = "" then .error .other
      else if pub = emptyKey then .error .other
      else if isZero s = false then .error .alreadyInitialized
      else match C.enc pub mk r with
        | none => .error .encryptFail
        | some c => .ok { version := version1, slots := [(id, ⟨algPGP, c⟩)],
                          tag := C.hmac mk (hmacInput [(id, ⟨algPGP, c⟩)]) } := by
  simp only [initializeStorage, Gen.KeyStorage.initGuards, firstFail, List.findSome?, guardErr, hashSlots]
  by_cases h1 : mk.length = 32
  · by_cases h2 : id = ""
    · simp [h1, h2]
    · by_cases h3 : pub = emptyKey
      · simp [h1, h2, h3]
      · cases h4 : isZero s
        · simp [h1, h2, h3]
        · simp only [h1, h2, h3]
          rfl
  · simp [h1]

theorem add_eq (C : Crypto) (s : State) (n : SlotId) (np : KeyStr) (o : SlotId) (op : KeyStr) (r : Nat) :
    addKeySlot C s n np o op r =
      if n = "" then .error .other
      else if np = emptyKey then .error .other
      else if (alLookup n s.slots).isSome then .error .slotExists
      else match getKey C s o op with
        | .error e => .error e
        | .ok mk => match C.enc np mk r with
          | none => .error .encryptFail
          | some c => .ok { s with slots := alInsert n ⟨algPGP, c⟩ s.slots,
                                   tag := C.hmac mk (hmacInput (alInsert n ⟨algPGP, c⟩ s.slots)) } := by
  simp only [addKeySlot, Gen.KeyStorage.addGuards, firstFail, List.findSome?, guardErr, hashSlots]
  by_cases h1 : n = ""
  · simp [h1]
  · by_cases h2 : np = emptyKey
    · simp [h1, h2]
    · cases h3 : (alLookup n s.slots).isSome
      · simp only [h1, h2]
        rfl
      · simp [h1, h2]

theorem delete_eq (C : Crypto) (s : State) (id : SlotId) (priv : KeyStr) :
    deleteKeySlot C s id priv =
      if s.slots.length = 0 then .error .notInitialized
      else if s.slots.length = 1 then .error .lastKey
      else match getKey C s id priv with
        | .error e => .error e
        | .ok mk => .ok { s with slots := alErase id s.slots,
                                 tag := C.hmac mk (hmacInput (alErase id s.slots)) } := by
  simp only [deleteKeySlot, Gen.KeyStorage.deleteGuards, firstFail, List.findSome?, guardErr, hashSlots]
  by_cases h1 : s.slots.length = 0
  · simp [h1]
  · by_cases h2 : s.slots.length = 1
    · simp [h2]
    · simp only [h1, h2]
      rfl

/-! ### marshal / unmarshal -/

theorem unmarshal_marshal_state (s : State) (hs : Sorted s.slots) : (unmarshal (marshal s)).1 = s := by
  obtain ⟨v, sl, t⟩ := s
  have h3 := foldl_insert_sorted sl hs
  by_cases h : v = 0 <;> by_cases h' : t = [] <;>
    simp [unmarshal, unmarshalInto, marshal, h, h', h3]

theorem unmarshal_marshal_err (s : State) :
    (unmarshal (marshal s)).2 = if s.version ≠ version1 then some .versionMismatch else none := by
  obtain ⟨v, sl, t⟩ := s
  by_cases h : v = 0 <;> simp [unmarshal, unmarshalInto, marshal, h]

theorem step_reload (C : Crypto) (s : State) (hs : Sorted s.slots) (hv : s.version = version1) :
    step C s .reload = (s, .ok) := by
  have h1 := unmarshal_marshal_state s hs
  have h2 := unmarshal_marshal_err s
  simp only [hv, ne_eq, not_true, if_false] at h2
  simp only [step]
  generalize unmarshal (marshal s) = p at h1 h2
  obtain ⟨a, b⟩ := p
  simp only at h1 h2
  subst h1; subst h2; rfl

theorem step_reload_zero (C : Crypto) : step C {} .reload = ({}, .err .versionMismatch) := by
  rfl

/-! ### one step of the code refines one step of the specification -/

theorem init_zero_ok {C : Crypto} {pairs : List (KeyStr × KeyStr)} (hC : CryptoOk C pairs)
    (mk : Bytes) (id : SlotId) (pub : KeyStr) (r : Nat)
    (h1 : mk.length = 32) (h2 : id ≠ "") (h3 : knownPub pairs pub = true) :
    ∃ s', initializeStorage C {} mk id pub r = .ok s' ∧ Inv C pairs s' ⟨mk, [(id, pub)]⟩ := by
  obtain ⟨pr, hp⟩ := (knownPub_iff _ _).mp h3
  have h4 : pub ≠ emptyKey := (hC.key_ne _ hp).1
  obtain ⟨c, hc⟩ := hC.enc_known _ hp mk r
  have hz : isZero ({} : State) = true := rfl
  refine ⟨_, by simp only [initialize_eq, h1, h2, h4, hz, hc]; simp; rfl, ?_⟩
  exact { ver := rfl, tag := rfl, rel := .cons ⟨rfl, h3, r, hc⟩ .nil, sorted := by simp [Sorted, alKeys],
          ne := by simp, ids := by simp [alKeys, h2] }

theorem init_zero_refused {C : Crypto} {pairs : List (KeyStr × KeyStr)} (hC : CryptoOk C pairs)
    (mk : Bytes) (id : SlotId) (pub : KeyStr) (r : Nat)
    (h : ¬ (mk.length = 32 ∧ id ≠ "" ∧ knownPub pairs pub = true)) :
    ∃ e, initializeStorage C {} mk id pub r = .error e := by
  rw [initialize_eq]
  by_cases h1 : mk.length = 32
  · by_cases h2 : id = ""
    · exact ⟨_, by simp [h1, h2]; rfl⟩
    · by_cases h3 : pub = emptyKey
      · exact ⟨_, by simp [h1, h2, h3]; rfl⟩
      · have hk : knownPub pairs pub = false := by
          cases hk : knownPub pairs pub with
          | false => rfl
          | true => exact absurd ⟨h1, h2, hk⟩ h
        have hz : isZero ({} : State) = true := rfl
        exact ⟨.encryptFail, by simp [h1, h2, h3, hz, hC.enc_unknown pub hk mk r]⟩
  · exact ⟨_, by simp [h1]; rfl⟩

theorem init_again_refused (C : Crypto) (s : State) (hz : isZero s = false)
    (mk : Bytes) (id : SlotId) (pub : KeyStr) (r : Nat) :
    ∃ e, initializeStorage C s mk id pub r = .error e := by
  rw [initialize_eq]
  by_cases h1 : mk.length = 32
  · by_cases h2 : id = ""
    · exact ⟨_, by simp [h1, h2]; rfl⟩
    · by_cases h3 : pub = emptyKey
      · exact ⟨_, by simp [h1, h2, h3]; rfl⟩
      · exact ⟨_, by simp [h1, h2, h3, hz]; rfl⟩
  · exact ⟨_, by simp [h1]; rfl⟩

theorem getKey_zero (C : Crypto) (id : SlotId) (priv : KeyStr) : ∃ e, getKey C {} id priv = .error e := by
  cases hg : getKey C {} id priv with
  | error e => exact ⟨e, rfl⟩
  | ok mk =>
    have := ((getKey_ok_iff C {} id priv mk).mp hg).2.2.1
    cases this

theorem add_zero (C : Crypto) (n : SlotId) (np : KeyStr) (o : SlotId) (op : KeyStr) (r : Nat) :
    ∃ e, addKeySlot C {} n np o op r = .error e := by
  rw [add_eq]
  by_cases h1 : n = ""
  · exact ⟨_, by simp [h1]; rfl⟩
  · by_cases h2 : np = emptyKey
    · exact ⟨_, by simp [h1, h2]; rfl⟩
    · obtain ⟨e, he⟩ := getKey_zero C o op
      exact ⟨e, by simp [h1, h2, he, alLookup]⟩

theorem delete_zero (C : Crypto) (id : SlotId) (priv : KeyStr) :
    deleteKeySlot C {} id priv = .error .notInitialized := by
  rw [delete_eq]; rfl

theorem slotBytes_eq : slotBytes = fun e => e.2.blob := by
  funext e; simp [slotBytes, Gen.KeyStorage.hmacFields]

/-- what the tag covers in the code as it is: the blobs, concatenated in id order —
    no ids, no lengths, no separators (regenerated facts `hmacFields`, `hmacSortedById`) -/
theorem hmacInput_eq (slots : List (SlotId × Slot)) : hmacInput slots = slots.flatMap (fun e => e.2.blob) := by
  simp [hmacInput, Gen.KeyStorage.hmacSortedById, slotBytes_eq]

theorem erase_not_mem {β : Type} (k : SlotId) (l : List (SlotId × β)) (h : k ∉ alKeys l) : alErase k l = l := by
  induction l with
  | nil => rfl
  | cons hd t ih =>
    obtain ⟨k', v'⟩ := hd
    simp only [alKeys, List.map_cons, List.mem_cons, not_or] at h
    have h1 : ¬ k' = k := fun e => h.1 e.symm
    simp only [alKeys] at ih
    simp [alErase, h1, ih h.2]

theorem erase_length {β : Type} (k : SlotId) (l : List (SlotId × β)) (hs : Sorted l) :
    l.length ≤ (alErase k l).length + 1 := by
  induction l with
  | nil => simp
  | cons hd t ih =>
    obtain ⟨k', v'⟩ := hd
    simp only [Sorted, alKeys, List.map_cons, List.pairwise_cons] at hs
    by_cases h1 : k' = k
    · have hn : k ∉ alKeys t := by
        intro hm
        have := hs.1 k (by simpa [alKeys] using hm)
        rw [h1] at this
        exact String.lt_irrefl _ this
      simp [alErase, h1, erase_not_mem k t hn]
    · have := ih hs.2
      simp only [alErase, h1, if_false, List.length_cons]
      omega

theorem add_inv {C : Crypto} {pairs : List (KeyStr × KeyStr)} (hC : CryptoOk C pairs) {s : State} {l : Live}
    (h : Inv C pairs s l) (n : SlotId) (np : KeyStr) (o : SlotId) (op : KeyStr) (r : Nat) :
    (n ≠ "" ∧ knownPub pairs np = true ∧ (alLookup n l.slots).isNone = true ∧ auth pairs l.slots o op = true →
      ∃ s', addKeySlot C s n np o op r = .ok s' ∧ Inv C pairs s' { l with slots := alInsert n np l.slots }) ∧
    (¬ (n ≠ "" ∧ knownPub pairs np = true ∧ (alLookup n l.slots).isNone = true ∧ auth pairs l.slots o op = true) →
      ∃ e, addKeySlot C s n np o op r = .error e) := by
  have hlk : (alLookup n s.slots).isSome = !(alLookup n l.slots).isNone := by
    rcases h.rel.lookup n with ⟨h1, h2⟩ | ⟨a, b, h1, h2, _⟩ <;> simp [h1, h2]
  constructor
  · rintro ⟨h1, h2, h3, h4⟩
    obtain ⟨pr, hp⟩ := (knownPub_iff _ _).mp h2
    have h5 : np ≠ emptyKey := (hC.key_ne _ hp).1
    obtain ⟨c, hc⟩ := hC.enc_known _ hp l.master r
    have hg := (getKey_inv hC h o op).1 h4
    have h3' : (alLookup n s.slots).isSome = false := by simp [hlk, h3]
    refine ⟨_, by simp only [add_eq, h1, h5, h3', hg, hc]; simp; rfl, ?_⟩
    have hne : alInsert n (⟨algPGP, c⟩ : Slot) s.slots ≠ [] := by
      intro he
      have := lookup_insert_self n (⟨algPGP, c⟩ : Slot) s.slots
      rw [he] at this; cases this
    have hids : ∀ k ∈ alKeys (alInsert n (⟨algPGP, c⟩ : Slot) s.slots), k ≠ "" := by
      intro k hk
      rcases (keys_insert_mem n k _ s.slots).mp hk with e | e
      · exact e ▸ h1
      · exact h.ids k e
    exact { ver := h.ver, tag := rfl, rel := h.rel.insert n ⟨rfl, h2, r, hc⟩,
            sorted := sorted_insert _ _ _ h.sorted, ne := hne, ids := hids }
  · intro hn
    rw [add_eq]
    by_cases h1 : n = ""
    · exact ⟨_, by simp [h1]; rfl⟩
    · by_cases h2 : np = emptyKey
      · exact ⟨_, by simp [h1, h2]; rfl⟩
      · cases h3 : (alLookup n s.slots).isSome with
        | true => exact ⟨_, by simp [h1, h2]; rfl⟩
        | false =>
          have h3' : (alLookup n l.slots).isNone = true := by
            rw [hlk] at h3; simpa using h3
          cases h4 : auth pairs l.slots o op with
          | false =>
            obtain ⟨e, he⟩ := getKey_inv_err hC h o op h4
            exact ⟨e, by simp [h1, h2, he]⟩
          | true =>
            have hk : knownPub pairs np = false := by
              cases hk : knownPub pairs np with
              | false => rfl
              | true => exact absurd ⟨h1, hk, h3', h4⟩ hn
            have hg := (getKey_inv hC h o op).1 h4
            exact ⟨.encryptFail, by simp [h1, h2, hg, hC.enc_unknown np hk]⟩

theorem delete_inv {C : Crypto} {pairs : List (KeyStr × KeyStr)} (hC : CryptoOk C pairs) {s : State} {l : Live}
    (h : Inv C pairs s l) (id : SlotId) (priv : KeyStr) :
    (2 ≤ l.slots.length ∧ auth pairs l.slots id priv = true →
      ∃ s', deleteKeySlot C s id priv = .ok s' ∧ Inv C pairs s' { l with slots := alErase id l.slots }) ∧
    (¬ (2 ≤ l.slots.length ∧ auth pairs l.slots id priv = true) →
      ∃ e, deleteKeySlot C s id priv = .error e) := by
  have hlen := h.rel.length
  constructor
  · rintro ⟨h1, h2⟩
    have hg := (getKey_inv hC h id priv).1 h2
    have h0 : ¬ s.slots.length = 0 := by omega
    have h1' : ¬ s.slots.length = 1 := by omega
    refine ⟨_, by simp only [delete_eq, h0, h1', hg]; simp; rfl, ?_⟩
    have hne : alErase id s.slots ≠ [] := by
      intro he
      have := erase_length id s.slots h.sorted
      rw [he] at this
      simp at this
      omega
    exact { ver := h.ver, tag := rfl, rel := h.rel.erase id, sorted := sorted_erase _ _ h.sorted,
            ne := hne, ids := fun k hk => h.ids k (keys_erase_sub id k _ hk) }
  · intro hn
    rw [delete_eq]
    by_cases h0 : s.slots.length = 0
    · exact ⟨_, by simp [h0]; rfl⟩
    · by_cases h1 : s.slots.length = 1
      · exact ⟨_, by simp [h1]; rfl⟩
      · cases h4 : auth pairs l.slots id priv with
        | false =>
          obtain ⟨e, he⟩ := getKey_inv_err hC h id priv h4
          exact ⟨e, by simp [h0, h1, he]⟩
        | true => exact absurd ⟨by omega, h4⟩ hn

theorem stOut_ok (s s' : State) : stOut s (.ok s') = (s', .ok) := rfl
theorem stOut_err (s : State) (e : Err) : stOut s (.error e) = (s, .err e) := rfl

theorem inv_not_zero {C : Crypto} {pairs : List (KeyStr × KeyStr)} {s : State} {l : Live}
    (h : Inv C pairs s l) : isZero s = false := isZero_false_of_ver h.ver

/-- **Refinement, one step.** Whatever the operation, the code's step on a storage
    that means `st` yields a storage that means the specification's next state, and
    the same observable outcome (ok / the master key / refused). -/
theorem step_sim {C : Crypto} {pairs : List (KeyStr × KeyStr)} (hC : CryptoOk C pairs) {s : State} {st : St}
    (h : Sim C pairs s st) (op : Op) :
    Sim C pairs (step C s op).1 (Spec.KeyStorage.step pairs st op).1 ∧
    abs (step C s op).2 = (Spec.KeyStorage.step pairs st op).2 := by
  cases st with
  | none =>
    have hs : s = {} := h
    subst hs
    cases op with
    | init mk id pub r =>
      by_cases hc : mk.length = 32 ∧ id ≠ "" ∧ knownPub pairs pub = true
      · obtain ⟨s', h1, h2⟩ := init_zero_ok hC mk id pub r hc.1 hc.2.1 hc.2.2
        simp only [step, Spec.KeyStorage.step, h1, stOut_ok, if_pos hc, abs]
        exact ⟨h2, trivial⟩
      · obtain ⟨e, he⟩ := init_zero_refused hC mk id pub r hc
        simp only [step, Spec.KeyStorage.step, he, stOut_err, if_neg hc, abs]
        exact ⟨rfl, trivial⟩
    | add n np o op r =>
      obtain ⟨e, he⟩ := add_zero C n np o op r
      simp only [step, Spec.KeyStorage.step, he, stOut_err, abs]
      exact ⟨rfl, trivial⟩
    | delete id priv =>
      simp only [step, Spec.KeyStorage.step, delete_zero, stOut_err, abs]
      exact ⟨rfl, trivial⟩
    | get id priv =>
      obtain ⟨e, he⟩ := getKey_zero C id priv
      simp only [step, Spec.KeyStorage.step, getMasterKey, he, abs]
      exact ⟨rfl, trivial⟩
    | reload =>
      simp only [step_reload_zero, Spec.KeyStorage.step, abs]
      exact ⟨rfl, trivial⟩
  | some l =>
    have hi : Inv C pairs s l := h
    cases op with
    | init mk id pub r =>
      obtain ⟨e, he⟩ := init_again_refused C s (inv_not_zero hi) mk id pub r
      simp only [step, Spec.KeyStorage.step, he, stOut_err, abs]
      exact ⟨hi, trivial⟩
    | add n np o op r =>
      by_cases hc : n ≠ "" ∧ knownPub pairs np = true ∧ (alLookup n l.slots).isNone = true ∧ auth pairs l.slots o op = true
      · obtain ⟨s', h1, h2⟩ := (add_inv hC hi n np o op r).1 hc
        simp only [step, Spec.KeyStorage.step, h1, stOut_ok, if_pos hc, abs]
        exact ⟨h2, trivial⟩
      · obtain ⟨e, he⟩ := (add_inv hC hi n np o op r).2 hc
        simp only [step, Spec.KeyStorage.step, he, stOut_err, if_neg hc, abs]
        exact ⟨hi, trivial⟩
    | delete id priv =>
      by_cases hc : 2 ≤ l.slots.length ∧ auth pairs l.slots id priv = true
      · obtain ⟨s', h1, h2⟩ := (delete_inv hC hi id priv).1 hc
        simp only [step, Spec.KeyStorage.step, h1, stOut_ok, if_pos hc, abs]
        exact ⟨h2, trivial⟩
      · obtain ⟨e, he⟩ := (delete_inv hC hi id priv).2 hc
        simp only [step, Spec.KeyStorage.step, he, stOut_err, if_neg hc, abs]
        exact ⟨hi, trivial⟩
    | get id priv =>
      cases ha : auth pairs l.slots id priv with
      | true =>
        have := (getKey_inv hC hi id priv).1 ha
        simp only [step, Spec.KeyStorage.step, getMasterKey, this, ha, if_true, abs]
        exact ⟨hi, trivial⟩
      | false =>
        obtain ⟨e, he⟩ := getKey_inv_err hC hi id priv ha
        simp only [step, Spec.KeyStorage.step, getMasterKey, he, ha, abs]
        exact ⟨hi, by simp⟩
    | reload =>
      simp only [step_reload C s hi.sorted hi.ver, Spec.KeyStorage.step, abs]
      exact ⟨hi, trivial⟩


/-! ### C20: recoverability over all operation sequences -/

/-- **Refinement, all sequences.** -/
theorem run_sim {C : Crypto} {pairs : List (KeyStr × KeyStr)} (hC : CryptoOk C pairs) (ops : List Op)
    {s : State} {st : St} (h : Sim C pairs s st) :
    Sim C pairs (run C s ops).1 (Spec.KeyStorage.run pairs st ops).1 ∧
    (run C s ops).2.map abs = (Spec.KeyStorage.run pairs st ops).2 := by
  induction ops generalizing s st with
  | nil => exact ⟨h, rfl⟩
  | cons op ops ih =>
    obtain ⟨h1, h2⟩ := step_sim hC h op
    obtain ⟨h3, h4⟩ := ih h1
    simp only [run, Spec.KeyStorage.run]
    exact ⟨h3, by simp [h2, h4]⟩

theorem exec_sim {C : Crypto} {pairs : List (KeyStr × KeyStr)} (hC : CryptoOk C pairs) (ops : List Op) :
    Sim C pairs (exec C {} ops) (Spec.KeyStorage.exec pairs none ops) :=
  (run_sim hC ops (s := {}) (st := none) rfl).1

/-- **C20, recoverability.** After ANY sequence of initialise / add-slot / delete-slot /
    get / marshal+unmarshal operations, with any slot ids, key texts and master keys,
    starting from the empty storage: let `Spec.exec` be the meaning of the sequence
    (the master key and the live slots with the public key each was created for — a
    slot is live when an accepted initialise/add created it and no accepted delete
    removed it). Then a retrieval returns the ORIGINAL master key exactly when the slot
    is live and the private key matches its public key; every other retrieval (slot
    deleted or never added, wrong key, storage never initialised) is an error. -/
theorem live_slots_recover {C : Crypto} {pairs : List (KeyStr × KeyStr)} (hC : CryptoOk C pairs)
    (ops : List Op) (id : SlotId) (priv : KeyStr) :
    match Spec.KeyStorage.exec pairs none ops with
    | none => ∃ e, getMasterKey C (exec C {} ops) id priv = .error e
    | some l =>
      (auth pairs l.slots id priv = true → getMasterKey C (exec C {} ops) id priv = .ok l.master) ∧
      (auth pairs l.slots id priv = false → ∃ e, getMasterKey C (exec C {} ops) id priv = .error e) := by
  have h := exec_sim hC ops
  cases hst : Spec.KeyStorage.exec pairs none ops with
  | none =>
    rw [hst] at h
    have h0 : exec C {} ops = {} := h
    rw [h0]; exact getKey_zero C id priv
  | some l =>
    rw [hst] at h
    exact ⟨(getKey_inv hC h id priv).1, getKey_inv_err hC h id priv⟩

/-- the outputs of every operation of the sequence are the specification's -/
theorem outputs_as_specified {C : Crypto} {pairs : List (KeyStr × KeyStr)} (hC : CryptoOk C pairs) (ops : List Op) :
    (run C {} ops).2.map abs = (Spec.KeyStorage.run pairs none ops).2 :=
  (run_sim hC ops (s := {}) (st := none) rfl).2

/-! corollaries that name the cases of the property explicitly -/

theorem auth_false_of_absent (pairs : List (KeyStr × KeyStr)) (slots : List (SlotId × KeyStr)) (id : SlotId)
    (priv : KeyStr) (h : alLookup id slots = none) : auth pairs slots id priv = false := by
  simp [auth, h]

theorem exec_snoc (C : Crypto) (s0 : State) (ops : List Op) (op : Op) :
    exec C s0 (ops ++ [op]) = (step C (exec C s0 ops) op).1 := by
  induction ops generalizing s0 with
  | nil => simp [exec, run]
  | cons o os ih =>
    have := ih (step C s0 o).1
    simp only [exec] at this
    simp only [exec, List.cons_append, run]
    exact this

/-- a slot that was just deleted no longer yields the key, whatever key is presented -/
theorem deleted_slot_refused {C : Crypto} {pairs : List (KeyStr × KeyStr)} (hC : CryptoOk C pairs)
    (ops : List Op) (id : SlotId) (priv priv' : KeyStr)
    (hok : (step C (exec C {} ops) (.delete id priv)).2 = .ok) :
    ∃ e, getMasterKey C (exec C {} (ops ++ [.delete id priv])) id priv' = .error e := by
  have h := exec_sim hC ops
  obtain ⟨h1, h2⟩ := step_sim hC h (.delete id priv)
  rw [exec_snoc]
  rw [hok] at h2
  cases hst : Spec.KeyStorage.exec pairs none ops with
  | none => rw [hst] at h2; simp [Spec.KeyStorage.step, abs] at h2
  | some l =>
    rw [hst] at h1 h2
    simp only [Spec.KeyStorage.step] at h1 h2
    by_cases hc : 2 ≤ l.slots.length ∧ auth pairs l.slots id priv = true
    · rw [if_pos hc] at h1
      exact getKey_inv_err hC h1 id priv' (auth_false_of_absent _ _ _ _ (lookup_erase_self id l.slots))
    · rw [if_neg hc] at h2; simp [abs] at h2

/-- the slot ids an operation sequence ever tries to create -/
def createdIds : List Op → List SlotId
  | [] => []
  | .init _ id _ _ :: ops => id :: createdIds ops
  | .add n _ _ _ _ :: ops => n :: createdIds ops
  | _ :: ops => createdIds ops

theorem spec_step_keys (pairs : List (KeyStr × KeyStr)) (st : St) (op : Op) (k : SlotId) :
    (∃ l, (Spec.KeyStorage.step pairs st op).1 = some l ∧ k ∈ alKeys l.slots) →
    (∃ l, st = some l ∧ k ∈ alKeys l.slots) ∨ k ∈ createdIds [op] := by
  rintro ⟨l', h1, h2⟩
  cases op with
  | init mk id pub r =>
    cases st with
    | some l => simp only [Spec.KeyStorage.step] at h1; have e := Option.some.inj h1; subst e; exact Or.inl ⟨l, rfl, h2⟩
    | none =>
      simp only [Spec.KeyStorage.step] at h1
      split at h1
      · cases h1; simp [alKeys] at h2; exact Or.inr (by simp [createdIds, h2])
      · cases h1
  | add n np o op r =>
    cases st with
    | none => simp [Spec.KeyStorage.step] at h1
    | some l =>
      simp only [Spec.KeyStorage.step] at h1
      split at h1
      · cases h1
        rcases (keys_insert_mem n k np l.slots).mp h2 with e | e
        · exact Or.inr (by simp [createdIds, e])
        · exact Or.inl ⟨l, rfl, e⟩
      · have e := Option.some.inj h1; subst e; exact Or.inl ⟨l, rfl, h2⟩
  | delete id priv =>
    cases st with
    | none => simp [Spec.KeyStorage.step] at h1
    | some l =>
      simp only [Spec.KeyStorage.step] at h1
      split at h1
      · cases h1; exact Or.inl ⟨l, rfl, keys_erase_sub id k _ h2⟩
      · have e := Option.some.inj h1; subst e; exact Or.inl ⟨l, rfl, h2⟩
  | get id priv =>
    cases st with
    | none => simp [Spec.KeyStorage.step] at h1
    | some l =>
      simp only [Spec.KeyStorage.step] at h1
      split at h1 <;> (have e := Option.some.inj h1; subst e; exact Or.inl ⟨l, rfl, h2⟩)
  | reload =>
    cases st with
    | none => simp [Spec.KeyStorage.step] at h1
    | some l => simp only [Spec.KeyStorage.step] at h1; have e := Option.some.inj h1; subst e; exact Or.inl ⟨l, rfl, h2⟩

theorem createdIds_cons (op : Op) (ops : List Op) : createdIds (op :: ops) = createdIds [op] ++ createdIds ops := by
  cases op <;> simp [createdIds]

theorem spec_exec_keys (pairs : List (KeyStr × KeyStr)) (ops : List Op) (st : St) (k : SlotId) :
    (∃ l, Spec.KeyStorage.exec pairs st ops = some l ∧ k ∈ alKeys l.slots) →
    (∃ l, st = some l ∧ k ∈ alKeys l.slots) ∨ k ∈ createdIds ops := by
  induction ops generalizing st with
  | nil => intro h; exact Or.inl (by simpa [Spec.KeyStorage.exec, Spec.KeyStorage.run] using h)
  | cons op ops ih =>
    intro h
    have hex : Spec.KeyStorage.exec pairs st (op :: ops) =
        Spec.KeyStorage.exec pairs (Spec.KeyStorage.step pairs st op).1 ops := by
      simp [Spec.KeyStorage.exec, Spec.KeyStorage.run]
    rw [hex] at h
    rw [createdIds_cons]
    rcases ih _ h with h' | h'
    · rcases spec_step_keys pairs st op k h' with h'' | h''
      · exact Or.inl h''
      · exact Or.inr (List.mem_append.mpr (Or.inl h''))
    · exact Or.inr (List.mem_append.mpr (Or.inr h'))

/-- a slot id that no initialise/add of the sequence ever named yields nothing -/
theorem never_added_slot_refused {C : Crypto} {pairs : List (KeyStr × KeyStr)} (hC : CryptoOk C pairs)
    (ops : List Op) (id : SlotId) (priv : KeyStr) (hid : id ∉ createdIds ops) :
    ∃ e, getMasterKey C (exec C {} ops) id priv = .error e := by
  have h := live_slots_recover hC ops id priv
  cases hst : Spec.KeyStorage.exec pairs none ops with
  | none => rw [hst] at h; exact h
  | some l =>
    rw [hst] at h
    apply h.2
    apply auth_false_of_absent
    apply (lookup_none_iff id l.slots).mpr
    intro hm
    rcases spec_exec_keys pairs ops none id ⟨l, hst, hm⟩ with ⟨_, h', _⟩ | h'
    · cases h'
    · exact hid h'


/-! ### C20: guards -/

/-- **C20, guards** — for ANY storage state `s` (reachable or not) and any primitives:
    1. a second initialisation is refused (with well-formed arguments: `alreadyInitialized`);
    2. an existing slot is never overwritten: adding under a present id is refused, and
       an accepted add leaves every other slot exactly as it was;
    3. the last slot is never deleted (`lastKey`);
    4. the uninitialised storage refuses add / delete / get;
    5. a refused initialise / add / delete / get leaves the storage untouched. -/
theorem guards (C : Crypto) (s : State) :
    (isZero s = false → ∀ mk id pub r, (∃ e, initializeStorage C s mk id pub r = .error e) ∧
        (mk.length = 32 → id ≠ "" → pub ≠ emptyKey → initializeStorage C s mk id pub r = .error .alreadyInitialized)) ∧
    (∀ n np o op r, (alLookup n s.slots).isSome = true → (∃ e, addKeySlot C s n np o op r = .error e) ∧
        (n ≠ "" → np ≠ emptyKey → addKeySlot C s n np o op r = .error .slotExists)) ∧
    (∀ n np o op r s', addKeySlot C s n np o op r = .ok s' →
        alLookup n s.slots = none ∧ ∀ k, k ≠ n → alLookup k s'.slots = alLookup k s.slots) ∧
    (s.slots.length = 1 → ∀ id priv, deleteKeySlot C s id priv = .error .lastKey) ∧
    (isZero s = true → ∀ id priv, (∃ e, getMasterKey C s id priv = .error e) ∧
        (∃ e, deleteKeySlot C s id priv = .error e) ∧
        ∀ n np r, ∃ e, addKeySlot C s n np id priv r = .error e) ∧
    (∀ op, op ≠ .reload → (step C s op).2.isErr = true → (step C s op).1 = s) := by
  refine ⟨?_, ?_, ?_, ?_, ?_, ?_⟩
  · intro hz mk id pub r
    refine ⟨init_again_refused C s hz mk id pub r, ?_⟩
    intro h1 h2 h3
    simp [initialize_eq, h1, h2, h3, hz]
  · intro n np o op r hp
    constructor
    · rw [add_eq]
      by_cases h1 : n = ""
      · exact ⟨_, by simp [h1]; rfl⟩
      · by_cases h2 : np = emptyKey
        · exact ⟨_, by simp [h1, h2]; rfl⟩
        · exact ⟨_, by simp [h1, h2, hp]; rfl⟩
    · intro h1 h2
      simp [add_eq, h1, h2, hp]
  · intro n np o op r s' h
    rw [add_eq] at h
    by_cases h1 : n = ""
    · simp [h1] at h
    by_cases h2 : np = emptyKey
    · simp [h1, h2] at h
    cases h3 : alLookup n s.slots with
    | some sl => simp [h1, h2, h3] at h
    | none =>
      simp only [h1, h2, h3, Option.isSome_none, if_false] at h
      refine ⟨rfl, ?_⟩
      intro k hk
      cases hg : getKey C s o op with
      | error e => simp [hg] at h
      | ok mk =>
        cases he : C.enc np mk r with
        | none => simp [hg, he] at h
        | some c =>
          simp only [hg, he] at h
          cases h
          exact lookup_insert_other n k _ s.slots hk
  · intro h1 id priv
    simp [delete_eq, h1]
  · intro hz id priv
    have hs : s = {} := by
      obtain ⟨v, sl, t⟩ := s
      simp [isZero, versionUnspecified] at hz
      obtain ⟨a, b, c⟩ := hz
      subst a; subst b; subst c; rfl
    subst hs
    exact ⟨getKey_zero C id priv, ⟨_, delete_zero C id priv⟩, fun n np r => add_zero C n np id priv r⟩
  · intro op hne herr
    cases op with
    | init mk id pub r =>
      simp only [step] at herr ⊢
      cases h : initializeStorage C s mk id pub r with
      | error e => rfl
      | ok s' => rw [h] at herr; simp [stOut, Out.isErr] at herr
    | add n np o op r =>
      simp only [step] at herr ⊢
      cases h : addKeySlot C s n np o op r with
      | error e => rfl
      | ok s' => rw [h] at herr; simp [stOut, Out.isErr] at herr
    | delete id priv =>
      simp only [step] at herr ⊢
      cases h : deleteKeySlot C s id priv with
      | error e => rfl
      | ok s' => rw [h] at herr; simp [stOut, Out.isErr] at herr
    | get id priv =>
      simp only [step]
      cases h : getMasterKey C s id priv <;> rfl
    | reload => exact absurd rfl hne

/-- along every run: once initialised, the storage never loses its last slot -/
theorem initialised_keeps_a_slot {C : Crypto} {pairs : List (KeyStr × KeyStr)} (hC : CryptoOk C pairs)
    (ops : List Op) : exec C {} ops = {} ∨ ((exec C {} ops).slots ≠ [] ∧ (exec C {} ops).version = version1) := by
  have h := exec_sim hC ops
  cases hst : Spec.KeyStorage.exec pairs none ops with
  | none => rw [hst] at h; exact Or.inl h
  | some l => rw [hst] at h; exact Or.inr ⟨h.ne, h.ver⟩

/-! ### C20: marshal / unmarshal -/

/-- **C20, serialisation.** For the storage after ANY operation sequence:
    marshal + unmarshal into a fresh KeyStorage reproduces the storage exactly (so
    every statement above holds for the reloaded storage), it is accepted iff the
    storage was initialised, and a `reload` step in the middle of a sequence is a no-op.
    (All theorems of this file quantify over sequences that contain `reload` anywhere.) -/
theorem marshal_roundtrip {C : Crypto} {pairs : List (KeyStr × KeyStr)} (hC : CryptoOk C pairs) (ops : List Op) :
    (unmarshal (marshal (exec C {} ops))).1 = exec C {} ops ∧
    ((unmarshal (marshal (exec C {} ops))).2 = none ↔ exec C {} ops ≠ {}) ∧
    (exec C {} ops ≠ {} → ∀ more, run C (exec C {} ops) (.reload :: more) =
        ((run C (exec C {} ops) more).1, .ok :: (run C (exec C {} ops) more).2)) := by
  have h := exec_sim hC ops
  cases hst : Spec.KeyStorage.exec pairs none ops with
  | none =>
    rw [hst] at h
    have h0 : exec C {} ops = {} := h
    rw [h0]
    exact ⟨rfl, by simp [unmarshal_marshal_err, version1], fun hn => absurd rfl hn⟩
  | some l =>
    rw [hst] at h
    have hi : Inv C pairs (exec C {} ops) l := h
    have hne : exec C {} ops ≠ {} := by
      intro e
      have := hi.ver
      rw [e] at this
      cases this
    refine ⟨unmarshal_marshal_state _ hi.sorted, ?_, ?_⟩
    · simp [unmarshal_marshal_err, hi.ver, hne]
    · intro _ more
      simp only [run, step_reload C _ hi.sorted hi.ver]


/-! ### C20: tampering behind the API -/

/-- the bytes the tag covers -/
def blobsOf (l : List (SlotId × Slot)) : Bytes := l.flatMap (fun e => e.2.blob)

theorem blobsOf_cons (k : SlotId) (sl : Slot) (t : List (SlotId × Slot)) :
    blobsOf ((k, sl) :: t) = sl.blob ++ blobsOf t := by simp [blobsOf]

theorem modify_not_mem {β : Type} (k : SlotId) (f : β → β) (l : List (SlotId × β)) (h : k ∉ alKeys l) :
    alModify k f l = l := by
  induction l with
  | nil => rfl
  | cons hd t ih =>
    obtain ⟨k', v'⟩ := hd
    simp only [alKeys, List.map_cons, List.mem_cons, not_or] at h
    have h1 : ¬ k' = k := fun e => h.1 e.symm
    simp only [alKeys] at ih
    simp [alModify, h1, ih h.2]

theorem sorted_head_not_mem {β : Type} {k : SlotId} {v : β} {t : List (SlotId × β)}
    (hs : Sorted ((k, v) :: t)) : k ∉ alKeys t := by
  simp only [Sorted, alKeys, List.map_cons, List.pairwise_cons] at hs
  intro hm
  exact String.lt_irrefl _ (hs.1 k (by simpa [alKeys] using hm))

theorem sorted_tail {β : Type} {e : SlotId × β} {t : List (SlotId × β)} (hs : Sorted (e :: t)) : Sorted t := by
  simp only [Sorted, alKeys, List.map_cons, List.pairwise_cons] at hs
  exact hs.2

/-- replacing one blob by a different one changes the concatenation -/
theorem blobs_modify {l : List (SlotId × Slot)} (hs : Sorted l) {id : SlotId} {sl : Slot} {b : Bytes}
    (hl : alLookup id l = some sl)
    (he : blobsOf (alModify id (fun s => { s with blob := b }) l) = blobsOf l) : b = sl.blob := by
  induction l with
  | nil => cases hl
  | cons hd t ih =>
    obtain ⟨k', v'⟩ := hd
    by_cases h1 : k' = id
    · subst h1
      simp only [alLookup, if_true] at hl
      have e : v' = sl := Option.some.inj hl
      subst e
      rw [show alModify k' (fun s => { s with blob := b }) ((k', v') :: t) =
            (k', { v' with blob := b }) :: alModify k' (fun s => { s with blob := b }) t by simp [alModify],
          modify_not_mem _ _ _ (sorted_head_not_mem hs), blobsOf_cons, blobsOf_cons] at he
      exact List.append_cancel_right he
    · simp only [alLookup, h1, if_false] at hl
      rw [show alModify id (fun s => { s with blob := b }) ((k', v') :: t) =
            (k', v') :: alModify id (fun s => { s with blob := b }) t by simp [alModify, h1],
          blobsOf_cons, blobsOf_cons] at he
      exact ih (sorted_tail hs) hl (List.append_cancel_left he)

/-- a new entry adds exactly its blob's length -/
theorem blobs_insert_length {l : List (SlotId × Slot)} {id : SlotId} (sl : Slot)
    (hl : alLookup id l = none) : (blobsOf (alInsert id sl l)).length = (blobsOf l).length + sl.blob.length := by
  induction l with
  | nil => simp [alInsert, blobsOf]
  | cons hd t ih =>
    obtain ⟨k', v'⟩ := hd
    by_cases h1 : k' = id
    · simp [alLookup, h1] at hl
    · simp only [alLookup, h1, if_false] at hl
      have h2 : ¬ id = k' := fun e => h1 e.symm
      simp only [alInsert]
      by_cases h3 : id < k'
      · simp only [h3, if_true, blobsOf_cons, List.length_append]; omega
      · simp only [h3, h2, if_false, blobsOf_cons, List.length_append, ih hl]; omega

/-- a dropped entry removes exactly its blob's length -/
theorem blobs_erase_length {l : List (SlotId × Slot)} (hs : Sorted l) {id : SlotId} {sl : Slot}
    (hl : alLookup id l = some sl) : (blobsOf (alErase id l)).length + sl.blob.length = (blobsOf l).length := by
  induction l with
  | nil => cases hl
  | cons hd t ih =>
    obtain ⟨k', v'⟩ := hd
    by_cases h1 : k' = id
    · subst h1
      simp only [alLookup, if_true] at hl
      cases hl
      simp only [alErase, if_true, erase_not_mem _ _ (sorted_head_not_mem hs), blobsOf_cons, List.length_append]
      omega
    · simp only [alLookup, h1, if_false] at hl
      simp only [alErase, h1, if_false, blobsOf_cons, List.length_append]
      have := ih (sorted_tail hs) hl
      omega

theorem hashSlots_eq (C : Crypto) (s : State) (mk : Bytes) : hashSlots C s mk = C.hmac mk (blobsOf s.slots) := by
  simp [hashSlots, hmacInput_eq, blobsOf]

/-- a stored (untampered) slot of a storage satisfying the invariant decrypts to the
    master key or not at all -/
theorem dec_stored {C : Crypto} {pairs : List (KeyStr × KeyStr)} (hC : CryptoOk C pairs) {s : State} {l : Live}
    (h : Inv C pairs s l) {id : SlotId} {sl : Slot} (hs : alLookup id s.slots = some sl) {priv : KeyStr} {mk : Bytes}
    (hd : C.dec priv sl.blob = some mk) : mk = l.master := by
  rcases h.rel.lookup id with ⟨hn, _⟩ | ⟨sl', pu, hs', _, hq⟩
  · rw [hn] at hs; cases hs
  · rw [hs] at hs'; cases hs'
    obtain ⟨_, _, r, henc⟩ := hq
    by_cases hp : (pu, priv) ∈ pairs
    · have := hC.dec_enc _ hp _ _ _ henc
      rw [this] at hd; cases hd; rfl
    · have := hC.wrong_key _ _ _ _ _ henc hp
      rw [this] at hd; cases hd

theorem stored_nonempty {C : Crypto} {pairs : List (KeyStr × KeyStr)} (hC : CryptoOk C pairs) {s : State} {l : Live}
    (h : Inv C pairs s l) {id : SlotId} {sl : Slot} (hs : alLookup id s.slots = some sl) : sl.blob ≠ [] := by
  rcases h.rel.lookup id with ⟨hn, _⟩ | ⟨sl', pu, hs', _, hq⟩
  · rw [hn] at hs; cases hs
  · rw [hs] at hs'; cases hs'
    obtain ⟨_, _, r, henc⟩ := hq
    exact hC.enc_nonempty _ _ _ _ henc

/-- a tampering that really alters the field it names, for the kinds the code detects -/
def Effective (s : State) : Tamper → Prop
  | .alterBlob id b => ∃ sl, alLookup id s.slots = some sl ∧ b ≠ sl.blob    -- any alteration of a stored blob
  | .alterTag t => t ≠ s.tag                                                -- any alteration of the tag
  | .removeSlot id => (alLookup id s.slots).isSome = true                   -- a slot removed
  | .addSlot id _ b => alLookup id s.slots = none ∧ b ≠ []                  -- a slot added, NON-EMPTY blob
  | .alterVersion v => v ≠ s.version                                        -- the version field altered
  | .renameSlot _ _ => False   -- not covered: see `rename_undetected`
  | .alterAlg _ _ => False     -- not named by the property (only the slot itself notices)

/-- the slot whose content the attacker chose (a retrieval through it decrypts to
    whatever the attacker encrypted there) -/
def injected : Tamper → Option SlotId
  | .alterBlob id _ => some id
  | .addSlot id _ _ => some id
  | _ => none

/-
  The property at full strength — CURRENTLY FALSE for the code as it is (DESIGN §5 D6):

    theorem tamper_detected … (h : Inv C pairs s l) (t : Tamper) (ht : Changes s t)
        (id : SlotId) (priv : KeyStr) : ∃ e, getMasterKey C (tamper s t) id priv = .error e

  where `Changes s t` also admits `addSlot id alg []` (a slot with an EMPTY blob added
  behind the API) and `renameSlot src dst` for any `dst ≠ src` not present. The HMAC
  covers only the concatenated blobs in id order (`hmacInput_eq`): no ids, no lengths,
  no slot boundaries. Hence an empty-blob slot and an order-preserving rename leave the
  HMAC input unchanged and every honest retrieval still succeeds:
  `empty_slot_injection_undetected`, `rename_undetected` below are kernel-checked
  counterexamples. What IS proved is `tamper_detected_partial`.
-/

/-- **C20, tampering (partial).** Let `s` be a storage satisfying the invariant (in
    particular: the storage after any operation sequence, `tamper_detected_after_run`).
    After altering any stored blob, altering the tag, removing a slot, adding a slot
    with a non-empty blob, or altering the version, EVERY retrieval fails — through any
    slot and with any key — assuming per-key HMAC injectivity; when the retrieval goes
    through the very slot whose blob the attacker supplied, the decrypted key is the
    attacker's, and cross-key HMAC collision freedom (`HmacCross`) is assumed too.
    Missing w.r.t. the full statement: empty-blob slot injection and renames. -/
theorem tamper_detected_partial {C : Crypto} {pairs : List (KeyStr × KeyStr)} (hC : CryptoOk C pairs)
    {s : State} {l : Live} (h : Inv C pairs s l) (t : Tamper) (ht : Effective s t)
    (id : SlotId) (priv : KeyStr) (hx : injected t ≠ some id ∨ HmacCross C) :
    ∃ e, getMasterKey C (tamper s t) id priv = .error e := by
  cases hg : getMasterKey C (tamper s t) id priv with
  | error e => exact ⟨e, rfl⟩
  | ok mk =>
    exfalso
    obtain ⟨_, _, _, hver, sl', hl', _, hdec, htag⟩ := (getKey_ok_iff C (tamper s t) id priv mk).mp hg
    rw [hashSlots_eq] at htag
    have horig : s.tag = C.hmac l.master (blobsOf s.slots) := by rw [h.tag, hashSlots_eq]
    -- from equal tags to equal HMAC inputs
    have inputs_eq : ∀ X, C.hmac mk X = s.tag → (mk = l.master ∨ HmacCross C) → X = blobsOf s.slots := by
      intro X hX hor
      rw [horig] at hX
      rcases hor with e | hc
      · subst e; exact hC.hmac_inj _ _ _ hX
      · exact hc _ _ _ _ hX
    cases t with
    | alterTag t' =>
      simp only [tamper] at hl' htag
      have := dec_stored hC h hl' hdec
      subst this
      exact ht (by rw [← htag, horig])
    | alterVersion v =>
      simp only [tamper] at hver
      exact ht (by rw [hver, h.ver])
    | renameSlot a b => exact ht
    | alterAlg a b => exact ht
    | alterBlob id0 b =>
      obtain ⟨sl0, hl0, hb⟩ := ht
      simp only [tamper] at hl' htag
      have hor : mk = l.master ∨ HmacCross C := by
        rcases hx with hne | hc
        · have hne' : id ≠ id0 := fun e => hne (by simp [injected, e])
          rw [lookup_modify_other id0 id _ _ hne'] at hl'
          exact Or.inl (dec_stored hC h hl' hdec)
        · exact Or.inr hc
      exact hb (blobs_modify h.sorted hl0 (inputs_eq _ htag hor))
    | addSlot id0 alg b =>
      obtain ⟨hl0, hb⟩ := ht
      simp only [tamper] at hl' htag
      have hor : mk = l.master ∨ HmacCross C := by
        rcases hx with hne | hc
        · have hne' : id ≠ id0 := fun e => hne (by simp [injected, e])
          rw [lookup_insert_other id0 id _ _ hne'] at hl'
          exact Or.inl (dec_stored hC h hl' hdec)
        · exact Or.inr hc
      have h1 := congrArg List.length (inputs_eq _ htag hor)
      rw [blobs_insert_length ⟨alg, b⟩ hl0] at h1
      have : b.length = 0 := by simp only at h1; omega
      exact hb (List.length_eq_zero_iff.mp this)
    | removeSlot id0 =>
      simp only [tamper] at hl' htag
      cases hl0 : alLookup id0 s.slots with
      | none => simp [Effective, hl0] at ht
      | some sl0 =>
        have hne' : id ≠ id0 := by
          intro e
          rw [e, lookup_erase_self] at hl'
          cases hl'
        rw [lookup_erase_other id0 id _ hne'] at hl'
        have hm := dec_stored hC h hl' hdec
        have h1 := congrArg List.length (inputs_eq _ htag (Or.inl hm))
        have h2 := blobs_erase_length h.sorted hl0
        have h3 : sl0.blob.length = 0 := by omega
        exact stored_nonempty hC h hl0 (List.length_eq_zero_iff.mp h3)

/-- the same, stated for the storage after ANY operation sequence -/
theorem tamper_detected_after_run {C : Crypto} {pairs : List (KeyStr × KeyStr)} (hC : CryptoOk C pairs)
    (ops : List Op) (hinit : exec C {} ops ≠ {}) (t : Tamper) (ht : Effective (exec C {} ops) t)
    (id : SlotId) (priv : KeyStr) (hx : injected t ≠ some id ∨ HmacCross C) :
    ∃ e, getMasterKey C (tamper (exec C {} ops) t) id priv = .error e := by
  have h := exec_sim hC ops
  cases hst : Spec.KeyStorage.exec pairs none ops with
  | none => rw [hst] at h; exact absurd h hinit
  | some l => rw [hst] at h; exact tamper_detected_partial hC h t ht id priv hx

/-! ### the negative witnesses (D6): what the code does NOT detect -/

theorem blobs_insert_empty {l : List (SlotId × Slot)} {id : SlotId} (alg : Nat)
    (hl : alLookup id l = none) : blobsOf (alInsert id ⟨alg, []⟩ l) = blobsOf l := by
  induction l with
  | nil => simp [alInsert, blobsOf]
  | cons hd t ih =>
    obtain ⟨k', v'⟩ := hd
    by_cases h1 : k' = id
    · simp [alLookup, h1] at hl
    · simp only [alLookup, h1, if_false] at hl
      have h2 : ¬ id = k' := fun e => h1 e.symm
      simp only [alInsert]
      by_cases h3 : id < k'
      · simp [h3, blobsOf_cons]
      · simp [h3, h2, blobsOf_cons, ih hl]

/-- **D6, general form.** For ANY primitives and ANY initialised storage: a slot with an
    EMPTY encrypted blob added behind the API changes the result of no retrieval through
    any other slot — in particular every honest retrieval still succeeds, so the
    injection goes unnoticed. -/
theorem empty_slot_injection_undetected (C : Crypto) (s : State) (hv : s.version = version1)
    (id0 : SlotId) (alg : Nat) (hnew : alLookup id0 s.slots = none)
    (id : SlotId) (priv : KeyStr) (hne : id ≠ id0) (mk : Bytes) :
    getMasterKey C (tamper s (.addSlot id0 alg [])) id priv = .ok mk ↔ getMasterKey C s id priv = .ok mk := by
  have hz1 : isZero s = false := isZero_false_of_ver hv
  have hz2 : isZero (tamper s (.addSlot id0 alg [])) = false := isZero_false_of_ver hv
  have hb : ∀ mk, hashSlots C (tamper s (.addSlot id0 alg [])) mk = hashSlots C s mk := by
    intro mk
    rw [hashSlots_eq, hashSlots_eq]
    simp only [tamper, blobs_insert_empty alg hnew]
  simp only [getMasterKey, getKey_ok_iff, hz1, hz2, hb]
  simp only [tamper, lookup_insert_other id0 id _ _ hne]


/-! ### non-vacuity: the hypotheses are satisfiable (the symbolic primitives satisfy them) -/

theorem mem_symPairs (n : Nat) (pu pr : Nat) :
    (pu, pr) ∈ symPairs n ↔ ∃ k, 1 ≤ k ∧ k ≤ n ∧ pr = 2 * k + 1 ∧ (pu = 2 * k ∨ pu = 2 * k + 1) := by
  induction n with
  | zero => simp [symPairs]; intro k h1 h2; omega
  | succ n ih =>
    simp only [symPairs, List.mem_append, ih, List.mem_cons, Prod.mk.injEq, List.mem_nil_iff, or_false]
    constructor
    · rintro (⟨k, h1, h2, h3, h4⟩ | ⟨h1, h2⟩ | ⟨h1, h2⟩)
      · exact ⟨k, h1, by omega, h3, h4⟩
      · exact ⟨n + 1, by omega, by omega, h2, Or.inl h1⟩
      · exact ⟨n + 1, by omega, by omega, h2, Or.inr h1⟩
    · rintro ⟨k, h1, h2, h3, h4⟩
      by_cases hk : k ≤ n
      · exact Or.inl ⟨k, h1, hk, h3, h4⟩
      · have : k = n + 1 := by omega
        subst this
        rcases h4 with h4 | h4
        · exact Or.inr (Or.inl ⟨h4, h3⟩)
        · exact Or.inr (Or.inr ⟨h4, h3⟩)

theorem symKeyId_some (n : Nat) (pu k : Nat) : symKeyId n pu = some k ↔ 2 ≤ pu ∧ pu ≤ 2 * n + 1 ∧ k = pu / 2 := by
  unfold symKeyId
  by_cases h : 2 ≤ pu ∧ pu ≤ 2 * n + 1
  · simp [h]; constructor <;> (intro e; exact e.symm)
  · simp [h]; intro h1 h2; exact absurd ⟨h1, h2⟩ h

theorem sym_enc (n : Nat) (pu : Nat) (m : Bytes) (r : Nat) (c : Bytes) :
    (symCrypto n).enc pu m r = some c ↔ 2 ≤ pu ∧ pu ≤ 2 * n + 1 ∧ c = 1 :: (pu / 2) :: r :: m := by
  simp only [symCrypto, Option.map_eq_some_iff, symKeyId_some]
  constructor
  · rintro ⟨k, ⟨h1, h2, h3⟩, h4⟩; subst h3; exact ⟨h1, h2, h4.symm⟩
  · rintro ⟨h1, h2, h3⟩; exact ⟨pu / 2, ⟨h1, h2, rfl⟩, h3.symm⟩

/-- the assumptions on the primitives are satisfiable: the symbolic instance with `n`
    key pairs satisfies all of them (so no theorem above is vacuous) -/
theorem symCrypto_ok (n : Nat) : CryptoOk (symCrypto n) (symPairs n) where
  key_ne := by
    rintro ⟨(pu : Nat), (pr : Nat)⟩ hp
    obtain ⟨k, h1, _, h3, h4⟩ := (mem_symPairs n pu pr).mp hp
    have a : pu ≠ 0 := by rcases h4 with h4 | h4 <;> omega
    have b : pr ≠ 0 := by omega
    exact ⟨a, b⟩
  enc_known := by
    rintro ⟨(pu : Nat), (pr : Nat)⟩ hp m r
    obtain ⟨k, h1, h2, h3, h4⟩ := (mem_symPairs n pu pr).mp hp
    have a : 2 ≤ pu := by rcases h4 with h4 | h4 <;> omega
    have b : pu ≤ 2 * n + 1 := by rcases h4 with h4 | h4 <;> omega
    exact ⟨_, (sym_enc n pu m r _).mpr ⟨a, b, rfl⟩⟩
  enc_unknown := by
    intro (pu : Nat) hk m r
    cases he : (symCrypto n).enc pu m r with
    | none => rfl
    | some c =>
      obtain ⟨h1, h2, _⟩ := (sym_enc n pu m r c).mp he
      have a : 1 ≤ pu / 2 := by omega
      have b : pu / 2 ≤ n := by omega
      have d : pu = 2 * (pu / 2) ∨ pu = 2 * (pu / 2) + 1 := by omega
      have : knownPub (symPairs n) pu = true :=
        (knownPub_iff _ _).mpr ⟨2 * (pu / 2) + 1, (mem_symPairs n pu _).mpr ⟨pu / 2, a, b, rfl, d⟩⟩
      rw [hk] at this; cases this
  dec_enc := by
    rintro ⟨(pu : Nat), (pr : Nat)⟩ hp m r c he
    obtain ⟨k, h1, h2, h3, h4⟩ := (mem_symPairs n pu pr).mp hp
    obtain ⟨_, _, hc⟩ := (sym_enc n pu m r c).mp he
    subst hc
    have hk : pu / 2 = k := by rcases h4 with h4 | h4 <;> omega
    simp only [symCrypto, hk]
    simp [h1, h2, h3]
  wrong_key := by
    intro (pu : Nat) (pr : Nat) m r c he hp
    obtain ⟨h1, h2, hc⟩ := (sym_enc n pu m r c).mp he
    subst hc
    simp only [symCrypto]
    have d : pu = 2 * (pu / 2) ∨ pu = 2 * (pu / 2) + 1 := by omega
    have : ¬ (1 ≤ pu / 2 ∧ pu / 2 ≤ n ∧ pr = 2 * (pu / 2) + 1) := by
      rintro ⟨a, b, c⟩
      exact hp ((mem_symPairs n pu pr).mpr ⟨pu / 2, a, b, c, d⟩)
    simp [this]
  enc_nonempty := by
    intro pu m r c he
    obtain ⟨_, _, hc⟩ := (sym_enc n pu m r c).mp he
    subst hc; simp
  hmac_inj := by
    intro k a b h
    simp only [symCrypto, List.cons.injEq, true_and] at h
    exact List.append_cancel_left h

theorem symCrypto_cross (n : Nat) : HmacCross (symCrypto n) := by
  intro k k' a b h
  simp only [symCrypto, List.cons.injEq, true_and] at h
  exact (List.append_inj h.2 h.1).2

/-! ### concrete states (non-vacuity of the theorems' other hypotheses, and D6 on a run) -/

def m1 : Bytes := List.replicate 32 1

/-- initialise slot "b" for key pair 1, add slot "d" for key pair 2 -/
def exOps : List Op := [.init m1 "b" 2 0, .add "d" 4 "b" 3 1]

def okKey : Except Err Bytes → Option Bytes
  | .ok k => some k
  | .error _ => none

def errOf : Except Err Bytes → Option Err
  | .ok _ => none
  | .error e => some e

-- both live slots recover the master key; a wrong key, a never-added slot do not
example : okKey (getMasterKey (symCrypto 4) (exec (symCrypto 4) {} exOps) "b" 3) = some m1 := by decide
example : okKey (getMasterKey (symCrypto 4) (exec (symCrypto 4) {} exOps) "d" 5) = some m1 := by decide
example : errOf (getMasterKey (symCrypto 4) (exec (symCrypto 4) {} exOps) "b" 5) = some .decryptFail := by decide
example : errOf (getMasterKey (symCrypto 4) (exec (symCrypto 4) {} exOps) "c" 3) = some .slotNotFound := by decide
-- the specification's meaning of that run: two live slots
example : Spec.KeyStorage.exec (symPairs 4) none exOps = some ⟨m1, [("b", 2), ("d", 4)]⟩ := by decide
-- deleting "b" then asking for it: refused; deleting the last one: refused
example : (run (symCrypto 4) {} (exOps ++ [.delete "b" 3, .get "b" 3, .delete "d" 5, .reload, .get "d" 5])).2 =
    [.ok, .ok, .ok, .err .slotNotFound, .err .lastKey, .ok, .key m1] := by decide
-- a detected tampering, concretely (hypotheses of `tamper_detected_partial` are satisfiable)
example : Effective (exec (symCrypto 4) {} exOps) (.addSlot "c" algPGP [9]) := by
  refine ⟨by decide, by decide⟩
example : errOf (getMasterKey (symCrypto 4) (tamper (exec (symCrypto 4) {} exOps) (.addSlot "c" algPGP [9])) "b" 3)
    = some .hmacMismatch := by decide

/-- **D6 on a concrete run**: after `exOps`, a slot "c" with an EMPTY blob is added
    behind the API; both honest retrievals still return the master key (undetected);
    the storage then lets BOTH real slots be deleted, after which only the bogus slot is
    left and the master key is unrecoverable. -/
theorem empty_slot_injection_undetected_run :
    let s' := tamper (exec (symCrypto 4) {} exOps) (.addSlot "c" algPGP [])
    s' ≠ exec (symCrypto 4) {} exOps ∧
    okKey (getMasterKey (symCrypto 4) s' "b" 3) = some m1 ∧
    okKey (getMasterKey (symCrypto 4) s' "d" 5) = some m1 ∧
    (run (symCrypto 4) s' [.delete "b" 3, .delete "d" 5]).2 = [.ok, .ok] ∧
    alKeys (exec (symCrypto 4) s' [.delete "b" 3, .delete "d" 5]).slots = ["c"] := by
  decide

/-- **D6, renames**: renaming slot "b" to "c" behind the API keeps the id order
    ("c" still sorts before "d"), so the HMAC input is unchanged and every retrieval
    succeeds — through the untouched slot and through the renamed one. -/
theorem rename_undetected :
    let s' := tamper (exec (symCrypto 4) {} exOps) (.renameSlot "b" "c")
    s' ≠ exec (symCrypto 4) {} exOps ∧
    alKeys s'.slots = ["c", "d"] ∧
    okKey (getMasterKey (symCrypto 4) s' "d" 5) = some m1 ∧
    okKey (getMasterKey (symCrypto 4) s' "c" 3) = some m1 := by
  decide

-- an order-CHANGING rename is noticed ("b" → "e" moves the blob behind "d")
example : errOf (getMasterKey (symCrypto 4) (tamper (exec (symCrypto 4) {} exOps) (.renameSlot "b" "e")) "d" 5)
    = some .hmacMismatch := by decide


end Cosi.C20
