/-
  Property C05 (and the "rejected registration has no effect on notifications" clause of C17),
  rejected registrations racing with a delivery: Cosi.Model.HandoffReject.

    never_crashes                 for every schedule with any number of rejected registrations around in-progress
                                  lookups the delivery goroutine never dereferences a missing controller
                                  (rests on the regenerated shape of the trigger loop, `triggerSkipsUnknown`)
    rejected_registrations_invisible   … and the hand-off system behaves exactly as on the schedule with the
                                  rejected registrations erased — so every theorem of Cosi.C05H carries over
    quiescent_means_current_with_rejections   C05 itself on this layer
    crash_without_skip            kernel-checked witness: the trigger loop of the tree before the fix
                                  (`runtime.controllers[ctrl].WatchTrigger(&k)`) crashes on a 4-step schedule
-/
import Cosi.Props.C05Handoff
import Cosi.Model.HandoffReject
open Cosi Cosi.Pipeline Cosi.Handoff
namespace Cosi.C05R

theorem skip_fact : Gen.Pipeline.triggerSkipsUnknown = true := by decide

/-- with the skipping loop one step never crashes, and acts on the hand-off system as the erased step -/
theorem stepR_skip (r : Rules) (s : RSys) (hc : s.crashed = false) (x : RStep) :
    (stepRWith r true s x).crashed = false ∧
    (stepRWith r true s x).h = (match x with
      | .base y => stepWith r s.h y
      | .ghost => s.h) := by
  cases x with
  | ghost =>
    unfold stepRWith
    simp only [hc, Bool.false_eq_true, if_false]
    split <;> simp [hc]
  | base y =>
    unfold stepRWith
    simp only [hc, Bool.false_eq_true, if_false]
    cases y <;> simp [hc]

theorem runR_skip (r : Rules) (xs : List RStep) : ∀ s : RSys, s.crashed = false →
    (runRWith r true s xs).crashed = false ∧ (runRWith r true s xs).h = runWith r s.h (erase xs) := by
  induction xs with
  | nil => intro s hc; exact ⟨hc, rfl⟩
  | cons x xs ih =>
    intro s hc
    obtain ⟨h1, h2⟩ := stepR_skip r s hc x
    have := ih (stepRWith r true s x) h1
    simp only [runRWith, List.foldl_cons] at *
    refine ⟨this.1, ?_⟩
    rw [this.2, h2]
    cases x <;> simp [erase, runWith]

theorem runR_eq (s : RSys) (xs : List RStep) : runR s xs = runRWith genRules true s xs := by
  unfold runR runRWith stepR
  rw [skip_fact]

/-- **The delivery goroutine never dereferences a missing controller**, whatever rejected
    registrations race with its lookups. -/
theorem never_crashes (s : RSys) (hc : s.crashed = false) (xs : List RStep) : (runR s xs).crashed = false := by
  rw [runR_eq]; exact (runR_skip genRules xs s hc).1

/-- **A rejected registration has no effect on notifications**: the hand-off system after any
    schedule equals the one after the same schedule with the rejected registrations erased. -/
theorem rejected_registrations_invisible (s : RSys) (hc : s.crashed = false) (xs : List RStep) :
    (runR s xs).h = run s.h (erase xs) := by
  rw [runR_eq]; exact (runR_skip genRules xs s hc).2

/-- C05 on this layer: whenever the system goes quiet, every controller has observed the
    current state of its inputs — rejected registrations in between included. -/
theorem quiescent_means_current_with_rejections (s0 : RSys) (hc : s0.crashed = false) (h0 : C05H.HInv s0.h)
    (xs : List RStep) (hq : C05H.Quiet (runR s0 xs).h) :
    ∀ c ∈ (runR s0 xs).h.p.ctls, ∀ k,
      (c.needs k = .always → c.observed k = ((runR s0 xs).h.p.cur k).ver) ∧
      (c.needs k = .whenDR → ((runR s0 xs).h.p.cur k).dr = true → c.observed k = ((runR s0 xs).h.p.cur k).ver) := by
  rw [rejected_registrations_invisible s0 hc xs] at hq ⊢
  exact C05H.quiescent_means_current s0.h h0 (erase xs) hq

/-! ### the tree before the fix -/

def rjKm : KeyMap := { group := fun _ => 0, ident := fun k => k }
def rjSys : RSys :=
  { h := { p := { cur := fun _ => ⟨0, false⟩,
                  ctls := [{ needs := needsOf rjKm [⟨0, none, .weak⟩], passes := passesPerInput rjKm [⟨0, none, .weak⟩] }] } } }

/-- a write, its batch, the delivery's lookup, a rejected registration around it, the trigger loop -/
def rjSched : List RStep := [.base (.write 1 false), .base (.fetch 1), .base .dedup, .base (.takeKey 1), .ghost, .base .trigger]

/-- **the unguarded trigger loop crashes** (kernel-checked) -/
theorem crash_without_skip : (runRWith goodRules false rjSys rjSched).crashed = true := by decide

/-- the same schedule with the guarded loop: no crash, the controller is triggered, nothing in progress -/
theorem no_crash_with_skip :
    (runRWith goodRules true rjSys rjSched).crashed = false ∧
    ((runRWith goodRules true rjSys rjSched).h.p.ctls.map (·.trigger)) = [true] ∧
    (runRWith goodRules true rjSys rjSched).h.inflight = none := by decide

end Cosi.C05R
