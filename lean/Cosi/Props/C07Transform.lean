/-
  Property C07 for the Transform controller (transform.Controller WithInputFinalizers):
  theorems about the N-pair pass machine of Cosi.Model.Transform, for EVERY schedule of
  controller actions, user-callback outcomes, spurious helper failures, map-iteration
  orders and external actions allowed by C07's environment assumption.
-/
import Cosi.Model.Transform

namespace Cosi.C07T
open Cosi Cosi.TF

variable {n : Nat}

/-! ### point updates -/

@[simp] theorem upd_same {α : Type} (f : Fin n → α) (k : Fin n) (v : α) : upd f k v k = v := by
  simp [upd]

theorem upd_other {α : Type} (f : Fin n → α) (k j : Fin n) (v : α) (h : j ≠ k) : upd f k v j = f j := by
  simp [upd, h]

/-! ### the invariant -/

/-- ids of (the rest of) a List result -/
def ids {α : Type} (l : List (Fin n × α)) : List (Fin n) := l.map (·.1)

/-- the controller's output at `k`, if it exists, is tearing down -/
def outTD (s : Sys n) (k : Fin n) : Prop :=
  ∀ o, s.out k = some o → o.owned = true → o.phase = .tearingDown

/-- every pending release is justified: its output was found absent / destroyed in this pass and is still not
    there — or the loop has not reached it yet -/
def relOk (s : Sys n) (pending : List (Fin n)) : Prop :=
  ∀ j, j ∈ s.rel → (j ∈ s.gone ∧ ownedOut s j = false) ∨ j ∈ pending

/-- a finalizer the pass has READ on an input is still there -/
def finRead (s : Sys n) (todo : List (Fin n × AIn)) : Prop :=
  ∀ p, p ∈ todo → p.2.ctlFin = true → hasFin s p.1 = true

/-- what the controller may rely on at each program point -/
def pcInv (s : Sys n) : Prop :=
  match s.pc with
  | .idle => True
  | .inputs todo => finRead s todo
  | .modify k after todo => finRead s todo ∧ after = false ∧ hasFin s k = true
  | .addFin _ _ => False
  | .outputs todo => relOk s (ids todo)
  | .destroy k todo => relOk s (k :: ids todo) ∧ outTD s k
  | .release todo => ∀ j, j ∈ todo → j ∈ s.gone ∧ ownedOut s j = false

/-- the safety invariant: the C07 clauses plus `pcInv` -/
structure Safe (s : Sys n) : Prop where
  guard : ∀ k, ownedOut s k = true → hasFin s k = true
  noBadDestroy : s.badDestroy = false
  noBadPopulate : s.badPopulate = false
  atPc : pcInv s

/-- what the proofs need of the rules (`genRules` has it: `genRules_good`) -/
structure GoodRules (r : Rules) : Prop where
  keeps : ∀ e, e ≠ .destroyOk → r.keepsRelease e = false
  finFirst : r.finFirst = true
  populates : ∀ ph fin ok, r.populates ph fin ok = true → ph = .tearingDown ∧ fin = true ∧ ok = true

/-! ### the environment -/

theorem env_frame (s : Sys n) (e : Env n) :
    (env s e).pc = s.pc ∧ (env s e).rel = s.rel ∧ (env s e).gone = s.gone ∧ (env s e).touched = s.touched ∧
    (env s e).badDestroy = s.badDestroy ∧ (env s e).badPopulate = s.badPopulate := by
  cases e <;> simp only [env] <;> split <;> (try split) <;> simp

theorem env_ownedOut (s : Sys n) (e : Env n) (j : Fin n) : ownedOut (env s e) j = ownedOut s j := by
  cases e with
  | createIn k f | updateIn k | teardownIn k | destroyIn k | setForeignIn k b | setForeignOut k b
  | createOtherOut k | destroyOtherOut k =>
    simp only [env]
    repeat' split
    all_goals simp only [ownedOut]
    all_goals by_cases hj : j = k
    all_goals (first | subst hj | skip)
    all_goals (try simp_all [upd])
    all_goals (try (cases hso : s.out j <;> simp_all))

theorem env_hasFin (s : Sys n) (e : Env n) (j : Fin n) (h : hasFin s j = true) : hasFin (env s e) j = true := by
  cases e with
  | createIn k f | updateIn k | teardownIn k | destroyIn k | setForeignIn k b | setForeignOut k b
  | createOtherOut k | destroyOtherOut k =>
    simp only [env]
    repeat' split
    all_goals simp only [hasFin] at h ⊢
    all_goals by_cases hj : j = k
    all_goals (first | subst hj | skip)
    all_goals (try simp_all [upd])

theorem env_outTD (s : Sys n) (e : Env n) (j : Fin n) (h : outTD s j) : outTD (env s e) j := by
  cases e with
  | createIn k f | updateIn k | teardownIn k | destroyIn k | setForeignIn k b | setForeignOut k b
  | createOtherOut k | destroyOtherOut k =>
    simp only [env]
    repeat' split
    all_goals simp only [outTD] at h ⊢
    all_goals by_cases hj : j = k
    all_goals (first | subst hj | skip)
    all_goals (try simp_all [upd])
    all_goals (try (cases hso : s.out j <;> simp_all))

/-! ### the controller: one lemma per program point -/

theorem ctl_idle (r : Rules) (s : Sys n) (c : Choice) (hs : Safe s) (hpc : s.pc = .idle) :
    Safe (ctlWith r s c) := by
  simp only [ctlWith, hpc]
  refine ⟨hs.guard, hs.noBadDestroy, hs.noBadPopulate, ?_⟩
  simp only [pcInv, finRead]
  intro p hp hfin
  obtain ⟨k, i⟩ := p
  have := (TF.mem_listOf s.inp k i).1 hp
  simpa [hasFin, this] using hfin

theorem ctl_inputs_nil (r : Rules) (s : Sys n) (c : Choice) (hs : Safe s) (hpc : s.pc = .inputs []) :
    Safe (ctlWith r s c) := by
  simp only [ctlWith, hpc]
  refine ⟨hs.guard, hs.noBadDestroy, hs.noBadPopulate, ?_⟩
  simp only [pcInv, relOk]
  intro j _
  cases hj : s.out j with
  | none =>
    left
    refine ⟨?_, by simp [ownedOut, hj]⟩
    rw [List.mem_filter]
    exact ⟨TF.mem_allFin j, by simp [hj]⟩
  | some o =>
    right
    simp only [ids, List.mem_map]
    exact ⟨(j, o), (TF.mem_listOf s.out j o).2 hj, rfl⟩

theorem finRead_tail (s : Sys n) (p : Fin n × AIn) (rest : List (Fin n × AIn)) (h : finRead s (p :: rest)) :
    finRead s rest := fun q hq => h q (List.mem_cons_of_mem _ hq)

/-- adding the finalizer to input `k` keeps every finalizer that was there -/
theorem hasFin_addFin (s : Sys n) (k : Fin n) (cur : AIn) (j : Fin n) (inp' : Fin n → Option AIn)
    (hinp : inp' = upd s.inp k (some { cur with ctlFin := true }))
    (s' : Sys n) (hs' : s'.inp = inp') (h : hasFin s j = true) : hasFin s' j = true := by
  simp only [hasFin, hs', hinp] at h ⊢
  by_cases hj : j = k
  · subst hj; simp
  · simpa [upd, hj] using h

theorem ctl_inputs_cons (r : Rules) (hr : GoodRules r) (s : Sys n) (c : Choice) (hs : Safe s)
    (k : Fin n) (i : AIn) (rest : List (Fin n × AIn)) (hpc : s.pc = .inputs ((k, i) :: rest)) :
    Safe (ctlWith r s c) := by
  have hpcI := hs.atPc
  simp only [pcInv, hpc] at hpcI
  have hrest := finRead_tail s _ _ hpcI
  simp only [ctlWith, hpc]
  split
  · -- tearing down
    rename_i htd
    refine ⟨hs.guard, hs.noBadDestroy, ?_, ?_⟩
    · simp only [hs.noBadPopulate, Bool.false_or]
      cases hpop : r.populates .tearingDown i.ctlFin c.frf with
      | false => simp
      | true =>
        obtain ⟨_, h2, h3⟩ := hr.populates _ _ _ hpop
        simp [h2, h3]
    · exact hrest
  · -- running
    rename_i hrun
    have hpop : r.populates .running i.ctlFin true = false := by
      cases hp : r.populates .running i.ctlFin true with
      | false => rfl
      | true => exact absurd (hr.populates _ _ _ hp).1 (by decide)
    simp only [hpop, hr.finFirst, Bool.true_and, Bool.not_true, Bool.false_and, Bool.or_false]
    split
    · rename_i hnofin
      split
      · refine ⟨hs.guard, hs.noBadDestroy, hs.noBadPopulate, ?_⟩
        exact hrest
      · rename_i cur hcur
        split
        · refine ⟨hs.guard, hs.noBadDestroy, hs.noBadPopulate, ?_⟩
          exact hrest
        · have hmono : ∀ j, hasFin s j = true →
              hasFin { s with touched := k :: s.touched, inp := upd s.inp k (some { cur with ctlFin := true }),
                              pc := Pc.modify k false rest } j = true :=
            fun j h => hasFin_addFin s k cur j _ rfl _ rfl h
          refine ⟨fun j hj => hmono j (hs.guard j hj), hs.noBadDestroy, hs.noBadPopulate, ?_⟩
          simp only [pcInv, finRead]
          refine ⟨fun p hp hf => hmono _ (hrest p hp hf), trivial, ?_⟩
          simp [hasFin]
    · rename_i hfin
      have hfin' : i.ctlFin = true := by simpa using hfin
      refine ⟨hs.guard, hs.noBadDestroy, hs.noBadPopulate, ?_⟩
      simp only [pcInv, finRead]
      exact ⟨hrest, by simp, hpcI (k, i) (List.mem_cons_self ..) hfin'⟩

theorem ctl_modify (r : Rules) (s : Sys n) (c : Choice) (hs : Safe s)
    (k : Fin n) (after : Bool) (rest : List (Fin n × AIn)) (hpc : s.pc = .modify k after rest) :
    Safe (ctlWith r s c) := by
  have hpcI := hs.atPc
  simp only [pcInv, hpc] at hpcI
  obtain ⟨hrest, hafter, hfin⟩ := hpcI
  subst hafter
  simp only [ctlWith, hpc]
  split
  · exact ⟨hs.guard, hs.noBadDestroy, hs.noBadPopulate, hrest⟩
  · split
    · rename_i hnone
      refine ⟨?_, hs.noBadDestroy, hs.noBadPopulate, hrest⟩
      intro j hj
      by_cases hjk : j = k
      · subst hjk; exact hfin
      · apply hs.guard j
        simpa [ownedOut, upd, hjk] using hj
    · rename_i o ho
      split
      · exact ⟨hs.guard, hs.noBadDestroy, hs.noBadPopulate, hrest⟩
      · split
        · exact ⟨hs.guard, hs.noBadDestroy, hs.noBadPopulate, hrest⟩
        · refine ⟨?_, hs.noBadDestroy, hs.noBadPopulate, hrest⟩
          intro j hj
          by_cases hjk : j = k
          · subst hjk; exact hfin
          · apply hs.guard j
            simpa [ownedOut, upd, hjk] using hj

theorem ctl_addFin (r : Rules) (s : Sys n) (c : Choice) (hs : Safe s)
    (k : Fin n) (rest : List (Fin n × AIn)) (hpc : s.pc = .addFin k rest) :
    Safe (ctlWith r s c) := by
  have hpcI := hs.atPc
  simp only [pcInv, hpc] at hpcI

theorem ctl_outputs_nil (r : Rules) (s : Sys n) (c : Choice) (hs : Safe s) (hpc : s.pc = .outputs []) :
    Safe (ctlWith r s c) := by
  have hpcI := hs.atPc
  simp only [pcInv, hpc, relOk, ids, List.map_nil, List.not_mem_nil, or_false] at hpcI
  simp only [ctlWith, hpc]
  exact ⟨hs.guard, hs.noBadDestroy, hs.noBadPopulate, hpcI⟩

/-- leaving the loop body through an exit that drops the pending release -/
theorem safe_exit_drop (r : Rules) (hr : GoodRules r) (s : Sys n) (e : Exit) (he : e ≠ .destroyOk)
    (k : Fin n) (rest : List (Fin n × AOut)) (err : Bool)
    (hg : ∀ j, ownedOut s j = true → hasFin s j = true) (hb : s.badDestroy = false) (hp : s.badPopulate = false)
    (hrel : relOk s (k :: ids rest)) : Safe (exitLoop r s e k rest err) := by
  simp only [exitLoop, hr.keeps e he]
  refine ⟨hg, hb, hp, ?_⟩
  simp only [pcInv, relOk]
  intro j hj
  simp only [Bool.false_eq_true, if_false, List.mem_filter, decide_eq_true_eq] at hj
  rcases hrel j hj.1 with h | h
  · exact Or.inl h
  · rcases List.mem_cons.1 h with h | h
    · exact absurd h hj.2
    · exact Or.inr h

/-- Teardown's write changes neither ownership nor finalizers -/
theorem teardown_write (s : Sys n) (k : Fin n) (cur : AOut) (hcur : s.out k = some cur) (j : Fin n) :
    ownedOut { s with out := upd s.out k (some { cur with phase := .tearingDown }) } j = ownedOut s j := by
  simp only [ownedOut]
  by_cases hjk : j = k
  · subst hjk; simp [hcur]
  · simp [upd, hjk]

theorem ctl_outputs_cons (r : Rules) (hr : GoodRules r) (s : Sys n) (c : Choice) (hs : Safe s)
    (k : Fin n) (o : AOut) (rest : List (Fin n × AOut)) (hpc : s.pc = .outputs ((k, o) :: rest)) :
    Safe (ctlWith r s c) := by
  have hpcI := hs.atPc
  simp only [pcInv, hpc, ids, List.map_cons] at hpcI
  have hx : ∀ e, e ≠ Gen.CleanupExit.destroyOk → ∀ err, Safe (exitLoop r s e k rest err) :=
    fun e he err => safe_exit_drop r hr s e he k rest err hs.guard hs.noBadDestroy hs.noBadPopulate hpcI
  simp only [ctlWith, hpc]
  split
  · exact hx _ (by decide) _
  · split
    · exact hx _ (by decide) _
    · split
      · exact hx _ (by decide) _
      · split
        · exact hx _ (by decide) _
        · rename_i cur hcur
          split
          · rename_i htd
            split
            · exact hx _ (by decide) _
            · refine ⟨hs.guard, hs.noBadDestroy, hs.noBadPopulate, ?_⟩
              simp only [pcInv]
              refine ⟨hpcI, ?_⟩
              intro o' ho' _
              rw [hcur] at ho'
              cases ho'; exact htd
          · split
            · exact hx _ (by decide) _
            · have hown := teardown_write s k cur hcur
              have hg' : ∀ j, ownedOut { s with out := upd s.out k (some { cur with phase := .tearingDown }) } j = true →
                  hasFin { s with out := upd s.out k (some { cur with phase := .tearingDown }) } j = true :=
                fun j hj => hs.guard j (by rw [← hown j]; exact hj)
              have hrel' : relOk { s with out := upd s.out k (some { cur with phase := .tearingDown }) } (k :: ids rest) := by
                intro j hj
                rcases hpcI j hj with h | h
                · exact Or.inl ⟨h.1, by rw [hown j]; exact h.2⟩
                · exact Or.inr h
              split
              · exact safe_exit_drop r hr _ _ (by decide) k rest _ hg' hs.noBadDestroy hs.noBadPopulate hrel'
              · refine ⟨hg', hs.noBadDestroy, hs.noBadPopulate, ?_⟩
                simp only [pcInv]
                refine ⟨hrel', ?_⟩
                intro o' ho' _
                simp only [upd_same, Option.some.injEq] at ho'
                rw [← ho']

theorem ctl_destroy (r : Rules) (hr : GoodRules r) (s : Sys n) (c : Choice) (hs : Safe s)
    (k : Fin n) (rest : List (Fin n × AOut)) (hpc : s.pc = .destroy k rest) :
    Safe (ctlWith r s c) := by
  have hpcI := hs.atPc
  simp only [pcInv, hpc] at hpcI
  obtain ⟨hrel, htd⟩ := hpcI
  have hx : ∀ err, Safe (exitLoop r s .destroyErr k rest err) :=
    fun err => safe_exit_drop r hr s _ (by decide) k rest err hs.guard hs.noBadDestroy hs.noBadPopulate hrel
  simp only [ctlWith, hpc]
  split
  · exact hx _
  · split
    · exact hx _
    · rename_i cur hcur
      split
      · exact hx _
      · rename_i hok
        simp only [Bool.or_eq_true, Bool.not_eq_true', not_or, Bool.not_eq_false, Bool.not_eq_true] at hok
        have hphase : cur.phase = .tearingDown := htd cur hcur hok.1
        simp only [exitLoop]
        refine ⟨?_, ?_, hs.noBadPopulate, ?_⟩
        · intro j hj
          by_cases hjk : j = k
          · subst hjk; simp [ownedOut] at hj
          · have : ownedOut s j = true := by simpa [ownedOut, upd, hjk] using hj
            exact hs.guard j this
        · simp [hs.noBadDestroy, hphase]
        · simp only [pcInv, relOk]
          intro j hj
          have hj' : j ∈ s.rel := by
            split at hj
            · exact hj
            · exact (List.mem_filter.1 hj).1
          by_cases hjk : j = k
          · subst hjk
            exact Or.inl ⟨List.mem_cons_self .., by simp [ownedOut]⟩
          · rcases hrel j hj' with h | h
            · refine Or.inl ⟨List.mem_cons_of_mem _ h.1, ?_⟩
              have := h.2
              simpa [ownedOut, upd, hjk] using this
            · rcases List.mem_cons.1 h with h | h
              · exact absurd h hjk
              · exact Or.inr h

theorem ctl_release_nil (r : Rules) (s : Sys n) (c : Choice) (hs : Safe s) (hpc : s.pc = .release []) :
    Safe (ctlWith r s c) := by
  simp only [ctlWith, hpc]
  exact ⟨hs.guard, hs.noBadDestroy, hs.noBadPopulate, trivial⟩

theorem ctl_release_cons (r : Rules) (s : Sys n) (c : Choice) (hs : Safe s)
    (h : Fin n) (t : List (Fin n)) (hpc : s.pc = .release (h :: t)) :
    Safe (ctlWith r s c) := by
  have hpcI := hs.atPc
  simp only [pcInv, hpc] at hpcI
  have hk : ((h :: t)[c.pick]?).getD h ∈ h :: t := by
    cases hp : (h :: t)[c.pick]? with
    | none => simp
    | some x => simpa using List.mem_of_getElem? hp
  have hrest : ∀ j, j ∈ (h :: t).erase (((h :: t)[c.pick]?).getD h) → j ∈ s.gone ∧ ownedOut s j = false :=
    fun j hj => hpcI j (List.mem_of_mem_erase hj)
  have hkk := hpcI _ hk
  simp only [ctlWith, hpc]
  generalize ((h :: t)[c.pick]?).getD h = k at *
  split
  · exact ⟨hs.guard, hs.noBadDestroy, hs.noBadPopulate, hrest⟩
  · split
    · exact ⟨hs.guard, hs.noBadDestroy, hs.noBadPopulate, hrest⟩
    · rename_i cur hcur
      refine ⟨?_, hs.noBadDestroy, hs.noBadPopulate, hrest⟩
      intro j hj
      have hj' : ownedOut s j = true := hj
      by_cases hjk : j = k
      · subst hjk; rw [hkk.2] at hj'; cases hj'
      · have := hs.guard j hj'
        simpa [hasFin, upd, hjk] using this

/-- every controller action preserves the invariant -/
theorem safe_ctl (r : Rules) (hr : GoodRules r) (s : Sys n) (c : Choice) (hs : Safe s) : Safe (ctlWith r s c) := by
  cases hpc : s.pc with
  | idle => exact ctl_idle r s c hs hpc
  | inputs todo =>
    cases todo with
    | nil => exact ctl_inputs_nil r s c hs hpc
    | cons p rest => obtain ⟨k, i⟩ := p; exact ctl_inputs_cons r hr s c hs k i rest hpc
  | modify k after rest => exact ctl_modify r s c hs k after rest hpc
  | addFin k rest => exact ctl_addFin r s c hs k rest hpc
  | outputs todo =>
    cases todo with
    | nil => exact ctl_outputs_nil r s c hs hpc
    | cons p rest => obtain ⟨k, o⟩ := p; exact ctl_outputs_cons r hr s c hs k o rest hpc
  | destroy k rest => exact ctl_destroy r hr s c hs k rest hpc
  | release todo =>
    cases todo with
    | nil => exact ctl_release_nil r s c hs hpc
    | cons h t => exact ctl_release_cons r s c hs h t hpc

/-- every external action preserves the invariant -/
theorem safe_env (s : Sys n) (e : Env n) (hs : Safe s) : Safe (env s e) := by
  obtain ⟨hpc, hrel, hgone, _, hbd, hbp⟩ := env_frame s e
  refine ⟨fun k hk => env_hasFin s e k (hs.guard k (by rw [← env_ownedOut s e k]; exact hk)),
    by rw [hbd]; exact hs.noBadDestroy, by rw [hbp]; exact hs.noBadPopulate, ?_⟩
  have hI := hs.atPc
  have hrelOk : ∀ pend, relOk s pend → relOk (env s e) pend := by
    intro pend h j hj
    rw [hrel] at hj
    rcases h j hj with h | h
    · exact Or.inl ⟨by rw [hgone]; exact h.1, by rw [env_ownedOut]; exact h.2⟩
    · exact Or.inr h
  have hfinRead : ∀ todo, finRead s todo → finRead (env s e) todo :=
    fun todo h p hp hf => env_hasFin s e _ (h p hp hf)
  unfold pcInv at hI ⊢
  rw [hpc]
  cases hp : s.pc with
  | idle => trivial
  | inputs todo => rw [hp] at hI; exact hfinRead _ hI
  | modify k after todo => rw [hp] at hI; exact ⟨hfinRead _ hI.1, hI.2.1, env_hasFin s e k hI.2.2⟩
  | addFin k todo => rw [hp] at hI; exact hI
  | outputs todo => rw [hp] at hI; exact hrelOk _ hI
  | destroy k todo => rw [hp] at hI; exact ⟨hrelOk _ hI.1, env_outTD s e k hI.2⟩
  | release todo =>
    rw [hp] at hI
    intro j hj
    exact ⟨by rw [hgone]; exact (hI j hj).1, by rw [env_ownedOut]; exact (hI j hj).2⟩

theorem safe_stepWith (r : Rules) (hr : GoodRules r) (s : Sys n) (a : Act n) (hs : Safe s) : Safe (stepWith r s a) := by
  cases a with
  | ctl c => exact safe_ctl r hr s c hs
  | env e => exact safe_env s e hs

theorem safe_runWith (r : Rules) (hr : GoodRules r) (as : List (Act n)) : ∀ s, Safe s → Safe (runWith r s as) := by
  induction as with
  | nil => intro s h; exact h
  | cons a as ih => intro s h; exact ih _ (safe_stepWith r hr s a h)

/-! ### what a single controller action can do to an output / a finalizer (any rules, any state) -/

/-- a controller action makes an owned output disappear only as the Destroy step of cleanupOutputs, and the
    store lets that Destroy succeed only on an output without finalizers -/
theorem ctl_keeps_output (r : Rules) (s : Sys n) (c : Choice) (k : Fin n)
    (h1 : ownedOut s k = true) (h2 : ownedOut (ctlWith r s c) k = false) :
    ∃ rest o, s.pc = .destroy k rest ∧ s.out k = some o ∧ o.owned = true ∧ o.foreign = false := by
  cases hpc : s.pc with
  | idle => simp_all [ctlWith, ownedOut]
  | inputs todo =>
    cases todo with
    | nil => simp_all [ctlWith, ownedOut]
    | cons p rest =>
      obtain ⟨j, i⟩ := p
      simp only [ctlWith, hpc] at h2
      repeat' split at h2
      all_goals simp_all [ownedOut]
  | modify j after rest =>
    simp only [ctlWith, hpc] at h2
    repeat' split at h2
    all_goals (by_cases hjk : k = j)
    all_goals (first | subst hjk | skip)
    all_goals simp_all [ownedOut, upd]
  | addFin j rest =>
    simp only [ctlWith, hpc] at h2
    repeat' split at h2
    all_goals simp_all [ownedOut]
  | outputs todo =>
    cases todo with
    | nil => simp_all [ctlWith, ownedOut]
    | cons p rest =>
      obtain ⟨j, o⟩ := p
      simp only [ctlWith, hpc] at h2
      repeat' split at h2
      all_goals (by_cases hjk : k = j)
      all_goals (first | subst hjk | skip)
      all_goals simp_all [ownedOut, upd, exitLoop]
  | destroy j rest =>
    simp only [ctlWith, hpc] at h2
    repeat' split at h2
    all_goals (by_cases hjk : k = j)
    all_goals (first | subst hjk | skip)
    all_goals simp_all [ownedOut, upd, exitLoop]
  | release todo =>
    cases todo with
    | nil => simp_all [ctlWith, ownedOut]
    | cons h t =>
      simp only [ctlWith, hpc] at h2
      repeat' split at h2
      all_goals simp_all [ownedOut]

/-- a controller action removes the controller's finalizer from an input only as a RemoveFinalizer step of the
    release loop, for an id that is left in removeInputFinalizers -/
theorem ctl_keeps_fin (r : Rules) (s : Sys n) (c : Choice) (k : Fin n)
    (h1 : hasFin s k = true) (h2 : hasFin (ctlWith r s c) k = false) :
    ∃ todo, s.pc = .release todo ∧ k ∈ todo := by
  cases hpc : s.pc with
  | idle => simp_all [ctlWith, hasFin]
  | inputs todo =>
    cases todo with
    | nil => simp_all [ctlWith, hasFin]
    | cons p rest =>
      obtain ⟨j, i⟩ := p
      simp only [ctlWith, hpc] at h2
      repeat' split at h2
      all_goals (by_cases hjk : k = j)
      all_goals (first | subst hjk | skip)
      all_goals simp_all [hasFin, upd]
  | modify j after rest =>
    simp only [ctlWith, hpc] at h2
    repeat' split at h2
    all_goals simp_all [hasFin]
  | addFin j rest =>
    simp only [ctlWith, hpc] at h2
    repeat' split at h2
    all_goals (by_cases hjk : k = j)
    all_goals (first | subst hjk | skip)
    all_goals simp_all [hasFin, upd]
  | outputs todo =>
    cases todo with
    | nil => simp_all [ctlWith, hasFin]
    | cons p rest =>
      obtain ⟨j, o⟩ := p
      simp only [ctlWith, hpc] at h2
      repeat' split at h2
      all_goals simp_all [hasFin, exitLoop]
  | destroy j rest =>
    simp only [ctlWith, hpc] at h2
    repeat' split at h2
    all_goals simp_all [hasFin, exitLoop]
  | release todo =>
    cases todo with
    | nil => simp_all [ctlWith, hasFin]
    | cons h t =>
      refine ⟨_, rfl, ?_⟩
      have hk : ((h :: t)[c.pick]?).getD h ∈ h :: t := by
        cases hp : (h :: t)[c.pick]? with
        | none => simp
        | some x => simpa using List.mem_of_getElem? hp
      simp only [ctlWith, hpc] at h2
      generalize ((h :: t)[c.pick]?).getD h = j at *
      repeat' split at h2
      all_goals (by_cases hjk : k = j)
      all_goals (first | subst hjk | skip)
      all_goals simp_all [hasFin, upd]

/-- the ghost list `gone` grows only by an id whose output the pass's List found absent, or whose output the
    controller has just destroyed -/
theorem gone_meaning (r : Rules) (s : Sys n) (c : Choice) (k : Fin n)
    (h1 : k ∈ (ctlWith r s c).gone) (h2 : k ∉ s.gone) :
    (s.pc = .inputs [] ∧ s.out k = none) ∨ (∃ rest, s.pc = .destroy k rest ∧ (ctlWith r s c).out k = none) := by
  cases hpc : s.pc with
  | idle => simp_all [ctlWith]
  | inputs todo =>
    cases todo with
    | nil =>
      left
      simp only [ctlWith, hpc, List.mem_filter, Option.isNone_iff_eq_none] at h1
      exact ⟨rfl, h1.2⟩
    | cons p rest =>
      obtain ⟨j, i⟩ := p
      simp only [ctlWith, hpc] at h1
      repeat' split at h1
      all_goals simp_all
  | modify j after rest =>
    simp only [ctlWith, hpc] at h1
    repeat' split at h1
    all_goals simp_all
  | addFin j rest =>
    simp only [ctlWith, hpc] at h1
    repeat' split at h1
    all_goals simp_all
  | outputs todo =>
    cases todo with
    | nil => simp_all [ctlWith]
    | cons p rest =>
      obtain ⟨j, o⟩ := p
      simp only [ctlWith, hpc] at h1
      repeat' split at h1
      all_goals simp_all [exitLoop]
  | destroy j rest =>
    right
    simp only [ctlWith, hpc] at h1 ⊢
    repeat' split at h1
    all_goals (repeat' split)
    all_goals simp_all [exitLoop]
  | release todo =>
    cases todo with
    | nil => simp_all [ctlWith]
    | cons h t =>
      simp only [ctlWith, hpc] at h1
      repeat' split at h1
      all_goals simp_all

/-! ### trace inclusion: `TF.writeOk` describes exactly the writes of the machine -/

theorem sameExcept_self {α : Type} [DecidableEq α] (f : Fin n → α) (k : Fin n) : sameExcept f f k = true := by
  simp [sameExcept]

theorem sameExcept_upd {α : Type} [DecidableEq α] (f : Fin n → α) (k : Fin n) (v : α) :
    sameExcept f (upd f k v) k = true := by
  simp only [sameExcept, List.all_eq_true, Bool.or_eq_true, beq_iff_eq]
  intro j _
  by_cases h : j = k
  · exact Or.inl h
  · exact Or.inr (by simp [upd, h])

theorem writeOk_of_writeAt (inp inp' : Fin n → Option AIn) (out out' : Fin n → Option AOut) (k : Fin n)
    (h : writeAt inp inp' out out' k = true) : writeOk inp inp' out out' = true := by
  simp only [writeOk, List.any_eq_true]
  exact ⟨k, TF.mem_allFin k, h⟩

theorem w_addFin (inp : Fin n → Option AIn) (out : Fin n → Option AOut) (k : Fin n) (cur : AIn) (h : inp k = some cur) :
    writeOk inp (upd inp k (some { cur with ctlFin := true })) out out = true := by
  apply writeOk_of_writeAt _ _ _ _ k
  simp [writeAt, sameExcept_self, sameExcept_upd, h]

theorem w_remFin (inp : Fin n → Option AIn) (out : Fin n → Option AOut) (k : Fin n) (cur : AIn) (h : inp k = some cur)
    (hfin : cur.ctlFin = true) (hno : ownedOn out k = false) :
    writeOk inp (upd inp k (some { cur with ctlFin := false })) out out = true := by
  apply writeOk_of_writeAt _ _ _ _ k
  simp [writeAt, sameExcept_self, sameExcept_upd, h, hfin, hno]

theorem w_create (inp : Fin n → Option AIn) (out : Fin n → Option AOut) (k : Fin n) (fr : Bool) (h : out k = none)
    (hfin : finOn inp k = true) :
    writeOk inp inp out (upd out k (some { owned := true, phase := .running, foreign := false, fresh := fr })) = true := by
  apply writeOk_of_writeAt _ _ _ _ k
  simp [writeAt, sameExcept_self, sameExcept_upd, h, hfin]

theorem w_update (inp : Fin n → Option AIn) (out : Fin n → Option AOut) (k : Fin n) (o : AOut) (fr : Bool)
    (h : out k = some o) (hown : o.owned = true) (hph : o.phase = .running) (hfin : finOn inp k = true) :
    writeOk inp inp out (upd out k (some { o with fresh := fr })) = true := by
  apply writeOk_of_writeAt _ _ _ _ k
  simp [writeAt, sameExcept_self, sameExcept_upd, h, hfin, hown, hph]

theorem w_teardown (inp : Fin n → Option AIn) (out : Fin n → Option AOut) (k : Fin n) (o : AOut)
    (h : out k = some o) (hown : o.owned = true) (hph : o.phase = .running) :
    writeOk inp inp out (upd out k (some { o with phase := .tearingDown })) = true := by
  apply writeOk_of_writeAt _ _ _ _ k
  simp [writeAt, sameExcept_self, sameExcept_upd, h, hown, hph]

theorem w_destroy (inp : Fin n → Option AIn) (out : Fin n → Option AOut) (k : Fin n) (o : AOut)
    (h : out k = some o) (hown : o.owned = true) (hph : o.phase = .tearingDown) (hfor : o.foreign = false) :
    writeOk inp inp out (upd out k none) = true := by
  apply writeOk_of_writeAt _ _ _ _ k
  simp [writeAt, sameExcept_self, sameExcept_upd, h, hown, hph, hfor]

/-- the action changed nothing in the store -/
def Unch (s s' : Sys n) : Prop := ∀ j, s'.inp j = s.inp j ∧ s'.out j = s.out j

theorem ph_running_of_ne {p : Ph} (h : ¬ p = .tearingDown) : p = .running := by
  cases p <;> simp_all

/-- **soundness of the trace check**: whatever a controller action does to the store from a state satisfying the
    invariant — under ANY rules — is no change at all or passes `writeOk`. So a recorded controller write that
    fails `writeOk` is not a write of this machine from any state the invariant allows. -/
theorem machine_writes_ok (r : Rules) (s : Sys n) (c : Choice) (hs : Safe s) :
    Unch s (ctlWith r s c) ∨
    writeOk s.inp (ctlWith r s c).inp s.out (ctlWith r s c).out = true := by
  have hI := hs.atPc
  cases hpc : s.pc with
  | idle => left; simp only [ctlWith, hpc]; exact fun j => ⟨rfl, rfl⟩
  | inputs todo =>
    cases todo with
    | nil => left; simp only [ctlWith, hpc]; exact fun j => ⟨rfl, rfl⟩
    | cons p rest =>
      obtain ⟨k, i⟩ := p
      simp only [ctlWith, hpc]
      split
      · exact Or.inl fun j => ⟨rfl, rfl⟩
      · split
        · split
          · exact Or.inl fun j => ⟨rfl, rfl⟩
          · rename_i cur hcur
            split
            · exact Or.inl fun j => ⟨rfl, rfl⟩
            · exact Or.inr (w_addFin s.inp s.out k cur hcur)
        · exact Or.inl fun j => ⟨rfl, rfl⟩
  | modify k after rest =>
    simp only [pcInv, hpc] at hI
    have hfin : finOn s.inp k = true := hI.2.2
    simp only [ctlWith, hpc]
    split
    · exact Or.inl fun j => ⟨rfl, rfl⟩
    · split
      · rename_i hnone
        exact Or.inr (w_create s.inp s.out k _ hnone hfin)
      · rename_i o ho
        split
        · exact Or.inl fun j => ⟨rfl, rfl⟩
        · rename_i hown
          split
          · exact Or.inl fun j => ⟨rfl, rfl⟩
          · rename_i hph
            exact Or.inr (w_update s.inp s.out k o _ ho (by simpa using hown) (ph_running_of_ne hph) hfin)
  | addFin k rest =>
    simp only [ctlWith, hpc]
    split
    · exact Or.inl fun j => ⟨rfl, rfl⟩
    · rename_i cur hcur
      split
      · exact Or.inl fun j => ⟨rfl, rfl⟩
      · exact Or.inr (w_addFin s.inp s.out k cur hcur)
  | outputs todo =>
    cases todo with
    | nil => left; simp only [ctlWith, hpc]; exact fun j => ⟨rfl, rfl⟩
    | cons p rest =>
      obtain ⟨k, o⟩ := p
      simp only [ctlWith, hpc, exitLoop]
      split
      · exact Or.inl fun j => ⟨rfl, rfl⟩
      · split
        · exact Or.inl fun j => ⟨rfl, rfl⟩
        · split
          · exact Or.inl fun j => ⟨rfl, rfl⟩
          · split
            · exact Or.inl fun j => ⟨rfl, rfl⟩
            · rename_i cur hcur
              split
              · split
                · exact Or.inl fun j => ⟨rfl, rfl⟩
                · exact Or.inl fun j => ⟨rfl, rfl⟩
              · rename_i hph
                split
                · exact Or.inl fun j => ⟨rfl, rfl⟩
                · rename_i hown
                  have hw := w_teardown s.inp s.out k cur hcur (by simpa using hown) (ph_running_of_ne hph)
                  split
                  · exact Or.inr hw
                  · exact Or.inr hw
  | destroy k rest =>
    simp only [pcInv, hpc] at hI
    simp only [ctlWith, hpc, exitLoop]
    split
    · exact Or.inl fun j => ⟨rfl, rfl⟩
    · split
      · exact Or.inl fun j => ⟨rfl, rfl⟩
      · rename_i cur hcur
        split
        · exact Or.inl fun j => ⟨rfl, rfl⟩
        · rename_i hok
          simp only [Bool.or_eq_true, Bool.not_eq_true', not_or, Bool.not_eq_false, Bool.not_eq_true] at hok
          exact Or.inr (w_destroy s.inp s.out k cur hcur hok.1 (hI.2 cur hcur hok.1) hok.2)
  | release todo =>
    cases todo with
    | nil => left; simp only [ctlWith, hpc]; exact fun j => ⟨rfl, rfl⟩
    | cons h t =>
      simp only [pcInv, hpc] at hI
      have hk : ((h :: t)[c.pick]?).getD h ∈ h :: t := by
        cases hp : (h :: t)[c.pick]? with
        | none => simp
        | some x => simpa using List.mem_of_getElem? hp
      have hkk := (hI _ hk).2
      simp only [ctlWith, hpc]
      generalize ((h :: t)[c.pick]?).getD h = k at *
      split
      · exact Or.inl fun j => ⟨rfl, rfl⟩
      · split
        · exact Or.inl fun j => ⟨rfl, rfl⟩
        · rename_i cur hcur
          cases hf : cur.ctlFin with
          | true => exact Or.inr (w_remFin s.inp s.out k cur hcur hf hkk)
          | false =>
            left
            intro j
            refine ⟨?_, rfl⟩
            by_cases hjk : j = k
            · subst hjk
              obtain ⟨ph, cf, fo⟩ := cur
              simp only at hf
              subst hf
              simp [hcur]
            · simp [upd, hjk]

theorem upd_eq_of_sameExcept {α : Type} [DecidableEq α] (f g : Fin n → α) (k : Fin n) (v : α)
    (h : sameExcept f g k = true) (hv : g k = v) : upd f k v = g := by
  funext j
  simp only [sameExcept, List.all_eq_true, Bool.or_eq_true, beq_iff_eq] at h
  by_cases hj : j = k
  · subst hj; simp [hv]
  · rcases h j (TF.mem_allFin j) with h | h
    · exact absurd h hj
    · simp [upd, hj, h]

theorem eq_of_sameExcept {α : Type} [DecidableEq α] (f g : Fin n → α) (k : Fin n)
    (h : sameExcept f g k = true) (hv : f k = g k) : g = f := by
  funext j
  simp only [sameExcept, List.all_eq_true, Bool.or_eq_true, beq_iff_eq] at h
  by_cases hj : j = k
  · subst hj; exact hv.symm
  · rcases h j (TF.mem_allFin j) with h | h
    · exact absurd h hj
    · exact h.symm

/-- **completeness of the trace check**: on a store satisfying the finalizer guard, every change that passes
    `writeOk` IS made by some controller action from some pass state satisfying the invariant. -/
theorem writeOk_is_machine_write (r : Rules) (hr : GoodRules r)
    (inp inp' : Fin n → Option AIn) (out out' : Fin n → Option AOut)
    (hg : ∀ k, ownedOn out k = true → finOn inp k = true) (hw : writeOk inp inp' out out' = true) :
    ∃ (s : Sys n) (c : Choice), Safe s ∧ s.inp = inp ∧ s.out = out ∧
      (ctlWith r s c).inp = inp' ∧ (ctlWith r s c).out = out' := by
  simp only [writeOk, List.any_eq_true] at hw
  obtain ⟨k, _, hk⟩ := hw
  simp only [writeAt, Bool.and_eq_true, Bool.or_eq_true, beq_iff_eq] at hk
  obtain ⟨⟨hsi, hso⟩, hk⟩ := hk
  have hpop : ∀ fin, r.populates .running fin true = false := by
    intro fin
    cases hp : r.populates .running fin true with
    | false => rfl
    | true => exact absurd (hr.populates _ _ _ hp).1 (by decide)
  rcases hk with ⟨hout, hk⟩ | ⟨hinp, hk⟩
  · -- a write to input k
    have hout' : out' = out := eq_of_sameExcept out out' k hso hout
    cases hi : inp k with
    | none => simp [hi] at hk
    | some i =>
      cases hi' : inp' k with
      | none => simp [hi, hi'] at hk
      | some i' =>
        simp only [hi, hi', Bool.or_eq_true, beq_iff_eq, Bool.and_eq_true, Bool.not_eq_true'] at hk
        rcases hk with hadd | ⟨⟨hfin, hrem⟩, hno⟩
        · -- AddFinalizer
          refine ⟨{ inp := inp, out := out, pc := .inputs [(k, ⟨.running, false, false⟩)] }, {}, ?_, rfl, rfl, ?_, ?_⟩
          · exact ⟨hg, rfl, rfl, fun p hp hf => by simp at hp; subst hp; cases hf⟩
          · simp only [ctlWith, hpop, hr.finFirst, hi]
            simp
            exact upd_eq_of_sameExcept inp inp' k _ hsi (by rw [hi', hadd])
          · simp only [ctlWith, hpop, hr.finFirst, hi]
            simp [hout']
        · -- RemoveFinalizer
          refine ⟨{ inp := inp, out := out, pc := .release [k], gone := [k] }, {}, ?_, rfl, rfl, ?_, ?_⟩
          · refine ⟨hg, rfl, rfl, ?_⟩
            intro j hj
            simp at hj; subst hj
            exact ⟨by simp, hno⟩
          · simp only [ctlWith]
            simp [hi]
            exact upd_eq_of_sameExcept inp inp' k _ hsi (by rw [hi', hrem])
          · simp only [ctlWith]
            simp [hi, hout']
  · -- a write to output k
    have hinp' : inp' = inp := eq_of_sameExcept inp inp' k hsi hinp
    cases ho : out k with
    | none =>
      cases ho' : out' k with
      | none => simp [ho, ho'] at hk
      | some o' =>
        simp only [ho, ho', Bool.and_eq_true, beq_iff_eq, Bool.not_eq_true'] at hk
        obtain ⟨⟨⟨hown, hph⟩, hfor⟩, hfin⟩ := hk
        have hsome : (inp k).isSome = true := by
          simp only [finOn] at hfin
          cases hik : inp k with
          | none => simp [hik] at hfin
          | some _ => rfl
        refine ⟨{ inp := inp, out := out, pc := .modify k false [], staleRead := fun _ => !o'.fresh }, {}, ?_, rfl, rfl, ?_, ?_⟩
        · exact ⟨hg, rfl, rfl, ⟨(fun p hp => by cases hp), rfl, hfin⟩⟩
        · simp only [ctlWith]
          simp [ho, hinp']
        · simp only [ctlWith]
          simp [ho, writesFresh, hsome]
          apply upd_eq_of_sameExcept out out' k _ hso
          rw [ho']
          obtain ⟨a, b, c', d⟩ := o'
          simp_all
    | some o =>
      cases ho' : out' k with
      | none =>
        -- Destroy
        simp only [ho, ho', Bool.and_eq_true, beq_iff_eq, Bool.not_eq_true'] at hk
        obtain ⟨⟨hown, hph⟩, hfor⟩ := hk
        refine ⟨{ inp := inp, out := out, pc := .destroy k [] }, {}, ?_, rfl, rfl, ?_, ?_⟩
        · refine ⟨hg, rfl, rfl, ?_, ?_⟩
          · intro j hj; cases hj
          · intro o2 ho2 _
            have : o2 = o := by
              have h2 : out k = some o2 := ho2
              rw [ho] at h2; cases h2; rfl
            rw [this]; exact hph
        · simp only [ctlWith]
          simp [ho, hown, hfor, exitLoop, hinp']
        · simp only [ctlWith]
          simp [ho, hown, hfor, exitLoop]
          exact upd_eq_of_sameExcept out out' k _ hso ho'
      | some o' =>
        simp only [ho, ho', Bool.and_eq_true, Bool.or_eq_true, beq_iff_eq] at hk
        obtain ⟨⟨hown, hph⟩, hk⟩ := hk
        rcases hk with ⟨hupd, hfin⟩ | htd
        · -- Modify updates
          have hsome : (inp k).isSome = true := by
            simp only [finOn] at hfin
            cases hik : inp k with
            | none => simp [hik] at hfin
            | some _ => rfl
          refine ⟨{ inp := inp, out := out, pc := .modify k false [], staleRead := fun _ => !o'.fresh }, {}, ?_, rfl, rfl, ?_, ?_⟩
          · exact ⟨hg, rfl, rfl, ⟨(fun p hp => by cases hp), rfl, hfin⟩⟩
          · simp only [ctlWith]
            simp [ho, hown, hph, hinp']
          · simp only [ctlWith]
            simp [ho, hown, hph, writesFresh, hsome]
            apply upd_eq_of_sameExcept out out' k _ hso
            rw [ho', hupd]
            simp [hown, hph]
        · -- Teardown
          refine ⟨{ inp := inp, out := out, pc := .outputs [(k, o)] }, {}, ?_, rfl, rfl, ?_, ?_⟩
          · refine ⟨hg, rfl, rfl, ?_⟩
            intro j hj; cases hj
          · simp only [ctlWith]
            simp [ho, hown, hph, exitLoop]
            split <;> simp [hinp']
          · simp only [ctlWith]
            simp [ho, hown, hph, exitLoop]
            have := upd_eq_of_sameExcept out out' k _ hso (by rw [ho', htd])
            simp only [hown] at this
            split <;> simpa using this

/-! ### C07 for the machine of the CURRENT source text (`step = stepWith genRules`) -/

/-- the regenerated rules are the good ones (fails when the source text deviates) -/
macro "rules_ok" : tactic =>
  `(tactic| exact ⟨by intro e he; cases e <;> first | rfl | exact absurd rfl he, by rfl,
      by intro ph fin ok h; cases ph <;> cases fin <;> cases ok <;>
          first | exact ⟨rfl, rfl, rfl⟩ | exact absurd h (by decide)⟩)

theorem genRules_good : GoodRules genRules := by rules_ok


theorem init_safe (n : Nat) : Safe (init n) :=
  ⟨fun k hk => by simp [ownedOut, init] at hk, rfl, rfl, trivial⟩

/-- the invariant holds after EVERY schedule of controller actions, callback outcomes, helper failures,
    map-iteration orders and external actions -/
theorem safe_run (s0 : Sys n) (h0 : Safe s0) (as : List (Act n)) : Safe (run s0 as) :=
  safe_runWith genRules (by rules_ok) as s0 h0

/-- **fin_before_output**: at every instant of every execution, if an output owned by the controller exists then
    its input exists and carries the controller's finalizer — so the finalizer is on the input before the output
    first exists -/
theorem fin_before_output (s0 : Sys n) (h0 : Safe s0) (as : List (Act n)) (k : Fin n) (o : AOut)
    (ho : (run s0 as).out k = some o) (hown : o.owned = true) :
    ∃ i, (run s0 as).inp k = some i ∧ i.ctlFin = true := by
  have hs : Safe (run s0 as) := safe_runWith genRules (by rules_ok) as s0 h0
  have h := hs.guard k (by simp [ownedOut, ho, hown])
  unfold hasFin at h
  cases hi : (run s0 as).inp k with
  | none => rw [hi] at h; cases h
  | some i => rw [hi] at h; exact ⟨i, rfl, h⟩

/-- **fin_until_output_gone**: in a reachable state in which the controller's output exists, NO action — of the
    controller or of anybody else — takes the controller's finalizer off the input: it stays until after the
    output has been destroyed -/
theorem fin_until_output_gone (s0 : Sys n) (h0 : Safe s0) (as : List (Act n)) (k : Fin n) (a : Act n)
    (hout : ownedOut (run s0 as) k = true) : hasFin (step (run s0 as) a) k = true := by
  have hs : Safe (run s0 as) := safe_runWith genRules (by rules_ok) as s0 h0
  have hfin := hs.guard k hout
  cases a with
  | env e => exact env_hasFin _ e k hfin
  | ctl c =>
    cases hf : hasFin (step (run s0 as) (.ctl c)) k with
    | true => rfl
    | false =>
      obtain ⟨todo, hpc, hk⟩ := ctl_keeps_fin genRules (run s0 as) c k hfin hf
      have hI := hs.atPc
      simp only [pcInv, hpc] at hI
      have := (hI k hk).2
      rw [this] at hout; cases hout

/-- **destroy_after_teardown_and_empty**: whenever an action of the controller makes one of its outputs
    disappear, that output was — in the store, at that moment — tearing down (the machine calls Destroy only after
    its Teardown, and nobody can undo a teardown) with an empty finalizer set (the store's own Destroy check) -/
theorem destroy_after_teardown_and_empty (s0 : Sys n) (h0 : Safe s0) (as : List (Act n)) (k : Fin n) (c : Choice)
    (h1 : ownedOut (run s0 as) k = true) (h2 : ownedOut (step (run s0 as) (.ctl c)) k = false) :
    ∃ o, (run s0 as).out k = some o ∧ o.phase = .tearingDown ∧ o.foreign = false := by
  have hs : Safe (run s0 as) := safe_runWith genRules (by rules_ok) as s0 h0
  obtain ⟨rest, o, hpc, ho, hown, hfor⟩ := ctl_keeps_output genRules (run s0 as) c k h1 h2
  have hI := hs.atPc
  simp only [pcInv, hpc] at hI
  exact ⟨o, ho, hI.2 o ho hown, hfor⟩

/-- the same as a ghost flag: in no execution does the controller destroy an output that is not tearing down -/
theorem never_bad_destroy (s0 : Sys n) (h0 : Safe s0) (as : List (Act n)) : (run s0 as).badDestroy = false :=
  (safe_runWith genRules (by rules_ok) as s0 h0).noBadDestroy

/-- **release_only_after_output_gone**: every id the release loop is about to call RemoveFinalizer for had its
    output found absent by this pass's List or destroyed by the controller in this pass (`gone`, see
    `gone_meaning`), and the output is still not there -/
theorem release_only_after_output_gone (s0 : Sys n) (h0 : Safe s0) (as : List (Act n)) (todo : List (Fin n))
    (hpc : (run s0 as).pc = .release todo) (k : Fin n) (hk : k ∈ todo) :
    k ∈ (run s0 as).gone ∧ ownedOut (run s0 as) k = false := by
  have hs : Safe (run s0 as) := safe_runWith genRules (by rules_ok) as s0 h0
  have hI := hs.atPc
  simp only [pcInv, hpc] at hI
  exact hI k hk

/-- … and as a statement about the write itself: a controller action that takes the finalizer off input `k`
    happens in a state where output `k` does not exist and was seen gone in this pass -/
theorem release_write_after_output_gone (s0 : Sys n) (h0 : Safe s0) (as : List (Act n)) (k : Fin n) (c : Choice)
    (h1 : hasFin (run s0 as) k = true) (h2 : hasFin (step (run s0 as) (.ctl c)) k = false) :
    k ∈ (run s0 as).gone ∧ ownedOut (run s0 as) k = false := by
  obtain ⟨todo, hpc, hk⟩ := ctl_keeps_fin genRules (run s0 as) c k h1 h2
  exact release_only_after_output_gone s0 h0 as todo hpc k hk

/-- only inputs READ tearing down, carrying the finalizer, whose FinalizerRemovalFunc returned nil are ever
    entered into removeInputFinalizers (the transform controller's counterpart of `cleanup_release_after_handler`) -/
theorem release_only_after_removal_func (s0 : Sys n) (h0 : Safe s0) (as : List (Act n)) :
    (run s0 as).badPopulate = false :=
  (safe_runWith genRules (by rules_ok) as s0 h0).noBadPopulate

/-- **input_outlives_output**: an input never disappears while an output derived from it exists -/
theorem input_outlives_output (s0 : Sys n) (h0 : Safe s0) (as : List (Act n)) (k : Fin n)
    (hi : (run s0 as).inp k = none) : ownedOut (run s0 as) k = false := by
  cases ho : ownedOut (run s0 as) k with
  | false => rfl
  | true =>
    have h := (safe_run s0 h0 as).guard k ho
    simp [hasFin, hi] at h

def c : Act 2 := .ctl {}

/-- two inputs are created and transformed (one full pass); input 0 is torn down; the next pass enters it into
    removeInputFinalizers and tears output 0 down (ready); a foreign finalizer lands on output 0 between that
    Teardown and the Destroy; the Destroy fails with the pending-finalizers conflict -/
def raceSched : List (Act 2) :=
  [.env (.createIn 0 false), .env (.createIn 1 false),
   c, c, c, c, c,          -- List inputs; AddFinalizer 0; Modify 0; AddFinalizer 1; Modify 1
   c, c, c, c, c,          -- List outputs; 0 touched; 1 touched; nothing to release; idle
   .env (.teardownIn 0),
   c, c, c, c,             -- List inputs; 0 tearing down → removeInputFinalizers; 1 has the finalizer; Modify 1
   c, c,                   -- List outputs; Teardown(out 0): ready
   .env (.setForeignOut 0 true),
   c,                      -- Destroy(out 0) fails: pending finalizers
   c, c, c]                -- 1 touched; release loop; RemoveFinalizer(whatever is left)

/-! ### non-vacuity -/

/-- a reachable state with an output present, its input tearing down and a foreign finalizer on the output,
    in the middle of cleanupOutputs (about to Destroy) -/
example :
    let s := run (init 2) (raceSched.take 20)
    s.out 0 = some ⟨true, .tearingDown, true, true⟩ ∧ s.inp 0 = some ⟨.tearingDown, true, false⟩ ∧
    s.pc = .destroy 0 [(1, ⟨true, .running, false, true⟩)] ∧ s.rel = [0] := by decide

/-- the whole lifecycle: created, transformed, torn down, output destroyed, finalizer released, input destroyed -/
example :
    let s := run (init 2) [.env (.createIn 0 false), c, c, c, c, c, c, c, .env (.teardownIn 0),
                           c, c, c, c, c, c, c, c, .env (.destroyIn 0)]
    s.inp 0 = none ∧ s.out 0 = none ∧ s.pc = .idle := by decide

/-- the hypotheses of the step theorems are satisfiable: the release write and the destroy write both occur -/
example :
    let s := run (init 2) [.env (.createIn 0 false), c, c, c, c, c, c, c, .env (.teardownIn 0), c, c, c, c]
    ownedOut s 0 = true ∧ ownedOut (step s c) 0 = false ∧ hasFin (step (step s c) c) 0 = true ∧
    hasFin (step (step (step s c) c) c) 0 = false := by decide

/-! ### the seeded rules break the invariant (kernel-checked) -/

/-- the exit table of seeded change C07-a: a conflict from Destroy(output) leaves the loop body through a new
    `continue` that does NOT delete the id from removeInputFinalizers — the Destroy-error exit keeps the release -/
def c07aRules : Rules := { goodRules with keepsRelease := fun e => e == .destroyOk || e == .destroyErr }

/-- finalizer after Modify (the Transform analogue of C06-a) -/
def finLateRules : Rules := { goodRules with finFirst := false }

/-- removeInputFinalizers populated without waiting for the FinalizerRemovalFunc -/
def eagerReleaseRules : Rules := { goodRules with populates := fun ph fin _ => ph == .tearingDown && fin }

/-- **C07-a witness**: with the seeded exit table the finalizer is taken off input 0 although output 0 still
    exists; the input can then be destroyed while its output exists -/
theorem c07a_witness :
    ownedOut (runWith c07aRules (init 2) raceSched) 0 = true ∧ hasFin (runWith c07aRules (init 2) raceSched) 0 = false ∧
    (runWith c07aRules (init 2) (raceSched ++ [.env (.destroyIn 0)])).inp 0 = none ∧
    ownedOut (runWith c07aRules (init 2) (raceSched ++ [.env (.destroyIn 0)])) 0 = true := by decide

/-- the same schedule with the rules of the unchanged tree: the finalizer stays, the input cannot be destroyed -/
theorem c07a_schedule_safe_on_good_rules :
    ownedOut (runWith goodRules (init 2) raceSched) 0 = true ∧ hasFin (runWith goodRules (init 2) raceSched) 0 = true ∧
    (runWith goodRules (init 2) (raceSched ++ [.env (.destroyIn 0)])).inp 0 ≠ none := by decide

/-- finalizer after Modify: the input is destroyed between the List and the (late) AddFinalizer, the output stays -/
theorem fin_late_witness :
    let sched : List (Act 2) := [.env (.createIn 0 false), c, c, c, .env (.teardownIn 0), .env (.destroyIn 0)]
    (runWith finLateRules (init 2) sched).inp 0 = none ∧ ownedOut (runWith finLateRules (init 2) sched) 0 = true := by
  decide

/-- release entered although the FinalizerRemovalFunc failed: the ghost flag is raised -/
theorem eager_release_witness :
    let sched : List (Act 2) := [.env (.createIn 0 false), c, c, c, c, c, c, c, .env (.teardownIn 0), c, .ctl { frf := false }]
    (runWith eagerReleaseRules (init 2) sched).badPopulate = true ∧
    (runWith goodRules (init 2) sched).badPopulate = false := by decide

end Cosi.C07T
