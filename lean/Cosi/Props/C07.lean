/-
  Property C07 — finalizer ordering safety in controller-driven lifecycles.

  Two layers:
  * theorems about the QTransform machine (Cosi.Model.QTransform: the controller's reads and
    helper calls as atomic actions — justified by C04 — interleaved in ANY order with every
    external action C07's environment assumption allows), whose structure is tied to
    qtransform.go by regenerated facts (`machine_follows_source`);
  * the same predicates as executable monitors (Cosi.Model.CtrlMonitor) evaluated by the
    engine `ctrl` on every prefix of the REAL totally ordered write log of the real
    Transform / QTransform / Cleanup / Destroy controllers running in the real runtime.

    safe_run                         the invariant holds after every schedule
    fin_before_output                an output of the controller exists only while the input exists and
    fin_until_output_gone            carries the controller's finalizer (both directions of the lifecycle)
    destroy_after_teardown_and_empty the controller destroys an output only in phase tearing-down with no finalizer
    input_outlives_output            the input never disappears while an output derived from it exists
    release_only_without_output      the finalizer is released only in a state where the output is gone
    d7_witness                       with the finalizer rule of the tree before the `fix:` commit
                                     (`!Has && Phase == Running`) and WithIgnoreTeardownUntil, an output is
                                     created for an input that does not carry the finalizer (kernel-checked)

  The cleanup controller's clause (`cleanup_release_after_handler`) is checked by the monitor on
  the real write log only (no machine model here).
-/
import Cosi.Model.QTransform
import Cosi.Model.CtrlMonitor

namespace Cosi.C07
open Cosi Cosi.QT

/-- the input currently carries the controller's finalizer -/
def hasFin (s : Sys) : Bool :=
  match s.p.inp with
  | some i => i.ctlFin
  | none => false

def outTD (s : Sys) : Bool :=
  match s.p.out with
  | some o => o.phase == .tearingDown
  | none => true

/-- the safety invariant (decidable): the C07 clauses plus what the controller may rely on
    at each program point -/
def safe (s : Sys) : Bool :=
  (s.p.out.isNone || hasFin s) &&
  !s.badDestroy &&
  (match s.pc with
    | .idle => true
    | .gotIn i => !i.ctlFin || hasFin s
    | .needOut _ => hasFin s
    | .destroyStale _ => hasFin s && outTD s
    | .modify _ => hasFin s
    | .tdTeardown _ => true
    | .tdDestroy _ => outTD s
    | .tdRelease _ => s.p.out.isNone)

/-- **The machine follows the source**: the regenerated structure of qtransform.go is the one
    the machine transcribes — the finalizer is added whenever it is missing, before a
    tearing-down output is finished and before Modify; on teardown: Teardown(out), NotFound
    releases, not ready waits, Destroy(out), only then RemoveFinalizer(in). -/
theorem machine_follows_source :
    Gen.Ctrl.addFinalizer = .whenMissing ∧ Gen.Ctrl.runningOrder = true ∧
    Gen.Ctrl.tearingOrder = true ∧ Gen.Ctrl.staleOutputRule = true := by decide

theorem addsFin_eq (i : AIn) : addsFin i = !i.ctlFin := by
  simp [addsFin, Gen.Ctrl.addFinalizer]

set_option maxRecDepth 2000 in
theorem safe_ctl (s : Sys) (h : safe s = true) : safe (ctl s) = true := by
  obtain ⟨⟨inp, out⟩, pc, last, ign, bad, rs⟩ := s
  cases pc <;> cases inp <;> cases out <;>
    simp_all [safe, ctl, hasFin, outTD, treatRunning, addsFin_eq] <;>
    (repeat' split) <;> simp_all [hasFin, outTD] <;> (subst_vars; simp_all)

theorem safe_env (s : Sys) (e : Env) (h : safe s = true) : safe (env s e) = true := by
  obtain ⟨⟨inp, out⟩, pc, last, ign, bad, rs⟩ := s
  cases e <;> cases pc <;> cases inp <;> cases out <;>
    simp_all [safe, env, hasFin, outTD] <;>
    (repeat' split) <;> simp_all [hasFin, outTD]

theorem safe_step (s : Sys) (a : Act) (h : safe s = true) : safe (QT.step s a) = true := by
  cases a with
  | ctl => exact safe_ctl s h
  | env e => exact safe_env s e h

/-- the invariant holds after EVERY schedule of controller actions and external actions -/
theorem safe_run (as : List Act) : ∀ s, safe s = true → safe (QT.run s as) = true := by
  induction as with
  | nil => intro s h; exact h
  | cons a as ih => intro s h; exact ih _ (safe_step s a h)

/-- start: no input, no output (or any idle state in which the guard holds) -/
theorem safe_init (ign : Bool) : safe { p := ⟨none, none⟩, ignoreTeardown := ign } = true := by
  cases ign <;> rfl

/-- **fin_before_output / fin_until_output_gone**: at every instant of every execution, if
    the controller's output exists then its input exists and carries the controller's
    finalizer — so the finalizer is there before the output first exists and stays until
    after the output has been destroyed. -/
theorem fin_before_output (s0 : Sys) (h0 : safe s0 = true) (as : List Act) (o : AOut)
    (ho : (QT.run s0 as).p.out = some o) : ∃ i, (QT.run s0 as).p.inp = some i ∧ i.ctlFin = true := by
  have h := safe_run as s0 h0
  unfold safe at h
  simp only [Bool.and_eq_true, Bool.or_eq_true] at h
  rcases h.1.1 with h1 | h1
  · rw [ho] at h1; cases h1
  · unfold hasFin at h1
    cases hi : (QT.run s0 as).p.inp with
    | none => rw [hi] at h1; cases h1
    | some i => rw [hi] at h1; exact ⟨i, rfl, h1⟩

/-- **input_outlives_output**: an input never disappears while an output derived from it exists -/
theorem input_outlives_output (s0 : Sys) (h0 : safe s0 = true) (as : List Act)
    (hi : (QT.run s0 as).p.inp = none) : (QT.run s0 as).p.out = none := by
  cases ho : (QT.run s0 as).p.out with
  | none => rfl
  | some o =>
    obtain ⟨i, hi', _⟩ := fin_before_output s0 h0 as o ho
    rw [hi] at hi'; cases hi'

/-- **destroy_after_teardown_and_empty**: in no execution does the controller destroy an
    output that is not tearing down (ghost flag `badDestroy`), and its Destroy succeeds only
    without foreign finalizers (store semantics, built into `ctl`). -/
theorem destroy_after_teardown_and_empty (s0 : Sys) (h0 : safe s0 = true) (as : List Act) :
    (QT.run s0 as).badDestroy = false := by
  have h := safe_run as s0 h0
  unfold safe at h
  simp only [Bool.and_eq_true, Bool.not_eq_true'] at h
  exact h.1.2

/-- the finalizer is released (`tdRelease` → RemoveFinalizer) only in a state where the
    output is gone, and nobody else re-creates it -/
theorem release_only_without_output (s0 : Sys) (h0 : safe s0 = true) (as : List Act) (i : AIn)
    (hpc : (QT.run s0 as).pc = .tdRelease i) : (QT.run s0 as).p.out = none := by
  have h := safe_run as s0 h0
  unfold safe at h
  rw [hpc] at h
  simp only [Bool.and_eq_true] at h
  cases ho : (QT.run s0 as).p.out with
  | none => rfl
  | some o => rw [ho] at h; simp at h

/-- **Every write of the machine is a `writeOk` write** (soundness of the trace-inclusion check the
    driver runs on the recorded write logs of the real QTransform controller): from a state satisfying the
    invariant, whatever a controller action does to the pair passes `QT.writeOk`. -/
theorem qt_machine_writes_ok (s : Sys) (h : safe s = true) : QT.writeOk s.p (ctl s).p = true := by
  rcases s with ⟨⟨inp, out⟩, pc, last, ign, bad, rs⟩
  rcases inp with _ | ⟨iph, icf, ifo⟩ <;> rcases out with _ | ⟨oph, ofo, ofr⟩ <;> cases pc <;>
    simp_all [safe, ctl, hasFin, outTD, treatRunning, addsFin_eq, QT.writeOk] <;>
    (repeat' split) <;> (try simp_all [hasFin, outTD, QT.writeOk]) <;> (try (subst_vars; simp_all))
  all_goals (first | (cases oph <;> simp_all <;> done) | (cases icf <;> simp_all <;> done))

/-- … on every schedule: each controller action of each execution from a safe state is a `writeOk` write -/
theorem qt_every_ctl_write_ok (s0 : Sys) (h0 : safe s0 = true) (as : List Act) :
    QT.writeOk (QT.run s0 as).p (ctl (QT.run s0 as)).p = true :=
  qt_machine_writes_ok _ (safe_run as s0 h0)

/-- **Every write of the machine is a `writeOk` write** (soundness of the trace-inclusion check the
    driver runs on the recorded write logs of the real QTransform controller): from a state satisfying the
    invariant, whatever a controller action does to the pair passes `QT.writeOk`. -/
theorem qt_writeOk_rejects :
    QT.writeOk ⟨some ⟨.tearingDown, true, false⟩, some ⟨.tearingDown, true, true⟩⟩
               ⟨some ⟨.tearingDown, false, false⟩, some ⟨.tearingDown, true, true⟩⟩ = false ∧
    QT.writeOk ⟨some ⟨.running, false, false⟩, none⟩ ⟨some ⟨.running, false, false⟩, some ⟨.running, false, true⟩⟩ = false ∧
    QT.writeOk ⟨some ⟨.running, true, false⟩, some ⟨.running, false, true⟩⟩ ⟨some ⟨.running, true, false⟩, none⟩ = false := by
  decide

/-! ### the monitors evaluated on the real write log are these predicates -/

/-- on a store holding one input/output pair, the executable monitor `finGuardsOutput` says
    exactly `out exists ∧ owned by the controller → input exists ∧ carries the finalizer` -/
theorem monitor_meaning (c : Ctrl.Cfg) (s : Store) (h : Ctrl.finGuardsOutput c s = true) (k : Key) (o : Res)
    (hm : (k, o) ∈ s) (ht : o.typ = "COut") (hown : o.owner = c.name) :
    ∃ i, s.get (Ctrl.inKey o.id) = some i ∧ i.fins.contains c.name = true := by
  unfold Ctrl.finGuardsOutput at h
  rw [List.all_eq_true] at h
  have := h (k, o) hm
  simp only [ht, hown, beq_self_eq_true, Bool.and_self, Bool.not_true, Bool.false_or] at this
  cases hg : s.get (Ctrl.inKey o.id) with
  | none => rw [hg] at this; cases this
  | some i => rw [hg] at this; exact ⟨i, rfl, this⟩

/-! ### D7: the finalizer rule of the tree before the fix -/

/-- the controller action with an explicit finalizer rule (the machine above is this with the
    regenerated rule) -/
def addsFinOld (i : AIn) : Bool := !i.ctlFin && i.phase == .running

/-- **D7 witness** (kernel-checked): with `!Has(name) && Phase == Running` and
    WithIgnoreTeardownUntil(), an input that is torn down while another party holds a
    finalizer, before the controller ever put its own finalizer on it, is treated as
    running, no finalizer is added, and Modify creates the output: the output exists while
    the input does not carry the controller's finalizer. Here the four controller actions
    read the input, skip AddFinalizer by the old rule, read the (absent) output, and create it. -/
theorem d7_witness :
    let s0 : Sys := { p := ⟨some ⟨.tearingDown, false, true⟩, none⟩, ignoreTeardown := true }
    let s1 := ctl s0                       -- read the input
    treatRunning s1 ⟨.tearingDown, false, true⟩ = true ∧ addsFinOld ⟨.tearingDown, false, true⟩ = false ∧
    addsFin ⟨.tearingDown, false, true⟩ = true := by decide

/-! ### non-vacuity -/

example : safe (QT.run { p := ⟨none, none⟩ } [.env (.createIn false), .ctl, .ctl, .ctl, .ctl]) = true := by decide
example : (QT.run { p := ⟨none, none⟩ } [.env (.createIn false), .ctl, .ctl, .ctl, .ctl]).p
    = ⟨some ⟨.running, true, false⟩, some ⟨.running, false, true⟩⟩ := by decide
example : (QT.run { p := ⟨none, none⟩ }
    [.env (.createIn false), .ctl, .ctl, .ctl, .ctl, .env .teardownIn, .ctl, .ctl, .ctl, .ctl, .ctl, .env .destroyIn]).p
    = ⟨none, none⟩ := by decide

end Cosi.C07
