/-
  Properties C01 / C10 — one state per namespace, for every number of concurrent callers and every
  schedule of their steps.

  Model: `Cosi.Model.NsOnce` (`namespaced.State.getNamespace`, parametrised by the rules the extractor
  reads from namespaced.go). Linearizability per resource (C01) and "memory is what was persisted"
  (C10) are statements about ONE inmem state per namespace: two callers that proceeded on different
  state objects of the same namespace would each see only their own writes.
-/
import Cosi.Model.NsOnce

namespace Cosi.C01Ns

open Cosi Cosi.NsOnce

/-- **Obligation.** getNamespace is Load / LoadOrStore(builder) / return what LoadOrStore returned. -/
theorem genRules_good : genRules = goodRules := by decide

/-- **Obligation.** Every CoreState method forwards to the state of its argument's namespace. -/
theorem routes_by_namespace : Gen.Namespaced.nsRouteByNamespace = true := by decide

structure Inv (s : St) : Prop where
  doneOk : ∀ t ns o, s.pc t = .done ns o → s.tbl ns = some o
  builtFresh : ∀ t ns o, s.pc t = .built ns o → o < s.next
  pubOld : ∀ ns o, s.tbl ns = some o → o < s.next

theorem inv_init : Inv init := ⟨by simp [init], by simp [init], by simp [init]⟩

@[simp] theorem setPc_self (s : St) (t : Nat) (p : Pc) : (s.setPc t p).pc t = p := by simp [St.setPc]
theorem setPc_other (s : St) (t u : Nat) (p : Pc) (h : u ≠ t) : (s.setPc t p).pc u = s.pc u := by
  simp [St.setPc, h]
@[simp] theorem setPc_tbl (s : St) (t : Nat) (p : Pc) : (s.setPc t p).tbl = s.tbl := rfl
@[simp] theorem setPc_next (s : St) (t : Nat) (p : Pc) : (s.setPc t p).next = s.next := rfl

theorem step_inv (s : St) (t ns : Nat) (h : Inv s) : Inv (stepWith goodRules s t ns) := by
  unfold stepWith
  cases hp : s.pc t with
  | start =>
    simp only [goodRules, if_true]
    cases hk : s.tbl ns with
    | some o =>
      simp only
      refine ⟨?_, ?_, ?_⟩
      · intro u n o' hu
        by_cases hut : u = t
        · subst hut
          simp only [setPc_self] at hu
          injection hu with h1 h2
          subst h1; subst h2; simpa using hk
        · rw [setPc_other _ _ _ _ hut] at hu; simpa using h.doneOk u n o' hu
      · intro u n o' hu
        by_cases hut : u = t
        · subst hut; simp at hu
        · rw [setPc_other _ _ _ _ hut] at hu; simpa using h.builtFresh u n o' hu
      · intro n o' hn; simpa using h.pubOld n o' (by simpa using hn)
    | none =>
      simp only
      refine ⟨?_, ?_, ?_⟩
      · intro u n o' hu
        by_cases hut : u = t
        · subst hut; simp at hu
        · rw [setPc_other _ _ _ _ hut] at hu; simpa using h.doneOk u n o' hu
      · intro u n o' hu
        by_cases hut : u = t
        · subst hut
          simp only [setPc_self] at hu
          injection hu with h1 h2
          subst h2; simp
        · rw [setPc_other _ _ _ _ hut] at hu
          have := h.builtFresh u n o' hu
          simp; omega
      · intro n o' hn
        have := h.pubOld n o' (by simpa using hn)
        simp; omega
  | built n o =>
    simp only [goodRules, if_true]
    cases hk : s.tbl n with
    | some o' =>
      simp only
      refine ⟨?_, ?_, ?_⟩
      · intro u n' o'' hu
        by_cases hut : u = t
        · subst hut
          simp only [setPc_self] at hu
          injection hu with h1 h2
          subst h1; subst h2; simpa using hk
        · rw [setPc_other _ _ _ _ hut] at hu; simpa using h.doneOk u n' o'' hu
      · intro u n' o'' hu
        by_cases hut : u = t
        · subst hut; simp at hu
        · rw [setPc_other _ _ _ _ hut] at hu; simpa using h.builtFresh u n' o'' hu
      · intro n' o'' hn; simpa using h.pubOld n' o'' (by simpa using hn)
    | none =>
      simp only
      have hfr := h.builtFresh t n o hp
      refine ⟨?_, ?_, ?_⟩
      · intro u n' o'' hu
        by_cases hut : u = t
        · subst hut
          simp only [setPc_self] at hu
          injection hu with h1 h2
          subst h1; subst h2; simp [St.publish]
        · rw [setPc_other _ _ _ _ hut] at hu
          have hd := h.doneOk u n' o'' (by simpa [St.publish] using hu)
          by_cases hn : n' = n
          · subst hn; rw [hk] at hd; cases hd
          · simp [St.publish, hn, hd]
      · intro u n' o'' hu
        by_cases hut : u = t
        · subst hut; simp at hu
        · rw [setPc_other _ _ _ _ hut] at hu
          simpa [St.publish] using h.builtFresh u n' o'' (by simpa [St.publish] using hu)
      · intro n' o'' hn
        by_cases hnn : n' = n
        · subst hnn
          simp [St.publish] at hn
          subst hn; simpa [St.publish] using hfr
        · simp [St.publish, hnn] at hn
          simpa [St.publish] using h.pubOld n' o'' hn
  | done n o => simpa using h

theorem run_inv (s : St) (sched : List (Nat × Nat)) (h : Inv s) : Inv (runWith goodRules s sched) := by
  induction sched generalizing s with
  | nil => simpa [runWith]
  | cons x rest ih => exact ih _ (step_inv s x.1 x.2 h)

/-- **C01/C10.** Whatever the callers and the schedule: two calls that proceeded for the same namespace
    proceeded on the same state object. -/
theorem one_state_per_namespace (sched : List (Nat × Nat)) (t u ns a b : Nat)
    (ht : (runWith goodRules init sched).pc t = .done ns a)
    (hu : (runWith goodRules init sched).pc u = .done ns b) : a = b := by
  have h := run_inv init sched inv_init
  have x := h.doneOk t ns a ht
  have y := h.doneOk u ns b hu
  rw [x] at y
  exact Option.some.inj y

/-- what a finished caller holds is what is published for its namespace (later callers take the fast path to it) -/
theorem done_is_published (sched : List (Nat × Nat)) (t ns a : Nat)
    (ht : (runWith goodRules init sched).pc t = .done ns a) : (runWith goodRules init sched).tbl ns = some a :=
  (run_inv init sched inv_init).doneOk t ns a ht

theorem src_one_state_per_namespace (sched : List (Nat × Nat)) (t u ns a b : Nat)
    (ht : (run init sched).pc t = .done ns a) (hu : (run init sched).pc u = .done ns b) : a = b := by
  unfold run at *; rw [genRules_good] at *; exact one_state_per_namespace sched t u ns a b ht hu

/-! ### non-vacuity and what the rules are for (kernel-checked) -/

/-- two callers build for namespace 7 side by side; both end on the object published first -/
def raceSched : List (Nat × Nat) := [(0, 7), (1, 7), (0, 7), (1, 7), (2, 7), (3, 8), (3, 8)]

example : (runWith goodRules init raceSched).pc 0 = .done 7 0 ∧ (runWith goodRules init raceSched).pc 1 = .done 7 0 ∧
    (runWith goodRules init raceSched).pc 2 = .done 7 0 ∧ (runWith goodRules init raceSched).pc 3 = .done 8 2 := by decide

/-- publishing with Store: the two racing callers proceed on different states of the same namespace -/
theorem store_splits_namespace :
    (runWith ⟨true, false⟩ init raceSched).pc 0 = .done 7 0 ∧ (runWith ⟨true, false⟩ init raceSched).pc 1 = .done 7 1 := by
  decide

end Cosi.C01Ns
