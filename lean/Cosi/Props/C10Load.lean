/-
  Properties C10 / C02 / C01 — the initial load of the backing store happens once, for every number
  of concurrent callers, every schedule of their steps and every sequence of Load outcomes.

  Model: `Cosi.Model.LoadOnce` (the double-checked `loadStore`, parametrised by the rules the
  extractor reads from inmem.go). What the theorems give the three properties:

    * C10 (what is in memory is what was persisted): a second successful Load would inject the
      persisted resources again — over resources that were updated or destroyed since — so memory
      would differ from the backing store; `load_once` excludes it.
    * C02 (a watch stream replays to the state): every injection publishes a Created event; events for
      resources that already exist break replay; `load_once` excludes it.
    * C01 (a call that returns took effect on the loaded state): `ok_implies_loaded`,
      `failed_loads_leave_unloaded` (a Load that failed is retried by the next caller).
-/
import Cosi.Model.LoadOnce

namespace Cosi.C10Load

open Cosi Cosi.LoadOnce

/-! ### the regenerated rules are the intended ones -/

/-- **Obligation.** `Lock(); defer Unlock()` before everything else, `loaded` read again under the
    lock, `loaded` stored only after a Load that returned nil. An edit of `loadStore` that changes one
    of these (or makes it unrecognisable) breaks this proof and with it every `src_…` theorem. -/
theorem genRules_good : genRules = goodRules := by decide

/-! ### the invariant -/

structure Inv (s : St) : Prop where
  count : s.injections = if s.loaded then 1 else 0
  holds : ∀ t, s.pc t = .locked ∨ s.pc t = .loading → s.lock = some t
  fresh : ∀ t, s.pc t = .loading → s.loaded = false
  okLoaded : ∀ t, s.pc t = .doneOk → s.loaded = true

theorem inv_init : Inv init :=
  ⟨by simp [init], by simp [init], by simp [init], by simp [init]⟩

@[simp] theorem setPc_pc_self (s : St) (t : Nat) (p : Pc) : (s.setPc t p).pc t = p := by
  simp [St.setPc]

theorem setPc_pc_other (s : St) (t u : Nat) (p : Pc) (h : u ≠ t) : (s.setPc t p).pc u = s.pc u := by
  simp [St.setPc, h]

@[simp] theorem setPc_loaded (s : St) (t : Nat) (p : Pc) : (s.setPc t p).loaded = s.loaded := rfl
@[simp] theorem setPc_lock (s : St) (t : Nat) (p : Pc) : (s.setPc t p).lock = s.lock := rfl
@[simp] theorem setPc_inj (s : St) (t : Nat) (p : Pc) : (s.setPc t p).injections = s.injections := rfl

/-- a caller other than the holder is neither `locked` nor `loading` -/
theorem Inv.other_not_inside {s : St} (h : Inv s) {t u : Nat} (ht : s.lock = some t) (hu : u ≠ t) :
    s.pc u ≠ .locked ∧ s.pc u ≠ .loading := by
  constructor
  · intro hp
    have := h.holds u (Or.inl hp)
    rw [ht] at this
    exact hu (Option.some.inj this).symm
  · intro hp
    have := h.holds u (Or.inr hp)
    rw [ht] at this
    exact hu (Option.some.inj this).symm

theorem step_inv (s : St) (t : Nat) (ok : Bool) (h : Inv s) : Inv (stepWith goodRules s t ok) := by
  unfold stepWith
  cases hp : s.pc t with
  | start =>
    simp only
    by_cases hl : s.loaded = true
    · rw [if_pos hl]
      refine ⟨h.count, ?_, ?_, ?_⟩
      · intro u hu
        by_cases hut : u = t
        · subst hut; simp at hu
        · rw [setPc_pc_other _ _ _ _ hut] at hu; simpa using h.holds u hu
      · intro u hu
        by_cases hut : u = t
        · subst hut; simp at hu
        · rw [setPc_pc_other _ _ _ _ hut] at hu; simpa using h.fresh u hu
      · intro u hu
        by_cases hut : u = t
        · subst hut; simpa using hl
        · rw [setPc_pc_other _ _ _ _ hut] at hu; simpa using h.okLoaded u hu
    · rw [if_neg hl]
      refine ⟨h.count, ?_, ?_, ?_⟩
      · intro u hu
        by_cases hut : u = t
        · subst hut; simp at hu
        · rw [setPc_pc_other _ _ _ _ hut] at hu; simpa using h.holds u hu
      · intro u hu
        by_cases hut : u = t
        · subst hut; simp at hu
        · rw [setPc_pc_other _ _ _ _ hut] at hu; simpa using h.fresh u hu
      · intro u hu
        by_cases hut : u = t
        · subst hut; simp at hu
        · rw [setPc_pc_other _ _ _ _ hut] at hu; simpa using h.okLoaded u hu
  | wantLock =>
    simp only [goodRules, if_true]
    cases hk : s.lock with
    | some v => simpa using h
    | none =>
      simp only
      refine ⟨h.count, ?_, ?_, ?_⟩
      · intro u hu
        by_cases hut : u = t
        · subst hut; simp
        · rw [setPc_pc_other _ _ _ _ hut] at hu
          have := h.holds u hu
          rw [hk] at this; cases this
      · intro u hu
        by_cases hut : u = t
        · subst hut; simp at hu
        · rw [setPc_pc_other _ _ _ _ hut] at hu; simpa using h.fresh u hu
      · intro u hu
        by_cases hut : u = t
        · subst hut; simp at hu
        · rw [setPc_pc_other _ _ _ _ hut] at hu; simpa using h.okLoaded u hu
  | locked =>
    have hlk : s.lock = some t := h.holds t (Or.inl hp)
    simp only [goodRules, Bool.true_and]
    by_cases hl : s.loaded = true
    · rw [if_pos hl]
      refine ⟨by simpa [St.unlock] using h.count, ?_, ?_, ?_⟩
      · intro u hu
        by_cases hut : u = t
        · subst hut; simp at hu
        · rw [setPc_pc_other _ _ _ _ hut] at hu
          have := h.other_not_inside hlk hut
          rcases hu with hu | hu
          · exact absurd (by simpa [St.unlock] using hu) this.1
          · exact absurd (by simpa [St.unlock] using hu) this.2
      · intro u hu
        by_cases hut : u = t
        · subst hut; simp at hu
        · rw [setPc_pc_other _ _ _ _ hut] at hu
          exact absurd (by simpa [St.unlock] using hu) (h.other_not_inside hlk hut).2
      · intro u hu
        by_cases hut : u = t
        · subst hut; simpa [St.unlock] using hl
        · rw [setPc_pc_other _ _ _ _ hut] at hu
          simpa [St.unlock] using h.okLoaded u (by simpa [St.unlock] using hu)
    · rw [if_neg hl]
      refine ⟨h.count, ?_, ?_, ?_⟩
      · intro u hu
        by_cases hut : u = t
        · subst hut; simpa using hlk
        · rw [setPc_pc_other _ _ _ _ hut] at hu; simpa using h.holds u hu
      · intro u hu
        by_cases hut : u = t
        · subst hut; simpa using hl
        · rw [setPc_pc_other _ _ _ _ hut] at hu; simpa using h.fresh u hu
      · intro u hu
        by_cases hut : u = t
        · subst hut; simp at hu
        · rw [setPc_pc_other _ _ _ _ hut] at hu; simpa using h.okLoaded u hu
  | loading =>
    have hlk : s.lock = some t := h.holds t (Or.inr hp)
    have hfr : s.loaded = false := h.fresh t hp
    have hcnt : s.injections = 0 := by have := h.count; simpa [hfr] using this
    simp only [goodRules]
    cases ok with
    | true =>
      simp only [if_true]
      refine ⟨by simp [St.unlock, hcnt], ?_, ?_, ?_⟩
      · intro u hu
        by_cases hut : u = t
        · subst hut; simp at hu
        · rw [setPc_pc_other _ _ _ _ hut] at hu
          have := h.other_not_inside hlk hut
          rcases hu with hu | hu
          · exact absurd (by simpa [St.unlock] using hu) this.1
          · exact absurd (by simpa [St.unlock] using hu) this.2
      · intro u hu
        by_cases hut : u = t
        · subst hut; simp at hu
        · rw [setPc_pc_other _ _ _ _ hut] at hu
          exact absurd (by simpa [St.unlock] using hu) (h.other_not_inside hlk hut).2
      · intro u _
        simp [St.unlock]
    | false =>
      simp only [Bool.false_eq_true, if_false, Bool.not_true, Bool.or_false]
      refine ⟨by simpa [St.unlock] using h.count, ?_, ?_, ?_⟩
      · intro u hu
        by_cases hut : u = t
        · subst hut; simp at hu
        · rw [setPc_pc_other _ _ _ _ hut] at hu
          have := h.other_not_inside hlk hut
          rcases hu with hu | hu
          · exact absurd (by simpa [St.unlock] using hu) this.1
          · exact absurd (by simpa [St.unlock] using hu) this.2
      · intro u hu
        by_cases hut : u = t
        · subst hut; simp at hu
        · rw [setPc_pc_other _ _ _ _ hut] at hu
          exact absurd (by simpa [St.unlock] using hu) (h.other_not_inside hlk hut).2
      · intro u hu
        by_cases hut : u = t
        · subst hut; simp at hu
        · rw [setPc_pc_other _ _ _ _ hut] at hu
          simpa [St.unlock] using h.okLoaded u (by simpa [St.unlock] using hu)
  | doneOk => simpa using h
  | doneErr => simpa using h

theorem run_inv (s : St) (sched : List (Nat × Bool)) (h : Inv s) : Inv (runWith goodRules s sched) := by
  induction sched generalizing s with
  | nil => simpa [runWith]
  | cons x rest ih => exact ih _ (step_inv s x.1 x.2 h)

/-! ### the property theorems (intended rules) -/

/-- **C10/C02.** Whatever the callers, the schedule and the outcomes of `store.Load`: at most one Load
    runs to success — every persisted resource is injected, and its Created event published, at
    most once. -/
theorem load_once (sched : List (Nat × Bool)) : (runWith goodRules init sched).injections ≤ 1 := by
  have h := (run_inv init sched inv_init).count
  rw [h]; split <;> omega

/-- the state counts as loaded exactly when one Load ran to success -/
theorem loaded_iff_injected (sched : List (Nat × Bool)) :
    (runWith goodRules init sched).loaded = true ↔ (runWith goodRules init sched).injections = 1 := by
  have h := (run_inv init sched inv_init).count
  rw [h]; split <;> simp_all

/-- **C01/C10.** A caller whose `loadStore` returned nil proceeds on a loaded state. -/
theorem ok_implies_loaded (sched : List (Nat × Bool)) (t : Nat)
    (h : (runWith goodRules init sched).pc t = .doneOk) : (runWith goodRules init sched).loaded = true :=
  (run_inv init sched inv_init).okLoaded t h

/-- A caller that is loading has the mutex, and nobody else is between Lock and Unlock. -/
theorem one_inside (sched : List (Nat × Bool)) (t u : Nat)
    (ht : (runWith goodRules init sched).pc t = .loading ∨ (runWith goodRules init sched).pc t = .locked)
    (hu : (runWith goodRules init sched).pc u = .loading ∨ (runWith goodRules init sched).pc u = .locked) : t = u := by
  have h := run_inv init sched inv_init
  have a := h.holds t (by rcases ht with ht | ht <;> simp [ht])
  have b := h.holds u (by rcases hu with hu | hu <;> simp [hu])
  rw [a] at b
  exact Option.some.inj b

/-- number of Load attempts of a schedule that succeed: an upper bound is the number of `true` outcomes -/
theorem inj_le_oks (R : Rules) (s : St) (sched : List (Nat × Bool)) :
    (runWith R s sched).injections ≤ s.injections + (sched.filter (·.2)).length := by
  induction sched generalizing s with
  | nil => simp [runWith]
  | cons x rest ih =>
    obtain ⟨t, ok⟩ := x
    have hstep : (stepWith R s t ok).injections ≤ s.injections + (if ok then 1 else 0) := by
      unfold stepWith
      cases s.pc t <;> simp only
      · split <;> simp
      · split
        · split <;> simp
        · simp
      · split <;> simp [St.unlock] <;> split <;> simp
      · cases ok <;> simp [St.unlock] <;> split <;> simp
      · simp
      · simp
    have h2 := ih (stepWith R s t ok)
    show (runWith R (stepWith R s t ok) rest).injections ≤ _
    cases ok
    · simp only [Bool.false_eq_true, if_false, Nat.add_zero] at hstep
      simp only [List.filter_cons, Bool.false_eq_true, if_false]
      omega
    · simp only [if_true] at hstep
      simp only [List.filter_cons, if_true, List.length_cons]
      omega

/-- **C10.** A Load that failed leaves the state unloaded (the next caller retries it): if no Load
    succeeded, `loaded` is still false. -/
theorem failed_loads_leave_unloaded (sched : List (Nat × Bool)) (h : ∀ x ∈ sched, x.2 = false) :
    (runWith goodRules init sched).loaded = false := by
  have hle := inj_le_oks goodRules init sched
  have hf : (sched.filter (·.2)) = [] := by
    apply List.filter_eq_nil_iff.mpr
    intro x hx; simp [h x hx]
  have h0 : (runWith goodRules init sched).injections = 0 := by
    simp [hf, init] at hle; exact hle
  have hc := (run_inv init sched inv_init).count
  rw [h0] at hc
  cases hl : (runWith goodRules init sched).loaded
  · rfl
  · rw [hl] at hc; simp at hc

/-! ### the same for the regenerated rules -/

theorem src_load_once (sched : List (Nat × Bool)) : (run init sched).injections ≤ 1 := by
  unfold run; rw [genRules_good]; exact load_once sched

theorem src_ok_implies_loaded (sched : List (Nat × Bool)) (t : Nat)
    (h : (run init sched).pc t = .doneOk) : (run init sched).loaded = true := by
  unfold run at *; rw [genRules_good] at *; exact ok_implies_loaded sched t h

theorem src_failed_loads_leave_unloaded (sched : List (Nat × Bool)) (h : ∀ x ∈ sched, x.2 = false) :
    (run init sched).loaded = false := by
  unfold run; rw [genRules_good]; exact failed_loads_leave_unloaded sched h

/-! ### non-vacuity and what each rule is for (kernel-checked witnesses) -/

/-- two callers race for the initial load; the second one waits for the mutex, then finds `loaded` set -/
def raceSched : List (Nat × Bool) :=
  [(0, true), (0, true), (1, true), (1, true), (0, true), (0, true), (1, true), (1, true), (1, true)]

example : (runWith goodRules init raceSched).injections = 1 ∧ (runWith goodRules init raceSched).pc 1 = .doneOk ∧
    (runWith goodRules init raceSched).pc 0 = .doneOk := by decide

/-- without the re-check under the lock the waiting caller loads a second time -/
theorem no_recheck_loads_twice : (runWith ⟨true, false, true⟩ init raceSched).injections = 2 := by decide

/-- without the mutex two callers load side by side -/
theorem no_mutex_loads_twice :
    (runWith ⟨false, true, true⟩ init [(0, true), (1, true), (0, true), (1, true), (0, true), (1, true), (0, true), (1, true)]).injections = 2 := by
  decide

/-- a failed Load that still sets `loaded`: later callers proceed on a state that was never loaded -/
theorem loaded_after_failure :
    (runWith ⟨true, true, false⟩ init [(0, false), (0, false), (0, false), (0, false), (1, true)]).pc 1 = .doneOk ∧
    (runWith ⟨true, true, false⟩ init [(0, false), (0, false), (0, false), (0, false), (1, true)]).injections = 0 := by
  decide

/-- a failed first Load is retried by the next caller -/
example : (runWith goodRules init [(0, false), (0, false), (0, false), (0, false), (1, true), (1, true), (1, true), (1, true)]).injections = 1 := by
  decide

end Cosi.C10Load
