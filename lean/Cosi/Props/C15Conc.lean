/-
  Property C15, concurrent callers — "a teardown-bound context obtained for a cached resource is
  cancelled exactly when that resource is torn down, removed or absent", and the coherence
  theorems of Cosi.Props.C15, for EVERY interleaving of the runtime's watch goroutine (append / put /
  remove / mark) with any number of readers.

  Model: Cosi.Model.CacheConc (`CacheConc.stepWith rules`; `step = CacheConc.stepWith genRules`, the rules being the
  critical sections of cacheHandler.mu REGENERATED from handler.go).

    Sound r                       contextWithTeardown, put and remove are one critical section each
    genRules_sound                the CURRENT source has these sections (rests on Gen.Cache.ctxAtomic /
                                  putAtomic / removeAtomic); frame_facts: get / list / append likewise
    stepWith_atomic / runWith_atomic
                                  under sound rules nobody is ever between two sections and every schedule
                                  IS an operation sequence of the atomic handler (`lin`)
    conc_refines_atomic           … for the model of the current source, from a fresh handler
    conc_sorted, conc_winv        the slice and waiter invariants hold at every point of every schedule
    conc_ctx_open_means_running   the property, as a state invariant of every schedule: an open context names a
                                  resource that is cached and running
    conc_ctx_teardown_iff         the property, functionally: a context obtained at ANY point of ANY schedule is,
                                  after ANY further schedule, cancelled iff the resource was absent / tearing down
                                  when it was obtained, or a later put carried tearing-down / a later remove hit
                                  its ID / the caller cancelled the parent
    conc_refines_spec             every schedule stays in correspondence with the property's own specification
                                  (Cosi.Spec.Cache) run on the linearisation
    split_ctx_not_sound, split_ctx_leaks_open_context, split_ctx_misses_remove, split_put_leaks_open_context
                                  kernel-checked: with contextWithTeardown (or put) split into two sections the
                                  SAME model hands out a context that stays open for a resource that is tearing
                                  down / gone
-/
import Cosi.Props.C15
import Cosi.Model.CacheConc

namespace Cosi.C15C
open Cosi Cosi.Cache Cosi.CacheConc Cosi.C15

/-- what the theorems need of the critical sections -/
def Sound (r : Rules) : Prop := r.ctxAtomic = true ∧ r.putAtomic = true ∧ r.removeAtomic = true

theorem goodRules_sound : Sound goodRules := ⟨rfl, rfl, rfl⟩

/-- the CURRENT source text has the three sections (each conjunct is the extracted value) -/
theorem genRules_sound : Sound genRules := by
  have h1 : Gen.Cache.ctxAtomic = true := by decide
  have h2 : Gen.Cache.putAtomic = true := by decide
  have h3 : Gen.Cache.removeAtomic = true := by decide
  exact ⟨h1, h2, h3⟩

/-- get, list and append are single sections of the mutex as well -/
theorem frame_facts :
    Gen.Cache.getAtomic = true ∧ Gen.Cache.listAtomic = true ∧ Gen.Cache.appendAtomic = true ∧ frameOk = true := by
  decide

theorem lin_cons (x : CStep) (xs : List CStep) : lin (x :: xs) = lin [x] ++ lin xs := by
  cases x <;> simp [lin]

/-- under sound rules, with nobody in flight, one scheduling step is the atomic handler's step on the
    linearisation, and nobody is in flight afterwards -/
theorem stepWith_atomic (r : Rules) (hr : Sound r) (s : CSys) (hm : s.mids = []) (x : CStep) :
    (CacheConc.stepWith r s x).mids = [] ∧ (CacheConc.stepWith r s x).h = s.h.run (lin [x]) := by
  obtain ⟨hc, hp, hrm⟩ := hr
  cases x with
  | call op =>
    cases op with
    | put y => simp [stepWith, hp, hm, lin, Handler.run, Handler.step]
    | remove y => simp [stepWith, hrm, hm, lin, Handler.run, Handler.step]
    | ctx cid id => simp [stepWith, CacheConc.ctxBegin, hc, hm, lin, Handler.run, Handler.step]
    | append y => simp [stepWith, hm, lin, Handler.run]
    | mark => simp [stepWith, hm, lin, Handler.run]
    | cancel cid => simp [stepWith, hm, lin, Handler.run]
  | ctxBegin cid id => simp [stepWith, CacheConc.ctxBegin, hc, hm, lin, Handler.run, Handler.step]
  | ctxEnd cid => simp [stepWith, hm, lin, Handler.run]

theorem run_append (h : Handler) (a b : List Cosi.Cache.Op) : h.run (a ++ b) = (h.run a).run b := by
  simp [Handler.run, List.foldl_append]

/-- **every schedule of a sound system is an operation sequence of the atomic handler** -/
theorem runWith_atomic (r : Rules) (hr : Sound r) (xs : List CStep) :
    ∀ (s : CSys), s.mids = [] → (CacheConc.runWith r s xs).mids = [] ∧ (CacheConc.runWith r s xs).h = s.h.run (lin xs) := by
  induction xs with
  | nil => intro s hm; exact ⟨hm, rfl⟩
  | cons x xs ih =>
    intro s hm
    have st := stepWith_atomic r hr s hm x
    have := ih (CacheConc.stepWith r s x) st.1
    show (CacheConc.runWith r (CacheConc.stepWith r s x) xs).mids = [] ∧ (CacheConc.runWith r (CacheConc.stepWith r s x) xs).h = _
    rw [lin_cons, run_append, ← st.2]
    exact this

/-- the model of the current source, started from a fresh handler -/
theorem conc_refines_atomic (xs : List CStep) :
    (CacheConc.run {} xs).mids = [] ∧ (CacheConc.run {} xs).h = Handler.run {} (lin xs) :=
  runWith_atomic genRules genRules_sound xs {} rfl

theorem runOk_append (a b : List Cosi.Cache.Op) : ∀ (h : Handler), runOk h (a ++ b) = true →
    runOk h a = true ∧ runOk (h.run a) b = true := by
  induction a with
  | nil => intro h hk; exact ⟨rfl, hk⟩
  | cons op a ih =>
    intro h hk
    simp only [List.cons_append, runOk, Bool.and_eq_true] at hk ⊢
    have := ih (h.step op) hk.2
    exact ⟨⟨hk.1, this.1⟩, this.2⟩

theorem winv_run (ops : List Cosi.Cache.Op) : ∀ (h : Handler), WInv h → WInv (h.run ops) := by
  induction ops with
  | nil => intro h hw; exact hw
  | cons op ops ih => intro h hw; exact ih (h.step op) (winv_step h hw op)

theorem sorted_nil : Sorted ({} : Handler).resources := List.Pairwise.nil
theorem winv_nil : WInv {} := fun c hc => by cases hc
theorem rinv_nil : RInv {} := fun c hc => by cases hc

/-- the slice stays strictly ascending by ID at every point of every schedule (bootstrap contents sorted) -/
theorem conc_sorted (xs : List CStep) (hok : runOk {} (lin xs) = true) : Sorted (CacheConc.run {} xs).h.resources := by
  rw [(conc_refines_atomic xs).2]
  exact sorted_invariant (lin xs) {} sorted_nil hok

/-- a context that is not cancelled waits on the registered channel of its ID — at every point of every schedule -/
theorem conc_winv (xs : List CStep) : WInv (CacheConc.run {} xs).h := by
  rw [(conc_refines_atomic xs).2]
  exact winv_run (lin xs) {} winv_nil

/-- **the property as an invariant of every interleaving**: whatever the order in which the watch goroutine's
    cache calls and the readers' calls are scheduled, a context that is still open names a resource that is in the
    cache and running — i.e. it has been cancelled as soon as the resource was torn down, removed or absent. -/
theorem conc_ctx_open_means_running (xs : List CStep) (hok : runOk {} (lin xs) = true) : RInv (CacheConc.run {} xs).h := by
  rw [(conc_refines_atomic xs).2]
  exact ctx_open_means_running (lin xs) {} sorted_nil winv_nil rinv_nil hok

/-- **cancelled exactly when torn down, removed or absent — for every interleaving.** Take any schedule `xs`
    (in the property's domain, the cache bootstrapped at its end), let a reader obtain a context there, and let
    ANY schedule `ys` follow: the context's record is known exactly. -/
theorem conc_ctx_teardown_iff (xs ys : List CStep) (hok : runOk {} (lin xs) = true)
    (hb : (CacheConc.run {} xs).h.bootstrapped = true) (cid : Nat) (id : String) :
    (CacheConc.run (CacheConc.run {} xs) (.ctxBegin cid id :: ys)).h.ctxs[(CacheConc.run {} xs).h.ctxs.length]? =
      some { cid := cid, id := id,
             cancelled := (match find (CacheConc.run {} xs).h.resources id with
                 | none => true
                 | some r => r.phase == .tearingDown) || (lin ys).any (kills cid id) } := by
  have h0 := conc_refines_atomic xs
  have := runWith_atomic genRules genRules_sound (.ctxBegin cid id :: ys) (CacheConc.run {} xs) h0.1
  show (CacheConc.runWith genRules (CacheConc.run {} xs) (.ctxBegin cid id :: ys)).h.ctxs[_]? = _
  rw [this.2]
  exact cached_ctx_teardown_iff (CacheConc.run {} xs).h (conc_sorted xs hok) (conc_winv xs) hb cid id (lin ys)

/-- every schedule stays in correspondence with the property's own specification run on the linearisation -/
theorem conc_refines_spec (xs : List CStep) (hok : runOk {} (lin xs) = true) :
    Rel (CacheConc.run {} xs).h (Spec.Cache.View.run {} (lin xs)) := by
  rw [(conc_refines_atomic xs).2]
  exact (run_refines_spec (lin xs) {} {} sorted_nil winv_nil ⟨rfl, rfl, rfl⟩ hok).1

/-! ### non-vacuity, and what the same model does when a section is split -/

def exA : Res := mkRes "n1" "T1" "a" 1 .running [] "s1"
def exAt : Res := mkRes "n1" "T1" "a" 2 .tearingDown [] "s2"
def exB : Res := mkRes "n1" "T1" "b" 1 .running [] "s3"

/-- a reader obtains a context for `a` while the watch goroutine tears `a` down -/
def exSched : List CStep := [.call (.append exA), .call (.append exB), .call .mark, .ctxBegin 1 "a", .call (.put exAt), .ctxEnd 1]
def exSchedRm : List CStep := [.call (.append exA), .call .mark, .ctxBegin 1 "a", .call (.remove exA), .ctxEnd 1]

example : runOk {} (lin exSched) = true ∧ runOk {} (lin exSchedRm) = true := by decide

/-- non-vacuity on the CURRENT source (named, so that a change of the regenerated sections is reported against it):
    in these schedules the context ends up cancelled -/
theorem current_racing_teardown_cancels :
    ((CacheConc.run {} exSched).h.ctxs.map (·.cancelled)) = [true] ∧
    ((CacheConc.run {} exSchedRm).h.ctxs.map (·.cancelled)) = [true] := by decide

example : RInv (CacheConc.run {} exSched).h := conc_ctx_open_means_running exSched (by decide)

/-- contextWithTeardown in two sections: lookup + phase check, then (after re-locking) the waiter registration -/
def splitCtxRules : Rules := { goodRules with ctxAtomic := false }
/-- put in two sections -/
def splitPutRules : Rules := { goodRules with putAtomic := false }

theorem split_ctx_not_sound : ¬ Sound splitCtxRules := by
  intro h; exact absurd h.1 (by decide)

/-- **negative witness (kernel-checked).** With the split contextWithTeardown, a put of the tearing-down phase that is
    scheduled between the two sections finds no waiter; the waiter registered afterwards is never closed: the reader
    holds an OPEN context for a resource that is tearing down in the cache — the invariant `RInv` is false. -/
theorem split_ctx_leaks_open_context :
    ((CacheConc.runWith splitCtxRules {} exSched).h.ctxs.map fun c => (c.cid, c.cancelled)) = [(1, false)] ∧
    (find (CacheConc.runWith splitCtxRules {} exSched).h.resources "a").map (·.phase) = some .tearingDown ∧
    (CacheConc.runWith splitCtxRules {} exSched).mids = [] := by decide

theorem split_ctx_breaks_invariant : ¬ RInv (CacheConc.runWith splitCtxRules {} exSched).h := by
  intro h
  have hc : ({ cid := 1, id := "a", cancelled := false } : TCtx) ∈ (CacheConc.runWith splitCtxRules {} exSched).h.ctxs := by decide
  obtain ⟨r, hf, hp⟩ := h _ hc rfl
  have : find (CacheConc.runWith splitCtxRules {} exSched).h.resources "a" = some exAt := by decide
  rw [this] at hf
  cases hf
  exact absurd hp (by decide)

/-- the same with a removal in the gap: an open context for a resource that is gone -/
theorem split_ctx_misses_remove :
    ((CacheConc.runWith splitCtxRules {} exSchedRm).h.ctxs.map fun c => (c.cid, c.cancelled)) = [(1, false)] ∧
    find (CacheConc.runWith splitCtxRules {} exSchedRm).h.resources "a" = none := by decide

/-- a put whose slice update and waiter close are not one section: a context obtained before it stays open -/
theorem split_put_leaks_open_context :
    ((CacheConc.runWith splitPutRules {} [.call (.append exA), .call .mark, .ctxBegin 1 "a", .ctxEnd 1, .call (.put exAt)]).h.ctxs.map
      fun c => (c.cid, c.cancelled)) = [(1, false)] := by decide

/-- in every other schedule of the split model the result is the atomic one: the window is exactly the gap -/
example : ((CacheConc.runWith splitCtxRules {} [.call (.append exA), .call .mark, .ctxBegin 1 "a", .ctxEnd 1, .call (.put exAt)]).h.ctxs.map
    (·.cancelled)) = [true] := by decide

end Cosi.C15C
