/-
  Property C14 — selector-filtered lists/watches are exact views; one selector semantics.

  Statements are about `Cosi.Model.Selector` (the transcription of labels.go,
  label_query.go, compare.go, collection.go List / WatchAll, cache/handler.go list, and —
  through the REGENERATED tables `Gen.Selector.*` — client/label_query.go and
  server/helpers.go). The correspondence engine `selector` ties that model to the code.
-/
import Cosi.Spec.Selector

namespace Cosi.C14

open Cosi Cosi.Selector

/-! ### term algebra: three-valued core, inversion, AND, OR -/

/-- the three-valued core does not look at `Invert` -/
theorem matchesCore_invert (l : Labels) (t : Term) (i : Bool) :
    matchesCore l { t with invert := i } = matchesCore l t := rfl

/-- Where the term is defined, `Invert` negates it. -/
theorem invert_negates_when_defined (l : Labels) (t : Term) (b : Bool)
    (h : matchesCore l t = some b) :
    termMatches l { t with invert := false } = b ∧ termMatches l { t with invert := true } = !b := by
  simp [termMatches, matchesCore_invert, h]

/-- Where the term is undefined (nil `*bool`), it is false with and without `Invert`. -/
theorem invert_undefined_false (l : Labels) (t : Term) (h : matchesCore l t = none) (i : Bool) :
    termMatches l { t with invert := i } = false := by
  simp [termMatches, matchesCore_invert, h]

theorem lookup_some_ne_nil {l : Labels} {k v : String} (h : l.lookup k = some v) : l.isEmpty = false := by
  cases l with
  | nil => simp [List.lookup] at h
  | cons p l => rfl

/-- Exactly when a term is undefined: a comparison on a missing label, or a numeric
    comparison (with a value) one of whose operands is not a number. -/
theorem undefined_iff (l : Labels) (t : Term) :
    matchesCore l t = none ↔
      (t.op.isComparison = true ∧ l.lookup t.key = none) ∨
      (∃ v v0 rest, l.lookup t.key = some v ∧ t.value = v0 :: rest ∧
        (t.op = .opLTNumeric ∨ t.op = .opLTENumeric) ∧ getNumbers v v0 = none) := by
  obtain ⟨k, vs, op, inv⟩ := t
  unfold matchesCore
  cases hl : l.lookup k with
  | none =>
    cases op <;> cases hE : l.isEmpty <;> simp [LabelOp.isComparison]
  | some v =>
    have hne := lookup_some_ne_nil hl
    cases op <;> cases vs <;> simp [hne, LabelOp.isComparison] <;>
      (cases hg : getNumbers v _ <;> simp)

/-- A missing label: comparisons are undefined (false either way), `Exists`/`Equal`/`In`
    are false, hence true when inverted. -/
theorem missing_label (l : Labels) (t : Term) (h : l.lookup t.key = none) :
    termMatches l t = if t.op.isComparison then false else t.invert := by
  obtain ⟨k, vs, op, inv⟩ := t
  simp only at h
  unfold termMatches matchesCore
  cases op <;> cases hE : l.isEmpty <;> cases inv <;> simp [h, LabelOp.isComparison]

/-- A value-taking term with an EMPTY value list on a present label is defined and
    false (labels.go:62), hence true when inverted. -/
theorem empty_value_list (l : Labels) (t : Term) (v : String) (h : l.lookup t.key = some v)
    (hop : t.op ≠ .opExists) (hv : t.value = []) : termMatches l t = t.invert := by
  obtain ⟨k, vs, op, inv⟩ := t
  simp only at h hop hv
  subst hv
  have hne := lookup_some_ne_nil h
  unfold termMatches matchesCore
  cases op <;> cases inv <;> simp_all

/-- `Exists` looks at nothing but the presence of the key. -/
theorem exists_is_presence (l : Labels) (k : String) (vs : List String) (inv : Bool) :
    termMatches l ⟨k, vs, .opExists, inv⟩ = (inv != (l.lookup k).isSome) := by
  unfold termMatches matchesCore
  cases hl : l.lookup k with
  | none => cases hE : l.isEmpty <;> cases inv <;> simp [LabelOp.isComparison]
  | some v =>
    have hne := lookup_some_ne_nil hl
    cases inv <;> simp [hne]

/-- `Equal` compares with the FIRST value only. -/
theorem equal_is_first_value (l : Labels) (k v v0 : String) (rest : List String) (inv : Bool)
    (h : l.lookup k = some v) :
    termMatches l ⟨k, v0 :: rest, .opEqual, inv⟩ = (inv != (v == v0)) := by
  have hne := lookup_some_ne_nil h
  unfold termMatches matchesCore
  cases inv <;> simp [h, hne]

/-- `In` is set membership (the empty set contains nothing). -/
theorem in_is_membership (l : Labels) (k v : String) (vs : List String) (inv : Bool)
    (h : l.lookup k = some v) :
    termMatches l ⟨k, vs, .opIn, inv⟩ = (inv != decide (v ∈ vs)) := by
  have hne := lookup_some_ne_nil h
  unfold termMatches matchesCore
  cases vs <;> cases inv <;> simp [h, hne]

/-- lexical comparisons are the byte order of the two strings -/
theorem lexical_lt (l : Labels) (k v v0 : String) (rest : List String) (inv : Bool)
    (h : l.lookup k = some v) :
    termMatches l ⟨k, v0 :: rest, .opLT, inv⟩ = (inv != decide (v < v0)) ∧
    termMatches l ⟨k, v0 :: rest, .opLTE, inv⟩ = (inv != decide (v ≤ v0)) := by
  have hne := lookup_some_ne_nil h
  have hle : decide (v ≤ v0) = !decide (v0 < v) := by
    by_cases hc : v0 < v
    · have : ¬ v ≤ v0 := String.not_le.2 hc
      simp [hc, this]
    · have : v ≤ v0 := String.not_lt.1 hc
      simp [hc, this]
  unfold termMatches matchesCore
  cases inv <;> simp [h, hne, hle]

/-- AND within a query: every term must hold; the empty query holds. -/
theorem and_within (q : Query) (l : Labels) :
    (queryMatches q l = true ↔ ∀ t ∈ q, termMatches l t = true) ∧
    queryMatches [] l = true ∧
    (∀ q2, queryMatches (q ++ q2) l = (queryMatches q l && queryMatches q2 l)) := by
  refine ⟨by simp [queryMatches], rfl, ?_⟩
  intro q2; simp [queryMatches]

/-- OR across queries: some query must hold; NO query at all holds. -/
theorem or_across (qs : Queries) (l : Labels) :
    (queriesMatch qs l = true ↔ qs = [] ∨ ∃ q ∈ qs, queryMatches q l = true) ∧
    queriesMatch [] l = true ∧
    (∀ q qs2, queriesMatch (q :: qs2) l = (queryMatches q l || (!qs2.isEmpty && queriesMatch qs2 l))) := by
  refine ⟨?_, rfl, ?_⟩
  · cases qs with
    | nil => simp [queriesMatch]
    | cons q qs => simp [queriesMatch]
  · intro q qs2
    cases qs2 <;> simp [queriesMatch]

/-! non-vacuity: defined / undefined terms, inversion, AND, OR on concrete label maps -/

-- defined and undefined terms; inversion
example : matchesCore [("n", "5ki")] ⟨"n", ["5k"], .opLTNumeric, false⟩ = some false := by decide
example : termMatches [("n", "5ki")] ⟨"n", ["5k"], .opLTNumeric, true⟩ = true := by decide
example : matchesCore [("n", "abc")] ⟨"n", ["5k"], .opLTNumeric, false⟩ = none := by decide
example : termMatches [("n", "abc")] ⟨"n", ["5k"], .opLTNumeric, true⟩ = false := by decide
example : matchesCore [("a", "1")] ⟨"n", ["5"], .opLT, true⟩ = none := by decide
example : termMatches [("a", "1")] ⟨"n", ["5"], .opEqual, true⟩ = true := by decide
example : termMatches [("n", "x")] ⟨"n", [], .opEqual, true⟩ = true := by decide
example : termMatches [("n", "b")] ⟨"n", ["a", "b"], .opIn, false⟩ = true := by decide
example : termMatches [("n", "b")] ⟨"n", ["a", "b"], .opEqual, false⟩ = false := by decide
example : termMatches [("n", "10")] ⟨"n", ["9"], .opLT, false⟩ = true := by decide      -- lexical
example : termMatches [("n", "10")] ⟨"n", ["9"], .opLTNumeric, false⟩ = false := by decide

-- AND / OR
example : queriesMatch [[⟨"a", [], .opExists, false⟩, ⟨"b", [], .opExists, true⟩], [⟨"c", ["1"], .opEqual, false⟩]]
    [("a", ""), ("b", "")] = false := by decide
example : queriesMatch [[⟨"a", [], .opExists, false⟩, ⟨"b", [], .opExists, true⟩], [⟨"c", ["1"], .opEqual, false⟩]]
    [("c", "1")] = true := by decide
example : queriesMatch [[]] [] = true ∧ queriesMatch [] [("a", "1")] = true := by decide

/-! ### numeric comparison with unit suffixes -/

/-- both operands numeric ⇒ the comparison of the two int64 values; `Invert` negates -/
theorem numeric_compare (l : Labels) (k v v0 : String) (rest : List String) (inv : Bool) (a b : Int)
    (h : l.lookup k = some v) (ha : parseValue v = some a) (hb : parseValue v0 = some b) :
    termMatches l ⟨k, v0 :: rest, .opLTNumeric, inv⟩ = (inv != decide (a < b)) ∧
    termMatches l ⟨k, v0 :: rest, .opLTENumeric, inv⟩ = (inv != decide (a ≤ b)) := by
  have hne := lookup_some_ne_nil h
  unfold termMatches matchesCore
  cases inv <;> simp [h, hne, getNumbers, ha, hb]

/-- a non-numeric operand on either side ⇒ undefined ⇒ false, inverted or not -/
theorem numeric_non_numeric (l : Labels) (k v v0 : String) (rest : List String) (inv : Bool)
    (h : l.lookup k = some v) (hn : parseValue v = none ∨ parseValue v0 = none) :
    termMatches l ⟨k, v0 :: rest, .opLTNumeric, inv⟩ = false ∧
    termMatches l ⟨k, v0 :: rest, .opLTENumeric, inv⟩ = false := by
  have hne := lookup_some_ne_nil h
  have hg : getNumbers v v0 = none := by
    unfold getNumbers
    rcases hn with hn | hn
    · simp [hn]
    · cases parseValue v <;> simp [hn]
  unfold termMatches matchesCore
  simp [h, hne, hg]

/-- the unit table of `getMultiplier`: decimal k m g t p, binary ki mi gi ti pi, any case,
    surrounding blanks and trailing text ignored; anything else is not a unit -/
theorem unit_table :
    getMultiplier [] = some 1 ∧
    getMultiplier "k".toList = some 1000 ∧ getMultiplier "M".toList = some 1000000 ∧
    getMultiplier "g".toList = some 1000000000 ∧ getMultiplier "T".toList = some 1000000000000 ∧
    getMultiplier "p".toList = some 1000000000000000 ∧
    getMultiplier "ki".toList = some 1024 ∧ getMultiplier "Mi".toList = some 1048576 ∧
    getMultiplier "GI".toList = some 1073741824 ∧ getMultiplier "ti".toList = some 1099511627776 ∧
    getMultiplier "Pi".toList = some 1125899906842624 ∧
    getMultiplier " kB ".toList = some 1000 ∧ getMultiplier "KiB".toList = some 1024 ∧
    getMultiplier "e".toList = none ∧ getMultiplier "i".toList = none := by decide

theorem span_num (ds us : List Char) (hds : ∀ c ∈ ds, isNumChar c = true)
    (hu : ∀ c, us.head? = some c → isNumChar c = false) :
    (ds ++ us).takeWhile isNumChar = ds ∧ (ds ++ us).dropWhile isNumChar = us := by
  induction ds with
  | nil =>
    cases us with
    | nil => simp
    | cons c us => simp [hu c rfl]
  | cons d ds ih =>
    have hd : isNumChar d = true := hds d (by simp)
    have ih' := ih (fun c hc => hds c (by simp [hc]))
    simp [hd, ih'.1, ih'.2]

/-- Structure of `parseValue`: after trimming, the maximal prefix over `[0-9-]` is read
    by `ParseInt`, what follows by `getMultiplier`, and the product wraps to int64. -/
theorem parseValue_shape (cs ds us : List Char) (htrim : trimSpace cs = ds ++ us) (hne : ds ≠ [])
    (hds : ∀ c ∈ ds, isNumChar c = true) (hu : ∀ c, us.head? = some c → isNumChar c = false) :
    parseValueChars cs =
      match parseInt64 ds, getMultiplier us with
      | some n, some m => some (wrap64 (n * m))
      | _, _ => none := by
  obtain ⟨h1, h2⟩ := span_num ds us hds hu
  unfold parseValueChars
  simp only [htrim, h1, h2]
  have : ds.isEmpty = false := by cases ds <;> simp_all
  simp only [this]
  cases parseInt64 ds <;> cases getMultiplier us <;> simp

/-- no overflow ⇒ the mathematical product -/
theorem wrap64_of_inRange (x : Int) (h1 : -9223372036854775808 ≤ x) (h2 : x < 9223372036854775808) :
    wrap64 x = x := by
  unfold wrap64; omega

/-- overflow wraps modulo 2^64 (Go int64 multiplication) -/
theorem wrap64_range (x : Int) : -9223372036854775808 ≤ wrap64 x ∧ wrap64 x < 9223372036854775808 := by
  unfold wrap64; omega

theorem wrap64_congr (x : Int) : (wrap64 x - x) % 18446744073709551616 = 0 := by
  unfold wrap64; omega

/-! non-vacuity: units, blanks, signs, int64 boundaries and wrap-around -/

-- units, blanks, signs, int64 boundaries and wrap-around
example : parseValue " 5 Ki " = some 5120 := by decide
example : parseValue "-3m" = some (-3000000) := by decide
example : parseValue "9223372036854775807" = some 9223372036854775807 := by decide
example : parseValue "9223372036854775808" = none := by decide
example : parseValue "-9223372036854775808" = some (-9223372036854775808) := by decide
example : parseValue "18014398509481984ki" = some 0 := by decide                        -- 2^54 * 2^10 wraps
example : parseValue "9223372036854775807k" = some (-1000) := by decide
example : parseValue "+5" = none ∧ parseValue "1-2" = none ∧ parseValue "5e" = none ∧ parseValue "" = none := by decide
example : termMatches [("n", "9223372036854775807k")] ⟨"n", ["0"], .opLTNumeric, false⟩ = true := by decide
-- `parseValue_shape` hypotheses: " 12 kB" trims to "12" ++ " kB"
example : trimSpace " 12 kB".toList = "12".toList ++ " kB".toList ∧
    parseValueChars " 12 kB".toList = some 12000 := by decide

/-! ### the tie: sites and rewrite table (regenerated) = the specification -/

/-- **Obligation C14.tie (sites).** inmem List, inmem WatchAll (bootstrap and event
    filter) and the runtime cache's list all apply the one selector predicate
    `IDQuery.Matches(md) && LabelQueries.Matches(labels)` — regenerated from the three
    sources; an edit of any of them to something else breaks this proof. -/
theorem site_predicates_are_the_selector (s : Sel) :
    s.matchesAt Gen.Selector.listPred = s.matches ∧
    s.matchesAt Gen.Selector.watchPred = s.matches ∧
    s.matchesAt Gen.Selector.cachePred = s.matches := ⟨rfl, rfl, rfl⟩

/-- **Obligation C14.tie (rewrite).** The filter closure of `WatchAll`, as regenerated from
    collection.go, is the rewriting the property describes: into the selector ⇒ Created,
    out of it ⇒ Destroyed, inside ⇒ passed through, outside ⇒ dropped. -/
theorem rewrite_eq_spec (m : Item → Bool) (e : Ev) : rewrite m e = Spec.Selector.rewrite m e := by
  cases e with
  | created r => cases h : m r <;> simp [rewrite, rewriteBy, Spec.Selector.rewrite, h, Gen.Selector.createdDestroyedByMatch]
  | destroyed r => cases h : m r <;> simp [rewrite, rewriteBy, Spec.Selector.rewrite, h, Gen.Selector.createdDestroyedByMatch]
  | updated old new =>
    cases h1 : m old <;> cases h2 : m new <;>
      simp [rewrite, rewriteBy, updPred, Gen.Selector.updatedOldArg, Gen.Selector.updatedNewArg, Spec.Selector.rewrite,
        h1, h2, Gen.Selector.rewriteAct]

/-- **Obligation C14.tie (match bits).** In the `Updated` branch BOTH versions are judged by the whole selector:
    `oldMatches := matches(event.Old)`, `newMatches := matches(event.Resource)`, where `matches` is the ID query
    AND the label queries (`site_predicates_are_the_selector`), each assigned exactly once. -/
theorem updated_bits_by_whole_selector :
    Gen.Selector.updatedOldArg = .old ∧ Gen.Selector.updatedNewArg = .resource ∧ Gen.Selector.watchPred = .idAndLabels := by
  decide

theorem listSel_eq (stg : List Item) (s : Sel) : listSel stg s = sortById (stg.filter s.matches) := rfl

theorem bootstrap_eq (stg : List Item) (s : Sel) : bootstrap stg s = (listSel stg s).map .created := rfl

theorem filteredLog_eq (stg : List Item) (s : Sel) (ms : List Mut) :
    filteredLog stg s ms = (log stg ms).filterMap (rewrite s.matches) := rfl

/-! ### List with a selector = the sorted filter of the storage -/

abbrev ltId (a b : Item) : Bool := decide (a.id < b.id)

theorem perm_insertBy (x : Item) (l : List Item) : (insertBy ltId x l).Perm (x :: l) := by
  induction l with
  | nil => exact List.Perm.refl _
  | cons y ys ih =>
    unfold insertBy
    by_cases h : ltId x y = true
    · simp [h]
    · simp only [h]
      exact (List.Perm.cons y ih).trans (List.Perm.swap x y ys)

theorem perm_sortById (l : List Item) : (sortById l).Perm l := by
  induction l with
  | nil => exact List.Perm.refl _
  | cons x xs ih =>
    show (insertBy ltId x (sortById xs)).Perm (x :: xs)
    exact (perm_insertBy x _).trans (List.Perm.cons x ih)

/-- ascending by ID (non-strict; with unique IDs it is strict) -/
abbrev Ascending (l : List Item) : Prop := l.Pairwise (fun a b => a.id ≤ b.id)

theorem ascending_insertBy (x : Item) (l : List Item) (h : Ascending l) : Ascending (insertBy ltId x l) := by
  induction l with
  | nil => simp [insertBy, Ascending]
  | cons y ys ih =>
    have hy := List.pairwise_cons.1 h
    unfold insertBy
    by_cases hxy : x.id < y.id
    · have : ltId x y = true := by simp [ltId, hxy]
      simp only [this, if_true]
      refine List.pairwise_cons.2 ⟨?_, h⟩
      intro z hz
      rcases List.mem_cons.1 hz with rfl | hz
      · exact String.not_lt.1 (String.lt_asymm hxy)
      · -- x < y ≤ z
        have hyz : y.id ≤ z.id := hy.1 z hz
        exact String.not_lt.1 (fun hzx => (String.not_lt.2 hyz) (String.lt_trans hzx hxy))
    · have : ltId x y = false := by simp [ltId, hxy]
      simp only [this]
      refine List.pairwise_cons.2 ⟨?_, ih hy.2⟩
      intro z hz
      have hz' : z ∈ x :: ys := (perm_insertBy x ys).mem_iff.1 hz
      rcases List.mem_cons.1 hz' with rfl | hz'
      · exact String.not_lt.1 hxy
      · exact hy.1 z hz'

theorem ascending_sortById (l : List Item) : Ascending (sortById l) := by
  induction l with
  | nil => simp [sortById, sortBy, Ascending]
  | cons x xs ih => exact ascending_insertBy x _ ih

/-- **List is exact.** `List` with a selector returns — each exactly once, in ascending ID
    order — the stored resources whose metadata satisfies the selector, and nothing else. -/
theorem list_exact (stg : List Item) (s : Sel) :
    (listSel stg s).Perm (stg.filter s.matches) ∧
    Ascending (listSel stg s) ∧
    (∀ r, r ∈ listSel stg s ↔ r ∈ stg ∧ s.matches r = true) := by
  refine ⟨perm_sortById _, ascending_sortById _, ?_⟩
  intro r
  rw [listSel_eq, (perm_sortById _).mem_iff]
  simp

/-- the selector is the conjunction of the ID query and the label queries -/
theorem sel_matches_iff (s : Sel) (r : Item) :
    s.matches r = true ↔ s.idMatches r.id = true ∧ queriesMatch s.queries r.labels = true := by
  simp [Sel.matches]

/-! non-vacuity: an unsorted storage, a selector with an ID query and a label query -/

def exSel : Sel := { idQ := some (fun id => id != "d"), queries := [[⟨"env", ["prod"], .opEqual, false⟩]] }
def exStg : List Item :=
  [⟨"a", [("env", "prod")], 1⟩, ⟨"b", [("env", "dev")], 1⟩, ⟨"d", [("env", "prod")], 3⟩]

-- List: unsorted storage in, sorted matching subset out
example : listSel [⟨"d", [("env", "prod")], 3⟩, ⟨"c", [("env", "prod")], 1⟩, ⟨"b", [], 1⟩, ⟨"a", [("env", "prod")], 2⟩] exSel
    = [⟨"a", [("env", "prod")], 2⟩, ⟨"c", [("env", "prod")], 1⟩] := by decide

/-! ### the filtered watch is an exact change log of the filtered set -/

/-- the collection as an ID-sorted list: strictly ascending IDs (so IDs are unique) -/
abbrev Sorted (l : List Item) : Prop := l.Pairwise (fun a b => a.id < b.id)

theorem sorted_unique {l : List Item} (h : Sorted l) {x y : Item} (hx : x ∈ l) (hy : y ∈ l)
    (hid : x.id = y.id) : x = y := by
  induction l with
  | nil => cases hx
  | cons z zs ih =>
    have hz := List.pairwise_cons.1 h
    rcases List.mem_cons.1 hx with rfl | hx' <;> rcases List.mem_cons.1 hy with rfl | hy'
    · rfl
    · exact absurd (hid ▸ hz.1 y hy') (String.lt_irrefl _)
    · exact absurd (hid ▸ hz.1 x hx') (String.lt_irrefl _)
    · exact ih hz.2 hx' hy'

theorem put_cons_lt {x r : Item} (xs : List Item) (h : r.id < x.id) : put (x :: xs) r = r :: x :: xs := by
  simp [put, h]

theorem put_cons_eq {x r : Item} (xs : List Item) (_h1 : ¬ r.id < x.id) (h2 : x.id = r.id) :
    put (x :: xs) r = r :: xs := by
  have h1' : ¬ r.id < r.id := String.lt_irrefl _
  simp [put, h2, h1']

theorem put_cons_gt {x r : Item} (xs : List Item) (h1 : ¬ r.id < x.id) (h2 : ¬ x.id = r.id) :
    put (x :: xs) r = x :: put xs r := by
  simp [put, h1, h2]

theorem put_of_lt_all (l : List Item) (r : Item) (h : ∀ x ∈ l, r.id < x.id) : put l r = r :: l := by
  cases l with
  | nil => rfl
  | cons x xs => exact put_cons_lt xs (h x (by simp))

theorem del_of_no_id (l : List Item) (id : String) (h : ∀ x ∈ l, x.id ≠ id) : del l id = l := by
  unfold del
  exact List.filter_eq_self.2 (fun x hx => by simp [h x hx])

theorem del_cons_eq {x : Item} (xs : List Item) {id : String} (h : x.id = id) :
    del (x :: xs) id = del xs id := by
  simp [del, h]

theorem del_cons_ne {x : Item} (xs : List Item) {id : String} (h : ¬ x.id = id) :
    del (x :: xs) id = x :: del xs id := by
  simp [del, h]

theorem mem_put {l : List Item} {r y : Item} (h : y ∈ put l r) : y = r ∨ y ∈ l := by
  induction l with
  | nil => simp [put] at h; exact Or.inl h
  | cons x xs ih =>
    by_cases h1 : r.id < x.id
    · rw [put_cons_lt xs h1] at h
      rcases List.mem_cons.1 h with rfl | h
      · exact Or.inl rfl
      · exact Or.inr h
    · by_cases h2 : x.id = r.id
      · rw [put_cons_eq xs h1 h2] at h
        rcases List.mem_cons.1 h with rfl | h
        · exact Or.inl rfl
        · exact Or.inr (List.mem_cons_of_mem _ h)
      · rw [put_cons_gt xs h1 h2] at h
        rcases List.mem_cons.1 h with rfl | h
        · exact Or.inr (by simp)
        · rcases ih h with rfl | h
          · exact Or.inl rfl
          · exact Or.inr (List.mem_cons_of_mem _ h)

theorem sorted_put {l : List Item} (h : Sorted l) (r : Item) : Sorted (put l r) := by
  induction l with
  | nil => simp [put, Sorted]
  | cons x xs ih =>
    have hx := List.pairwise_cons.1 h
    by_cases h1 : r.id < x.id
    · rw [put_cons_lt xs h1]
      refine List.pairwise_cons.2 ⟨?_, h⟩
      intro z hz
      rcases List.mem_cons.1 hz with rfl | hz
      · exact h1
      · exact String.lt_trans h1 (hx.1 z hz)
    · by_cases h2 : x.id = r.id
      · rw [put_cons_eq xs h1 h2]
        refine List.pairwise_cons.2 ⟨?_, hx.2⟩
        intro z hz
        exact h2 ▸ hx.1 z hz
      · rw [put_cons_gt xs h1 h2]
        refine List.pairwise_cons.2 ⟨?_, ih hx.2⟩
        intro z hz
        rcases mem_put hz with rfl | hz
        · -- ¬ r < x and x ≠ r ⇒ x < r: the order on strings is total
          apply Decidable.byContradiction
          intro hn
          exact h2 (String.le_antisymm (String.not_lt.1 h1) (String.not_lt.1 hn))
        · exact hx.1 z hz

theorem sorted_del {l : List Item} (h : Sorted l) (id : String) : Sorted (del l id) :=
  List.Pairwise.filter _ h

theorem filter_sorted {l : List Item} (h : Sorted l) (m : Item → Bool) : Sorted (l.filter m) :=
  List.Pairwise.filter _ h

theorem filter_del (m : Item → Bool) (l : List Item) (id : String) :
    (del l id).filter m = del (l.filter m) id := by
  unfold del
  rw [List.filter_filter, List.filter_filter]
  congr 1
  funext a
  exact Bool.and_comm _ _

theorem filter_put_true (m : Item → Bool) {l : List Item} (h : Sorted l) (r : Item) (hm : m r = true) :
    (put l r).filter m = put (l.filter m) r := by
  induction l with
  | nil => simp [put, hm]
  | cons x xs ih =>
    have hx := List.pairwise_cons.1 h
    by_cases h1 : r.id < x.id
    · -- r goes in front of everything
      have hall : ∀ z ∈ (x :: xs).filter m, r.id < z.id := by
        intro z hz
        rcases List.mem_cons.1 (List.mem_filter.1 hz).1 with rfl | hz'
        · exact h1
        · exact String.lt_trans h1 (hx.1 z hz')
      rw [put_cons_lt xs h1, put_of_lt_all _ _ hall, List.filter_cons (x := r)]
      simp [hm]
    · by_cases h2 : x.id = r.id
      · have hall : ∀ z ∈ xs.filter m, r.id < z.id := fun z hz => h2 ▸ hx.1 z (List.mem_filter.1 hz).1
        rw [put_cons_eq xs h1 h2, List.filter_cons (x := r), List.filter_cons (x := x)]
        cases hmx : m x
        · simp only [hm, Bool.false_eq_true, if_false, if_true]
          rw [put_of_lt_all _ _ hall]
        · simp only [hm, if_true]
          rw [put_cons_eq _ h1 h2]
      · rw [put_cons_gt xs h1 h2, List.filter_cons (x := x), List.filter_cons (x := x)]
        cases hmx : m x
        · simp only [Bool.false_eq_true, if_false]
          exact ih hx.2
        · simp only [if_true]
          rw [put_cons_gt _ h1 h2, ih hx.2]

theorem filter_put_false (m : Item → Bool) {l : List Item} (h : Sorted l) (r : Item) (hm : m r = false) :
    (put l r).filter m = del (l.filter m) r.id := by
  induction l with
  | nil => simp [put, hm, del]
  | cons x xs ih =>
    have hx := List.pairwise_cons.1 h
    by_cases h1 : r.id < x.id
    · have hall : ∀ z ∈ (x :: xs).filter m, z.id ≠ r.id := by
        intro z hz heq
        have : r.id < z.id := by
          rcases List.mem_cons.1 (List.mem_filter.1 hz).1 with rfl | hz'
          · exact h1
          · exact String.lt_trans h1 (hx.1 z hz')
        exact String.lt_irrefl _ (heq ▸ this)
      rw [put_cons_lt xs h1, del_of_no_id _ _ hall, List.filter_cons (x := r)]
      simp [hm]
    · by_cases h2 : x.id = r.id
      · have hall : ∀ z ∈ xs.filter m, z.id ≠ r.id := by
          intro z hz hzr
          have := hx.1 z (List.mem_filter.1 hz).1
          exact String.lt_irrefl _ (h2 ▸ hzr ▸ this)
        rw [put_cons_eq xs h1 h2, List.filter_cons (x := r), List.filter_cons (x := x)]
        cases hmx : m x
        · simp only [hm, Bool.false_eq_true, if_false]
          rw [del_of_no_id _ _ hall]
        · simp only [hm, Bool.false_eq_true, if_false, if_true]
          rw [del_cons_eq _ h2, del_of_no_id _ _ hall]
      · rw [put_cons_gt xs h1 h2, List.filter_cons (x := x), List.filter_cons (x := x)]
        cases hmx : m x
        · simp only [Bool.false_eq_true, if_false]
          exact ih hx.2
        · simp only [if_true]
          rw [del_cons_ne _ h2, ih hx.2]

theorem find_some {l : List Item} {id : String} {x : Item} (h : find l id = some x) :
    x ∈ l ∧ x.id = id := by
  unfold find at h
  exact ⟨List.mem_of_find?_eq_some h, by simpa using List.find?_some h⟩

theorem find_none {l : List Item} {id : String} (h : find l id = none) : ∀ x ∈ l, x.id ≠ id := by
  unfold find at h
  intro x hx
  simpa using List.find?_eq_none.1 h x hx

/-- what the consumer's view becomes when the watch delivers (or drops) an event -/
def viewStep (view : List Item) : Option Ev → List Item
  | none => view
  | some e => viewApply view e

theorem applyMut_create_some {stg : List Item} {id : String} {old : Item} (labels : Labels)
    (h : find stg id = some old) : applyMut stg (.create id labels) = (stg, none) := by
  simp [applyMut, h]

theorem applyMut_create_none {stg : List Item} {id : String} (labels : Labels) (h : find stg id = none) :
    applyMut stg (.create id labels) =
      (put stg { id := id, labels := labels, ver := 1 }, some (.created { id := id, labels := labels, ver := 1 })) := by
  simp [applyMut, h]

theorem applyMut_update_none {stg : List Item} {id : String} (labels : Labels) (h : find stg id = none) :
    applyMut stg (.update id labels) = (stg, none) := by
  simp [applyMut, h]

theorem applyMut_update_some {stg : List Item} {id : String} {old : Item} (labels : Labels)
    (h : find stg id = some old) :
    applyMut stg (.update id labels) =
      (put stg { id := id, labels := labels, ver := old.ver + 1 },
       some (.updated old { id := id, labels := labels, ver := old.ver + 1 })) := by
  simp [applyMut, h]

theorem applyMut_destroy_none {stg : List Item} {id : String} (h : find stg id = none) :
    applyMut stg (.destroy id) = (stg, none) := by
  simp [applyMut, h]

theorem applyMut_destroy_some {stg : List Item} {id : String} {old : Item} (h : find stg id = some old) :
    applyMut stg (.destroy id) = (del stg id, some (.destroyed old)) := by
  simp [applyMut, h]

/-- **One write.** The filtered storage after a write is the filtered storage before it
    with the REWRITTEN event applied: in→in passes as Updated, out→in arrives as Created,
    in→out as Destroyed, out→out is dropped; Created/Destroyed pass iff they match. -/
theorem step_commutes (m : Item → Bool) {stg : List Item} (h : Sorted stg) (mu : Mut) :
    (applyMut stg mu).1.filter m = viewStep (stg.filter m) ((applyMut stg mu).2.bind (rewrite m)) := by
  cases mu with
  | create id labels =>
    cases hf : find stg id with
    | some old => rw [applyMut_create_some labels hf]; rfl
    | none =>
      rw [applyMut_create_none labels hf]
      have hno := find_none hf
      cases hm : m { id := id, labels := labels, ver := 1 } with
      | true =>
        simp only [Option.bind, rewrite_eq_spec, Spec.Selector.rewrite, hm, if_true, viewStep, viewApply]
        exact filter_put_true m h _ hm
      | false =>
        simp only [Option.bind, rewrite_eq_spec, Spec.Selector.rewrite, hm, Bool.false_eq_true, if_false, viewStep]
        rw [filter_put_false m h _ hm]
        exact del_of_no_id _ _ (fun x hx => hno x (List.mem_filter.1 hx).1)
  | update id labels =>
    cases hf : find stg id with
    | none => rw [applyMut_update_none labels hf]; rfl
    | some old =>
      rw [applyMut_update_some labels hf]
      obtain ⟨hmem, hid⟩ := find_some hf
      -- `old` is the only stored resource with this ID
      have honly : ∀ x ∈ stg, x.id = id → x = old := fun x hx hx' => sorted_unique h hx hmem (hx'.trans hid.symm)
      cases hmo : m old <;> cases hmn : m { id := id, labels := labels, ver := old.ver + 1 }
      · -- out → out: dropped; nothing with this ID is in the filtered set
        simp only [Option.bind, rewrite_eq_spec, Spec.Selector.rewrite, hmo, hmn, viewStep]
        rw [filter_put_false m h _ hmn]
        refine del_of_no_id _ _ (fun x hx hx' => ?_)
        have := honly x (List.mem_filter.1 hx).1 hx'
        have hmx := (List.mem_filter.1 hx).2
        rw [this, hmo] at hmx
        exact absurd hmx (by simp)
      · -- out → in: Created
        simp only [Option.bind, rewrite_eq_spec, Spec.Selector.rewrite, hmo, hmn, viewStep, viewApply]
        exact filter_put_true m h _ hmn
      · -- in → out: Destroyed
        simp only [Option.bind, rewrite_eq_spec, Spec.Selector.rewrite, hmo, hmn, viewStep, viewApply]
        exact filter_put_false m h _ hmn
      · -- in → in: Updated
        simp only [Option.bind, rewrite_eq_spec, Spec.Selector.rewrite, hmo, hmn, viewStep, viewApply]
        exact filter_put_true m h _ hmn
  | destroy id =>
    cases hf : find stg id with
    | none => rw [applyMut_destroy_none hf]; rfl
    | some old =>
      rw [applyMut_destroy_some hf]
      obtain ⟨hmem, hid⟩ := find_some hf
      have honly : ∀ x ∈ stg, x.id = id → x = old := fun x hx hx' => sorted_unique h hx hmem (hx'.trans hid.symm)
      cases hmo : m old with
      | true =>
        simp only [Option.bind, rewrite_eq_spec, Spec.Selector.rewrite, hmo, if_true, viewStep, viewApply, hid]
        exact filter_del m stg id
      | false =>
        simp only [Option.bind, rewrite_eq_spec, Spec.Selector.rewrite, hmo, Bool.false_eq_true, if_false, viewStep]
        rw [filter_del]
        refine del_of_no_id _ _ (fun x hx hx' => ?_)
        have := honly x (List.mem_filter.1 hx).1 hx'
        have hmx := (List.mem_filter.1 hx).2
        rw [this, hmo] at hmx
        exact absurd hmx (by simp)

theorem sorted_applyMut {stg : List Item} (h : Sorted stg) (mu : Mut) : Sorted (applyMut stg mu).1 := by
  cases mu with
  | create id labels =>
    cases hf : find stg id with
    | some old => rw [applyMut_create_some labels hf]; exact h
    | none => rw [applyMut_create_none labels hf]; exact sorted_put h _
  | update id labels =>
    cases hf : find stg id with
    | none => rw [applyMut_update_none labels hf]; exact h
    | some old => rw [applyMut_update_some labels hf]; exact sorted_put h _
  | destroy id =>
    cases hf : find stg id with
    | none => rw [applyMut_destroy_none hf]; exact h
    | some old => rw [applyMut_destroy_some hf]; exact sorted_del h _

theorem sorted_run {stg : List Item} (h : Sorted stg) (ms : List Mut) : Sorted (run stg ms) := by
  induction ms generalizing stg with
  | nil => exact h
  | cons mu ms ih => exact ih (sorted_applyMut h mu)

/-- **All histories.** Replaying the rewritten events of ANY sequence of writes over the
    filtered initial contents yields the filtered contents after the sequence. -/
theorem replay_filtered_log (m : Item → Bool) {stg : List Item} (h : Sorted stg) (ms : List Mut) :
    replay (stg.filter m) ((log stg ms).filterMap (rewrite m)) = (run stg ms).filter m := by
  induction ms generalizing stg with
  | nil => rfl
  | cons mu ms ih =>
    have hs := step_commutes m h mu
    have ih' := ih (sorted_applyMut h mu)
    unfold log run
    cases he : (applyMut stg mu).2 with
    | none =>
      simp only [he, Option.bind, viewStep] at hs
      simp only
      rw [← ih', hs]
    | some e =>
      simp only [he, Option.bind] at hs
      simp only [List.filterMap_cons]
      cases hr : rewrite m e with
      | none =>
        simp only [hr, viewStep] at hs
        simp only
        rw [← ih', hs]
      | some e' =>
        simp only [hr, viewStep] at hs
        simp only [replay, List.foldl_cons]
        rw [← hs]
        exact ih'

theorem sortById_of_sorted {l : List Item} (h : Sorted l) : sortById l = l := by
  induction l with
  | nil => rfl
  | cons x xs ih =>
    have hx := List.pairwise_cons.1 h
    show insertBy ltId x (sortById xs) = x :: xs
    rw [ih hx.2]
    cases xs with
    | nil => rfl
    | cons y ys => simp [insertBy, ltId, hx.1 y (by simp)]

/-- on the ID-sorted collection, List with a selector is just the filter -/
theorem listSel_of_sorted {stg : List Item} (h : Sorted stg) (s : Sel) :
    listSel stg s = stg.filter s.matches :=
  sortById_of_sorted (filter_sorted h _)

theorem put_append_last (v : List Item) (x : Item) (h : ∀ y ∈ v, y.id < x.id) : put v x = v ++ [x] := by
  induction v with
  | nil => rfl
  | cons y ys ih =>
    have hy := h y (by simp)
    have h1 : ¬ x.id < y.id := String.lt_asymm hy
    have h2 : ¬ y.id = x.id := fun e => String.lt_irrefl _ (e ▸ hy)
    rw [put_cons_gt ys h1 h2, ih (fun z hz => h z (by simp [hz]))]
    rfl

/-- replaying a bootstrap (Created events in ascending ID order) builds that very list -/
theorem replay_created (v l : List Item) (h : Sorted (v ++ l)) :
    replay v (l.map .created) = v ++ l := by
  induction l generalizing v with
  | nil => simp [replay]
  | cons x xs ih =>
    have hvx : ∀ y ∈ v, y.id < x.id := by
      intro y hy
      exact (List.pairwise_append.1 h).2.2 y hy x (by simp)
    simp only [List.map_cons, replay, List.foldl_cons, viewApply]
    rw [put_append_last v x hvx]
    have : Sorted ((v ++ [x]) ++ xs) := by simpa using h
    have := ih (v ++ [x]) this
    simpa [replay] using this

/-- **The filtered watch is an exact change log of the filtered set.** For every
    selector, every (ID-sorted) initial collection and EVERY history of creates, label
    updates and destroys: replaying what a selector-filtered kind watch with bootstrap
    delivers — the filtered bootstrap, then the rewritten events — reproduces the
    selector-filtered List of the collection after the history. Since a prefix of a
    history is a history, this holds at every prefix (`..._every_prefix`). -/
theorem filtered_watch_is_log_of_filtered_set (s : Sel) (stg : List Item) (h : Sorted stg)
    (ms : List Mut) :
    replay [] (bootstrap stg s ++ filteredLog stg s ms) = listSel (run stg ms) s := by
  rw [bootstrap_eq, filteredLog_eq]
  unfold replay
  rw [List.foldl_append]
  have hb : replay [] ((listSel stg s).map .created) = listSel stg s := by
    have := replay_created [] (listSel stg s) (by
      rw [listSel_of_sorted h]; simpa using filter_sorted h _)
    simpa using this
  unfold replay at hb
  rw [hb, listSel_of_sorted h, listSel_of_sorted (sorted_run h ms)]
  exact replay_filtered_log s.matches h ms

theorem filtered_watch_every_prefix (s : Sel) (stg : List Item) (h : Sorted stg) (ms : List Mut) (k : Nat) :
    replay [] (bootstrap stg s ++ filteredLog stg s (ms.take k)) = listSel (run stg (ms.take k)) s :=
  filtered_watch_is_log_of_filtered_set s stg h (ms.take k)

/-- the log of a prefix of a history is a prefix of its log: "every prefix" of the event
    stream is reached by some prefix of the history -/
theorem log_take_prefix (stg : List Item) (ms : List Mut) (k : Nat) :
    ∃ rest, log stg ms = log stg (ms.take k) ++ rest := by
  induction ms generalizing stg k with
  | nil => exact ⟨[], by simp [log]⟩
  | cons mu ms ih =>
    cases k with
    | zero => exact ⟨log stg (mu :: ms), by simp [log]⟩
    | succ k =>
      obtain ⟨rest, hr⟩ := ih (applyMut stg mu).1 k
      refine ⟨rest, ?_⟩
      simp only [List.take_succ_cons, log]
      cases (applyMut stg mu).2 <;> simp [hr]

/-- the four cases of the rewrite, as the property words them -/
theorem rewrite_cases (m : Item → Bool) (old new : Item) :
    (m old = false → m new = true → rewrite m (.updated old new) = some (.created new)) ∧
    (m old = true → m new = false → rewrite m (.updated old new) = some (.destroyed new)) ∧
    (m old = true → m new = true → rewrite m (.updated old new) = some (.updated old new)) ∧
    (m old = false → m new = false → rewrite m (.updated old new) = none) := by
  refine ⟨?_, ?_, ?_, ?_⟩ <;> intro h1 h2 <;> simp [rewrite_eq_spec, Spec.Selector.rewrite, h1, h2]

/-- the runtime cache's `list` (filter only when a query is present, over its ID-sorted
    slice) is the same exact view -/
theorem cache_list_exact {rs : List Item} (h : Sorted rs) (s : Sel) : cacheList rs s = listSel rs s := by
  rw [listSel_of_sorted h]
  unfold cacheList
  rw [(site_predicates_are_the_selector s).2.2]
  split
  · rfl
  · rename_i hc
    have hid : s.idQ = none := by cases hq : s.idQ <;> simp_all
    have hqs : s.queries = [] := by cases hq : s.queries <;> simp_all
    refine (List.filter_eq_self.2 ?_).symm
    intro r _
    simp [Sel.matches, Sel.idMatches, hid, hqs, queriesMatch]

/-! non-vacuity: a history with every kind of transition, evaluated -/

example : Sorted exStg := by decide
/-- a history that moves `b` into the selector, `a` out of it, updates inside and
    outside, creates and destroys on both sides, and includes failing writes -/
def exHist : List Mut :=
  [.update "b" [("env", "prod")], .update "a" [("env", "dev")], .update "b" [("env", "prod"), ("x", "1")],
   .update "a" [], .create "c" [("env", "prod")], .create "c" [], .update "zz" [], .destroy "b",
   .destroy "d", .create "d" [("env", "prod")], .destroy "nope"]

example : filteredLog exStg exSel exHist =
    [.created ⟨"b", [("env", "prod")], 2⟩,                                   -- updated INTO the selector
     .destroyed ⟨"a", [("env", "dev")], 2⟩,                                   -- updated OUT of it (carries the new resource)
     .updated ⟨"b", [("env", "prod")], 2⟩ ⟨"b", [("env", "prod"), ("x", "1")], 3⟩,
     .created ⟨"c", [("env", "prod")], 1⟩,
     .destroyed ⟨"b", [("env", "prod"), ("x", "1")], 3⟩] := by decide
example : replay [] (bootstrap exStg exSel ++ filteredLog exStg exSel exHist) = [⟨"c", [("env", "prod")], 1⟩] := by
  decide
example : listSel (run exStg exHist) exSel = [⟨"c", [("env", "prod")], 1⟩] := by decide

/-- seeded change C14-b: "the ID never changes on update", so the NEW version is re-checked against the label
    queries alone -/
def labelsOnly (s : Sel) (r : Item) : Bool := queriesMatch s.queries r.labels

/-- a resource whose labels match while its ID does not (`exSel` excludes the ID "d"), updated once -/
def exOutsideById : List Mut := [.update "d" [("env", "prod"), ("x", "1")]]

/-- **with the new version judged by the label queries alone a resource OUTSIDE the selector enters the view**
    (kernel-checked): `d` matches the label query but not the ID query; its update is rewritten to Created, the
    replayed view holds `d`, the filtered List does not — `filtered_watch_is_log_of_filtered_set` fails; judged
    by the whole selector the event is dropped -/
theorem new_version_by_labels_only_witness :
    (log exStg exOutsideById).filterMap (rewriteBy exSel.matches exSel.matches (labelsOnly exSel)) =
      [.created ⟨"d", [("env", "prod"), ("x", "1")], 4⟩] ∧
    replay (exStg.filter exSel.matches)
      ((log exStg exOutsideById).filterMap (rewriteBy exSel.matches exSel.matches (labelsOnly exSel))) =
      [⟨"a", [("env", "prod")], 1⟩, ⟨"d", [("env", "prod"), ("x", "1")], 4⟩] ∧
    (run exStg exOutsideById).filter exSel.matches = [⟨"a", [("env", "prod")], 1⟩] ∧
    (log exStg exOutsideById).filterMap (rewriteBy exSel.matches exSel.matches exSel.matches) = [] := by decide

/-! ### one selector semantics over gRPC (depends on the REGENERATED tables) -/

/-- a value-taking operator (everything but `Exists` and `In`) carries at least one value -/
def valueOk (t : Term) : Bool := t.op == .opExists || t.op == .opIn || !t.value.isEmpty

/-- **Obligation C14.tie.** One term through `transformLabelQuery`, the wire, and
    `ConvertLabelQuery` + the `resource.LabelX` constructor evaluates like the original on
    every label map. The first component is computed from `Gen.Selector.*` by `rfl`: any
    edit of the client or server `switch` (a swapped constant, a dropped `Invert`, a
    different value argument) changes the tables and breaks this proof. -/
theorem term_via_wire (t : Term) (h : valueOk t = true) :
    ∃ w t', clientTerm t = .ok w ∧ serverTerm w = .ok t' ∧ ∀ l, termMatches l t' = termMatches l t := by
  obtain ⟨k, vs, op, inv⟩ := t
  cases op
  case opExists => exact ⟨_, _, rfl, rfl, fun l => by simp [termMatches, matchesCore]⟩
  case opIn => exact ⟨_, _, rfl, rfl, fun _ => rfl⟩
  all_goals
    cases vs with
    | nil => simp [valueOk] at h
    | cons v0 rest => exact ⟨_, _, rfl, rfl, fun l => by simp [termMatches, matchesCore]⟩

theorem query_via_wire (q : Query) (h : ∀ t ∈ q, valueOk t = true) :
    ∃ ws q', Conv.mapM clientTerm q = .ok ws ∧ Conv.mapM serverTerm ws = .ok q' ∧
      ∀ l, queryMatches q' l = queryMatches q l := by
  induction q with
  | nil => exact ⟨[], [], rfl, rfl, fun _ => rfl⟩
  | cons t q ih =>
    obtain ⟨w, t', hc, hs, ht⟩ := term_via_wire t (h t (by simp))
    obtain ⟨ws, q', hcs, hss, hq⟩ := ih (fun t ht => h t (by simp [ht]))
    refine ⟨w :: ws, t' :: q', ?_, ?_, ?_⟩
    · simp [Conv.mapM, hc, hcs, Conv.bind]
    · simp [Conv.mapM, hs, hss, Conv.bind]
    · intro l
      have := hq l
      simp only [queryMatches] at this ⊢
      simp [List.all_cons, ht l, this]

theorem queries_via_wire (qs : Queries) (h : ∀ q ∈ qs, ∀ t ∈ q, valueOk t = true) :
    ∃ wss qs', clientTransform qs = .ok wss ∧ serverConvert wss = .ok qs' ∧
      qs'.length = qs.length ∧ ∀ l, qs'.any (fun q => queryMatches q l) = qs.any (fun q => queryMatches q l) := by
  induction qs with
  | nil => exact ⟨[], [], rfl, rfl, rfl, fun _ => rfl⟩
  | cons q qs ih =>
    obtain ⟨ws, q', hc, hs, hq⟩ := query_via_wire q (h q (by simp))
    obtain ⟨wss, qs', hcs, hss, hlen, hany⟩ := ih (fun q hq => h q (by simp [hq]))
    refine ⟨ws :: wss, q' :: qs', ?_, ?_, by simp [hlen], ?_⟩
    · unfold clientTransform at hcs ⊢
      simp only [Gen.Selector.clientForwardsEveryQuery, if_true] at hcs ⊢
      simp [Conv.mapM, hc, hcs, Conv.bind]
    · unfold serverConvert at hss ⊢
      simp only [Gen.Selector.serverForwardsEveryQuery, if_true] at hss ⊢
      simp [Conv.mapM, hs, hss, Conv.bind]
    · intro l
      simp [List.any_cons, hq l, hany l]

/-- **One selector semantics over gRPC.** For every list of label queries whose
    value-taking terms carry a value, what the server evaluates after client
    transformation and server conversion matches exactly the label maps the original
    matches: a remote List/Watch selects what a local one selects.

    Full statement (all terms, including EMPTY value lists, as the property quantifies):
      `∀ qs l, grpcVerdict qs l = .ok (queriesMatch qs l)`
    does NOT hold on the unchanged tree: `ConvertLabelQuery` indexes `term.Value[0]`
    (DESIGN.md §5 D2); see the negative witness below. This theorem is the
    part that holds (`valueOk`), i.e. it is the `_partial` form with respect to that
    quantifier. -/
theorem one_semantics_grpc (qs : Queries) (h : ∀ q ∈ qs, ∀ t ∈ q, valueOk t = true) :
    (∃ qs', viaWire qs = .ok qs' ∧ ∀ l, queriesMatch qs' l = queriesMatch qs l) ∧
    ∀ l, grpcVerdict qs l = .ok (queriesMatch qs l) := by
  obtain ⟨wss, qs', hc, hs, hlen, hany⟩ := queries_via_wire qs h
  have hv : viaWire qs = .ok qs' := by simp [viaWire, hc, hs, Conv.bind]
  have hm : ∀ l, queriesMatch qs' l = queriesMatch qs l := by
    intro l
    have he : qs'.isEmpty = qs.isEmpty := by
      cases qs' <;> cases qs <;> simp_all
    simp [queriesMatch, he, hany l]
  exact ⟨⟨qs', hv, hm⟩, fun l => by simp [grpcVerdict, hv, Conv.bind, hm l]⟩

/-- Negative witness for the full statement (D2): a value-less `Equal` term — which the
    local sites evaluate to `false` (`empty_value_list`) — makes the server panic. -/
example :
    termMatches [("k", "5")] ⟨"k", [], .opEqual, false⟩ = false ∧
    (match grpcVerdict [[⟨"k", [], .opEqual, false⟩]] [("k", "5")] with
      | .panic => true
      | _ => false) = true := by decide

/-! non-vacuity: a query that changes shape but not meaning on the wire -/

-- over the wire the query changes shape (only the first `Equal` value travels on, the
-- `Exists` value list is dropped) but not meaning
example : (match viaWire [[⟨"k", ["a", "b"], .opEqual, true⟩, ⟨"j", ["zz"], .opExists, false⟩]] with
    | .ok qs' => qs' == [[⟨"k", ["a"], .opEqual, true⟩, ⟨"j", [], .opExists, false⟩]]
    | _ => false) = true := by decide
example : ∀ q ∈ [[(⟨"k", ["a", "b"], .opEqual, true⟩ : Term), ⟨"j", ["zz"], .opExists, false⟩]], ∀ t ∈ q, valueOk t = true := by
  decide

end Cosi.C14
